#!/usr/bin/env python3
"""Regenerates /verif/MANIFEST.json from the table below (one entry per property that has a check)."""
import json, os, subprocess
HERE = os.path.dirname(os.path.dirname(os.path.abspath(__file__)))

TB = ("Trusted: Coq 8.16.1 kernel (incl. vm_compute; no native_compute); tools/gen_consts.py; harness/driver.rs and the add-only hooks; "
      "extraction with ExtrOcamlBasic only + OCaml glue; the model/code correspondence is differential testing, not a proof of model = code. "
      "All theorems of the Props file are closed under the global context (no axioms) unless stated.")

CHECKS = {
 'C08': dict(
  text="All clauses of C08 are Coq theorems about the model of record/probe/clear for every operation history (induction over the history): refinement to last-store-per-slot, probe soundness incl. bound types and windows, mate re-basing, retrievability, clear, no i32 overflow / sentinel. The model is tied to the code by regenerated constants and by an engine-vs-extracted-model comparison on collision-heavy histories; a Coq monitor proved to accept the model judges the engine's own answers.",
  note=TB, tech="Coq proof (induction over op histories) + model/engine correspondence", ref="DESIGN.md 6 C08"),
 'C10': dict(
  text="The budget arithmetic of parse_go (after the fix commit 532621f) is modelled on Z with truncating division; C10_budget_fits / movetime_exact / unbounded_only / parse_go (any order and repetition of arguments, both colours) / no_overflow are proved for all clock values. Tie: the real parse_go with the search intercepted vs the extracted model on a dense boundary grid (>100k argument lists); search: the property's inequality on the engine's answers. The pre-fix arithmetic is kept and proved to violate each clause (documented finding F6).",
  note=TB + " Modelled, not verified: str::parse of the numeric tokens (unwrap panics on malformed numbers), the 'random' sub-command.",
  tech="Coq proof (linear arithmetic over Z.quot) + model/engine correspondence", ref="DESIGN.md 6 C10"),
 'C15': dict(
  text="For every square and every 64-bit occupancy the table lookups (PEXT index into the generated real tables) equal the ray semantics: PEXT/PDEP algebra proved by induction over 64 bit positions, mask lemma, and a kernel-evaluated reflection over all 107,648 table entries and the 4x64 leaper entries. Gen/Tables.v is the build output itself, regenerated on every run; the real getters (real _pext_u64) are compared with the extracted specification on table indices and random occupancies.",
  note=TB + " Intel's definitions of PEXT/PDEP/POPCNT are taken as given (Model/Bits.v).",
  tech="Coq proof (induction + reflection over the complete generated table) + engine/spec correspondence", ref="DESIGN.md 6 C15"),
}

def main():
    hooks = subprocess.run(['git', '-C', '/repo', 'log', '--format=%h %s'], capture_output=True, text=True).stdout.splitlines()
    hook_commits = [l.split()[0] for l in hooks if l.split(' ', 1)[1].startswith('verif hook')]
    m = {
     "version": 1,
     "setup_cmd": "./setup.sh",
     "hooks": {"guard": "jence_verif",
               "enable": "RUSTFLAGS='--cfg jence_verif --check-cfg cfg(jence_verif)' JENCE_VERIF_DRIVER_DIR=/verif/harness CARGO_TARGET_DIR=/verif/.build/target cargo build --release --offline (in /repo)",
               "baseline_off_cmd": "cd /repo && cargo test --workspace --no-fail-fast --offline",
               "source_commits": hook_commits, "add_only": True},
     "engines": [{"name": "coq-proof+correspondence", "path": "/verif/check", "serves_properties": sorted(CHECKS),
                  "kind_free_text": "Coq 8.16 theorems about a hand-written Gallina model (coq/Model, coq/Spec, coq/Proofs, coq/Props) with constants regenerated from /repo on every run (tools/gen_consts.py) and a correspondence check that runs the extracted model (OCaml) and the real engine (in-crate driver under cfg jence_verif) on the same inputs"}],
     "checks": [], "notes": "see DESIGN.md; known_findings.json lists known / fixed findings", "not_applicable": []}
    for pid in sorted(CHECKS):
        c = CHECKS[pid]
        m["checks"].append({"property_id": pid, "quick_cmd": f"./check {pid} --tier quick", "thorough_cmd": f"./check {pid} --tier thorough",
            "evidence_file": f"/verif/evidence/{pid}.json", "replay_cmd_template": f"./check {pid} --replay {{path}}",
            "engine": "coq-proof+correspondence", "level_claimed": {"category": "proof", "text": c['text'], "design_ref": c['ref']},
            "level_note": c['note'], "technique": c['tech']})
    for i in range(1, 20):
        pid = f"C{i:02d}"
        if pid not in CHECKS:
            m["not_applicable"].append({"property_id": pid, "reason": "check not built yet (work in progress, DESIGN.md section 9 staging); the technique applies"})
    json.dump(m, open(os.path.join(HERE, 'MANIFEST.json'), 'w'), indent=1)
    print('MANIFEST.json:', len(m['checks']), 'checks,', len(m['not_applicable']), 'not yet claimed')

if __name__ == '__main__':
    main()
