#!/usr/bin/env python3
"""Regenerates /verif/MANIFEST.json from the table below (one entry per property that has a check)."""
import json, os, subprocess
HERE = os.path.dirname(os.path.dirname(os.path.abspath(__file__)))

TB = ("Trusted: Coq 8.16.1 kernel (incl. vm_compute; no native_compute); tools/gen_consts.py; harness/driver.rs and the add-only hooks; "
      "extraction with ExtrOcamlBasic only + OCaml glue; the model/code correspondence is differential testing, not a proof of model = code. "
      "All theorems of the Props file are closed under the global context (no axioms) unless stated.")

SB = ("searchcore stream: the real engine (hooks on: scripted polls, full event trace) vs the extracted search model on cold searches, shuffled games with warm TT and full history, "
      "stop injected at every poll index of small searches, fallback scenarios (stop at poll 0 / half-move clock 100 on seeds and playouts), TT-bypassed searches; the engine's answers are judged by extracted Coq monitors.")

CHECKS = {
 'C08': dict(
  text="All clauses of C08 are Coq theorems about the model of record/probe/clear for every operation history (induction over the history): refinement to last-store-per-slot, probe soundness incl. bound types and windows, mate re-basing, retrievability, clear, no i32 overflow / sentinel. The model is tied to the code by regenerated constants and by an engine-vs-extracted-model comparison on collision-heavy histories; a Coq monitor proved to accept the model judges the engine's own answers.",
  note=TB, tech="Coq proof (induction over op histories) + model/engine correspondence", ref="DESIGN.md 6 C08"),
 'C10': dict(
  text="The budget arithmetic of parse_go (after the fix commit 532621f) is modelled on Z with truncating division; C10_budget_fits / movetime_exact / unbounded_only / parse_go (any order and repetition of arguments, both colours) / no_overflow are proved for all clock values. Tie: the real parse_go with the search intercepted vs the extracted model on a dense boundary grid (>100k argument lists); search: the property's inequality on the engine's answers. The pre-fix arithmetic is kept and proved to violate each clause (documented finding F6).",
  note=TB + " Modelled, not verified: str::parse of the numeric tokens (unwrap panics on malformed numbers), the 'random' sub-command.",
  tech="Coq proof (linear arithmetic over Z.quot) + model/engine correspondence", ref="DESIGN.md 6 C10"),
 'C15': dict(
  text="For every square and every 64-bit occupancy the table lookups (PEXT index into the generated real tables) equal the ray semantics: PEXT/PDEP algebra proved by induction over 64 bit positions, mask lemma, and a kernel-evaluated reflection over all 107,648 table entries and the 4x64 leaper entries. Gen/Tables.v is the build output itself, regenerated on every run; the real getters (real _pext_u64) are compared with the extracted specification on table indices and random occupancies.",
  note=TB + " Intel's definitions of PEXT/PDEP/POPCNT are taken as given (Model/Bits.v).",
  tech="Coq proof (induction + reflection over the complete generated table) + engine/spec correspondence", ref="DESIGN.md 6 C15"),
 'C01': dict(
  text="Proved in Coq for ALL positions (no well-formedness assumption): the engine's two legality paths (filter generated moves with is_legal / try make_search_move and reject) accept exactly the same moves for both generators, and every generated en-passant move carries the capture flag. The full exactness statement w.r.t. the rules (C01_full, visible in Props/C01.v, not assumed) is decided on every run: a rules-of-chess specification written in Coq (Spec/ChessSpec.v) is extracted and its monitors (no duplicates, same set as the rules' legal moves over all candidate moves, capture-only generator = legal captures, in-check flag) judge the real engine's answers on seed families + playouts + mirrors; model = engine on the same positions (generation order, both legality paths).",
  note=TB + " PARTIAL: exactness for every legal position is not yet a theorem; it is checked by the extracted specification on generated positions (differential, not exhaustive). MoveList capacity 256 (`fits`) is a modelled boundary.",
  tech="Coq proof (legality paths agree, all positions) + extracted rules-of-chess monitor on engine answers", ref="DESIGN.md 6 C01"),
 'C02': dict(
  text="Proved in Coq for every position and every made move: side to move, half-move clock (u8 wrap explicit), full-move number (u16 wrap explicit), castling-rights mask and en-passant target after make_search_move. Placement and redundant sets (C02_full, visible, not assumed) are decided per run: the extracted monitor mon_make compares every successor the engine produces with Spec.apply on the 64-cell board and checks occupancy = unions, disjointness, one king per side; model = engine on all 21 fields of every successor.",
  note=TB + " PARTIAL: placement refinement is checked on generated positions, not proved for all.",
  tech="Coq proof (scalar fields, all positions) + extracted Spec.apply monitor on engine successors", ref="DESIGN.md 6 C02"),
 'C04': dict(
  text="Proved in Coq: the compiled key tables (all 849 entries, dumped by the driver) equal the model's recomputation from the seeds in the source; no zero, no repeated entry, no set of 1..4 distinct entries XORs to zero (kernel-evaluated reflection over the keys and their 359,976 pairwise XORs, lifted by lemmas); the from-scratch key is a function of placement/side/rights/ep only; the null move keeps stored key = recomputed key. The incremental update through make (C04_incremental_full, visible, not assumed) is decided per run on the engine itself (stored key vs its own from-scratch key after every move of every generated position) and by model = engine on both keys.",
  note=TB + " PARTIAL: incremental-update theorem not yet proved for all legal moves.",
  tech="Coq proof (reflection over the complete key tables + XOR algebra) + engine self-consistency stream", ref="DESIGN.md 6 C04"),
 'C14': dict(
  text="Proved in Coq for all positions and depths: the perft total is independent of the reduction schedule (any permutation and any bracketing of the per-move sub-counts, which is all rayon's sum may vary) and the depth-1 bulk count equals the make-path count. Exactness (C14_full, visible, not assumed) is decided per run: engine perft 1-2 on every generated position and perft 3 on seeds vs the extracted Spec.perft, and perft 3 under RAYON_NUM_THREADS in {1,2,16} (1..16 thorough) must agree.",
  note=TB + " Data-race freedom is Rust's type system (trusted). PARTIAL: exactness inherits C01/C02's status.",
  tech="Coq proof (schedule independence) + extracted Spec.perft on engine counts, thread sweep", ref="DESIGN.md 6 C14"),
 'C16': dict(
  text="Proved in Coq for every position: evaluate depends only on the piece sets (and their redundant unions) and the side to move, is negated when only the side to move is switched, and ignores castling rights, en-passant square, clocks and key. Mirror symmetry and the bound below the mate range (C16_bound_full visible, not assumed) are decided per run by the metamorphic relations on the real engine for every generated legal position (mirror, side flip, field perturbation, bound), and engine = model on all of them.",
  note=TB + " PARTIAL: mirror symmetry and bound are not yet theorems (mirror symmetry needs the hypothesis 'no pawn on back ranks', see DESIGN.md).",
  tech="Coq proof (purity, side antisymmetry) + metamorphic stream on the engine", ref="DESIGN.md 6 C16"),
 'C03': dict(
  text="Proved in Coq for every position (no well-formedness needed), depth, TT content, history, poll schedule and stop point k = 0,1,2,...: search() terminates and prints info lines followed by exactly one bestmove; whenever some generated move passes the legality test, that bestmove is a move the engine treats as legal -- generated and accepted by both legality paths (C03_bestmove_legal: the head of PV row 0 is only ever written with a generated move that make accepted; an empty PV falls back to the first legal move); every move prints as well-formed UCI notation (finite reflection). Rules-level legality of those moves is C01. " + SB,
  note=TB + " Real-time arrival of `stop` (thread + channel + clock) is runtime; the model covers it as 'some poll observes it' for every poll index. Findings F1, F2 fixed in /repo (d6061b3, ac47405). Clock-based budgets: C10.",
  tech="Coq proof (PV-head invariant through negamax for all schedules, termination, output shape, fallback, UCI syntax) + trace-exact correspondence + extracted monitor", ref="DESIGN.md 6 C03"),
 'C06': dict(
  text="Proved in Coq for every position / depth / TT / history / schedule: the search never exhausts the model's fuel (the ply guard bounds the recursion; part of the balance induction) and move ordering is a permutation. Per node (legal position, consistent key, reached from its parent by one legal move or a pass while not in check, ply limit) and per verdict (no legal move; mate iff in check) the statement C06_full (visible, not assumed) is decided per run by the extracted monitor mon_nodes on the real engine's hook trace, and engine trace = model trace event by event. searchcore stream: the real engine (hooks on: scripted polls, full event trace) vs the extracted search model on cold searches, shuffled games with warm TT and full history, stop injected at every poll index of small searches, TT-bypassed searches; the engine's answers are judged by extracted Coq monitors.",
  note=TB + " PARTIAL: the per-node invariant is monitored on generated runs, not proved.",
  tech="Coq proof (termination, sort permutation) + trace monitor extracted from Coq + trace-exact correspondence", ref="DESIGN.md 6 C06"),
 'C07': dict(
  text="After fix 67301be: proved in Coq for every position, history, TT and schedule that a non-root negamax node whose own key occurs in the recorded history returns 0 before the TT is consulted (TT untouched, no TT hit, no node counted) and that the repetition decision is true exactly when the node is not the root and its own key is in the recorded history; C17 shows the recorded history seen at every node is the root's game history. On whole searches the monitor (bad07m/bad07f) judges the engine's hook traces on shuffled games with warm TTs. searchcore stream: the real engine (hooks on: scripted polls, full event trace) vs the extracted search model on cold searches, shuffled games with warm TT and full history, stop injected at every poll index of small searches, TT-bypassed searches; the engine's answers are judged by extracted Coq monitors.",
  note=TB + " Keys stand for positions (a 64-bit collision between different positions is outside the model). Finding F5 fixed in /repo (67301be).",
  tech="Coq proof (per-node repetition decision) + trace monitor + trace-exact correspondence", ref="DESIGN.md 6 C07"),
 'C09': dict(
  text="Proved in Coq for every position, depth, TT content, history, poll predicate and stop schedule: when search() ends, the transposition table and the whole PV table (hence bestmove = pv_table[0][0]) equal those at the moment a poll first observed the stop; if none did, the search is not stopped (ghost snapshot invariant through negamax/quiescence: every path from a child's return to a PV insert or TT record passes a stopping check). Cadence and boundedness are decided per run: monitor mon_frame / mon_cadence on engine traces with the stop injected at every poll index. searchcore stream: the real engine (hooks on: scripted polls, full event trace) vs the extracted search model on cold searches, shuffled games with warm TT and full history, stop injected at every poll index of small searches, TT-bypassed searches; the engine's answers are judged by extracted Coq monitors.",
  note=TB + " PARTIAL: 'promptly' -- quiescence never tests the flag, so bounded-but-not-small work remains after a stop; the polling cadence is monitored, not proved. Real-time arrival of stop is runtime.",
  tech="Coq proof (frame invariant with ghost snapshot, all schedules) + trace monitor + correspondence", ref="DESIGN.md 6 C09"),
 'C12': dict(
  text="Proved in Coq for every position (no well-formedness needed), depth, TT content (cold or warm), history and schedule: whenever a negamax call returns a value strictly inside its window and is not stopped, its PV row is a line of moves each generated in the position it is played from and accepted by make (fuel induction: a PV node never returns from the TT; a move enters the row only after a full-window child search whose negated result lies inside (ta, beta); everything else returns beta or <= alpha) -- hence the PV of every printed info line is such a line (C12_pv_legal); depths strictly increase, node counts do not decrease, and the rendered line has exactly the required shape. Rules-level legality of generated-and-made moves is C01; per run every PV of the real engine is also replayed on the rules-of-chess specification. " + SB,
  note=TB + " The real print! is tied to the model's renderer by textual comparison (time masked).",
  tech="Coq proof (PV-legality invariant by fuel induction, all TT contents and schedules; monotone depths/nodes; format) + extracted legal-line monitor + correspondence", ref="DESIGN.md 6 C12"),
 'C17': dict(
  text="Proved in Coq for every position, depth, TT content, history, poll schedule and stop point: every search (and every single call of negamax / quiescence) ends with ply and repetition index restored, the recorded history prefix and table length untouched, counters monotone; the position is an immutable value in the model. Per run the driver compares all 18 fields of the caller's Game and the repetition table before/after every search of every scenario (incl. every stop point). searchcore stream: the real engine (hooks on: scripted polls, full event trace) vs the extracted search model on cold searches, shuffled games with warm TT and full history, stop injected at every poll index of small searches, TT-bypassed searches; the engine's answers are judged by extracted Coq monitors.",
  note=TB + " Modelled boundary: repetition table capacity 1000 (a write beyond it panics in Rust, is a no-op in the model; unreachable below ~930 plies of history). UCI-level commands (perft, eval, d, isready) are covered by C13's session model when built.",
  tech="Coq proof (balance invariant by fuel induction, all schedules) + before/after comparison on the engine", ref="DESIGN.md 6 C17"),
 'C11': dict(
  text="Proved in Coq: the conversion from the internal score to the `score mate N` field after fix 11cb996 (MATE_VALUE - p -> (p+1)/2 for odd p; -MATE_VALUE + p -> -(p/2), mated-next-move prints -1; no mate field inside +-MATE_BOUND), the sign of N, and the TT re-basing of mate distances. Truthfulness of announcements (forced mate within N, mate-in-one reported and played at depth >= 3, PV length when the PV ends in mate) is decided per run by an exhaustive forced-mate solver extracted from the rules-of-chess specification (mate / mated in <= 2 moves) on solver-labelled mate positions, composed mates, their colour mirrors, and every mate announcement of the shared search scenarios.",
  note=TB + " PARTIAL by nature: for depth >= 3 'announced mate => forced mate' is not a theorem of an engine with null-move pruning and a history-independent TT; distances > 2 are not solver-checked (counted in the evidence). Finding F7 fixed in /repo (11cb996).",
  tech="Coq proof (mate-field arithmetic, TT re-basing) + extracted forced-mate solver as oracle", ref="DESIGN.md 6 C11"),
 'C18': dict(
  text="In the model a search is a Gallina function of (position, history prefix, TT, poll predicate, stop schedule); proved: clearing the TT leaves nothing retrievable, and (C17) a search never changes the history it was given. Decided per run on the real engine: (a) shared search scenarios re-run in a fresh process must answer identically; (b) black-box sessions through the real UCI main loop with scripted input: random command histories (positions, depth-limited and interrupted searches, perft, eval, d, isready) followed by ucinewgame + position + go depth d must print what a fresh process prints (time masked, `d` output included). The crate is checked for `static mut` state by the tie (none).",
  note=TB + " PARTIAL: ucinewgame equivalence is tested black-box, not proved (the UCI loop model of C13 does not yet carry it); junk-independence of the repetition table above its index is structural after fix 67301be (the search reads only the prefix) but not stated as a theorem yet.",
  tech="Coq proof (TT clear, history frame) + black-box differential sessions through the real main loop", ref="DESIGN.md 6 C18"),
 'C19': dict(
  text="Reference value in Coq (Spec/Minimax.v): plain negamax over legal moves with check extension, capture-only quiescence with stand-pat, the engine's evaluation at leaves, mate by distance, stalemate 0, the two horizon rules. Proved: at depth <= 2 neither the null-move nor the LMR condition can hold, children stay at depth <= 2; and the oracle's evaluator -- a fail-soft alpha-beta over an abstract expansion function (Spec/AlphaBeta.v) -- returns exactly the plain negamax value for every tree (induction over fuel and children, window relation). Per run: every printed iteration score of the real engine at depth 1 and 2 with the TT bypassed equals the extracted reference on ~400 legal positions (thorough: thousands); engine = model on the same searches.",
  note=TB + " PARTIAL: exactness of the engine's own fail-hard alpha-beta/PVS skeleton w.r.t. the reference (C19_full) is compared on generated positions, not yet proved; iterations that fail their aspiration window print nothing and are counted, not compared.",
  tech="Coq proof (pruning inactive at depth<=2; verified alpha-beta reference evaluator) + extracted reference vs engine", ref="DESIGN.md 6 C19"),
 'C05': dict(
  text="After fix 49080c5: proved in Coq for every position and token: `position ... moves` accepts a token exactly when some legal move prints as it, the accepted move is legal and prints as the token; UCI strings determine (from, to, promotion kind) (finite reflection over 64x64x9); whenever a `position` command is accepted the recorded history is the key of the base position followed by the key of every position of the game in order, and the game is the last of them. The string-level model of new_from_fen / parse_position (trim, split, digit runs, parse::<u8/u16>, skip/take_while, release-build wrap-arounds) is tied to the real parsers on well-formed and mutated inputs. Field-by-field FEN round trip, acceptance/rejection of mutated move strings and the `d` display are decided per run (independent FEN printer -> real parser -> 18 fields; games up to 60 plies (thorough 300); display through the real main loop).",
  note=TB + " PARTIAL: the FEN round-trip theorem (printer/parser inverse for every legal position) is not proved; it is checked on all generated positions. Repetition-table capacity 1000 is a modelled boundary (insert beyond it panics in model and code).",
  tech="Coq proof (move-string acceptance, history recording, UCI injectivity) + parser correspondence incl. malformed inputs", ref="DESIGN.md 6 C05"),
 'C13': dict(
  text="After fixes 8ff4e2c, 0de86eb, b1eb103, ac47405: the UCI main loop and poll_input's handling of input during a search are modelled as a state machine over input lines whose arrival relative to the search's polls is part of the input. Proved for every engine state, remaining input and timing: uci->uciok, idle isready->readyok, quit exits, ucinewgame clears; during a search isready is answered in place and does not stop the search, stop stops it, every other line stops it and is handed back to the main loop, nothing behind the stopping line is touched, readyok count = isready lines taken; every session terminates (EOF delivered as quit): the loop ends by Exit or a Rust panic, never starves; every modelled go prints exactly one bestmove (C03). Tie: scripted sessions through the REAL main loop (scripted-input hook, extra polls) must produce the model's transcript line by line; the liveness rules are also checked directly on the engine transcript; black-box runs through a real pipe with real timing sample the thread/OS part.",
  note=TB + " PARTIAL by nature: wall-clock promptness, thread scheduling, the OS pipe and process exit are runtime (black-box sampled, not modelled). Not modelled: help, perft, psuite, sbench, move, clock-based go (clock arithmetic is C10). Trusted: std::sync::mpsc FIFO.",
  tech="Coq proof (state-machine model: dispatch, prefix consumption, termination for all inputs) + transcript-exact scripted sessions + black-box pipe runs", ref="DESIGN.md 6 C13"),
}

def main():
    hooks = subprocess.run(['git', '-C', '/repo', 'log', '--format=%h %s'], capture_output=True, text=True).stdout.splitlines()
    hook_commits = [l.split()[0] for l in hooks if l.split(' ', 1)[1].startswith('verif hook')]
    m = {
     "version": 1,
     "setup_cmd": "./setup.sh",
     "hooks": {"guard": "jence_verif",
               "enable": "RUSTFLAGS='--cfg jence_verif --check-cfg cfg(jence_verif)' JENCE_VERIF_DRIVER_DIR=/verif/harness CARGO_TARGET_DIR=/verif/.build/target cargo build --release --offline (in /repo)",
               "baseline_off_cmd": "cd /repo && cargo test --workspace --no-fail-fast --offline",
               "source_commits": hook_commits, "add_only": True},
     "engines": [{"name": "coq-proof+correspondence", "path": "/verif/check", "serves_properties": sorted(CHECKS),
                  "kind_free_text": "Coq 8.16 theorems about a hand-written Gallina model (coq/Model, coq/Spec, coq/Proofs, coq/Props) with constants regenerated from /repo on every run (tools/gen_consts.py) and a correspondence check that runs the extracted model (OCaml) and the real engine (in-crate driver under cfg jence_verif) on the same inputs"}],
     "checks": [], "notes": "see DESIGN.md; known_findings.json lists known / fixed findings", "not_applicable": []}
    for pid in sorted(CHECKS):
        c = CHECKS[pid]
        m["checks"].append({"property_id": pid, "quick_cmd": f"./check {pid} --tier quick", "thorough_cmd": f"./check {pid} --tier thorough",
            "evidence_file": f"/verif/evidence/{pid}.json", "replay_cmd_template": f"./check {pid} --replay {{path}}",
            "engine": "coq-proof+correspondence", "level_claimed": {"category": "proof", "text": c['text'], "design_ref": c['ref']},
            "level_note": c['note'], "technique": c['tech']})
    for i in range(1, 20):
        pid = f"C{i:02d}"
        if pid not in CHECKS:
            m["not_applicable"].append({"property_id": pid, "reason": "check not built yet (work in progress, DESIGN.md section 9 staging); the technique applies"})
    json.dump(m, open(os.path.join(HERE, 'MANIFEST.json'), 'w'), indent=1)
    print('MANIFEST.json:', len(m['checks']), 'checks,', len(m['not_applicable']), 'not yet claimed')

if __name__ == '__main__':
    main()
