"""Shared machinery of /verif/check: rebuild the engine with hooks, regenerate constants, make the Coq cone,
hygiene gate, build the extracted model, run request files through engine and model, verdict and evidence."""
import os, sys, re, json, time, subprocess, hashlib, fcntl, shutil, random, glob

VERIF = os.path.dirname(os.path.dirname(os.path.abspath(__file__)))
REPO = os.environ.get('JENCE_REPO', '/repo')
BUILD = os.path.join(VERIF, '.build')
COQ = os.path.join(VERIF, 'coq')
TARGET = os.path.join(BUILD, 'target')
OCAML_BUILD = os.path.join(BUILD, 'ocaml')
NPROC = os.cpu_count() or 8

FORBIDDEN = re.compile(r'\b(Admitted|admit|Axiom|Axioms|Parameter|Parameters|Conjecture|Conjectures|Unset\s+Guard|bypass_check|Admit\s+Obligations|type-in-type|impredicative-set|Unset\s+Universe\s+Checking|Unset\s+Positivity)\b')
AXIOM_ALLOW = set()   # Print Assumptions must say "Closed under the global context" unless listed here

class Broken(Exception):
    def __init__(self, what, detail):
        super().__init__(what)
        self.what = what
        self.detail = detail

def sh(cmd, timeout=None, cwd=None, env=None, input=None):
    e = dict(os.environ)
    e['CARGO_NET_OFFLINE'] = 'true'
    if env: e.update(env)
    p = subprocess.run(cmd, shell=isinstance(cmd, str), cwd=cwd, env=e, capture_output=True, text=True, timeout=timeout, input=input)
    return p.returncode, p.stdout, p.stderr

class Lock:
    def __init__(self, name):
        os.makedirs(BUILD, exist_ok=True)
        self.path = os.path.join(BUILD, name + '.lock')
    def __enter__(self):
        self.f = open(self.path, 'w')
        fcntl.flock(self.f, fcntl.LOCK_EX)
    def __exit__(self, *a):
        fcntl.flock(self.f, fcntl.LOCK_UN)
        self.f.close()

def strip_coq_comments(s):
    out = []; depth = 0; i = 0
    while i < len(s):
        if s.startswith('(*', i): depth += 1; i += 2; continue
        if s.startswith('*)', i) and depth > 0: depth -= 1; i += 2; continue
        if depth == 0: out.append(s[i])
        i += 1
    return ''.join(out)

class Ctx:
    def __init__(self, pid, tier, seed):
        self.pid = pid; self.tier = tier; self.seed = seed
        self.t0 = time.time()
        self.broken = []          # list of Broken (proof / tie problems)
        self.violations = []      # list of dict(sig, what, replay(dict))
        self.known_hits = []
        self.cov = {'samples': []}
        self.assumptions = []
        self.engine = None; self.consts_rs = None
        self.model_ok = False; self.proofs_ok = False
        self.obligations = 0; self.discharged = 0
        self.cone_files = []
        self.rng = random.Random(seed)
        self.trusted = [
            'Coq 8.16.1 kernel incl. vm_compute (no native_compute)',
            'tools/gen_consts.py (regex extraction of constants from /repo sources and build.rs output)',
            'harness/driver.rs + add-only hooks under cfg(jence_verif)',
            'Coq extraction with ExtrOcamlBasic only (bool/option/unit/list/prod/sumbool/sumor -> OCaml; positive/N/Z stay Coq datatypes) + OCaml 4.13.1 + ocaml/*.ml glue',
            'correspondence = differential testing of model vs engine on generated inputs (not a proof of model = code)',
        ]
        self.assume = []

    # ------------------------------------------------------------------ engine
    def build_engine(self):
        with Lock('cargo'):
            env = {'RUSTFLAGS': '--cfg jence_verif --check-cfg cfg(jence_verif)', 'JENCE_VERIF_DRIVER_DIR': os.path.join(VERIF, 'harness'),
                   'CARGO_TARGET_DIR': TARGET}
            rc, out, err = sh(['cargo', 'build', '--release', '--offline', '--message-format=json'], cwd=REPO, env=env, timeout=1200)
            if rc != 0:
                msgs = []
                for l in out.splitlines():
                    try:
                        j = json.loads(l)
                        if j.get('reason') == 'compiler-message' and j['message'].get('level') == 'error':
                            msgs.append(j['message'].get('rendered', ''))
                    except Exception: pass
                raise Broken('engine does not build with hooks enabled', '\n'.join(msgs)[-4000:] + err[-2000:])
            exe = None; outdir = None
            for l in out.splitlines():
                try: j = json.loads(l)
                except Exception: continue
                if j.get('reason') == 'compiler-artifact' and j.get('executable') and 'nebel_chess_engine' in j['executable']:
                    exe = j['executable']
                if j.get('reason') == 'build-script-executed' and 'nebel_chess_engine' in j.get('package_id', ''):
                    outdir = j.get('out_dir')
            if not exe or not outdir:
                raise Broken('cargo build gave no executable / out_dir', out[-2000:])
            # private copy so that a concurrent rebuild for another check cannot swap the binary under us
            mine = os.path.join(BUILD, 'bin', f'engine-{self.pid}')
            os.makedirs(os.path.dirname(mine), exist_ok=True)
            shutil.copy2(exe, mine)
            self.engine = mine
            self.consts_rs = os.path.join(outdir, 'consts.rs')
            if not os.path.exists(self.consts_rs):
                raise Broken('build.rs did not write consts.rs', outdir)

    def gen_consts(self):
        sys.path.insert(0, os.path.join(VERIF, 'tools'))
        import gen_consts as G
        with Lock('coq'):
            try:
                dump = subprocess.run([self.engine, '--verif', 'consts'], capture_output=True, text=True, check=True, timeout=60).stdout
                c = G.gen_consts(REPO, dump)
                t = G.gen_tables(self.consts_rs)
            except G.GenError as e:
                raise Broken('constant generator: ' + str(e), str(e))
            except subprocess.SubprocessError as e:
                raise Broken('driver consts dump failed', str(e))
            G.write_if_changed(os.path.join(COQ, 'Gen', 'Consts.v'), c)
            G.write_if_changed(os.path.join(COQ, 'Gen', 'Tables.v'), t)

    # ------------------------------------------------------------------ coq
    def ensure_makefile(self):
        mk = os.path.join(COQ, 'Makefile')
        cp = os.path.join(COQ, '_CoqProject')
        if not os.path.exists(mk) or os.path.getmtime(mk) < os.path.getmtime(cp):
            rc, out, err = sh('coq_makefile -f _CoqProject -o Makefile', cwd=COQ)
            if rc != 0: raise Broken('coq_makefile failed', out + err)

    def make(self, targets, timeout=3000):
        """full .vo compilation of the given targets (never -vos)."""
        with Lock('coq'):
            self.ensure_makefile()
            cmd = 'ulimit -s unlimited 2>/dev/null; make -j%d %s' % (NPROC, ' '.join(targets))
            try:
                rc, out, err = sh(['bash', '-c', cmd], cwd=COQ, timeout=timeout)
            except subprocess.TimeoutExpired:
                raise Broken('coq make timed out', ' '.join(targets))
            if rc != 0:
                raise Broken('Coq does not accept: ' + self._first_error(out + err), (out + err)[-6000:])
            return out

    @staticmethod
    def _first_error(log):
        m = re.search(r'File "([^"]+)", line (\d+).*?\n(Error:.*?)(?:\n\S|\Z)', log, flags=re.S)
        if m: return f'{m.group(1)}:{m.group(2)} {m.group(3)[:300]}'
        return log[-300:]

    def cone(self, vfile):
        """transitive JV dependencies of a .v file (paths relative to coq/), via coqdep."""
        seen = []; todo = [vfile]
        while todo:
            f = todo.pop()
            if f in seen: continue
            seen.append(f)
            rc, out, err = sh(['coqdep', '-Q', '.', 'JV', f], cwd=COQ)
            m = re.search(r':\s*(.*)', out.split('\n')[0]) if out else None
            if not m: continue
            for d in m.group(1).split():
                if d.endswith('.vo') and not d.startswith('/'):
                    v = d[:-1]
                    v = v[2:] if v.startswith('./') else v
                    if os.path.exists(os.path.join(COQ, v)) and v not in seen: todo.append(v)
        return seen

    def hygiene(self, files):
        bad = []
        for f in files:
            src = strip_coq_comments(open(os.path.join(COQ, f)).read())
            for m in FORBIDDEN.finditer(src):
                bad.append(f'{f}: {m.group(0)}')
            # Variable/Hypothesis outside a section
            depth = 0
            for line in src.split('\n'):
                s = line.strip()
                if re.match(r'Section\s+\w+', s): depth += 1
                elif re.match(r'End\s+\w+\s*\.', s) and depth > 0: depth -= 1
                elif depth == 0 and re.match(r'(Variable|Variables|Hypothesis|Hypotheses|Context)\b', s): bad.append(f'{f}: top-level {s[:40]}')
        if bad:
            raise Broken('hygiene gate: forbidden construct in the development', '\n'.join(bad))

    def prove(self, props_file):
        """make the property's cone, hygiene, Print Assumptions for every theorem of the Props file."""
        self.cone_files = self.cone(props_file)
        self.hygiene(self.cone_files)
        nq = 0
        for f in self.cone_files:
            src = strip_coq_comments(open(os.path.join(COQ, f)).read())
            nq += len(re.findall(r'\b(Qed|Defined)\s*\.', src))
        self.obligations = nq
        self.make([props_file + 'o'])
        # assumptions: re-query every theorem of the Props file (the .vo may be cached, so its compile-time output is not enough)
        src = strip_coq_comments(open(os.path.join(COQ, props_file)).read())
        thms = re.findall(r'\bTheorem\s+(\w+)', src)
        mod = 'JV.' + props_file[:-2].replace('/', '.')
        q = f'From JV Require Import {props_file[:-2].replace("/", ".")}.\n' + ''.join(f'Print Assumptions {t}.\n' for t in thms)
        qf = os.path.join(BUILD, f'assum_{self.pid}.v')
        open(qf, 'w').write(q)
        rc, out, err = sh(['coqc', '-Q', COQ, 'JV', '-o', os.path.join(BUILD, f'assum_{self.pid}.vo'), qf], timeout=600)
        if rc != 0: raise Broken('Print Assumptions query failed', out + err)
        blocks = re.split(r'(?=Closed under the global context|Axioms:)', out)
        blocks = [b.strip() for b in blocks if b.strip()]
        if len(blocks) != len(thms):
            raise Broken('Print Assumptions output not understood', out[-2000:])
        for t, b in zip(thms, blocks):
            if b.startswith('Closed under the global context'):
                self.assumptions.append((t, 'closed'))
            else:
                names = set(re.findall(r'^(\S+)\s*:', b, flags=re.M)) - {'Axioms'}
                self.assumptions.append((t, sorted(names)))
                if not names <= AXIOM_ALLOW:
                    raise Broken(f'theorem {t} depends on axioms not on the allow-list: {sorted(names - AXIOM_ALLOW)}', b)
        self.discharged = nq
        self.theorems = thms
        if self.tier == 'thorough':
            self.coqchk_all()
        self.proofs_ok = True

    def coqchk_all(self):
        """thorough tier: the independent checker re-checks the compiled development (every Props module and everything it depends on) and
        lists the axioms it relies on; must be `Axioms: <none>`.  One run serves all properties (cached on the content of all .v files)."""
        vfiles = [l.strip() for l in open(os.path.join(COQ, '_CoqProject')) if l.strip().endswith('.v') and not l.strip().startswith('Extract/')]
        h = hashlib.sha256()
        for f in sorted(vfiles): h.update(f.encode()); h.update(open(os.path.join(COQ, f), 'rb').read())
        cdir = os.path.join(BUILD, 'cache'); os.makedirs(cdir, exist_ok=True)
        cfile = os.path.join(cdir, f'coqchk-{h.hexdigest()[:20]}.txt')
        with Lock('coqchk'):
            if not os.path.exists(cfile):
                props = sorted(f for f in vfiles if f.startswith('Props/'))
                self.make([f + 'o' for f in props])
                mods = ['JV.' + f[:-2].replace('/', '.') for f in props]
                t0 = time.time()
                try:
                    rc, out, err = sh(['bash', '-c', 'ulimit -s unlimited 2>/dev/null; coqchk -o -silent -Q . JV ' + ' '.join(mods)], cwd=COQ, timeout=5400)
                except subprocess.TimeoutExpired:
                    raise Broken('coqchk timed out', ' '.join(mods))
                txt = (out + err)
                open(cfile + '.tmp', 'w').write(f'rc={rc} seconds={time.time() - t0:.0f} modules={len(mods)}\n' + txt[-4000:])
                os.replace(cfile + '.tmp', cfile)
                for f in os.listdir(cdir):
                    if f.startswith('coqchk-') and f != os.path.basename(cfile):
                        try: os.remove(os.path.join(cdir, f))
                        except OSError: pass
            txt = open(cfile).read()
        head = txt.split('\n', 1)[0]
        self.cov['coqchk'] = {'summary': head, 'axioms': 'none' if re.search(r'\* Axioms: <none>', txt) else 'SEE LOG'}
        if not head.startswith('rc=0') or not re.search(r'\* Axioms: <none>', txt) or not re.search(r'type-in-type: <none>', txt) or not re.search(r'positivity is assumed: <none>', txt) or not re.search(r'unsafe \(co\)fixpoints: <none>', txt):
            raise Broken('coqchk does not accept the compiled development, or it relies on axioms / unchecked definitions', txt[-3000:])

    # ------------------------------------------------------------------ extracted model
    def build_model(self):
        self.make(['Extract/Extract.vo'])
        with Lock('ocaml'):
            os.makedirs(OCAML_BUILD, exist_ok=True)
            srcs = [os.path.join(COQ, 'Extract', 'model.ml'), os.path.join(COQ, 'Extract', 'model.mli')] + sorted(glob.glob(os.path.join(VERIF, 'ocaml', '*.ml')))
            h = hashlib.sha256()
            for s in srcs: h.update(open(s, 'rb').read())
            stamp = os.path.join(OCAML_BUILD, 'stamp'); exe = os.path.join(OCAML_BUILD, 'model_main')
            if not (os.path.exists(stamp) and os.path.exists(exe) and open(stamp).read() == h.hexdigest()):
                for s in srcs: shutil.copy2(s, OCAML_BUILD)
                order = ['model.mli', 'model.ml', 'conv.ml'] + [os.path.basename(s) for s in srcs if os.path.basename(s) not in ('model.ml', 'model.mli', 'conv.ml', 'model_main.ml')] + ['model_main.ml']
                rc, out, err = sh(['bash', '-c', 'ulimit -s unlimited 2>/dev/null; ocamlfind ocamlopt -O3 -w -a -o model_main ' + ' '.join(order)], cwd=OCAML_BUILD, timeout=1200)
                if rc != 0: raise Broken('extracted model does not build', (out + err)[-3000:])
                open(stamp, 'w').write(h.hexdigest())
            mine = os.path.join(BUILD, 'bin', f'model-{self.pid}')
            os.makedirs(os.path.dirname(mine), exist_ok=True)
            shutil.copy2(exe, mine)
            self.model = mine
            self.model_ok = True

    # ------------------------------------------------------------------ running request files
    def run_lines(self, exe, args, lines, shards=None, timeout=3000, env=None):
        """feed request lines to a batch program, sharded over processes; returns answer lines in order."""
        n = len(lines)
        if n == 0: return []
        shards = shards or min(NPROC, max(1, n // 4))
        chunks = [lines[i::shards] for i in range(shards)]
        procs = []
        e = dict(os.environ)
        os.makedirs(os.path.join(BUILD, 'tmp'), exist_ok=True)
        e['JENCE_VERIF_TMP'] = os.path.join(BUILD, 'tmp')
        if env: e.update(env)
        for c in chunks:
            p = subprocess.Popen(['bash', '-c', 'ulimit -s unlimited 2>/dev/null; ulimit -v 8000000 2>/dev/null; exec "$0" "$@"', exe] + args, stdin=subprocess.PIPE, stdout=subprocess.PIPE, stderr=subprocess.PIPE, text=True, env=e)
            procs.append(p)
        import threading
        outs = [None] * shards
        def work(i):
            try:
                o, er = procs[i].communicate('\n'.join(chunks[i]) + '\n', timeout=timeout)
                outs[i] = (o, er, procs[i].returncode)
            except subprocess.TimeoutExpired:
                procs[i].kill(); outs[i] = ('', 'TIMEOUT', -9)
        th = [threading.Thread(target=work, args=(i,)) for i in range(shards)]
        for t in th: t.start()
        for t in th: t.join()
        res = [None] * n
        for i in range(shards):
            o, er, rc = outs[i]
            al = o.split('\n')
            if al and al[-1] == '': al.pop()
            for j, _ in enumerate(chunks[i]):
                res[i + j * shards] = al[j] if j < len(al) else f'<no answer: rc={rc} {er.strip()[-200:]}>'
        return res

    def engine_session(self, script, timeout=120, extra=0):
        """run the real UCI main loop on a scripted input: script = [(delay_in_polls, line), ...]; returns stdout text"""
        import tempfile
        os.makedirs(os.path.join(BUILD, 'tmp'), exist_ok=True)
        fd, path = tempfile.mkstemp(dir=os.path.join(BUILD, 'tmp'), suffix='.session')
        with os.fdopen(fd, 'w') as f:
            for d, l in script: f.write(f'{d} {l}\n')
        try:
            p = subprocess.run([self.engine, '--verif', 'session', path], capture_output=True, text=True, timeout=timeout,
                               env=dict(os.environ, JENCE_VERIF_TMP=os.path.join(BUILD, 'tmp'), JENCE_VERIF_EXTRA=str(extra)), stdin=subprocess.DEVNULL)
            return p.stdout + (f'\n@EXIT {p.returncode}' if p.returncode != 0 else '')
        except subprocess.TimeoutExpired as e:
            return (e.stdout.decode() if isinstance(e.stdout, bytes) else (e.stdout or '')) + '\n@TIMEOUT'
        finally:
            try: os.remove(path)
            except OSError: pass

    def engine_batch(self, lines, **kw):
        return self.run_lines(self.engine, ['--verif', 'batch'], lines, **kw)

    def model_batch(self, lines, **kw):
        return self.run_lines(self.model, [], lines, **kw)

    # ------------------------------------------------------------------ verdict
    def violation(self, sig, what, replay):
        self.violations.append({'sig': sig, 'what': what, 'replay': replay})

    def sample(self, x):
        if len(self.cov['samples']) < 8: self.cov['samples'].append(x)

    def finish(self):
        known = json.load(open(os.path.join(VERIF, 'known_findings.json')))
        kn = [k for k in known.get('findings', []) if k.get('status') == 'known' and k['property'] == self.pid]
        os.makedirs(os.path.join(VERIF, 'replays'), exist_ok=True)
        out_lines = []
        unlisted = []
        for v in self.violations:
            hit = None
            for k in kn:
                if re.fullmatch(k['match'], v['sig']): hit = k; break
            if hit:
                if hit['id'] not in [h['id'] for h in self.known_hits]: self.known_hits.append(hit)
            else:
                unlisted.append(v)
        for k in self.known_hits:
            out_lines.append(f"KNOWN-FINDING: property={self.pid} {k['what']}")
        rc = 0
        seen_sigs = set()
        for v in unlisted:
            if v['sig'] in seen_sigs: continue
            seen_sigs.add(v['sig'])
            hh = hashlib.sha1((v['sig'] + json.dumps(v['replay'], sort_keys=True, default=str)).encode()).hexdigest()[:10]
            path = os.path.join(VERIF, 'replays', f'{self.pid}-{hh}.json')
            json.dump({'property': self.pid, 'signature': v['sig'], 'what': v['what'], 'replay': v['replay'],
                       'how_to_replay': f'./check {self.pid} --replay {path}'}, open(path, 'w'), indent=1, default=str)
            out_lines.append(f'VIOLATION property={self.pid} replay={path}')
            rc = 1
        if self.broken and not unlisted:
            # a proof obligation or the tie no longer checks and the search found no failing input
            b = self.broken[0]
            hh = hashlib.sha1((b.what + b.detail).encode()).hexdigest()[:10]
            path = os.path.join(VERIF, 'replays', f'{self.pid}-broken-{hh}.json')
            json.dump({'property': self.pid, 'no_longer_checks': [x.what for x in self.broken], 'detail': [x.detail for x in self.broken],
                       'note': 'a theorem or the model/code correspondence no longer checks; the search over model and implementation found no concrete failing input'},
                      open(path, 'w'), indent=1)
            out_lines.append(f'VIOLATION property={self.pid} replay={path} no-failing-input-found')
            rc = 1
        wall = time.time() - self.t0
        cov = dict(self.cov)
        cov.update({
            'obligations': max(self.obligations, 1), 'discharged': self.discharged if self.proofs_ok else 0,
            'checker_cmd': f'make -C coq {getattr(self, "props_file", "")}o  (coqc full .vo, Coq 8.16.1) + Print Assumptions on every theorem of the Props file',
            'trusted_base': self.trusted,
            'theorems': [{'name': t, 'assumptions': a} for t, a in self.assumptions],
            'cone_files': self.cone_files,
            'proof_or_tie_broken': [b.what for b in self.broken],
            'known_findings_reproduced': [k['id'] for k in self.known_hits],
        })
        cov.setdefault('evaluations', 0); cov.setdefault('distinct_nontrivial', 0)
        ev = {'property_id': self.pid, 'tier': self.tier, 'seed': self.seed, 'level': 'proof', 'coverage': cov,
              'assumptions': self.assume, 'wall_s': round(wall, 2), 'violations': len(unlisted) + (1 if (self.broken and not unlisted) else 0)}
        os.makedirs(os.path.join(VERIF, 'evidence'), exist_ok=True)
        json.dump(ev, open(os.path.join(VERIF, 'evidence', f'{self.pid}.json'), 'w'), indent=1, default=str)
        for l in out_lines: print(l)
        print(f'[{self.pid}] tier={self.tier} seed={self.seed} proofs_ok={self.proofs_ok} obligations={self.obligations} '
              f'evaluations={cov.get("evaluations")} violations={ev["violations"]} known={len(self.known_hits)} wall={wall:.1f}s')
        return rc

def standard_prepare(ctx, props_file, need_model=True):
    """steps 1-3 of DESIGN 2.3; failures are collected, not fatal: the property-specific search still runs."""
    ctx.props_file = props_file
    try:
        ctx.build_engine()
    except Broken as b:
        ctx.broken.append(b); return
    try:
        ctx.gen_consts()
    except Broken as b:
        ctx.broken.append(b)
    try:
        ctx.prove(props_file)
    except Broken as b:
        ctx.broken.append(b)
    if need_model:
        try:
            ctx.build_model()
        except Broken as b:
            ctx.broken.append(b)
