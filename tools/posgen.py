"""Position generation for the chess-core streams.  FEN -> the 21 raw game fields (independent little parser),
seed families, and random playouts driven by the *extracted model* (succ request), so that the set of generated
positions does not depend on the code under test."""
import subprocess, random

PIECES = 'PNBRQKpnbrqk'

def fen_to_fields(fen, hash_hex='0'):
    parts = fen.split()
    board = parts[0]
    bbs = [0] * 12
    i = 0
    for ch in board:
        if ch.isdigit(): i += int(ch)
        elif ch == '/': pass
        else:
            bbs[PIECES.index(ch)] |= 1 << i; i += 1
    w = 0
    for k in range(6): w |= bbs[k]
    b = 0
    for k in range(6, 12): b |= bbs[k]
    side = 1 if parts[1] == 'w' else 0
    cs = parts[2] if len(parts) > 2 else '-'
    cast = (1 if 'K' in cs else 0) | (2 if 'Q' in cs else 0) | (4 if 'k' in cs else 0) | (8 if 'q' in cs else 0)
    eps = parts[3] if len(parts) > 3 else '-'
    ep = 64 if eps == '-' else (8 - int(eps[1])) * 8 + (ord(eps[0]) - 97)
    half = int(parts[4]) if len(parts) > 4 else 0
    full = int(parts[5]) if len(parts) > 5 else 0
    return ' '.join(['%x' % x for x in bbs] + ['%x' % w, '%x' % b, '%x' % (w | b), str(side), str(ep), str(cast), str(half), str(full), hash_hex])

SQ = [f + r for r in '87654321' for f in 'abcdefgh']

def fields_to_fen(fields):
    t = fields.split()
    bbs = [int(x, 16) for x in t[:12]]
    rows = []
    for r in range(8):
        row = ''; e = 0
        for c in range(8):
            s = r * 8 + c; ch = None
            for k in range(12):
                if bbs[k] >> s & 1: ch = PIECES[k]
            if ch is None: e += 1
            else:
                if e: row += str(e); e = 0
                row += ch
        if e: row += str(e)
        rows.append(row)
    cast = int(t[17]); cs = ''.join(c for c, b in zip('KQkq', (1, 2, 4, 8)) if cast & b) or '-'
    ep = int(t[16])
    return '/'.join(rows) + (' w ' if t[15] == '1' else ' b ') + cs + ' ' + (SQ[ep] if ep < 64 else '-') + f' {t[18]} {t[19]}'

SEED_FENS = {
 'start': 'rnbqkbnr/pppppppp/8/8/8/8/PPPPPPPP/RNBQKBNR w KQkq - 0 1',
 'kiwipete': 'r3k2r/p1ppqpb1/bn2pnp1/3PN3/1p2P3/2N2Q1p/PPPBBPPP/R3K2R w KQkq - 0 1',
 'pos3': '8/2p5/3p4/KP5r/1R3p1k/8/4P1P1/8 w - - 0 10',
 'pos4': 'r3k2r/Pppp1ppp/1b3nbN/nP6/BBP1P3/q4N2/Pp1P2PP/R2Q1RK1 w kq - 0 1',
 'pos4m': 'r2q1rk1/pP1p2pp/Q4n2/bbp1p3/Np6/1B3NBn/pPPP1PPP/R3K2R b KQ - 0 1',
 'pos5': 'rnbq1k1r/pp1Pbppp/2p5/8/2B5/8/PPP1NnPP/RNBQK2R w KQ - 1 8',
 'pos6': 'r4rk1/1pp1qppp/p1np1n2/2b1p1B1/2B1P1b1/P1NP1N2/1PP1QPPP/R4RK1 w - - 0 10',
 'killer': 'rnbqkb1r/pp1p1pPp/8/2p1pP2/1P1P4/3P3P/P1P1P3/RNBQKBNR w KQkq e6 0 1',
 'cmk': 'r2q1rk1/ppp2ppp/2n1bn2/2b1p3/3pP3/3P1NPP/PPP1NPB1/R1BQ1RK1 b - - 0 9',
 'sb4': '6k1/3q1pp1/pp5p/1r5n/8/1P3PP1/PQ4BP/2R3K1 w - - 0 1',
 # en passant: horizontal pin, diagonal pin, discovered check, ep gives check
 'ep_hpin': '8/8/8/KPp4r/8/8/8/7k w - c6 0 1',
 'ep_hpin_b': '7K/8/8/8/kpP4R/8/8/8 b - c3 0 1',
 'ep_dpin': '7k/8/8/8/3pP3/8/8/B3K3 b - e3 0 1',
 'ep_dpin2': '4k3/8/8/2KPp2r/8/8/8/8 w - e6 0 2',
 'ep_disc': '8/8/8/1kPpP3/8/8/8/4K2B w - d6 0 1',
 'ep_check': '8/8/3k4/8/2pP4/8/8/4K3 b - d3 0 1',
 'ep_evade': '8/8/8/2k5/3Pp3/8/8/4K3 b - d3 0 1',
 'ep_two': '4k3/8/8/1pPp4/8/8/8/4K3 w - d6 0 1',
 # castling with attackers on each relevant square
 'castle_free': 'r3k2r/8/8/8/8/8/8/R3K2R w KQkq - 0 1',
 'castle_free_b': 'r3k2r/8/8/8/8/8/8/R3K2R b KQkq - 0 1',
 'castle_att_f1': 'r3k2r/8/8/8/8/5r2/8/R3K2R w KQkq - 0 1',
 'castle_att_g1': 'r3k2r/8/8/8/8/6r1/8/R3K2R w KQkq - 0 1',
 'castle_att_d1': 'r3k2r/8/8/8/8/3r4/8/R3K2R w KQkq - 0 1',
 'castle_att_c1': 'r3k2r/8/8/8/8/2r5/8/R3K2R w KQkq - 0 1',
 'castle_att_b1': 'r3k2r/8/8/8/8/1r6/8/R3K2R w KQkq - 0 1',
 'castle_att_e1': 'r3k2r/8/8/8/8/4r3/8/R3K2R w KQkq - 0 1',
 'castle_knight': 'r3k2r/8/8/8/8/8/4n3/R3K2R w KQkq - 0 1',
 'castle_bishop': 'r3k2r/8/8/8/8/8/7b/R3K2R w KQkq - 0 1',
 'castle_pawn_g2': 'r3k2r/8/8/8/8/8/6p1/R3K2R w KQkq - 0 1',
 'castle_pawn_b2': 'r3k2r/8/8/8/8/8/1p6/R3K2R w KQkq - 0 1',
 'castle_b_att': 'r3k2r/8/5R2/8/8/8/8/R3K2R b KQkq - 0 1',
 'castle_b_att_g8': 'r3k2r/8/6R1/8/8/8/8/R3K2R b KQkq - 0 1',
 'castle_b_att_b8': 'r3k2r/8/1R6/8/8/8/8/4K2R b Kkq - 0 1',
 'castle_rook_capt': 'r3k2r/8/8/8/8/8/5n2/R3K2R b KQkq - 0 1',
 'castle_rook_capt2': 'r3k2r/8/1N4N1/8/8/8/8/R3K2R w KQkq - 0 1',
 'castle_rights_subset': 'r3k2r/8/8/8/8/8/8/R3K2R w Kq - 0 1',
 # castling with a man standing on each square between king and rook (own knight / enemy knight), both colours
 'castle_blk_b1': 'r3k2r/8/8/8/8/8/8/RN2K2R w KQkq - 0 1', 'castle_blk_c1': 'r3k2r/8/8/8/8/8/8/R1N1K2R w KQkq - 0 1',
 'castle_blk_d1': 'r3k2r/8/8/8/8/8/8/R2NK2R w KQkq - 0 1', 'castle_blk_f1': 'r3k2r/8/8/8/8/8/8/R3KN1R w KQkq - 0 1',
 'castle_blk_g1': 'r3k2r/8/8/8/8/8/8/R3K1NR w KQkq - 0 1',
 'castle_blk_b8': 'rn2k2r/8/8/8/8/8/8/R3K2R b KQkq - 0 1', 'castle_blk_c8': 'r1n1k2r/8/8/8/8/8/8/R3K2R b KQkq - 0 1',
 'castle_blk_d8': 'r2nk2r/8/8/8/8/8/8/R3K2R b KQkq - 0 1', 'castle_blk_f8': 'r3kn1r/8/8/8/8/8/8/R3K2R b KQkq - 0 1',
 'castle_blk_g8': 'r3k1nr/8/8/8/8/8/8/R3K2R b KQkq - 0 1',
 'castle_eblk_b1': 'r3k2r/8/8/8/8/8/8/Rn2K2R w KQkq - 0 1', 'castle_eblk_g1': 'r3k2r/8/8/8/8/8/8/R3K1nR w KQkq - 0 1',
 'castle_eblk_b8': 'rN2k2r/8/8/8/8/8/8/R3K2R b KQkq - 0 1', 'castle_eblk_g8': 'r3k1Nr/8/8/8/8/8/8/R3K2R b KQkq - 0 1',
 'castle_shuffle': 'r3k2r/pp4pp/2n5/8/8/2N5/PP4PP/R3K2R w KQkq - 0 1', 'castle_shuffle_b': 'r3k2r/pp4pp/2n5/8/8/2N5/PP4PP/R3K2R b KQkq - 0 1',
 'castle_blk_b8_mid': 'rn2k2r/pppq1ppp/3bpn2/3p4/3P4/2NBPN2/PPPQ1PPP/R3K2R b KQkq - 4 8', 'castle_blk_b1_mid': 'r3k2r/pppq1ppp/2nbpn2/3p4/3P4/3BPN2/PPPQ1PPP/RN2K2R w KQkq - 4 8',
 # promotions
 'promo_all': 'r1n1k3/1P6/8/8/8/8/4p1p1/4K2R w K - 0 1',
 'promo_b': '4k3/8/8/8/8/8/1pp3p1/R1N1K2N b - - 0 1',
 'promo_check': '7k/5P2/8/8/8/8/8/K7 w - - 0 1',
 # a promoting pawn captures a rook on its home corner while that side still holds the castling right (round-6 seed C02-4)
 'promo_x_corner_rook': 'r3k2r/1P4P1/8/8/8/8/1p4p1/R3K2R w KQkq - 0 1', 'promo_x_corner_rook_b': 'r3k2r/1P4P1/8/8/8/8/1p4p1/R3K2R b KQkq - 0 1',
 # checks, double check, mates, stalemate
 'double_check': '4k3/8/8/8/8/2b5/3r4/4K3 w - - 0 1',
 'double_check2': 'r3k3/8/8/8/8/8/3n4/R3K2b w Q - 0 1',
 'mate0': 'R5k1/5ppp/8/8/8/8/8/7K b - - 0 1',
 'stalemate': '7k/5Q2/6K1/8/8/8/8/8 b - - 0 1',
 'mate_in_1': '6k1/5ppp/8/8/8/8/8/R6K w - - 0 1',
 'mated_in_1': '7k/8/5K2/6Q1/8/8/8/8 b - - 0 1',
 'mate_in_2': 'r5rk/5p1p/5R2/4B3/8/8/7P/7K w - - 0 1',
 'kq_k': '8/8/8/3k4/8/8/8/QK6 w - - 0 1',
 'smother': '6rk/6pp/8/6N1/8/8/8/7K w - - 0 1',
 'promo_mate': '7k/4P2p/6K1/8/8/8/8/8 w - - 0 1',
 'kq_mate1': '7k/8/5K2/8/8/8/8/6Q1 w - - 0 1',
 'kr_mate1': 'k7/8/1K6/8/8/8/8/7R w - - 0 1',
 'kr_mate2': '1k6/8/1K6/8/8/8/8/7R w - - 0 1',
 'kq_mated2': '6k1/8/5K2/8/8/8/8/4Q3 b - - 0 1',
 'backrank_b': 'r6k/8/8/8/8/8/5PPP/6K1 b - - 0 1',
 'kr_k': '8/8/8/3k4/8/8/8/RK6 b - - 3 40',
 # many moves / many queens
 'max218': 'R6R/3Q4/1Q4Q1/4Q3/2Q4Q/Q4Q2/pp1Q4/kBNN1KB1 w - - 0 1',
 'queens': '3Q4/1Q4Q1/4Q3/2Q4Q/Q4Q2/3Q4/1Q4Q1/K5k1 w - - 0 1',
 # half-move clock around 100
 'hmc98': '4k3/8/8/8/8/8/4P3/4K2R w K - 98 80',
 'hmc99': '4k3/8/8/8/8/8/4P3/4K2R b - - 99 80',
 'hmc100': '4k3/8/8/8/8/8/4P3/4K3 w - - 100 80',
 'pins': '4k3/8/4r3/8/b7/8/2N1B3/3K4 w - - 0 1',
 'pins2': '8/2q5/8/4n3/3k4/2R5/8/B2K2Q1 b - - 0 1',
 'endgame': '8/5k2/3p4/1p1Pp2p/pP2Pp1P/P4P1K/8/8 b - - 99 50',
}

class Oracle:
    """a persistent model_main process answering one request per line"""
    def __init__(self, exe):
        self.p = subprocess.Popen(['bash', '-c', 'ulimit -s unlimited 2>/dev/null; exec "$0"', exe], stdin=subprocess.PIPE, stdout=subprocess.PIPE, text=True, bufsize=1)
    def ask(self, line):
        self.p.stdin.write(line + '\n'); self.p.stdin.flush()
        return self.p.stdout.readline().rstrip('\n')
    def close(self):
        try: self.p.stdin.close(); self.p.wait(timeout=5)
        except Exception: self.p.kill()

def seed_positions(oracle):
    out = []
    for name, fen in SEED_FENS.items():
        out.append((name, oracle.ask('rekey ' + fen_to_fields(fen))))
    return out

def move_kind(m):
    f, t, p, pr, fl = m.split(':')
    if fl[3] == '1': return 'castle'
    if fl[2] == '1': return 'ep'
    if pr != '12': return 'promo_cap' if fl[0] == '1' else 'promo'
    if fl[0] == '1': return 'capture'
    if fl[1] == '1': return 'double'
    return 'quiet'

def playout(oracle, start, rng, nplies, bias=4.0):
    """returns list of (fields, kindmade) along one random legal game from start"""
    g = start; out = []
    for _ in range(nplies):
        ans = oracle.ask('succ ' + g)
        if not ans.strip(): break
        succ = [x.split('=') for x in ans.split()]
        ws = [bias if move_kind(m) in ('capture', 'promo', 'promo_cap', 'castle', 'ep') else 1.0 for m, _ in succ]
        m, g2 = rng.choices(succ, weights=ws)[0]
        g = g2.replace(',', ' ')
        out.append((g, move_kind(m)))
    return out

def mirror_fields(fields):
    """colour-mirror: flip ranks, swap colours, swap mover, swap rights, mirror ep (hash field zeroed: rekey needed)"""
    t = fields.split()
    def flip(x):
        r = 0
        for row in range(8):
            r |= ((x >> (8 * row)) & 0xff) << (8 * (7 - row))
        return r
    bbs = [int(x, 16) for x in t[:12]]
    nb = [flip(bbs[(k + 6) % 12]) for k in range(12)]
    w = 0
    for k in range(6): w |= nb[k]
    b = 0
    for k in range(6, 12): b |= nb[k]
    cast = int(t[17]); nc = ((cast & 3) << 2) | ((cast >> 2) & 3)
    ep = int(t[16]); nep = 64 if ep == 64 else (7 - ep // 8) * 8 + ep % 8
    return ' '.join(['%x' % x for x in nb] + ['%x' % w, '%x' % b, '%x' % (w | b), '0' if t[15] == '1' else '1', str(nep), str(nc), t[18], t[19], '0'])


def fields_from_board(board, side, cast=0, ep=64, half=0, full=1):
    """board: dict square index (0 = a8) -> piece char"""
    bbs = [0] * 12
    for sq, ch in board.items(): bbs[PIECES.index(ch)] |= 1 << sq
    w = 0
    for k in range(6): w |= bbs[k]
    b = 0
    for k in range(6, 12): b |= bbs[k]
    return ' '.join(['%x' % x for x in bbs] + ['%x' % w, '%x' % b, '%x' % (w | b), str(side), str(ep), str(cast), str(half), str(full), '0'])

def pawn_grid(rng):
    """for every pawn square and colour: a pawn with enemy men on both capture squares (and sometimes a blocker / double-push room)"""
    out = []
    for side in (1, 0):
        for sq in range(8, 56):
            r, c = divmod(sq, 8)
            board = {sq: 'P' if side else 'p'}
            fr = r - 1 if side else r + 1
            enemy = 'nbrq' if side else 'NBRQ'
            for dc in (-1, 1):
                cc = c + dc
                if 0 <= cc < 8 and rng.random() < 0.9: board[fr * 8 + cc] = rng.choice(enemy)
            if rng.random() < 0.25: board[fr * 8 + c] = rng.choice(enemy)
            free = [x for x in range(64) if x not in board and abs(x // 8 - r) + abs(x % 8 - c) > 2]
            rng.shuffle(free)
            if len(free) < 2: continue
            board[free[0]] = 'K'; board[free[1]] = 'k'
            out.append(fields_from_board(board, side))
    return out

def random_placements(rng, n):
    out = []
    for _ in range(n):
        board = {}
        squares = list(range(64)); rng.shuffle(squares)
        board[squares.pop()] = 'K'; board[squares.pop()] = 'k'
        for _ in range(rng.randrange(1, 14)):
            ch = rng.choice('PPPNBRQpppnbrq')
            sq = squares.pop()
            if ch in 'Pp' and (sq < 8 or sq >= 56): continue
            board[sq] = ch
        cast = 0
        if board.get(60) == 'K':
            if board.get(63) == 'R' and rng.random() < 0.7: cast |= 1
            if board.get(56) == 'R' and rng.random() < 0.7: cast |= 2
        if board.get(4) == 'k':
            if board.get(7) == 'r' and rng.random() < 0.7: cast |= 4
            if board.get(0) == 'r' and rng.random() < 0.7: cast |= 8
        out.append(fields_from_board(board, rng.randrange(2), cast, 64, rng.randrange(0, 60), rng.randrange(1, 80)))
    return out
