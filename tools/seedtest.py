#!/usr/bin/env python3
"""seedtest.py <seed-id> <worktree> <property> [checks...]
Confirms a seeded change produced by a sub-agent (tests still pass, demo fails with / passes without the change), stores it under
/verif/seeded/<seed-id>/, runs the given checks (default: all) against /repo with the patch applied, undoes the patch, writes meta.json."""
import sys, os, subprocess, json, shutil, re, time

def sh(cmd, cwd=None, timeout=3600):
    p = subprocess.run(cmd, shell=True, cwd=cwd, capture_output=True, text=True, timeout=timeout, env=dict(os.environ, CARGO_NET_OFFLINE='true'))
    return p.returncode, p.stdout + p.stderr

EVSAVE = '/tmp/seedtest-evidence-save'
def save_evidence():
    shutil.rmtree(EVSAVE, ignore_errors=True); shutil.copytree('/verif/evidence', EVSAVE)
def restore_evidence():
    # evidence written while /repo was patched must not replace the evidence of the unchanged tree
    if os.path.isdir(EVSAVE):
        shutil.rmtree('/verif/evidence', ignore_errors=True); shutil.copytree(EVSAVE, '/verif/evidence'); shutil.rmtree(EVSAVE, ignore_errors=True)

def recheck():
    sid = sys.argv[2]; checks = sys.argv[3:] or [f'C{i:02d}' for i in range(1, 20)]
    out = os.path.join('/verif/seeded', sid); patch = os.path.join(out, 'patch.diff')
    meta = json.load(open(os.path.join(out, 'meta.json')))
    meta.setdefault('history', []).append({'caught_by': meta.get('caught_by'), 'caught_with_failing_input': meta.get('caught_with_failing_input')})
    rc, o = sh(f'git -C /repo apply --check {patch} && git -C /repo apply {patch}')
    if rc != 0: print('apply failed', o); return
    save_evidence()
    try:
        for c in checks:
            t0 = time.time()
            rc, o = sh(f'./check {c}', cwd='/verif', timeout=3000)
            vio = [l for l in o.splitlines() if l.startswith('VIOLATION')]
            replays = []
            for l in vio:
                mm = re.search(r'replay=(\S+)', l)
                if mm and os.path.exists(mm.group(1)):
                    try:
                        j = json.load(open(mm.group(1)))
                        replays.append({'signature': j.get('signature'), 'no_longer_checks': j.get('no_longer_checks'), 'what': (j.get('what') or '')[:160]})
                    except Exception: pass
            meta['checks'][c] = {'exit': rc, 'violations': vio, 'replays': replays, 'wall_s': round(time.time() - t0, 1)}
    finally:
        sh('git -C /repo checkout -- .'); restore_evidence()
    meta['caught_by'] = [c for c, v in meta['checks'].items() if v['exit'] != 0]
    meta['caught_with_failing_input'] = [c for c, v in meta['checks'].items() if any('no-failing-input-found' not in l for l in v['violations'])]
    json.dump(meta, open(os.path.join(out, 'meta.json'), 'w'), indent=1)
    shutil.rmtree('/verif/replays', ignore_errors=True)
    print(sid, 'caught_by', meta['caught_by'], 'with input', meta['caught_with_failing_input'])

def reconfirm():
    """re-run the demonstration of a stored seed in a fresh scratch worktree: without the change, then with it"""
    sid = sys.argv[2]
    out = os.path.join('/verif/seeded', sid); patch = os.path.join(out, 'patch.diff')
    meta = json.load(open(os.path.join(out, 'meta.json')))
    wt = f'/tmp/wt-re-{sid}'
    sh(f'git -C /repo worktree add --detach {wt} HEAD')
    try:
        os.makedirs(os.path.join(wt, 'MUTATION'), exist_ok=True)
        for f in os.listdir(out):
            if f not in ('meta.json',): shutil.copy2(os.path.join(out, f), os.path.join(wt, 'MUTATION'))
        demo = next((f for f in ('demo.sh', 'demo.py') if os.path.exists(os.path.join(wt, 'MUTATION', f))), None)
        runner = f'bash MUTATION/{demo}' if demo.endswith('.sh') else f'python3 MUTATION/{demo}'
        sh('cargo build --release --offline', cwd=wt)
        rc2, o2 = sh(runner, cwd=wt)
        sh(f'git apply {patch}', cwd=wt)
        sh('cargo build --release --offline', cwd=wt)
        rc1, o1 = sh(runner, cwd=wt)
        rc, o = sh('cargo test --offline 2>&1 | grep "test result"', cwd=wt)
        m = re.search(r'(\d+) passed; (\d+) failed', o)
        meta['confirmed'] = {'baseline_with_change': m.group(0) if m else o[-200:], 'demo_with_change_rc': rc1, 'demo_with_change_tail': o1[-600:],
                             'demo_without_change_rc': rc2, 'demo_without_change_tail': o2[-300:]}
        json.dump(meta, open(os.path.join(out, 'meta.json'), 'w'), indent=1)
        print(sid, 'reconfirmed: with change rc', rc1, 'without change rc', rc2, meta['confirmed']['baseline_with_change'])
    finally:
        sh(f'git -C /repo worktree remove --force {wt}')

def main():
    if sys.argv[1] == '--recheck': return recheck()
    if sys.argv[1] == '--reconfirm': return reconfirm()
    sid, wt, prop = sys.argv[1:4]
    checks = sys.argv[4:] or [f'C{i:02d}' for i in range(1, 20)]
    mdir = os.path.join(wt, 'MUTATION')
    out = os.path.join('/verif/seeded', sid); os.makedirs(out, exist_ok=True)
    meta = {'seed_id': sid, 'property': prop, 'confirmed': {}, 'checks': {}}
    demo = next((f for f in ('demo.sh', 'demo.py') if os.path.exists(os.path.join(mdir, f))), None)
    # 1. confirm in the worktree
    rc, o = sh('cargo test --offline 2>&1 | grep "test result"', cwd=wt)
    m = re.search(r'(\d+) passed; (\d+) failed', o)
    meta['confirmed']['baseline_with_change'] = m.group(0) if m else o[-200:]
    runner = f'bash MUTATION/{demo}' if demo and demo.endswith('.sh') else f'python3 MUTATION/{demo}'
    if demo:
        sh('cargo build --release --offline', cwd=wt)
        rc1, o1 = sh(runner, cwd=wt)
        meta['confirmed']['demo_with_change_rc'] = rc1; meta['confirmed']['demo_with_change_tail'] = o1[-600:]
        # (git stash is shared by all worktrees of a repository: never use it here)
        tmpp = f'/tmp/seedpatch-{sid}.diff'
        rcd, od = sh('git diff HEAD -- src build.rs Cargo.toml', cwd=wt); open(tmpp, 'w').write(od)
        sh(f'git apply -R {tmpp}', cwd=wt)
        sh('cargo build --release --offline', cwd=wt)
        rc2, o2 = sh(runner, cwd=wt)
        sh(f'git apply {tmpp}', cwd=wt); os.remove(tmpp)
        meta['confirmed']['demo_without_change_rc'] = rc2; meta['confirmed']['demo_without_change_tail'] = o2[-300:]
    # 2. store
    for f in os.listdir(mdir):
        if os.path.isfile(os.path.join(mdir, f)) and os.path.getsize(os.path.join(mdir, f)) < 200000:
            shutil.copy2(os.path.join(mdir, f), out)
    patch = os.path.join(out, 'patch.diff')
    rc, o = sh('git diff HEAD -- src build.rs Cargo.toml', cwd=wt)
    open(patch, 'w').write(o)      # regenerate from the worktree so that it is exactly what was confirmed
    # 3. run the checks against /repo with the patch
    rc, o = sh(f'git -C /repo apply --check {patch} && git -C /repo apply {patch}')
    if rc != 0:
        meta['apply_error'] = o[-500:]
    else:
        save_evidence()
        try:
            for c in checks:
                t0 = time.time()
                rc, o = sh(f'./check {c}', cwd='/verif', timeout=3000)
                vio = [l for l in o.splitlines() if l.startswith('VIOLATION')]
                replays = []
                for l in vio:
                    mm = re.search(r'replay=(\S+)', l)
                    if mm and os.path.exists(mm.group(1)):
                        try:
                            j = json.load(open(mm.group(1)))
                            replays.append({'signature': j.get('signature'), 'no_longer_checks': j.get('no_longer_checks'), 'what': (j.get('what') or '')[:160]})
                        except Exception: pass
                meta['checks'][c] = {'exit': rc, 'violations': vio, 'replays': replays, 'wall_s': round(time.time() - t0, 1)}
        finally:
            sh('git -C /repo checkout -- .'); restore_evidence()
    meta['caught_by'] = [c for c, v in meta['checks'].items() if v['exit'] != 0]
    meta['caught_with_failing_input'] = [c for c, v in meta['checks'].items() if any('no-failing-input-found' not in l for l in v['violations'])]
    json.dump(meta, open(os.path.join(out, 'meta.json'), 'w'), indent=1)
    shutil.rmtree('/verif/replays', ignore_errors=True)
    print(json.dumps({k: meta[k] for k in ('seed_id', 'property', 'confirmed', 'caught_by', 'caught_with_failing_input')}, indent=1)[:3000])
    # 4. remove the worktree
    sh(f'git -C /repo worktree remove --force {wt}')

if __name__ == '__main__':
    main()
