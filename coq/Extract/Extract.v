(* Extraction of the executable model for the correspondence check (tie 2).
   Only ExtrOcamlBasic: bool, option, unit, list, prod, sumbool, sumor map to OCaml's; numbers stay positive/N/Z. *)
From Coq Require Import ZArith NArith List.
From Coq Require Extraction.
From Coq Require Import ExtrOcamlBasic.
From JV Require Import Gen.Consts Model.TT.
Extraction Language OCaml.
From JV Require Import Spec.TTSpec.
From JV Require Import Model.Go.
From JV Require Import Spec.Rays Model.Chess Model.Eval Spec.ChessSpec Model.Abs Model.Sym Model.Search Model.SearchChess Model.Monitors Spec.Minimax Model.Fen Model.FenSyntax Model.Uci.
Extraction "Extract/model.ml" TT.run_reqs TT.table TT.probe TTSpec.monitor Go.parse_go
  Rays.slide Rays.leaper Rays.rook_dirs Rays.bishop_dirs Rays.knight_offs Rays.king_offs Rays.wpawn_offs Rays.bpawn_offs
  Chess.generate_moves Chess.is_legal Chess.make_search_move Chess.make_zobrist_hash Chess.is_in_check Chess.null_move
  Chess.perft1 Chess.perft2 Chess.perft_n Chess.legal_moves Eval.evaluate
  Abs.abs Abs.umove Abs.mon_legal_set Abs.mon_capture_set Abs.mon_make Abs.spec_perft Abs.spec_in_check Abs.occ_ok Abs.move_fits Abs.nkc_b Abs.legal_inv_b Sym.mirror Sym.men16_b Sym.prow2_b ChessSpec.legal_moves ChessSpec.checkmate ChessSpec.stalemate Abs.wf
  SearchChess.c_search SearchChess.render_out SearchChess.to_uci
  Monitors.mon_nodes Monitors.mon_frame Monitors.mon_cadence Monitors.legal_line Monitors.mon_pv Monitors.mon_bestmove Monitors.spec_has_legal Monitors.spec_legal_line Monitors.spec_mates_in Monitors.spec_mated_in Monitors.spec_line_mates
  Minimax.minimax_fast FenSyntax.fen_describes Fen.new_from_fen Fen.parse_position Uci.uci_session.
