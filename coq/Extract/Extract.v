(* Extraction of the executable model for the correspondence check (tie 2).
   Only ExtrOcamlBasic: bool, option, unit, list, prod, sumbool, sumor map to OCaml's; numbers stay positive/N/Z. *)
From Coq Require Import ZArith NArith List.
From Coq Require Extraction.
From Coq Require Import ExtrOcamlBasic.
From JV Require Import Gen.Consts Model.TT.
Extraction Language OCaml.
From JV Require Import Spec.TTSpec.
From JV Require Import Model.Go.
From JV Require Import Spec.Rays.
Extraction "Extract/model.ml" TT.run_reqs TT.table TT.probe TTSpec.monitor Go.parse_go
  Rays.slide Rays.leaper Rays.rook_dirs Rays.bishop_dirs Rays.knight_offs Rays.king_offs Rays.wpawn_offs Rays.bpawn_offs.
