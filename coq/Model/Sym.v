(* Executable definitions used by the statements of C16 (and by the correspondence check): the colour mirror of a position, the
   count of men a side, and the two decidable side conditions "at most 16 men a side" / "pawns on ranks 2..7". *)
From Coq Require Import NArith List Bool.
From JV Require Import Gen.Consts Model.Bits Model.Chess.
Import ListNotations.
Local Open Scope N_scope.

(* flipping a set of squares top to bottom: square s <-> s xor 56 *)
Definition msq (s : N) : N := N.lxor s 56.
Definition flipv (b : N) : N := fold_left (fun acc s => set_bit acc (msq s)) (bits_of b) 0.
(* the colour-mirrored position: board flipped, colours and mover swapped (the fields the evaluation ignores are kept) *)
Definition mirror (g : game) : game :=
  mkGame (map flipv (skipn 6 (bbs g) ++ firstn 6 (bbs g))) (flipv (bocc g)) (flipv (wocc g)) (flipv (aocc g)) (negb (white g))
         (ep g) (castling g) (half g) (full g) (hash g).

Definition cnt (b : N) : nat := length (bits_of b).
Definition cq (bs : list N) (q : N) : nat := cnt (nthN bs q).
Definition menW (bs : list N) : nat := (cq bs 0 + cq bs 1 + cq bs 2 + cq bs 3 + cq bs 4 + cq bs 5)%nat.
Definition menB (bs : list N) : nat := (cq bs 6 + cq bs 7 + cq bs 8 + cq bs 9 + cq bs 10 + cq bs 11)%nat.
Definition men16_b (g : game) : bool := Nat.leb (menW (bbs g)) 16 && Nat.leb (menB (bbs g)) 16.
(* white pawns below rank 8 and black pawns above rank 1 are part of the range invariant; these are the other halves *)
Definition prow2_b (g : game) : bool := (bb g WP <? 2 ^ 56) && (N.land (bb g BP) 255 =? 0).
