(* Model of Game::new_from_fen (src/game.rs), square_from_string / char_to_piece (src/utilities.rs), Game::parse_move and
   parse_position (src/main.rs, after fix 49080c5: the base position is recorded in the repetition history too),
   on Coq strings, as written: trim, split(' '), digit runs, contains, parse::<u8>/<u16> + unwrap, skip(9), take_while(!= 'm').
   Outcomes: FOk g | FNone (Rust returns None) | FPanic (an unwrap / index / "Illegal move" panic).
   Release-build integer semantics: the u8 square counter wraps at 256 and `1 << sq` masks the shift to 6 bits. *)
From Coq Require Import NArith ZArith List Bool String Ascii.
From JV Require Import Gen.Consts Model.Bits Model.Chess Model.SearchChess.
Import ListNotations.
Local Open Scope N_scope.

Definition sp : ascii := " "%char.
Definition is_ws (c : ascii) : bool :=
  let n := N_of_ascii c in (n =? 32) || (n =? 9) || (n =? 10) || (n =? 13) || (n =? 11) || (n =? 12).
Fixpoint ltrim (s : string) : string := match s with String c r => if is_ws c then ltrim r else s | EmptyString => s end.
Fixpoint srev_acc (s acc : string) : string := match s with EmptyString => acc | String c r => srev_acc r (String c acc) end.
Definition srev (s : string) : string := srev_acc s EmptyString.
Definition trim (s : string) : string := srev (ltrim (srev (ltrim s))).

(* str::split(' '): "a  b" -> ["a"; ""; "b"], "" -> [""] *)
Fixpoint split_sp_acc (s : string) (cur : string) : list string :=
  match s with
  | EmptyString => [srev cur]
  | String c r => if Ascii.eqb c sp then srev cur :: split_sp_acc r EmptyString else split_sp_acc r (String c cur)
  end.
Definition split_sp (s : string) : list string := split_sp_acc s EmptyString.

Fixpoint contains_char (s : string) (c : ascii) : bool :=
  match s with EmptyString => false | String d r => Ascii.eqb c d || contains_char r c end.
Fixpoint skip (n : nat) (s : string) : string := match n, s with S k, String _ r => skip k r | _, _ => s end.
Fixpoint take_while_not (c : ascii) (s : string) : string :=
  match s with String d r => if Ascii.eqb c d then EmptyString else String d (take_while_not c r) | EmptyString => EmptyString end.

Definition is_digit (c : ascii) : bool := let n := N_of_ascii c in (48 <=? n) && (n <=? 57).
Definition digit_val (c : ascii) : N := N_of_ascii c - 48.
Definition is_upper (c : ascii) : bool := let n := N_of_ascii c in (65 <=? n) && (n <=? 90).

Definition char_to_piece (c : ascii) : option N :=
  let n := N_of_ascii c in
  if n =? 80 then Some WP else if n =? 82 then Some WR else if n =? 78 then Some WN else if n =? 66 then Some WB
  else if n =? 81 then Some WQ else if n =? 75 then Some WK else if n =? 112 then Some BP else if n =? 114 then Some BR
  else if n =? 110 then Some BN else if n =? 98 then Some BB else if n =? 113 then Some BQ else if n =? 107 then Some BK
  else None.

(* str::parse::<uN>: optional '+', at least one digit, digits only, value below the bound *)
Fixpoint digits_val (s : string) (acc : N) : option N :=
  match s with
  | EmptyString => Some acc
  | String c r => if is_digit c then digits_val r (acc * 10 + digit_val c) else None
  end.
Definition parse_uint (bound : N) (s : string) : option N :=
  let body := match s with String c r => if Ascii.eqb c "+"%char then r else s | EmptyString => s end in
  match body with
  | EmptyString => None
  | _ => match digits_val body 0 with Some v => if v <? bound then Some v else None | None => None end
  end.

Inductive fres (A : Type) := FOk (x : A) | FNone | FPanic.
Arguments FOk {A}. Arguments FNone {A}. Arguments FPanic {A}.

(* square_from_string: x = chars[0] - 97 (u8), y = 8 - digit (usize), SQUARES[8*y + x]; None = panic.
   Release-build arithmetic: the u8 and usize subtractions wrap, so "z9" is 8*(-1) + 25 = 17; an index above 64 panics. *)
Definition square_from_string (s : string) : option N :=
  match s with
  | String f (String r _) =>
    if negb (is_digit r) then None                         (* to_digit(10).unwrap() *)
    else
      let x := Z.of_N ((N_of_ascii f + 256 - 97) mod 256) in
      let idx := (8 * (8 - Z.of_N (digit_val r)) + x)%Z in
      if (idx <? 0)%Z then None else if (idx <=? 64)%Z then Some (Z.to_N idx) else None
  | _ => None                                              (* index out of bounds on a short string *)
  end.

(* the board field: (bitboards, white, black, all, i) *)
Definition board_step (st : list N * N * N * N * N) (c : ascii) : option (list N * N * N * N * N) :=
  let '(bs, w, b, a, i) := st in
  if is_digit c then Some (bs, w, b, a, (i + digit_val c) mod 256)
  else if Ascii.eqb c "/"%char then Some st
  else match char_to_piece c with
       | None => None
       | Some p =>
         let sq := i mod 64 in
         Some (upd bs p (set_bit (nthN bs p) sq), (if is_upper c then set_bit w sq else w), (if is_upper c then b else set_bit b sq),
               set_bit a sq, (i + 1) mod 256)
       end.
Fixpoint board_fold (s : string) (st : list N * N * N * N * N) : option (list N * N * N * N * N) :=
  match s with
  | EmptyString => Some st
  | String c r => match board_step st c with Some st' => board_fold r st' | None => None end
  end.

Definition new_from_fen (input : string) : fres game :=
  let toks := split_sp (trim input) in
  match toks with
  | [] => FNone
  | board_str :: rest =>
    match board_fold board_str (repeat 0 12, 0, 0, 0, 0) with
    | None => FNone
    | Some (bs, w, b, a, _) =>
      match rest with
      | [] => FNone
      | active :: rest =>
        let white_ := String.eqb active "w" in
        let castling_str := match rest with s :: _ => s | [] => EmptyString end in
        let rest := tl rest in
        let c := (if contains_char castling_str "K"%char then 1 else 0) + (if contains_char castling_str "Q"%char then 2 else 0) +
                 (if contains_char castling_str "k"%char then 4 else 0) + (if contains_char castling_str "q"%char then 8 else 0) in
        let ep_str := match rest with s :: _ => s | [] => "-"%string end in
        let rest := tl rest in
        match (if String.eqb ep_str "-" then Some NOSQ else square_from_string ep_str) with
        | None => FPanic
        | Some e =>
          match (match rest with s :: _ => parse_uint 256 s | [] => Some 0 end) with
          | None => FPanic
          | Some hm =>
            match (match tl rest with s :: _ => parse_uint 65536 s | [] => Some 0 end) with
            | None => FPanic
            | Some fm =>
              let g := mkGame bs w b a white_ e c hm fm 0 in
              FOk (mkGame bs w b a white_ e c hm fm (make_zobrist_hash g))
            end
          end
        end
      end
    end
  end.

Definition start_fen : string := "rnbqkbnr/pppppppp/8/8/8/8/PPPPPPPP/RNBQKBNR w KQkq - 0 1".

(* Game::parse_move: the first legal move whose UCI string equals the token *)
Definition parse_move (g : game) (tok : string) : option move :=
  find (fun m => String.eqb (to_uci m) tok) (legal_moves g).

(* repetition table as (keys so far, in order); capacity REP_CAPACITY: an insert beyond it panics *)
Fixpoint play_moves (g : game) (rep : list N) (toks : list string) : fres (game * list N) :=
  match toks with
  | [] => FOk (g, rep)
  | t :: r =>
    match parse_move g t with
    | None => FPanic                                        (* panic!("Illegal move") *)
    | Some m =>
      match make_search_move g m with
      | Made g' => if N.of_nat (List.length rep) <? REP_CAPACITY then play_moves g' (rep ++ [hash g']) r else FPanic
      | _ => FPanic
      end
    end
  end.

(* parse_position(args, rep) with rep freshly cleared by the caller; args = the text after "position " *)
Definition parse_position (args : string) : fres (game * list N) :=
  let pos := match split_sp args with p :: _ => p | [] => EmptyString end in
  let base_rest : fres (game * string) :=
    if String.eqb pos "startpos" then
      match new_from_fen start_fen with FOk g => FOk (g, skip 9 args) | FNone => FPanic | FPanic => FPanic end
    else if String.eqb pos "fen" then
      if Nat.ltb (String.length args) 5 then FNone
      else let fen := take_while_not "m"%char (skip 4 args) in
           match new_from_fen fen with
           | FOk g => FOk (g, skip (4 + String.length fen) args)
           | FNone => FNone
           | FPanic => FPanic
           end
    else FNone in
  match base_rest with
  | FNone => FNone
  | FPanic => FPanic
  | FOk (g, rest) =>
    let rep := [hash g] in
    match split_sp rest with
    | first :: more => if String.eqb first "moves" then play_moves g rep more else FOk (g, rep)
    | [] => FPanic
    end
  end.
