(* Model of the UCI front end: the main loop of src/main.rs as a state machine over input lines, and SearchEnv::poll_input's
   handling of input that arrives during a search (after the fixes 8ff4e2c bare go, 0de86eb EOF = quit, b1eb103 poll dispatch).
   Input: a list of (d, line): the line becomes visible to the engine d polls after the previous line was taken (d is irrelevant
   while the engine is idle: the main loop blocks on the channel).  End of input = the reader thread sends "quit".
   Modelled commands: uci, isready, ucinewgame/cleartt, position, move, go (every form whose arguments parse; the moment a time budget runs out is an oracle), stop (idle), eval, d,
   perft N (N >= 1), perft! N (N < 255), quit/exit/x, unknown.  Not modelled (OUnmodelled): help, psuite, sbench, go random,
   perft 0 (the u8 depth wraps to 255) and perft! 255 (depth + 1 overflows).
   Threads, the OS pipe and wall-clock time are not modelled: the channel is a FIFO of lines (trusted: std::sync::mpsc, one producer). *)
From Coq Require Import NArith ZArith List Bool String Ascii FMapPositive.
From JV Require Import Gen.Consts Model.Bits Model.Chess Model.Eval Model.TT Model.Search Model.SearchChess Model.Fen Model.Go.
Import ListNotations.
Local Open Scope string_scope.
Local Open Scope list_scope.

Record ustate := mkU { u_game : game; u_tt : tt; u_rep : list N }.

Inductive uout :=
| OText (s : string)                  (* a literal line *)
| OSearchOut (o : out move)           (* an info / bestmove line of a search *)
| ODisplay (g : game)                 (* the `d` board *)
| OEval (v : Z)
| OPerft (depth : N) (per_move : list (string * N)) (total : N)
      (* go_perft: the "<from><to>: n" lines perft prints for the accepted root moves (generation order here; rayon prints them in any
         order when depth > 2; none at depth 1, where the leaves are bulk-counted), then " Found <total> moves for depth <depth> in ..ms" *)
| OUnmodelled (cmd : string).

Inductive status := Continue | Exit | UPanic.

Definition lower_str := lower.
Definition first_token (s : string) : string := match split_sp s with t :: _ => t | [] => "" end.
Definition rest_tokens (s : string) : list string := tl (split_sp s).

(* parse::<i64> of a decimal token (optional sign); None = unwrap panic *)
Definition parse_i64 (s : string) : option Z :=
  match s with
  | String c r =>
    if Ascii.eqb c "-"%char then match r with EmptyString => None | _ => option_map (fun n => (- Z.of_N n)%Z) (digits_val r 0) end
    else option_map Z.of_N (parse_uint (2 ^ 63) s)
  | EmptyString => None
  end.

(* the argument loop of parse_go on tokens *)
Inductive gores := GoArgs (a : goargs) (msgs : list string) | GoReturn (msgs : list string) | GoPanic | GoRandom.
Fixpoint go_tokens (white : bool) (a : goargs) (toks : list string) (msgs : list string) (fuel : nat) : gores :=
  match fuel with
  | O => GoArgs a msgs
  | S f =>
    match toks with
    | [] => GoArgs a msgs
    | t :: r =>
      if String.eqb t "" then go_tokens white a r msgs f
      else
        let kw := if String.eqb t "binc" then Some Kbinc else if String.eqb t "winc" then Some Kwinc
                  else if String.eqb t "btime" then Some Kbtime else if String.eqb t "wtime" then Some Kwtime
                  else if String.eqb t "movestogo" then Some Kmovestogo else if String.eqb t "movetime" then Some Kmovetime
                  else if String.eqb t "depth" then Some Kdepth else if String.eqb t "infinite" then Some Kinfinite else None in
        match kw with
        | Some Kinfinite => go_tokens white a r msgs f
        | Some Kdepth =>
          match r with
          | [] => GoReturn msgs
          | v :: r' => match parse_i64 v with
                       | Some z => match go_step white a Kdepth z with Some a' => go_tokens white a' r' msgs f | None => GoReturn msgs end
                       | None => GoReturn msgs
                       end
          end
        | Some k =>
          (* the other colour's clock arguments are skipped without parsing (split.next() without unwrap) *)
          let mine := match k with Kbinc | Kbtime => negb white | Kwinc | Kwtime => white | _ => true end in
          if mine then
            match r with
            | [] => GoPanic                                   (* split.next().unwrap() *)
            | v :: r' => match parse_i64 v with
                         | Some z => match go_step white a k z with Some a' => go_tokens white a' r' msgs f | None => GoReturn msgs end
                         | None => GoPanic                    (* parse::<i64>().unwrap() *)
                         end
            end
          else go_tokens white a (tl r) msgs f
        | None =>
          if String.eqb t "random" then GoRandom
          else go_tokens white a r (msgs ++ [String.append "Illegal 'go' command: '" (String.append t "'")]) f
        end
    end
  end.

(* ---- input arriving during a search (SearchEnv::poll_input) ---- *)
Inductive pollact := PReady | PIgnore | PStop | PUnread.
Definition poll_dispatch (line : string) : pollact :=
  if String.eqb line "isready" then PReady else if String.eqb line "" then PIgnore
  else if String.eqb line "stop" then PStop else PUnread.

(* lines taken by polls: returns (number of isready answered, poll index of the stopping line if any, is it re-queued, lines left).
   `at_` = index of the next poll at which a line can be taken; a line with delay d is taken at poll at_ + d *)
Fixpoint poll_schedule (input : list (nat * string)) (at_ : nat) (npolls : option nat) (fuel : nat)
  : nat * option (nat * bool) * list (nat * string) :=
  match fuel with
  | O => (O, None, input)
  | S f =>
    match input with
    | [] => (O, None, [])
    | (d, l) :: r =>
      let k := (at_ + d)%nat in
      if match npolls with Some n => Nat.ltb k n | None => true end then
        match poll_dispatch (trim l) with
        | PReady => let '(n, s, rest) := poll_schedule r (S k) npolls f in (S n, s, rest)
        | PIgnore => poll_schedule r (S k) npolls f
        | PStop => (O, Some (k, false), r)
        | PUnread => (O, Some (k, true), r)
        end
      else (O, None, input)
    end
  end.
(* the poll index at which the search is told to stop, ignoring how many polls the search will make *)
Definition stop_poll (input : list (nat * string)) : option nat :=
  match poll_schedule input 0 None (List.length input) with (_, Some (k, _), _) => Some k | _ => None end.

(* the deadline of a search with a time budget: wall-clock time is not modelled, so the index of the first poll that finds the budget used up is an
   oracle `dl` (every theorem quantifies over it).  budget -1 = no deadline; budget 0 = already expired at the first poll; otherwise poll `dl`.
   A poll that finds the deadline passed returns before looking at the channel, so lines are only taken by polls with a smaller index. *)
Definition deadline_poll (dl : nat) (max_time : Z) : option nat :=
  if (max_time =? -1)%Z then None else if (max_time =? 0)%Z then Some O else Some dl.
Definition stop_index (dl : nat) (max_time : Z) (input : list (nat * string)) : option nat :=
  match deadline_poll dl max_time, stop_poll input with
  | None, s => s
  | Some d, Some s => Some (Nat.min s d)
  | Some d, None => Some d
  end.
(* the engine's polling cadence plus the verification hook's extra polls *)
Definition session_search (extra : N) (dl : nat) (u : ustate) (depth : Z) (max_time : Z) (input : list (nat * string)) :=
  let stopk : option nat := stop_index dl max_time input in
  chess_search (c_pollp extra) (fun k => match stopk with Some s => Nat.leb s k | None => false end) false
               (u_game u) depth (u_tt u) (u_rep u ++ repeat 0%N (N.to_nat REP_CAPACITY - List.length (u_rep u))) (List.length (u_rep u)).

Definition unknown_line : string := "  Unknown command".

(* perft(game, depth, print = true) seen from the console: one line per accepted root move, for depth >= 2 *)
Definition perft_lines (d : N) (g : game) : list (string * N) :=
  if (d <=? 1)%N then [] else
  flat_map (fun m => match make_search_move g m with
                     | Made g' => [((nth (N.to_nat (mfrom m)) SQUARE_STRINGS "" ++ nth (N.to_nat (mto m)) SQUARE_STRINGS "")%string, perft_n (d - 1) g')]
                     | _ => []
                     end) (generate_moves g true).
Definition go_perft (d : N) (g : game) (detail : bool) : uout := OPerft d (if detail then perft_lines d g else []) (perft_n d g).

(* one iteration of the main loop on `line`; `input` = the lines not yet read. Returns new state, outputs, the re-queued line, remaining input, status *)
Definition uci_step (extra : N) (dl : nat) (u : ustate) (line0 : string) (input : list (nat * string))
  : ustate * list uout * option string * list (nat * string) * status :=
  let line := trim line0 in
  if String.eqb line "" then (u, [], None, input, Continue) else
  let cmd := lower_str (first_token line) in
  let has_arg := match rest_tokens line with [] => false | _ => true end in
  if String.eqb cmd "quit" || String.eqb cmd "exit" || String.eqb cmd "x" then (u, [OText " Exited!"], None, input, Exit)
  else if String.eqb cmd "uci" then (u, [OText "id name JENCE"; OText "id author Joachim Enggaard Nebel"; OText "uciok"], None, input, Continue)
  else if String.eqb cmd "isready" then (u, [OText "readyok"], None, input, Continue)
  else if String.eqb cmd "ucinewgame" || String.eqb cmd "cleartt" then (mkU (u_game u) (clear (u_tt u)) [], [], None, input, Continue)
  else if String.eqb cmd "d" then (u, [ODisplay (u_game u)], None, input, Continue)
  else if String.eqb cmd "eval" then (u, [OEval (evaluate (u_game u))], None, input, Continue)
  else if String.eqb cmd "position" then
    if negb has_arg then (u, [], None, input, Continue)
    else match parse_position (skip 9 line) with
         | FOk (g, rep) => (mkU g (u_tt u) rep, [], None, input, Continue)
         | FNone => (u, [], None, input, UPanic)                (* panic!(" Illegal fen string") *)
         | FPanic => (u, [], None, input, UPanic)
         end
  else if String.eqb cmd "go" then
    match go_tokens (white (u_game u)) go_init (split_sp (skip 2 line)) [] (S (String.length line)) with
    | GoPanic => (u, [], None, input, UPanic)
    | GoRandom => (u, [OUnmodelled "go random"], None, input, Continue)
    | GoReturn msgs => (u, map OText msgs, None, input, Continue)
    | GoArgs a msgs =>
      let max_time := go_budget a in
      match session_search extra dl u (g_depth a) max_time input with
      | SFuel => (u, [], None, input, UPanic)
      | SDone outs e _ =>
        (* lines are taken by the polls made before the deadline was seen *)
        let limit := match deadline_poll dl max_time with None => npolls e | Some d => Nat.min (npolls e) d end in
        let '(nready, stopper, rest) := poll_schedule input 0 (Some limit) (List.length input) in
        let requeue := match stopper, rest, input with
                       | Some (k, true), _, _ => nth_error (map snd input) (List.length input - List.length rest - 1)
                       | _, _, _ => None
                       end in
        (mkU (u_game u) (tbl e) (u_rep u), map OText msgs ++ repeat (OText "readyok") nready ++ map OSearchOut outs, requeue, rest, Continue)
      end
    end
  else if String.eqb cmd "stop" then (u, [OText unknown_line], None, input, Continue)
  else if String.eqb cmd "move" then
    (* every remaining token is parsed and made on the current position, its key appended to the recorded history *)
    match play_moves (u_game u) (u_rep u) (rest_tokens line) with
    | FOk (g, rep) => (mkU g (u_tt u) rep, [], None, input, Continue)
    | _ => (u, [], None, input, UPanic)                          (* panic!("Illegal move") / history beyond its capacity *)
    end
  else if String.eqb cmd "perft" then
    match rest_tokens line with
    | [] => (u, [], None, input, Continue)
    | t :: _ =>
      if String.eqb t "simple" then (u, [OText " Please provide depth"], None, input, Continue)   (* a token holds no second word *)
      else match parse_uint 256 t with
           | None => (u, [], None, input, UPanic)                 (* parse::<u8>().unwrap() *)
           | Some d => if (d =? 0)%N then (u, [OUnmodelled "perft 0"], None, input, Continue)
                       else (u, [go_perft d (u_game u) true], None, input, Continue)
           end
    end
  else if String.eqb cmd "perft!" then
    match rest_tokens line with
    | [] => (u, [], None, input, UPanic)                          (* split.next().unwrap() *)
    | t :: _ =>
      match parse_uint 256 t with
      | None => (u, [], None, input, UPanic)
      | Some d => if (d =? 255)%N then (u, [OUnmodelled "perft! 255"], None, input, Continue)
                  else (u, map (fun i => go_perft (N.of_nat i) (u_game u) false) (seq 1 (N.to_nat d)) ++ [OText " Done with perft!"], None, input, Continue)
      end
    end
  else if String.eqb cmd "help" || String.eqb cmd "psuite" || String.eqb cmd "sbench"
       then (u, [OUnmodelled cmd], None, input, Continue)
  else (u, [OText unknown_line], None, input, Continue).

(* the whole session: the re-queued line first, then the input. The reader thread's "quit" at end of input is part of `input`
   (uci_session appends it); reading beyond it is a read from a disconnected channel: unreachable!() *)
Fixpoint uci_run (extra : N) (dls : list nat) (fuel : nat) (u : ustate) (pending : option string) (input : list (nat * string)) : list uout * status :=
  match fuel with
  | O => ([], Continue)
  | S f =>
    let next : option (string * list (nat * string)) :=
      match pending with
      | Some l => Some (l, input)
      | None => match input with (_, l) :: r => Some (l, r) | [] => None end
      end in
    match next with
    | None => ([], UPanic)
    | Some (l, input') =>
      let '(u', outs, requeue, input'', st) := uci_step extra (List.hd O dls) u l input' in
      match st with
      | Continue => let '(outs', st') := uci_run extra (List.tl dls) f u' requeue input'' in (outs ++ outs', st')
      | _ => (outs, st)
      end
    end
  end.

Definition init_ustate : ustate :=
  mkU (match new_from_fen start_fen with FOk g => g | _ => mkGame [] 0 0 0 true 64 0 0 0 0 end) (PositiveMap.empty _) [].
Definition with_eof (input : list (nat * string)) : list (nat * string) := input ++ [(O, "quit")].
(* `dls`: the deadline oracle of the k-th executed line (only a `go` with a time budget looks at it) *)
Definition uci_session (extra : N) (dls : list nat) (input : list (nat * string)) : list uout * status :=
  uci_run extra dls (2 * List.length input + 4) init_ustate None (with_eof input).
