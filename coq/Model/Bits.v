(* 64-bit machine operations used by the engine, by their Intel definitions, on N.
   PEXT / PDEP / POPCNT on little-endian bit lists; TZCNT / BLSR through bits_of (set bits in increasing order). *)
From Coq Require Import Arith NArith List Bool.
Import ListNotations.
Local Open Scope N_scope.

Fixpoint to_bits (n : nat) (x : N) : list bool :=
  match n with O => [] | S k => N.odd x :: to_bits k (N.div2 x) end.
Fixpoint of_bits (l : list bool) : N :=
  match l with [] => 0 | b :: r => (if b then 1 else 0) + 2 * of_bits r end.

Fixpoint pext_bits (x m : list bool) : list bool :=
  match x, m with
  | xb :: xs, mb :: ms => if mb then xb :: pext_bits xs ms else pext_bits xs ms
  | _, _ => []
  end.
Fixpoint pdep_bits (i m : list bool) : list bool :=
  match m with
  | [] => []
  | mb :: ms =>
    if mb then match i with [] => false :: pdep_bits [] ms | ib :: is' => ib :: pdep_bits is' ms end
    else false :: pdep_bits i ms
  end.
Fixpoint and_bits (x m : list bool) : list bool :=
  match x, m with xb :: xs, mb :: ms => (xb && mb) :: and_bits xs ms | _, _ => [] end.
Fixpoint popc (m : list bool) : nat := match m with [] => O | b :: r => (if b then 1 else 0) + popc r end.

Definition pext (x m : N) : N := of_bits (pext_bits (to_bits 64 x) (to_bits 64 m)).
Definition pdep (i m : N) : N := of_bits (pdep_bits (to_bits 64 i) (to_bits 64 m)).
Definition popcount (x : N) : nat := popc (to_bits 64 x).

Definition nthN (l : list N) (i : N) : N := nth (N.to_nat i) l 0.

Fixpoint seqN (start : N) (len : nat) : list N :=
  match len with O => [] | S k => start :: seqN (N.succ start) k end.
