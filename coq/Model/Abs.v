(* The abstraction function from the engine's bitboard position to the specification's 64-cell position,
   and the executable monitors that state C01 / C02 / C14 for ONE position as booleans over what an implementation
   answered.  The monitors are extracted and applied to the real engine's answers (search for a failing input);
   the theorems in Proofs/ say for which positions the model is accepted. *)
From Coq Require Import NArith ZArith List Bool.
From JV Require Import Model.Bits Model.Chess Spec.ChessSpec.
Import ListNotations.

Definition piece_of (p : N) : piece :=
  (if N.ltb p 6 then White else Black,
   match N.modulo p 6 with 0%N => Pawn | 1%N => Knight | 2%N => Bishop | 3%N => Rook | 4%N => Queen | _ => King end).

Definition cell (g : game) (i : N) : option piece :=
  match find (fun p => get_bit (bb g p) i) [0;1;2;3;4;5;6;7;8;9;10;11]%N with
  | Some p => Some (piece_of p)
  | None => None
  end.

Definition sq_of_idx (s : N) : sq := (Z.of_N (N.modulo s 8), (7 - Z.of_N (N.div s 8))%Z).

Definition abs (g : game) : pos :=
  mkPos (map (cell g) (seqN 0 64))
        (if white g then White else Black)
        (N.testbit (castling g) 0) (N.testbit (castling g) 1) (N.testbit (castling g) 2) (N.testbit (castling g) 3)
        (if N.eqb (ep g) NOSQ then None else Some (sq_of_idx (ep g)))
        (Z.of_N (half g)) (Z.of_N (full g)).

Definition promo_kind (p : N) : option kind :=
  if N.eqb p NOPIECE then None
  else Some (snd (piece_of p)).
Definition umove (m : move) : smove := mkSMove (sq_of_idx (mfrom m)) (sq_of_idx (mto m)) (promo_kind (mpromo m)).

(* ---- decidable equalities on the specification side ---- *)
Definition okind_eqb (a b : option kind) : bool :=
  match a, b with None, None => true | Some x, Some y => kind_eqb x y | _, _ => false end.
Definition smove_eqb (a b : smove) : bool :=
  sq_eqb (sfrom a) (sfrom b) && sq_eqb (sto a) (sto b) && okind_eqb (spromo a) (spromo b).
Definition opiece_eqb (a b : option piece) : bool :=
  match a, b with None, None => true | Some (c, k), Some (c', k') => color_eqb c c' && kind_eqb k k' | _, _ => false end.
Fixpoint board_eqb (a b : list (option piece)) : bool :=
  match a, b with [], [] => true | x :: a', y :: b' => opiece_eqb x y && board_eqb a' b' | _, _ => false end.
Definition osq_eqb (a b : option sq) : bool :=
  match a, b with None, None => true | Some x, Some y => sq_eqb x y | _, _ => false end.
Definition pos_eqb (a b : pos) : bool :=
  board_eqb (board a) (board b) && color_eqb (stm a) (stm b) &&
  Bool.eqb (cK a) (cK b) && Bool.eqb (cQ a) (cQ b) && Bool.eqb (ck a) (ck b) && Bool.eqb (cq a) (cq b) &&
  osq_eqb (epsq a) (epsq b) && Z.eqb (hmc a) (hmc b) && Z.eqb (fmn a) (fmn b).

Definition mem_smove (m : smove) (l : list smove) : bool := existsb (smove_eqb m) l.
Fixpoint nodup_smoves (l : list smove) : bool :=
  match l with [] => true | x :: r => negb (mem_smove x r) && nodup_smoves r end.
Definition same_set (a b : list smove) : bool := forallb (fun x => mem_smove x b) a && forallb (fun x => mem_smove x a) b.

(* ---- C02: redundant sets ---- *)
Definition lor_list (l : list N) : N := fold_left N.lor l 0%N.
Definition occ_ok (g : game) : bool :=
  let w := lor_list (firstn 6 (bbs g)) in let b := lor_list (skipn 6 (bbs g)) in
  N.eqb (wocc g) w && N.eqb (bocc g) b && N.eqb (aocc g) (N.lor w b) && Nat.eqb (length (bbs g)) 12 &&
  (* pairwise disjoint: the men counted set by set are the men counted on the board *)
  Z.eqb (fold_left (fun s x => (s + pop_count x)%Z) (bbs g) 0%Z) (pop_count (aocc g)) &&
  Z.eqb (pop_count (bb g WK)) 1 && Z.eqb (pop_count (bb g BK)) 1 && N.ltb (aocc g) (2 ^ 64).

(* ---- monitors over one position and an implementation's answers ---- *)
(* C01: the moves treated as legal are exactly the rules' legal moves, without duplicates *)
Definition mon_legal_set (g : game) (treated_legal : list move) : bool :=
  let got := map umove treated_legal in
  nodup_smoves got && same_set got (legal_moves (abs g)).
(* C01: the capture-only generator filtered by legality = exactly the legal captures *)
Definition mon_capture_set (g : game) (treated_legal_q : list move) : bool :=
  let got := map umove treated_legal_q in
  nodup_smoves got && same_set got (filter (is_capture (abs g)) (legal_moves (abs g))).
(* C02: a made move yields the rules' successor and consistent redundant sets *)
Definition mon_make (g : game) (m : move) (g' : game) : bool :=
  pos_eqb (abs g') (apply (abs g) (umove m)) && occ_ok g'.
(* C14 *)
Definition spec_perft (d : N) (g : game) : Z := ChessSpec.perft (N.to_nat d) (abs g).
Definition spec_in_check (g : game) : bool := in_check (board (abs g)) (stm (abs g)).

Local Open Scope N_scope.
(* ---- C04: what a move must satisfy on the position for make_search_move's paired board / key updates to stay paired
   (Proofs/KeyProofs.v proves the key invariant under it; the judge evaluates it on every generated move) ---- *)
Definition nb (b sq : N) : bool := negb (N.testbit b sq).
Definition move_fits (g : game) (m : move) : bool :=
  let f := mfrom m in let t := mto m in let p := mpiece m in let w := white g in
  (p <? 12) && N.testbit (bb g p) f && (nb (bb g p) t || (f =? t)) &&
  (if mcap m && mep m
   then (if w then negb (p =? BP) && N.testbit (bb g BP) (t + 8) else negb (p =? WP) && N.testbit (bb g WP) (t - 8))
   else true) &&
  (if negb (mpromo m =? NOPIECE) then
     (mpromo m <? 12) && negb (mpromo m =? p) && nb (bb g (mpromo m)) t && negb (mcap m && mep m) &&
     forallb (fun v => negb (v =? mpromo m) && negb (v =? p)) (victims w)
   else if mcastle m then
     negb (mcap m) &&
     (if t =? 62 then negb (p =? WR) && nb (bb g WR) 61 && N.testbit (bb g WR) 63
      else if t =? 58 then negb (p =? WR) && nb (bb g WR) 59 && N.testbit (bb g WR) 56
      else if t =? 6 then negb (p =? BR) && nb (bb g BR) 5 && N.testbit (bb g BR) 7
      else if t =? 2 then negb (p =? BR) && nb (bb g BR) 3 && N.testbit (bb g BR) 0
      else true)
   else true) &&
  (if mdp m then negb ((if w then t + 8 else t - 8) =? NOSQ) else true).

(* C02: the move does not capture a king (true of every generated move when the side not to move is not in check) *)
Definition nkc_b (g : game) (m : move) : bool :=
  negb (mcap m && negb (mep m) && N.testbit (bb g (if white g then BK else WK)) (mto m)).
(* C06 / C02 / C04: the executable form of the position invariant proved to hold at every position a search examines
   (Proofs/LegalInv.v: legal_inv; Proofs/LegalInvB.v: legal_inv_b g = true -> legal_inv g).  The judge evaluates it on every
   stream position, so the hypothesis of those theorems is checked for every root that is exercised. *)
Definition PIECES12 : list N := [0;1;2;3;4;5;6;7;8;9;10;11].
Definition legal_inv_b (g : game) : bool :=
  let b := bb g in let w := white g in let c := castling g in
  Nat.eqb (length (bbs g)) 12 &&
  forallb (fun p => forallb (fun q => (p =? q) || (N.land (b p) (b q) =? 0)) PIECES12) PIECES12 &&
  (wocc g =? N.lor (b 0) (N.lor (b 1) (N.lor (b 2) (N.lor (b 3) (N.lor (b 4) (b 5)))))) &&
  (bocc g =? N.lor (b 6) (N.lor (b 7) (N.lor (b 8) (N.lor (b 9) (N.lor (b 10) (b 11)))))) &&
  (aocc g =? N.lor (wocc g) (bocc g)) &&
  (negb (N.testbit c 0) || (N.testbit (b WK) 60 && N.testbit (b WR) 63)) &&
  (negb (N.testbit c 1) || (N.testbit (b WK) 60 && N.testbit (b WR) 56)) &&
  (negb (N.testbit c 2) || (N.testbit (b BK) 4 && N.testbit (b BR) 7)) &&
  (negb (N.testbit c 3) || (N.testbit (b BK) 4 && N.testbit (b BR) 0)) &&
  ((ep g =? NOSQ) || (negb (N.testbit (aocc g) (ep g)) && (if w then N.testbit (b BP) (ep g + 8) else N.testbit (b WP) (ep g - 8)) && (ep g <? 56) && (8 <=? ep g))) &&
  Nat.eqb (length (bits_of (b WK))) 1 && Nat.eqb (length (bits_of (b BK))) 1 &&
  forallb (fun p => b p <? 2 ^ 64) PIECES12 && (b BP <? 2 ^ 56) && (N.land (b WP) 255 =? 0) &&
  negb (in_check_raw (bbs g) (aocc g) (negb w)) &&
  (hash g =? make_zobrist_hash g).
Local Close Scope N_scope.

(* the formal reading of "legal position" for a bitboard position: consistent redundant sets + the rules-level wf *)
Definition wf (g : game) : bool :=
  occ_ok g && wf_pos (abs g) && N.ltb (castling g) 16 && N.leb (ep g) 64.
