(* The search model instantiated with the chess model, and the textual rendering of its output (cmove.rs to_uci,
   the print! lines of search.rs). *)
From Coq Require Import NArith ZArith List Bool String Ascii DecimalString.
From JV Require Import Gen.Consts Model.Bits Model.Chess Model.Eval Model.TT Model.Search.
Import ListNotations.
Local Open Scope N_scope.

Definition c_make (g : game) (m : move) : option game :=
  match make_search_move g m with Made g' => Some g' | _ => None end.
Definition c_half100 (g : game) : bool := half g =? 100.
Definition c_promo (m : move) : bool := negb (mpromo m =? NOPIECE).
Definition c_hidx (m : move) : nat := N.to_nat (mpiece m * 64 + mto m).
(* score_move, capture branch: taken = first victim board with the target bit, default 0 *)
Definition c_taken (g : game) (m : move) : N :=
  match find (fun p => get_bit (bb g p) (mto m)) (victims (white g)) with Some p => p | None => 0 end.
Definition c_cap_score (g : game) (m : move) : Z :=
  (nth (N.to_nat (c_taken g m)) (nth (N.to_nat (mpiece m)) MVV_LVA []) 0 + 10000)%Z.

(* polls: the engine's cadence plus the hook's extra polls every `extra` nodes (0 = none) *)
Definition c_pollp (extra : N) (n : N) : bool :=
  (N.land n INPUT_POLL_INTERVAL =? 0) || (negb (extra =? 0) && (n mod extra =? 0)).
(* the k-th poll and all later ones observe a stop; stopk < 0 = never *)
Definition c_stop_at (stopk : Z) (k : nat) : bool := ((0 <=? stopk) && (stopk <=? Z.of_nat k))%Z.

Definition c_env := env game move.
(* the chess search for arbitrary poll / stop oracles *)
Definition chess_search (pollp : N -> bool) (stop_at : nat -> bool) (bypass : bool) (g : game) (depth : Z) (t : tt) (rt : list N) (ri : nat) :=
  search generate_moves c_make null_move evaluate (fun g => is_in_check g (white g)) hash c_half100
         move_eqb mcap c_promo c_hidx c_cap_score NULL_MOVE is_legal pollp stop_at bypass g depth t rt ri.
Definition chess_negamax (pollp : N -> bool) (stop_at : nat -> bool) (bypass : bool) (fuel : nat) :=
  negamax generate_moves c_make null_move evaluate (fun g => is_in_check g (white g)) hash c_half100
          move_eqb mcap c_promo c_hidx c_cap_score NULL_MOVE pollp stop_at bypass fuel.
Definition chess_quiescence (pollp : N -> bool) (stop_at : nat -> bool) (fuel : nat) :=
  quiescence generate_moves c_make evaluate hash c_half100 move_eqb mcap c_hidx c_cap_score NULL_MOVE pollp stop_at fuel.
(* the instance the correspondence check runs: the engine's cadence + hook polls, stop from the k-th poll on *)
Definition c_search (extra : N) (stopk : Z) (bypass : bool) (g : game) (depth : Z) (t : tt) (rt : list N) (ri : nat) :=
  chess_search (c_pollp extra) (c_stop_at stopk) bypass g depth t rt ri.


(* ---- cmove.rs to_uci ---- *)
Definition lower_ascii (c : ascii) : ascii :=
  let n := N_of_ascii c in if (65 <=? n) && (n <=? 90) then ascii_of_N (n + 32) else c.
Fixpoint lower (s : string) : string := match s with EmptyString => EmptyString | String c r => String (lower_ascii c) (lower r) end.
Definition to_uci (m : move) : string :=
  (nth (N.to_nat (mfrom m)) SQUARE_STRINGS "" ++ nth (N.to_nat (mto m)) SQUARE_STRINGS "" ++
   (if N.eqb (mpromo m) NOPIECE then "" else lower (nth (N.to_nat (mpromo m)) PIECE_STRINGS "")))%string.

Definition string_of_Z (z : Z) : string := NilZero.string_of_int (Z.to_int z).
Definition string_of_N (n : N) : string := NilZero.string_of_uint (N.to_uint n).

(* the lines search() prints; the elapsed time is not modelled and rendered as T *)
Definition render_out (o : out move) : string :=
  match o with
  | OInfo score mate depth nodes pv =>
    ("info score " ++ (match mate with Some n => "mate " ++ string_of_Z n | None => "cp " ++ string_of_Z score end) ++
     " depth " ++ string_of_N (N.of_nat depth) ++ " nodes " ++ string_of_N nodes ++ " time T pv " ++
     fold_right (fun m acc => to_uci m ++ " " ++ acc) "" pv)%string
  | OBest m => ("bestmove " ++ to_uci m)%string
  end.
