(* Model of src/transposition_table.rs: record / probe / clear.
   The table is a finite map from slot (key mod TT_SIZE) to entry; absent = TranspositionTableEntry::Empty.
   Scores are Z; the i32 range facts are theorems (Proofs/TTProofs.v), UNKNOWN_SCORE is modelled as None
   and separately shown never to be a legitimate answer. *)
From Coq Require Import ZArith NArith List Bool FMapPositive.
From JV Require Import Gen.Consts.
Import ListNotations.
Local Open Scope Z_scope.

Inductive flag := FAlpha | FBeta | FExact.
Record entry := mkEntry { ehash : N; edepth : N; eflag : flag; escore : Z }.
Definition tt := PositiveMap.t entry.

Definition slot (h : N) : positive := N.succ_pos (h mod TT_SIZE)%N.

(* record: lines 49-54 *)
Definition adj_store (s ply : Z) : Z :=
  if s <? - MATE_BOUND then s - ply else if s >? MATE_BOUND then s + ply else s.
(* probe: lines 68-73 *)
Definition adj_load (s ply : Z) : Z :=
  if s <? - MATE_BOUND then s + ply else if s >? MATE_BOUND then s - ply else s.

Definition record (t : tt) (h : N) (s : Z) (d : N) (f : flag) (ply : Z) : tt :=
  PositiveMap.add (slot h) (mkEntry h d f (adj_store s ply)) t.

(* None models the sentinel UNKNOWN_SCORE *)
Definition answer (e : entry) (h : N) (d : N) (a b ply : Z) : option Z :=
  if N.eqb h (ehash e) then
    if N.leb d (edepth e) then
      let s := adj_load (escore e) ply in
      match eflag e with
      | FExact => Some s
      | FAlpha => if s <=? a then Some a else None
      | FBeta  => if s >=? b then Some b else None
      end
    else None
  else None.

Definition probe (t : tt) (h : N) (d : N) (a b ply : Z) : option Z :=
  match PositiveMap.find (slot h) t with None => None | Some e => answer e h d a b ply end.

Definition clear (_ : tt) : tt := PositiveMap.empty entry.

(* operation histories, newest operation first *)
Inductive op := Rec (h : N) (s : Z) (d : N) (f : flag) (ply : Z) | Clr.

Fixpoint table (ops : list op) : tt :=
  match ops with
  | [] => PositiveMap.empty entry
  | Rec h s d f ply :: r => record (table r) h s d f ply
  | Clr :: r => clear (table r)
  end.

(* executable runner used by the correspondence check: operations oldest first, probes answered in order *)
Inductive req := RRec (h : N) (s : Z) (d : N) (f : flag) (ply : Z) | RClr | RProbe (h : N) (d : N) (a b ply : Z).

Fixpoint run_reqs (t : tt) (rs : list req) : list (option Z) :=
  match rs with
  | [] => []
  | RRec h s d f ply :: r => run_reqs (record t h s d f ply) r
  | RClr :: r => run_reqs (clear t) r
  | RProbe h d a b ply :: r => probe t h d a b ply :: run_reqs t r
  end.
