(* Model of parse_go (src/main.rs): the argument loop and the "Decide time" block.
   i64 arithmetic on Z with truncating division (Z.quot); the sentinel -1 = "not given" / "no limit".
   Tokens are modelled after splitting: a keyword with the (already parsed) i64 that follows it.
   What is not modelled here: str::parse failures (unwrap panics / early return on a malformed depth), "random". *)
From Coq Require Import ZArith List Bool.
Import ListNotations.
Local Open Scope Z_scope.

Inductive kw := Kbinc | Kwinc | Kbtime | Kwtime | Kmovestogo | Kmovetime | Kdepth | Kinfinite.

Record goargs := mkGo { g_inc : Z; g_time : Z; g_mtg : Z; g_movetime : Z; g_depth : Z }.
Definition go_init : goargs := mkGo 0 (-1) 30 (-1) (-1).

(* one iteration of the `while split.peek().is_some()` loop; None = parse_go returns without searching *)
Definition go_step (white : bool) (a : goargs) (k : kw) (v : Z) : option goargs :=
  match k with
  | Kbinc => Some (if white then a else mkGo v (g_time a) (g_mtg a) (g_movetime a) (g_depth a))
  | Kwinc => Some (if white then mkGo v (g_time a) (g_mtg a) (g_movetime a) (g_depth a) else a)
  | Kbtime => Some (if white then a else mkGo (g_inc a) v (g_mtg a) (g_movetime a) (g_depth a))
  | Kwtime => Some (if white then mkGo (g_inc a) v (g_mtg a) (g_movetime a) (g_depth a) else a)
  | Kmovestogo => Some (mkGo (g_inc a) (g_time a) v (g_movetime a) (g_depth a))
  | Kmovetime => Some (mkGo (g_inc a) (g_time a) (g_mtg a) v (g_depth a))
  | Kdepth => Some (mkGo (g_inc a) (g_time a) (g_mtg a) (g_movetime a) (Z.max 0 (Z.min v 127)))   (* parse::<i64>, clamp(0, i8::MAX) *)
  | Kinfinite => Some a
  end.

Fixpoint go_loop (white : bool) (a : goargs) (args : list (kw * Z)) : option goargs :=
  match args with
  | [] => Some a
  | (k, v) :: r => match go_step white a k v with Some a' => go_loop white a' r | None => None end
  end.

(* main.rs "Decide time" *)
Definition budget (time inc mtg move_time : Z) : Z :=
  if negb (move_time =? -1) then move_time
  else if negb (time =? -1) then
    let remaining := time in
    let t := if time >? 2000 then Z.quot time mtg + inc - 100
             else if negb (inc =? 0) then inc - 500
             else Z.quot time mtg in
    Z.max (Z.min t (remaining - 1)) 0
  else time.

Definition go_budget (a : goargs) : Z := budget (g_time a) (g_inc a) (g_mtg a) (g_movetime a).

(* what search() is called with: (depth, max_time) *)
Definition parse_go (white : bool) (args : list (kw * Z)) : option (Z * Z) :=
  match go_loop white go_init args with
  | Some a => Some (g_depth a, go_budget a)
  | None => None
  end.

(* the code before commit "fix: keep the thinking-time budget inside [0, remaining time)" -- kept to document the finding *)
Definition budget_pre_fix (time inc mtg move_time : Z) : Z :=
  if negb (move_time =? -1) then move_time
  else if negb (time =? -1) then
    if time >? 2000 then Z.quot time mtg + inc - 100
    else if negb (inc =? 0) then inc - 500
    else Z.quot time mtg
  else time.
