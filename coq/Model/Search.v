(* Model of src/search.rs: search (iterative deepening + aspiration), negamax, quiescence, enable_pv_scoring,
   score_move, MoveList::sort_moves, insert_pv_node, poll_input -- branch by branch, over an abstract game interface
   (instantiated with the chess model in Model/SearchChess.v) and two oracles:
     pollp n   : is there a poll when the node counter is n   (engine: n & INPUT_POLL_INTERVAL == 0, plus hook polls)
     stop_at k : does the k-th poll observe a stop request / expired deadline.
   Open recursion on fuel; out of fuel is a distinguished result (never reached with fuel >= 2*MAX_PLY+4, Proofs/).
   The environment carries a ghost event trace (newest first) that mirrors the hook events of the instrumented engine. *)
From Coq Require Import NArith ZArith List Bool.
From JV Require Import Gen.Consts Model.TT.
Import ListNotations.
Local Open Scope Z_scope.
Set Implicit Arguments.

Definition updl {A} (l : list A) (i : nat) (v : A) : list A :=
  firstn i l ++ match skipn i l with [] => [] | _ :: r => v :: r end.

Section Search.
Variables (pos move : Type).
Variable gen : pos -> bool -> list move.           (* true = MoveTypes::All, false = Quiescence *)
Variable make : pos -> move -> option pos.         (* None = rejected (own king attacked) *)
Variable null : pos -> pos.
Variable evalf : pos -> Z.
Variable in_check : pos -> bool.
Variable key : pos -> N.
Variable half100 : pos -> bool.                    (* half_moves == 100 *)
Variable mv_eqb : move -> move -> bool.
Variable mv_cap : move -> bool.
Variable mv_promo : move -> bool.                  (* promotion != Piece::None *)
Variable mv_hidx : move -> nat.                    (* piece * 64 + to_square *)
Variable cap_score : pos -> move -> Z.             (* MVV_LVA[piece][taken] + 10000 *)
Variable null_mv : move.
Variable legalb : pos -> move -> bool.            (* is_legal, used by the best-move fallback of search() *)
Variable pollp : N -> bool.
Variable stop_at : nat -> bool.
Variable tt_bypass : bool.                         (* verification hook: probe answers UNKNOWN while set *)

Definition MAXPLY : nat := N.to_nat MAX_PLY.

Inductive event :=
| ENode (quiesc : bool) (g : pos) (ply depth : nat) (alpha beta : Z) (nodes : N) (stopping : bool) (ridx : nat) (rslot : N)
| ETTHit (s : Z)
| ERepHit
| EVerdict (mate : bool) (ply : nat)
| EPV (ply : nat) (m : move)
| ETTRec (h : N) (s : Z) (d : nat) (f : flag) (ply : nat)
| EPoll (k : nat) (nodes : N) (stop : bool)
| EStopRaised.

Record env := mkEnv {
  nodes : N; ply : nat; stopping : bool; npolls : nat;
  pvlen : list nat; pvtab : list (list move);
  tbl : tt; tt_hits : N;
  rtab : list N; ridx : nat;
  killers0 : list (option move); killers1 : list (option move); history : list Z;
  follow_pv : bool; score_pv : bool;
  trace : list event;
  snap : option (tt * list (list move) * list nat) }.    (* ghost: TT and PV table at the moment the stop was first observed *)

Definition set_ply e p := mkEnv (nodes e) p (stopping e) (npolls e) (pvlen e) (pvtab e) (tbl e) (tt_hits e) (rtab e) (ridx e) (killers0 e) (killers1 e) (history e) (follow_pv e) (score_pv e) (trace e) (snap e).
Definition set_nodes e n := mkEnv n (ply e) (stopping e) (npolls e) (pvlen e) (pvtab e) (tbl e) (tt_hits e) (rtab e) (ridx e) (killers0 e) (killers1 e) (history e) (follow_pv e) (score_pv e) (trace e) (snap e).
Definition set_pv e l t := mkEnv (nodes e) (ply e) (stopping e) (npolls e) l t (tbl e) (tt_hits e) (rtab e) (ridx e) (killers0 e) (killers1 e) (history e) (follow_pv e) (score_pv e) (trace e) (snap e).
Definition set_tbl e t := mkEnv (nodes e) (ply e) (stopping e) (npolls e) (pvlen e) (pvtab e) t (tt_hits e) (rtab e) (ridx e) (killers0 e) (killers1 e) (history e) (follow_pv e) (score_pv e) (trace e) (snap e).
Definition set_hits e h := mkEnv (nodes e) (ply e) (stopping e) (npolls e) (pvlen e) (pvtab e) (tbl e) h (rtab e) (ridx e) (killers0 e) (killers1 e) (history e) (follow_pv e) (score_pv e) (trace e) (snap e).
Definition set_rep e t i := mkEnv (nodes e) (ply e) (stopping e) (npolls e) (pvlen e) (pvtab e) (tbl e) (tt_hits e) t i (killers0 e) (killers1 e) (history e) (follow_pv e) (score_pv e) (trace e) (snap e).
Definition set_killers e k0 k1 := mkEnv (nodes e) (ply e) (stopping e) (npolls e) (pvlen e) (pvtab e) (tbl e) (tt_hits e) (rtab e) (ridx e) k0 k1 (history e) (follow_pv e) (score_pv e) (trace e) (snap e).
Definition set_history e h := mkEnv (nodes e) (ply e) (stopping e) (npolls e) (pvlen e) (pvtab e) (tbl e) (tt_hits e) (rtab e) (ridx e) (killers0 e) (killers1 e) h (follow_pv e) (score_pv e) (trace e) (snap e).
Definition set_flags e f s := mkEnv (nodes e) (ply e) (stopping e) (npolls e) (pvlen e) (pvtab e) (tbl e) (tt_hits e) (rtab e) (ridx e) (killers0 e) (killers1 e) (history e) f s (trace e) (snap e).
Definition emit e ev := mkEnv (nodes e) (ply e) (stopping e) (npolls e) (pvlen e) (pvtab e) (tbl e) (tt_hits e) (rtab e) (ridx e) (killers0 e) (killers1 e) (history e) (follow_pv e) (score_pv e) (ev :: trace e) (snap e).

(* RepetitionTable::insert / move_back / is_now_in_threefold_repetition *)
Definition rep_insert e k := set_rep e (updl (rtab e) (ridx e) k) (S (ridx e)).
Definition rep_back e := set_rep e (rtab e) (pred (ridx e)).
Definition rep_hit e (k : N) : bool := existsb (N.eqb k) (firstn (ridx e) (rtab e)).

(* SearchEnv::poll_input *)
Definition poll e :=
  let k := npolls e in
  let s := stop_at k in
  let e1 := emit e (EPoll k (nodes e) s) in
  let e2 := if s && negb (stopping e) then emit e1 EStopRaised else e1 in
  mkEnv (nodes e2) (ply e2) (stopping e2 || s) (S k) (pvlen e2) (pvtab e2) (tbl e2) (tt_hits e2) (rtab e2) (ridx e2)
        (killers0 e2) (killers1 e2) (history e2) (follow_pv e2) (score_pv e2) (trace e2)
        (if s && negb (stopping e) then Some (tbl e, pvtab e, pvlen e) else snap e).
Definition maybe_poll e := if pollp (nodes e) then poll e else e.

(* SearchEnv::insert_pv_node *)
Definition pv_row e (p : nat) : list move := nth p (pvtab e) [].
Definition insert_pv e (m : move) :=
  let p := ply e in
  let e := emit e (EPV p m) in
  let row := pv_row e (S p) in
  let len := nth (S p) (pvlen e) O in
  let old := pv_row e p in
  let new := firstn p old ++ [m] ++ firstn (len - S p) (skipn (S p) row) ++ skipn (S p + (len - S p)) old in
  set_pv e (updl (pvlen e) p len) (updl (pvtab e) p new).

(* score_move *)
Definition opt_mv_eqb (o : option move) (m : move) : bool := match o with Some x => mv_eqb x m | None => false end.
Definition pv_move e : move := nth (ply e) (pv_row e 0) null_mv.
Definition score_move (g : pos) (m : move) (e : env) : Z * env :=
  if score_pv e && mv_eqb (pv_move e) m then (20000, set_flags e (follow_pv e) false)
  else if mv_cap m then (cap_score g m, e)
  else if opt_mv_eqb (nth (ply e) (killers0 e) None) m then (9000, e)
  else if opt_mv_eqb (nth (ply e) (killers1 e) None) m then (8000, e)
  else (nth (mv_hidx m) (history e) 0, e).

Fixpoint score_all (g : pos) (ms : list move) (e : env) : list (Z * move) * env :=
  match ms with
  | [] => ([], e)
  | m :: r => let '(s, e1) := score_move g m e in let '(l, e2) := score_all g r e1 in ((s, m) :: l, e2)
  end.

(* MoveList::sort_moves: for i { for j in i+1.. { if scores[j] > scores[i] { swap } } }.
   One outer step: the element at position i after scanning the rest, and the rest after the swaps. *)
Fixpoint sort_pass (cur : Z * move) (rest : list (Z * move)) : (Z * move) * list (Z * move) :=
  match rest with
  | [] => (cur, [])
  | x :: r => if fst x >? fst cur then let '(c, r') := sort_pass x r in (c, cur :: r')
              else let '(c, r') := sort_pass cur r in (c, x :: r')
  end.
Fixpoint sort_scored (fuel : nat) (l : list (Z * move)) : list (Z * move) :=
  match fuel, l with
  | S f, x :: r => let '(c, r') := sort_pass x r in c :: sort_scored f r'
  | _, _ => l
  end.
Definition sort_moves (g : pos) (ms : list move) (e : env) : list move * env :=
  let '(sc, e1) := score_all g ms e in (map snd (sort_scored (length sc) sc), e1).

(* enable_pv_scoring *)
Definition enable_pv_scoring (ms : list move) (e : env) : env :=
  if existsb (mv_eqb (pv_move e)) ms then set_flags e true true else set_flags e false (score_pv e).

Definition make_rep (g : pos) (m : move) (e : env) : option (pos * env) :=
  match make g m with None => None | Some g' => Some (g', rep_insert e (key g')) end.

Inductive res := Val (s : Z) (e : env) | OutOfFuel.

Section Body.
Variable rec_n : pos -> nat -> Z -> Z -> env -> res.
Variable rec_q : pos -> Z -> Z -> env -> res.

(* quiescence move loop *)
Fixpoint qloop (g : pos) (ms : list move) (ta beta : Z) (e : env) : res :=
  match ms with
  | [] => Val ta e
  | m :: rest =>
    match make_rep g m e with
    | None => qloop g rest ta beta e
    | Some (g', e1) =>
      let e2 := set_ply e1 (S (ply e1)) in
      match rec_q g' (- beta) (- ta) e2 with
      | OutOfFuel => OutOfFuel
      | Val s e3 =>
        let score := - s in
        let e4 := rep_back (set_ply e3 (pred (ply e3))) in
        if score >=? beta then Val beta e4
        else qloop g rest (if score >? ta then score else ta) beta e4
      end
    end
  end.

Definition quiescence_body (g : pos) (alpha beta : Z) (e : env) : res :=
  let e := emit e (ENode true g (ply e) 0 alpha beta (nodes e) (stopping e) (ridx e) (nth (ridx e) (rtab e) 0%N)) in
  let e := maybe_poll e in
  let e := set_nodes e (N.succ (nodes e)) in
  let ev := evalf g in
  if (Nat.ltb (MAXPLY - 1) (ply e)) || half100 g then Val ev e else
  if (ev >? alpha) && (ev >=? beta) then Val beta e else
  let ta := if ev >? alpha then ev else alpha in
  let '(ms, e) := sort_moves g (gen g false) e in
  qloop g ms ta beta e.

(* result of the main move loop *)
Inductive lres := LRet (s : Z) (e : env) | LDone (ta : Z) (e : env) (legal : nat) (exact : bool) | LFuel.

Definition neg_res (r : res) (k : Z -> env -> lres) : lres :=
  match r with OutOfFuel => LFuel | Val s e => k (- s) e end.

(* what happens after the searches of move m returned `score` in environment e4; `next` continues the loop *)
Definition after_move (g : pos) (depth : nat) (m : move) (ta beta : Z) (exact : bool) (searched legal : nat)
                      (next : nat -> nat -> Z -> bool -> env -> lres) (score : Z) (e4 : env) : lres :=
  let e5 := set_ply e4 (pred (ply e4)) in
  if stopping e5 then LRet 0 e5 else
  if score >? ta then
    let e6 := insert_pv e5 m in
    if score >=? beta then
      let e7 := if mv_cap m then e6
                else set_killers e6 (updl (killers0 e6) (ply e6) (Some m)) (updl (killers1 e6) (ply e6) (nth (ply e6) (killers0 e6) None)) in
      let e8 := emit e7 (ETTRec (key g) beta depth FBeta (ply e7)) in
      LRet beta (set_tbl e8 (record (tbl e8) (key g) beta (N.of_nat depth) FBeta (Z.of_nat (ply e8))))
    else
      let e7 := if mv_cap m then e6
                else set_history e6 (updl (history e6) (mv_hidx m) (nth (mv_hidx m) (history e6) 0 + Z.of_nat depth)) in
      next (S searched) (S legal) score true e7
  else next (S searched) (S legal) ta exact e5.

(* the searches of one move: full window for the first, otherwise LMR -> PVS null window -> full re-search *)
Definition search_move (g' : pos) (depth n_depth : nat) (inchk : bool) (m : move) (searched : nat) (ta beta : Z)
                       (e3 : env) (after : Z -> env -> lres) : lres :=
  if Nat.eqb searched 0 then
    neg_res (rec_n g' (n_depth - 1)%nat (- beta) (- ta) e3) after
  else
    let pvs (s1 : Z) (e' : env) : lres :=
      if s1 >? ta then
        neg_res (rec_n g' (n_depth - 1)%nat (- ta - 1) (- ta) e')
          (fun s2 e'' =>
             if (s2 >? ta) && (s2 <? beta) then neg_res (rec_n g' (n_depth - 1)%nat (- beta) (- ta) e'') after
             else after s2 e'')
      else after s1 e' in
    if (Nat.leb (N.to_nat FULL_DEPTH_MOVES) searched) && (Nat.leb (N.to_nat REDUCTION_LIMIT) depth) && negb inchk &&
       negb (mv_cap m) && negb (mv_promo m)
    then neg_res (rec_n g' (n_depth - 2)%nat (- ta - 1) (- ta) e3) pvs
    else pvs (ta + 1) e3.

Fixpoint nloop (g : pos) (depth n_depth : nat) (inchk : bool) (ms : list move) (searched legal : nat)
               (ta beta : Z) (exact : bool) (e : env) : lres :=
  match ms with
  | [] => LDone ta e legal exact
  | m :: rest =>
    let e1 := set_ply e (S (ply e)) in
    match make_rep g m e1 with
    | None => nloop g depth n_depth inchk rest searched legal ta beta exact (set_ply e1 (pred (ply e1)))
    | Some (g', e2) =>
      let e3 := rep_back e2 in
      search_move g' depth n_depth inchk m searched ta beta e3
        (after_move g depth m ta beta exact searched legal
           (fun s l t x e' => nloop g depth n_depth inchk rest s l t beta x e'))
    end
  end.

(* generate, order and search the moves; verdict or TT record at the end *)
Definition move_phase (g : pos) (depth n_depth : nat) (inchk : bool) (alpha beta : Z) (e : env) : res :=
  let ms0 := gen g true in
  let e := if follow_pv e then enable_pv_scoring ms0 e else e in
  let '(ms, e) := sort_moves g ms0 e in
  match nloop g depth n_depth inchk ms 0 0 alpha beta false e with
  | LFuel => OutOfFuel
  | LRet s e' => Val s e'
  | LDone ta e' legal exact =>
    if Nat.eqb legal 0 then
      let e' := emit e' (EVerdict inchk (ply e')) in
      (if inchk then Val (- MATE_VALUE + Z.of_nat (ply e')) e' else Val 0 e')
    else
      let f := if exact then FExact else FAlpha in
      let e'' := emit e' (ETTRec (key g) ta depth f (ply e')) in
      Val ta (set_tbl e'' (record (tbl e'') (key g) ta (N.of_nat depth) f (Z.of_nat (ply e''))))
  end.

Definition negamax_body (g : pos) (depth : nat) (alpha beta : Z) (e : env) : res :=
  let e := emit e (ENode false g (ply e) depth alpha beta (nodes e) (stopping e) (ridx e) (nth (ridx e) (rtab e) 0%N)) in
  let is_pv := (beta - alpha) >? 1 in
  if negb (Nat.eqb (ply e) 0) && rep_hit e (key g)
  then Val 0 (emit (set_pv e (updl (pvlen e) (ply e) (ply e)) (pvtab e)) ERepHit) else
  match (if negb (Nat.eqb (ply e) 0) && negb is_pv && negb tt_bypass
         then probe (tbl e) (key g) (N.of_nat depth) alpha beta (Z.of_nat (ply e)) else None) with
  | Some s => Val s (emit (set_hits e (N.succ (tt_hits e))) (ETTHit s))
  | None =>
    let e := set_pv e (updl (pvlen e) (ply e) (ply e)) (pvtab e) in
    if Nat.leb (MAXPLY - 1) (ply e) then Val (evalf g) e else
    let e := maybe_poll e in
    if Nat.eqb depth 0 || half100 g then rec_q g alpha beta e else
    let e := set_nodes e (N.succ (nodes e)) in
    let inchk := in_check g in
    let n_depth := if inchk then S depth else depth in
    if Nat.leb 3 n_depth && negb inchk && negb (Nat.eqb (ply e) 0) then
      let e1 := set_ply e (S (ply e)) in
      match rec_n (null g) (n_depth - 3)%nat (- beta) (- beta + 1) e1 with
      | OutOfFuel => OutOfFuel
      | Val s e2 =>
        let e3 := set_ply e2 (pred (ply e2)) in
        if stopping e3 then Val 0 e3 else if (- s) >=? beta then Val beta e3 else move_phase g depth n_depth inchk alpha beta e3
      end
    else move_phase g depth n_depth inchk alpha beta e
  end.
End Body.

Fixpoint quiescence (fuel : nat) : pos -> Z -> Z -> env -> res :=
  match fuel with
  | O => fun _ _ _ _ => OutOfFuel
  | S f => quiescence_body (quiescence f)
  end.
Fixpoint negamax (fuel : nat) : pos -> nat -> Z -> Z -> env -> res :=
  match fuel with
  | O => fun _ _ _ _ _ => OutOfFuel
  | S f => negamax_body (negamax f) (quiescence f)
  end.

Definition FUEL : nat := 2 * MAXPLY + 4.

(* ---- search(): iterative deepening with aspiration windows ---- *)
Inductive out := OInfo (score : Z) (mate : option Z) (depth : nat) (nodes : N) (pv : list move) | OBest (m : move).

Definition mate_field (score : Z) : option Z :=
  if (score >=? - MATE_VALUE) && (score <? - MATE_BOUND) then Some (Z.quot (- (score + MATE_VALUE)) 2)
  else if (score <=? MATE_VALUE) && (score >? MATE_BOUND) then Some (Z.quot (MATE_VALUE - score) 2 + 1)
  else None.

Definition init_env (t : tt) (rt : list N) (ri : nat) : env :=
  mkEnv 0 0 false 0 (repeat O MAXPLY) (repeat (repeat null_mv MAXPLY) MAXPLY) t 0 rt ri
        (repeat None MAXPLY) (repeat None MAXPLY) (repeat 0 768) false false [] None.

(* search(): pv_table[0][0], or the first legal move when that is still the null move *)
Definition best_move (g : pos) e : move :=
  let m := nth 0 (pv_row e 0) null_mv in
  if mv_eqb m null_mv then match filter (legalb g) (gen g true) with x :: _ => x | [] => m end else m.

Inductive sres := SDone (outs : list out) (e : env) (last_score : Z) | SFuel.

(* iterations cur .. maxd; `iters` is structural fuel for the loop (maxd - cur + 1 suffices) *)
Fixpoint id_loop (iters : nat) (g : pos) (cur maxd : nat) (alpha beta : Z) (score : Z) (e : env) (outs : list out) : sres :=
  match iters with
  | O => SDone (outs ++ [OBest (best_move g e)]) e score
  | S it =>
    if Nat.ltb maxd cur then SDone (outs ++ [OBest (best_move g e)]) e score else
    let e := set_flags e true (score_pv e) in
    match negamax FUEL g cur alpha beta e with
    | OutOfFuel => SFuel
    | Val s e1 =>
      if stopping e1 then SDone (outs ++ [OBest (best_move g e1)]) e1 s else
      if (s <=? alpha) || (s >=? beta) then id_loop it g (S cur) maxd (- INFINITY) INFINITY s e1 outs
      else
        let o := OInfo s (mate_field s) cur (nodes e1) (firstn (nth 0 (pvlen e1) O) (pv_row e1 0)) in
        id_loop it g (S cur) maxd (s - 50) (s + 50) s e1 (outs ++ [o])
    end
  end.

(* depth is the i8 argument: -1 means MAX_PLY; other negative values wrap to u8 *)
Definition max_depth_of (depth : Z) : nat :=
  if depth =? -1 then MAXPLY else Z.to_nat (depth mod 256).

Definition search (g : pos) (depth : Z) (t : tt) (rt : list N) (ri : nat) : sres :=
  let maxd := max_depth_of depth in
  id_loop (S maxd) g 1 maxd (- INFINITY) INFINITY 0 (init_env t rt ri) [].

End Search.


Arguments ENode {pos move}. Arguments ETTHit {pos move}. Arguments ERepHit {pos move}. Arguments EVerdict {pos move}.
Arguments EPV {pos move}. Arguments ETTRec {pos move}. Arguments EPoll {pos move}. Arguments EStopRaised {pos move}.
Arguments Val {pos move}. Arguments OutOfFuel {pos move}.
Arguments LRet {pos move}. Arguments LDone {pos move}. Arguments LFuel {pos move}.
Arguments OInfo {move}. Arguments OBest {move}.
Arguments SDone {pos move}. Arguments SFuel {pos move}.
