(* Model of src/evaluation.rs: evaluate() branch by branch, and the five const-fn mask generators as written
   (including generate_rank_masks, which indexes by file, so RANK_MASKS[rr*8] is always row 0). *)
From Coq Require Import NArith ZArith List Bool.
From JV Require Import Gen.Consts Model.Bits Model.Chess.
Import ListNotations.
Local Open Scope N_scope.

Definition idx8 : list N := [0;1;2;3;4;5;6;7].
(* masks[r*8+f] for r, f in 0..8 *)
Definition table_rf (f : N -> N -> N) : list N := flat_map (fun r => map (fun fl => f r fl) idx8) idx8.

Definition FILE_MASKS : list N :=
  table_rf (fun r f => fold_left (fun mask i => N.lor mask (N.shiftl (N.shiftl 1 f) (i * 8))) idx8 0).
Definition RANK_MASKS : list N :=
  table_rf (fun r f => fold_left (fun mask i => N.lor mask (N.shiftl (N.shiftl 1 i) (8 * f))) idx8 0).
Definition ISOLATED_MASKS : list N :=
  table_rf (fun r f =>
    let mask := 0 in
    let mask := if 0 <? f then N.lor mask (nthN FILE_MASKS (r * 8 + f - 1)) else mask in
    if f <? 7 then N.lor mask (nthN FILE_MASKS (r * 8 + f + 1)) else mask).
Definition three_files (r f : N) : N :=
  let mask := nthN FILE_MASKS (r * 8 + f) in
  let mask := if 0 <? f then N.lor mask (nthN FILE_MASKS (r * 8 + f - 1)) else mask in
  if f <? 7 then N.lor mask (nthN FILE_MASKS (r * 8 + f + 1)) else mask.
(* rr = 7; while rr > r { mask ^= RANK_MASKS[rr*8] & mask; rr -= 1 } *)
Definition WHITE_PASSED_PAWN_MASKS : list N :=
  table_rf (fun r f => fold_left (fun mask rr => if r <? rr then N.lxor mask (N.land (nthN RANK_MASKS (rr * 8)) mask) else mask)
                                 [7;6;5;4;3;2;1;0] (three_files r f)).
(* rr = 0; while rr < r { ...; rr += 1 } *)
Definition BLACK_PASSED_PAWN_MASKS : list N :=
  table_rf (fun r f => fold_left (fun mask rr => if rr <? r then N.lxor mask (N.land (nthN RANK_MASKS (rr * 8)) mask) else mask)
                                 idx8 (three_files r f)).

Definition nthZ (l : list Z) (i : N) : Z := nth (N.to_nat i) l 0%Z.
Local Open Scope Z_scope.

Definition file_empty (b : N) (sq : N) : bool := N.eqb (N.land b (nthN FILE_MASKS sq)) 0.

Definition eval_piece (g : game) (p : N) (sq : N) : Z :=
  let wp := bb g WP in let bp := bb g BP in
  let mw := nthZ MATERIAL_WEIGHTS p in
  let msq := nthN MIRRORED sq in
  mw +
  (if N.eqb p 0 then
     nthZ PAWN_SCORES sq +
     (let st := pop_count (N.land wp (nthN FILE_MASKS sq)) in if st >? 1 then st * STACKED_PAWN_PENALTY else 0) +
     (if N.eqb (N.land wp (nthN ISOLATED_MASKS sq)) 0 then ISOLATED_PAWN_PENALTY else 0) +
     (if N.eqb (N.land bp (nthN WHITE_PASSED_PAWN_MASKS sq)) 0 then nthZ PASSED_WHITE_PAWN_BONUS (nthN LOOKUP_RANK sq) else 0)
   else if N.eqb p 1 then nthZ KNIGHT_SCORES sq + pop_count (knight_att sq)
   else if N.eqb p 2 then nthZ BISHOP_SCORES sq + pop_count (bishop_att sq (aocc g))
   else if N.eqb p 3 then
     nthZ ROOK_SCORES sq + (if file_empty wp sq then SEMI_OPEN_FILE_SCORE else 0) +
     (if file_empty (N.lor wp bp) sq then OPEN_FILE_SCORE else 0) + pop_count (rook_att sq (aocc g))
   else if N.eqb p 4 then pop_count (queen_att sq (aocc g))
   else if N.eqb p 5 then
     nthZ KING_SCORES sq - (if file_empty wp sq then SEMI_OPEN_FILE_SCORE else 0) -
     (if file_empty (N.lor wp bp) sq then OPEN_FILE_SCORE else 0) +
     pop_count (N.land (king_att sq) (wocc g)) * PROTECTED_KING_BONUS
   else if N.eqb p 6 then
     - nthZ PAWN_SCORES msq -
     (let st := pop_count (N.land bp (nthN FILE_MASKS sq)) in if st >? 1 then st * STACKED_PAWN_PENALTY else 0) -
     (if N.eqb (N.land bp (nthN ISOLATED_MASKS sq)) 0 then ISOLATED_PAWN_PENALTY else 0) -
     (if N.eqb (N.land wp (nthN BLACK_PASSED_PAWN_MASKS sq)) 0 then nthZ PASSED_BLACK_PAWN_BONUS (nthN LOOKUP_RANK sq) else 0)
   else if N.eqb p 7 then - nthZ KNIGHT_SCORES msq - pop_count (knight_att sq)
   else if N.eqb p 8 then - nthZ BISHOP_SCORES msq - pop_count (bishop_att sq (aocc g))
   else if N.eqb p 9 then
     - nthZ ROOK_SCORES msq - (if file_empty bp sq then SEMI_OPEN_FILE_SCORE else 0) -
     (if file_empty (N.lor bp wp) sq then OPEN_FILE_SCORE else 0) - pop_count (rook_att sq (aocc g))
   else if N.eqb p 10 then - pop_count (queen_att sq (aocc g))
   else
     - nthZ KING_SCORES msq + (if file_empty bp sq then SEMI_OPEN_FILE_SCORE else 0) +
     (if file_empty (N.lor bp wp) sq then OPEN_FILE_SCORE else 0) -
     pop_count (N.land (king_att sq) (bocc g)) * PROTECTED_KING_BONUS).

Definition evaluate_white (g : game) : Z :=
  fold_left (fun s p => fold_left (fun s sq => s + eval_piece g p sq) (bits_of (bb g p)) s)
            [0;1;2;3;4;5;6;7;8;9;10;11]%N 0.

Definition evaluate (g : game) : Z := if white g then evaluate_white g else - evaluate_white g.
