(* Executable model of the engine's chess core, function by function:
     src/bitboard.rs, src/cmove.rs, src/game.rs (is_square_attacked, is_in_check, make_zobrist_hash),
     src/move_generator.rs (generate_moves, is_legal), src/make_move.rs (make_search_move),
     src/utilities.rs (key tables).
   Bitboards / keys / squares / counters are N; squares are 0..63 with 0 = a8, 64 = Square::None.
   Slider attack sets are the ray semantics of Spec/Rays.v, which Props/C15.v proves equal to the engine's
   PEXT table lookups for every square and occupancy; leaper sets likewise.
   Faithful under the invariants the engine itself relies on (squares < 64, no pawn on rows 0/7, a king per side);
   outside them Rust would index out of bounds / overflow a shift, and the model returns an unspecified value. *)
From Coq Require Import NArith ZArith List Bool.
From JV Require Import Gen.Consts Model.Bits Spec.Rays.
Import ListNotations.
Local Open Scope N_scope.

(* ---------------------------------------------------------------- bitboard.rs *)
Definition M64 : N := 0xffffffffffffffff.
Definition bit (sq : N) : N := N.shiftl 1 sq.
Definition get_bit (b sq : N) : bool := N.testbit b sq.
Definition set_bit (b sq : N) : N := N.lor b (bit sq).
Definition unset_bit (b sq : N) : N := N.land b (N.lxor (bit sq) b).     (* bits &= (1 << sq) ^ bits *)

(* while !bb.is_empty() { bb.extract_bit() }: the set bits in increasing order (TZCNT + BLSR) *)
Fixpoint bits_pos (p : positive) (i : N) : list N :=
  match p with
  | xH => [i]
  | xO q => bits_pos q (N.succ i)
  | xI q => i :: bits_pos q (N.succ i)
  end.
Definition bits_of (b : N) : list N := match b with N0 => [] | Npos p => bits_pos p 0 end.
Definition pop_count (b : N) : Z := Z.of_nat (length (bits_of b)).
Definition least_significant (b : N) : N := match bits_of b with [] => 64 | s :: _ => s end.   (* TZCNT(0) = 64 *)

(* ---------------------------------------------------------------- attack getters (C15) *)
Definition rook_att (sq occ : N) : N := slide rook_dirs sq occ.
Definition bishop_att (sq occ : N) : N := slide bishop_dirs sq occ.
Definition queen_att (sq occ : N) : N := N.lor (rook_att sq occ) (bishop_att sq occ).
Definition knight_att (sq : N) : N := leaper knight_offs sq.
Definition king_att (sq : N) : N := leaper king_offs sq.
Definition pawn_att (sq : N) (white : bool) : N := if white then leaper wpawn_offs sq else leaper bpawn_offs sq.

(* ---------------------------------------------------------------- pieces, moves (cmove.rs) *)
Definition WP : N := 0. Definition WN : N := 1. Definition WB : N := 2. Definition WR : N := 3.
Definition WQ : N := 4. Definition WK : N := 5. Definition BP : N := 6. Definition BN : N := 7.
Definition BB : N := 8. Definition BR : N := 9. Definition BQ : N := 10. Definition BK : N := 11.
Definition NOPIECE : N := 12.
Definition NOSQ : N := 64.

Record move := mkMove { mfrom : N; mto : N; mpiece : N; mpromo : N; mcap : bool; mdp : bool; mep : bool; mcastle : bool }.
Definition NULL_MOVE : move := mkMove 0 0 0 0 false false false false.
Definition move_eqb (a b : move) : bool :=
  (mfrom a =? mfrom b) && (mto a =? mto b) && (mpiece a =? mpiece b) && (mpromo a =? mpromo b) &&
  Bool.eqb (mcap a) (mcap b) && Bool.eqb (mdp a) (mdp b) && Bool.eqb (mep a) (mep b) && Bool.eqb (mcastle a) (mcastle b).

(* ---------------------------------------------------------------- game.rs *)
Record game := mkGame {
  bbs : list N;            (* 12 piece bitboards *)
  wocc : N; bocc : N; aocc : N;
  white : bool;            (* active_player == White *)
  ep : N;                  (* 64 = Square::None *)
  castling : N;            (* 1 K, 2 Q, 4 k, 8 q *)
  half : N; full : N;
  hash : N }.

Definition bb (g : game) (p : N) : N := nthN (bbs g) p.
Fixpoint upd_nth (l : list N) (i : nat) (v : N) : list N :=
  match l, i with
  | [], _ => []
  | _ :: r, O => v :: r
  | x :: r, S k => x :: upd_nth r k v
  end.
Definition upd (l : list N) (i : N) (v : N) : list N := upd_nth l (N.to_nat i) v.

Definition is_square_attacked (bbs_ : list N) (occ : N) (sq : N) (by_white : bool) : bool :=
  let b p := nthN bbs_ p in
  if by_white then
    negb (N.land (pawn_att sq false) (b WP) =? 0) || negb (N.land (knight_att sq) (b WN) =? 0) ||
    negb (N.land (king_att sq) (b WK) =? 0) || negb (N.land (rook_att sq occ) (b WR) =? 0) ||
    negb (N.land (bishop_att sq occ) (b WB) =? 0) || negb (N.land (queen_att sq occ) (b WQ) =? 0)
  else
    negb (N.land (pawn_att sq true) (b BP) =? 0) || negb (N.land (knight_att sq) (b BN) =? 0) ||
    negb (N.land (king_att sq) (b BK) =? 0) || negb (N.land (rook_att sq occ) (b BR) =? 0) ||
    negb (N.land (bishop_att sq occ) (b BB) =? 0) || negb (N.land (queen_att sq occ) (b BQ) =? 0).

(* is_in_check(color): is the king of `white_king` attacked by the other side *)
Definition in_check_raw (bbs_ : list N) (occ : N) (white_king : bool) : bool :=
  if white_king then is_square_attacked bbs_ occ (least_significant (nthN bbs_ WK)) false
  else is_square_attacked bbs_ occ (least_significant (nthN bbs_ BK)) true.
Definition is_in_check (g : game) (white_king : bool) : bool := in_check_raw (bbs g) (aocc g) white_king.

(* ---------------------------------------------------------------- key tables (utilities.rs) *)
Definition M32 : N := 0xffffffff.
Definition get_random_u32_number (state : N) : N :=       (* 64-bit intermediate, truncated at the end *)
  let n := state in
  let n := N.lxor n (N.land (N.shiftl n XS_A) M64) in
  let n := N.lxor n (N.shiftr n XS_B) in
  let n := N.lxor n (N.land (N.shiftl n XS_C) M64) in
  N.land n M32.
Definition get_random_u64_number (state : N) : N * N :=
  let n1 := get_random_u32_number state in let n2 := get_random_u32_number n1 in
  let n3 := get_random_u32_number n2 in let n4 := get_random_u32_number n3 in
  (N.land (N.lor (N.lor n1 (N.shiftl n2 16)) (N.lor (N.shiftl n3 32) (N.shiftl n4 48))) M64, n4).
Fixpoint gen_keys (n : nat) (state : N) : list N :=
  match n with O => [] | S k => let '(v, s') := get_random_u64_number state in v :: gen_keys k s' end.
Definition PIECE_KEYS : list N := gen_keys 768 SEED_PIECE.          (* [piece*64 + sq] *)
Definition ENPASSANT_KEYS : list N := gen_keys 64 SEED_ENPASSANT.
Definition CASTLE_KEYS : list N := gen_keys 16 SEED_CASTLE.
Definition SIDE_KEY : N := fst (get_random_u64_number SEED_SIDE).
Definition piece_key (p sq : N) : N := nthN PIECE_KEYS (p * 64 + sq).
Definition ep_key (sq : N) : N := nthN ENPASSANT_KEYS sq.
Definition castle_key (c : N) : N := nthN CASTLE_KEYS c.

Definition make_zobrist_hash (g : game) : N :=
  let h := fold_left (fun h p => fold_left (fun h sq => N.lxor h (piece_key p sq)) (bits_of (bb g p)) h)
                     [0;1;2;3;4;5;6;7;8;9;10;11] 0 in
  let h := N.lxor h (castle_key (castling g)) in
  let h := if white g then h else N.lxor h SIDE_KEY in
  if ep g =? NOSQ then h else N.lxor h (ep_key (ep g)).

(* ---------------------------------------------------------------- move_generator.rs *)
Definition mk (f t p pr : N) (cap dp e c : bool) : move := mkMove f t p pr cap dp e c.
Definition promos (f t p q n r b : N) (cap : bool) : list move :=
  [mk f t p q cap false false false; mk f t p n cap false false false; mk f t p r cap false false false; mk f t p b cap false false false].

Definition white_pawn_moves (g : game) (all : bool) (f : N) : list move :=
  let t := f - 8 in
  let quiet :=
    if all && negb (get_bit (aocc g) t) then
      if 8 <=? t then
        mk f t WP NOPIECE false false false false ::
        (let t2 := t - 8 in if negb (get_bit (aocc g) t2) && (f / 8 =? 6) then [mk f t2 WP NOPIECE false true false false] else [])
      else promos f t WP WQ WN WR WB false
    else [] in
  let att := pawn_att f true in
  let epm := if negb (ep g =? NOSQ) && negb (N.land att (bit (ep g)) =? 0) then [mk f (ep g) WP NOPIECE true false true false] else [] in
  let caps := flat_map (fun t => if 8 <=? t then [mk f t WP NOPIECE true false false false] else promos f t WP WQ WN WR WB true)
                       (bits_of (N.land att (bocc g))) in
  quiet ++ epm ++ caps.

Definition black_pawn_moves (g : game) (all : bool) (f : N) : list move :=
  let t := f + 8 in
  let quiet :=
    if all && negb (get_bit (aocc g) t) then
      if t <=? 55 then
        mk f t BP NOPIECE false false false false ::
        (let t2 := t + 8 in if negb (get_bit (aocc g) t2) && (f / 8 =? 1) then [mk f t2 BP NOPIECE false true false false] else [])
      else promos f t BP BQ BN BR BB false
    else [] in
  let att := pawn_att f false in
  let epm := if negb (ep g =? NOSQ) && negb (N.land att (bit (ep g)) =? 0) then [mk f (ep g) BP NOPIECE true false true false] else [] in
  let caps := flat_map (fun t => if t <=? 55 then [mk f t BP NOPIECE true false false false] else promos f t BP BQ BN BR BB true)
                       (bits_of (N.land att (wocc g))) in
  quiet ++ epm ++ caps.

Definition castle_move (g : game) (all : bool) (right empty_mask ksq cross : N) (by_white : bool) (t king : N) : list move :=
  if all && negb (N.land (castling g) right =? 0) && (N.land (aocc g) empty_mask =? 0) &&
     negb (is_square_attacked (bbs g) (aocc g) ksq by_white) && negb (is_square_attacked (bbs g) (aocc g) cross by_white)
  then [mk ksq t king NOPIECE false false false true] else [].

(* quiet targets (if All) in bit order, then captures in bit order *)
Definition piece_moves (g : game) (all : bool) (opp : N) (p : N) (att : N -> N) : list move :=
  flat_map (fun f =>
      let a := att f in
      (if all then map (fun t => mk f t p NOPIECE false false false false) (bits_of (N.land a (N.land (N.lnot (aocc g) 64) M64))) else []) ++
      map (fun t => mk f t p NOPIECE true false false false) (bits_of (N.land a opp)))
    (bits_of (bb g p)).

Definition generate_moves (g : game) (all : bool) : list move :=
  if white g then
    flat_map (white_pawn_moves g all) (bits_of (bb g WP)) ++
    castle_move g all 1 CASTLE_EMPTY_WK 60 61 false 62 WK ++
    castle_move g all 2 CASTLE_EMPTY_WQ 60 59 false 58 WK ++
    piece_moves g all (bocc g) WN knight_att ++
    piece_moves g all (bocc g) WB (fun f => bishop_att f (aocc g)) ++
    piece_moves g all (bocc g) WR (fun f => rook_att f (aocc g)) ++
    piece_moves g all (bocc g) WQ (fun f => queen_att f (aocc g)) ++
    piece_moves g all (bocc g) WK king_att
  else
    flat_map (black_pawn_moves g all) (bits_of (bb g BP)) ++
    castle_move g all 4 CASTLE_EMPTY_BK 4 5 true 6 BK ++
    castle_move g all 8 CASTLE_EMPTY_BQ 4 3 true 2 BK ++
    piece_moves g all (wocc g) BN knight_att ++
    piece_moves g all (wocc g) BB (fun f => bishop_att f (aocc g)) ++
    piece_moves g all (wocc g) BR (fun f => rook_att f (aocc g)) ++
    piece_moves g all (wocc g) BQ (fun f => queen_att f (aocc g)) ++
    piece_moves g all (wocc g) BK king_att.

(* `for bb in start..end { if get_bit { unset; break } }`: returns the new boards and the piece that was removed *)
Fixpoint remove_first (bs : list N) (ps : list N) (sq : N) : list N * option N :=
  match ps with
  | [] => (bs, None)
  | p :: r => if get_bit (nthN bs p) sq then (upd bs p (unset_bit (nthN bs p) sq), Some p) else remove_first bs r sq
  end.
Definition victims (white_mover : bool) : list N := if white_mover then [6;7;8;9;10] else [0;1;2;3;4].

(* is_legal: peek-make on a copy, then the king test *)
Definition is_legal (g : game) (m : move) : bool :=
  let f := mfrom m in let t := mto m in let p := mpiece m in
  let occ := set_bit (unset_bit (aocc g) f) t in
  let bs := upd (bbs g) p (set_bit (unset_bit (bb g p) f) t) in
  let '(bs, occ) :=
    if mep m then
      if white g then (upd bs BP (unset_bit (nthN bs BP) (t + 8)), unset_bit occ (t + 8))
      else (upd bs WP (unset_bit (nthN bs WP) (t - 8)), unset_bit occ (t - 8))
    else if mcap m then (fst (remove_first bs (victims (white g)) t), occ)
    else (bs, occ) in
  negb (in_check_raw bs occ (white g)).

Definition legal_values (g : game) (ms : list move) : list move := filter (is_legal g) ms.
Definition legal_moves (g : game) : list move := legal_values g (generate_moves g true).

(* ---------------------------------------------------------------- make_move.rs *)
Inductive mres := Illegal | Made (g' : game) | MPanic.

Definition make_search_move (g : game) (m : move) : mres :=
  let f := mfrom m in let t := mto m in let p := mpiece m in
  let w := white g in
  let h := hash g in
  let h := if ep g =? NOSQ then h else N.lxor h (ep_key (ep g)) in
  let h := N.lxor h (castle_key (castling g)) in
  let bs := upd (bbs g) p (unset_bit (bb g p) f) in
  let h := N.lxor h (piece_key p f) in
  let bs := upd bs p (set_bit (nthN bs p) t) in
  let h := N.lxor h (piece_key p t) in
  let ao := set_bit (unset_bit (aocc g) f) t in
  let wo := wocc g in let bo := bocc g in
  let '(bs, wo, bo, ao, h) :=
    if mcap m then
      if mep m then
        if w then (upd bs BP (unset_bit (nthN bs BP) (t + 8)), wo, unset_bit bo (t + 8), unset_bit ao (t + 8), N.lxor h (piece_key BP (t + 8)))
        else (upd bs WP (unset_bit (nthN bs WP) (t - 8)), unset_bit wo (t - 8), bo, unset_bit ao (t - 8), N.lxor h (piece_key WP (t - 8)))
      else
        let '(bs', victim) := remove_first bs (victims w) t in
        let h := match victim with Some v => N.lxor h (piece_key v t) | None => h end in
        if w then (bs', wo, unset_bit bo t, ao, h) else (bs', unset_bit wo t, bo, ao, h)
    else (bs, wo, bo, ao, h) in
  if in_check_raw bs ao w then Illegal else
  let '(wo, bo) := if w then (set_bit (unset_bit wo f) t, bo) else (wo, set_bit (unset_bit bo f) t) in
  let hm := if (p =? WP) || (p =? BP) || mcap m then 0 else (half g + 1) mod 256 in
  let step2 : option (list N * N * N * N * N) :=
    if negb (mpromo m =? NOPIECE) then
      let bs := upd bs (mpromo m) (set_bit (nthN bs (mpromo m)) t) in
      let bs := upd bs p (unset_bit (nthN bs p) t) in
      Some (bs, wo, bo, ao, N.lxor (N.lxor h (piece_key p t)) (piece_key (mpromo m) t))
    else if mcastle m then
      let hop (rk a b : N) (white_side : bool) :=
        let bs := upd bs rk (set_bit (nthN bs rk) a) in
        let bs := upd bs rk (unset_bit (nthN bs rk) b) in
        let h := N.lxor (N.lxor h (piece_key rk a)) (piece_key rk b) in
        if white_side then Some (bs, unset_bit (set_bit wo a) b, bo, unset_bit (set_bit ao a) b, h)
        else Some (bs, wo, unset_bit (set_bit bo a) b, unset_bit (set_bit ao a) b, h) in
      if t =? 62 then hop WR 61 63 true
      else if t =? 58 then hop WR 59 56 true
      else if t =? 6 then hop BR 5 7 false
      else if t =? 2 then hop BR 3 0 false
      else None
    else Some (bs, wo, bo, ao, h) in
  match step2 with
  | None => MPanic                                    (* unreachable!() *)
  | Some (bs, wo, bo, ao, h) =>
    let '(e, h) := if mdp m then (if w then (t + 8, N.lxor h (ep_key (t + 8))) else (t - 8, N.lxor h (ep_key (t - 8))))
                   else (NOSQ, h) in
    let c := N.land (castling g) (N.land (nthN CASTLING_RIGHTS t) (nthN CASTLING_RIGHTS f)) in
    let h := N.lxor h (castle_key c) in
    let fm := if w then full g else (full g + 1) mod 65536 in
    Made (mkGame bs wo bo ao (negb w) e c hm fm (N.lxor h SIDE_KEY))
  end.

(* the null move of search.rs:135-145 *)
Definition null_move (g : game) : game :=
  let h := N.lxor (hash g) SIDE_KEY in
  let h := if ep g =? NOSQ then h else N.lxor h (ep_key (ep g)) in
  mkGame (bbs g) (wocc g) (bocc g) (aocc g) (negb (white g)) NOSQ (castling g) (half g) (full g) h.

(* ---------------------------------------------------------------- perft.rs (sequential semantics) *)
Definition bulk_count (g : game) (ms : list move) : N := N.of_nat (length (filter (is_legal g) ms)).
Fixpoint perft (d : nat) (g : game) : N :=
  match d with
  | O => 0      (* depth 0 is not a valid request (u8 underflow in Rust) *)
  | S O => bulk_count g (generate_moves g true)
  | S k => fold_left (fun acc m => match make_search_move g m with Made g' => acc + perft k g' | _ => acc end)
                     (generate_moves g true) 0
  end.

(* entry points without nat arguments (for the extracted driver) *)
Definition perft1 (g : game) : N := perft 1 g.
Definition perft2 (g : game) : N := perft 2 g.
Definition perft_n (d : N) (g : game) : N := perft (N.to_nat d) g.
