(* Executable monitors over the event trace of a search (the model's ghost trace = the instrumented engine's hook trace).
   They state C06, C07 and C09 for ONE run as booleans; extracted, they judge the real engine's traces; the theorems in
   Proofs/ say that the model's traces are accepted for every run. Index results: 0 = accepted, k = the k-th event (1-based) fails. *)
From Coq Require Import NArith ZArith List Bool.
From JV Require Import Gen.Consts Model.Bits Model.Chess Model.TT Model.Search Model.SearchChess Spec.ChessSpec Model.Abs.
Import ListNotations.
Local Open Scope N_scope.

Definition cev := event game move.

Fixpoint listN_eqb (a b : list N) : bool :=
  match a, b with [], [] => true | x :: a', y :: b' => (x =? y) && listN_eqb a' b' | _, _ => false end.
Definition game_eqb (a b : game) : bool :=
  listN_eqb (bbs a) (bbs b) && (wocc a =? wocc b) && (bocc a =? bocc b) && (aocc a =? aocc b) && Bool.eqb (white a) (white b) &&
  (ep a =? ep b) && (castling a =? castling b) && (half a =? half b) && (full a =? full b) && (hash a =? hash b).

Definition keyok_b (g : game) : bool := hash g =? make_zobrist_hash g.

(* g is reached from par by one legal move (rules of chess), all 18 fields as the rules prescribe *)
Definition by_legal_move (par g : game) : bool :=
  existsb (fun m => pos_eqb (apply (abs par) m) (abs g)) (legal_moves (abs par)).
(* g is reached from par by a pass made while not in check *)
Definition by_pass (par g : game) : bool :=
  negb (spec_in_check par) && listN_eqb (bbs par) (bbs g) && (wocc par =? wocc g) && (bocc par =? bocc g) && (aocc par =? aocc g) &&
  Bool.eqb (white g) (negb (white par)) && (ep g =? NOSQ) && (castling par =? castling g) && (half par =? half g) && (full par =? full g).

Record frame := mkFrame { f_ply : nat; f_g : game; f_q : bool; f_legal : bool }.
Record mstate := mkM { stack : list frame; pending : N; idx : N; bad06 : N; bad06v : N; bad07m : N; bad07f : N }.

Definition first_bad (old new : N) : N := if old =? 0 then new else old.

Fixpoint pop_deeper (st : list frame) (p : nat) : list frame :=
  match st with f :: r => if Nat.ltb p (f_ply f) then pop_deeper r p else st | [] => [] end.

Definition step_node (hist : list N) (s : mstate) (q : bool) (g : game) (p : nat) : mstate :=
  let i := idx s in
  let bad07m' := if pending s =? 0 then bad07m s else first_bad (bad07m s) (pending s) in
  let st := pop_deeper (stack s) p in
  (* same ply on top: hand-off negamax -> quiescence on the same position, or a sibling / re-search *)
  let '(handoff, st) :=
    match st with
    | f :: r => if Nat.eqb (f_ply f) p then (if q && negb (f_q f) && game_eqb (f_g f) g then (Some f, r) else (None, r)) else (None, st)
    | [] => (None, st)
    end in
  let '(rel, legal) :=
    match handoff with
    | Some f => (true, f_legal f)
    | None =>
      match p, st with
      | O, _ => (true, true)
      | S p', par :: _ =>
        if Nat.eqb (f_ply par) p' then
          let bm := by_legal_move (f_g par) g in
          (bm || by_pass (f_g par) g, f_legal par && bm)
        else (false, false)
      | S _, [] => (false, false)
      end
    end in
  let ok := wf g && keyok_b g && Nat.leb p (N.to_nat MAX_PLY) && rel in
  (* C07 speaks about positions: the key recomputed from the node's position is compared (the stored key is judged separately: keyok_b) *)
  let rep_due := negb q && negb (Nat.eqb p 0) && legal && existsb (N.eqb (make_zobrist_hash g)) hist in
  mkM (mkFrame p g q legal :: st) (if rep_due then i else 0) (N.succ i)
      (if ok then bad06 s else first_bad (bad06 s) i) (bad06v s) bad07m' (bad07f s).

Definition step (hist : list N) (s : mstate) (e : cev) : mstate :=
  match e with
  | ENode q g p _ _ _ _ _ _ _ => step_node hist s q g p
  | ERepHit =>
    if negb (pending s =? 0) then mkM (stack s) 0 (N.succ (idx s)) (bad06 s) (bad06v s) (bad07m s) (bad07f s)
    else
      let ok := match stack s with
                | f :: r => existsb (N.eqb (make_zobrist_hash (f_g f))) (hist ++ map (fun x => make_zobrist_hash (f_g x)) r)
                | [] => false
                end in
      mkM (stack s) 0 (N.succ (idx s)) (bad06 s) (bad06v s) (bad07m s) (if ok then bad07f s else first_bad (bad07f s) (idx s))
  | EVerdict mate p =>
    let bad07m' := if pending s =? 0 then bad07m s else first_bad (bad07m s) (pending s) in
    let ok := match pop_deeper (stack s) p with
              | f :: _ => Nat.eqb (f_ply f) p &&
                          (match legal_moves (abs (f_g f)) with [] => true | _ => false end) && Bool.eqb mate (spec_in_check (f_g f))
              | [] => false
              end in
    mkM (stack s) 0 (N.succ (idx s)) (bad06 s) (if ok then bad06v s else first_bad (bad06v s) (idx s)) bad07m' (bad07f s)
  | _ =>
    let bad07m' := if pending s =? 0 then bad07m s else first_bad (bad07m s) (pending s) in
    mkM (stack s) 0 (N.succ (idx s)) (bad06 s) (bad06v s) bad07m' (bad07f s)
  end.

Definition mon_nodes (hist : list N) (tr : list cev) : mstate :=
  let s := fold_left (step hist) tr (mkM [] 0 1 0 0 0 0) in
  mkM (stack s) 0 (idx s) (bad06 s) (bad06v s) (if pending s =? 0 then bad07m s else first_bad (bad07m s) (pending s)) (bad07f s).

(* C09: nothing is written to the PV or the TT after the stop was observed; the node counter never runs more than
   INPUT_POLL_INTERVAL+1 past the last poll *)
Fixpoint mon_frame (tr : list cev) (stopped : bool) (i : N) : N :=
  match tr with
  | [] => 0
  | EStopRaised :: r => mon_frame r true (N.succ i)
  | EPV _ _ :: r => if stopped then i else mon_frame r stopped (N.succ i)
  | ETTRec _ _ _ _ _ :: r => if stopped then i else mon_frame r stopped (N.succ i)
  | _ :: r => mon_frame r stopped (N.succ i)
  end.
Fixpoint mon_cadence (tr : list cev) (last_poll : N) (i : N) : N :=
  match tr with
  | [] => 0
  | EPoll _ n _ :: r => mon_cadence r n (N.succ i)
  | ENode _ _ _ _ _ _ n _ _ _ :: r => if n <=? last_poll + INPUT_POLL_INTERVAL + 1 then mon_cadence r last_poll (N.succ i) else i
  | _ :: r => mon_cadence r last_poll (N.succ i)
  end.

(* C12 / C03: a line of engine moves is a legal line from g (rules of chess) *)
Fixpoint legal_line (p : pos) (ms : list smove) : bool :=
  match ms with
  | [] => true
  | m :: r => existsb (smove_eqb m) (legal_moves p) && legal_line (apply p m) r
  end.
Definition mon_pv (g : game) (pv : list move) : bool := legal_line (abs g) (map umove pv).
Definition mon_bestmove (g : game) (m : move) : bool :=
  match legal_moves (abs g) with [] => true | l => existsb (smove_eqb (umove m)) l end.

(* uniquely named entry points for the extracted driver *)
Definition spec_has_legal (g : game) : bool := match legal_moves (abs g) with [] => false | _ => true end.
Definition spec_legal_line (g : game) (ms : list smove) : bool := legal_line (abs g) ms.

(* C11 oracle entry points *)
Definition spec_mates_in (n : N) (g : game) : bool := mates_in (N.to_nat n) (abs g).
Definition spec_mated_in (n : N) (g : game) : bool := mated_in (N.to_nat n) (abs g).
(* does the line end in checkmate, and after how many plies *)
Fixpoint line_end (p : pos) (ms : list smove) : pos := match ms with [] => p | m :: r => line_end (apply p m) r end.
Definition spec_line_mates (g : game) (ms : list smove) : bool := checkmate (line_end (abs g) ms).
