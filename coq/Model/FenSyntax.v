(* FEN syntax and the executable form of "the text F describes the position g" (statements and soundness: Proofs/FenBoard.v, FenText.v,
   FenDecide.v).  Kept with the model so that the check can evaluate it on the FEN texts it feeds to the engine. *)
From Coq Require Import NArith ZArith List Bool String Ascii.
From JV Require Import Gen.Consts Model.Bits Model.Chess Model.SearchChess Model.Fen Model.Abs.
Import ListNotations.
Local Open Scope N_scope.

Inductive btok := TPiece (p : N) | TEmpty (n : N) | TSlash.
Definition piece_chars : list ascii := ["P"; "N"; "B"; "R"; "Q"; "K"; "p"; "n"; "b"; "r"; "q"; "k"]%char.
Definition tok_char (t : btok) : ascii :=
  match t with TPiece p => nth (N.to_nat p) piece_chars "?"%char | TEmpty n => ascii_of_N (48 + n) | TSlash => "/"%char end.
Fixpoint render (tl : list btok) : string := match tl with [] => EmptyString | t :: r => String (tok_char t) (render r) end.
Definition tok_ok (t : btok) : bool := match t with TPiece p => p <? 12 | TEmpty n => (1 <=? n) && (n <=? 8) | TSlash => true end.
Definition expand_tok (t : btok) : list (option N) :=
  match t with TPiece p => [Some p] | TEmpty n => repeat None (N.to_nat n) | TSlash => [] end.
Definition expand (tl : list btok) : list (option N) := flat_map expand_tok tl.

Definition bstate := (list N * N * N * N * N)%type.
Definition step_tok (st : bstate) (t : btok) : bstate :=
  let '(bs, w, b, a, i) := st in
  match t with
  | TPiece p => let sq := i mod 64 in
      (upd bs p (set_bit (nthN bs p) sq), (if p <? 6 then set_bit w sq else w), (if p <? 6 then b else set_bit b sq), set_bit a sq, (i + 1) mod 256)
  | TEmpty n => (bs, w, b, a, (i + n) mod 256)
  | TSlash => st
  end.


(* which of the twelve piece sets holds square i *)
Definition cellN (g : game) (i : N) : option N := find (fun p => N.testbit (nthN (bbs g) p) i) [0;1;2;3;4;5;6;7;8;9;10;11].

(* lexing a board text back into tokens *)
Definition lex_char (c : ascii) : option btok :=
  if Ascii.eqb c "/"%char then Some TSlash
  else if is_digit c then Some (TEmpty (digit_val c))
  else match char_to_piece c with Some p => Some (TPiece p) | None => None end.
Fixpoint lex_board (s : string) : option (list btok) :=
  match s with
  | EmptyString => Some []
  | String c r => match lex_char c, lex_board r with Some t, Some l => Some (t :: l) | _, _ => None end
  end.

(* the cells of a position *)
Definition ocell_eqb (a b : option N) : bool := match a, b with None, None => true | Some x, Some y => N.eqb x y | _, _ => false end.
Fixpoint cells_eqb (a b : list (option N)) : bool :=
  match a, b with [], [] => true | x :: a', y :: b' => ocell_eqb x y && cells_eqb a' b' | _, _ => false end.
Local Open Scope string_scope.
Definition fen_describes (g : game) (F : string) : bool :=
  match split_sp F with
  | [b; a; cs; es; hs; fs] =>
    match lex_board b with
    | None => false
    | Some tl =>
      forallb tok_ok tl && cells_eqb (expand tl) (map (cellN g) (seqN 0 64)) &&
      String.eqb a (if white g then "w" else "b") &&
      Bool.eqb (contains_char cs "K"%char) (N.testbit (castling g) 0) && Bool.eqb (contains_char cs "Q"%char) (N.testbit (castling g) 1) &&
      Bool.eqb (contains_char cs "k"%char) (N.testbit (castling g) 2) && Bool.eqb (contains_char cs "q"%char) (N.testbit (castling g) 3) &&
      (if String.eqb es "-" then N.eqb (ep g) NOSQ else match square_from_string es with Some e => N.eqb e (ep g) | None => false end) &&
      (match parse_uint 256 hs with Some v => N.eqb v (half g) | None => false end) &&
      (match parse_uint 65536 fs with Some v => N.eqb v (full g) | None => false end) &&
      N.ltb (castling g) 16 && legal_inv_b g
    end
  | _ => false
  end.

