(* Model of src/attack_tables.rs over the generated real tables (Gen/Tables.v = build.rs output). *)
From Coq Require Import NArith List.
From JV Require Import Gen.Tables Model.Bits.
Import ListNotations.
Local Open Scope N_scope.

Definition SLIDING : list N := concat SLIDING_CHUNKS.

Definition get_pawn_attack_table (sq : N) (white : bool) : N :=
  if white then nthN WHITE_PAWN_ATTACKS sq else nthN BLACK_PAWN_ATTACKS sq.
Definition get_knight_attack_table (sq : N) : N := nthN KNIGHT_ATTACKS sq.
Definition get_king_attack_table (sq : N) : N := nthN KING_ATTACKS sq.
Definition get_rook_attack_table (sq occ : N) : N :=
  nthN SLIDING (nthN ROOK_OFFSETS sq + pext occ (nthN ROOK_MASK sq)).
Definition get_bishop_attack_table (sq occ : N) : N :=
  nthN SLIDING (nthN BISHOP_OFFSETS sq + pext occ (nthN BISHOP_MASK sq)).
Definition get_queen_attack_table (sq occ : N) : N :=
  N.lor (get_rook_attack_table sq occ) (get_bishop_attack_table sq occ).
