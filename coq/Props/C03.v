(* C03 -- every search request is answered with a legal best move (after fixes d6061b3, ac47405, 532621f in /repo).
   Proved for every position, depth (any i8 value), TT content, history, poll schedule and stop point k = 0, 1, 2, ...:
   search() always terminates and prints zero or more info lines followed by EXACTLY ONE bestmove; when the PV is still empty
   (stop seen before the first root move completed, depth 0, root handed to quiescence because of the half-move clock) the answer is
   the first legal move whenever a legal move exists; every move with board squares and a regular promotion piece prints as
   well-formed UCI notation.  The best move is a move accepted by both legality paths (C03_bestmove_legal), hence -- for every position
   satisfying the invariant -- a legal move under the rules (C03_bestmove_legal_under_the_rules, through C01).  On every run the extracted
   monitor judges the engine's answers (stop injected at every poll index of small searches). *)
From Coq Require Import NArith ZArith List Bool String.
From JV Require Import Gen.Consts Model.Chess Model.Eval Model.TT Model.Search Model.SearchChess Model.Monitors
     Proofs.SearchBalance Proofs.SearchOutputs Proofs.UciProofs Proofs.SearchPV Proofs.MoveGenProofs Proofs.LegalInv Proofs.RulesLevel Props.C12.
Import ListNotations.

Theorem C03_exactly_one_bestmove : forall pollp stop_at bypass g depth t rt ri,
  exists infos m e s, chess_search pollp stop_at bypass g depth t rt ri = SDone (infos ++ [OBest m]) e s /\
    Forall (fun o => match o with OInfo _ _ _ _ _ => True | OBest _ => False end) infos.
Proof.
  intros. destruct (search_frame _ _ generate_moves c_make null_move evaluate (fun g => is_in_check g (white g)) hash c_half100
    move_eqb mcap c_promo c_hidx c_cap_score NULL_MOVE is_legal pollp stop_at bypass g depth t rt ri) as (r & e & s & H & _).
  pose proof H as H'. apply search_outputs in H'. destruct H' as (infos & m & E & I).
  exists infos, m, e, s. unfold chess_search. rewrite H, E. split; [reflexivity|].
  clear -I. induction I; [constructor|]. apply Forall_app. split; [assumption|]. constructor; [exact Logic.I|constructor].
Qed.

Theorem C03_fallback_legal : forall g (e : c_env),
  move_eqb (nth 0 (pv_row e 0) NULL_MOVE) NULL_MOVE = true ->
  legal_moves g <> [] ->
  In (best_move generate_moves move_eqb NULL_MOVE is_legal g e) (legal_moves g).
Proof. intros g e H NE. apply best_move_fallback_legal; assumption. Qed.

Theorem C03_uci_syntax : forall m, (mfrom m < 64)%N -> (mto m < 64)%N -> In (mpromo m) promo_pieces ->
  uci_wf (to_uci m) = true.
Proof. intros m A B C. exact (proj1 (uci_wellformed m A B C)). Qed.

(* Whenever some generated move passes the legality test, the (single) bestmove of every search -- any depth, TT, history, poll
   schedule, stop point -- is one of the moves the engine treats as legal: it is generated and accepted by BOTH legality paths. *)
Theorem C03_bestmove_legal : forall pollp stop_at bypass g depth t rt ri,
  legal_moves g <> [] ->
  match chess_search pollp stop_at bypass g depth t rt ri with
  | SDone r _ _ => forall m, In (OBest m) r -> In m (legal_moves g)
  | SFuel => True
  end.
Proof.
  intros pollp stop_at bypass g depth t rt ri NE.
  pose proof (C12_pv_legal pollp stop_at bypass g depth t rt ri) as H.
  destruct (chess_search pollp stop_at bypass g depth t rt ri) as [r e s|]; [|exact I].
  intros m Hin. rewrite Forall_forall in H. specialize (H _ Hin). cbn in H.
  unfold legal_moves, legal_values in *.
  destruct H as [[H1 [g' H2]]|[H|H]].
  - rewrite legality_paths_agree. apply filter_In. split; [exact H1|]. unfold made. unfold c_make in H2.
    destruct (make_search_move g m); [discriminate|reflexivity|discriminate].
  - exact H.
  - contradiction.
Qed.

(* the rules-level statement: for every position satisfying the invariant in which the rules allow a move, the best move of every
   search is a legal move under the rules (mon_bestmove) *)
Theorem C03_bestmove_legal_under_the_rules : forall pollp stop_at bypass g depth t rt ri, legal_inv g -> spec_has_legal g = true ->
  match chess_search pollp stop_at bypass g depth t rt ri with
  | SDone outs _ _ => Forall (fun o => match o with OBest m => mon_bestmove g m = true | _ => True end) outs
  | SFuel => True
  end.
Proof.
  intros pollp stop_at bypass g depth t rt ri LI HL.
  pose proof (C03_bestmove_legal pollp stop_at bypass g depth t rt ri (spec_has_legal_model g LI HL)) as H.
  destruct (chess_search pollp stop_at bypass g depth t rt ri) as [outs e s|]; [|exact I].
  apply Forall_forall. intros o Ho. destruct o as [sc mt d n pv|m]; [exact I|]. apply model_legal_is_rules_legal; [exact LI|]. apply H. exact Ho.
Qed.

Print Assumptions C03_exactly_one_bestmove.
Print Assumptions C03_fallback_legal.
Print Assumptions C03_uci_syntax.
Print Assumptions C03_bestmove_legal.
Print Assumptions C03_bestmove_legal_under_the_rules.
