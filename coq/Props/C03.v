(* C03 -- every search request is answered with a legal best move (after fixes d6061b3, ac47405, 532621f in /repo).
   Proved for every position, depth (any i8 value), TT content, history, poll schedule and stop point k = 0, 1, 2, ...:
   search() always terminates and prints zero or more info lines followed by EXACTLY ONE bestmove; when the PV is still empty
   (stop seen before the first root move completed, depth 0, root handed to quiescence because of the half-move clock) the answer is
   the first legal move whenever a legal move exists; every move with board squares and a regular promotion piece prints as
   well-formed UCI notation.  The best move is a move accepted by both legality paths (C03_bestmove_legal), hence -- for every position
   satisfying the invariant -- a legal move under the rules (C03_bestmove_legal_under_the_rules, through C01).  On every run the extracted
   monitor judges the engine's answers (stop injected at every poll index of small searches). *)
From Coq Require Import NArith ZArith List Bool String.
From JV Require Import Gen.Consts Model.Chess Model.Eval Model.TT Model.Search Model.SearchChess Model.Monitors
     Proofs.SearchBalance Proofs.SearchOutputs Proofs.UciProofs Proofs.SearchPV Proofs.MoveGenProofs Proofs.LegalInv Proofs.RulesLevel Props.C12.
Import ListNotations.

Theorem C03_exactly_one_bestmove : forall pollp stop_at bypass g depth t rt ri,
  exists infos m e s, chess_search pollp stop_at bypass g depth t rt ri = SDone (infos ++ [OBest m]) e s /\
    Forall (fun o => match o with OInfo _ _ _ _ _ => True | OBest _ => False end) infos.
Proof.
  intros. destruct (search_frame _ _ generate_moves c_make null_move evaluate (fun g => is_in_check g (white g)) hash c_half100
    move_eqb mcap c_promo c_hidx c_cap_score NULL_MOVE is_legal pollp stop_at bypass g depth t rt ri) as (r & e & s & H & _).
  pose proof H as H'. apply search_outputs in H'. destruct H' as (infos & m & E & I).
  exists infos, m, e, s. unfold chess_search. rewrite H, E. split; [reflexivity|].
  clear -I. induction I; [constructor|]. apply Forall_app. split; [assumption|]. constructor; [exact Logic.I|constructor].
Qed.

Theorem C03_fallback_legal : forall g (e : c_env),
  move_eqb (nth 0 (pv_row e 0) NULL_MOVE) NULL_MOVE = true ->
  legal_moves g <> [] ->
  In (best_move generate_moves move_eqb NULL_MOVE is_legal g e) (legal_moves g).
Proof. intros g e H NE. apply best_move_fallback_legal; assumption. Qed.

Theorem C03_uci_syntax : forall m, (mfrom m < 64)%N -> (mto m < 64)%N -> In (mpromo m) promo_pieces ->
  uci_wf (to_uci m) = true.
Proof. intros m A B C. exact (proj1 (uci_wellformed m A B C)). Qed.

(* Whenever some generated move passes the legality test, the (single) bestmove of every search -- any depth, TT, history, poll
   schedule, stop point -- is one of the moves the engine treats as legal: it is generated and accepted by BOTH legality paths. *)
Theorem C03_bestmove_legal : forall pollp stop_at bypass g depth t rt ri,
  legal_moves g <> [] ->
  match chess_search pollp stop_at bypass g depth t rt ri with
  | SDone r _ _ => forall m, In (OBest m) r -> In m (legal_moves g)
  | SFuel => True
  end.
Proof.
  intros pollp stop_at bypass g depth t rt ri NE.
  pose proof (C12_pv_legal pollp stop_at bypass g depth t rt ri) as H.
  destruct (chess_search pollp stop_at bypass g depth t rt ri) as [r e s|]; [|exact I].
  intros m Hin. rewrite Forall_forall in H. specialize (H _ Hin). cbn in H.
  unfold legal_moves, legal_values in *.
  destruct H as [[H1 [g' H2]]|[H|H]].
  - rewrite legality_paths_agree. apply filter_In. split; [exact H1|]. unfold made. unfold c_make in H2.
    destruct (make_search_move g m); [discriminate|reflexivity|discriminate].
  - exact H.
  - contradiction.
Qed.

(* the rules-level statement: for every position satisfying the invariant in which the rules allow a move, the best move of every
   search is a legal move under the rules (mon_bestmove) *)
Theorem C03_bestmove_legal_under_the_rules : forall pollp stop_at bypass g depth t rt ri, legal_inv g -> spec_has_legal g = true ->
  match chess_search pollp stop_at bypass g depth t rt ri with
  | SDone outs _ _ => Forall (fun o => match o with OBest m => mon_bestmove g m = true | _ => True end) outs
  | SFuel => True
  end.
Proof.
  intros pollp stop_at bypass g depth t rt ri LI HL.
  pose proof (C03_bestmove_legal pollp stop_at bypass g depth t rt ri (spec_has_legal_model g LI HL)) as H.
  destruct (chess_search pollp stop_at bypass g depth t rt ri) as [outs e s|]; [|exact I].
  apply Forall_forall. intros o Ho. destruct o as [sc mt d n pv|m]; [exact I|]. apply model_legal_is_rules_legal; [exact LI|]. apply H. exact Ho.
Qed.

Print Assumptions C03_exactly_one_bestmove.
Print Assumptions C03_fallback_legal.
Print Assumptions C03_uci_syntax.
Print Assumptions C03_bestmove_legal.
Print Assumptions C03_bestmove_legal_under_the_rules.

(* ------------------------------------------------------------------ at the level of the main loop (Model/Uci.v) *)
From JV Require Import Model.Fen Model.Uci Model.Abs Proofs.FenProofs Proofs.PositionInv Proofs.StartPos Proofs.LegalInvB.
Local Open Scope string_scope.

(* a `position` line is admissible when what it sets up is a legal position: always for `startpos` games, for FEN games when the executable
   invariant holds of the result (every other line is admissible) *)
Definition line_ok (line : string) : Prop :=
  let l := trim line in
  lower_str (first_token l) = "position" ->
  forall g rep, parse_position (skip 9 l) = FOk (g, rep) -> List.hd EmptyString (split_sp (skip 9 l)) = "startpos" \/ legal_inv_b g = true.

Example line_ok_startpos_game : line_ok "position startpos moves e2e4 e7e5".
Proof. unfold line_ok. intros _ g rep _. left. vm_compute. reflexivity. Qed.
Example line_ok_other_commands : line_ok "go depth 5" /\ line_ok "move e2e4" /\ line_ok "perft 3".
Proof. repeat split; unfold line_ok; cbv zeta; intros H; vm_compute in H; discriminate H. Qed.

(* every command keeps the current position inside the invariant *)
Theorem C03_main_loop_keeps_the_position_legal : forall extra dl u line input,
  legal_inv (u_game u) -> line_ok line ->
  let '(u', _, _, _, _) := uci_step extra dl u line input in legal_inv (u_game u').
Proof.
  intros extra dl u line input LI OK. unfold line_ok in OK. cbv zeta in OK.
  destruct (String.eqb_spec (lower_str (first_token (trim line))) "position") as [EP|NP].
  - specialize (OK EP). unfold uci_step. cbv zeta.
    destruct (String.eqb (trim line) ""); [exact LI|]. rewrite EP. cbn [String.eqb Ascii.eqb Bool.eqb orb].
    destruct (negb _); [exact LI|].
    destruct (parse_position (skip 9 (trim line))) as [[g rep]| |] eqn:PP; try exact LI.
    cbn [u_game]. destruct (OK g rep eq_refl) as [SP|B].
    + exact (position_startpos_inv _ g rep SP PP).
    + apply legal_inv_b_sound. exact B.
  - destruct (String.eqb_spec (lower_str (first_token (trim line))) "move") as [EM|NM].
    + unfold uci_step. cbv zeta. destruct (String.eqb (trim line) ""); [exact LI|]. rewrite EM. cbn [String.eqb Ascii.eqb Bool.eqb orb].
      destruct (play_moves (u_game u) (u_rep u) (rest_tokens (trim line))) as [[g rep]| |] eqn:PM; try exact LI.
      cbn [u_game]. exact (play_moves_inv _ _ _ _ _ LI PM).
    + (* every other command leaves the position alone *)
      assert (K : let '(u', _, _, _, _) := uci_step extra dl u line input in u_game u' = u_game u).
      { unfold uci_step. cbv zeta.
        destruct (String.eqb (trim line) ""); [reflexivity|].
        set (cmd := lower_str (first_token (trim line))) in *.
        destruct (String.eqb cmd "quit" || String.eqb cmd "exit" || String.eqb cmd "x")%bool; [reflexivity|].
        destruct (String.eqb cmd "uci"); [reflexivity|]. destruct (String.eqb cmd "isready"); [reflexivity|].
        destruct (String.eqb cmd "ucinewgame" || String.eqb cmd "cleartt")%bool; [reflexivity|].
        destruct (String.eqb cmd "d"); [reflexivity|]. destruct (String.eqb cmd "eval"); [reflexivity|].
        destruct (String.eqb_spec cmd "position") as [E|_]; [contradiction|].
        destruct (String.eqb cmd "go").
        - destruct (go_tokens _ _ _ _ _); try reflexivity.
          destruct (session_search _ _ _ _ _ _); [|reflexivity].
          destruct (poll_schedule _ _ _ _) as [[nready stopper] rest]. reflexivity.
        - destruct (String.eqb cmd "stop"); [reflexivity|].
          destruct (String.eqb_spec cmd "move") as [E|_]; [contradiction|].
          destruct (String.eqb cmd "perft").
          { destruct (rest_tokens (trim line)) as [|t r]; [reflexivity|]. destruct (String.eqb t "simple"); [reflexivity|].
            destruct (parse_uint 256 t) as [d|]; [|reflexivity]. destruct (d =? 0)%N; reflexivity. }
          destruct (String.eqb cmd "perft!").
          { destruct (rest_tokens (trim line)) as [|t r]; [reflexivity|].
            destruct (parse_uint 256 t) as [d|]; [|reflexivity]. destruct (d =? 255)%N; reflexivity. }
          destruct (_ || _)%bool; reflexivity. }
      destruct (uci_step extra dl u line input) as [[[[u' o] rq] i'] st]. rewrite K. exact LI.
Qed.

(* every state a session can be in: the fresh engine, and whatever admissible lines lead to from there (whatever else is pending as input) *)
Inductive session_state (extra : N) : ustate -> Prop :=
| ss_init : session_state extra init_ustate
| ss_step : forall dl u line input u' outs rq input' st,
    session_state extra u -> line_ok line -> uci_step extra dl u line input = (u', outs, rq, input', st) -> session_state extra u'.

Theorem C03_every_session_state_holds_a_legal_position : forall extra u, session_state extra u -> legal_inv (u_game u).
Proof.
  intros extra u H. induction H as [|dl u line input u' outs rq input' st _ IH OK E].
  - unfold init_ustate. rewrite start_game_is_startpos. cbn [u_game]. exact start_game_inv.
  - pose proof (C03_main_loop_keeps_the_position_legal extra dl u line input IH OK) as K. rewrite E in K. exact K.
Qed.

(* whatever holds of the lines of every search of the current position holds of the search lines the main loop prints in answer to any command *)
Definition lift_out (Q : out move -> Prop) (o : uout) : Prop := match o with OSearchOut x => Q x | _ => True end.
Lemma Forall_lift_text Q l : Forall (lift_out Q) (map OText l).
Proof. induction l; constructor; [exact I|assumption]. Qed.
Lemma Forall_lift_repeat Q s n : Forall (lift_out Q) (repeat (OText s) n).
Proof. induction n; constructor; [exact I|assumption]. Qed.
Lemma main_loop_search_lines (Q : out move -> Prop) extra dl u line input :
  (forall p s b d t rt ri, match chess_search p s b (u_game u) d t rt ri with SDone outs _ _ => Forall Q outs | SFuel => True end) ->
  let '(_, outs, _, _, _) := uci_step extra dl u line input in Forall (lift_out Q) outs.
Proof.
  intros HQ. unfold uci_step. cbv zeta.
  destruct (String.eqb (trim line) ""); [constructor|].
  set (cmd := lower_str (first_token (trim line))).
  destruct (String.eqb cmd "quit" || String.eqb cmd "exit" || String.eqb cmd "x")%bool; [repeat constructor|].
  destruct (String.eqb cmd "uci"); [repeat constructor|]. destruct (String.eqb cmd "isready"); [repeat constructor|].
  destruct (String.eqb cmd "ucinewgame" || String.eqb cmd "cleartt")%bool; [constructor|].
  destruct (String.eqb cmd "d"); [repeat constructor|]. destruct (String.eqb cmd "eval"); [repeat constructor|].
  destruct (String.eqb cmd "position").
  { destruct (negb _); [constructor|]. destruct (parse_position _) as [[g rep]| |]; constructor. }
  destruct (String.eqb cmd "go").
  - destruct (go_tokens _ _ _ _ _) as [a msgs|msgs| |]; [|apply Forall_lift_text|constructor|repeat constructor].
    unfold session_search.
    match goal with |- context [chess_search ?p ?s ?b ?g ?d ?t ?rt ?ri] =>
      pose proof (HQ p s b d t rt ri) as B; destruct (chess_search p s b g d t rt ri) as [so e sc|] end; [|constructor].
    destruct (poll_schedule _ _ _ _) as [[nready stopper] rest].
    apply Forall_app; split; [apply Forall_lift_text|]. apply Forall_app; split; [apply Forall_lift_repeat|].
    clear -B. induction so as [|o r IH]; [constructor|]. inversion B as [|? ? B1 B2]; subst. constructor; [exact B1|apply IH; exact B2].
  - destruct (String.eqb cmd "stop"); [repeat constructor|].
    destruct (String.eqb cmd "move").
    { destruct (play_moves _ _ _) as [[g rep]| |]; constructor. }
    destruct (String.eqb cmd "perft").
    { destruct (rest_tokens (trim line)) as [|t r]; [constructor|]. destruct (String.eqb t "simple"); [repeat constructor|].
      destruct (parse_uint 256 t) as [d|]; [|constructor]. destruct (d =? 0)%N; repeat constructor. }
    destruct (String.eqb cmd "perft!").
    { destruct (rest_tokens (trim line)) as [|t r]; [constructor|].
      destruct (parse_uint 256 t) as [d|]; [|constructor]. destruct (d =? 255)%N; [repeat constructor|].
      apply Forall_app; split; [|repeat constructor]. induction (seq 1 (N.to_nat d)); constructor; [exact I|assumption]. }
    destruct (_ || _)%bool; repeat constructor.
Qed.

(* whatever line the main loop reads in a state holding a legal position with at least one legal move, every best move it prints in answer
   is a legal move of the rules in that position *)
Theorem C03_main_loop_bestmoves_are_legal : forall extra dl u line input,
  legal_inv (u_game u) -> spec_has_legal (u_game u) = true ->
  let '(_, outs, _, _, _) := uci_step extra dl u line input in
  Forall (lift_out (fun o => match o with OBest m => mon_bestmove (u_game u) m = true | _ => True end)) outs.
Proof.
  intros extra dl u line input LI HL. apply main_loop_search_lines. intros p s b d t rt ri.
  exact (C03_bestmove_legal_under_the_rules p s b (u_game u) d t rt ri LI HL).
Qed.
(* ... and every principal variation it prints is a legal line of the rules from that position (C12 at the level of the main loop) *)
Theorem C12_main_loop_pvs_are_legal_lines : forall extra dl u line input,
  legal_inv (u_game u) ->
  let '(_, outs, _, _, _) := uci_step extra dl u line input in
  Forall (lift_out (fun o => match o with OInfo _ _ _ _ pv => mon_pv (u_game u) pv = true | _ => True end)) outs.
Proof.
  intros extra dl u line input LI. apply main_loop_search_lines. intros p s b d t rt ri.
  exact (C12_pv_legal_full p s b (u_game u) d t rt ri LI).
Qed.

Print Assumptions C03_main_loop_keeps_the_position_legal.
Print Assumptions C03_every_session_state_holds_a_legal_position.
Print Assumptions C03_main_loop_bestmoves_are_legal.
Print Assumptions C12_main_loop_pvs_are_legal_lines.
