(* C01 -- legal move generation is exact for every legal position.
   Proved for ALL positions (no well-formedness needed): the engine's two legality paths (filter with is_legal /
   try make_search_move and reject) accept exactly the same generated moves, for both generators; every generated
   en-passant move carries the capture flag.
   SOUNDNESS w.r.t. the rules, proved for every position satisfying the invariant legal_inv (executable form legal_inv_b): every
   generated move -- of either generator -- that make_search_move accepts (equivalently: that is_legal accepts) is one of the
   legal moves of the rules, ChessSpec.legal_moves (abs g) (C01_accepted_moves_are_legal): pseudo-legality of every generated move
   (pawn pushes / captures / en passant / promotions on the last rank only, knight, king incl. all castling preconditions, sliders)
   through the equality of the model's attack sets with the specification's attack relations (Proofs/AttackSpec.v: sliders by a
   generic characterisation plus a kernel-evaluated geometry check over 64 x 64 pairs; attacked = is_square_attacked;
   in_check = in_check_raw), and 'own king not attacked afterwards' through the placement refinement of C02.
   COMPLETENESS and NO DUPLICATES, proved under the same invariant: every pseudo-legal move of the rules is generated
   (Proofs/Complete.v: the converse walk through generate_moves, case by case on the kind of man, castling and pawn shapes), a
   generated move that make_search_move refuses leaves the mover's king attacked on the board the rules obtain (Proofs/Rejected.v),
   so every legal move is generated and accepted; the generated list never repeats a record (Proofs/NoDupGen.v, for all positions)
   and two generated records denoting the same move of the rules are equal (Proofs/UmoveInj.v).  The capture-only list is the
   capture sub-list of the full list (Proofs/Exact.v).  C01_full states the property as the run-time monitors phrase it; it holds
   for the start position and everything reachable from it (C01_full_from_the_start_position).  The same extracted monitors are
   applied on every run to the ENGINE's answers (checks/chesscore.py): that is the tie of these theorems to the code. *)
From Coq Require Import NArith List Bool.
From JV Require Import Model.Chess Model.Abs Spec.ChessSpec Proofs.MoveGenProofs Proofs.LegalInv Proofs.LegalInvB Proofs.AttackSpec Proofs.GenProofs Proofs.RangeProofs Proofs.AbsMake Proofs.Soundness Proofs.Rejected Proofs.Complete Proofs.NoDupGen Proofs.UmoveInj Proofs.Exact Proofs.StartPos Proofs.SpecProofs.

Theorem C01_legality_paths_agree : forall g all,
  filter (is_legal g) (generate_moves g all) = filter (made g) (generate_moves g all).
Proof. exact legality_paths_agree. Qed.

Theorem C01_is_legal_iff_made : forall g m, flag_ok m = true -> is_legal g m = made g m.
Proof. exact is_legal_made. Qed.

Theorem C01_generated_flags : forall g all, forallb flag_ok (generate_moves g all) = true.
Proof. exact generated_flag_ok. Qed.

(* soundness w.r.t. the rules of chess *)
Theorem C01_accepted_moves_are_legal : forall g all m g', legal_inv g -> In m (generate_moves g all) ->
  make_search_move g m = Made g' -> In (umove m) (ChessSpec.legal_moves (abs g)).
Proof. exact accepted_in_legal_moves. Qed.

Theorem C01_generated_moves_are_pseudo_legal : forall g all m, legal_inv g -> In m (generate_moves g all) ->
  pseudo (abs g) (umove m) = true.
Proof. exact pseudo_ok. Qed.

(* the check test of the specification is the check test of the model *)
Theorem C01_in_check_is_in_check : forall g c, legal_inv g ->
  ChessSpec.in_check (board (abs g)) c = in_check_raw (bbs g) (aocc g) (wb c).
Proof. intros g c (C & KG & R & _). exact (in_check_model g c C R KG). Qed.

(* the verdict of make_search_move on a generated move is the rules' own test: either the move is made, or it is refused and the
   mover's king is attacked on the board the rules obtain by applying the move *)
Theorem C01_make_verdict_is_the_rules_check_test : forall g all m, legal_inv g -> In m (generate_moves g all) ->
  (exists g', make_search_move g m = Made g') \/
  (make_search_move g m = Illegal /\ ChessSpec.in_check (apply_board (abs g) (umove m)) (colr (white g)) = true).
Proof. exact make_verdict. Qed.

(* ---- the full property: exactness, for every position that satisfies the invariant ---- *)
(* completeness of generation: every pseudo-legal move of the rules is generated *)
Theorem C01_every_pseudo_legal_move_is_generated : forall g sm, cons g -> range g -> pseudo (abs g) sm = true ->
  exists m, In m (generate_moves g true) /\ umove m = sm.
Proof. exact pseudo_generated. Qed.

(* every legal move of the rules is generated and accepted by make_search_move *)
Theorem C01_every_legal_move_is_accepted : forall g sm, legal_inv g -> legalb (abs g) sm = true ->
  exists m g', In m (generate_moves g true) /\ umove m = sm /\ make_search_move g m = Made g'.
Proof. exact legal_is_accepted. Qed.

(* set equality with the rules' legal moves (all 64 x 64 x 5 candidates: ChessSpec.legal_moves_naive, SpecProofs) *)
Theorem C01_legal_set_is_exact : forall g sm, legal_inv g ->
  (In sm (map umove (legal_values g (generate_moves g true))) <-> In sm (ChessSpec.legal_moves (abs g))).
Proof. exact legal_set_exact. Qed.

(* ... which is the property's own quantifier: of all 64 x 64 x 5 candidate moves, exactly those the rules call legal *)
Theorem C01_legal_set_is_the_candidate_filter : forall g sm, legal_inv g ->
  (In sm (map umove (legal_values g (generate_moves g true))) <-> In sm (ChessSpec.legal_moves_naive (abs g))).
Proof. intros g sm LI. rewrite (legal_set_exact g sm LI). apply legal_moves_is_naive. Qed.
Theorem C01_legal_set_is_legalb : forall g sm, legal_inv g ->
  (In sm (map umove (legal_values g (generate_moves g true))) <-> legalb (abs g) sm = true).
Proof. intros g sm LI. rewrite (legal_set_exact g sm LI). apply legal_moves_spec. Qed.

(* no duplicates: neither as move records, nor as moves of the rules *)
Theorem C01_generated_records_distinct : forall g all, NoDup (generate_moves g all).
Proof. exact generate_moves_NoDup. Qed.
Theorem C01_no_duplicates : forall g all, legal_inv g -> NoDup (map umove (generate_moves g all)).
Proof. exact generated_umoves_NoDup. Qed.

(* the capture-only generator: the capture sub-list of the full list, in the same order; filtered, exactly the legal captures *)
Theorem C01_capture_generator_is_capture_sublist : forall g, generate_moves g false = filter mcap (generate_moves g true).
Proof. exact quiescence_list. Qed.
Theorem C01_capture_set_is_exact : forall g sm, legal_inv g ->
  (In sm (map umove (legal_values g (generate_moves g false))) <-> In sm (filter (is_capture (abs g)) (ChessSpec.legal_moves (abs g)))).
Proof. exact capture_set_exact. Qed.

(* the statement as the run-time monitors phrase it *)
Theorem C01_full : forall g, legal_inv g ->
  mon_legal_set g (legal_values g (generate_moves g true)) = true /\
  mon_capture_set g (legal_values g (generate_moves g false)) = true.
Proof. exact monitors_accept. Qed.
Theorem C01_full_executable_hypothesis : forall g, legal_inv_b g = true ->
  mon_legal_set g (legal_values g (generate_moves g true)) = true /\
  mon_capture_set g (legal_values g (generate_moves g false)) = true.
Proof. intros g H. apply monitors_accept. apply legal_inv_b_sound. exact H. Qed.
(* not vacuous, and covering legal play: the start position satisfies the invariant, hence so does everything reachable from it *)
Theorem C01_full_from_the_start_position : forall g, chess_reach start_game g ->
  mon_legal_set g (legal_values g (generate_moves g true)) = true /\
  mon_capture_set g (legal_values g (generate_moves g false)) = true.
Proof. intros g H. apply monitors_accept. apply reachable_from_start_inv. exact H. Qed.

Print Assumptions C01_legality_paths_agree.
Print Assumptions C01_accepted_moves_are_legal.
Print Assumptions C01_generated_moves_are_pseudo_legal.
Print Assumptions C01_in_check_is_in_check.
Print Assumptions C01_make_verdict_is_the_rules_check_test.
Print Assumptions C01_every_pseudo_legal_move_is_generated.
Print Assumptions C01_every_legal_move_is_accepted.
Print Assumptions C01_legal_set_is_exact.
Print Assumptions C01_legal_set_is_the_candidate_filter.
Print Assumptions C01_legal_set_is_legalb.
Print Assumptions C01_generated_records_distinct.
Print Assumptions C01_no_duplicates.
Print Assumptions C01_capture_generator_is_capture_sublist.
Print Assumptions C01_capture_set_is_exact.
Print Assumptions C01_full.
Print Assumptions C01_full_executable_hypothesis.
Print Assumptions C01_full_from_the_start_position.
Print Assumptions C01_is_legal_iff_made.
Print Assumptions C01_generated_flags.
