(* C01 -- legal move generation is exact for every legal position.
   Proved for ALL positions (no well-formedness needed): the engine's two legality paths (filter with is_legal /
   try make_search_move and reject) accept exactly the same generated moves, for both generators; every generated
   en-passant move carries the capture flag.
   SOUNDNESS w.r.t. the rules, proved for every position satisfying the invariant legal_inv (executable form legal_inv_b): every
   generated move -- of either generator -- that make_search_move accepts (equivalently: that is_legal accepts) is one of the
   legal moves of the rules, ChessSpec.legal_moves (abs g) (C01_accepted_moves_are_legal): pseudo-legality of every generated move
   (pawn pushes / captures / en passant / promotions on the last rank only, knight, king incl. all castling preconditions, sliders)
   through the equality of the model's attack sets with the specification's attack relations (Proofs/AttackSpec.v: sliders by a
   generic characterisation plus a kernel-evaluated geometry check over 64 x 64 pairs; attacked = is_square_attacked;
   in_check = in_check_raw), and 'own king not attacked afterwards' through the placement refinement of C02.
   COMPLETENESS (no legal move is missing, no duplicates) is kept visible in C01_full: it is NOT assumed anywhere; it is decided on
   every run by the extracted monitors applied to the engine's answers (checks/chesscore.py). *)
From Coq Require Import NArith List Bool.
From JV Require Import Model.Chess Model.Abs Spec.ChessSpec Proofs.MoveGenProofs Proofs.LegalInv Proofs.LegalInvB Proofs.AttackSpec Proofs.AbsMake Proofs.Soundness Proofs.Rejected.

Theorem C01_legality_paths_agree : forall g all,
  filter (is_legal g) (generate_moves g all) = filter (made g) (generate_moves g all).
Proof. exact legality_paths_agree. Qed.

Theorem C01_is_legal_iff_made : forall g m, flag_ok m = true -> is_legal g m = made g m.
Proof. exact is_legal_made. Qed.

Theorem C01_generated_flags : forall g all, forallb flag_ok (generate_moves g all) = true.
Proof. exact generated_flag_ok. Qed.

(* soundness w.r.t. the rules of chess *)
Theorem C01_accepted_moves_are_legal : forall g all m g', legal_inv g -> In m (generate_moves g all) ->
  make_search_move g m = Made g' -> In (umove m) (ChessSpec.legal_moves (abs g)).
Proof. exact accepted_in_legal_moves. Qed.

Theorem C01_generated_moves_are_pseudo_legal : forall g all m, legal_inv g -> In m (generate_moves g all) ->
  pseudo (abs g) (umove m) = true.
Proof. exact pseudo_ok. Qed.

(* the check test of the specification is the check test of the model *)
Theorem C01_in_check_is_in_check : forall g c, legal_inv g ->
  ChessSpec.in_check (board (abs g)) c = in_check_raw (bbs g) (aocc g) (wb c).
Proof. intros g c (C & KG & R & _). exact (in_check_model g c C R KG). Qed.

(* the verdict of make_search_move on a generated move is the rules' own test: either the move is made, or it is refused and the
   mover's king is attacked on the board the rules obtain by applying the move *)
Theorem C01_make_verdict_is_the_rules_check_test : forall g all m, legal_inv g -> In m (generate_moves g all) ->
  (exists g', make_search_move g m = Made g') \/
  (make_search_move g m = Illegal /\ ChessSpec.in_check (apply_board (abs g) (umove m)) (colr (white g)) = true).
Proof. exact make_verdict. Qed.

(* the full property, as the monitors state it (visible, not assumed, not yet proved for all wf positions) *)
Definition C01_full : Prop := forall g, wf g = true ->
  mon_legal_set g (legal_values g (generate_moves g true)) = true /\
  mon_capture_set g (legal_values g (generate_moves g false)) = true.

Print Assumptions C01_legality_paths_agree.
Print Assumptions C01_accepted_moves_are_legal.
Print Assumptions C01_generated_moves_are_pseudo_legal.
Print Assumptions C01_in_check_is_in_check.
Print Assumptions C01_make_verdict_is_the_rules_check_test.
Print Assumptions C01_is_legal_iff_made.
Print Assumptions C01_generated_flags.
