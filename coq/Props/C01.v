(* C01 -- legal move generation is exact for every legal position.
   Proved for ALL positions (no well-formedness needed): the engine's two legality paths (filter with is_legal /
   try make_search_move and reject) accept exactly the same generated moves, for both generators; every generated
   en-passant move carries the capture flag.
   The full statement (exactness w.r.t. the rules for every legal position) is kept visible as C01_full: it is NOT assumed
   anywhere; it is decided on every run by the extracted monitors applied to the engine's answers (checks/chesscore.py). *)
From Coq Require Import NArith List Bool.
From JV Require Import Model.Chess Model.Abs Spec.ChessSpec Proofs.MoveGenProofs.

Theorem C01_legality_paths_agree : forall g all,
  filter (is_legal g) (generate_moves g all) = filter (made g) (generate_moves g all).
Proof. exact legality_paths_agree. Qed.

Theorem C01_is_legal_iff_made : forall g m, flag_ok m = true -> is_legal g m = made g m.
Proof. exact is_legal_made. Qed.

Theorem C01_generated_flags : forall g all, forallb flag_ok (generate_moves g all) = true.
Proof. exact generated_flag_ok. Qed.

(* the full property, as the monitors state it (visible, not assumed, not yet proved for all wf positions) *)
Definition C01_full : Prop := forall g, wf g = true ->
  mon_legal_set g (legal_values g (generate_moves g true)) = true /\
  mon_capture_set g (legal_values g (generate_moves g false)) = true.

Print Assumptions C01_legality_paths_agree.
Print Assumptions C01_is_legal_iff_made.
Print Assumptions C01_generated_flags.
