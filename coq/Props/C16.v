(* C16 -- static evaluation is pure, colour-symmetric and bounded.
   Proved for every position: it depends only on the piece sets (+ their redundant unions) and the side to move; switching
   the side to move negates it; castling rights, en-passant square, clocks and key are ignored.
   Mirror symmetry (Proofs/EvalMirror.v) and the bound below the mate range (Proofs/EvalBound.v) are proved for every position satisfying
   the invariant plus two decidable side conditions that are themselves invariants of play (at most 16 men a side; pawns on ranks 2..7),
   hence for everything reachable from the start position.  The same relations are checked per run on the engine (metamorphic stream). *)
From Coq Require Import NArith ZArith List.
From JV Require Import Gen.Consts Model.Chess Model.Eval Model.Abs Model.SearchChess Model.Sym Proofs.EvalProofs Proofs.LegalInv Proofs.CountProofs Proofs.EvalBound Proofs.EvalReach Proofs.EvalMirror Proofs.ProwProofs Proofs.StartPos.
Local Open Scope Z_scope.

Theorem C16_pure : forall g1 g2,
  bbs g1 = bbs g2 -> aocc g1 = aocc g2 -> wocc g1 = wocc g2 -> bocc g1 = bocc g2 -> white g1 = white g2 ->
  evaluate g1 = evaluate g2.
Proof. exact evaluate_pure. Qed.

Theorem C16_side : forall g, evaluate (flip_side g) = - evaluate g.
Proof. exact evaluate_flip. Qed.

Theorem C16_ignores_rights_ep_clocks_key : forall g e c h f k,
  evaluate (mkGame (bbs g) (wocc g) (bocc g) (aocc g) (white g) e c h f k) = evaluate g.
Proof. exact evaluate_ignores. Qed.

(* colour symmetry: the colour-mirrored position (board flipped top to bottom, colours and mover swapped: EvalMirror.mirror) has the
   same evaluation -- for every position satisfying the invariant whose pawns stand on ranks 2..7 (prow2; the other halves are in the
   invariant).  The hypothesis on pawns is needed: the engine's RANK_MASKS table is constant (0xff), which makes the passed-pawn
   masks asymmetric on the back ranks only (DESIGN.md 7). *)
Theorem C16_mirror : forall g, legal_inv g -> prow2 g -> evaluate (mirror g) = evaluate g.
Proof. exact evaluate_mirror_inv. Qed.
Theorem C16_mirror_from_the_start_position : forall g, chess_reach start_game g -> evaluate (mirror g) = evaluate g.
Proof. exact evaluate_mirror_from_start. Qed.

(* the bound: strictly inside the range below the mate scores, for every position satisfying the invariant with at most 16 men a
   side (men16; preserved by every move: Proofs/CountProofs.v) *)
Theorem C16_bound_full : forall g, legal_inv g -> men16 g -> Z.abs (evaluate g) < MATE_BOUND.
Proof. exact evaluate_bound_inv. Qed.
Theorem C16_bound_from_the_start_position : forall g, chess_reach start_game g -> Z.abs (evaluate g) < MATE_BOUND.
Proof. exact evaluate_bound_from_start. Qed.
(* the two side conditions are invariants of play and have executable forms *)
Theorem C16_side_conditions_are_invariants : forall g0 g, legal_inv g0 -> men16 g0 -> prow2 g0 -> chess_reach g0 g -> men16 g /\ prow2 g.
Proof.
  intros g0 g L M P R. split; [exact (proj2 (reach_men16 g0 g L M R))|exact (proj2 (reach_prow2 g0 g L P R))].
Qed.
Theorem C16_side_conditions_executable : forall g, men16_b g = true -> prow2_b g = true -> men16 g /\ prow2 g.
Proof. intros g A B. split; [apply men16_b_sound; exact A|apply prow2_b_sound; exact B]. Qed.

Print Assumptions C16_pure.
Print Assumptions C16_side.
Print Assumptions C16_ignores_rights_ep_clocks_key.
Print Assumptions C16_mirror.
Print Assumptions C16_mirror_from_the_start_position.
Print Assumptions C16_bound_full.
Print Assumptions C16_bound_from_the_start_position.
Print Assumptions C16_side_conditions_are_invariants.
Print Assumptions C16_side_conditions_executable.
