(* C16 -- static evaluation is pure, colour-symmetric and bounded.
   Proved for every position: it depends only on the piece sets (+ their redundant unions) and the side to move; switching
   the side to move negates it; castling rights, en-passant square, clocks and key are ignored.
   Mirror symmetry and the bound below the mate range (C16_full) are decided per run on the engine (metamorphic stream). *)
From Coq Require Import NArith ZArith List.
From JV Require Import Gen.Consts Model.Chess Model.Eval Model.Abs Proofs.EvalProofs.
Local Open Scope Z_scope.

Theorem C16_pure : forall g1 g2,
  bbs g1 = bbs g2 -> aocc g1 = aocc g2 -> wocc g1 = wocc g2 -> bocc g1 = bocc g2 -> white g1 = white g2 ->
  evaluate g1 = evaluate g2.
Proof. exact evaluate_pure. Qed.

Theorem C16_side : forall g, evaluate (flip_side g) = - evaluate g.
Proof. exact evaluate_flip. Qed.

Theorem C16_ignores_rights_ep_clocks_key : forall g e c h f k,
  evaluate (mkGame (bbs g) (wocc g) (bocc g) (aocc g) (white g) e c h f k) = evaluate g.
Proof. exact evaluate_ignores. Qed.

Definition C16_bound_full : Prop := forall g, wf g = true -> Z.abs (evaluate g) < MATE_BOUND.

Print Assumptions C16_pure.
Print Assumptions C16_side.
Print Assumptions C16_ignores_rights_ep_clocks_key.
