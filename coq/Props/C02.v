(* C02 -- making a legal move yields exactly the rules-defined successor position.
   Proved for every position and every move that is made: side to move, half-move clock (with its u8 wrap written out),
   full-move number (u16 wrap written out), castling rights mask and en-passant target are exactly as the rules prescribe.
   Proved for every consistent position and every generated move that does not capture a king: the successor is consistent again
   (C02_consistency: twelve pairwise disjoint piece sets, the three occupancy sets are their unions, a castling right still has its
   king and rook at home, an en-passant square is empty with the pawn in front of it) -- make_search_move acts as a sequence of
   "take a man that is there / put a man on an empty square" operations (Proofs/ConsProofs.v), and every generated move is
   well-formed for it (Proofs/GenOk.v).  `nkc` (no king capture) is decidable; no generated move violates it when the side not to
   move is not in check; the judge evaluates it on every move the engine generates.
   Placement w.r.t. the rules: C02_successor_is_the_rules_successor (Proofs/AbsMake.v) -- abs (made position) = Spec.apply (abs g) m
   for every position satisfying the invariant and every accepted generated move; C02_full puts successor, invariant and the rules'
   own in_check of the successor together (the specification's attack semantics through Proofs/AttackSpec.v).
   Per run the extracted monitor mon_make compares every successor the ENGINE produces with Spec.apply and checks
   occupancy = unions / disjointness / one king each. *)
From Coq Require Import NArith List Bool.
From JV Require Import Gen.Consts Model.Bits Model.Chess Model.Abs Proofs.MakeProofs Proofs.GenProofs Proofs.ConsProofs Proofs.GenOk Proofs.KingsProofs Proofs.MakeGen Proofs.LegalInv Proofs.LegalInvB Proofs.AbsMake Proofs.NkProofs Proofs.AttackSpec Spec.SpecCore Model.SearchChess.
Local Open Scope N_scope.

Theorem C02_scalars : forall g m g', make_search_move g m = Made g' ->
  white g' = negb (white g) /\
  half g' = (if (mpiece m =? WP) || (mpiece m =? BP) || mcap m then 0 else (half g + 1) mod 256) /\
  full g' = (if white g then full g else (full g + 1) mod 65536) /\
  castling g' = N.land (castling g) (N.land (nthN CASTLING_RIGHTS (mto m)) (nthN CASTLING_RIGHTS (mfrom m))) /\
  ep g' = (if mdp m then (if white g then mto m + 8 else mto m - 8) else NOSQ).
Proof. exact make_scalars. Qed.

Theorem C02_consistency : forall g all m g', cons g -> In m (generate_moves g all) -> nkc g m ->
  make_search_move g m = Made g' -> cons g'.
Proof. exact make_cons_generated. Qed.

Theorem C02_consistency_pass : forall g, cons g -> cons (null_move g).
Proof. exact null_move_cons. Qed.

(* each side keeps exactly one king *)
Theorem C02_one_king_each : forall g all m g', cons g -> kings g -> In m (generate_moves g all) -> nkc g m ->
  make_search_move g m = Made g' -> kings g'.
Proof. exact make_kings_generated. Qed.

(* without the side condition: at every position satisfying the invariant legal_inv (consistent, one king each, men on board squares,
   the side not to move not in check, right key) no generated move captures a king (attack symmetry, Proofs/AttackSym.v), so every
   made generated move leads to a position satisfying the invariant again; legal_inv_b is its executable form *)
Theorem C02_invariant_preserved : forall g all m g', legal_inv g -> In m (generate_moves g all) ->
  make_search_move g m = Made g' -> legal_inv g'.
Proof.
  intros g all m g' L HI M. apply (legal_step g all m g' L HI). unfold SearchChess.c_make. rewrite M. reflexivity.
Qed.
Theorem C02_invariant_executable : forall g, legal_inv_b g = true -> legal_inv g.
Proof. exact legal_inv_b_sound. Qed.

(* THE placement statement: for every position satisfying the invariant and every generated move that make_search_move accepts, the
   64-cell abstraction of the result is exactly the successor the rules prescribe (Spec.apply: piece placement incl. the rook hop,
   the removed pawn in en passant and the new piece in promotion; side to move; the four castling rights; en-passant target;
   half-move clock; full-move number).  The two clock hypotheses exclude the u8 / u16 wrap written out in C02_scalars. *)
Theorem C02_successor_is_the_rules_successor : forall g all m g',
  legal_inv g -> half g < 255 -> full g < 65535 -> In m (generate_moves g all) ->
  make_search_move g m = Made g' -> abs g' = ChessSpec.apply (abs g) (umove m).
Proof. exact make_is_spec_apply. Qed.

(* every generated move is well-formed for make_search_move *)
Theorem C02_generated_moves_well_formed : forall g all m, cons g -> In m (generate_moves g all) -> nkc g m -> move_ok g m.
Proof. intros g all m C H NK. exact (generated_moves_ok g C all m H NK). Qed.

(* without the clocks no bound is needed (this is the form C14 uses) *)
Theorem C02_successor_is_the_rules_successor_without_clocks : forall g all m g',
  legal_inv g -> In m (generate_moves g all) -> make_search_move g m = Made g' ->
  SpecCore.core (abs g') = SpecCore.core (ChessSpec.apply (abs g) (umove m)).
Proof. exact make_abs_core. Qed.

(* the property in one statement, for every position satisfying the invariant and every legal move: the made position is the rules'
   successor in all fields, the redundant sets are again consistent (invariant), and the side that just moved is not in check in
   the sense of the rules (ChessSpec.in_check on the abstraction) *)
Theorem C02_full : forall g m g', legal_inv g -> half g < 255 -> full g < 65535 ->
  In m (legal_moves g) -> make_search_move g m = Made g' ->
  abs g' = ChessSpec.apply (abs g) (umove m) /\ legal_inv g' /\
  ChessSpec.in_check (ChessSpec.board (abs g')) (ChessSpec.opp (ChessSpec.stm (abs g'))) = false.
Proof.
  intros g m g' LI HH HF HI M. unfold legal_moves, legal_values in HI. apply filter_In in HI. destruct HI as [HI _].
  assert (LI' : legal_inv g') by (apply (legal_step g true m g' LI HI); unfold SearchChess.c_make; rewrite M; reflexivity).
  split; [exact (make_is_spec_apply g true m g' LI HH HF HI M)|]. split; [exact LI'|].
  destruct LI' as (C' & KG' & R' & NK' & _). rewrite (AttackSpec.in_check_model g' _ C' R' KG').
  unfold NkProofs.nk in NK'. rewrite (stm_abs g'). destruct (white g'); exact NK'.
Qed.

Print Assumptions C02_scalars.
Print Assumptions C02_consistency.
Print Assumptions C02_consistency_pass.
Print Assumptions C02_one_king_each.
Print Assumptions C02_invariant_preserved.
Print Assumptions C02_invariant_executable.
Print Assumptions C02_successor_is_the_rules_successor.
Print Assumptions C02_generated_moves_well_formed.
Print Assumptions C02_successor_is_the_rules_successor_without_clocks.
Print Assumptions C02_full.
