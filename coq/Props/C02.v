(* C02 -- making a legal move yields exactly the rules-defined successor position.
   Proved for every position and every move that is made: side to move, half-move clock (with its u8 wrap written out),
   full-move number (u16 wrap written out), castling rights mask and en-passant target are exactly as the rules prescribe.
   Placement and the redundant sets (C02_full) are decided per run: the extracted monitor mon_make compares every successor
   the engine produces with Spec.apply and checks occupancy = unions / disjointness / one king each. *)
From Coq Require Import NArith List Bool.
From JV Require Import Gen.Consts Model.Bits Model.Chess Model.Abs Proofs.MakeProofs.
Local Open Scope N_scope.

Theorem C02_scalars : forall g m g', make_search_move g m = Made g' ->
  white g' = negb (white g) /\
  half g' = (if (mpiece m =? WP) || (mpiece m =? BP) || mcap m then 0 else (half g + 1) mod 256) /\
  full g' = (if white g then full g else (full g + 1) mod 65536) /\
  castling g' = N.land (castling g) (N.land (nthN CASTLING_RIGHTS (mto m)) (nthN CASTLING_RIGHTS (mfrom m))) /\
  ep g' = (if mdp m then (if white g then mto m + 8 else mto m - 8) else NOSQ).
Proof. exact make_scalars. Qed.

Definition C02_full : Prop := forall g m g', wf g = true -> (half g < 255) -> (full g < 65535) ->
  In m (legal_moves g) -> make_search_move g m = Made g' -> mon_make g m g' = true /\ wf g' = true.

Print Assumptions C02_scalars.
