(* C11 -- mate announcements are truthful in sign and distance (after fix 11cb996).
   Proved: the conversion from the internal score to the `score mate N` field: MATE_VALUE - p (side to move mates at ply p, p odd)
   prints N = (p+1)/2; -MATE_VALUE + p (side to move is mated at ply p, p even) prints N = -(p/2), in particular mated-next-move
   prints -1; scores inside +-MATE_BOUND print no mate field; the sign of N follows the sign of the score; and the TT re-bases mate
   scores so that "mate n plies below the storing node" comes back as "mate n plies below the probing node" (the C08 rebase theorems).
   That an announced mate can really be forced (incl. mate-in-one at depth >= 3, PV lengths) is decided per run by an exhaustive
   forced-mate solver extracted from the rules-of-chess specification (mate/mated in <= 2 moves) on mate positions.
   Honest limit (DESIGN.md): for depth >= 3 "announced mate => forced mate" is not a theorem of an engine with null-move pruning
   and a TT shared across histories; it is searched for counterexamples, not proved. *)
From Coq Require Import NArith ZArith List Lia.
From JV Require Import Gen.Consts Model.Chess Model.Eval Model.TT Model.Search Proofs.TTProofs Proofs.MateProofs Proofs.LegalInv Proofs.CountProofs Proofs.EvalReach Proofs.StartPos Model.SearchChess Model.Monitors Model.Abs Model.Sym Spec.ChessSpec Spec.Minimax Proofs.MateTruth Props.C19.
Local Open Scope Z_scope.

Theorem C11_conv_pos : forall p, 1 <= p < 1000 -> Z.odd p = true -> mate_field (MATE_VALUE - p) = Some ((p + 1) / 2).
Proof. exact mate_field_pos_odd. Qed.
Theorem C11_conv_neg : forall p, 0 <= p < 1000 -> mate_field (- MATE_VALUE + p) = Some (- (p / 2)).
Proof. exact mate_field_neg. Qed.
Theorem C11_mated_next_move : mate_field (- MATE_VALUE + 2) = Some (-1).
Proof. exact mated_next_move. Qed.
Theorem C11_conv_cp : forall s, - MATE_BOUND <= s <= MATE_BOUND -> mate_field s = None.
Proof. exact mate_field_cp. Qed.
Theorem C11_sign : forall s n, mate_field s = Some n -> (MATE_BOUND < s -> 1 <= n) /\ (s < - MATE_BOUND -> n <= 0).
Proof. exact mate_field_sign. Qed.
Theorem C11_tt_distance_mated : forall n p q, 0 <= n -> 0 <= p <= 63 -> 0 <= q <= 63 -> n + p <= 128 -> n + q <= 128 ->
  rebase (- MATE_VALUE + (p + n)) p q = - MATE_VALUE + (q + n).
Proof. exact rebase_mated. Qed.
Theorem C11_tt_distance_mating : forall n p q, 0 <= n -> 0 <= p <= 63 -> 0 <= q <= 63 -> n + p <= 128 -> n + q <= 128 ->
  rebase (MATE_VALUE - (p + n)) p q = MATE_VALUE - (q + n).
Proof. exact rebase_mating. Qed.
Theorem C11_pre_fix_refuted : mate_field_neg_pre_fix (- MATE_VALUE + 2) = -2.
Proof. exact pre_fix_mated_next_move. Qed.

(* a mate is never announced on the strength of a static evaluation: for every position satisfying the invariant with at most 16 men a
   side (every position reachable from the start position) the evaluation lies strictly inside +-MATE_BOUND (C16), so it prints as
   centipawns; a score in the mate range can only come from a checkmate verdict at a leaf of the search (-MATE_VALUE + ply) *)
Theorem C11_static_evaluation_never_prints_as_mate : forall g, legal_inv g -> men16 g -> mate_field (evaluate g) = None.
Proof. intros g L M. apply C11_conv_cp. pose proof (evaluate_bound_inv g L M). lia. Qed.
Theorem C11_static_evaluation_never_prints_as_mate_from_the_start_position : forall g, chess_reach start_game g -> mate_field (evaluate g) = None.
Proof. intros g R. apply C11_conv_cp. pose proof (evaluate_bound_from_start g R). lia. Qed.

(* TRUTHFULNESS on the exact-search domain.  The value of the reference game tree (what a search of depth 1-2 with the table bypassed
   returns: C19) is, for every position satisfying the invariant with at most 16 men a side, of exactly one of three kinds: inside
   +-34200 (printed as centipawns), MATE_VALUE - (2n-1) with the side to move able to force mate within n moves under the rules
   (ChessSpec.mates_in n), or -MATE_VALUE + 2n with the side to move mated within n moves whatever it plays (ChessSpec.mated_in n); and the
   printed field is +n / -n accordingly.  (Proofs/MateTruth.v: evaluation bound + exact generation + successor refinement + verdicts.) *)
Theorem C11_exact_values_are_truthful : forall g depth, legal_inv g -> men16 g ->
  let v := minimax g depth in
  (Z.abs v <= 34200 /\ mate_field v = None) \/
  (exists n, (1 <= n)%nat /\ v = MATE_VALUE - Z.of_nat (2 * n - 1) /\ mate_field v = Some (Z.of_nat n) /\ mates_in n (abs g) = true) \/
  (exists n, v = - MATE_VALUE + Z.of_nat (2 * n) /\ mate_field v = Some (- Z.of_nat n) /\ mated_in n (abs g) = true).
Proof. exact exact_value_is_truthful. Qed.

(* hence every mate announcement of a search of depth 1-2 with the table bypassed and an empty history, never told to stop, is true *)
Theorem C11_announcements_of_exact_searches_are_truthful : forall pollp g depth t rt outs e s sc N (d : nat) nd pv,
  legal_inv g -> men16 g ->
  chess_search pollp (fun _ => false) true g depth t rt 0 = SDone outs e s ->
  In (OInfo sc (Some N) d nd pv) outs -> (d <= 2)%nat ->
  (0 < N -> mates_in (Z.to_nat N) (abs g) = true) /\ (N <= 0 -> mated_in (Z.to_nat (- N)) (abs g) = true).
Proof.
  intros pollp g depth t rt outs e s sc N d nd pv LI M H Hin Hd.
  pose proof (C19_printed_scores pollp g depth t rt outs e s sc (Some N) d nd pv H Hin Hd) as SC.
  pose proof (search_mate_fields pollp (fun _ => false) true g depth t rt 0%nat outs e s H) as MF. rewrite Forall_forall in MF. specialize (MF _ Hin). cbn [mate_ok] in MF.
  destruct (exact_value_is_truthful g (N.of_nat d) LI M) as [(_ & X)|[(n & K1 & _ & X & K)|(n & _ & X & K)]]; cbn zeta in X; rewrite <- SC in X; rewrite X in MF.
  - discriminate MF.
  - injection MF as ->. split; [intros _; rewrite Nat2Z.id; exact K|lia].
  - injection MF as ->. split; [lia|intros _]. replace (- - Z.of_nat n) with (Z.of_nat n) by lia. rewrite Nat2Z.id. exact K.
Qed.

Print Assumptions C11_conv_pos.
Print Assumptions C11_conv_neg.
Print Assumptions C11_sign.
Print Assumptions C11_exact_values_are_truthful.
Print Assumptions C11_announcements_of_exact_searches_are_truthful.
Print Assumptions C11_static_evaluation_never_prints_as_mate.
Print Assumptions C11_static_evaluation_never_prints_as_mate_from_the_start_position.
