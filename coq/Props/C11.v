(* C11 -- mate announcements are truthful in sign and distance (after fix 11cb996).
   Proved: the conversion from the internal score to the `score mate N` field: MATE_VALUE - p (side to move mates at ply p, p odd)
   prints N = (p+1)/2; -MATE_VALUE + p (side to move is mated at ply p, p even) prints N = -(p/2), in particular mated-next-move
   prints -1; scores inside +-MATE_BOUND print no mate field; the sign of N follows the sign of the score; and the TT re-bases mate
   scores so that "mate n plies below the storing node" comes back as "mate n plies below the probing node" (the C08 rebase theorems).
   That an announced mate can really be forced (incl. mate-in-one at depth >= 3, PV lengths) is decided per run by an exhaustive
   forced-mate solver extracted from the rules-of-chess specification (mate/mated in <= 2 moves) on mate positions.
   Honest limit (DESIGN.md): for depth >= 3 "announced mate => forced mate" is not a theorem of an engine with null-move pruning
   and a TT shared across histories; it is searched for counterexamples, not proved. *)
From Coq Require Import ZArith.
From JV Require Import Gen.Consts Model.TT Model.Search Proofs.TTProofs Proofs.MateProofs.
Local Open Scope Z_scope.

Theorem C11_conv_pos : forall p, 1 <= p < 1000 -> Z.odd p = true -> mate_field (MATE_VALUE - p) = Some ((p + 1) / 2).
Proof. exact mate_field_pos_odd. Qed.
Theorem C11_conv_neg : forall p, 0 <= p < 1000 -> mate_field (- MATE_VALUE + p) = Some (- (p / 2)).
Proof. exact mate_field_neg. Qed.
Theorem C11_mated_next_move : mate_field (- MATE_VALUE + 2) = Some (-1).
Proof. exact mated_next_move. Qed.
Theorem C11_conv_cp : forall s, - MATE_BOUND <= s <= MATE_BOUND -> mate_field s = None.
Proof. exact mate_field_cp. Qed.
Theorem C11_sign : forall s n, mate_field s = Some n -> (MATE_BOUND < s -> 1 <= n) /\ (s < - MATE_BOUND -> n <= 0).
Proof. exact mate_field_sign. Qed.
Theorem C11_tt_distance_mated : forall n p q, 0 <= n -> 0 <= p <= 63 -> 0 <= q <= 63 -> n + p <= 128 -> n + q <= 128 ->
  rebase (- MATE_VALUE + (p + n)) p q = - MATE_VALUE + (q + n).
Proof. exact rebase_mated. Qed.
Theorem C11_tt_distance_mating : forall n p q, 0 <= n -> 0 <= p <= 63 -> 0 <= q <= 63 -> n + p <= 128 -> n + q <= 128 ->
  rebase (MATE_VALUE - (p + n)) p q = MATE_VALUE - (q + n).
Proof. exact rebase_mating. Qed.
Theorem C11_pre_fix_refuted : mate_field_neg_pre_fix (- MATE_VALUE + 2) = -2.
Proof. exact pre_fix_mated_next_move. Qed.

Print Assumptions C11_conv_pos.
Print Assumptions C11_conv_neg.
Print Assumptions C11_sign.
