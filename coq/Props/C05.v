(* C05 -- `position` (FEN and move list) reconstructs the exact game state (after fix 49080c5).
   Proved for every position and every token: `position ... moves` accepts a token exactly when some legal move prints as that
   token, and the accepted move is legal and prints as the token; UCI strings determine (from, to, promotion kind), so within one
   position (one colour to move) no two legal moves with different (from,to,kind) share a string; whenever a `position` command is
   accepted, the recorded history is the key of the base position followed by the key of every position of the game, in order,
   and the resulting game is the last of them.
   FEN texts: C05_fen_text_is_parsed_exactly (every text whose fields describe g parses to exactly g).  Also per run, incl. `d`: generated legal positions -> FEN text
   (independent printer) -> the real parser -> all 18 fields; move lists of generated games -> final fields + history keys;
   acceptance / rejection of mutated move strings; the `d` display through the real main loop. *)
From Coq Require Import NArith ZArith List Bool String Ascii.
From JV Require Import Gen.Consts Model.Bits Model.Chess Model.SearchChess Model.Fen Model.Abs Proofs.FenProofs Proofs.UciProofs Proofs.LegalInv Proofs.RulesUci Proofs.StartPos Proofs.PositionInv Proofs.GenProofs Proofs.RangeProofs Proofs.ZobristProofs Proofs.ConsProofs Proofs.CellProofs Model.FenSyntax Proofs.FenBoard Proofs.FenText Proofs.FenDecide.
Import ListNotations.

Theorem C05_accepts_only_legal : forall g tok m, parse_move g tok = Some m -> In m (legal_moves g) /\ to_uci m = tok.
Proof. exact parse_move_sound. Qed.
Theorem C05_accepts_every_legal : forall g tok m, In m (legal_moves g) -> to_uci m = tok ->
  exists m', parse_move g tok = Some m' /\ to_uci m' = tok.
Proof. exact parse_move_complete. Qed.
Theorem C05_rejects_everything_else : forall g tok, (forall m, In m (legal_moves g) -> to_uci m <> tok) -> parse_move g tok = None.
Proof. exact parse_move_rejects. Qed.

Theorem C05_uci_injective : forall m1 m2,
  (mfrom m1 < 64)%N -> (mto m1 < 64)%N -> In (mpromo m1) promo_pieces -> (mfrom m2 < 64)%N -> (mto m2 < 64)%N -> In (mpromo m2) promo_pieces ->
  to_uci m1 = to_uci m2 -> mfrom m1 = mfrom m2 /\ mto m1 = mto m2 /\ promo_kind_n (mpromo m1) = promo_kind_n (mpromo m2).
Proof. exact uci_injective. Qed.

(* at the level of the rules, for every position satisfying the invariant (through C01): no two legal moves of a position share a
   string; a token is accepted exactly when it is the string of a legal move, the accepted move being that move; the accepted
   moves are exactly the legal moves of the rules *)
Theorem C05_legal_moves_have_distinct_strings : forall g x y, legal_inv g -> In x (legal_moves g) -> In y (legal_moves g) ->
  to_uci x = to_uci y -> x = y.
Proof. exact uci_distinct. Qed.
Theorem C05_acceptance_is_exact : forall g tok m, legal_inv g -> (parse_move g tok = Some m <-> In m (legal_moves g) /\ to_uci m = tok).
Proof. exact parse_move_exact. Qed.
Theorem C05_accepted_move_is_legal_under_the_rules : forall g tok m, legal_inv g -> parse_move g tok = Some m ->
  In (umove m) (ChessSpec.legal_moves (abs g)).
Proof. exact accepted_token_is_rules_legal. Qed.
Theorem C05_every_legal_move_of_the_rules_is_accepted : forall g sm, legal_inv g -> In sm (ChessSpec.legal_moves (abs g)) ->
  exists m, umove m = sm /\ parse_move g (to_uci m) = Some m.
Proof. exact rules_legal_has_accepted_token. Qed.

(* every position the engine is put into by `position startpos [moves ...]` is reachable from the start position by accepted generated
   moves and satisfies the invariant -- so the theorems stated under legal_inv (C01, C02, C03, C06, C12, C14, C16 ...) apply to every
   position of every game; the same for `position fen F moves ...` when the position F describes satisfies it *)
Theorem C05_startpos_games_stay_inside_the_invariant : forall args g rep, List.hd EmptyString (split_sp args) = "startpos"%string ->
  parse_position args = FOk (g, rep) -> chess_reach start_game g /\ legal_inv g.
Proof. intros args g rep HD H. split; [exact (position_startpos_reachable args g rep HD H)|exact (position_startpos_inv args g rep HD H)]. Qed.
Theorem C05_moves_preserve_the_invariant : forall toks g rep g' rep', legal_inv g -> play_moves g rep toks = FOk (g', rep') -> legal_inv g'.
Proof. exact play_moves_inv. Qed.

(* FEN texts: for EVERY text  board " " side " " rights " " ep " " halfmove " " fullmove  whose six fields describe a position g with
   consistent sets, men on board squares, a right key and rights below 16 -- any well-formed board text with g's cells (piece letters,
   digits 1..8 splitting the empty runs any way, slashes), "w"/"b", any space-free rights text containing exactly the letters of g's
   rights, "-" or a text square_from_string reads as g's en-passant square, decimal texts of the clocks -- Game::new_from_fen returns
   exactly g: all six fields, the redundant occupancy sets and the key.  (Quantified over the texts; Proofs/FenBoard.v, FenText.v.) *)
Theorem C05_fen_text_is_parsed_exactly : forall g tl cs es hs fs,
  cons g -> range g -> keyok g -> (castling g < 16)%N ->
  forallb tok_ok tl = true -> expand tl = map (who (st_of g)) (seqN 0 64) ->
  nospace cs = true ->
  contains_char cs "K"%char = N.testbit (castling g) 0 -> contains_char cs "Q"%char = N.testbit (castling g) 1 ->
  contains_char cs "k"%char = N.testbit (castling g) 2 -> contains_char cs "q"%char = N.testbit (castling g) 3 ->
  nospace es = true -> ((es = "-"%string /\ ep g = NOSQ) \/ (String.eqb es "-" = false /\ square_from_string es = Some (ep g))) ->
  parse_uint 256 hs = Some (half g) -> parse_uint 65536 fs = Some (full g) ->
  new_from_fen (render tl ++ " " ++ (if white g then "w" else "b") ++ " " ++ cs ++ " " ++ es ++ " " ++ hs ++ " " ++ fs)%string = FOk g.
Proof. exact fen_text_parses. Qed.
(* the same with an executable hypothesis: fen_describes g F (Model/FenSyntax.v) decides "F has six blank-separated fields that describe
   g, and g satisfies the executable invariant"; the check evaluates it on every FEN text it feeds to the engine *)
Theorem C05_fen_describes_sound : forall g F, fen_describes g F = true -> new_from_fen F = FOk g.
Proof. exact fen_describes_sound. Qed.
(* the board field alone, for every board text *)
Theorem C05_board_text_is_parsed_exactly : forall g, cons g -> range g -> forall tl,
  forallb tok_ok tl = true -> expand tl = map (who (st_of g)) (seqN 0 64) ->
  board_fold (render tl) (repeat 0%N 12, 0%N, 0%N, 0%N, 0%N) = Some (bbs g, wocc g, bocc g, aocc g, 64%N).
Proof. exact board_text_parses. Qed.
(* not vacuous: the start position's standard text is such a text *)
Theorem C05_start_fen_is_such_a_text :
  start_fen = (render start_tokens ++ " " ++ "w" ++ " " ++ "KQkq" ++ " " ++ "-" ++ " " ++ "0" ++ " " ++ "1")%string /\
  forallb tok_ok start_tokens = true /\ expand start_tokens = map (who (st_of start_game)) (seqN 0 64) /\
  parse_uint 256 "0" = Some (half start_game) /\ parse_uint 65536 "1" = Some (full start_game) /\ castling start_game = 15%N.
Proof. exact start_fen_is_such_a_text. Qed.

Theorem C05_history_recorded : forall args g rep,
  parse_position args = FOk (g, rep) -> exists base ps, rep = hash base :: map hash ps /\ g = last ps base.
Proof. exact parse_position_history. Qed.

Theorem C05_moves_history : forall toks g rep g' rep',
  play_moves g rep toks = FOk (g', rep') ->
  exists ps, positions_after g toks = Some ps /\ rep' = (rep ++ map hash ps)%list /\ g' = last ps g.
Proof. exact play_moves_history. Qed.

Print Assumptions C05_accepts_only_legal.
Print Assumptions C05_accepts_every_legal.
Print Assumptions C05_uci_injective.
Print Assumptions C05_legal_moves_have_distinct_strings.
Print Assumptions C05_acceptance_is_exact.
Print Assumptions C05_accepted_move_is_legal_under_the_rules.
Print Assumptions C05_every_legal_move_of_the_rules_is_accepted.
Print Assumptions C05_history_recorded.
Print Assumptions C05_fen_text_is_parsed_exactly.
Print Assumptions C05_fen_describes_sound.
Print Assumptions C05_board_text_is_parsed_exactly.
Print Assumptions C05_start_fen_is_such_a_text.
Print Assumptions C05_startpos_games_stay_inside_the_invariant.
Print Assumptions C05_moves_preserve_the_invariant.

(* ------------------------------------------------------------------ at the level of the main loop (Model/Uci.v) *)
From JV Require Import Model.Uci Props.C03 Props.C17.
(* in every state a session reaches the recorded game history is either empty (fresh engine, after ucinewgame) or ends with the key of the
   current position: `position` records the base position and one key per move, `move` appends one key per move, searches and the inspecting
   commands touch neither the position nor the history -- so the position a `go` searches is always the newest entry of its own history, with
   the right key (the key part of the invariant: C04 at the level of the main loop) *)
Definition history_tracks_position (u : ustate) : Prop := u_rep u = [] \/ List.last (u_rep u) 0%N = hash (u_game u).

Lemma last_map_hash (ps : list game) g : ps <> [] -> List.last (map hash ps) 0%N = hash (List.last ps g).
Proof.
  induction ps as [|p r IH]; intros NE; [contradiction|]. destruct r as [|q r]; [reflexivity|].
  change (List.last (map hash (p :: q :: r)) 0%N) with (List.last (map hash (q :: r)) 0%N).
  change (List.last (p :: q :: r) g) with (List.last (q :: r) g). apply IH. discriminate.
Qed.
Lemma last_app_ne {A} (l1 l2 : list A) d : l2 <> [] -> List.last (l1 ++ l2)%list d = List.last l2 d.
Proof.
  intros NE. induction l1 as [|x l1 IH]; [reflexivity|]. cbn [app]. destruct (l1 ++ l2)%list as [|a l] eqn:E.
  - destruct l1, l2; try discriminate; contradiction.
  - cbn [List.last]. exact IH.
Qed.

Theorem C05_main_loop_history_tracks_the_position : forall extra dl u line input,
  history_tracks_position u ->
  let '(u', _, _, _, _) := uci_step extra dl u line input in history_tracks_position u'.
Proof.
  intros extra dl u line input HT.
  set (cmd := lower_str (first_token (trim line))).
  destruct (String.eqb_spec cmd "position") as [EP|NP].
  { unfold uci_step. cbv zeta. destruct (String.eqb (trim line) ""); [exact HT|]. fold cmd. rewrite EP. cbn [String.eqb Ascii.eqb Bool.eqb orb].
    destruct (negb _); [exact HT|].
    destruct (parse_position (skip 9 (trim line))) as [[g rep]| |] eqn:PP; try exact HT.
    right. cbn [u_rep u_game]. destruct (parse_position_history _ g rep PP) as (base & ps & -> & ->).
    destruct ps as [|p r]; [reflexivity|].
    change (List.last (hash base :: map hash (p :: r)) 0%N) with (List.last (map hash (p :: r)) 0%N). apply last_map_hash. discriminate. }
  destruct (String.eqb_spec cmd "move") as [EM|NM].
  { unfold uci_step. cbv zeta. destruct (String.eqb (trim line) ""); [exact HT|]. fold cmd. rewrite EM. cbn [String.eqb Ascii.eqb Bool.eqb orb].
    destruct (play_moves (u_game u) (u_rep u) (rest_tokens (trim line))) as [[g rep]| |] eqn:PM; try exact HT.
    cbn [u_rep u_game]. unfold history_tracks_position. cbn [u_rep u_game].
    destruct (play_moves_history _ _ _ _ _ PM) as (ps & _ & -> & ->).
    destruct ps as [|p r]; [rewrite app_nil_r; exact HT|].
    right. rewrite last_app_ne by discriminate. apply last_map_hash. discriminate. }
  destruct (String.eqb_spec cmd "ucinewgame") as [EU|NU].
  { unfold uci_step. cbv zeta. destruct (String.eqb (trim line) ""); [exact HT|]. fold cmd. rewrite EU. cbn [String.eqb Ascii.eqb Bool.eqb orb]. left. reflexivity. }
  destruct (String.eqb_spec cmd "cleartt") as [EC|NC].
  { unfold uci_step. cbv zeta. destruct (String.eqb (trim line) ""); [exact HT|]. fold cmd. rewrite EC. cbn [String.eqb Ascii.eqb Bool.eqb orb]. left. reflexivity. }
  pose proof (C17_inspecting_commands_keep_position_and_history extra dl u line input NP NU NC NM) as K.
  destruct (uci_step extra dl u line input) as [[[[u' o] rq] i'] st]. destruct K as (K1 & K2).
  unfold history_tracks_position. rewrite K1, K2. exact HT.
Qed.

Theorem C05_every_session_state_tracks_its_position : forall extra u, session_state extra u ->
  history_tracks_position u /\ hash (u_game u) = make_zobrist_hash (u_game u).
Proof.
  intros extra u H. split.
  - induction H as [|dl u line input u' outs rq input' st _ IH OK E]; [left; reflexivity|].
    pose proof (C05_main_loop_history_tracks_the_position extra dl u line input IH) as K. rewrite E in K. exact K.
  - destruct (C03_every_session_state_holds_a_legal_position extra u H) as (_ & _ & _ & _ & K). exact K.
Qed.

Print Assumptions C05_main_loop_history_tracks_the_position.
Print Assumptions C05_every_session_state_tracks_its_position.
