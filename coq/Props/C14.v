(* C14 -- perft counts are exact and independent of the thread count.
   Proved for all positions and depths: the count does not depend on the reduction schedule (any order, any bracketing of the
   per-move sub-counts -- which is all rayon's sum may vary), and the bulk count at depth 1 equals the make-path count.
   Exactness w.r.t. the rules (C14_full) is proved for every position satisfying the invariant (Proofs/PerftExact.v, from C01's
   exactness and C02's successor refinement); the extracted Spec.perft is applied to the engine's counts on every run (the tie). *)
From Coq Require Import NArith ZArith List Permutation.
From JV Require Import Model.Chess Model.Abs Model.SearchChess Spec.ChessSpec Proofs.MoveGenProofs Proofs.PerftProofs Proofs.LegalInv Proofs.LegalInvB Proofs.PerftExact Proofs.StartPos Model.Fen Model.Uci Proofs.UciLoopProofs.
Import ListNotations.
Local Open Scope N_scope.

Theorem C14_any_schedule : forall k g t,
  Permutation (leaves t) (map (sub_count (S k) g) (generate_moves g true)) -> reduce t = Chess.perft (S (S k)) g.
Proof. exact perft_any_schedule. Qed.

Theorem C14_schedule_free_sum : forall t counts, Permutation (leaves t) counts -> reduce t = sumN counts.
Proof. exact any_schedule_same_sum. Qed.

Theorem C14_depth1_paths_agree : forall g, Chess.perft 1 g = N.of_nat (length (filter (made g) (generate_moves g true))).
Proof. exact perft1_by_make. Qed.

(* exactness w.r.t. the rules: for every position satisfying the invariant and every depth >= 1 the sequential count is the number
   of legal move sequences of that length (ChessSpec.perft over the rules' legal_moves / apply); no bound on the clocks *)
Theorem C14_perft_is_exact : forall k g, legal_inv g -> Z.of_N (Chess.perft (S k) g) = ChessSpec.perft (S k) (abs g).
Proof. exact perft_exact. Qed.
Theorem C14_full : forall d g, legal_inv g -> (1 <= d)%N -> Z.of_N (perft_n d g) = spec_perft d g.
Proof. exact perft_n_exact. Qed.
Theorem C14_full_executable_hypothesis : forall d g, legal_inv_b g = true -> (1 <= d)%N -> Z.of_N (perft_n d g) = spec_perft d g.
Proof. intros d g H. apply perft_n_exact. apply legal_inv_b_sound. exact H. Qed.
Theorem C14_full_from_the_start_position : forall d g, chess_reach start_game g -> (1 <= d)%N -> Z.of_N (perft_n d g) = spec_perft d g.
Proof. intros d g H. apply perft_n_exact. apply reachable_from_start_inv. exact H. Qed.
(* together with C14_any_schedule: whatever order and bracketing the parallel reduction uses, the result is the rules' count *)
Theorem C14_any_schedule_is_exact : forall k g t, legal_inv g ->
  Permutation (leaves t) (map (sub_count (S k) g) (generate_moves g true)) -> Z.of_N (reduce t) = ChessSpec.perft (S (S k)) (abs g).
Proof. intros k g t LI P. rewrite (perft_any_schedule k g t P). apply perft_exact. exact LI. Qed.

From Coq Require Import String.
(* at the console: the `perft N` command (N >= 1) of the main loop leaves the engine state alone and reports, for every position satisfying the
   invariant, the rules' count; the per-move lines it prints for N >= 2 add up to that total *)
Theorem C14_perft_command_reports_the_rules_count : forall extra dl u line input t r d,
  legal_inv (u_game u) ->
  Fen.trim line <> EmptyString -> lower_str (first_token (Fen.trim line)) = "perft"%string -> rest_tokens (Fen.trim line) = t :: r ->
  t <> "simple"%string -> parse_uint 256 t = Some d -> (1 <= d)%N ->
  exists lines total,
    uci_step extra dl u line input = (u, [OPerft d lines total], None, input, Continue) /\
    Z.of_N total = spec_perft d (u_game u) /\ ((2 <= d)%N -> sumN (map snd lines) = total).
Proof.
  intros extra dl u line input t r d LI NE CM RT NS PU D.
  exists (perft_lines d (u_game u)), (perft_n d (u_game u)). split; [|split].
  - exact (step_perft extra dl u line input t r d NE CM RT NS PU D).
  - apply perft_n_exact; assumption.
  - apply perft_lines_sum.
Qed.

Print Assumptions C14_any_schedule.
Print Assumptions C14_perft_command_reports_the_rules_count.
Print Assumptions C14_depth1_paths_agree.
Print Assumptions C14_perft_is_exact.
Print Assumptions C14_full.
Print Assumptions C14_full_executable_hypothesis.
Print Assumptions C14_full_from_the_start_position.
Print Assumptions C14_any_schedule_is_exact.
