(* C14 -- perft counts are exact and independent of the thread count.
   Proved for all positions and depths: the count does not depend on the reduction schedule (any order, any bracketing of the
   per-move sub-counts -- which is all rayon's sum may vary), and the bulk count at depth 1 equals the make-path count.
   Exactness w.r.t. the rules (C14_full) is decided per run by the extracted Spec.perft on the engine's counts. *)
From Coq Require Import NArith ZArith List Permutation.
From JV Require Import Model.Chess Model.Abs Proofs.MoveGenProofs Proofs.PerftProofs.
Local Open Scope N_scope.

Theorem C14_any_schedule : forall k g t,
  Permutation (leaves t) (map (sub_count (S k) g) (generate_moves g true)) -> reduce t = perft (S (S k)) g.
Proof. exact perft_any_schedule. Qed.

Theorem C14_schedule_free_sum : forall t counts, Permutation (leaves t) counts -> reduce t = sumN counts.
Proof. exact any_schedule_same_sum. Qed.

Theorem C14_depth1_paths_agree : forall g, perft 1 g = N.of_nat (length (filter (made g) (generate_moves g true))).
Proof. exact perft1_by_make. Qed.

Definition C14_full : Prop := forall g d, wf g = true -> (1 <= d)%nat -> Z.of_N (perft d g) = spec_perft (N.of_nat d) g.

Print Assumptions C14_any_schedule.
Print Assumptions C14_depth1_paths_agree.
