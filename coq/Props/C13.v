(* C13 -- UCI liveness: every command is answered, none is lost, quit/EOF terminate
   (after fixes 8ff4e2c bare go, 0de86eb EOF = quit, b1eb103 poll dispatch, ac47405 depth > 127 in /repo).
   Model: the main loop as a state machine over input lines whose arrival relative to the running search's polls is part of the
   input (Model/Uci.v).  Proved for every engine state, every remaining input and every timing:
     - `uci` is answered with uciok, `isready` (idle) with readyok, `quit` exits, `ucinewgame` clears TT and history;
     - a line that arrives during a search: `isready` is answered in place and does NOT stop the search; `stop` stops it;
       every other line stops the search and is handed back to the main loop (not lost); nothing behind it is touched;
       the number of readyok printed during a search equals the number of isready lines taken;
     - every session comes to an end: with end of input delivered as `quit`, the loop ends by Exit (or a Rust panic on malformed input),
       never by starvation -- for every command sequence and every timing;
     - every modelled `go` line is answered, in the loop model, with exactly one bestmove, the last line of the answer
       (C13_go_answered_with_exactly_one_bestmove).
   Threads, the OS pipe and wall-clock promptness cannot be exhibited by a Gallina model (runtime, sampled by black-box runs through a
   real pipe); the session model is tied to the real main loop by scripted sessions with deterministic arrival of lines. *)
From Coq Require Import NArith ZArith List Bool String Lia.
From JV Require Import Gen.Consts Model.Chess Model.TT Model.Search Model.SearchChess Model.Fen Model.Go Model.Uci Model.Eval Proofs.UciLoopProofs Proofs.LegalInv Props.C03.
Import ListNotations.
Local Open Scope string_scope.

Theorem C13_uciok : forall extra dl u input,
  uci_step extra dl u "uci" input = (u, [OText "id name JENCE"; OText "id author Joachim Enggaard Nebel"; OText "uciok"], None, input, Continue).
Proof. exact step_uci. Qed.
Theorem C13_readyok_idle : forall extra dl u input, uci_step extra dl u "isready" input = (u, [OText "readyok"], None, input, Continue).
Proof. exact step_isready. Qed.
Theorem C13_quit_exits : forall extra dl u input, uci_step extra dl u "quit" input = (u, [OText " Exited!"], None, input, Exit).
Proof. exact step_quit. Qed.
Theorem C13_ucinewgame : forall extra dl u input,
  uci_step extra dl u "ucinewgame" input = (mkU (u_game u) (clear (u_tt u)) [], [], None, input, Continue).
Proof. exact step_ucinewgame. Qed.

Theorem C13_isready_does_not_stop : poll_dispatch "isready" = PReady.
Proof. exact poll_isready. Qed.
Theorem C13_other_lines_are_handed_back : forall l, l <> "isready" -> l <> "" -> l <> "stop" -> poll_dispatch l = PUnread.
Proof. exact poll_other. Qed.

Theorem C13_polls_take_a_prefix : forall fuel input at_ np n s rest,
  poll_schedule input at_ np fuel = (n, s, rest) ->
  exists taken, input = (taken ++ rest)%list /\
    (s = None -> Forall (fun dl => poll_dispatch (trim (snd dl)) = PReady \/ poll_dispatch (trim (snd dl)) = PIgnore) taken) /\
    (forall k b, s = Some (k, b) -> exists pre last, taken = (pre ++ [last])%list /\
        Forall (fun dl => poll_dispatch (trim (snd dl)) = PReady \/ poll_dispatch (trim (snd dl)) = PIgnore) pre /\
        poll_dispatch (trim (snd last)) = (if b then PUnread else PStop)).
Proof. exact poll_schedule_suffix. Qed.

Theorem C13_one_readyok_per_isready_during_search : forall fuel input at_ np n s rest,
  poll_schedule input at_ np fuel = (n, s, rest) ->
  n = List.length (filter (fun dl => match poll_dispatch (trim (snd dl)) with PReady => true | _ => false end)
                          (firstn (List.length input - List.length rest) input)).
Proof. exact poll_schedule_ready_count. Qed.

Theorem C13_terminates : forall extra dls input, snd (uci_session extra dls input) <> Continue.
Proof. exact uci_session_ends. Qed.

Definition is_best (o : uout) : bool := match o with OSearchOut (OBest _) => true | _ => false end.

Lemma filter_map_none {A} (f : A -> uout) (P : uout -> bool) l : (forall x, P (f x) = false) -> filter P (map f l) = [].
Proof. intros H. induction l as [|x l IH]; [reflexivity|]. cbn [map filter]. rewrite H. exact IH. Qed.
Lemma filter_repeat_none (P : uout -> bool) o n : P o = false -> filter P (repeat o n) = [].
Proof. intros H. induction n as [|n IH]; [reflexivity|]. cbn [repeat filter]. rewrite H. exact IH. Qed.

(* at the level of the main loop: every `go` line whose arguments parse -- depth-limited, infinite, bare, or with any time budget, the deadline being
   seen by whichever poll the oracle `dl` names -- whatever the engine state, the remaining input and its timing -- is answered
   with the lines of one search: readyok for the isready lines taken meanwhile, info lines, and exactly one bestmove, which is the last line *)
Theorem C13_go_answered_with_exactly_one_bestmove : forall extra dl u line input a msgs,
  lower_str (first_token (trim line)) = "go" -> trim line <> "" ->
  go_tokens (white (u_game u)) go_init (split_sp (skip 2 (trim line))) [] (S (String.length (trim line))) = GoArgs a msgs ->
  let '(_, outs, _, _, st) := uci_step extra dl u line input in
  st = Continue /\ List.length (filter is_best outs) = 1%nat /\ exists pre m, outs = (pre ++ [OSearchOut (OBest m)])%list.
Proof.
  intros extra dl u line input a msgs CMD NE GT. unfold uci_step. cbn zeta.
  destruct (String.eqb_spec (trim line) "") as [E|_]; [contradiction|]. rewrite CMD.
  change (String.eqb "go" "quit" || String.eqb "go" "exit" || String.eqb "go" "x")%bool with false. cbn iota.
  change (String.eqb "go" "uci") with false. change (String.eqb "go" "isready") with false.
  change (String.eqb "go" "ucinewgame" || String.eqb "go" "cleartt")%bool with false. change (String.eqb "go" "d") with false.
  change (String.eqb "go" "eval") with false. change (String.eqb "go" "position") with false. change (String.eqb "go" "go") with true. cbn iota.
  rewrite GT.
  unfold session_search.
  match goal with |- context [chess_search ?p ?s ?b ?g ?d ?t ?rt ?ri] => destruct (C03_exactly_one_bestmove p s b g d t rt ri) as (infos & m & e & sc & H & FI) end.
  rewrite H.
  assert (FIN : forall (nready : nat),
      List.length (filter is_best (map OText msgs ++ repeat (OText "readyok") nready ++ map OSearchOut (infos ++ [OBest m]))%list) = 1%nat /\
      exists pre m0, (map OText msgs ++ repeat (OText "readyok") nready ++ map OSearchOut (infos ++ [OBest m]))%list = (pre ++ [OSearchOut (OBest m0)])%list).
  { intros nready. split.
    - rewrite !filter_app. rewrite (filter_map_none OText) by reflexivity. rewrite filter_repeat_none by reflexivity.
      rewrite map_app, filter_app. cbn [map filter is_best app length].
      assert (Z : filter is_best (map OSearchOut infos) = []).
      { clear -FI. induction infos as [|x l IH]; [reflexivity|]. cbn [map filter]. inversion FI as [|? ? Hx Hl]; subst.
        destruct x; [cbn [is_best]; apply IH; exact Hl|destruct Hx]. }
      rewrite Z. reflexivity.
    - exists (map OText msgs ++ repeat (OText "readyok") nready ++ map OSearchOut infos)%list, m. rewrite map_app. cbn [map]. rewrite <- !app_assoc. reflexivity. }
  destruct (poll_schedule input 0 _ (List.length input)) as [[nready stopper] rest]. split; [reflexivity|apply FIN].
Qed.

(* a line a poll hands back (anything but isready / stop / an empty line arriving during a search) is the very next line the main loop
   executes, before anything else of the input: it is not lost *)
Theorem C13_handed_back_line_is_executed_next : forall extra dls f u l input,
  uci_run extra dls (S f) u (Some l) input =
  (let '(u', outs, rq, input', st) := uci_step extra (List.hd O dls) u l input in
   match st with
   | Continue => let '(outs', st') := uci_run extra (List.tl dls) f u' rq input' in ((outs ++ outs')%list, st')
   | _ => (outs, st)
   end).
Proof. reflexivity. Qed.
(* ... and a `stop` taken by a poll is consumed by it: the line that follows it is the first of what is left for the main loop *)
Theorem C13_line_after_stop_is_not_lost : forall fuel input at_ np n k rest,
  poll_schedule input at_ np fuel = (n, Some (k, false), rest) ->
  exists pre d l, input = (pre ++ (d, l) :: rest)%list /\ poll_dispatch (trim l) = PStop.
Proof.
  intros fuel input at_ np n k rest H. destruct (poll_schedule_suffix _ _ _ _ _ _ _ H) as (taken & E & _ & Q).
  destruct (Q k false eq_refl) as (pre & [d l] & T & _ & D). exists pre, d, l. split; [|exact D].
  rewrite E, T, <- app_assoc. reflexivity.
Qed.

(* ------------------------------------------------------------------ whole sessions *)
(* the lines the main loop executes, each with the state it is executed in (the same recursion as uci_run) *)
Fixpoint uci_exec (extra : N) (dls : list nat) (fuel : nat) (u : ustate) (pending : option string) (input : list (nat * string)) : list (ustate * string) :=
  match fuel with
  | O => []
  | S f =>
    let next : option (string * list (nat * string)) :=
      match pending with
      | Some l => Some (l, input)
      | None => match input with (_, l) :: r => Some (l, r) | [] => None end
      end in
    match next with
    | None => []
    | Some (l, input') =>
      let '(u', outs, requeue, input'', st) := uci_step extra (List.hd O dls) u l input' in
      (u, l) :: match st with Continue => uci_exec extra (List.tl dls) f u' requeue input'' | _ => [] end
    end
  end.

(* a `go` whose arguments parse (any depth, any time budget) *)
Definition answerable_go (ul : ustate * string) : bool :=
  let line := trim (snd ul) in
  negb (String.eqb line "") && String.eqb (lower_str (first_token line)) "go" &&
  match go_tokens (white (u_game (fst ul))) go_init (split_sp (skip 2 line)) [] (S (String.length line)) with
  | GoArgs _ _ => true
  | _ => false
  end.
Definition count_best (outs : list uout) : nat := List.length (filter is_best outs).

Lemma count_best_app a b : count_best (a ++ b)%list = (count_best a + count_best b)%nat.
Proof. unfold count_best. rewrite filter_app, app_length. reflexivity. Qed.
Lemma count_best_text l : count_best (map OText l) = O.
Proof. unfold count_best. rewrite (filter_map_none OText) by reflexivity. reflexivity. Qed.

Lemma step_best_count extra dl u line input :
  let '(_, outs, _, _, _) := uci_step extra dl u line input in count_best outs = if answerable_go (u, line) then 1%nat else O.
Proof.
  destruct (answerable_go (u, line)) eqn:AG.
  - unfold answerable_go in AG. cbn [fst snd] in AG. apply andb_prop in AG. destruct AG as (AG & GT). apply andb_prop in AG. destruct AG as (NE & CM).
    destruct (go_tokens _ _ _ _ _) as [a msgs|msgs| |] eqn:G; try discriminate GT.
    pose proof (C13_go_answered_with_exactly_one_bestmove extra dl u line input a msgs) as K.
    assert (CM' : lower_str (first_token (trim line)) = "go") by (apply String.eqb_eq; exact CM).
    assert (NE' : trim line <> "") by (intros E; rewrite E in NE; discriminate NE).
    specialize (K CM' NE' G). destruct (uci_step extra dl u line input) as [[[[u' outs] rq] i'] st]. destruct K as (_ & K & _). exact K.
  - unfold uci_step. cbv zeta.
    destruct (String.eqb (trim line) "") eqn:E0; [reflexivity|].
    set (cmd := lower_str (first_token (trim line))) in *.
    destruct (String.eqb cmd "quit" || String.eqb cmd "exit" || String.eqb cmd "x")%bool; [reflexivity|].
    destruct (String.eqb cmd "uci"); [reflexivity|]. destruct (String.eqb cmd "isready"); [reflexivity|].
    destruct (String.eqb cmd "ucinewgame" || String.eqb cmd "cleartt")%bool; [reflexivity|].
    destruct (String.eqb cmd "d"); [reflexivity|]. destruct (String.eqb cmd "eval"); [reflexivity|].
    destruct (String.eqb cmd "position").
    { destruct (negb _); [reflexivity|]. destruct (parse_position _) as [[g rep]| |]; reflexivity. }
    destruct (String.eqb cmd "go") eqn:CG.
    + unfold answerable_go in AG. cbn [fst snd] in AG. rewrite E0 in AG. fold cmd in AG. rewrite CG in AG. cbn [negb andb] in AG.
      destruct (go_tokens _ _ _ _ _) as [a msgs|msgs| |]; [discriminate AG|apply count_best_text|reflexivity|reflexivity].
    + destruct (String.eqb cmd "stop"); [reflexivity|].
      destruct (String.eqb cmd "move"). { destruct (play_moves _ _ _) as [[g rep]| |]; reflexivity. }
      destruct (String.eqb cmd "perft").
      { destruct (rest_tokens (trim line)) as [|t r]; [reflexivity|]. destruct (String.eqb t "simple"); [reflexivity|].
        destruct (parse_uint 256 t) as [d|]; [|reflexivity]. destruct (d =? 0)%N; reflexivity. }
      destruct (String.eqb cmd "perft!").
      { destruct (rest_tokens (trim line)) as [|t r]; [reflexivity|].
        destruct (parse_uint 256 t) as [d|]; [|reflexivity]. destruct (d =? 255)%N; [reflexivity|].
        rewrite count_best_app. unfold count_best at 1. rewrite filter_map_none by reflexivity. reflexivity. }
      destruct (_ || _)%bool; reflexivity.
Qed.

(* every session, whatever its lines and their timing: the number of best moves printed is exactly the number of `go` commands the main loop
   executed (those the model covers) -- each is answered once, none twice, and nothing else prints a best move *)
Theorem C13_every_go_of_a_session_is_answered_exactly_once : forall extra dls fuel u pending input,
  count_best (fst (uci_run extra dls fuel u pending input)) = List.length (filter answerable_go (uci_exec extra dls fuel u pending input)).
Proof.
  intros extra dls fuel. revert dls. induction fuel as [|f IH]; intros dls u pending input; [reflexivity|].
  cbn [uci_run uci_exec].
  destruct (match pending with Some l => Some (l, input) | None => match input with [] => None | (_, l) :: r => Some (l, r) end end) as [[l input']|]; [|reflexivity].
  pose proof (step_best_count extra (List.hd O dls) u l input') as K.
  destruct (uci_step extra (List.hd O dls) u l input') as [[[[u' outs] rq] input''] st].
  cbn [filter]. destruct st.
  - specialize (IH (List.tl dls) u' rq input''). destruct (uci_run extra (List.tl dls) f u' rq input'') as [outs' st']. cbn [fst] in *.
    rewrite count_best_app, K, IH. destruct (answerable_go (u, l)); reflexivity.
  - cbn [fst]. rewrite K. destruct (answerable_go (u, l)); reflexivity.
  - cbn [fst]. rewrite K. destruct (answerable_go (u, l)); reflexivity.
Qed.

(* ------------------------------------------------------------------ every isready of a session is answered exactly once *)
Definition is_ready (o : uout) : bool := match o with OText s => String.eqb s "readyok" | _ => false end.
Definition count_ready (outs : list uout) : nat := List.length (filter is_ready outs).
Definition illegal_msg (m : string) : Prop := exists t, m = String.append "Illegal 'go' command: '" t.
Definition idle_isready (line : string) : bool :=
  negb (String.eqb (trim line) "") && String.eqb (lower_str (first_token (trim line))) "isready".
Definition poll_ready (dl : nat * string) : bool := match poll_dispatch (trim (snd dl)) with PReady => true | _ => false end.

Lemma count_ready_app a b : count_ready (a ++ b)%list = (count_ready a + count_ready b)%nat.
Proof. unfold count_ready. rewrite filter_app, app_length. reflexivity. Qed.
Lemma count_ready_msgs msgs : Forall illegal_msg msgs -> count_ready (map OText msgs) = O.
Proof.
  intros F. induction F as [|m l (t & ->) _ IH]; [reflexivity|]. unfold count_ready in *. cbn [map filter is_ready].
  change (String.eqb (String.append "Illegal 'go' command: '" t) "readyok") with false. exact IH.
Qed.
Lemma count_ready_repeat n : count_ready (repeat (OText "readyok") n) = n.
Proof. induction n as [|n IH]; [reflexivity|]. unfold count_ready in *. cbn [repeat filter is_ready String.eqb Ascii.eqb Bool.eqb List.length]. rewrite IH. reflexivity. Qed.
Lemma count_ready_search l : count_ready (map OSearchOut l) = O.
Proof. unfold count_ready. rewrite (filter_map_none OSearchOut) by reflexivity. reflexivity. Qed.

Lemma go_tokens_msgs white f : forall a toks msgs, Forall illegal_msg msgs ->
  match go_tokens white a toks msgs f with GoArgs _ ms | GoReturn ms => Forall illegal_msg ms | _ => True end.
Proof.
  induction f as [|f IH]; intros a toks msgs F; cbn [go_tokens]; [exact F|].
  destruct toks as [|t r]; [exact F|].
  destruct (String.eqb t ""); [apply IH; exact F|].
  assert (EXT : Forall illegal_msg (msgs ++ [String.append "Illegal 'go' command: '" (String.append t "'")])%list).
  { apply Forall_app. split; [exact F|]. constructor; [eexists; reflexivity|constructor]. }
  repeat match goal with
         | |- context [if ?c then _ else _] => lazymatch c with context [go_tokens] => fail | _ => destruct c end
         | |- context [match ?x with _ => _ end] => lazymatch x with context [go_tokens] => fail | _ => destruct x end
         end; try exact F; try exact I; try (apply IH; assumption).
Qed.

Lemma step_ready_count extra dl u line input :
  let '(_, outs, _, input', _) := uci_step extra dl u line input in
  count_ready outs = ((if idle_isready line then 1 else 0) +
                      List.length (filter poll_ready (firstn (List.length input - List.length input') input)))%nat.
Proof.
  unfold uci_step, idle_isready. cbv zeta.
  destruct (String.eqb (trim line) "") eqn:E0; [rewrite Nat.sub_diag; reflexivity|]. cbn [negb andb].
  set (cmd := lower_str (first_token (trim line))).
  destruct (String.eqb_spec cmd "isready") as [EI|NI].
  { rewrite EI. cbn [String.eqb Ascii.eqb Bool.eqb orb]. rewrite Nat.sub_diag. reflexivity. }
  destruct (String.eqb cmd "quit" || String.eqb cmd "exit" || String.eqb cmd "x")%bool; [rewrite Nat.sub_diag; reflexivity|].
  destruct (String.eqb cmd "uci"); [rewrite Nat.sub_diag; reflexivity|].
  destruct (String.eqb_spec cmd "isready") as [E|_]; [contradiction|].
  destruct (String.eqb cmd "ucinewgame" || String.eqb cmd "cleartt")%bool; [rewrite Nat.sub_diag; reflexivity|].
  destruct (String.eqb cmd "d"); [rewrite Nat.sub_diag; reflexivity|]. destruct (String.eqb cmd "eval"); [rewrite Nat.sub_diag; reflexivity|].
  destruct (String.eqb cmd "position").
  { destruct (negb _); [rewrite Nat.sub_diag; reflexivity|]. destruct (parse_position _) as [[g rep]| |]; rewrite Nat.sub_diag; reflexivity. }
  destruct (String.eqb cmd "go").
  - pose proof (go_tokens_msgs (white (u_game u)) (S (String.length (trim line))) go_init (split_sp (skip 2 (trim line))) [] (Forall_nil _)) as M.
    destruct (go_tokens _ _ _ _ _) as [a msgs|msgs| |]; [| rewrite Nat.sub_diag; exact (count_ready_msgs msgs M) | rewrite Nat.sub_diag; reflexivity | rewrite Nat.sub_diag; reflexivity].
    destruct (session_search _ _ _ _ _ _) as [so e sc|]; [|rewrite Nat.sub_diag; reflexivity].
    destruct (poll_schedule input 0 _ (List.length input)) as [[nready stopper] rest] eqn:PS.
    rewrite !count_ready_app, (count_ready_msgs msgs M), count_ready_repeat, count_ready_search.
    rewrite (poll_schedule_ready_count _ _ _ _ _ _ _ PS). unfold poll_ready. cbn [plus]. rewrite Nat.add_0_r. reflexivity.
  - destruct (String.eqb cmd "stop"); [rewrite Nat.sub_diag; reflexivity|].
    destruct (String.eqb cmd "move"). { destruct (play_moves _ _ _) as [[g rep]| |]; rewrite Nat.sub_diag; reflexivity. }
    destruct (String.eqb cmd "perft").
    { destruct (rest_tokens (trim line)) as [|t r]; [rewrite Nat.sub_diag; reflexivity|]. destruct (String.eqb t "simple"); [rewrite Nat.sub_diag; reflexivity|].
      destruct (parse_uint 256 t) as [d|]; [|rewrite Nat.sub_diag; reflexivity]. destruct (d =? 0)%N; rewrite Nat.sub_diag; reflexivity. }
    destruct (String.eqb cmd "perft!").
    { destruct (rest_tokens (trim line)) as [|t r]; [rewrite Nat.sub_diag; reflexivity|].
      destruct (parse_uint 256 t) as [d|]; [|rewrite Nat.sub_diag; reflexivity]. destruct (d =? 255)%N; [rewrite Nat.sub_diag; reflexivity|].
      rewrite Nat.sub_diag, count_ready_app. unfold count_ready at 1. rewrite filter_map_none by reflexivity. reflexivity. }
    destruct (_ || _)%bool; rewrite Nat.sub_diag; reflexivity.
Qed.

(* the lines the main loop executes, each with the lines that polls took off the input while it was being executed *)
Fixpoint uci_exec_io (extra : N) (dls : list nat) (fuel : nat) (u : ustate) (pending : option string) (input : list (nat * string))
  : list (string * list (nat * string)) :=
  match fuel with
  | O => []
  | S f =>
    let next : option (string * list (nat * string)) :=
      match pending with
      | Some l => Some (l, input)
      | None => match input with (_, l) :: r => Some (l, r) | [] => None end
      end in
    match next with
    | None => []
    | Some (l, input') =>
      let '(u', outs, requeue, input'', st) := uci_step extra (List.hd O dls) u l input' in
      (l, firstn (List.length input' - List.length input'') input') ::
      match st with Continue => uci_exec_io extra (List.tl dls) f u' requeue input'' | _ => [] end
    end
  end.

(* every session, whatever its lines and their timing: the number of readyok lines printed is the number of isready lines the main loop executed
   plus the number of isready lines taken by polls during searches -- each is answered once, and nothing else prints readyok *)
Theorem C13_every_isready_of_a_session_is_answered_exactly_once : forall extra dls fuel u pending input,
  count_ready (fst (uci_run extra dls fuel u pending input)) =
  (List.length (filter idle_isready (map fst (uci_exec_io extra dls fuel u pending input))) +
   List.length (filter poll_ready (List.concat (map snd (uci_exec_io extra dls fuel u pending input)))))%nat.
Proof.
  intros extra dls fuel. revert dls. induction fuel as [|f IH]; intros dls u pending input; [reflexivity|].
  cbn [uci_run uci_exec_io].
  destruct (match pending with Some l => Some (l, input) | None => match input with [] => None | (_, l) :: r => Some (l, r) end end) as [[l input']|]; [|reflexivity].
  pose proof (step_ready_count extra (List.hd O dls) u l input') as K.
  destruct (uci_step extra (List.hd O dls) u l input') as [[[[u' outs] rq] input''] st].
  cbn [map fst snd List.concat filter]. rewrite filter_app, app_length.
  destruct st.
  - specialize (IH (List.tl dls) u' rq input''). destruct (uci_run extra (List.tl dls) f u' rq input'') as [outs' st']. cbn [fst] in *.
    rewrite count_ready_app, K, IH. destruct (idle_isready l); cbn [List.length]; lia.
  - cbn [fst map List.concat filter List.length]. rewrite K. destruct (idle_isready l); cbn [List.length]; lia.
  - cbn [fst map List.concat filter List.length]. rewrite K. destruct (idle_isready l); cbn [List.length]; lia.
Qed.

(* ------------------------------------------------------------------ every state of a whole session (C03/C06/C12 along sessions) *)
(* what is left of the input after a line was executed is a suffix of what was there, and a line handed back comes from the input *)
Lemma uci_step_suffix extra dl u l input u' outs rq input' st :
  uci_step extra dl u l input = (u', outs, rq, input', st) ->
  (exists pre, input = (pre ++ input')%list) /\ (forall x, rq = Some x -> In x (map snd input)).
Proof.
  unfold uci_step. cbn zeta.
  repeat match goal with
         | |- (if ?c then _ else _) = _ -> _ => destruct c
         | |- match ?x with _ => _ end = _ -> _ => destruct x eqn:?
         | |- (let '(_, _) := ?x in _) = _ -> _ => destruct x eqn:?
         end;
    intros H; try (injection H as <- <- <- <- <-; split; [exists []; reflexivity|intros yy EE; discriminate EE]).
  match goal with E : poll_schedule _ _ _ _ = (_, _, _) |- _ =>
    pose proof (poll_schedule_suffix _ _ _ _ _ _ _ E) as (tk & P & _ & _) end.
  injection H as <- <- <- <- <-. split; [exists tk; exact P|].
  intros yy EE. destruct o as [[k [|]]|]; try discriminate EE. apply nth_error_In in EE. exact EE.
Qed.

(* in a session started in a state holding a legal position, all of whose lines are admissible (C03.line_ok: everything except a `position fen`
   whose result fails the executable invariant), every line is executed in a state holding a legal position -- so (C03_main_loop_bestmoves_are_legal,
   C12_main_loop_pvs_are_legal_lines, C06_main_loop_searches_examine_only_consistent_positions) every best move and PV printed anywhere in the
   session is legal under the rules in the position it was asked for, and every search examines only consistent positions *)
Theorem C03_every_line_of_a_session_is_executed_in_a_legal_position : forall extra fuel dls u pending input,
  legal_inv (u_game u) -> Forall line_ok (map snd input) -> (forall l, pending = Some l -> line_ok l) ->
  Forall (fun ul => legal_inv (u_game (fst ul)) /\ line_ok (snd ul)) (uci_exec extra dls fuel u pending input).
Proof.
  intros extra fuel. induction fuel as [|f IH]; intros dls u pending input LI FI PI; [constructor|].
  cbn [uci_exec].
  assert (NX : forall l input', match pending with Some l => Some (l, input) | None => match input with [] => None | (_, l) :: r => Some (l, r) end end = Some (l, input') ->
               line_ok l /\ Forall line_ok (map snd input')).
  { intros l input' E. destruct pending as [p|].
    - injection E as <- <-. split; [apply PI; reflexivity|exact FI].
    - destruct input as [|[d x] r]; [discriminate E|]. injection E as <- <-. cbn [map snd] in FI. inversion FI; subst. split; assumption. }
  destruct (match pending with Some l => Some (l, input) | None => match input with [] => None | (_, l) :: r => Some (l, r) end end) as [[l input']|]; [|constructor].
  destruct (NX l input' eq_refl) as (OK & FI').
  pose proof (C03_main_loop_keeps_the_position_legal extra (List.hd O dls) u l input' LI OK) as K.
  destruct (uci_step extra (List.hd O dls) u l input') as [[[[u' outs] rq] input''] st] eqn:E.
  destruct (uci_step_suffix _ _ _ _ _ _ _ _ _ _ E) as ((pre & P) & RQ).
  constructor; [split; [exact LI|exact OK]|].
  destruct st; [|constructor|constructor].
  apply IH; [exact K| |].
  - rewrite P, map_app in FI'. apply Forall_app in FI'. exact (proj2 FI').
  - intros x EX. specialize (RQ x EX). rewrite Forall_forall in FI'. apply FI'. exact RQ.
Qed.
(* ... in particular for whole sessions of a freshly started engine *)
Theorem C03_fresh_sessions_stay_in_legal_positions : forall extra dls input,
  Forall line_ok (map snd input) ->
  Forall (fun ul => legal_inv (u_game (fst ul)) /\ line_ok (snd ul))
         (uci_exec extra dls (2 * List.length input + 4) init_ustate None (with_eof input)).
Proof.
  intros extra dls input F. apply C03_every_line_of_a_session_is_executed_in_a_legal_position.
  - exact (C03_every_session_state_holds_a_legal_position extra init_ustate (ss_init extra)).
  - unfold with_eof. rewrite map_app. apply Forall_app. split; [exact F|]. constructor; [|constructor].
    unfold line_ok. cbv zeta. intros H. vm_compute in H. discriminate H.
  - intros l E. discriminate E.
Qed.

(* ------------------------------------------------------------------ every uci of a session is answered with exactly one uciok *)
Definition is_uciok (o : uout) : bool := match o with OText s => String.eqb s "uciok" | _ => false end.
Definition count_uciok (outs : list uout) : nat := List.length (filter is_uciok outs).
Definition uci_line (line : string) : bool :=
  negb (String.eqb (trim line) "") && String.eqb (lower_str (first_token (trim line))) "uci".
Lemma count_uciok_app a b : count_uciok (a ++ b)%list = (count_uciok a + count_uciok b)%nat.
Proof. unfold count_uciok. rewrite filter_app, app_length. reflexivity. Qed.
Lemma count_uciok_msgs msgs : Forall illegal_msg msgs -> count_uciok (map OText msgs) = O.
Proof.
  intros F. induction F as [|m l (t & ->) _ IH]; [reflexivity|]. unfold count_uciok in *. cbn [map filter is_uciok].
  change (String.eqb (String.append "Illegal 'go' command: '" t) "uciok") with false. exact IH.
Qed.
Lemma count_uciok_repeat n : count_uciok (repeat (OText "readyok") n) = O.
Proof. induction n as [|n IH]; [reflexivity|]. exact IH. Qed.
Lemma count_uciok_search l : count_uciok (map OSearchOut l) = O.
Proof. unfold count_uciok. rewrite (filter_map_none OSearchOut) by reflexivity. reflexivity. Qed.

Lemma step_uciok_count extra dl u line input :
  let '(_, outs, _, _, _) := uci_step extra dl u line input in count_uciok outs = if uci_line line then 1%nat else O.
Proof.
  unfold uci_step, uci_line. cbv zeta.
  destruct (String.eqb (trim line) "") eqn:E0; [reflexivity|]. cbn [negb andb].
  set (cmd := lower_str (first_token (trim line))).
  destruct (String.eqb_spec cmd "uci") as [EI|NI].
  { rewrite EI. cbn [String.eqb Ascii.eqb Bool.eqb orb]. reflexivity. }
  destruct (String.eqb cmd "quit" || String.eqb cmd "exit" || String.eqb cmd "x")%bool; [reflexivity|].
  destruct (String.eqb_spec cmd "uci") as [E|_]; [contradiction|].
  destruct (String.eqb cmd "isready"); [reflexivity|].
  destruct (String.eqb cmd "ucinewgame" || String.eqb cmd "cleartt")%bool; [reflexivity|].
  destruct (String.eqb cmd "d"); [reflexivity|]. destruct (String.eqb cmd "eval"); [reflexivity|].
  destruct (String.eqb cmd "position").
  { destruct (negb _); [reflexivity|]. destruct (parse_position _) as [[g rep]| |]; reflexivity. }
  destruct (String.eqb cmd "go").
  - pose proof (go_tokens_msgs (white (u_game u)) (S (String.length (trim line))) go_init (split_sp (skip 2 (trim line))) [] (Forall_nil _)) as M.
    destruct (go_tokens _ _ _ _ _) as [a msgs|msgs| |]; [| exact (count_uciok_msgs msgs M) | reflexivity | reflexivity].
    destruct (session_search _ _ _ _ _ _) as [so e sc|]; [|reflexivity].
    destruct (poll_schedule input 0 _ (List.length input)) as [[nready stopper] rest].
    rewrite !count_uciok_app, (count_uciok_msgs msgs M), count_uciok_repeat, count_uciok_search. reflexivity.
  - destruct (String.eqb cmd "stop"); [reflexivity|].
    destruct (String.eqb cmd "move"). { destruct (play_moves _ _ _) as [[g rep]| |]; reflexivity. }
    destruct (String.eqb cmd "perft").
    { destruct (rest_tokens (trim line)) as [|t r]; [reflexivity|]. destruct (String.eqb t "simple"); [reflexivity|].
      destruct (parse_uint 256 t) as [d|]; [|reflexivity]. destruct (d =? 0)%N; reflexivity. }
    destruct (String.eqb cmd "perft!").
    { destruct (rest_tokens (trim line)) as [|t r]; [reflexivity|].
      destruct (parse_uint 256 t) as [d|]; [|reflexivity]. destruct (d =? 255)%N; [reflexivity|].
      rewrite count_uciok_app. unfold count_uciok at 1. rewrite filter_map_none by reflexivity. reflexivity. }
    destruct (_ || _)%bool; reflexivity.
Qed.

Theorem C13_every_uci_of_a_session_is_answered_exactly_once : forall extra dls fuel u pending input,
  count_uciok (fst (uci_run extra dls fuel u pending input)) =
  List.length (filter uci_line (map snd (uci_exec extra dls fuel u pending input))).
Proof.
  intros extra dls fuel. revert dls. induction fuel as [|f IH]; intros dls u pending input; [reflexivity|].
  cbn [uci_run uci_exec].
  destruct (match pending with Some l => Some (l, input) | None => match input with [] => None | (_, l) :: r => Some (l, r) end end) as [[l input']|]; [|reflexivity].
  pose proof (step_uciok_count extra (List.hd O dls) u l input') as K.
  destruct (uci_step extra (List.hd O dls) u l input') as [[[[u' outs] rq] input''] st].
  cbn [map snd filter]. destruct st.
  - specialize (IH (List.tl dls) u' rq input''). destruct (uci_run extra (List.tl dls) f u' rq input'') as [outs' st']. cbn [fst] in *.
    rewrite count_uciok_app, K, IH. destruct (uci_line l); reflexivity.
  - cbn [fst map filter List.length]. rewrite K. destruct (uci_line l); reflexivity.
  - cbn [fst map filter List.length]. rewrite K. destruct (uci_line l); reflexivity.
Qed.


(* ------------------------------------------------------------------ end of input: never starved *)
(* The reader thread delivers end of input as a final `quit` line (with_eof).  The main loop never reads past it: whatever the lines, their timing
   and the deadline oracles, the session ends by Exit unless one of the executed commands itself panics (malformed arguments: the UPanic
   branches of uci_step) -- the branch of uci_run that finds the channel empty (`unreachable!()` in the source) is never taken.  The delicate
   case is a search running while the final `quit` arrives: the poll hands it back and the main loop executes it next. *)
Definition ends_quit (input : list (nat * string)) : Prop := exists pre d, input = (pre ++ [(d, "quit")])%list.
Definition quit_ahead (pending : option string) (input : list (nat * string)) : Prop := pending = Some "quit" \/ ends_quit input.

Lemma ends_quit_suffix a b : b <> [] -> ends_quit (a ++ b)%list -> ends_quit b.
Proof.
  intros NE (pre & d & E). destruct (exists_last NE) as (b' & x & Eb). subst b.
  rewrite app_assoc in E. apply app_inj_tail in E. destruct E as [_ ->]. exists b', d. reflexivity.
Qed.

Lemma nth_error_last_snd (pre : list (nat * string)) x : nth_error (map snd (pre ++ [x])%list) (List.length (pre ++ [x])%list - 0 - 1) = Some (snd x).
Proof.
  rewrite app_length. cbn [List.length]. replace (List.length pre + 1 - 0 - 1)%nat with (List.length pre) by lia.
  rewrite map_app, nth_error_app2 by (rewrite map_length; lia). rewrite map_length, Nat.sub_diag. reflexivity.
Qed.

Lemma step_keeps_quit_ahead extra dl u l input u' outs rq input' :
  uci_step extra dl u l input = (u', outs, rq, input', Continue) -> ends_quit input -> quit_ahead rq input'.
Proof.
  unfold uci_step. cbn zeta.
  repeat match goal with
         | |- (if ?c then _ else _) = _ -> _ => destruct c
         | |- match ?x with _ => _ end = _ -> _ => destruct x eqn:?
         | |- (let '(_, _) := ?x in _) = _ -> _ => destruct x eqn:?
         end;
    intros H EQ; try discriminate H; try (injection H as <- <- <- <-; right; exact EQ).
  (* the search branch *)
  match goal with E : poll_schedule _ _ _ _ = (_, _, _) |- _ =>
    pose proof (poll_schedule_suffix _ _ _ _ _ _ _ E) as (tk & P & Q0 & Q) end.
  injection H as <- <- <- <-.
  destruct l0 as [|r0 rest'].
  - (* the polls took everything: the last line taken is the final quit, which a poll hands back *)
    left. rewrite app_nil_r in P. subst tk. destruct EQ as (pre & d & EI).
    destruct o as [[k b]|].
    + destruct (Q k b eq_refl) as (pre' & lst & T & _ & D). rewrite EI in T. apply app_inj_tail in T. destruct T as [_ <-].
      cbn [snd] in D. change (trim "quit") with "quit" in D. rewrite poll_quit in D. destruct b; [|discriminate D].
      rewrite EI. cbn [List.length]. rewrite nth_error_last_snd. reflexivity.
    + specialize (Q0 eq_refl). rewrite EI in Q0. apply Forall_app in Q0. destruct Q0 as [_ Q0]. inversion Q0 as [|x xs Hx _]. subst.
      cbn [snd] in Hx. change (trim "quit") with "quit" in Hx. rewrite poll_quit in Hx. destruct Hx; discriminate.
  - right. rewrite P in EQ. apply (ends_quit_suffix tk); [discriminate|exact EQ].
Qed.

Definition step_panics (extra : N) (ul : ustate * string) : Prop :=
  exists dl input, snd (uci_step extra dl (fst ul) (snd ul) input) = UPanic.

Lemma uci_run_exits extra fuel : forall dls u pending input,
  measure pending input < fuel -> quit_ahead pending input ->
  snd (uci_run extra dls fuel u pending input) = Exit \/ Exists (step_panics extra) (uci_exec extra dls fuel u pending input).
Proof.
  induction fuel as [|f IH]; intros dls u pending input M QA; [lia|].
  cbn [uci_run uci_exec].
  assert (HN : forall l input', measure None input' + 1 <= measure pending input -> (l = "quit" \/ ends_quit input') ->
     snd (let '(u', outs, requeue, input'', st) := uci_step extra (List.hd O dls) u l input' in
          match st with
          | Continue => let '(outs', st') := uci_run extra (List.tl dls) f u' requeue input'' in ((outs ++ outs')%list, st')
          | _ => (outs, st)
          end) = Exit \/
     Exists (step_panics extra)
       (let '(u', outs, requeue, input'', st) := uci_step extra (List.hd O dls) u l input' in
        (u, l) :: match st with Continue => uci_exec extra (List.tl dls) f u' requeue input'' | _ => [] end)).
  { intros l input' ML QL.
    destruct QL as [-> | EQ]; [rewrite step_quit; left; reflexivity|].
    destruct (uci_step extra (List.hd O dls) u l input') as [[[[u' outs] rq] input''] st] eqn:E.
    destruct (uci_step_input _ _ _ _ _ _ _ _ _ _ E) as [L1 L2].
    destruct st.
    - assert (M' : measure rq input'' < f).
      { unfold measure in *. destruct rq; [specialize (L2 ltac:(discriminate))|]; lia. }
      destruct (IH (List.tl dls) u' rq input'' M' (step_keeps_quit_ahead _ _ _ _ _ _ _ _ _ E EQ)) as [K|K].
      + left. destruct (uci_run extra (List.tl dls) f u' rq input'') as [o s]. exact K.
      + right. apply Exists_cons_tl. exact K.
    - left. reflexivity.
    - right. apply Exists_cons_hd. exists (List.hd O dls), input'. cbn [fst snd]. rewrite E. reflexivity. }
  destruct pending as [l|].
  - apply HN; [unfold measure; lia|]. destruct QA as [QA|QA]; [injection QA as ->; left; reflexivity|right; exact QA].
  - destruct QA as [QA|QA]; [discriminate QA|].
    destruct input as [|[d l] r]. { destruct QA as (pre & d & E). destruct pre; discriminate E. }
    apply (HN l r); [unfold measure; cbn [List.length]; lia|].
    destruct r as [|x r'].
    + left. destruct QA as (pre & d' & E). destruct pre as [|y pre]; [injection E as _ ->; reflexivity|].
      injection E as _ E. destruct pre; discriminate E.
    + right. apply (ends_quit_suffix [(d, l)]); [discriminate|exact QA].
Qed.

Theorem C13_a_session_ends_by_quit_unless_a_command_panics : forall extra dls input,
  snd (uci_session extra dls input) = Exit \/
  Exists (step_panics extra) (uci_exec extra dls (2 * List.length (with_eof input) + 2) init_ustate None (with_eof input)).
Proof.
  intros extra dls input. unfold uci_session.
  replace (2 * List.length input + 4)%nat with (2 * List.length (with_eof input) + 2)%nat by (unfold with_eof; rewrite app_length; cbn; lia).
  apply uci_run_exits; [unfold measure; lia|]. right. exists input, O. reflexivity.
Qed.

(* non-vacuity: a session with a search during which `isready` and the final quit arrive ends by Exit *)
Example C13_session_with_search_exits :
  snd (uci_session 0 [] [(O, "position startpos moves e2e4"); (O, "go depth 1"); (O, "isready")]) = Exit.
Proof. vm_compute. reflexivity. Qed.


(* only `quit` / `exit` / `x` ends the loop, and the farewell line is the last thing a session that ends by Exit prints *)
Lemma step_exit_prints_farewell extra dl u l input u' outs rq input' :
  uci_step extra dl u l input = (u', outs, rq, input', Exit) -> outs = [OText " Exited!"].
Proof.
  unfold uci_step. cbn zeta.
  repeat match goal with
         | |- (if ?c then _ else _) = _ -> _ => destruct c
         | |- match ?x with _ => _ end = _ -> _ => destruct x eqn:?
         | |- (let '(_, _) := ?x in _) = _ -> _ => destruct x eqn:?
         end;
    intros H; try discriminate H; injection H as <- <- <- <-; reflexivity.
Qed.

Theorem C13_a_session_that_exits_prints_the_farewell_last : forall extra fuel dls u pending input,
  snd (uci_run extra dls fuel u pending input) = Exit ->
  exists outs, fst (uci_run extra dls fuel u pending input) = (outs ++ [OText " Exited!"])%list.
Proof.
  intros extra fuel. induction fuel as [|f IH]; intros dls u pending input; [discriminate|].
  cbn [uci_run].
  destruct (match pending with Some l => Some (l, input) | None => match input with [] => None | (_, l) :: r => Some (l, r) end end) as [[l input']|]; [|discriminate].
  destruct (uci_step extra (List.hd O dls) u l input') as [[[[u' outs] rq] input''] st] eqn:E.
  destruct st.
  - specialize (IH (List.tl dls) u' rq input''). destruct (uci_run extra (List.tl dls) f u' rq input'') as [outs' st']. cbn [fst snd] in *.
    intros X. destruct (IH X) as (o & ->). exists (outs ++ o)%list. rewrite app_assoc. reflexivity.
  - intros _. cbn [fst]. rewrite (step_exit_prints_farewell _ _ _ _ _ _ _ _ _ E). exists []. reflexivity.
  - discriminate.
Qed.

Print Assumptions C13_a_session_that_exits_prints_the_farewell_last.
Print Assumptions C13_a_session_ends_by_quit_unless_a_command_panics.
Print Assumptions C13_uciok.
Print Assumptions C13_every_uci_of_a_session_is_answered_exactly_once.
Print Assumptions C03_every_line_of_a_session_is_executed_in_a_legal_position.
Print Assumptions C03_fresh_sessions_stay_in_legal_positions.
Print Assumptions C13_every_isready_of_a_session_is_answered_exactly_once.
Print Assumptions C13_every_go_of_a_session_is_answered_exactly_once.
Print Assumptions C13_handed_back_line_is_executed_next.
Print Assumptions C13_line_after_stop_is_not_lost.
Print Assumptions C13_go_answered_with_exactly_one_bestmove.
Print Assumptions C13_polls_take_a_prefix.
Print Assumptions C13_one_readyok_per_isready_during_search.
Print Assumptions C13_terminates.
