(* C13 -- UCI liveness: every command is answered, none is lost, quit/EOF terminate
   (after fixes 8ff4e2c bare go, 0de86eb EOF = quit, b1eb103 poll dispatch, ac47405 depth > 127 in /repo).
   Model: the main loop as a state machine over input lines whose arrival relative to the running search's polls is part of the
   input (Model/Uci.v).  Proved for every engine state, every remaining input and every timing:
     - `uci` is answered with uciok, `isready` (idle) with readyok, `quit` exits, `ucinewgame` clears TT and history;
     - a line that arrives during a search: `isready` is answered in place and does NOT stop the search; `stop` stops it;
       every other line stops the search and is handed back to the main loop (not lost); nothing behind it is touched;
       the number of readyok printed during a search equals the number of isready lines taken;
     - every session comes to an end: with end of input delivered as `quit`, the loop ends by Exit (or a Rust panic on malformed input),
       never by starvation -- for every command sequence and every timing;
     - every modelled `go` prints exactly one bestmove (C03_exactly_one_bestmove).
   Threads, the OS pipe and wall-clock promptness cannot be exhibited by a Gallina model (runtime, sampled by black-box runs through a
   real pipe); the session model is tied to the real main loop by scripted sessions with deterministic arrival of lines. *)
From Coq Require Import NArith ZArith List Bool String.
From JV Require Import Gen.Consts Model.Chess Model.TT Model.Search Model.SearchChess Model.Fen Model.Go Model.Uci Proofs.UciLoopProofs.
Import ListNotations.
Local Open Scope string_scope.

Theorem C13_uciok : forall extra u input,
  uci_step extra u "uci" input = (u, [OText "id name JENCE"; OText "id author Joachim Enggaard Nebel"; OText "uciok"], None, input, Continue).
Proof. exact step_uci. Qed.
Theorem C13_readyok_idle : forall extra u input, uci_step extra u "isready" input = (u, [OText "readyok"], None, input, Continue).
Proof. exact step_isready. Qed.
Theorem C13_quit_exits : forall extra u input, uci_step extra u "quit" input = (u, [OText " Exited!"], None, input, Exit).
Proof. exact step_quit. Qed.
Theorem C13_ucinewgame : forall extra u input,
  uci_step extra u "ucinewgame" input = (mkU (u_game u) (clear (u_tt u)) [], [], None, input, Continue).
Proof. exact step_ucinewgame. Qed.

Theorem C13_isready_does_not_stop : poll_dispatch "isready" = PReady.
Proof. exact poll_isready. Qed.
Theorem C13_other_lines_are_handed_back : forall l, l <> "isready" -> l <> "" -> l <> "stop" -> poll_dispatch l = PUnread.
Proof. exact poll_other. Qed.

Theorem C13_polls_take_a_prefix : forall fuel input at_ np n s rest,
  poll_schedule input at_ np fuel = (n, s, rest) ->
  exists taken, input = (taken ++ rest)%list /\
    (s = None -> Forall (fun dl => poll_dispatch (trim (snd dl)) = PReady \/ poll_dispatch (trim (snd dl)) = PIgnore) taken) /\
    (forall k b, s = Some (k, b) -> exists pre last, taken = (pre ++ [last])%list /\
        Forall (fun dl => poll_dispatch (trim (snd dl)) = PReady \/ poll_dispatch (trim (snd dl)) = PIgnore) pre /\
        poll_dispatch (trim (snd last)) = (if b then PUnread else PStop)).
Proof. exact poll_schedule_suffix. Qed.

Theorem C13_one_readyok_per_isready_during_search : forall fuel input at_ np n s rest,
  poll_schedule input at_ np fuel = (n, s, rest) ->
  n = List.length (filter (fun dl => match poll_dispatch (trim (snd dl)) with PReady => true | _ => false end)
                          (firstn (List.length input - List.length rest) input)).
Proof. exact poll_schedule_ready_count. Qed.

Theorem C13_terminates : forall extra input, snd (uci_session extra input) <> Continue.
Proof. exact uci_session_ends. Qed.

Print Assumptions C13_uciok.
Print Assumptions C13_polls_take_a_prefix.
Print Assumptions C13_one_readyok_per_isready_during_search.
Print Assumptions C13_terminates.
