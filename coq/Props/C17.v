(* C17 -- inspecting or searching a position never changes it or the game history.
   The position is an immutable value in the model (the Rust search only ever copies from it; the driver compares all 18 fields
   before/after every search).  Proved for every position, depth, TT content, history, poll schedule and stop point:
   every search ends with ply = 0, the repetition index where it started, the recorded history untouched -- and it always ends
   (the fuel of the model is never exhausted).  The same per call of negamax / quiescence (the backbone reused by C06/C09/C12). *)
From Coq Require Import NArith ZArith List Bool.
From JV Require Import Gen.Consts Model.Chess Model.Eval Model.TT Model.Search Model.SearchChess Model.Fen Model.Uci Proofs.SearchBalance Proofs.FenProofs.
Import ListNotations.

Theorem C17_search_frame : forall pollp stop_at bypass g depth t rt ri,
  exists outs e s, chess_search pollp stop_at bypass g depth t rt ri = SDone outs e s /\ ply e = O /\ ridx e = ri /\
    firstn ri (rtab e) = firstn ri rt /\ length (rtab e) = length rt.
Proof. intros. apply search_frame. Qed.

(* per call: ply and repetition index restored, history prefix and table length untouched, counters monotone, stopping sticky *)
Theorem C17_negamax_balanced : forall pollp stop_at bypass n g d a b (e : c_env),
  (ply e <= MAXPLY)%nat -> (MAXPLY + 3 - ply e <= n)%nat ->
  match chess_negamax pollp stop_at bypass n g d a b e with
  | Val _ e' => ply e' = ply e /\ ridx e' = ridx e /\ firstn (ridx e) (rtab e') = firstn (ridx e) (rtab e) /\
                length (rtab e') = length (rtab e) /\ (nodes e <= nodes e')%N /\ (npolls e <= npolls e')%nat /\
                (stopping e = true -> stopping e' = true) /\ ((forall k, stop_at k = false) -> stopping e' = stopping e)
  | OutOfFuel => False
  end.
Proof.
  intros pollp stop_at bypass n g d a b e Hp Hf.
  pose proof (proj1 (search_balanced _ _ generate_moves c_make null_move evaluate (fun g => is_in_check g (white g)) hash c_half100
    move_eqb mcap c_promo c_hidx c_cap_score NULL_MOVE pollp stop_at bypass n) g d a b e Hp Hf) as H.
  unfold chess_negamax. destruct (negamax _ _ _ _ _ _ _ _ _ _ _ _ _ _ _ _ _ g d a b e); exact H.
Qed.

Theorem C17_quiescence_balanced : forall pollp stop_at n g a b (e : c_env),
  (ply e <= MAXPLY)%nat -> (MAXPLY + 2 - ply e <= n)%nat ->
  match chess_quiescence pollp stop_at n g a b e with
  | Val _ e' => ply e' = ply e /\ ridx e' = ridx e /\ firstn (ridx e) (rtab e') = firstn (ridx e) (rtab e) /\
                length (rtab e') = length (rtab e) /\ (nodes e <= nodes e')%N /\ (npolls e <= npolls e')%nat /\
                (stopping e = true -> stopping e' = true) /\ ((forall k, stop_at k = false) -> stopping e' = stopping e)
  | OutOfFuel => False
  end.
Proof.
  intros pollp stop_at n g a b e Hp Hf.
  pose proof (proj2 (search_balanced _ _ generate_moves c_make null_move evaluate (fun g => is_in_check g (white g)) hash c_half100
    move_eqb mcap c_promo c_hidx c_cap_score NULL_MOVE pollp stop_at false n) g a b e Hp Hf) as H.
  unfold chess_quiescence. destruct (quiescence _ _ _ _ _ _ _ _ _ _ _ _ _ g a b e); exact H.
Qed.

From Coq Require Import String.
Open Scope string_scope.
(* at the level of the UCI main loop (Model/Uci.v): every command line other than the four that are meant to change the game -- `position`,
   `move`, `ucinewgame`, `cleartt` -- that is `go` with any arguments and any poll/stop schedule, `perft N`, `perft! N`, `eval`, `d`, `isready`,
   `uci`, `stop`, unknown lines, the bench commands -- leaves the current position and the recorded game history exactly as they were
   (only the transposition table may change) *)
Theorem C17_inspecting_commands_keep_position_and_history : forall extra dl u line input,
  let cmd := lower_str (first_token (trim line)) in
  cmd <> "position" -> cmd <> "ucinewgame" -> cmd <> "cleartt" -> cmd <> "move" ->
  let '(u', _, _, _, _) := uci_step extra dl u line input in u_game u' = u_game u /\ u_rep u' = u_rep u.
Proof.
  intros extra dl u line input cmd N1 N2 N3 N4. unfold uci_step. cbn zeta. fold cmd.
  destruct (String.eqb (trim line) ""); [split; reflexivity|].
  destruct (String.eqb cmd "quit" || String.eqb cmd "exit" || String.eqb cmd "x")%bool; [split; reflexivity|].
  destruct (String.eqb cmd "uci"); [split; reflexivity|].
  destruct (String.eqb cmd "isready"); [split; reflexivity|].
  destruct (String.eqb_spec cmd "ucinewgame") as [E|_]; [contradiction|]. destruct (String.eqb_spec cmd "cleartt") as [E|_]; [contradiction|]. cbn [orb].
  destruct (String.eqb cmd "d"); [split; reflexivity|].
  destruct (String.eqb cmd "eval"); [split; reflexivity|].
  destruct (String.eqb_spec cmd "position") as [E|_]; [contradiction|].
  destruct (String.eqb cmd "go").
  - destruct (go_tokens _ _ _ _ _); try (split; reflexivity).
    destruct (session_search _ _ _ _ _ _); [|split; reflexivity].
    destruct (poll_schedule _ _ _ _) as [[nready stopper] rest]. split; reflexivity.
  - destruct (String.eqb cmd "stop"); [split; reflexivity|].
    destruct (String.eqb_spec cmd "move") as [E|_]; [contradiction|].
    destruct (String.eqb cmd "perft").
    { destruct (rest_tokens (trim line)) as [|t r]; [split; reflexivity|].
      destruct (String.eqb t "simple"); [split; reflexivity|].
      destruct (parse_uint 256 t) as [d|]; [|split; reflexivity]. destruct (d =? 0)%N; split; reflexivity. }
    destruct (String.eqb cmd "perft!").
    { destruct (rest_tokens (trim line)) as [|t r]; [split; reflexivity|].
      destruct (parse_uint 256 t) as [d|]; [|split; reflexivity]. destruct (d =? 255)%N; split; reflexivity. }
    destruct (_ || _)%bool; split; reflexivity.
Qed.

(* ... and what `move` does instead: it plays the listed moves on from the current position -- the earlier history stays a prefix of the new one,
   one key is appended per move, the table is untouched; a token that is not a legal move of the position reached ends the process (panic) *)
Theorem C17_move_command_plays_on : forall extra dl u line input,
  trim line <> "" -> lower_str (first_token (trim line)) = "move" ->
  let '(u', outs, rq, input', st) := uci_step extra dl u line input in
  match play_moves (u_game u) (u_rep u) (rest_tokens (trim line)) with
  | FOk (g, rep) => u' = mkU g (u_tt u) rep /\ st = Continue /\ outs = [] /\
                    exists ps, positions_after (u_game u) (rest_tokens (trim line)) = Some ps /\ rep = (u_rep u ++ map hash ps)%list /\ g = last ps (u_game u)
  | _ => u' = u /\ st = UPanic
  end.
Proof.
  intros extra dl u line input NE CM. unfold uci_step. cbn zeta.
  destruct (String.eqb_spec (trim line) "") as [E|_]; [contradiction|]. rewrite CM. cbn [String.eqb Ascii.eqb Bool.eqb orb].
  destruct (play_moves (u_game u) (u_rep u) (rest_tokens (trim line))) as [[g rep]| |] eqn:P; try (split; reflexivity).
  repeat split. apply FenProofs.play_moves_history in P. destruct P as (ps & P1 & P2 & P3). exists ps. auto.
Qed.

(* ------------------------------------------------------------------ whole sessions *)
From JV Require Import Props.C13.
(* along the lines a session executes (uci_exec: each with the state it is executed in), position and recorded history change only across the four
   commands meant to change them: whatever the input and its timing, every other executed line hands the next one the same position and history *)
Definition changes_game (line : string) : bool :=
  let cmd := lower_str (first_token (trim line)) in
  String.eqb cmd "position" || String.eqb cmd "move" || String.eqb cmd "ucinewgame" || String.eqb cmd "cleartt".
Fixpoint frame_chain (l : list (ustate * string)) : Prop :=
  match l with
  | (u1, l1) :: r =>
    match r with
    | (u2, _) :: _ => (changes_game l1 = false -> u_game u2 = u_game u1 /\ u_rep u2 = u_rep u1) /\ frame_chain r
    | [] => True
    end
  | [] => True
  end.

Lemma uci_exec_head extra dls fuel u pending input :
  match uci_exec extra dls fuel u pending input with (u0, _) :: _ => u0 = u | [] => True end.
Proof.
  destruct fuel as [|f]; [exact I|]. cbn [uci_exec].
  destruct (match pending with Some l => Some (l, input) | None => match input with [] => None | (_, l) :: r => Some (l, r) end end) as [[l input']|]; [|exact I].
  destruct (uci_step extra (List.hd O dls) u l input') as [[[[u' outs] rq] input''] st]. reflexivity.
Qed.

Theorem C17_whole_sessions_change_the_game_only_at_the_four_commands : forall extra dls fuel u pending input,
  frame_chain (uci_exec extra dls fuel u pending input).
Proof.
  intros extra dls fuel. revert dls. induction fuel as [|f IH]; intros dls u pending input; [exact I|].
  cbn [uci_exec].
  destruct (match pending with Some l => Some (l, input) | None => match input with [] => None | (_, l) :: r => Some (l, r) end end) as [[l input']|]; [|exact I].
  pose proof (C17_inspecting_commands_keep_position_and_history extra (List.hd O dls) u l input') as K.
  destruct (uci_step extra (List.hd O dls) u l input') as [[[[u' outs] rq] input''] st].
  destruct st; [|exact I|exact I].
  pose proof (uci_exec_head extra (List.tl dls) f u' rq input'') as HD. specialize (IH (List.tl dls) u' rq input'').
  cbn [frame_chain]. destruct (uci_exec extra (List.tl dls) f u' rq input'') as [|[u2 l2] r]; [exact I|].
  subst u2. split; [|exact IH].
  intros CG. unfold changes_game in CG. cbv zeta in CG.
  apply orb_false_elim in CG. destruct CG as (CG & C4). apply orb_false_elim in CG. destruct CG as (CG & C3). apply orb_false_elim in CG. destruct CG as (C1 & C2).
  apply K; intros E; rewrite E in *; discriminate.
Qed.

Print Assumptions C17_search_frame.
Print Assumptions C17_whole_sessions_change_the_game_only_at_the_four_commands.
Print Assumptions C17_inspecting_commands_keep_position_and_history.
Print Assumptions C17_move_command_plays_on.
Print Assumptions C17_negamax_balanced.
Print Assumptions C17_quiescence_balanced.
