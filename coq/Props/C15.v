(* C15 -- attack tables are exact for every square and every occupancy. Statements only. *)
From Coq Require Import NArith ZArith List.
From JV Require Import Gen.Tables Model.Bits Model.Attacks Spec.Rays Proofs.AttacksProofs.
Local Open Scope N_scope.

(* every square, every 64-bit occupancy (relevant or not): lookup through PEXT = slide along the lines up to and
   including the first occupied square.  The statement does not even need occ < 2^64: PEXT reads 64 bits. *)
Theorem C15_rook : forall sq occ, sq < 64 -> get_rook_attack_table sq occ = slide rook_dirs sq occ.
Proof. exact rook_exact. Qed.
Theorem C15_bishop : forall sq occ, sq < 64 -> get_bishop_attack_table sq occ = slide bishop_dirs sq occ.
Proof. exact bishop_exact. Qed.
Theorem C15_queen : forall sq occ, sq < 64 ->
  get_queen_attack_table sq occ = N.lor (slide rook_dirs sq occ) (slide bishop_dirs sq occ).
Proof. exact queen_exact. Qed.
Theorem C15_leapers : forall sq, sq < 64 ->
  get_knight_attack_table sq = leaper knight_offs sq /\ get_king_attack_table sq = leaper king_offs sq /\
  get_pawn_attack_table sq true = leaper wpawn_offs sq /\ get_pawn_attack_table sq false = leaper bpawn_offs sq.
Proof. exact leapers_exact. Qed.
Theorem C15_table_layout : offsets_ok = true.
Proof. exact offsets_ok_true. Qed.

Print Assumptions C15_rook.
Print Assumptions C15_bishop.
Print Assumptions C15_queen.
Print Assumptions C15_leapers.
Print Assumptions C15_table_layout.
