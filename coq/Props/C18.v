(* C18 -- search is reproducible and `ucinewgame` restores a fresh engine.
   In the model a search is a Gallina function of (position, history prefix, TT, poll predicate, stop schedule) -- determinism is free;
   the content is what it may depend on.  Proved: clearing the TT leaves nothing retrievable (C08_clear); the search never changes the
   history it was given (C17), so consecutive searches see the same history; a depth-limited search with no input pending never
   observes a stop (stopping stays false when no poll reports one).
   Decided per run on the real engine: every scenario search is repeated in a fresh process and must print the same lines;
   scripted UCI sessions `H; ucinewgame; position P; go depth d` are compared with a fresh process running `position P; go depth d`. *)
From Coq Require Import NArith ZArith List Bool.
From JV Require Import Gen.Consts Model.Chess Model.Eval Model.TT Model.Search Model.SearchChess Proofs.TTProofs Proofs.SearchFrame Proofs.SearchBalance.

Theorem C18_clear : forall ops h d a b q, probe (table (Clr :: ops)) h d a b q = None.
Proof. exact clear_nothing. Qed.

(* a depth-limited search with no input pending and no deadline (no poll ever reports a stop) is never stopped, whatever the polling
   cadence: its outputs are then a function of (position, history prefix, TT) alone *)
Theorem C18_never_stopped_without_input : forall pollp bypass g depth t rt ri,
  match chess_search pollp (fun _ => false) bypass g depth t rt ri with SDone _ e _ => stopping e = false | SFuel => False end.
Proof. intros. apply search_never_stopped. reflexivity. Qed.

Print Assumptions C18_clear.
Print Assumptions C18_never_stopped_without_input.
