(* C18 -- search is reproducible and `ucinewgame` restores a fresh engine.
   In the model a search is a Gallina function of (position, history prefix, TT, poll predicate, stop schedule) -- determinism is free;
   the content is what it may depend on.  Proved: clearing the TT leaves nothing retrievable (C08_clear); the search never changes the
   history it was given (C17), so consecutive searches see the same history; a depth-limited search with no input pending never
   observes a stop (stopping stays false when no poll reports one); in the UCI main-loop model, `ucinewgame` + `position P`
   from ANY state equals `position P` from the initial state (C18_ucinewgame_restores_fresh).
   Decided per run on the real engine: every scenario search is repeated in a fresh process and must print the same lines;
   scripted UCI sessions `H; ucinewgame; position P; go depth d` are compared with a fresh process running `position P; go depth d`. *)
From Coq Require Import NArith ZArith List Bool.
From Coq Require Import String.
From JV Require Import Gen.Consts Model.Chess Model.Eval Model.TT Model.Search Model.SearchChess Model.Fen Model.Uci Proofs.TTProofs Proofs.SearchFrame Proofs.SearchBalance Proofs.UciLoopProofs.
Import ListNotations.

Theorem C18_clear : forall ops h d a b q, probe (table (Clr :: ops)) h d a b q = None.
Proof. exact clear_nothing. Qed.

(* a depth-limited search with no input pending and no deadline (no poll ever reports a stop) is never stopped, whatever the polling
   cadence: its outputs are then a function of (position, history prefix, TT) alone *)
Theorem C18_never_stopped_without_input : forall pollp bypass g depth t rt ri,
  match chess_search pollp (fun _ => false) bypass g depth t rt ri with SDone _ e _ => stopping e = false | SFuel => False end.
Proof. intros. apply search_never_stopped. reflexivity. Qed.

(* in the model of the UCI main loop: whatever state the command history left (position, table, game history), `ucinewgame`
   followed by an accepted `position` command puts the engine into exactly the state a freshly started engine is in after that
   `position` command -- so everything it does afterwards (searches included: they are functions of that state) is identical *)
Theorem C18_ucinewgame_restores_fresh : forall extra u P input input' g rep,
  trim P <> ""%string -> lower_str (first_token (trim P)) = "position"%string -> rest_tokens (trim P) <> [] ->
  parse_position (skip 9 (trim P)) = FOk (g, rep) ->
  let '(u1, _, _, _, _) := uci_step extra u "ucinewgame" input in
  uci_step extra u1 P input' = uci_step extra init_ustate P input'.
Proof. exact ucinewgame_then_position_is_fresh. Qed.

Print Assumptions C18_clear.
Print Assumptions C18_ucinewgame_restores_fresh.
Print Assumptions C18_never_stopped_without_input.
