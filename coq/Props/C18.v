(* C18 -- search is reproducible and `ucinewgame` restores a fresh engine.
   In the model a search is a Gallina function of (position, history prefix, TT, poll predicate, stop schedule) -- determinism is free;
   the content is what it may depend on.  Proved: clearing the TT leaves nothing retrievable (C08_clear); the search never changes the
   history it was given (C17), so consecutive searches see the same history; a depth-limited search with no input pending never
   observes a stop (stopping stays false when no poll reports one); in the UCI main-loop model, `ucinewgame` + `position P`
   from ANY state equals `position P` from the initial state (C18_ucinewgame_restores_fresh).
   Decided per run on the real engine: every scenario search is repeated in a fresh process and must print the same lines;
   scripted UCI sessions `H; ucinewgame; position P; go depth d` are compared with a fresh process running `position P; go depth d`. *)
From Coq Require Import NArith ZArith List Bool.
From Coq Require Import String.
From JV Require Import Gen.Consts Model.Chess Model.Eval Model.TT Model.Search Model.SearchChess Model.Fen Model.Uci Proofs.TTProofs Proofs.SearchFrame Proofs.SearchBalance Proofs.UciLoopProofs Proofs.SearchJunk.
Import ListNotations.

Theorem C18_clear : forall ops h d a b q, probe (table (Clr :: ops)) h d a b q = None.
Proof. exact clear_nothing. Qed.

(* a depth-limited search with no input pending and no deadline (no poll ever reports a stop) is never stopped, whatever the polling
   cadence: its outputs are then a function of (position, history prefix, TT) alone *)
Theorem C18_never_stopped_without_input : forall pollp bypass g depth t rt ri,
  match chess_search pollp (fun _ => false) bypass g depth t rt ri with SDone _ e _ => stopping e = false | SFuel => False end.
Proof. intros. apply search_never_stopped. reflexivity. Qed.

(* in the model of the UCI main loop: whatever state the command history left (position, table, game history), `ucinewgame`
   followed by an accepted `position` command puts the engine into exactly the state a freshly started engine is in after that
   `position` command -- so everything it does afterwards (searches included: they are functions of that state) is identical *)
Theorem C18_ucinewgame_restores_fresh : forall extra dl u P input input' g rep,
  trim P <> ""%string -> lower_str (first_token (trim P)) = "position"%string -> rest_tokens (trim P) <> [] ->
  parse_position (skip 9 (trim P)) = FOk (g, rep) ->
  let '(u1, _, _, _, _) := uci_step extra dl u "ucinewgame" input in
  uci_step extra dl u1 P input' = uci_step extra dl init_ustate P input'.
Proof. exact ucinewgame_then_position_is_fresh. Qed.

(* the repetition table is cleared by resetting its index, not its contents: nothing a search prints, returns or leaves behind depends on what
   earlier games left above the index.  Two searches whose tables have the same capacity and agree on the recorded history (the first ri
   slots) print the same lines, return the same score and end in the same state -- transposition table, PV table, node and poll counters --
   for every position, depth, table content, poll cadence and stop schedule *)
Theorem C18_search_ignores_what_earlier_games_left_in_the_history_table : forall pollp stop_at bypass g depth t rt1 rt2 ri,
  firstn ri rt1 = firstn ri rt2 -> List.length rt1 = List.length rt2 ->
  match chess_search pollp stop_at bypass g depth t rt1 ri, chess_search pollp stop_at bypass g depth t rt2 ri with
  | SDone o1 e1 s1, SDone o2 e2 s2 =>
    o1 = o2 /\ s1 = s2 /\ tbl e1 = tbl e2 /\ pvtab e1 = pvtab e2 /\ pvlen e1 = pvlen e2 /\ nodes e1 = nodes e2 /\ npolls e1 = npolls e2 /\
    stopping e1 = stopping e2 /\ ridx e1 = ridx e2 /\ firstn (ridx e1) (rtab e1) = firstn (ridx e2) (rtab e2)
  | SFuel, SFuel => True
  | _, _ => False
  end.
Proof. intros. apply search_junk_independent; assumption. Qed.

(* hence the main-loop model's choice of zeros above the history is immaterial: a search started by `go` behaves as the model says whatever the
   table holds there (junk of the right length in place of the zeros) *)
Theorem C18_session_search_is_independent_of_stale_entries : forall extra dl u depth max_time input junk,
  List.length junk = (N.to_nat REP_CAPACITY - List.length (u_rep u))%nat ->
  let stopk : option nat := stop_index dl max_time input in
  match session_search extra dl u depth max_time input,
        chess_search (c_pollp extra) (fun k => match stopk with Some s => Nat.leb s k | None => false end) false
                     (u_game u) depth (u_tt u) (u_rep u ++ junk) (List.length (u_rep u)) with
  | SDone o1 e1 s1, SDone o2 e2 s2 => o1 = o2 /\ s1 = s2 /\ tbl e1 = tbl e2
  | SFuel, SFuel => True
  | _, _ => False
  end.
Proof.
  intros extra dl u depth max_time input junk L stopk. unfold session_search. fold stopk.
  pose proof (C18_search_ignores_what_earlier_games_left_in_the_history_table (c_pollp extra)
    (fun k => match stopk with Some s => Nat.leb s k | None => false end) false (u_game u) depth (u_tt u)
    (u_rep u ++ repeat 0%N (N.to_nat REP_CAPACITY - List.length (u_rep u))) (u_rep u ++ junk) (List.length (u_rep u))) as H.
  rewrite !firstn_app, !Nat.sub_diag, !firstn_O, !app_length, repeat_length, L in H. specialize (H eq_refl eq_refl).
  destruct (chess_search _ _ _ _ _ _ (u_rep u ++ repeat _ _) _) as [o1 e1 s1|], (chess_search _ _ _ _ _ _ (u_rep u ++ junk) _) as [o2 e2 s2|]; try exact H.
  destruct H as (A & B & C & _). auto.
Qed.

(* ... for the rest of the session: whatever state the engine is in, `ucinewgame` followed by an accepted `position` line and then ANY further input,
   with any timing and any deadline oracles, produces exactly the outputs (and the same end) a freshly started engine produces for that
   `position` line and that further input *)
Theorem C18_after_ucinewgame_the_session_is_that_of_a_fresh_engine : forall extra d0 dls f u k P input g rep,
  trim P <> ""%string -> lower_str (first_token (trim P)) = "position"%string -> rest_tokens (trim P) <> [] ->
  parse_position (skip 9 (trim P)) = FOk (g, rep) ->
  uci_run extra (d0 :: dls) (S (S f)) u (Some "ucinewgame"%string) ((k, P) :: input) =
  uci_run extra dls (S f) init_ustate None ((k, P) :: input).
Proof.
  intros extra d0 dls f u k P input g rep NE CMD ARG PP.
  cbn [uci_run List.hd List.tl]. rewrite step_ucinewgame. cbn [app].
  rewrite (step_position extra (List.hd O dls) _ P input g rep NE CMD ARG PP), (step_position extra (List.hd O dls) init_ustate P input g rep NE CMD ARG PP).
  unfold init_ustate at 1. cbn [u_tt u_game u_rep]. unfold clear.
  destruct (uci_run extra (List.tl dls) f _ None input) as [o st]. reflexivity.
Qed.

Print Assumptions C18_clear.
Print Assumptions C18_after_ucinewgame_the_session_is_that_of_a_fresh_engine.
Print Assumptions C18_search_ignores_what_earlier_games_left_in_the_history_table.
Print Assumptions C18_session_search_is_independent_of_stale_entries.
Print Assumptions C18_ucinewgame_restores_fresh.
Print Assumptions C18_never_stopped_without_input.
