(* C08 -- the transposition table only returns sound information.
   This file contains only statements closed by `exact`; the proofs live in Proofs/TTProofs.v. *)
From Coq Require Import ZArith NArith List FMapPositive.
From JV Require Import Gen.Consts Model.TT Spec.TTSpec Proofs.TTProofs.
Import ListNotations.
Local Open Scope Z_scope.

(* the table is, slot by slot, the last store since the last clear *)
Theorem C08_refines_last_store : forall ops p,
  PositiveMap.find p (table ops) =
  match last_store ops p with Some (h, s, d, f, ply) => Some (mkEntry h d f (adj_store s ply)) | None => None end.
Proof. exact refines_last_store. Qed.

(* a probe answers only from a store of exactly this key with at least the requested depth since the last clear,
   and the answer obeys the bound type and the window; mate scores are re-based (rebase s p q) *)
Theorem C08_probe_sound : forall ops h d a b q r,
  probe (table ops) h d a b q = Some r ->
  exists s dep f p, last_store ops (slot h) = Some (h, s, dep, f, p) /\ (d <= dep)%N /\
    stored_since_clear ops h d /\
    let s' := rebase s p q in
    match f with FExact => r = s' | FAlpha => s' <= a /\ r = a | FBeta => s' >= b /\ r = b end.
Proof. exact probe_sound. Qed.

Theorem C08_nothing_without_store : forall ops h d a b q,
  ~ stored_since_clear ops h d -> probe (table ops) h d a b q = None.
Proof. exact nothing_without_store. Qed.

Theorem C08_rebase_mated : forall n p q, 0 <= n -> 0 <= p <= 63 -> 0 <= q <= 63 -> n + p <= 128 -> n + q <= 128 ->
  rebase (- MATE_VALUE + (p + n)) p q = - MATE_VALUE + (q + n).
Proof. exact rebase_mated. Qed.
Theorem C08_rebase_mating : forall n p q, 0 <= n -> 0 <= p <= 63 -> 0 <= q <= 63 -> n + p <= 128 -> n + q <= 128 ->
  rebase (MATE_VALUE - (p + n)) p q = MATE_VALUE - (q + n).
Proof. exact rebase_mating. Qed.
Theorem C08_rebase_plain : forall s p q, - MATE_BOUND <= s <= MATE_BOUND -> rebase s p q = s.
Proof. exact rebase_plain. Qed.
Theorem C08_rebase_general : forall s p q, 0 <= p <= 255 -> 0 <= q <= 255 -> - INFINITY <= s <= INFINITY ->
  rebase s p q = if s <? - MATE_BOUND then s - p + q else if s >? MATE_BOUND then s + p - q else s.
Proof. exact rebase_general. Qed.

(* a result just stored is retrievable (same ply), per the three flag rules, whenever the requested depth fits *)
Theorem C08_retrievable : forall ops h s d f p d' a b, (d' <= d)%N ->
  probe (table (Rec h s d f p :: ops)) h d' a b p =
  let s' := rebase s p p in
  match f with FExact => Some s' | FAlpha => if s' <=? a then Some a else None | FBeta => if s' >=? b then Some b else None end.
Proof. exact retrievable. Qed.
Theorem C08_rebase_same : forall s p, 0 <= p <= 255 -> - INFINITY <= s <= INFINITY -> rebase s p p = s.
Proof. exact rebase_same. Qed.

Theorem C08_clear : forall ops h d a b q, probe (table (Clr :: ops)) h d a b q = None.
Proof. exact clear_nothing. Qed.

Theorem C08_no_overflow : forall s p q, - INFINITY <= s <= INFINITY -> 0 <= p <= 255 -> 0 <= q <= 255 ->
  i32 (adj_store s p) /\ i32 (rebase s p q) /\ rebase s p q <> UNKNOWN_SCORE.
Proof. exact no_overflow. Qed.

Theorem C08_dump_agrees : DUMP_UNKNOWN_SCORE = UNKNOWN_SCORE /\ DUMP_MATE_VALUE = MATE_VALUE /\ DUMP_MATE_BOUND = MATE_BOUND.
Proof. exact dump_agrees. Qed.

Print Assumptions C08_refines_last_store.
Print Assumptions C08_probe_sound.
Print Assumptions C08_nothing_without_store.
Print Assumptions C08_rebase_mated.
Print Assumptions C08_rebase_mating.
Print Assumptions C08_rebase_plain.
Print Assumptions C08_rebase_general.
Print Assumptions C08_retrievable.
Print Assumptions C08_rebase_same.
Print Assumptions C08_clear.
Print Assumptions C08_no_overflow.
Print Assumptions C08_dump_agrees.

(* the executable monitor that judges the real engine's answers accepts every answer of the model, for every history *)
Theorem C08_monitor_accepts_model : forall ops h d a b q,
  forallb op_in_range ops = true -> 0 <= q <= 255 ->
  acceptable ops h d a b q (probe (table ops) h d a b q) = true.
Proof. exact monitor_accepts_probe. Qed.
Print Assumptions C08_monitor_accepts_model.
