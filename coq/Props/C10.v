(* C10 -- the engine's self-imposed time budget always fits the clock. Statements only. *)
From Coq Require Import ZArith List.
From JV Require Import Model.Go Proofs.GoProofs.
Import ListNotations.
Local Open Scope Z_scope.

(* remaining time >= 1 (any increment, any moves-to-go -- even outside the stated domain): finite, >= 0, < remaining *)
Theorem C10_budget_fits : forall t i m, 1 <= t -> 0 <= budget t i m (-1) < t.
Proof. exact budget_fits. Qed.

Theorem C10_movetime_exact : forall t i m T, T <> -1 -> budget t i m T = T.
Proof. exact budget_movetime. Qed.

(* only "no clock and no movetime" (go infinite, go depth d) is unbounded *)
Theorem C10_unbounded_only : forall t i m T, 0 <= T \/ T = -1 -> (budget t i m T = -1 <-> T = -1 /\ t = -1).
Proof. exact budget_unbounded_iff. Qed.

(* the same through the argument loop of parse_go, for every order / repetition of arguments and both colours *)
Theorem C10_parse_go : forall w args d mt,
  Forall arg_ok args -> parse_go w args = Some (d, mt) ->
  exists a, go_loop w go_init args = Some a /\ mt = go_budget a /\
    (g_movetime a <> -1 -> mt = g_movetime a) /\
    (g_movetime a = -1 -> g_time a <> -1 -> 0 <= mt < g_time a) /\
    (mt = -1 <-> g_movetime a = -1 /\ g_time a = -1).
Proof. exact parse_go_budget. Qed.

Theorem C10_no_overflow : forall t i m, 1 <= t < 2^61 -> 0 <= i < 2^61 -> 1 <= m < 2^61 ->
  i64 (Z.quot t m) /\ i64 (Z.quot t m + i) /\ i64 (Z.quot t m + i - 100) /\ i64 (i - 500) /\ i64 (t - 1).
Proof. exact budget_no_overflow. Qed.

(* the repaired finding, for the record: each clause failed before the fix *)
Theorem C10_pre_fix_refuted :
  (exists t i m, 1 <= t /\ 0 <= i /\ 1 <= m /\ budget_pre_fix t i m (-1) < 0) /\
  (exists t i m, 1 <= t /\ 0 <= i /\ 1 <= m /\ budget_pre_fix t i m (-1) = -1) /\
  (exists t i m, 1 <= t /\ 0 <= i /\ 1 <= m /\ budget_pre_fix t i m (-1) >= t).
Proof. exact (conj pre_fix_negative (conj pre_fix_sentinel pre_fix_exceeds)). Qed.

Print Assumptions C10_budget_fits.
Print Assumptions C10_parse_go.
