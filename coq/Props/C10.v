(* C10 -- the engine's self-imposed time budget always fits the clock. Statements only. *)
From Coq Require Import ZArith List String.
From JV Require Import Model.Go Model.Uci Proofs.GoProofs Proofs.GoTokens.
Import ListNotations.
Local Open Scope Z_scope.

(* remaining time >= 1 (any increment, any moves-to-go -- even outside the stated domain): finite, >= 0, < remaining *)
Theorem C10_budget_fits : forall t i m, 1 <= t -> 0 <= budget t i m (-1) < t.
Proof. exact budget_fits. Qed.

Theorem C10_movetime_exact : forall t i m T, T <> -1 -> budget t i m T = T.
Proof. exact budget_movetime. Qed.

(* only "no clock and no movetime" (go infinite, go depth d) is unbounded *)
Theorem C10_unbounded_only : forall t i m T, 0 <= T \/ T = -1 -> (budget t i m T = -1 <-> T = -1 /\ t = -1).
Proof. exact budget_unbounded_iff. Qed.

(* the same through the argument loop of parse_go, for every order / repetition of arguments and both colours *)
Theorem C10_parse_go : forall w args d mt,
  Forall arg_ok args -> parse_go w args = Some (d, mt) ->
  exists a, go_loop w go_init args = Some a /\ mt = go_budget a /\
    (g_movetime a <> -1 -> mt = g_movetime a) /\
    (g_movetime a = -1 -> g_time a <> -1 -> 0 <= mt < g_time a) /\
    (mt = -1 <-> g_movetime a = -1 /\ g_time a = -1).
Proof. exact parse_go_budget. Qed.

Theorem C10_no_overflow : forall t i m, 1 <= t < 2^61 -> 0 <= i < 2^61 -> 1 <= m < 2^61 ->
  i64 (Z.quot t m) /\ i64 (Z.quot t m + i) /\ i64 (Z.quot t m + i - 100) /\ i64 (i - 500) /\ i64 (t - 1).
Proof. exact budget_no_overflow. Qed.


(* TOKEN LEVEL: the argument loop of the main-loop model works on the words of the `go` line (Model/Uci.v: go_tokens -- str::parse on every value, the
   other colour's clock arguments skipped unparsed, early returns, panics).  Whenever it ends with arguments to search with, they are the result of
   the pair-level loop above on a list of (keyword, value) pairs whose values are i64 readings of words of the line ... *)
Theorem C10_token_loop_refines_the_argument_loop : forall fuel white a toks msgs a' msgs',
  go_tokens white a toks msgs fuel = GoArgs a' msgs' ->
  exists args, go_loop white a args = Some a' /\ Forall (from_tokens toks) args.
Proof. exact go_tokens_refines_go_loop. Qed.

(* ... so the budget the main loop hands to search() for ANY `go` line -- any words, any order, any repetition -- is go_budget of those arguments and,
   when the values are inside the property's domain, fits the clock / is exactly movetime / is unbounded only without clock and movetime *)
Theorem C10_budget_of_every_go_line : forall fuel white toks a msgs',
  go_tokens white go_init toks [] fuel = GoArgs a msgs' ->
  exists args, go_loop white go_init args = Some a /\ Forall (from_tokens toks) args /\
    (Forall arg_ok args ->
       (g_movetime a <> -1 -> go_budget a = g_movetime a) /\
       (g_movetime a = -1 -> g_time a <> -1 -> 0 <= go_budget a < g_time a) /\
       (go_budget a = -1 <-> g_movetime a = -1 /\ g_time a = -1)).
Proof.
  intros fuel white toks a msgs' H. destruct (go_tokens_refines_go_loop _ _ _ _ _ _ _ H) as (args & L & F).
  exists args. split; [exact L|]. split; [exact F|]. intros OK.
  assert (P : parse_go white args = Some (g_depth a, go_budget a)) by (unfold parse_go; rewrite L; reflexivity).
  destruct (parse_go_budget _ _ _ _ OK P) as (a0 & L0 & _ & K). rewrite L in L0. injection L0 as <-. exact K.
Qed.

(* non-vacuity: a line with both clocks, increments and a skipped foreign clock, through the token loop *)
Example C10_token_example :
  exists a msgs, go_tokens true go_init ["wtime"; "60000"; "btime"; "x"; "winc"; "1000"; "movestogo"; "20"]%string [] 20 = GoArgs a msgs /\
                 go_budget a = 3900.
Proof. eexists. eexists. split; [vm_compute; reflexivity|vm_compute; reflexivity]. Qed.

(* the repaired finding, for the record: each clause failed before the fix *)
Theorem C10_pre_fix_refuted :
  (exists t i m, 1 <= t /\ 0 <= i /\ 1 <= m /\ budget_pre_fix t i m (-1) < 0) /\
  (exists t i m, 1 <= t /\ 0 <= i /\ 1 <= m /\ budget_pre_fix t i m (-1) = -1) /\
  (exists t i m, 1 <= t /\ 0 <= i /\ 1 <= m /\ budget_pre_fix t i m (-1) >= t).
Proof. exact (conj pre_fix_negative (conj pre_fix_sentinel pre_fix_exceeds)). Qed.

Print Assumptions C10_budget_fits.
Print Assumptions C10_parse_go.
Print Assumptions C10_token_loop_refines_the_argument_loop.
Print Assumptions C10_budget_of_every_go_line.
