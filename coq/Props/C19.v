(* C19 -- shallow searches return the exact minimax value.
   Reference value: Spec/Minimax.v (plain negamax over legal moves, check extension, capture quiescence with stand-pat, the engine's
   evaluation at the leaves, mate by distance, stalemate zero, the two horizon rules).
   Proved for every position: at nominal depth <= 2 neither the null-move condition nor the late-move-reduction condition of the
   model can hold (so no speculative pruning applies).
   Exactness of the alpha-beta / PVS skeleton w.r.t. the reference (C19_full, visible, not assumed) is decided per run: every
   printed iteration score of the real engine at depth 1 and 2 with the TT bypassed is compared with the extracted reference. *)
From Coq Require Import NArith ZArith List Bool Lia.
From JV Require Import Gen.Consts Model.Chess Model.Eval Model.TT Model.Search Model.SearchChess Model.Abs Spec.Minimax.
From Coq Require Import FMapPositive.

(* null move needs n_depth >= 3 and no check: with depth <= 2, n_depth >= 3 forces depth = 2 and a check *)
Theorem C19_null_move_inactive : forall (depth : nat) (inchk : bool), (depth <= 2)%nat ->
  Nat.leb 3 (if inchk then S depth else depth) && negb inchk = false.
Proof. intros depth [|] H; cbn [negb]; [apply andb_false_r|]. destruct (Nat.leb_spec 3 depth); [lia|reflexivity]. Qed.

(* late move reduction needs depth >= REDUCTION_LIMIT = 3 *)
Theorem C19_lmr_inactive : forall (depth searched : nat) (inchk cap promo : bool), (depth <= 2)%nat ->
  Nat.leb (N.to_nat FULL_DEPTH_MOVES) searched && Nat.leb (N.to_nat REDUCTION_LIMIT) depth && negb inchk && negb cap && negb promo = false.
Proof.
  intros depth searched inchk cap promo H.
  assert (E : Nat.leb (N.to_nat REDUCTION_LIMIT) depth = false) by (apply Nat.leb_gt; change (N.to_nat REDUCTION_LIMIT) with 3%nat; lia).
  rewrite E. rewrite andb_false_r. reflexivity.
Qed.

(* children of a depth <= 2 node are searched with depth <= 2 again (check extension included) *)
Theorem C19_child_depth : forall (depth : nat) (inchk : bool), (1 <= depth <= 2)%nat -> ((if inchk then S depth else depth) - 1 <= 2)%nat.
Proof. intros depth [|] H; lia. Qed.

(* the oracle's evaluator (fail-soft alpha-beta, Spec/AlphaBeta.v) returns exactly the plain reference value *)
Theorem C19_reference_evaluator : forall g depth, minimax_fast g depth = minimax g depth.
Proof. exact minimax_fast_correct. Qed.

Definition C19_full : Prop := forall pollp g d,
  (1 <= d <= 2)%nat -> Abs.wf g = true -> (half g < 90)%N ->
  match chess_negamax pollp (fun _ => false) true FUEL g d (- INFINITY)%Z INFINITY
          (@init_env game move NULL_MOVE (PositiveMap.empty _) (repeat 0%N 1000) 0) with
  | Val s _ => s = minimax g (N.of_nat d)
  | OutOfFuel => False
  end.

Print Assumptions C19_null_move_inactive.
Print Assumptions C19_lmr_inactive.
Print Assumptions C19_child_depth.
Print Assumptions C19_reference_evaluator.
