(* C19 -- shallow searches return the exact minimax value.
   Reference value: Spec/GameTree.v instantiated with the chess model in Spec/Minimax.v (plain negamax over legal moves, check
   extension, capture quiescence with stand-pat, the engine's evaluation at the leaves, mate by distance, stalemate zero, the two
   horizon rules).
   Proved here for EVERY position, window, poll oracle, move-ordering state and table content (Proofs/SearchExact.v, a proof over
   the abstract game interface, instantiated): with the TT bypassed, no stop request and an empty game history, a negamax call of
   nominal depth <= 2 returns the reference value when the result is inside the window, and otherwise a bound on the reported side;
   hence every iteration score search() prints at depth 1 or 2 is the exact minimax value.
   The per-run check additionally compares the real engine's printed scores with the extracted reference (whose evaluator is the
   verified alpha-beta of Spec/AlphaBeta.v) and the engine's event traces with the model's. *)
From Coq Require Import NArith ZArith List Bool Lia.
From JV Require Import Gen.Consts Model.Chess Model.Eval Model.TT Model.Search Model.SearchChess Model.Abs Spec.GameTree Spec.Minimax Proofs.SearchExact.
From Coq Require Import FMapPositive.
Local Open Scope Z_scope.

(* the statement of the property for one negamax call (one iteration of search()) *)
Theorem C19_exact : forall pollp g (d : nat) a b (e : c_env),
  ply e = O -> stopping e = false -> ridx e = O -> (d <= 2)%nat -> a < b ->
  match chess_negamax pollp (fun _ => false) true FUEL g d a b e with
  | Val s _ => (a < s < b -> s = minimax g (N.of_nat d)) /\
               (s <= a -> minimax g (N.of_nat d) <= s) /\
               (s >= b -> minimax g (N.of_nat d) >= s)
  | OutOfFuel => False
  end.
Proof.
  intros pollp g d a b e P S0 R0 Hd AB. unfold minimax. rewrite Nat2N.id.
  pose proof (negamax_exact game move generate_moves c_make null_move evaluate c_in_check hash c_half100 move_eqb mcap c_promo c_hidx
                c_cap_score NULL_MOVE pollp (fun _ => false) true (fun _ => eq_refl) eq_refl g d a b e P S0 R0 Hd AB) as H.
  unfold chess_negamax. fold c_in_check.
  destruct (negamax _ _ _ _ _ _ _ _ _ _ _ _ _ _ _ _ _ g d a b e); [|exact H].
  unfold relZ in H. destruct H as (H1 & H2 & H3). repeat split; intros; try (symmetry; apply H2; assumption); auto.
Qed.

(* every score printed for depth 1 or 2 by a whole search (iterative deepening with aspiration windows) is the minimax value *)
Theorem C19_printed_scores : forall pollp g depth t rt outs e s sc mt (d : nat) nd pv,
  chess_search pollp (fun _ => false) true g depth t rt 0 = SDone outs e s ->
  In (OInfo sc mt d nd pv) outs -> (d <= 2)%nat -> sc = minimax g (N.of_nat d).
Proof.
  intros pollp g depth t rt outs e s sc mt d nd pv H Hin Hd. unfold minimax. rewrite Nat2N.id.
  exact (search_exact_outputs game move generate_moves c_make null_move evaluate c_in_check hash c_half100 move_eqb mcap c_promo c_hidx
           c_cap_score NULL_MOVE is_legal pollp (fun _ => false) true (fun _ => eq_refl) eq_refl g depth t rt outs e s H sc mt d nd pv Hin Hd).
Qed.

(* null move needs n_depth >= 3 and no check: with depth <= 2, n_depth >= 3 forces depth = 2 and a check *)
Theorem C19_null_move_inactive : forall (depth : nat) (inchk : bool), (depth <= 2)%nat ->
  Nat.leb 3 (if inchk then S depth else depth) && negb inchk = false.
Proof. intros depth [|] H; cbn [negb]; [apply andb_false_r|]. destruct (Nat.leb_spec 3 depth); [lia|reflexivity]. Qed.

(* late move reduction needs depth >= REDUCTION_LIMIT = 3 *)
Theorem C19_lmr_inactive : forall (depth searched : nat) (inchk cap promo : bool), (depth <= 2)%nat ->
  Nat.leb (N.to_nat FULL_DEPTH_MOVES) searched && Nat.leb (N.to_nat REDUCTION_LIMIT) depth && negb inchk && negb cap && negb promo = false.
Proof.
  intros depth searched inchk cap promo H.
  assert (E : Nat.leb (N.to_nat REDUCTION_LIMIT) depth = false) by (apply Nat.leb_gt; change (N.to_nat REDUCTION_LIMIT) with 3%nat; lia).
  rewrite E. rewrite andb_false_r. reflexivity.
Qed.

(* the oracle's evaluator (fail-soft alpha-beta over capture-ordered successors) returns exactly the plain reference value *)
Theorem C19_reference_evaluator : forall g depth, minimax_fast g depth = minimax g depth.
Proof. exact minimax_fast_correct. Qed.

Print Assumptions C19_exact.
Print Assumptions C19_printed_scores.
Print Assumptions C19_null_move_inactive.
Print Assumptions C19_lmr_inactive.
Print Assumptions C19_reference_evaluator.
