(* C06 -- search examines only legal, consistent positions; terminal verdicts are right.
   Proved for every position / depth / TT / history / schedule: the search always terminates within the model's fuel
   (never OutOfFuel: the ply guard bounds the recursion); move ordering is a permutation (no move dropped, duplicated or invented).
   Per node (legal position, consistent key, reached by a legal move or a pass while not in check, ply limit) and per verdict,
   the statement is decided on every run by the extracted monitor mon_nodes on the real engine's hook trace. *)
From Coq Require Import NArith ZArith List Permutation.
From JV Require Import Gen.Consts Model.Chess Model.Eval Model.TT Model.Search Model.SearchChess Model.Monitors Proofs.SearchBalance Proofs.SortProofs.

Theorem C06_fuel : forall pollp stop_at bypass g depth t rt ri,
  chess_search pollp stop_at bypass g depth t rt ri <> SFuel.
Proof.
  intros. destruct (search_frame _ _ generate_moves c_make null_move evaluate (fun g => is_in_check g (white g)) hash c_half100
    move_eqb mcap c_promo c_hidx c_cap_score NULL_MOVE is_legal pollp stop_at bypass g depth t rt ri) as (o & e & s & H & _).
  unfold chess_search. rewrite H. discriminate.
Qed.

Theorem C06_sort : forall g ms (e : c_env),
  Permutation (fst (sort_moves move_eqb mcap c_hidx c_cap_score NULL_MOVE g ms e)) ms.
Proof. intros. apply sort_moves_perm. Qed.

(* the per-node statement, as the monitor decides it for one trace (visible, not assumed) *)
Definition C06_full : Prop := forall pollp stop_at bypass g depth t hist,
  Abs.wf g = true -> keyok_b g = true ->
  match chess_search pollp stop_at bypass g depth t (hist ++ repeat 0%N (1000 - length hist)) (length hist) with
  | SDone _ e _ => let s := mon_nodes hist (rev (trace e)) in bad06 s = 0%N /\ bad06v s = 0%N
  | SFuel => False
  end.

Print Assumptions C06_fuel.
Print Assumptions C06_sort.
