(* C06 -- search examines only legal, consistent positions; terminal verdicts are right.
   Proved for every position / depth / TT / history / schedule: the search always terminates within the model's fuel
   (never OutOfFuel: the ply guard bounds the recursion); move ordering is a permutation (no move dropped, duplicated or invented).
   Per node (legal position, consistent key, reached by a legal move or a pass while not in check, ply limit) and per verdict,
   the statement is decided on every run by the extracted monitor mon_nodes on the real engine's hook trace. *)
From Coq Require Import NArith ZArith List Permutation.
Import ListNotations.
From JV Require Import Gen.Consts Model.Chess Model.Eval Model.TT Model.Search Model.SearchChess Model.Monitors Model.Abs Proofs.SearchBalance Proofs.SortProofs Proofs.SearchNodes Proofs.ZobristProofs Proofs.GenProofs Proofs.GenOk Proofs.KingsProofs Proofs.MakeGen Proofs.RangeProofs Proofs.NkProofs Proofs.LegalInv Proofs.LegalInvB Proofs.RulesLevel Proofs.SearchNodesAll Model.Fen Model.Uci.

Theorem C06_fuel : forall pollp stop_at bypass g depth t rt ri,
  chess_search pollp stop_at bypass g depth t rt ri <> SFuel.
Proof.
  intros. destruct (search_frame _ _ generate_moves c_make null_move evaluate (fun g => is_in_check g (white g)) hash c_half100
    move_eqb mcap c_promo c_hidx c_cap_score NULL_MOVE is_legal pollp stop_at bypass g depth t rt ri) as (o & e & s & H & _).
  unfold chess_search. rewrite H. discriminate.
Qed.

Theorem C06_sort : forall g ms (e : c_env),
  Permutation (fst (sort_moves move_eqb mcap c_hidx c_cap_score NULL_MOVE g ms e)) ms.
Proof. intros. apply sort_moves_perm. Qed.

(* every position examined by a search (every node-entry event, main search and quiescence) is reachable from the root by steps
   "generated move accepted by make_search_move" or "pass made while not in check" -- for every position, depth, TT, history, schedule *)
Definition chess_reach := reach game move generate_moves c_make null_move (fun g => is_in_check g (white g)).
Theorem C06_nodes_reachable : forall pollp stop_at bypass fuel g0 g d a b (e : c_env),
  chess_reach g0 g -> TraceOk game move generate_moves c_make null_move (fun g => is_in_check g (white g)) g0 e ->
  match chess_negamax pollp stop_at bypass fuel g d a b e with
  | Val _ e' => TraceOk game move generate_moves c_make null_move (fun g => is_in_check g (white g)) g0 e'
  | OutOfFuel => True
  end.
Proof.
  intros pollp stop_at bypass fuel g0 g d a b e R T.
  exact (proj1 (search_nodes game move generate_moves c_make null_move evaluate (fun g => is_in_check g (white g)) hash c_half100
    move_eqb mcap c_promo c_hidx c_cap_score NULL_MOVE pollp stop_at bypass g0 fuel) g d a b e R T).
Qed.

(* a mate / stalemate verdict is only issued when make_search_move rejected every generated move of the node
   (the flag printed with it is is_in_check of the node, by construction of move_phase) *)
Theorem C06_verdict_no_legal_move : forall rec_n g depth nd inchk ms searched ta b ex (e : c_env) ta' e' ex',
  nloop c_make hash mcap c_promo c_hidx rec_n g depth nd inchk ms searched O ta b ex e = LDone ta' e' O ex' ->
  Forall (fun m => c_make g m = None) ms.
Proof. intros. eapply nloop_no_legal. eassumption. Qed.

(* ... and then, for a position satisfying the invariant, the verdict is the rules' verdict: no legal move exists under the rules, and
   the flag printed with the verdict (is_in_check of the node) says whether that is checkmate or stalemate (through C01's completeness) *)
Theorem C06_verdicts_are_the_rules_verdicts : forall rec_n g depth nd inchk ms searched ta b ex (e : c_env) ta' e' ex',
  legal_inv g -> Permutation ms (generate_moves g true) ->
  nloop c_make hash mcap c_promo c_hidx rec_n g depth nd inchk ms searched O ta b ex e = LDone ta' e' O ex' ->
  ChessSpec.legal_moves (abs g) = [] /\
  ChessSpec.checkmate (abs g) = is_in_check g (white g) /\ ChessSpec.stalemate (abs g) = negb (is_in_check g (white g)).
Proof.
  intros rec_n g depth nd inchk ms searched ta b ex e ta' e' ex' LI P H.
  pose proof (C06_verdict_no_legal_move rec_n g depth nd inchk ms searched ta b ex e ta' e' ex' H) as F.
  split; [exact (no_accepted_no_legal g ms LI P F)|exact (verdict_is_the_rules_verdict g ms LI P F)].
Qed.

(* consistency and stored key = recomputed key hold at every position reachable from a consistent root with a right key by accepted
   generated moves that capture no king and by passes (reach_nk = the reachability relation of C06_nodes_reachable with the
   no-king-capture side condition on each step; that condition is what "the side not to move is not in check" gives, and it is
   evaluated per run by the judge on every generated move) *)
Theorem C06_reachable_positions_consistent : forall g0 g, cons g0 -> keyok g0 -> reach_nk g0 g -> cons g /\ keyok g.
Proof. exact reach_good. Qed.
Theorem C06_reachable_positions_one_king_each : forall g0 g, cons g0 -> kings g0 -> reach_nk g0 g -> kings g.
Proof. exact reach_kings. Qed.

(* THE per-node invariant, with no side condition: from a root that satisfies the executable invariant legal_inv_b (consistent sets,
   one king each, men on board squares, the side not to move not in check, stored key = recomputed key), EVERY position examined
   by negamax or quiescence -- whatever the depth, window, table content, history, poll oracle and stop schedule -- satisfies
   legal_inv again: consistent redundant sets, exactly one king each, the side that just moved is not in check, key = from-scratch
   key.  (No generated move captures a king because the side not to move is not in check: attack symmetry, Proofs/AttackSym.v.) *)
Definition node_inv (ev : event game move) : Prop :=
  match ev with ENode _ g _ _ _ _ _ _ _ _ => legal_inv g | _ => True end.
Theorem C06_every_examined_position_is_consistent : forall pollp stop_at bypass fuel g0 d a b (e : c_env),
  legal_inv_b g0 = true -> trace e = [] ->
  match chess_negamax pollp stop_at bypass fuel g0 d a b e with
  | Val _ e' => Forall node_inv (trace e')
  | OutOfFuel => True
  end.
Proof.
  intros pollp stop_at bypass fuel g0 d a b e LB TE.
  pose proof (legal_inv_b_sound g0 LB) as L0.
  pose proof (C06_nodes_reachable pollp stop_at bypass fuel g0 g0 d a b e (reach_root _ _ _ _ _ _ _)) as N.
  assert (T0 : TraceOk game move generate_moves c_make null_move (fun g => is_in_check g (white g)) g0 e) by (unfold TraceOk; rewrite TE; constructor).
  specialize (N T0). destruct (chess_negamax pollp stop_at bypass fuel g0 d a b e) as [s e'|]; [|exact I].
  unfold TraceOk in N. eapply Forall_impl; [|exact N]. intros ev. destruct ev; cbn; auto. intros R. exact (reach_legal g0 _ L0 R).
Qed.
Theorem C06_invariant_step : forall g all m g', legal_inv g -> In m (generate_moves g all) -> c_make g m = Some g' -> legal_inv g'.
Proof. exact legal_step. Qed.
Theorem C06_invariant_pass : forall g, legal_inv g -> is_in_check g (white g) = false -> legal_inv (null_move g).
Proof. exact legal_pass. Qed.

(* the per-node statement, as the monitor decides it for one trace (visible, not assumed) *)
Definition C06_full : Prop := forall pollp stop_at bypass g depth t hist,
  Abs.wf g = true -> keyok_b g = true ->
  match chess_search pollp stop_at bypass g depth t (hist ++ repeat 0%N (1000 - length hist)) (length hist) with
  | SDone _ e _ => let s := mon_nodes hist (rev (trace e)) in bad06 s = 0%N /\ bad06v s = 0%N
  | SFuel => False
  end.

(* ... for whole searches: every position examined by any iteration of search() from a root satisfying the invariant satisfies it too *)
Theorem C06_every_position_of_a_whole_search_is_consistent : forall pollp stop_at bypass g depth t rt ri, legal_inv g ->
  match chess_search pollp stop_at bypass g depth t rt ri with
  | SDone _ e _ => Forall node_inv (trace e)
  | SFuel => True
  end.
Proof.
  intros pollp stop_at bypass g depth t rt ri LI.
  pose proof (search_all_nodes game move generate_moves c_make null_move evaluate (fun g => is_in_check g (white g)) hash c_half100
    move_eqb mcap c_promo c_hidx c_cap_score NULL_MOVE is_legal pollp stop_at bypass g depth t rt ri) as N.
  unfold chess_search. destruct (search _ _ _ _ _ _ _ _ _ _ _ _ _ _ _ _ _ g depth t rt ri) as [outs e s|]; [|exact I].
  unfold TraceOk in N. eapply Forall_impl; [|exact N]. intros ev. destruct ev; cbn; auto. intros R. exact (reach_legal g _ LI R).
Qed.
(* ... and for the searches the main loop starts (Model/Uci.v): in a state holding a position that satisfies the invariant -- every state a session of
   admissible lines reaches, C03_every_session_state_holds_a_legal_position -- a `go` examines only positions that satisfy it *)
Theorem C06_main_loop_searches_examine_only_consistent_positions : forall extra dl u depth max_time input, legal_inv (u_game u) ->
  match session_search extra dl u depth max_time input with
  | SDone _ e _ => Forall node_inv (trace e)
  | SFuel => True
  end.
Proof. intros extra dl u depth max_time input LI. unfold session_search. apply C06_every_position_of_a_whole_search_is_consistent. exact LI. Qed.

Print Assumptions C06_fuel.
Print Assumptions C06_every_position_of_a_whole_search_is_consistent.
Print Assumptions C06_main_loop_searches_examine_only_consistent_positions.
Print Assumptions C06_sort.
Print Assumptions C06_nodes_reachable.
Print Assumptions C06_verdict_no_legal_move.
Print Assumptions C06_verdicts_are_the_rules_verdicts.
Print Assumptions C06_reachable_positions_consistent.
Print Assumptions C06_every_examined_position_is_consistent.
Print Assumptions C06_invariant_step.
Print Assumptions C06_invariant_pass.
Print Assumptions C06_reachable_positions_one_king_each.
