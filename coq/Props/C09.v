(* C09 -- an interrupted search stops promptly and uses nothing computed afterwards.
   Proved for every position, depth, TT content, history, poll predicate and stop schedule: at the end of search() the
   transposition table and the whole PV table (hence the reported best move pv_table[0][0]) are exactly those at the moment the
   stop / deadline was first observed by a poll; if no poll observed one, the search was not stopped.
   `snap` is the ghost snapshot taken by the model of poll_input; nothing reads it.
   Cadence (Proofs/SearchCadence.v): the node counter only moves by +1 right after a poll test at the same count, in negamax and in
   quiescence, so every multiple of 16,384 below the final count was polled (C09_polls_every_16384_nodes). *)
From Coq Require Import NArith ZArith List Bool.
From JV Require Import Gen.Consts Model.Chess Model.Eval Model.TT Model.Search Model.SearchChess Proofs.SearchFrame Proofs.SearchCadence Proofs.SearchPrompt.

Theorem C09_frame : forall pollp stop_at bypass g depth t rt ri,
  match chess_search pollp stop_at bypass g depth t rt ri with
  | SDone _ e _ =>
    match snap e with
    | Some (t', pt, _) => stopping e = true /\ tbl e = t' /\ pvtab e = pt
    | None => stopping e = false
    end
  | SFuel => True
  end.
Proof. intros. apply search_snapshot. Qed.

(* per call: the invariant "live TT / PV table = snapshot taken when the stop was first observed" is preserved *)
Theorem C09_frame_per_call : forall pollp stop_at bypass fuel g d a b (e : c_env),
  SInv _ _ e -> match chess_negamax pollp stop_at bypass fuel g d a b e with Val _ e' => SInv _ _ e' | OutOfFuel => True end.
Proof.
  intros pollp stop_at bypass fuel g d a b e H.
  exact (proj1 (search_frame_inv _ _ generate_moves c_make null_move evaluate (fun g => is_in_check g (white g)) hash c_half100
    move_eqb mcap c_promo c_hidx c_cap_score NULL_MOVE pollp stop_at bypass fuel) g d a b e H).
Qed.

(* cadence: at the end of search(), for every node count n below the final counter at which a poll is due, the trace holds a poll
   taken at count n -- every poll predicate, stop schedule, position, depth, TT content, history *)
Theorem C09_cadence : forall pollp stop_at bypass g depth t rt ri,
  match chess_search pollp stop_at bypass g depth t rt ri with
  | SDone _ e _ => forall n, (n < nodes e)%N -> pollp n = true -> exists k s, In (EPoll k n s) (trace e)
  | SFuel => True
  end.
Proof. intros. apply search_cadence. Qed.

(* the engine's predicate: the counter is tested against the mask INPUT_POLL_INTERVAL = 2^k - 1 (currently k = 14: every 16,384 nodes),
   so every multiple of INPUT_POLL_INTERVAL + 1 below the final count was polled (hook polls only add more).  Stated with the constant as
   it is in the source (regenerated on every run): still a theorem if the interval is retuned to another 2^k - 1. *)
Lemma poll_mask_is_ones : INPUT_POLL_INTERVAL = N.ones (N.log2 (INPUT_POLL_INTERVAL + 1)).
Proof. vm_compute. reflexivity. Qed.
Theorem C09_polls_every_16384_nodes : forall extra stopk bypass g depth t rt ri,
  match c_search extra stopk bypass g depth t rt ri with
  | SDone _ e _ => forall j, ((INPUT_POLL_INTERVAL + 1) * j < nodes e)%N -> exists k s, In (EPoll k ((INPUT_POLL_INTERVAL + 1) * j) s) (trace e)
  | SFuel => True
  end.
Proof.
  intros. unfold c_search. pose proof (C09_cadence (c_pollp extra) (c_stop_at stopk) bypass g depth t rt ri) as H.
  destruct (chess_search _ _ _ _ _ _ _ _) as [outs e s|]; [|exact I].
  intros j L. apply (H _ L). unfold c_pollp. apply orb_true_iff. left. apply N.eqb_eq.
  rewrite poll_mask_is_ones at 2. rewrite N.land_ones.
  assert (E : (INPUT_POLL_INTERVAL + 1 = 2 ^ N.log2 (INPUT_POLL_INTERVAL + 1))%N) by (vm_compute; reflexivity).
  rewrite E at 1. rewrite N.mul_comm. apply N.mod_mul. apply N.pow_nonzero. discriminate.
Qed.
(* and the interval is a few tens of thousands of nodes at most *)
Theorem C09_poll_interval_is_small : (INPUT_POLL_INTERVAL + 1 <= 65536)%N.
Proof. vm_compute. discriminate. Qed.

(* bounded work after the stop: in the trace of every search, at most 2 * MAX_PLY^2 = 8192 nodes of the main search are entered while
   the stop flag is set (a node entered with the flag set searches at most one child and returns; a frame whose child saw the stop
   finishes at most two further searches of that same move).  Quiescence nodes are not counted: quiescence never tests the flag. *)
Definition entered_while_stopping (ev : event game move) : bool := match ev with ENode false _ _ _ _ _ _ true _ _ => true | _ => false end.
Theorem C09_bounded_work_after_stop : forall pollp stop_at bypass g depth t rt ri,
  match chess_search pollp stop_at bypass g depth t rt ri with
  | SDone _ e _ => (length (filter entered_while_stopping (trace e)) <= 2 * MAXPLY * MAXPLY)%nat
  | SFuel => True
  end.
Proof. intros. apply search_prompt. Qed.

(* the deadline half, in the main-loop model (Model/Uci.v): a search started with a time budget is told to stop no later than the poll that first finds
   the budget used up (poll 0 when the budget is 0), whatever arrives on the input meanwhile -- and from that poll on the stop is reported at every
   poll, so all the theorems above (frame, bounded work) apply with that schedule *)
From JV Require Import Model.Fen Model.Uci.
Theorem C09_an_expired_deadline_stops_the_search : forall dl max_time input,
  max_time <> (-1)%Z ->
  exists s, stop_index dl max_time input = Some s /\ (s <= if (max_time =? 0)%Z then O else dl)%nat.
Proof.
  intros dl max_time input NE. unfold stop_index, deadline_poll.
  destruct (Z.eqb_spec max_time (-1)) as [E|_]; [contradiction|].
  destruct (max_time =? 0)%Z; destruct (stop_poll input) as [s|]; eexists; split; try reflexivity; auto using Nat.le_min_r.
Qed.
Theorem C09_session_search_stops_at_the_deadline : forall extra dl u depth max_time input,
  max_time <> (-1)%Z ->
  exists s, (s <= if (max_time =? 0)%Z then O else dl)%nat /\
    session_search extra dl u depth max_time input =
    chess_search (c_pollp extra) (fun k => Nat.leb s k) false (u_game u) depth (u_tt u)
                 (u_rep u ++ repeat 0%N (N.to_nat REP_CAPACITY - List.length (u_rep u)))%list (List.length (u_rep u)).
Proof.
  intros extra dl u depth max_time input NE. destruct (C09_an_expired_deadline_stops_the_search dl max_time input NE) as (s & E & L).
  exists s. split; [exact L|]. unfold session_search. rewrite E. reflexivity.
Qed.

Print Assumptions C09_frame.
Print Assumptions C09_an_expired_deadline_stops_the_search.
Print Assumptions C09_session_search_stops_at_the_deadline.
Print Assumptions C09_frame_per_call.
Print Assumptions C09_cadence.
Print Assumptions C09_polls_every_16384_nodes.
Print Assumptions C09_poll_interval_is_small.
Print Assumptions C09_bounded_work_after_stop.
