(* C09 -- an interrupted search stops promptly and uses nothing computed afterwards.
   Proved for every position, depth, TT content, history, poll predicate and stop schedule: at the end of search() the
   transposition table and the whole PV table (hence the reported best move pv_table[0][0]) are exactly those at the moment the
   stop / deadline was first observed by a poll; if no poll observed one, the search was not stopped.
   `snap` is the ghost snapshot taken by the model of poll_input; nothing reads it. *)
From Coq Require Import NArith ZArith List.
From JV Require Import Gen.Consts Model.Chess Model.Eval Model.TT Model.Search Model.SearchChess Proofs.SearchFrame.

Theorem C09_frame : forall pollp stop_at bypass g depth t rt ri,
  match chess_search pollp stop_at bypass g depth t rt ri with
  | SDone _ e _ =>
    match snap e with
    | Some (t', pt, _) => stopping e = true /\ tbl e = t' /\ pvtab e = pt
    | None => stopping e = false
    end
  | SFuel => True
  end.
Proof. intros. apply search_snapshot. Qed.

(* per call: the invariant "live TT / PV table = snapshot taken when the stop was first observed" is preserved *)
Theorem C09_frame_per_call : forall pollp stop_at bypass fuel g d a b (e : c_env),
  SInv _ _ e -> match chess_negamax pollp stop_at bypass fuel g d a b e with Val _ e' => SInv _ _ e' | OutOfFuel => True end.
Proof.
  intros pollp stop_at bypass fuel g d a b e H.
  exact (proj1 (search_frame_inv _ _ generate_moves c_make null_move evaluate (fun g => is_in_check g (white g)) hash c_half100
    move_eqb mcap c_promo c_hidx c_cap_score NULL_MOVE pollp stop_at bypass fuel) g d a b e H).
Qed.

Print Assumptions C09_frame.
Print Assumptions C09_frame_per_call.
