(* C07 -- repetition draws are recognised exactly with respect to the game history (after fix 67301be in /repo).
   Proved for every position, history, TT content and schedule:
   complete -- a non-root negamax node whose own key occurs in the recorded game history returns 0 before the TT is consulted
               (TT untouched, no TT hit counted, no node counted; the only events are the node entry and the repetition hit);
   sound    -- the repetition decision is true exactly when the node is not the root and its OWN key is in the recorded history.
   That the recorded history seen at every node of a search is the game history of the root (balance of push/pop) is C17.
   Keys stand for positions: two different positions sharing a 64-bit key is outside the model (trusted base).
   On traces of whole searches the statement is decided per run by the monitor mon_nodes (bad07m / bad07f). *)
From Coq Require Import NArith ZArith List Bool.
From JV Require Import Gen.Consts Model.Chess Model.Eval Model.TT Model.Search Model.SearchChess Proofs.RepProofs.
Import ListNotations.

Theorem C07_complete : forall pollp stop_at bypass fuel g d a b (e : c_env),
  ply e <> O -> In (hash g) (history_keys _ _ e) ->
  exists e', chess_negamax pollp stop_at bypass (S fuel) g d a b e = Val 0%Z e' /\
    trace e' = ERepHit :: node_event _ _ g d a b e :: trace e /\ tbl e' = tbl e /\ tt_hits e' = tt_hits e /\ nodes e' = nodes e.
Proof. intros. apply rep_complete; assumption. Qed.

Theorem C07_sound : forall (e : c_env) g,
  rep_decision _ _ hash e g = true <-> ply e <> O /\ In (hash g) (history_keys _ _ e).
Proof.
  intros. exact (rep_decision_iff game move generate_moves c_make null_move evaluate (fun g => is_in_check g (white g)) hash c_half100
    move_eqb mcap c_promo c_hidx c_cap_score NULL_MOVE (fun _ => false) false e g).
Qed.

Print Assumptions C07_complete.
Print Assumptions C07_sound.
