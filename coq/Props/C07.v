(* C07 -- repetition draws are recognised exactly with respect to the game history (after fix 67301be in /repo).
   Proved for every position, history, TT content and schedule:
   complete -- a non-root negamax node whose own key occurs in the recorded game history returns 0 before the TT is consulted
               (TT untouched, no TT hit counted, no node counted; the only events are the node entry and the repetition hit);
   sound    -- the repetition decision is true exactly when the node is not the root and its OWN key is in the recorded history.
   That the recorded history seen at every node of every search is exactly the game history of the root is
   C07_every_node_tests_against_the_game_history (Proofs/SearchHistory.v).
   Keys stand for positions: two different positions sharing a 64-bit key is outside the model (trusted base).
   On traces of whole searches the statement is decided per run by the monitor mon_nodes (bad07m / bad07f). *)
From Coq Require Import NArith ZArith List Bool.
From JV Require Import Gen.Consts Model.Chess Model.Eval Model.TT Model.Search Model.SearchChess Proofs.RepProofs Proofs.SearchHistory.
Import ListNotations.

Theorem C07_complete : forall pollp stop_at bypass fuel g d a b (e : c_env),
  ply e <> O -> In (hash g) (history_keys _ _ e) ->
  exists e', chess_negamax pollp stop_at bypass (S fuel) g d a b e = Val 0%Z e' /\
    trace e' = ERepHit :: node_event _ _ g d a b e :: trace e /\ tbl e' = tbl e /\ tt_hits e' = tt_hits e /\ nodes e' = nodes e.
Proof. intros. apply rep_complete; assumption. Qed.

Theorem C07_sound : forall (e : c_env) g,
  rep_decision _ _ hash e g = true <-> ply e <> O /\ In (hash g) (history_keys _ _ e).
Proof.
  intros. exact (rep_decision_iff game move generate_moves c_make null_move evaluate (fun g => is_in_check g (white g)) hash c_half100
    move_eqb mcap c_promo c_hidx c_cap_score NULL_MOVE (fun _ => false) false e g).
Qed.

(* at the level of whole searches: every node of the main search carries the root's repetition index and the first ri slots of
   the table (the game history recorded by `position`) never change -- so at EVERY such node, of every search, the repetition
   test of C07_sound / C07_complete compares the node's own key with exactly the game history (the search writes a successor's
   key into the slot above the history and takes the index back before descending; only quiescence lets the index grow) *)
Theorem C07_every_node_tests_against_the_game_history : forall pollp stop_at bypass g depth t rt ri,
  match chess_search pollp stop_at bypass g depth t rt ri with
  | SDone _ e _ =>
    Forall (fun ev => match ev with ENode false _ _ _ _ _ _ _ r _ => r = ri | _ => True end) (trace e) /\
    firstn ri (rtab e) = firstn ri rt /\ ridx e = ri
  | SFuel => True
  end.
Proof. intros. apply search_history. Qed.

Print Assumptions C07_complete.
Print Assumptions C07_sound.
Print Assumptions C07_every_node_tests_against_the_game_history.
