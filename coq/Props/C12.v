(* C12 -- every info line is well-formed and its PV is a legal line.
   Proved for every position, depth, TT content, history and schedule: within one search the info lines have strictly increasing
   depths and non-decreasing node counts; the rendered line has exactly the shape
   `info score (cp Z | mate Z) depth N nodes N time T pv (move )*`.
   PV legality under the rules (C12_pv_legal_full) is proved for every position satisfying the invariant; on every run every PV of every
   info line the real engine prints is replayed on the rules-of-chess specification (cold and warm TT, with and without history). *)
From Coq Require Import NArith ZArith List Bool String.
From JV Require Import Gen.Consts Model.Chess Model.Eval Model.TT Model.Search Model.SearchChess Model.Monitors
     Proofs.SearchBalance Proofs.SearchOutputs Proofs.SearchPV Proofs.MoveGenProofs Proofs.LegalInv Proofs.RulesLevel Proofs.StartPos.
Import ListNotations.

Theorem C12_monotone : forall pollp stop_at bypass g depth t rt ri r e s,
  chess_search pollp stop_at bypass g depth t rt ri = SDone r e s ->
  exists infos m, r = infos ++ [OBest m] /\ infos_ok move infos (S (S (S (max_depth_of depth)))) (nodes e).
Proof. intros pollp stop_at bypass g depth t rt ri r e s H. apply search_outputs in H. exact H. Qed.

(* infos_ok unfolds to: consecutive info lines have d1 < d2 and n1 <= n2 *)
Theorem C12_monotone_meaning : forall l s1 m1 d1 n1 pv1 s2 m2 d2 n2 pv2 D Nn,
  infos_ok move (l ++ [OInfo s1 m1 d1 n1 pv1] ++ [OInfo s2 m2 d2 n2 pv2]) D Nn -> (d1 < d2)%nat /\ (n1 <= n2)%N.
Proof.
  intros l s1 m1 d1 n1 pv1 s2 m2 d2 n2 pv2 D Nn H. rewrite app_assoc in H.
  inversion H as [|l0 s m d nd pv d' n' H0 Hd Hn E]; [destruct (l ++ [_]); discriminate|].
  apply app_inj_tail in E. destruct E as [E1 E2]. injection E2 as -> -> -> -> ->. subst l0.
  inversion H0 as [|l1 s' m' d'' nd' pv' d3 n3 H1 Hd1 Hn1 E3]; [destruct l; discriminate|].
  apply app_inj_tail in E3. destruct E3 as [_ E4]. injection E4 as -> -> -> -> ->. split; assumption.
Qed.

Theorem C12_format : forall score mate depth nodes pv,
  render_out (OInfo score mate depth nodes pv) =
  ("info score " ++ (match mate with Some n => "mate " ++ string_of_Z n | None => "cp " ++ string_of_Z score end) ++
   " depth " ++ string_of_N (N.of_nat depth) ++ " nodes " ++ string_of_N nodes ++ " time T pv " ++
   fold_right (fun m acc => to_uci m ++ " " ++ acc) "" pv)%string.
Proof. reflexivity. Qed.

(* move_eqb is reflexive (needed to recognise the initial null move) *)
Lemma move_eqb_refl : forall m, move_eqb m m = true.
Proof. intros m. unfold move_eqb. rewrite !N.eqb_refl, !Bool.eqb_reflx. reflexivity. Qed.

(* a line of moves, each generated in the position it is played from and accepted by make_search_move *)
Definition chess_line_ok := line_ok game move generate_moves c_make.
Definition chess_out_ok := out_ok game move generate_moves c_make is_legal.

(* For every position (no well-formedness needed), depth, TT content (cold or warm), history, poll predicate and stop schedule:
   the PV of every info line is a line of generated moves accepted by make, played from the searched position; and the best move
   is a generated move accepted by make, or the first move passing is_legal, or no move passes is_legal. *)
Theorem C12_pv_legal : forall pollp stop_at bypass g depth t rt ri,
  match chess_search pollp stop_at bypass g depth t rt ri with
  | SDone r _ _ => Forall (chess_out_ok g) r
  | SFuel => True
  end.
Proof.
  intros. unfold chess_search, chess_out_ok.
  apply (search_outputs_legal game move generate_moves c_make null_move evaluate (fun g => is_in_check g (white g)) hash c_half100
           move_eqb mcap c_promo c_hidx c_cap_score NULL_MOVE is_legal pollp stop_at bypass move_eqb_refl).
Qed.

(* the rules-level statement: for every position satisfying the invariant, every PV the search prints is a line of moves that are
   legal under the rules, each played in the rules' successor of the previous one (mon_pv = ChessSpec.legal_line on the abstraction) --
   every depth, TT content, history, poll predicate and stop schedule; through C01 (accepted generated move = legal move of the rules)
   and C02 (successor refinement, Proofs/RulesLevel.v) *)
Theorem C12_pv_legal_full : forall pollp stop_at bypass g depth t rt ri, legal_inv g ->
  match chess_search pollp stop_at bypass g depth t rt ri with
  | SDone outs _ _ => Forall (fun o => match o with OInfo _ _ _ _ pv => mon_pv g pv = true | _ => True end) outs
  | SFuel => True
  end.
Proof.
  intros pollp stop_at bypass g depth t rt ri LI. pose proof (C12_pv_legal pollp stop_at bypass g depth t rt ri) as H.
  destruct (chess_search pollp stop_at bypass g depth t rt ri) as [outs e s|]; [|exact I].
  eapply Forall_impl; [|exact H]. intros o. destruct o as [sc mt d n pv|m]; [|auto]. cbn. intros L. apply line_is_legal_line; assumption.
Qed.
Theorem C12_pv_legal_from_the_start_position : forall pollp stop_at bypass g depth t rt ri, chess_reach start_game g ->
  match chess_search pollp stop_at bypass g depth t rt ri with
  | SDone outs _ _ => Forall (fun o => match o with OInfo _ _ _ _ pv => mon_pv g pv = true | _ => True end) outs
  | SFuel => True
  end.
Proof. intros. apply C12_pv_legal_full. apply reachable_from_start_inv. assumption. Qed.

Print Assumptions C12_monotone.
Print Assumptions C12_monotone_meaning.
Print Assumptions C12_format.
Print Assumptions C12_pv_legal.
Print Assumptions C12_pv_legal_full.
Print Assumptions C12_pv_legal_from_the_start_position.
