(* C04 -- position keys.  Proved: the compiled key tables are the model's tables; no zero, no repeated entry, no 1..4
   distinct entries XOR to zero; the from-scratch key depends only on placement / side / rights / ep; the search's null move
   keeps stored key = recomputed key; make_search_move keeps stored key = recomputed key for every position and every move that
   fits the position (C04_incremental: move_fits is a decidable condition on (position, move) -- the moved man stands on the
   from-square, the squares the move sets are clear, the men it removes are there), and every move generated for a consistent
   position (GenProofs.cons: disjoint piece sets, occupancies = unions, rights and en-passant square valid) fits it
   (C04_incremental_generated).  Consistency itself is preserved by make (Props/C02.v), so the key invariant holds along every path
   of generated moves from a consistent position (Props/C06.v).  Per run: the extracted move_fits is evaluated on every generated
   move of every stream position, and the engine's stored key is compared with its own from-scratch key after every move. *)
From Coq Require Import NArith List.
From JV Require Import Gen.Consts Model.Chess Model.Abs Proofs.MoveGenProofs Proofs.ZobristProofs Proofs.KeyProofs Proofs.GenProofs Proofs.LegalInv Proofs.LegalInvB Proofs.KeyDistinct Model.SearchChess.
Local Open Scope N_scope.

Theorem C04_tables_match_compiled :
  PIECE_KEYS = DUMP_PIECE_KEYS /\ ENPASSANT_KEYS = DUMP_ENPASSANT_KEYS /\ CASTLE_KEYS = DUMP_CASTLE_KEYS /\ SIDE_KEY = DUMP_SIDE_KEY.
Proof. exact keys_match_dump. Qed.

Theorem C04_tables :
  NoDup all_keys /\ ~ In 0 all_keys /\
  (forall a b, In a all_keys -> In b all_keys -> a <> b -> N.lxor a b <> 0) /\
  (forall a b c, In a all_keys -> In b all_keys -> In c all_keys -> a <> b -> a <> c -> b <> c ->
                 N.lxor (N.lxor a b) c <> 0) /\
  (forall a b c d, In a all_keys -> In b all_keys -> In c all_keys -> In d all_keys ->
                 a <> b -> c <> d -> a <> c -> a <> d -> b <> c -> b <> d -> N.lxor (N.lxor a b) (N.lxor c d) <> 0).
Proof. exact keys_independent. Qed.

Theorem C04_function : forall g1 g2,
  bbs g1 = bbs g2 -> white g1 = white g2 -> castling g1 = castling g2 -> ep g1 = ep g2 ->
  make_zobrist_hash g1 = make_zobrist_hash g2.
Proof. exact key_function. Qed.

Theorem C04_null_move : forall g, keyok g -> keyok (null_move g).
Proof. exact null_move_keyok. Qed.

Theorem C04_incremental : forall g m g', length (bbs g) = 12%nat -> keyok g -> move_fits g m = true ->
  make_search_move g m = Made g' -> keyok g' /\ length (bbs g') = 12%nat.
Proof. exact make_keyok. Qed.

(* ... and every move generated for a consistent position fits it: the incremental key is right after every generated move *)
Theorem C04_incremental_generated : forall g all m g', cons g -> keyok g -> In m (generate_moves g all) ->
  make_search_move g m = Made g' -> keyok g'.
Proof. exact make_keyok_generated. Qed.

Theorem C04_generated_moves_fit : forall g all m, cons g -> In m (generate_moves g all) -> move_fits g m = true.
Proof. intros g all m C H. exact (generated_moves_fit g C all m H). Qed.

(* after ANY sequence of accepted generated moves (and passes made while not in check) from a position satisfying the executable
   invariant, the stored key equals the recomputed key *)
Theorem C04_key_right_after_any_play : forall g0 g, legal_inv_b g0 = true -> chess_reach g0 g -> keyok g.
Proof. intros g0 g LB R. destruct (reach_legal g0 g (legal_inv_b_sound g0 LB) R) as (_ & _ & _ & _ & K). exact K. Qed.

(* the property's first sentence in one statement: from a position satisfying the invariant (which includes stored key = recomputed
   key) every legal move leads to a position satisfying it again *)
Theorem C04_incremental_full : forall g m g', legal_inv g -> In m (legal_moves g) -> make_search_move g m = Made g' -> keyok g'.
Proof.
  intros g m g' LI HI M. unfold legal_moves, legal_values in HI. apply filter_In in HI. destruct HI as [HI _].
  assert (L' : legal_inv g') by (apply (legal_step g true m g' LI HI); unfold c_make; rewrite M; reflexivity).
  destruct L' as (_ & _ & _ & _ & K). exact K.
Qed.

(* positions that differ only by the side to move, by one man moved to an empty square, or by a simple capture never share a key
   (from-scratch key; by XOR-independence of 1, 2 and 3 table entries) *)
Theorem C04_side_to_move_changes_key : forall g, make_zobrist_hash (with_side g (negb (white g))) <> make_zobrist_hash g.
Proof. exact side_changes_key. Qed.
Theorem C04_quiet_move_changes_key : forall g p f t, length (bbs g) = 12%nat -> p < 12 -> f < 64 -> t < 64 -> f <> t ->
  N.testbit (bb g p) f = true -> N.testbit (bb g p) t = false ->
  make_zobrist_hash (with_bbs g (moved (bbs g) p f t)) <> make_zobrist_hash g.
Proof. exact quiet_move_changes_key. Qed.
Theorem C04_simple_capture_changes_key : forall g p f t v, length (bbs g) = 12%nat -> p < 12 -> v < 12 -> p <> v -> f < 64 -> t < 64 -> f <> t ->
  N.testbit (bb g p) f = true -> N.testbit (bb g p) t = false -> N.testbit (bb g v) t = true ->
  make_zobrist_hash (with_bbs g (captured (bbs g) p f t v)) <> make_zobrist_hash g.
Proof. exact simple_capture_changes_key. Qed.

Print Assumptions C04_tables_match_compiled.
Print Assumptions C04_tables.
Print Assumptions C04_function.
Print Assumptions C04_null_move.
Print Assumptions C04_incremental.
Print Assumptions C04_incremental_generated.
Print Assumptions C04_generated_moves_fit.
Print Assumptions C04_key_right_after_any_play.
Print Assumptions C04_incremental_full.
Print Assumptions C04_side_to_move_changes_key.
Print Assumptions C04_quiet_move_changes_key.
Print Assumptions C04_simple_capture_changes_key.
