(* Reference value for C19: plain negamax over legal moves (no alpha/beta, no move ordering, no TT, no PVS, no null move, no
   reductions), with one ply of extension for a position in check, capture-only quiescence with stand-pat at the horizon, the
   engine's static evaluation at the leaves, checkmate scored by distance and stalemate as zero, and the engine's two horizon
   rules (ply limit, half-move clock = 100).  Game history empty (no repetition can occur).
   `minimax` is the specification (AlphaBeta.val: plain maximum over all children); `minimax_fast` evaluates the same tree with the
   verified fail-soft alpha-beta of Spec/AlphaBeta.v and is proved equal -- it is what the extracted oracle runs. *)
From Coq Require Import NArith ZArith List Bool.
From JV Require Import Gen.Consts Model.Bits Model.Chess Model.Eval Model.Search Model.SearchChess Spec.AlphaBeta.
Import ListNotations.
Local Open Scope Z_scope.

(* legal successors; most valuable captures first (the order is irrelevant for the value -- it only helps the verified
   alpha-beta evaluator prune) *)
Fixpoint insert_desc (x : Z * game) (l : list (Z * game)) : list (Z * game) :=
  match l with [] => [x] | y :: r => if fst y <? fst x then x :: l else y :: insert_desc x r end.
Definition successors (g : game) (all : bool) : list game :=
  map snd (fold_right (fun m acc => match c_make g m with
                                    | Some g' => insert_desc ((if mcap m then c_cap_score g m else 0), g') acc
                                    | None => acc end) [] (generate_moves g all)).

(* a search node: position, quiescence?, remaining depth, ply *)
Record mnode := mkN { n_g : game; n_q : bool; n_depth : nat; n_ply : nat }.

Definition expand_q (g : game) (ply : nat) : shape mnode :=
  let ev := evaluate g in
  if Nat.ltb (MAXPLY - 1) ply || c_half100 g then Leaf mnode ev
  else Inner mnode (Some ev) (map (fun g' => mkN g' true 0 (S ply)) (successors g false)).

Definition expand (x : mnode) : shape mnode :=
  let g := n_g x in let ply := n_ply x in
  if n_q x then expand_q g ply
  else if Nat.leb (MAXPLY - 1) ply then Leaf mnode (evaluate g)
  else if Nat.eqb (n_depth x) 0 || c_half100 g then expand_q g ply
  else
    let inchk := is_in_check g (white g) in
    let nd := if inchk then S (n_depth x) else n_depth x in
    match successors g true with
    | [] => Leaf mnode (if inchk then - MATE_VALUE + Z.of_nat ply else 0)
    | cs => Inner mnode None (map (fun g' => mkN g' false (nd - 1) (S ply)) cs)
    end.

Definition minimax (g : game) (depth : N) : Z := val mnode expand FUEL (mkN g false (N.to_nat depth) 0).
Definition minimax_fast (g : game) (depth : N) : Z := ab mnode expand FUEL (mkN g false (N.to_nat depth) 0) None None.

Theorem minimax_fast_correct g depth : minimax_fast g depth = minimax g depth.
Proof. apply ab_full_window. Qed.
