(* Reference value for C19 on chess positions: the generic reference tree of Spec/GameTree.v (plain negamax over the legal
   successors: no alpha/beta, no move ordering, no TT, no PVS, no null move, no reductions; one ply of extension for a position in
   check, capture-only quiescence with stand-pat at the horizon, the engine's static evaluation at the leaves, checkmate scored by
   distance and stalemate as zero, the two horizon rules) instantiated with the chess model.
   `minimax` is the specification; `minimax_fast` evaluates the same tree, with each node's successors listed most valuable
   capture first, by the verified fail-soft alpha-beta of Spec/AlphaBeta.v and is proved equal -- it is what the extracted oracle
   runs (the order cannot change a maximum: AlphaBeta.val_perm). *)
From Coq Require Import NArith ZArith List Bool Permutation.
From JV Require Import Gen.Consts Model.Bits Model.Chess Model.Eval Model.Search Model.SearchChess Spec.AlphaBeta Spec.GameTree.
Import ListNotations.
Local Open Scope Z_scope.

Definition c_in_check (g : game) : bool := is_in_check g (white g).
Notation mnode := (gnode game).

Definition minimax (g : game) (depth : N) : Z :=
  gminimax game move generate_moves c_make evaluate c_in_check c_half100 FUEL g (N.to_nat depth).

(* legal successors, most valuable captures first *)
Fixpoint insert_desc (x : Z * game) (l : list (Z * game)) : list (Z * game) :=
  match l with [] => [x] | y :: r => if fst y <? fst x then x :: l else y :: insert_desc x r end.
Definition scored_successors (g : game) (ms : list move) : list (Z * game) :=
  fold_right (fun m acc => match c_make g m with
                           | Some g' => insert_desc ((if mcap m then c_cap_score g m else 0), g') acc
                           | None => acc end) [] ms.
Definition successors (g : game) (all : bool) : list game := map snd (scored_successors g (generate_moves g all)).

Definition expand_sorted : mnode -> shape mnode := gexpand_with game evaluate c_in_check c_half100 successors.
Definition minimax_fast (g : game) (depth : N) : Z := ab mnode expand_sorted FUEL (mkN g false (N.to_nat depth) 0) None None.

Lemma insert_desc_perm x l : Permutation (insert_desc x l) (x :: l).
Proof.
  induction l as [|y r IH]; cbn [insert_desc]; [apply Permutation_refl|].
  destruct (fst y <? fst x); [apply Permutation_refl|].
  eapply Permutation_trans; [apply perm_skip; exact IH|apply perm_swap].
Qed.

Lemma successors_perm g all : Permutation (successors g all) (gsuccs game move generate_moves c_make g all).
Proof.
  unfold successors, gsuccs, succs_of. induction (generate_moves g all) as [|m r IH]; cbn [scored_successors fold_right flat_map map].
  - apply Permutation_refl.
  - fold (scored_successors g r). destruct (c_make g m) as [g'|]; cbn [app]; [|exact IH].
    eapply Permutation_trans; [apply Permutation_map; apply insert_desc_perm|]. cbn [map snd]. apply perm_skip. exact IH.
Qed.

Lemma expand_sorted_perm x : shape_perm mnode (expand_sorted x) (gexpand game move generate_moves c_make evaluate c_in_check c_half100 x).
Proof.
  unfold expand_sorted, gexpand, gexpand_with.
  assert (Q : forall g ply, shape_perm mnode (shape_q game evaluate c_half100 g ply (successors g false))
                                             (shape_q game evaluate c_half100 g ply (gsuccs game move generate_moves c_make g false))).
  { intros g ply. unfold shape_q. destruct (_ || _); cbn [shape_perm]; [reflexivity|]. split; [reflexivity|].
    apply Permutation_map. apply successors_perm. }
  destruct (n_q x); [apply Q|]. destruct (Nat.leb _ _); [reflexivity|]. destruct (_ || _); [apply Q|].
  unfold shape_n. pose proof (successors_perm (n_g x) true) as P.
  destruct (successors (n_g x) true) as [|c cs]; destruct (gsuccs game move generate_moves c_make (n_g x) true) as [|c' cs'].
  - reflexivity.
  - apply Permutation_nil in P. discriminate.
  - apply Permutation_sym, Permutation_nil in P. discriminate.
  - cbn [shape_perm]. split; [reflexivity|]. apply Permutation_map. exact P.
Qed.

Theorem minimax_fast_correct g depth : minimax_fast g depth = minimax g depth.
Proof.
  unfold minimax_fast, minimax, gminimax. rewrite ab_full_window. apply val_perm. exact expand_sorted_perm.
Qed.
