(* The reference game tree of C19 over an abstract game interface (the same interface the search model is written against):
   plain negamax over the legal successors in generation order -- no alpha/beta, no move ordering, no table, no PVS, no null
   move, no reductions -- with one ply of extension for a position in check, capture-only quiescence with stand-pat at the
   horizon, the static evaluation at the leaves, checkmate scored by distance from the root and stalemate as zero, and the two
   horizon rules of the engine (ply limit, half-move clock = 100).  Game history empty (no repetition can occur).
   V x is the value of node x; V_unfold is its defining equation (no fuel), V_unfold_perm the same equation for any
   enumeration order of the moves. *)
From Coq Require Import NArith ZArith List Bool Lia Permutation.
From JV Require Import Gen.Consts Model.Search Spec.AlphaBeta.
Import ListNotations.
Local Open Scope Z_scope.

Section GT.
Variables (pos move : Type).
Variable gen : pos -> bool -> list move.
Variable make : pos -> move -> option pos.
Variable evalf : pos -> Z.
Variable in_check : pos -> bool.
Variable half100 : pos -> bool.

(* a search node: position, quiescence?, remaining depth, ply *)
Record gnode := mkN { n_g : pos; n_q : bool; n_depth : nat; n_ply : nat }.

Definition succs_of (g : pos) (ms : list move) : list pos :=
  flat_map (fun m => match make g m with Some g' => [g'] | None => [] end) ms.
Definition gsuccs (g : pos) (all : bool) : list pos := succs_of g (gen g all).

(* the shape of a node given the list of its successor positions *)
Definition shape_q (g : pos) (ply : nat) (cs : list pos) : shape gnode :=
  let ev := evalf g in
  if Nat.ltb (MAXPLY - 1) ply || half100 g then Leaf gnode ev
  else Inner gnode (Some ev) (map (fun g' => mkN g' true 0 (S ply)) cs).

Definition shape_n (g : pos) (depth ply : nat) (cs : list pos) : shape gnode :=
  let inchk := in_check g in
  let nd := if inchk then S depth else depth in
  match cs with
  | [] => Leaf gnode (if inchk then - MATE_VALUE + Z.of_nat ply else 0)
  | _ => Inner gnode None (map (fun g' => mkN g' false (nd - 1) (S ply)) cs)
  end.

(* which successor list a node expands over: None = a leaf by one of the horizon rules, Some (q, all) otherwise *)
Definition gexpand_with (succ : pos -> bool -> list pos) (x : gnode) : shape gnode :=
  let g := n_g x in let ply := n_ply x in
  if n_q x then shape_q g ply (succ g false)
  else if Nat.leb (MAXPLY - 1) ply then Leaf gnode (evalf g)
  else if Nat.eqb (n_depth x) 0 || half100 g then shape_q g ply (succ g false)
  else shape_n g (n_depth x) ply (succ g true).

Definition gexpand : gnode -> shape gnode := gexpand_with gsuccs.

Definition gminimax (F : nat) (g : pos) (depth : nat) : Z := val gnode gexpand F (mkN g false depth 0).

(* ---- the value without fuel ---- *)
Definition V (x : gnode) : Z := val gnode gexpand (MAXPLY + 2 - n_ply x) x.

Definition child_fold (cs : list gnode) (base : option Z) : option Z :=
  fold_left (fun acc c => omax acc (Some (- V c))) cs base.

Lemma children_ply succ x base cs : gexpand_with succ x = Inner gnode base cs ->
  (n_ply x + 1 <= MAXPLY)%nat /\ forall c, In c cs -> n_ply c = S (n_ply x).
Proof.
  unfold gexpand_with, shape_q, shape_n. cbn zeta.
  assert (Q : forall l, (if Nat.ltb (MAXPLY - 1) (n_ply x) || half100 (n_g x) then Leaf gnode (evalf (n_g x))
                          else Inner gnode (Some (evalf (n_g x))) (map (fun g' => mkN g' true 0 (S (n_ply x))) l)) = Inner gnode base cs ->
                         (n_ply x + 1 <= MAXPLY)%nat /\ forall c, In c cs -> n_ply c = S (n_ply x)).
  { intros l. destruct (Nat.ltb (MAXPLY - 1) (n_ply x)) eqn:L; cbn [orb]; [discriminate|]. apply Nat.ltb_ge in L.
    destruct (half100 (n_g x)); [discriminate|]. intros E. injection E as _ <-. split; [change MAXPLY with 64%nat in *; lia|].
    intros c Hc. apply in_map_iff in Hc. destruct Hc as (g' & <- & _). reflexivity. }
  destruct (n_q x); [apply Q|].
  destruct (Nat.leb (MAXPLY - 1) (n_ply x)) eqn:L; [discriminate|]. apply Nat.leb_gt in L.
  destruct (Nat.eqb (n_depth x) 0 || half100 (n_g x)); [apply Q|].
  destruct (succ (n_g x) true) as [|g0 l]; [discriminate|]. intros E. injection E as _ <-.
  split; [change MAXPLY with 64%nat in *; lia|].
  intros c [<-|Hc]; [reflexivity|]. apply in_map_iff in Hc. destruct Hc as (g' & <- & _). reflexivity.
Qed.

(* the defining equation of V *)
Lemma V_unfold x : (n_ply x <= MAXPLY)%nat ->
  V x = match gexpand x with Leaf _ v => v | Inner _ base cs => oval (child_fold cs base) end.
Proof.
  intros Hp. unfold V at 1.
  replace (MAXPLY + 2 - n_ply x)%nat with (S (MAXPLY + 1 - n_ply x)) by lia. cbn [val].
  destruct (gexpand x) as [v|base cs] eqn:E; [reflexivity|].
  destruct (children_ply gsuccs x base cs E) as (_ & C). f_equal. unfold child_fold.
  apply fold_omax_ext. intros c Hc. unfold V. rewrite (C c Hc). f_equal.
Qed.

(* any larger fuel computes the same value *)
Lemma val_stable F : forall x, (n_ply x <= MAXPLY)%nat -> (MAXPLY + 2 - n_ply x <= F)%nat -> val gnode gexpand F x = V x.
Proof.
  induction F as [|F IH]; intros x Hp Hf; [lia|].
  rewrite V_unfold by exact Hp. cbn [val].
  destruct (gexpand x) as [v|base cs] eqn:E; [reflexivity|].
  destruct (children_ply gsuccs x base cs E) as (B & C). f_equal. unfold child_fold.
  apply fold_omax_ext. intros c Hc. f_equal. apply IH; rewrite (C c Hc); lia.
Qed.

Theorem gminimax_V g depth : gminimax FUEL g depth = V (mkN g false depth 0).
Proof. unfold gminimax. apply val_stable; cbn [n_ply]; unfold FUEL; lia. Qed.

(* the same equation over any enumeration of the moves that is a permutation of the generated list *)
Lemma succs_perm g ms ms' : Permutation ms ms' -> Permutation (succs_of g ms) (succs_of g ms').
Proof. intros P. unfold succs_of. apply Permutation_flat_map. exact P. Qed.

Lemma succs_of_cons g m r : succs_of g (m :: r) = match make g m with Some g' => g' :: succs_of g r | None => succs_of g r end.
Proof. unfold succs_of. cbn [flat_map]. destruct (make g m); reflexivity. Qed.

Lemma Vq_unfold_perm g ply ms : (ply <= MAXPLY)%nat -> Permutation ms (gen g false) ->
  V (mkN g true 0 ply) =
  if Nat.ltb (MAXPLY - 1) ply || half100 g then evalf g
  else oval (child_fold (map (fun g' => mkN g' true 0 (S ply)) (succs_of g ms)) (Some (evalf g))).
Proof.
  intros Hp P. rewrite V_unfold by exact Hp. unfold gexpand, gexpand_with, shape_q. cbn [n_q n_g n_ply].
  destruct (Nat.ltb (MAXPLY - 1) ply || half100 g); [reflexivity|].
  f_equal. unfold child_fold. apply fold_omax_perm. apply Permutation_map. apply Permutation_sym. apply succs_perm. exact P.
Qed.

(* a non-quiescence node that goes straight to quiescence has the value of the quiescence node *)
Lemma Vn_horizon g depth ply : (ply <= MAXPLY)%nat -> Nat.leb (MAXPLY - 1) ply = false -> Nat.eqb depth 0 || half100 g = true ->
  V (mkN g false depth ply) = V (mkN g true 0 ply).
Proof.
  intros Hp L H. rewrite !V_unfold by exact Hp. unfold gexpand, gexpand_with. cbn [n_q n_g n_ply n_depth]. rewrite L, H.
  destruct (shape_q g ply (gsuccs g false)) as [v|base cs] eqn:E; [reflexivity|].
  f_equal.
Qed.

Lemma Vn_leaf g depth ply : (ply <= MAXPLY)%nat -> Nat.leb (MAXPLY - 1) ply = true -> V (mkN g false depth ply) = evalf g.
Proof.
  intros Hp L. rewrite V_unfold by exact Hp. unfold gexpand, gexpand_with. cbn [n_q n_g n_ply n_depth]. rewrite L. reflexivity.
Qed.

Lemma Vn_unfold_perm g depth ply ms : (ply <= MAXPLY)%nat -> Nat.leb (MAXPLY - 1) ply = false -> Nat.eqb depth 0 || half100 g = false ->
  Permutation ms (gen g true) ->
  V (mkN g false depth ply) =
  match succs_of g ms with
  | [] => if in_check g then - MATE_VALUE + Z.of_nat ply else 0
  | cs => oval (child_fold (map (fun g' => mkN g' false ((if in_check g then S depth else depth) - 1) (S ply)) cs) None)
  end.
Proof.
  intros Hp L H P. rewrite V_unfold by exact Hp. unfold gexpand, gexpand_with, shape_n. cbn [n_q n_g n_ply n_depth]. rewrite L, H.
  cbn zeta. pose proof (succs_perm g _ _ P) as PS. fold (gsuccs g true) in PS.
  destruct (gsuccs g true) as [|c0 cs0] eqn:E0.
  - apply Permutation_sym, Permutation_nil in PS. rewrite PS. reflexivity.
  - destruct (succs_of g ms) as [|c1 cs1] eqn:E1; [apply Permutation_nil in PS; discriminate|].
    f_equal. unfold child_fold. apply fold_omax_perm. apply Permutation_map. apply Permutation_sym. exact PS.
Qed.
End GT.
Arguments mkN {pos}.
Arguments n_g {pos}. Arguments n_q {pos}. Arguments n_depth {pos}. Arguments n_ply {pos}.
