(* Specification for C08: the last store into a slot since the last clear. No table, no arithmetic. *)
From Coq Require Import ZArith NArith List Bool.
From JV Require Import Gen.Consts Model.TT.
Import ListNotations.

Fixpoint last_store (ops : list op) (p : positive) : option (N * Z * N * flag * Z) :=
  match ops with
  | [] => None
  | Rec h s d f ply :: r => if Pos.eqb (slot h) p then Some (h, s, d, f, ply) else last_store r p
  | Clr :: _ => None
  end.

(* a store with exactly this key, since the last clear *)
Fixpoint stored_since_clear (ops : list op) (h : N) (d : N) : Prop :=
  match ops with
  | [] => False
  | Rec h' _ d' _ _ :: r => (h' = h /\ (d <= d')%N) \/ stored_since_clear r h d
  | Clr :: _ => False
  end.

(* ---- the property as a decidable monitor over one probe and the history before it (newest first) ----
   Used (extracted) to judge the real engine's answers directly against the specification, and proved
   (Proofs/TTProofs.v, monitor_accepts_model) to accept every answer of the model for every history. *)
Local Open Scope Z_scope.

Definition rebase_spec (s p q : Z) : Z :=
  if s <? - MATE_BOUND then s - p + q else if s >? MATE_BOUND then s + p - q else s.

Fixpoint any_store (ops : list op) (P : N -> Z -> N -> flag -> Z -> bool) : bool :=
  match ops with
  | [] => false
  | Clr :: _ => false
  | Rec h s d f p :: r => P h s d f p || any_store r P
  end.

Definition consistent (h : N) (d : N) (a b q r : Z) (h' : N) (s : Z) (dep : N) (f : flag) (p : Z) : bool :=
  N.eqb h h' && N.leb d dep &&
  (let s' := rebase_spec s p q in
   match f with
   | FExact => r =? s'
   | FAlpha => (s' <=? a) && (r =? a)
   | FBeta => (s' >=? b) && (r =? b)
   end).

(* what a probe directly after a store of the same key at the same ply must answer *)
Definition just_stored (ops : list op) (h : N) (d : N) (a b q : Z) : option (option Z) :=
  match ops with
  | Rec h' s dep f p :: _ =>
    if N.eqb h h' && N.leb d dep && (p =? q) then
      Some (match f with
            | FExact => Some s
            | FAlpha => if s <=? a then Some a else None
            | FBeta => if s >=? b then Some b else None
            end)
    else None
  | _ => None
  end.

Definition opt_eqb (x y : option Z) : bool :=
  match x, y with None, None => true | Some u, Some v => u =? v | _, _ => false end.

Definition acceptable (ops : list op) (h : N) (d : N) (a b q : Z) (r : option Z) : bool :=
  (match r with None => true | Some r' => any_store ops (consistent h d a b q r') end) &&
  (match just_stored ops h d a b q with None => true | Some e => opt_eqb e r end).

Definition op_in_range (o : op) : bool :=
  match o with Clr => true | Rec _ s _ _ p => (- INFINITY <=? s) && (s <=? INFINITY) && (0 <=? p) && (p <=? 255) end.

(* whole-run monitor: requests oldest first with the answers the implementation gave *)
Fixpoint monitor (hist : list op) (rs : list req) (answers : list (option Z)) : bool :=
  match rs with
  | [] => match answers with [] => true | _ => false end
  | RRec h s d f p :: r => monitor (Rec h s d f p :: hist) r answers
  | RClr :: r => monitor (Clr :: hist) r answers
  | RProbe h d a b q :: r =>
    match answers with
    | [] => false
    | x :: xs => acceptable hist h d a b q x && monitor hist r xs
    end
  end.
