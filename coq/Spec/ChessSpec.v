(* Specification: the rules of chess on a 64-cell board.  No bitboards, no tables, no constants from the repository.
   Squares are (file, rank) with file 0..7 = a..h and rank 0..7 = 1..8; the board list is indexed in the engine's
   numbering (cell 0 = a8) only so that positions can be exchanged with the model (idx). *)
From Coq Require Import Arith ZArith List Bool Lia.
Import ListNotations.
Local Open Scope Z_scope.

Inductive color := White | Black.
Inductive kind := Pawn | Knight | Bishop | Rook | Queen | King.
Definition piece := (color * kind)%type.
Definition color_eqb a b := match a, b with White, White | Black, Black => true | _, _ => false end.
Definition kind_eqb a b := match a, b with Pawn,Pawn|Knight,Knight|Bishop,Bishop|Rook,Rook|Queen,Queen|King,King => true | _,_ => false end.
Definition opp c := match c with White => Black | Black => White end.

(* square = (file 0..7 = a..h, rank 0..7 = 1..8) *)
Definition sq := (Z * Z)%type.
Definition onb (s : sq) := let '(f, r) := s in (0 <=? f) && (f <? 8) && (0 <=? r) && (r <? 8).
Definition sq_eqb (a b : sq) := (fst a =? fst b) && (snd a =? snd b).
Definition idx (s : sq) : nat := Z.to_nat (8 * (7 - snd s) + fst s).      (* engine numbering: 0 = a8 *)
Definition all_sq : list sq := flat_map (fun r => map (fun f => (f, r)) [0;1;2;3;4;5;6;7]) [0;1;2;3;4;5;6;7].

Record pos := mkPos {
  board : list (option piece);            (* 64 cells, engine numbering *)
  stm : color;
  cK : bool; cQ : bool; ck : bool; cq : bool;
  epsq : option sq;
  hmc : Z; fmn : Z }.

Definition at_ (b : list (option piece)) (s : sq) : option piece := if onb s then nth (idx s) b None else None.
Definition put (b : list (option piece)) (s : sq) (v : option piece) : list (option piece) :=
  firstn (idx s) b ++ v :: skipn (S (idx s)) b.
Definition empty b s := match at_ b s with None => true | _ => false end.
Definition has b s (p : piece) := match at_ b s with Some (c, k) => color_eqb c (fst p) && kind_eqb k (snd p) | None => false end.
Definition color_at b s := match at_ b s with Some (c, _) => Some c | None => None end.

Definition sgn (x : Z) : Z := if x >? 0 then 1 else if x <? 0 then -1 else 0.
(* squares strictly between a and b on a common line (assumes aligned) *)
Fixpoint between_aux (n : nat) (s : sq) (d : sq) (b : sq) : list sq :=
  match n with O => [] | S k =>
    let s' := (fst s + fst d, snd s + snd d) in
    if sq_eqb s' b then [] else s' :: between_aux k s' d b end.
Definition between (a b : sq) := between_aux 7 a (sgn (fst b - fst a), sgn (snd b - snd a)) b.
Definition clear_path bd a b := forallb (empty bd) (between a b).

Definition rook_line (a b : sq) := negb (sq_eqb a b) && ((fst a =? fst b) || (snd a =? snd b)).
Definition bishop_line (a b : sq) := negb (sq_eqb a b) && (Z.abs (fst a - fst b) =? Z.abs (snd a - snd b)).
Definition knight_jump (a b : sq) :=
  let df := Z.abs (fst a - fst b) in let dr := Z.abs (snd a - snd b) in ((df =? 1) && (dr =? 2)) || ((df =? 2) && (dr =? 1)).
Definition king_step (a b : sq) := negb (sq_eqb a b) && (Z.abs (fst a - fst b) <=? 1) && (Z.abs (snd a - snd b) <=? 1).
Definition fwd c := match c with White => 1 | Black => -1 end.
Definition pawn_attacks c (a b : sq) := (snd b =? snd a + fwd c) && (Z.abs (fst a - fst b) =? 1).

(* does the man of colour c and kind k standing on a attack b? *)
Definition attacks_from bd c k (a b : sq) : bool :=
  match k with
  | Pawn => pawn_attacks c a b
  | Knight => knight_jump a b
  | King => king_step a b
  | Rook => rook_line a b && clear_path bd a b
  | Bishop => bishop_line a b && clear_path bd a b
  | Queen => (rook_line a b || bishop_line a b) && clear_path bd a b
  end.
Definition attacked bd (c : color) (b : sq) : bool :=
  existsb (fun a => match at_ bd a with Some (c', k) => color_eqb c c' && attacks_from bd c k a b | None => false end) all_sq.
Definition king_sq bd c : option sq := find (fun s => has bd s (c, King)) all_sq.
Definition in_check bd c := match king_sq bd c with Some s => attacked bd (opp c) s | None => false end.

Record smove := mkSMove { sfrom : sq; sto : sq; spromo : option kind }.

Definition home_rank c := match c with White => 0 | Black => 7 end.
Definition start_rank c := match c with White => 1 | Black => 6 end.
Definition last_rank c := match c with White => 7 | Black => 0 end.

Definition is_ep p (m : smove) : bool :=
  has (board p) (sfrom m) (stm p, Pawn) && match epsq p with Some e => sq_eqb e (sto m) | None => false end
  && negb (fst (sfrom m) =? fst (sto m)).
Definition is_castle p (m : smove) : bool :=
  has (board p) (sfrom m) (stm p, King) && (Z.abs (fst (sfrom m) - fst (sto m)) =? 2).

(* board after the move (no legality check) *)
Definition apply_board p (m : smove) : list (option piece) :=
  let b := board p in let c := stm p in
  let man := at_ b (sfrom m) in
  let b1 := put (put b (sfrom m) None) (sto m) (match spromo m with Some k => Some (c, k) | None => man end) in
  if is_ep p m then put b1 (fst (sto m), snd (sfrom m)) None
  else if is_castle p m then
    let r := home_rank c in
    if fst (sto m) =? 6 then put (put b1 (7, r) None) (5, r) (Some (c, Rook))
    else put (put b1 (0, r) None) (3, r) (Some (c, Rook))
  else b1.

Definition pseudo p (m : smove) : bool :=
  let b := board p in let c := stm p in let a := sfrom m in let t := sto m in
  onb a && onb t &&
  match at_ b a with
  | Some (c', k) =>
    color_eqb c c' && negb (match color_at b t with Some ct => color_eqb ct c | None => false end) &&
    match k with
    | Pawn =>
      let promo_ok := if snd t =? last_rank c then match spromo m with Some Knight | Some Bishop | Some Rook | Some Queen => true | _ => false end
                      else match spromo m with None => true | _ => false end in
      promo_ok &&
      (((fst a =? fst t) && (snd t =? snd a + fwd c) && empty b t)
       || ((fst a =? fst t) && (snd a =? start_rank c) && (snd t =? snd a + 2 * fwd c) && empty b t && empty b (fst a, snd a + fwd c))
       || (pawn_attacks c a t && (match color_at b t with Some ct => color_eqb ct (opp c) | None => false end
                                  || match epsq p with Some e => sq_eqb e t | None => false end)))
    | King =>
      match spromo m with Some _ => false | None =>
        king_step a t ||
        (let r := home_rank c in
         sq_eqb a (4, r) && (snd t =? r) && negb (attacked b (opp c) a) &&
         (((fst t =? 6) && (match c with White => cK p | Black => ck p end) && has b (7, r) (c, Rook)
            && empty b (5, r) && empty b (6, r) && negb (attacked b (opp c) (5, r)))
          || ((fst t =? 2) && (match c with White => cQ p | Black => cq p end) && has b (0, r) (c, Rook)
            && empty b (3, r) && empty b (2, r) && empty b (1, r) && negb (attacked b (opp c) (3, r)))))
      end
    | _ => match spromo m with Some _ => false | None => attacks_from b c k a t end
    end
  | None => false
  end.

Definition legalb p (m : smove) : bool := pseudo p m && negb (in_check (apply_board p m) (stm p)).

Definition promos : list (option kind) := [None; Some Knight; Some Bishop; Some Rook; Some Queen].
Definition candidates : list smove :=
  flat_map (fun a => flat_map (fun t => map (fun pr => mkSMove a t pr) promos) all_sq) all_sq.
(* the property's quantifier, literally: all 64 x 64 x 5 candidates *)
Definition legal_moves_naive p := filter (legalb p) candidates.
(* executable enumerator: only candidates starting on a man of the side to move (Proofs/SpecProofs.v: same set) *)
Definition own_squares p : list sq :=
  filter (fun a => match color_at (board p) a with Some c => color_eqb c (stm p) | None => false end) all_sq.
Definition legal_moves p : list smove :=
  filter (legalb p) (flat_map (fun a => flat_map (fun t => map (fun pr => mkSMove a t pr) promos) all_sq) (own_squares p)).
Definition is_capture p (m : smove) : bool := negb (empty (board p) (sto m)) || is_ep p m.
Definition checkmate p : bool := in_check (board p) (stm p) && match legal_moves p with [] => true | _ => false end.
Definition stalemate p : bool := negb (in_check (board p) (stm p)) && match legal_moves p with [] => true | _ => false end.

Definition rights_after (p : pos) (m : smove) : bool * bool * bool * bool :=
  let touch s := sq_eqb (sfrom m) s || sq_eqb (sto m) s in
  (cK p && negb (touch (4,0)) && negb (touch (7,0)), cQ p && negb (touch (4,0)) && negb (touch (0,0)),
   ck p && negb (touch (4,7)) && negb (touch (7,7)), cq p && negb (touch (4,7)) && negb (touch (0,7))).

Definition apply p (m : smove) : pos :=
  let b := board p in let c := stm p in
  let pawn := has b (sfrom m) (c, Pawn) in
  let capture := negb (empty b (sto m)) || is_ep p m in
  let '(a1, a2, a3, a4) := rights_after p m in
  mkPos (apply_board p m) (opp c) a1 a2 a3 a4
        (if pawn && (Z.abs (snd (sto m) - snd (sfrom m)) =? 2) then Some (fst (sfrom m), snd (sfrom m) + fwd c) else None)
        (if pawn || capture then 0 else hmc p + 1)
        (match c with Black => fmn p + 1 | White => fmn p end).

Fixpoint perft (d : nat) (p : pos) : Z :=
  match d with O => 1 | S k => fold_left (fun acc m => acc + perft k (apply p m)) (legal_moves p) 0 end.

(* start position *)
Definition back (c : color) : list (option piece) := map (fun k => Some (c, k)) [Rook; Knight; Bishop; Queen; King; Bishop; Knight; Rook].
Definition startb : list (option piece) :=
  back Black ++ repeat (Some (Black, Pawn)) 8 ++ repeat None 32 ++ repeat (Some (White, Pawn)) 8 ++ back White.
Definition startpos := mkPos startb White true true true true None 0 1.


(* ---- "legal position" as a decidable predicate (W1-W8 of DESIGN.md section 3, on the specification side) ---- *)
Definition count_men (b : list (option piece)) (f : piece -> bool) : nat :=
  length (filter (fun s => match at_ b s with Some p => f p | None => false end) all_sq).
Definition wf_pos (p : pos) : bool :=
  let b := board p in let c := stm p in
  Nat.eqb (length b) 64 &&
  Nat.eqb (count_men b (fun q => color_eqb (fst q) White && kind_eqb (snd q) King)) 1 &&
  Nat.eqb (count_men b (fun q => color_eqb (fst q) Black && kind_eqb (snd q) King)) 1 &&
  Nat.leb (count_men b (fun q => color_eqb (fst q) White)) 16 &&
  Nat.leb (count_men b (fun q => color_eqb (fst q) Black)) 16 &&
  forallb (fun f => negb (has b (f, 0) (White, Pawn)) && negb (has b (f, 0) (Black, Pawn)) &&
                    negb (has b (f, 7) (White, Pawn)) && negb (has b (f, 7) (Black, Pawn))) [0;1;2;3;4;5;6;7] &&
  negb (in_check b (opp c)) &&
  (negb (cK p) || (has b (4, 0) (White, King) && has b (7, 0) (White, Rook))) &&
  (negb (cQ p) || (has b (4, 0) (White, King) && has b (0, 0) (White, Rook))) &&
  (negb (ck p) || (has b (4, 7) (Black, King) && has b (7, 7) (Black, Rook))) &&
  (negb (cq p) || (has b (4, 7) (Black, King) && has b (0, 7) (Black, Rook))) &&
  match epsq p with
  | None => true
  | Some (f, r) =>
    (r =? match c with White => 5 | Black => 2 end) && empty b (f, r) && empty b (f, r + fwd c) &&
    has b (f, r - fwd c) (opp c, Pawn)
  end.

(* ---- forced mates (exhaustive; for the C11 oracle) ---- *)
(* the side to move can force checkmate within n of its own moves *)
Fixpoint mates_in (n : nat) (p : pos) : bool :=
  match n with
  | O => false
  | S k =>
    existsb (fun m =>
      let p' := apply p m in
      match legal_moves p' with
      | [] => in_check (board p') (stm p')
      | rs => forallb (fun r => mates_in k (apply p' r)) rs
      end) (legal_moves p)
  end.
(* the side to move is mated within n moves whatever it plays (n = 0: it is checkmated now) *)
Definition mated_in (n : nat) (p : pos) : bool :=
  match legal_moves p with
  | [] => in_check (board p) (stm p)
  | ms => forallb (fun m => mates_in n (apply p m)) ms
  end.
