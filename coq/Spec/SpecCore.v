(* What a position's future depends on: everything but the two clocks.  The legal moves, and hence perft, are functions of
   this core; `apply` maps equal cores to equal cores. *)
From Coq Require Import ZArith List Bool Lia Permutation.
From JV Require Import Spec.ChessSpec.
Import ListNotations.
Local Open Scope Z_scope.

Definition core (p : pos) : pos := mkPos (board p) (stm p) (cK p) (cQ p) (ck p) (cq p) (epsq p) 0 0.

Lemma legal_moves_core p : legal_moves (core p) = legal_moves p.
Proof. reflexivity. Qed.
Lemma apply_core p m : core (apply (core p) m) = core (apply p m).
Proof. unfold apply. cbn zeta. unfold rights_after. reflexivity. Qed.

Lemma fold_left_ext_in {A B} (f g : A -> B -> A) l : (forall a x, In x l -> f a x = g a x) -> forall a, fold_left f l a = fold_left g l a.
Proof.
  induction l as [|x l IH]; intros E a; [reflexivity|]. cbn [fold_left]. rewrite (E a x (or_introl eq_refl)). apply IH. intros b y Hy. apply E. right. exact Hy.
Qed.

Theorem perft_core d : forall p q, core p = core q -> perft d p = perft d q.
Proof.
  induction d as [|k IH]; intros p q E; [reflexivity|]. cbn [perft].
  rewrite <- (legal_moves_core p), <- (legal_moves_core q), E.
  apply fold_left_ext_in. intros a m _. f_equal. apply IH. rewrite <- (apply_core p m), <- (apply_core q m), E. reflexivity.
Qed.

(* sums *)
Definition sumZ (l : list Z) : Z := fold_right Z.add 0 l.
Lemma fold_left_sum {A} (h : A -> Z) l : forall a, fold_left (fun acc m => acc + h m) l a = a + sumZ (map h l).
Proof. induction l as [|x l IH]; intros a; cbn [fold_left map sumZ fold_right]; [lia|]. rewrite IH. unfold sumZ. lia. Qed.
Lemma sumZ_perm l l' : Permutation l l' -> sumZ l = sumZ l'.
Proof. induction 1; cbn [sumZ fold_right] in *; unfold sumZ in *; lia. Qed.
Lemma perft_S k p : perft (S k) p = sumZ (map (fun m => perft k (apply p m)) (legal_moves p)).
Proof. cbn [perft]. rewrite fold_left_sum. lia. Qed.

(* the enumeration of the rules' legal moves has no duplicates *)
Lemma NoDup_app2 {A} (l1 l2 : list A) : NoDup l1 -> NoDup l2 -> (forall x, In x l1 -> In x l2 -> False) -> NoDup (l1 ++ l2).
Proof.
  induction l1 as [|a l1 IH]; intros N1 N2 D; [exact N2|]. cbn [app]. inversion N1 as [|? ? NA N1']; subst. constructor.
  - intros H. apply in_app_or in H. destruct H as [H|H]; [exact (NA H)|exact (D a (or_introl eq_refl) H)].
  - apply IH; [exact N1'|exact N2|]. intros x H1 H2. exact (D x (or_intror H1) H2).
Qed.
Lemma NoDup_flat_map2 {A B} (F : A -> list B) (l : list A) : NoDup l -> (forall a, In a l -> NoDup (F a)) ->
  (forall a b x, In a l -> In b l -> In x (F a) -> In x (F b) -> a = b) -> NoDup (flat_map F l).
Proof.
  induction l as [|a l IH]; intros N1 NF D; [constructor|]. cbn [flat_map]. inversion N1 as [|? ? NA N1']; subst.
  apply NoDup_app2.
  - apply NF. left. reflexivity.
  - apply IH; [exact N1'|intros b Hb; apply NF; right; exact Hb|]. intros b c x Hb Hc. apply D; right; assumption.
  - intros x H1 H2. apply in_flat_map in H2. destruct H2 as (b & Hb & Hx).
    assert (E : a = b) by (apply (D a b x); [left; reflexivity|right; exact Hb|exact H1|exact Hx]). subst b. exact (NA Hb).
Qed.
Lemma NoDup_map2 {A B} (f : A -> B) (l : list A) : (forall a b, f a = f b -> a = b) -> NoDup l -> NoDup (map f l).
Proof.
  intros I. induction l as [|a l IH]; intros N1; [constructor|]. inversion N1 as [|? ? NA N1']; subst. cbn [map]. constructor; [|apply IH; exact N1'].
  intros H. apply in_map_iff in H. destruct H as (b & E & Hb). apply I in E. subst b. exact (NA Hb).
Qed.

Lemma NoDup_8 : NoDup [0;1;2;3;4;5;6;7].
Proof. repeat constructor; cbn [In]; intros H; repeat (destruct H as [H|H]; [discriminate H|]); exact H. Qed.
Lemma NoDup_all_sq : NoDup all_sq.
Proof.
  unfold all_sq. apply NoDup_flat_map2; [exact NoDup_8| |].
  - intros r _. apply NoDup_map2; [intros a b E; injection E as E; exact E|exact NoDup_8].
  - intros a b x _ _ H1 H2. apply in_map_iff in H1, H2. destruct H1 as (f1 & <- & _). destruct H2 as (f2 & E & _). injection E as _ E. symmetry. exact E.
Qed.
Lemma NoDup_promos : NoDup promos.
Proof. unfold promos. repeat constructor; cbn [In]; intros H; repeat (destruct H as [H|H]; [discriminate H|]); exact H. Qed.

Theorem legal_moves_NoDup p : NoDup (legal_moves p).
Proof.
  unfold legal_moves. apply NoDup_filter. apply NoDup_flat_map2.
  - unfold own_squares. apply NoDup_filter. exact NoDup_all_sq.
  - intros a _. apply NoDup_flat_map2; [exact NoDup_all_sq| |].
    + intros t _. apply NoDup_map2; [intros x y E; injection E as E; exact E|exact NoDup_promos].
    + intros t1 t2 x _ _ H1 H2. apply in_map_iff in H1, H2. destruct H1 as (p1 & <- & _). destruct H2 as (p2 & E & _). injection E as E _. symmetry. exact E.
  - intros a b x _ _ H1 H2. apply in_flat_map in H1, H2. destruct H1 as (t1 & _ & H1). destruct H2 as (t2 & _ & H2).
    apply in_map_iff in H1, H2. destruct H1 as (p1 & <- & _). destruct H2 as (p2 & E & _). injection E as E _ _. symmetry. exact E.
Qed.
