(* Specification of piece attack patterns on the 64-square board, in the engine's square numbering
   (square = 8*row + col, row 0 = rank 8, col 0 = file a).  No tables, no PEXT. *)
From Coq Require Import NArith ZArith List Bool.
Import ListNotations.
Local Open Scope Z_scope.

Definition onboard (r c : Z) : bool := (0 <=? r) && (r <? 8) && (0 <=? c) && (c <? 8).
Definition sq_of (r c : Z) : N := Z.to_N (8 * r + c).
Definition row_of (sq : N) : Z := Z.of_N sq / 8.
Definition col_of (sq : N) : Z := Z.of_N sq mod 8.

(* the squares along a ray from (r,c), exclusive, in direction (dr,dc), up to the edge of the board *)
Fixpoint ray (fuel : nat) (r c dr dc : Z) : list N :=
  match fuel with
  | O => []
  | S k => let r' := r + dr in let c' := c + dc in
           if onboard r' c' then sq_of r' c' :: ray k r' c' dr dc else []
  end.

(* slide along a list of squares: every square up to and including the first occupied one *)
Fixpoint walk (sqs : list N) (occ : N) : N :=
  match sqs with
  | [] => 0%N
  | s :: rest => N.lor (N.shiftl 1 s) (if N.testbit occ s then 0%N else walk rest occ)
  end.

Definition rook_dirs : list (Z * Z) := [(0, -1); (0, 1); (-1, 0); (1, 0)].
Definition bishop_dirs : list (Z * Z) := [(1, 1); (1, -1); (-1, -1); (-1, 1)].

Definition slide (dirs : list (Z * Z)) (sq : N) (occ : N) : N :=
  fold_right (fun d acc => N.lor (walk (ray 7 (row_of sq) (col_of sq) (fst d) (snd d)) occ) acc) 0%N dirs.

(* leapers: the set of on-board squares at the given offsets *)
Definition leaper (offs : list (Z * Z)) (sq : N) : N :=
  fold_right (fun d acc =>
      let r := row_of sq + fst d in let c := col_of sq + snd d in
      if onboard r c then N.lor (N.shiftl 1 (sq_of r c)) acc else acc) 0%N offs.

Definition knight_offs : list (Z * Z) := [(-2, -1); (-2, 1); (-1, -2); (-1, 2); (1, -2); (1, 2); (2, -1); (2, 1)].
Definition king_offs : list (Z * Z) := [(-1, -1); (-1, 0); (-1, 1); (0, -1); (0, 1); (1, -1); (1, 0); (1, 1)].
(* white pawns move towards row 0 *)
Definition wpawn_offs : list (Z * Z) := [(-1, -1); (-1, 1)].
Definition bpawn_offs : list (Z * Z) := [(1, -1); (1, 1)].
