(* A verified fast evaluator for reference game-tree values: fail-soft alpha-beta over an abstract expansion function,
   proved to return the plain negamax value when started with the infinite window.  Used to make the C19 reference
   (Spec/Minimax.v) computable on positions with large capture trees; the plain definition stays the specification. *)
From Coq Require Import ZArith List Bool Lia Permutation.
Import ListNotations.
Local Open Scope Z_scope.

Section AB.
Variable node : Type.
(* a node is a leaf with a value, or an inner node with an optional stand-pat value and children *)
Inductive shape := Leaf (v : Z) | Inner (base : option Z) (children : list node).
Variable expand : node -> shape.

Definition omax (a b : option Z) : option Z :=
  match a, b with None, x => x | x, None => x | Some x, Some y => Some (Z.max x y) end.
Definition oneg (a : option Z) : option Z := option_map Z.opp a.
Definition oval (o : option Z) : Z := match o with Some v => v | None => 0 end.

(* plain negamax *)
Fixpoint val (fuel : nat) (x : node) : Z :=
  match fuel with
  | O => 0
  | S f =>
    match expand x with
    | Leaf v => v
    | Inner base cs => oval (fold_left (fun acc c => omax acc (Some (- val f c))) cs base)
    end
  end.

Definition ge_hi (r : Z) (b : option Z) : bool := match b with Some b => r >=? b | None => false end.

(* fail-soft alpha-beta; a = None is -infinity, b = None is +infinity, best = None is "nothing yet" *)
Fixpoint ab (fuel : nat) (x : node) (a b : option Z) : Z :=
  match fuel with
  | O => 0
  | S f =>
    match expand x with
    | Leaf v => v
    | Inner base cs =>
      oval ((fix loop (cs : list node) (best : option Z) : option Z :=
               match cs with
               | [] => best
               | c :: r =>
                 if match best with Some s => ge_hi s b | None => false end then best
                 else loop r (omax best (Some (- ab f c (oneg b) (oneg (omax a best)))))
               end) cs base)
    end
  end.

(* the relation between a true value m and a returned value r under the window (a, b) *)
Definition le_lo (r : Z) (a : option Z) : Prop := match a with Some a => r <= a | None => False end.
Definition ge_hiP (r : Z) (b : option Z) : Prop := match b with Some b => r >= b | None => False end.
Definition rel (m r : Z) (a b : option Z) : Prop :=
  (ge_hiP r b -> m >= r) /\ (~ le_lo r a -> ~ ge_hiP r b -> m = r) /\ (le_lo r a -> m <= r).
Definition orel (m r : option Z) (a b : option Z) : Prop :=
  match r, m with
  | None, None => True
  | Some r, Some m => rel m r a b
  | _, _ => False
  end.

Lemma ge_hi_spec r b : ge_hi r b = true <-> ge_hiP r b.
Proof. destruct b; cbn; [rewrite Z.geb_le; lia|split; [discriminate|tauto]]. Qed.

(* non-empty window *)
Definition wok (a b : option Z) : Prop := match a, b with Some a, Some b => a < b | _, _ => True end.
Definition P (f : nat) : Prop := forall x a b, wok a b -> rel (val f x) (ab f x a b) a b.

Lemma loop_correct f (IH : P f) a b (W : wok a b) : forall cs best mp,
  orel mp best a b ->
  let r := (fix loop (cs : list node) (best : option Z) : option Z :=
               match cs with
               | [] => best
               | c :: r =>
                 if match best with Some s => ge_hi s b | None => false end then best
                 else loop r (omax best (Some (- ab f c (oneg b) (oneg (omax a best)))))
               end) cs best in
  orel (fold_left (fun acc c => omax acc (Some (- val f c))) cs mp) r a b.
Proof.
  induction cs as [|c rest IHc]; intros best mp H; cbn zeta.
  - exact H.
  - cbn [fold_left].
    destruct (match best with Some s => ge_hi s b | None => false end) eqn:CUT.
    + (* cut-off: the returned best is a lower bound of everything, whatever the remaining children are *)
      destruct best as [s|]; [|discriminate]. apply ge_hi_spec in CUT.
      destruct mp as [m|]; [|contradiction]. cbn [orel] in H. destruct H as (H1 & _ & _).
      assert (M : forall l m0, m0 >= s ->
                match fold_left (fun acc c0 => omax acc (Some (- val f c0))) l (Some m0) with Some m' => m' >= s | None => False end).
      { induction l as [|y l IHl]; intros m0 Hm; cbn [fold_left]; [exact Hm|]. cbn [omax]. apply IHl. lia. }
      specialize (M rest (Z.max m (- val f c)) ltac:(specialize (H1 CUT); lia)).
      cbn [omax].
      destruct (fold_left _ rest (Some (Z.max m (- val f c)))) as [m'|]; [|contradiction].
      cbn [orel]. unfold rel, wok, le_lo, ge_hiP in *. destruct a as [aa|]; destruct b as [bb|]; cbn in *; lia.
    + apply IHc.
      set (al := omax a best).
      assert (NC : match best with Some s => ~ ge_hiP s b | None => True end).
      { destruct best as [s|]; [|exact I]. intro X. apply ge_hi_spec in X. congruence. }
      assert (W' : wok (oneg b) (oneg al)).
      { subst al. unfold wok, oneg, omax, option_map, ge_hiP in *. destruct best, a, b; cbn in *; lia. }
      pose proof (IH c (oneg b) (oneg al) W') as R.
      clear CUT IHc W'. subst al.
      destruct best as [s|]; destruct mp as [m|]; try contradiction; cbn [omax orel] in *;
        unfold rel, wok, le_lo, ge_hiP, oneg, omax, option_map in *;
        destruct a as [aa|]; destruct b as [bb|]; cbn in *; lia.
Qed.

Theorem ab_correct : forall f, P f.
Proof.
  induction f as [|f IH]; intros x a b W.
  - cbn. unfold rel, le_lo, ge_hiP. destruct a, b; cbn; lia.
  - cbn [val ab]. destruct (expand x) as [v|base cs].
    + unfold rel, le_lo, ge_hiP. destruct a, b; cbn; lia.
    + pose proof (loop_correct f IH a b W cs base base) as L. cbn zeta in L.
      assert (B : orel base base a b).
      { destruct base as [v|]; cbn; [|exact I]. unfold rel, le_lo, ge_hiP. destruct a, b; cbn; lia. }
      specialize (L B).
      match goal with |- rel (oval ?m) (oval ?r) a b => destruct r as [rv|]; destruct m as [mv|]; cbn [orel] in L; try contradiction end.
      * exact L.
      * cbn. unfold rel, le_lo, ge_hiP. destruct a, b; cbn; lia.
Qed.

(* with the infinite window alpha-beta returns exactly the plain negamax value *)
Corollary ab_full_window f x : ab f x None None = val f x.
Proof.
  pose proof (ab_correct f x None None I) as (H1 & H2 & H3). cbn in *. symmetry. apply H2; tauto.
Qed.
End AB.

(* ---- the plain value does not depend on the order in which children are listed ---- *)
Section Perm.
Variable node : Type.

Lemma omax_swap (b x y : option Z) : omax (omax b x) y = omax (omax b y) x.
Proof. destruct b, x, y; cbn; f_equal; lia. Qed.

Lemma fold_omax_perm (h : node -> Z) cs1 cs2 : Permutation cs1 cs2 -> forall base,
  fold_left (fun acc c => omax acc (Some (h c))) cs1 base = fold_left (fun acc c => omax acc (Some (h c))) cs2 base.
Proof.
  induction 1 as [|x l l' _ IH|x y l|l l' l'' _ IH1 _ IH2]; intros base; cbn [fold_left].
  - reflexivity.
  - apply IH.
  - rewrite omax_swap. reflexivity.
  - rewrite IH1. apply IH2.
Qed.

Lemma fold_omax_ext (h1 h2 : node -> Z) cs : (forall c, In c cs -> h1 c = h2 c) -> forall base,
  fold_left (fun acc c => omax acc (Some (h1 c))) cs base = fold_left (fun acc c => omax acc (Some (h2 c))) cs base.
Proof.
  induction cs as [|c r IH]; intros H base; cbn [fold_left]; [reflexivity|].
  rewrite (H c (or_introl eq_refl)). apply IH. intros c' Hc. apply H. right. exact Hc.
Qed.

(* folding from Some m only grows *)
Lemma fold_omax_ge (h : node -> Z) cs : forall m, exists m', fold_left (fun acc c => omax acc (Some (h c))) cs (Some m) = Some m' /\ m' >= m.
Proof.
  induction cs as [|c r IH]; intros m; cbn [fold_left].
  - exists m. split; [reflexivity|lia].
  - cbn [omax]. destruct (IH (Z.max m (h c))) as (m' & E & G). exists m'. split; [exact E|lia].
Qed.

Definition shape_perm (s1 s2 : shape node) : Prop :=
  match s1, s2 with
  | Leaf _ v1, Leaf _ v2 => v1 = v2
  | Inner _ b1 c1, Inner _ b2 c2 => b1 = b2 /\ Permutation c1 c2
  | _, _ => False
  end.

Theorem val_perm (ex1 ex2 : node -> shape node) : (forall x, shape_perm (ex1 x) (ex2 x)) ->
  forall f x, val node ex1 f x = val node ex2 f x.
Proof.
  intros H. induction f as [|f IH]; intros x; cbn [val]; [reflexivity|].
  specialize (H x). destruct (ex1 x) as [v1|b1 c1]; destruct (ex2 x) as [v2|b2 c2]; cbn [shape_perm] in H; try contradiction.
  - exact H.
  - destruct H as (-> & P). f_equal. rewrite (fold_omax_perm (fun c => - val node ex1 f c) c1 c2 P).
    apply fold_omax_ext. intros c _. rewrite IH. reflexivity.
Qed.
End Perm.
