(* Every position the engine can be put into with `position startpos [moves ...]` -- and with `position fen F [moves ...]` when the
   position F describes satisfies the executable invariant -- is reachable by accepted generated moves, hence satisfies the
   invariant (and the side conditions of C16): the theorems stated under legal_inv apply to every position of every game. *)
From Coq Require Import NArith ZArith List Bool String Lia.
From JV Require Import Gen.Consts Model.Bits Model.Chess Model.SearchChess Model.Fen Proofs.LegalInv Proofs.LegalInvB Proofs.FenProofs Proofs.StartPos.
Import ListNotations.

Lemma play_moves_reach toks : forall g0 g rep g' rep', chess_reach g0 g -> play_moves g rep toks = FOk (g', rep') -> chess_reach g0 g'.
Proof.
  induction toks as [|t r IH]; intros g0 g rep g' rep' R H; cbn [play_moves] in H.
  - injection H as <- _. exact R.
  - destruct (parse_move g t) as [m|] eqn:P; [|discriminate H].
    destruct (parse_move_sound g t m P) as (HI & _). unfold Chess.legal_moves, legal_values in HI. apply filter_In in HI. destruct HI as [HI _].
    destruct (make_search_move g m) as [|g1|] eqn:M; try discriminate H.
    destruct (N.ltb _ _); [|discriminate H].
    apply (IH g0 g1 (rep ++ [hash g1])%list g' rep'); [|exact H].
    apply (SearchNodes.reach_move _ _ _ _ _ _ g0 g true m g1 R HI). unfold c_make. rewrite M. reflexivity.
Qed.

Theorem position_startpos_reachable args g rep : List.hd EmptyString (split_sp args) = "startpos"%string ->
  parse_position args = FOk (g, rep) -> chess_reach start_game g.
Proof.
  intros HD H. unfold parse_position in H.
  assert (E : (match split_sp args with p :: _ => p | [] => EmptyString end) = "startpos"%string) by (destruct (split_sp args); exact HD).
  rewrite E in H.
  rewrite String.eqb_refl in H.
  rewrite start_game_is_startpos in H.
  cbv beta iota zeta in H.
  destruct (split_sp (skip 9 args)) as [|first more]; [discriminate H|].
  destruct (String.eqb first "moves").
  - apply (play_moves_reach more start_game start_game [hash start_game] g rep); [apply SearchNodes.reach_root|exact H].
  - assert (E2 : start_game = g) by exact (f_equal (fun r => match r with FOk (x, _) => x | _ => start_game end) H).
    rewrite <- E2. apply SearchNodes.reach_root.
Qed.

Theorem position_startpos_inv args g rep : List.hd EmptyString (split_sp args) = "startpos"%string ->
  parse_position args = FOk (g, rep) -> legal_inv g.
Proof. intros HD H. apply reachable_from_start_inv. exact (position_startpos_reachable args g rep HD H). Qed.

(* from a FEN: the moves are played from the position the FEN parser built *)
Theorem play_moves_inv toks g rep g' rep' : legal_inv g -> play_moves g rep toks = FOk (g', rep') -> legal_inv g'.
Proof. intros LI H. apply (reach_legal g g' LI). apply (play_moves_reach toks g g rep g' rep'); [apply SearchNodes.reach_root|exact H]. Qed.
Print Assumptions position_startpos_inv.
