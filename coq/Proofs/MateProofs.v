(* C11 (part): the conversion from an internal mate score to the `score mate N` field (after fix 11cb996),
   and what the TT re-basing does to mate distances. *)
From Coq Require Import ZArith Lia Bool.
Require Import ZifyBool.
From JV Require Import Gen.Consts Model.TT Model.Search Proofs.TTProofs.
Local Open Scope Z_scope.

Lemma div2_bounds x : 2 * (x / 2) <= x < 2 * (x / 2) + 2.
Proof. pose proof (Z.div_mod x 2 ltac:(lia)). pose proof (Z.mod_pos_bound x 2 ltac:(lia)). lia. Qed.
Ltac div2 := repeat match goal with |- context [?x / 2] => let H := fresh in pose proof (div2_bounds x) as H; generalize dependent (x / 2); intros end.

(* the side to move mates at ply p (p odd): score MATE_VALUE - p is announced as mate in (p+1)/2 moves *)
Lemma mate_field_pos p : 1 <= p < 1000 -> mate_field (MATE_VALUE - p) = Some (Z.quot (p + 1) 2 + (if Z.odd p then 0 else 1)).
Proof.
  intros H. unfold mate_field, MATE_VALUE, MATE_BOUND.
  match goal with |- context [if ?c then _ else _] => destruct c eqn:E1 end; [lia|].
  match goal with |- context [if ?c then _ else _] => destruct c eqn:E2 end; [|lia].
  f_equal. replace (49000 - (49000 - p)) with p by lia.
  destruct (Z.odd p) eqn:O.
  - apply Z.odd_spec in O. destruct O as [k ->].
    rewrite (Z.quot_div_nonneg (2 * k + 1) 2), (Z.quot_div_nonneg (2 * k + 1 + 1) 2) by lia. div2. lia.
  - assert (Ev : Z.even p = true) by (rewrite <- Z.negb_odd, O; reflexivity).
    apply Z.even_spec in Ev. destruct Ev as [k ->].
    rewrite (Z.quot_div_nonneg (2 * k) 2), (Z.quot_div_nonneg (2 * k + 1) 2) by lia. div2. lia.
Qed.
Corollary mate_field_pos_odd p : 1 <= p < 1000 -> Z.odd p = true -> mate_field (MATE_VALUE - p) = Some ((p + 1) / 2).
Proof. intros H O. rewrite mate_field_pos by exact H. rewrite O. rewrite Z.quot_div_nonneg by lia. f_equal. lia. Qed.

(* the side to move is mated at ply p (p even): score -MATE_VALUE + p is announced as mate in -(p/2) *)
Lemma mate_field_neg p : 0 <= p < 1000 -> mate_field (- MATE_VALUE + p) = Some (- (p / 2)).
Proof.
  intros H. unfold mate_field, MATE_VALUE, MATE_BOUND.
  match goal with |- context [if ?c then _ else _] => destruct c eqn:E1 end; [|lia].
  f_equal. replace (- (49000) + p + 49000) with p by lia.
  rewrite Z.quot_opp_l by lia. rewrite Z.quot_div_nonneg by lia. reflexivity.
Qed.
Corollary mated_next_move : mate_field (- MATE_VALUE + 2) = Some (-1).
Proof. reflexivity. Qed.

Lemma mate_field_cp s : - MATE_BOUND <= s <= MATE_BOUND -> mate_field s = None.
Proof.
  intros H. unfold mate_field, MATE_VALUE, MATE_BOUND in *.
  destruct ((s >=? - (49000)) && (s <? - (48000))) eqn:E1; [lia|].
  destruct ((s <=? 49000) && (s >? 48000)) eqn:E2; [lia|reflexivity].
Qed.

(* sign: a mate field is positive exactly for scores above the bound, negative (or zero only for p < 2) below *)
Lemma mate_field_sign s n : mate_field s = Some n -> (MATE_BOUND < s -> 1 <= n) /\ (s < - MATE_BOUND -> n <= 0).
Proof.
  unfold mate_field, MATE_VALUE, MATE_BOUND. intros H.
  destruct ((s >=? - (49000)) && (s <? - (48000))) eqn:E1.
  - assert (Q : Z.quot (- (s + 49000)) 2 <= 0).
    { rewrite Z.quot_opp_l by lia. pose proof (Z.quot_pos (s + 49000) 2 ltac:(lia) ltac:(lia)). lia. }
    set (q := Z.quot (- (s + 49000)) 2) in *. injection H as <-. split; lia.
  - destruct ((s <=? 49000) && (s >? 48000)) eqn:E2; [|discriminate].
    pose proof (Z.quot_pos (49000 - s) 2 ltac:(lia) ltac:(lia)) as Q.
    set (q := Z.quot (49000 - s) 2) in *. injection H as <-. split; lia.
Qed.

(* the pre-fix conversion, for the record: mated next move was announced as -2 *)
Definition mate_field_neg_pre_fix (score : Z) : Z := Z.quot (- (score + MATE_VALUE)) 2 - 1.
Lemma pre_fix_mated_next_move : mate_field_neg_pre_fix (- MATE_VALUE + 2) = -2.
Proof. reflexivity. Qed.
