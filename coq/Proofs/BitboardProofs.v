(* Set-level facts about the bitboard primitives of Model/Chess.v: bits_of enumerates exactly the set bits, without
   repetition; set_bit / unset_bit are insertion / removal; pop_count counts. *)
From Coq Require Import NArith ZArith List Bool Lia Permutation.
From JV Require Import Model.Bits Model.Chess.
Import ListNotations.
Local Open Scope N_scope.

Lemma bits_pos_spec p : forall i s, In s (bits_pos p i) <-> (i <= s /\ N.testbit (Npos p) (s - i) = true).
Proof.
  induction p as [q IH|q IH|]; intros i s; cbn [bits_pos].
  - cbn [In]. rewrite IH. split.
    + intros [<-|(L & T)].
      * split; [lia|]. rewrite N.sub_diag. reflexivity.
      * split; [lia|]. replace (s - i) with (N.succ (s - N.succ i)) by lia.
        change (Npos q~1) with (2 * Npos q + 1). rewrite N.testbit_odd_succ by lia. exact T.
    + intros (L & T). destruct (N.eq_dec i s) as [E|NE]; [left; exact E|right].
      split; [lia|]. replace (s - i) with (N.succ (s - N.succ i)) in T by lia.
      change (Npos q~1) with (2 * Npos q + 1) in T. rewrite N.testbit_odd_succ in T by lia. exact T.
  - rewrite IH. split.
    + intros (L & T). split; [lia|]. replace (s - i) with (N.succ (s - N.succ i)) by lia.
      change (Npos q~0) with (2 * Npos q). rewrite N.testbit_even_succ by lia. exact T.
    + intros (L & T). destruct (N.eq_dec i s) as [E|NE].
      * subst s. rewrite N.sub_diag in T. discriminate.
      * split; [lia|]. replace (s - i) with (N.succ (s - N.succ i)) in T by lia.
        change (Npos q~0) with (2 * Npos q) in T. rewrite N.testbit_even_succ in T by lia. exact T.
  - cbn [In]. split.
    + intros [<-|[]]. split; [lia|]. rewrite N.sub_diag. reflexivity.
    + intros (L & T). left. destruct (N.eq_dec i s) as [E|NE]; [exact E|].
      exfalso. replace (s - i) with (N.succ (s - N.succ i)) in T by lia.
      change 1 with (2 * 0 + 1) in T. rewrite N.testbit_odd_succ in T by lia. rewrite N.bits_0 in T. discriminate.
Qed.

Theorem bits_of_spec b s : In s (bits_of b) <-> N.testbit b s = true.
Proof.
  destruct b as [|p]; cbn [bits_of].
  - rewrite N.bits_0. split; [intros []|discriminate].
  - rewrite bits_pos_spec. rewrite N.sub_0_r. split; [intros (_ & T); exact T|intros T; split; [lia|exact T]].
Qed.

Lemma bits_pos_lb p : forall i s, In s (bits_pos p i) -> i <= s.
Proof. intros i s H. apply bits_pos_spec in H. tauto. Qed.

Lemma bits_pos_nodup p : forall i, NoDup (bits_pos p i).
Proof.
  induction p as [q IH|q IH|]; intros i; cbn [bits_pos].
  - constructor; [|apply IH]. intros H. apply bits_pos_lb in H. lia.
  - apply IH.
  - constructor; [intros []|constructor].
Qed.

Theorem bits_of_nodup b : NoDup (bits_of b).
Proof. destruct b; cbn [bits_of]; [constructor|apply bits_pos_nodup]. Qed.

(* set_bit / unset_bit on the bit level *)
Lemma testbit_bit sq s : N.testbit (bit sq) s = N.eqb sq s.
Proof.
  unfold bit. destruct (N.eqb_spec sq s) as [->|NE].
  - rewrite N.shiftl_spec_high' by lia. rewrite N.sub_diag. reflexivity.
  - destruct (N.lt_ge_cases s sq) as [L|G].
    + apply N.shiftl_spec_low. exact L.
    + rewrite N.shiftl_spec_high' by lia. replace (s - sq) with (N.succ (s - sq - 1)) by lia.
      change 1 with (2 * 0 + 1). rewrite N.testbit_odd_succ by lia. apply N.bits_0.
Qed.

Lemma testbit_set_bit b sq s : N.testbit (set_bit b sq) s = N.testbit b s || N.eqb sq s.
Proof. unfold set_bit. rewrite N.lor_spec, testbit_bit. reflexivity. Qed.

Lemma testbit_unset_bit b sq s : N.testbit (unset_bit b sq) s = N.testbit b s && negb (N.eqb sq s).
Proof.
  unfold unset_bit. rewrite N.land_spec, N.lxor_spec, testbit_bit.
  destruct (N.testbit b s), (N.eqb sq s); reflexivity.
Qed.

(* folding a commutative-associative operation over the set bits *)
Section FoldXor.
Variable key : N -> N.
Definition xfold (l : list N) (h : N) : N := fold_left (fun h sq => N.lxor h (key sq)) l h.

Lemma xfold_acc l : forall h, xfold l h = N.lxor h (xfold l 0).
Proof.
  induction l as [|x r IH]; intros h; cbn [xfold fold_left].
  - rewrite N.lxor_0_r. reflexivity.
  - fold (xfold r (N.lxor h (key x))). fold (xfold r (N.lxor 0 (key x))).
    rewrite IH. rewrite (IH (N.lxor 0 (key x))). rewrite N.lxor_0_l. rewrite N.lxor_assoc. reflexivity.
Qed.

Lemma xfold_perm l1 l2 : Permutation l1 l2 -> forall h, xfold l1 h = xfold l2 h.
Proof.
  induction 1 as [|x l l' _ IH|x y l|l l' l'' _ IH1 _ IH2]; intros h; cbn [xfold fold_left].
  - reflexivity.
  - apply IH.
  - f_equal. rewrite !N.lxor_assoc. f_equal. apply N.lxor_comm.
  - unfold xfold in *. rewrite IH1. apply IH2.
Qed.

Lemma xfold_set b sq h : N.testbit b sq = false -> xfold (bits_of (set_bit b sq)) h = N.lxor (xfold (bits_of b) h) (key sq).
Proof.
  intros T. rewrite (xfold_perm (bits_of (set_bit b sq)) (sq :: bits_of b)).
  - cbn [xfold fold_left]. fold (xfold (bits_of b) (N.lxor h (key sq))).
    rewrite xfold_acc. rewrite (xfold_acc (bits_of b) h). rewrite !N.lxor_assoc. f_equal. apply N.lxor_comm.
  - apply NoDup_Permutation.
    + apply bits_of_nodup.
    + constructor; [|apply bits_of_nodup]. rewrite bits_of_spec. congruence.
    + intros s. cbn [In]. rewrite !bits_of_spec, testbit_set_bit.
      destruct (N.eqb_spec sq s) as [->|NE]; destruct (N.testbit b s); cbn; intuition (try congruence; try discriminate).
Qed.

Lemma xfold_unset b sq h : N.testbit b sq = true -> xfold (bits_of (unset_bit b sq)) h = N.lxor (xfold (bits_of b) h) (key sq).
Proof.
  intros T. rewrite (xfold_perm (bits_of b) (sq :: bits_of (unset_bit b sq))).
  - cbn [xfold fold_left]. fold (xfold (bits_of (unset_bit b sq)) (N.lxor h (key sq))).
    rewrite (xfold_acc _ (N.lxor h (key sq))). rewrite (xfold_acc (bits_of (unset_bit b sq)) h).
    rewrite !N.lxor_assoc. f_equal. rewrite (N.lxor_comm (key sq)). rewrite N.lxor_assoc, N.lxor_nilpotent, N.lxor_0_r. reflexivity.
  - apply NoDup_Permutation.
    + apply bits_of_nodup.
    + constructor; [|apply bits_of_nodup]. rewrite bits_of_spec, testbit_unset_bit, N.eqb_refl. destruct (N.testbit b sq); cbn; discriminate.
    + intros s. cbn [In]. rewrite !bits_of_spec, testbit_unset_bit.
      destruct (N.eqb_spec sq s) as [->|NE]; destruct (N.testbit b s); cbn; intuition (try congruence; try discriminate).
Qed.
End FoldXor.
