(* Counting men: make_search_move never increases the number of men of either colour (sum over the six piece sets of a colour),
   so "at most 16 men a side" is an invariant of play.  Needed by the bound of the static evaluation (C16). *)
From Coq Require Import NArith ZArith List Bool Lia Permutation.
From JV Require Import Gen.Consts Model.Bits Model.Chess Model.SearchChess Model.Sym Proofs.BitboardProofs Proofs.MoveGenProofs Proofs.MakeProofs Proofs.KeyProofs
  Proofs.GenProofs Proofs.ConsProofs Proofs.GenOk.
Import ListNotations.
Local Open Scope N_scope.


Lemma cnt_ext a b : (forall s, tb a s = tb b s) -> cnt a = cnt b.
Proof.
  intros E. unfold cnt. apply Permutation_length. apply NoDup_Permutation; try apply bits_of_nodup.
  intros s. rewrite !bits_of_spec. unfold tb in E. rewrite E. reflexivity.
Qed.
Lemma cnt_set b sq : tb b sq = false -> cnt (set_bit b sq) = S (cnt b).
Proof.
  intros T. unfold cnt. change (S (length (bits_of b))) with (length (sq :: bits_of b)). apply Permutation_length.
  apply NoDup_Permutation.
  - apply bits_of_nodup.
  - constructor; [|apply bits_of_nodup]. rewrite bits_of_spec. unfold tb in T. congruence.
  - intros s. cbn [In]. rewrite !bits_of_spec, testbit_set_bit. unfold tb in T.
    destruct (N.eqb_spec sq s) as [->|NE]; destruct (N.testbit b s); cbn; intuition (try congruence; try discriminate).
Qed.
Lemma cnt_unset b sq : tb b sq = true -> S (cnt (unset_bit b sq)) = cnt b.
Proof.
  intros T. unfold cnt. change (S (length (bits_of (unset_bit b sq)))) with (length (sq :: bits_of (unset_bit b sq))). apply Permutation_length.
  apply Permutation_sym. apply NoDup_Permutation.
  - apply bits_of_nodup.
  - constructor; [|apply bits_of_nodup]. rewrite bits_of_spec, testbit_unset_bit, N.eqb_refl. destruct (N.testbit b sq); cbn; discriminate.
  - intros s. cbn [In]. rewrite !bits_of_spec, testbit_unset_bit. unfold tb in T.
    destruct (N.eqb_spec sq s) as [->|NE]; destruct (N.testbit b s); cbn; intuition (try congruence; try discriminate).
Qed.

(* men of one colour: the sum over its six piece sets *)

Lemma nthN_upd bs p v q : (N.to_nat p < length bs)%nat -> nthN (upd bs p v) q = if q =? p then v else nthN bs q.
Proof.
  intros L. destruct (N.eqb_spec q p) as [->|NE]; [apply nthN_upd_same; exact L|apply nthN_upd_other; congruence].
Qed.

Lemma p12_cases p : p < 12 -> p = 0 \/ p = 1 \/ p = 2 \/ p = 3 \/ p = 4 \/ p = 5 \/ p = 6 \/ p = 7 \/ p = 8 \/ p = 9 \/ p = 10 \/ p = 11.
Proof. lia. Qed.

Lemma men_upd bs p v : length bs = 12%nat -> p < 12 ->
  (menW (upd bs p v) + (if N.ltb p 6 then cq bs p else 0) = menW bs + (if N.ltb p 6 then cnt v else 0))%nat /\
  (menB (upd bs p v) + (if N.ltb p 6 then 0 else cq bs p) = menB bs + (if N.ltb p 6 then 0 else cnt v))%nat.
Proof.
  intros L P. unfold menW, menB, cq. rewrite !nthN_upd by (rewrite L; lia).
  destruct (p12_cases p P) as [E|[E|[E|[E|[E|[E|[E|[E|[E|[E|[E|E]]]]]]]]]]]; subst p; cbn [N.eqb Pos.eqb N.ltb N.compare Pos.compare Pos.compare_cont]; lia.
Qed.

Lemma men_take x p s : consB x -> p < 12 -> sb x p s = true ->
  (menW (s_bs (take x p s)) + (if N.ltb p 6 then 1 else 0) = menW (s_bs x))%nat /\ (menB (s_bs (take x p s)) + (if N.ltb p 6 then 0 else 1) = menB (s_bs x))%nat.
Proof.
  intros C P T. cbn [take s_bs]. destruct (men_upd (s_bs x) p (unset_bit (nthN (s_bs x) p) s) (b_len x C) P) as (A & B).
  pose proof (cnt_unset (nthN (s_bs x) p) s T) as U. unfold cq in A, B. destruct (p <? 6); lia.
Qed.
Lemma men_put x p s : consB x -> p < 12 -> sb x p s = false ->
  (menW (s_bs (put x p s)) = menW (s_bs x) + (if N.ltb p 6 then 1 else 0))%nat /\ (menB (s_bs (put x p s)) = menB (s_bs x) + (if N.ltb p 6 then 0 else 1))%nat.
Proof.
  intros C P T. cbn [put s_bs]. destruct (men_upd (s_bs x) p (set_bit (nthN (s_bs x) p) s) (b_len x C) P) as (A & B).
  pose proof (cnt_set (nthN (s_bs x) p) s T) as U. unfold cq in A, B. destruct (p <? 6); lia.
Qed.

Lemma men_st_eq x y : st_eq x y -> menW (s_bs x) = menW (s_bs y) /\ menB (s_bs x) = menB (s_bs y).
Proof.
  intros E. unfold menW, menB, cq. pose proof (e_bs x y E) as B. unfold sb in B.
  rewrite !(cnt_ext (nthN (s_bs x) _) (nthN (s_bs y) _) (B _)). split; reflexivity.
Qed.

(* ---- the operations of one move never add a man ---- *)
Section OpsCount.
Variables (g : game) (m : move) (vic : N).
Hypothesis C : cons g.
Hypothesis K : move_ok g m.
Hypothesis V : mcap m = true -> mep m = false -> In vic (victims (white g)) /\ tb (bb g vic) (mto m) = true.
Let p := mpiece m. Let f := mfrom m. Let t := mto m. Let w := white g.

Definition mw (x : st) : nat := menW (s_bs x).
Definition mb (x : st) : nat := menB (s_bs x).

Lemma cnt_A : (mw (ops_A g m) + (if N.ltb p 6 then 1 else 0) = menW (bbs g))%nat /\ (mb (ops_A g m) + (if N.ltb p 6 then 0 else 1) = menB (bbs g))%nat.
Proof. unfold ops_A. apply (men_take (st_of g) p f (cons_consB g C) (k_p12 g m K) (k_from g m K)). Qed.

Lemma cnt_B : (mw (ops_B g m vic) <= mw (ops_A g m))%nat /\ (mb (ops_B g m vic) <= mb (ops_A g m))%nat.
Proof.
  unfold ops_B. destruct (mcap m) eqn:CAP; [|split; lia].
  destruct (mep m) eqn:EP.
  - destruct (k_ep g m K EP) as (_ & AT & PB & _). destruct (oppP_ne g m K EP) as (NE & L12).
    assert (T : sb (ops_A g m) (oppP (white g)) (behind (white g) (mto m)) = true).
    { rewrite (sb_A g m C K). destruct (N.eqb_spec (oppP (white g)) (mpiece m)); [contradiction|exact PB]. }
    destruct (men_take (ops_A g m) _ _ (A_ok g m C K) L12 T) as (X & Y). unfold mw, mb. destruct (N.ltb (oppP (white g)) 6); lia.
  - destruct (V eq_refl eq_refl) as (VI & VT). destruct (victims_opp g vic (mpiece m) VI (k_own g m K)) as (NE & L12 & _).
    assert (T : sb (ops_A g m) vic (mto m) = true).
    { rewrite (sb_A g m C K). destruct (N.eqb_spec vic (mpiece m)); [contradiction|exact VT]. }
    destruct (men_take (ops_A g m) _ _ (A_ok g m C K) L12 T) as (X & Y). unfold mw, mb. destruct (N.ltb vic 6); lia.
Qed.

Lemma cnt_C : (mw (ops_C g m vic) = mw (ops_B g m vic) + (if N.ltb p 6 then 1 else 0))%nat /\ (mb (ops_C g m vic) = mb (ops_B g m vic) + (if N.ltb p 6 then 0 else 1))%nat.
Proof.
  unfold ops_C. destruct (B_ok g m vic C K V) as (B1 & B2 & _).
  apply (men_put (ops_B g m vic) p t B1 (k_p12 g m K)). apply (occ_none _ _ B1 B2). apply (k_p12 g m K).
Qed.

Lemma cnt_D : (mw (ops_D g m vic) = mw (ops_C g m vic))%nat /\ (mb (ops_D g m vic) = mb (ops_C g m vic))%nat.
Proof.
  unfold ops_D. cbn zeta. pose proof (C_ok g m vic C K V) as CC.
  destruct (negb (mpromo m =? NOPIECE)) eqn:PR.
  - apply negb_true_iff, N.eqb_neq in PR. destruct (k_promo g m K PR) as (P12 & PC & _ & _ & _).
    assert (T : sb (ops_C g m vic) (mpiece m) (mto m) = true) by (rewrite (sb_C g m vic C K V); rewrite !N.eqb_refl; apply orb_true_r).
    pose proof (take_ok _ _ _ CC (k_p12 g m K) T) as TK.
    destruct (men_take _ _ _ CC (k_p12 g m K) T) as (X1 & Y1).
    assert (AO : tb (s_ao (take (ops_C g m vic) (mpiece m) (mto m))) (mto m) = false) by (cbn [take s_ao]; rewrite tb_unset, N.eqb_refl; apply andb_false_r).
    destruct (men_put _ (mpromo m) (mto m) TK P12 (occ_none _ _ TK AO _ P12)) as (X2 & Y2).
    unfold mw, mb. rewrite X2, Y2. rewrite PC, <- (k_own g m K). destruct (N.ltb (mpiece m) 6); lia.
  - destruct (mcastle m) eqn:CS; [|split; reflexivity].
    destruct (k_castle g m K CS) as (CAP & _ & _ & CASES).
    assert (BA : ops_B g m vic = ops_A g m) by (unfold ops_B; rewrite CAP; reflexivity).
    assert (GEN : forall rk a b, rk < 12 -> rk <> p -> a <> b -> t <> a -> tb (aocc g) a = false -> tb (bb g rk) b = true ->
                  (mw (put (take (ops_C g m vic) rk b) rk a) = mw (ops_C g m vic))%nat /\ (mb (put (take (ops_C g m vic) rk b) rk a) = mb (ops_C g m vic))%nat).
    { intros rk a b RK NE AB TA EA TB.
      assert (T : sb (ops_C g m vic) rk b = true).
      { rewrite (sb_C g m vic C K V). destruct (N.eqb_spec rk (mpiece m)); [contradiction|]. rewrite BA, (sb_A g m C K). destruct (N.eqb_spec rk (mpiece m)); [contradiction|exact TB]. }
      pose proof (take_ok _ _ _ CC RK T) as TK. destruct (men_take _ _ _ CC RK T) as (X1 & Y1).
      assert (AO : tb (s_ao (take (ops_C g m vic) rk b)) a = false).
      { cbn [take s_ao]. rewrite tb_unset. unfold ops_C. cbn [put s_ao]. rewrite tb_set, BA, (ao_A g m), EA.
        destruct (N.eqb_spec (mto m) a); [contradiction|]. reflexivity. }
      destruct (men_put _ rk a TK RK (occ_none _ _ TK AO _ RK)) as (X2 & Y2). unfold mw, mb. rewrite X2, Y2. destruct (N.ltb rk 6); lia. }
    fold w. unfold rook_of, hop_a, hop_b.
    destruct CASES as [(W & PK & [(T1 & E1 & R1)|(T1 & E1 & R1)])|(W & PK & [(T1 & E1 & R1)|(T1 & E1 & R1)])]; fold w in W; rewrite W; rewrite T1; cbn [N.eqb Pos.eqb];
      apply GEN; try assumption; try reflexivity; try discriminate; try (unfold p; rewrite PK; discriminate); try (unfold t; rewrite T1; discriminate).
Qed.

Lemma cnt_ops : (mw (ops_D g m vic) <= menW (bbs g))%nat /\ (mb (ops_D g m vic) <= menB (bbs g))%nat.
Proof. destruct cnt_A, cnt_B, cnt_C, cnt_D. destruct (N.ltb p 6); lia. Qed.
End OpsCount.

Definition men16 (g : game) : Prop := (menW (bbs g) <= 16)%nat /\ (menB (bbs g) <= 16)%nat.

Theorem make_men16 g m g' : cons g -> move_ok g m -> make_search_move g m = Made g' -> men16 g -> men16 g'.
Proof.
  intros C K H (MW & MB). destruct (made_st_eq g m g' C K H) as (vic & V & E).
  destruct (men_st_eq _ _ E) as (EW & EB). destruct (cnt_ops g m vic C K V) as (LW & LB).
  unfold men16. cbn [st_of s_bs] in EW, EB. unfold mw, mb in LW, LB. split; lia.
Qed.
Lemma null_men16 g : men16 g -> men16 (null_move g). Proof. intros H. exact H. Qed.
