(* C16, the bound: for every position satisfying the invariant with at most 16 men a side, the static evaluation stays strictly
   inside the range below the mate scores: |evaluate g| < MATE_BOUND.  (One king each: the two king values cancel; every other man
   contributes at most 1100 in magnitude (with room for retuned tables: entries within +-200): tables by evaluation over the 64 squares, mobility and pawn-structure counts by 0..64.) *)
From Coq Require Import NArith ZArith List Bool Lia Permutation.
From JV Require Import Gen.Consts Spec.Rays Model.Bits Model.Chess Model.Eval Model.SearchChess Model.Sym Proofs.BitboardProofs Proofs.KeyProofs Proofs.GenProofs Proofs.ConsProofs
  Proofs.KingsProofs Proofs.RangeProofs Proofs.AttackSym Proofs.AbsBase Proofs.LegalInv Proofs.CountProofs Proofs.EvalProofs.
Import ListNotations.
Local Open Scope Z_scope.

(* ---- counts are between 0 and 64 ---- *)
Lemma cnt_le64 b : (forall s, tb b s = true -> (s < 64)%N) -> (cnt b <= 64)%nat.
Proof.
  intros R. unfold cnt. rewrite <- (BitsProofs.seqN_length 0 64).
  apply NoDup_incl_length; [apply bits_of_nodup|]. intros s H. apply bits_of_spec in H. apply in_seqN64. apply R. exact H.
Qed.
Lemma pc_bounds b : (forall s, tb b s = true -> (s < 64)%N) -> 0 <= pop_count b <= 64.
Proof. intros R. unfold pop_count. fold (cnt b). pose proof (cnt_le64 b R). lia. Qed.
Lemma land_lt_l a b : (forall s, tb a s = true -> (s < 64)%N) -> forall s, tb (N.land a b) s = true -> (s < 64)%N.
Proof. intros R s H. rewrite land_bit in H. apply andb_true_iff in H. apply R. tauto. Qed.

Definition rays_in_range : bool :=
  forallb (fun f => forallb (fun d => forallb (fun x => (x <? 64)%N) (rayl f d)) (rook_dirs ++ bishop_dirs)) (seqN 0 64).
Lemma rays_check : rays_in_range = true. Proof. vm_compute. reflexivity. Qed.
Lemma slide_lt dirs f occ t : (f < 64)%N -> incl dirs (rook_dirs ++ bishop_dirs) -> tb (slide dirs f occ) t = true -> (t < 64)%N.
Proof.
  intros F I H. unfold tb in H. rewrite slide_reach in H. apply existsb_exists in H. destruct H as (d & D & H). apply reachl_in in H.
  pose proof rays_check as X. unfold rays_in_range in X. rewrite forallb_forall in X. specialize (X f (in_seqN64 f F)).
  rewrite forallb_forall in X. specialize (X d (I d D)). rewrite forallb_forall in X. specialize (X t H). apply N.ltb_lt in X. exact X.
Qed.
Lemma rook_lt f occ t : (f < 64)%N -> tb (rook_att f occ) t = true -> (t < 64)%N.
Proof. intros F. apply slide_lt; [exact F|apply incl_appl; apply incl_refl]. Qed.
Lemma bishop_lt f occ t : (f < 64)%N -> tb (bishop_att f occ) t = true -> (t < 64)%N.
Proof. intros F. apply slide_lt; [exact F|apply incl_appr; apply incl_refl]. Qed.
Lemma queen_lt f occ t : (f < 64)%N -> tb (queen_att f occ) t = true -> (t < 64)%N.
Proof.
  intros F H. unfold queen_att, tb in H. rewrite N.lor_spec in H. apply orb_true_iff in H. destruct H as [H|H]; [apply (rook_lt f occ t F H)|apply (bishop_lt f occ t F H)].
Qed.
Definition leapers_in_range : bool := forallb (fun f => (knight_att f <? 2 ^ 64)%N && (king_att f <? 2 ^ 64)%N) (seqN 0 64).
Lemma leapers_check : leapers_in_range = true. Proof. vm_compute. reflexivity. Qed.
Lemma below_pow b n s : (b < 2 ^ n)%N -> tb b s = true -> (s < n)%N.
Proof.
  intros L T. destruct (N.lt_ge_cases s n) as [|G]; [assumption|]. exfalso. unfold tb in T.
  destruct (N.eq_dec b 0) as [->|NZ]; [rewrite N.bits_0 in T; discriminate|].
  rewrite N.bits_above_log2 in T; [discriminate|]. apply N.log2_lt_pow2 in L; lia.
Qed.
Lemma knight_lt f t : (f < 64)%N -> tb (knight_att f) t = true -> (t < 64)%N.
Proof. intros F. pose proof (all64 _ leapers_check f F) as X. apply andb_true_iff in X. destruct X as [X _]. apply N.ltb_lt in X. apply below_pow. exact X. Qed.
Lemma king_lt f t : (f < 64)%N -> tb (king_att f) t = true -> (t < 64)%N.
Proof. intros F. pose proof (all64 _ leapers_check f F) as X. apply andb_true_iff in X. destruct X as [_ X]. apply N.ltb_lt in X. apply below_pow. exact X. Qed.

(* ---- the tables ---- *)
Definition tab_ok (sq : N) : bool :=
  let m := nthN MIRRORED sq in
  let inr (v : Z) := (-200 <=? v) && (v <=? 200) in
  inr (nthZ PAWN_SCORES sq) && inr (nthZ KNIGHT_SCORES sq) && inr (nthZ BISHOP_SCORES sq) && inr (nthZ ROOK_SCORES sq) && inr (nthZ KING_SCORES sq) &&
  inr (nthZ PAWN_SCORES m) && inr (nthZ KNIGHT_SCORES m) && inr (nthZ BISHOP_SCORES m) && inr (nthZ ROOK_SCORES m) && inr (nthZ KING_SCORES m) &&
  (0 <=? nthZ PASSED_WHITE_PAWN_BONUS (nthN LOOKUP_RANK sq)) && (nthZ PASSED_WHITE_PAWN_BONUS (nthN LOOKUP_RANK sq) <=? 200) &&
  (0 <=? nthZ PASSED_BLACK_PAWN_BONUS (nthN LOOKUP_RANK sq)) && (nthZ PASSED_BLACK_PAWN_BONUS (nthN LOOKUP_RANK sq) <=? 200).
Lemma tab_check : forallb tab_ok (seqN 0 64) = true. Proof. vm_compute. reflexivity. Qed.

Lemma mw_vals : nthZ MATERIAL_WEIGHTS 0 = 100 /\ nthZ MATERIAL_WEIGHTS 1 = 300 /\ nthZ MATERIAL_WEIGHTS 2 = 350 /\ nthZ MATERIAL_WEIGHTS 3 = 500 /\
  nthZ MATERIAL_WEIGHTS 4 = 1000 /\ nthZ MATERIAL_WEIGHTS 5 = 10000 /\ nthZ MATERIAL_WEIGHTS 6 = -100 /\ nthZ MATERIAL_WEIGHTS 7 = -300 /\
  nthZ MATERIAL_WEIGHTS 8 = -350 /\ nthZ MATERIAL_WEIGHTS 9 = -500 /\ nthZ MATERIAL_WEIGHTS 10 = -1000 /\ nthZ MATERIAL_WEIGHTS 11 = -10000.
Proof. repeat split; reflexivity. Qed.

Section Piece.
Variables (g : game) (sq : N).
Hypothesis C : cons g.
Hypothesis R : range g.
Hypothesis SQ : (sq < 64)%N.

Lemma wp_lt s : tb (bb g WP) s = true -> (s < 64)%N. Proof. apply (r_sq g R WP s); reflexivity. Qed.
Lemma bp_lt s : tb (bb g BP) s = true -> (s < 64)%N. Proof. apply (r_sq g R BP s); reflexivity. Qed.

Ltac split_tab X :=
  repeat (let Y := fresh "T" in apply andb_true_iff in X; destruct X as [X Y]);
  repeat match goal with H : (_ <=? _) = true |- _ => apply Z.leb_le in H end.

Theorem piece_bound p : (p < 12)%N ->
  (p <> 5%N -> p <> 11%N -> -1100 <= eval_piece g p sq <= 1100) /\
  (p = 5%N -> 9400 <= eval_piece g p sq <= 10600) /\ (p = 11%N -> -10600 <= eval_piece g p sq <= -9400).
Proof.
  intros P.
  pose proof (all64 _ tab_check sq SQ) as TB. unfold tab_ok in TB. cbn zeta in TB. split_tab TB.
  pose proof (pc_bounds _ (land_lt_l (bb g WP) (nthN FILE_MASKS sq) wp_lt)) as B1.
  pose proof (pc_bounds _ (land_lt_l (bb g BP) (nthN FILE_MASKS sq) bp_lt)) as B2.
  pose proof (pc_bounds _ (fun t => knight_lt sq t SQ)) as B3.
  pose proof (pc_bounds _ (fun t => bishop_lt sq (aocc g) t SQ)) as B4.
  pose proof (pc_bounds _ (fun t => rook_lt sq (aocc g) t SQ)) as B5.
  pose proof (pc_bounds _ (fun t => queen_lt sq (aocc g) t SQ)) as B6.
  pose proof (pc_bounds _ (land_lt_l (king_att sq) (wocc g) (fun t => king_lt sq t SQ))) as B7.
  pose proof (pc_bounds _ (land_lt_l (king_att sq) (bocc g) (fun t => king_lt sq t SQ))) as B8.
  destruct mw_vals as (M0 & M1 & M2 & M3 & M4 & M5 & M6 & M7 & M8 & M9 & M10 & M11).
  unfold STACKED_PAWN_PENALTY, ISOLATED_PAWN_PENALTY, SEMI_OPEN_FILE_SCORE, OPEN_FILE_SCORE, PROTECTED_KING_BONUS in *.
  destruct (p12_cases p P) as [E|[E|[E|[E|[E|[E|[E|[E|[E|[E|[E|E]]]]]]]]]]]; subst p;
    (split; [intros N5 N11|split; intros E5]); try discriminate; try (exfalso; (apply N5 || apply N11); reflexivity);
    unfold eval_piece; cbn [N.eqb Pos.eqb]; cbn zeta;
    unfold STACKED_PAWN_PENALTY, ISOLATED_PAWN_PENALTY, SEMI_OPEN_FILE_SCORE, OPEN_FILE_SCORE, PROTECTED_KING_BONUS;
    rewrite ?M0, ?M1, ?M2, ?M3, ?M4, ?M5, ?M6, ?M7, ?M8, ?M9, ?M10, ?M11;
    repeat match goal with |- context [if ?c then _ else _] => destruct c end; lia.
Qed.
End Piece.

(* ---- summing up ---- *)
Definition sumZ (l : list Z) : Z := fold_right Z.add 0 l.
Lemma fold_sum {A} (h : A -> Z) l : forall a, fold_left (fun s x => s + h x) l a = a + sumZ (map h l).
Proof. induction l as [|x l IH]; intros a; cbn [fold_left map sumZ fold_right]; [lia|]. rewrite IH. unfold sumZ. lia. Qed.
Lemma sum_bound {A} (h : A -> Z) l B : (forall x, In x l -> - B <= h x <= B) -> - B * Z.of_nat (length l) <= sumZ (map h l) <= B * Z.of_nat (length l).
Proof.
  unfold sumZ. induction l as [|x l IH]; intros H; cbn [map fold_right length]; [lia|].
  specialize (IH (fun y Hy => H y (or_intror Hy))). pose proof (H x (or_introl eq_refl)). lia.
Qed.
Lemma single_bits b : single b -> exists k, bits_of b = [k] /\ tb b k = true.
Proof.
  intros (k & K). exists k. split; [|apply K; reflexivity].
  assert (P : Permutation (bits_of b) [k]).
  { apply NoDup_Permutation; [apply bits_of_nodup|constructor; [intros []|constructor]|]. intros s. rewrite bits_of_spec. cbn [In]. unfold tb in K. rewrite (K s). intuition. }
  apply Permutation_length_1_inv. apply Permutation_sym. exact P.
Qed.

Section Bound.
Variable g : game.
Hypothesis C : cons g.
Hypothesis KG : kings g.
Hypothesis R : range g.
Hypothesis M : men16 g.

Definition S (p : N) : Z := sumZ (map (eval_piece g p) (bits_of (bb g p))).

Lemma evaluate_white_sum : evaluate_white g = S 0 + S 1 + S 2 + S 3 + S 4 + S 5 + S 6 + S 7 + S 8 + S 9 + S 10 + S 11.
Proof. unfold evaluate_white. cbn [fold_left]. rewrite !fold_sum. unfold S. lia. Qed.

Lemma S_other p : (p < 12)%N -> p <> 5%N -> p <> 11%N -> - 1100 * Z.of_nat (cq (bbs g) p) <= S p <= 1100 * Z.of_nat (cq (bbs g) p).
Proof.
  intros P N5 N11. unfold S, cq, cnt. change (nthN (bbs g) p) with (bb g p).
  apply (sum_bound (eval_piece g p) (bits_of (bb g p)) 1100). intros sq H. apply bits_of_spec in H.
  pose proof (r_sq g R p sq P H) as SQ. destruct (piece_bound g sq R SQ p P) as (B & _). apply B; assumption.
Qed.
Lemma S_wk : 9400 <= S 5 <= 10600 /\ cq (bbs g) 5 = 1%nat.
Proof.
  destruct KG as (KW & _). destruct (single_bits _ KW) as (k & E & T). unfold S, cq, cnt. change (bb g 5) with (bb g WK). change (nthN (bbs g) 5) with (bb g WK).
  rewrite E. cbn [map sumZ fold_right length]. split; [|reflexivity].
  pose proof (r_sq g R WK k ltac:(reflexivity) T) as SQ. destruct (piece_bound g k R SQ 5 ltac:(reflexivity)) as (_ & B & _). specialize (B eq_refl). lia.
Qed.
Lemma S_bk : -10600 <= S 11 <= -9400 /\ cq (bbs g) 11 = 1%nat.
Proof.
  destruct KG as (_ & KB). destruct (single_bits _ KB) as (k & E & T). unfold S, cq, cnt. change (bb g 11) with (bb g BK). change (nthN (bbs g) 11) with (bb g BK).
  rewrite E. cbn [map sumZ fold_right length]. split; [|reflexivity].
  pose proof (r_sq g R BK k ltac:(reflexivity) T) as SQ. destruct (piece_bound g k R SQ 11 ltac:(reflexivity)) as (_ & _ & B). specialize (B eq_refl). lia.
Qed.

Theorem evaluate_white_bound : Z.abs (evaluate_white g) <= 34200.
Proof.
  rewrite evaluate_white_sum. destruct M as (MW & MB). unfold menW, menB in MW, MB.
  destruct S_wk as (K1 & K2). destruct S_bk as (K3 & K4).
  pose proof (S_other 0 ltac:(reflexivity) ltac:(discriminate) ltac:(discriminate)).
  pose proof (S_other 1 ltac:(reflexivity) ltac:(discriminate) ltac:(discriminate)).
  pose proof (S_other 2 ltac:(reflexivity) ltac:(discriminate) ltac:(discriminate)).
  pose proof (S_other 3 ltac:(reflexivity) ltac:(discriminate) ltac:(discriminate)).
  pose proof (S_other 4 ltac:(reflexivity) ltac:(discriminate) ltac:(discriminate)).
  pose proof (S_other 6 ltac:(reflexivity) ltac:(discriminate) ltac:(discriminate)).
  pose proof (S_other 7 ltac:(reflexivity) ltac:(discriminate) ltac:(discriminate)).
  pose proof (S_other 8 ltac:(reflexivity) ltac:(discriminate) ltac:(discriminate)).
  pose proof (S_other 9 ltac:(reflexivity) ltac:(discriminate) ltac:(discriminate)).
  pose proof (S_other 10 ltac:(reflexivity) ltac:(discriminate) ltac:(discriminate)).
  lia.
Qed.

Theorem evaluate_bound : Z.abs (evaluate g) < MATE_BOUND.
Proof. pose proof evaluate_white_bound as B. unfold evaluate, MATE_BOUND. destruct (white g); lia. Qed.
End Bound.
Print Assumptions evaluate_bound.
