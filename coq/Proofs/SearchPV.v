(* C12 / C03: the principal variation is a legal line.
   For every game interface, oracle, TT content and history: whenever a negamax call at ply p on position g returns a value
   strictly inside its window and the search is not stopped, row p of the PV table (up to pv_lengths[p]) is a line of moves
   that are generated and accepted by `make`, played from g.  Consequently every info line printed by search() (only in-window
   iterations are printed) carries a legal line, and the best move taken from the PV is a legal move.
   The argument: a PV node never returns from the TT probe; a move enters row p only after a full-window search of the child
   whose negated result lies inside (ta, beta); everything else that touches row p returns beta or a value <= alpha. *)
From Coq Require Import NArith ZArith List Bool Lia.
From Coq Require Import Permutation.
From JV Require Import Gen.Consts Model.TT Model.Search Proofs.SearchBalance Proofs.SortProofs.
Import ListNotations.

Section PV.
Variables (pos move : Type).
Variable gen : pos -> bool -> list move.
Variable make : pos -> move -> option pos.
Variable null : pos -> pos.
Variable evalf : pos -> Z.
Variable in_check : pos -> bool.
Variable key : pos -> N.
Variable half100 : pos -> bool.
Variable mv_eqb : move -> move -> bool.
Variable mv_cap : move -> bool.
Variable mv_promo : move -> bool.
Variable mv_hidx : move -> nat.
Variable cap_score : pos -> move -> Z.
Variable null_mv : move.
Variable legalb : pos -> move -> bool.
Variable pollp : N -> bool.
Variable stop_at : nat -> bool.
Variable tt_bypass : bool.

Notation env := (env pos move).
Notation res := (res pos move).
Notation lres := (lres pos move).
Notation negamax := (negamax gen make null evalf in_check key half100 mv_eqb mv_cap mv_promo mv_hidx cap_score null_mv pollp stop_at tt_bypass).
Notation quiescence := (quiescence gen make evalf key half100 mv_eqb mv_cap mv_hidx cap_score null_mv pollp stop_at).
Notation negamax_body := (negamax_body gen make null evalf in_check key half100 mv_eqb mv_cap mv_promo mv_hidx cap_score null_mv pollp stop_at tt_bypass).
Notation quiescence_body := (quiescence_body gen make evalf key half100 mv_eqb mv_cap mv_hidx cap_score null_mv pollp stop_at).
Notation nloop := (nloop make key mv_cap mv_promo mv_hidx).
Notation qloop := (qloop make key).
Notation sort_moves := (sort_moves mv_eqb mv_cap mv_hidx cap_score null_mv).
Notation score_all := (score_all mv_eqb mv_cap mv_hidx cap_score null_mv).
Notation score_move := (score_move mv_eqb mv_cap mv_hidx cap_score null_mv).
Notation maybe_poll := (maybe_poll pollp stop_at).
Notation poll := (poll stop_at).
Notation enable_pv_scoring := (enable_pv_scoring mv_eqb null_mv).
Notation bal := (bal pos move stop_at).

(* a line of moves each of which is generated and accepted by make *)
Fixpoint line_ok (g : pos) (ms : list move) : Prop :=
  match ms with
  | [] => True
  | m :: r => In m (gen g true) /\ exists g', make g m = Some g' /\ line_ok g' r
  end.

(* the PV stored for ply p: pv_table[p][p .. pv_lengths[p]) *)
Definition pv_of (e : env) (p : nat) : list move := firstn (nth p (pvlen e) O - p) (skipn p (pv_row e p)).

Definition PVwf (e : env) : Prop :=
  length (pvlen e) = MAXPLY /\ length (pvtab e) = MAXPLY /\ Forall (fun r => length r = MAXPLY) (pvtab e) /\
  Forall (fun l => (l <= MAXPLY)%nat) (pvlen e).

(* everything the PV reasoning reads of an environment *)
Definition same_pv (e e' : env) : Prop := pvlen e' = pvlen e /\ pvtab e' = pvtab e.
(* rows and lengths below ply p are untouched *)
Definition fb (p : nat) (e e' : env) : Prop :=
  forall q, (q < p)%nat -> nth q (pvlen e') O = nth q (pvlen e) O /\ nth q (pvtab e') [] = nth q (pvtab e) [].

Lemma fb_refl p e : fb p e e. Proof. intros q _. auto. Qed.
Lemma fb_trans p a b c : fb p a b -> fb p b c -> fb p a c.
Proof. intros H1 H2 q Hq. destruct (H1 q Hq) as [A1 A2]. destruct (H2 q Hq) as [B1 B2]. split; congruence. Qed.
Lemma fb_weaken p q a b : (q <= p)%nat -> fb p a b -> fb q a b.
Proof. intros L H r Hr. apply H. lia. Qed.
Lemma same_pv_fb p e e' : same_pv e e' -> fb p e e'.
Proof. intros [H1 H2] q _. rewrite H1, H2. auto. Qed.
Lemma same_pv_wf e e' : same_pv e e' -> PVwf e -> PVwf e'.
Proof. intros [H1 H2]. unfold PVwf. rewrite H1, H2. auto. Qed.
Lemma same_pv_of e e' p : same_pv e e' -> pv_of e' p = pv_of e p.
Proof. intros [H1 H2]. unfold pv_of, pv_row. rewrite H1, H2. reflexivity. Qed.
Lemma same_pv_refl e : same_pv e e. Proof. split; reflexivity. Qed.
Lemma same_pv_trans a b c : same_pv a b -> same_pv b c -> same_pv a c.
Proof. intros [A1 A2] [B1 B2]. split; congruence. Qed.

(* the head of PV row 0 (what search() reports as best move) is still the initial null move, or a move of g accepted by make *)
Definition R0 (g : pos) (e : env) : Prop :=
  let m := nth 0 (pv_row e 0) null_mv in m = null_mv \/ (In m (gen g true) /\ exists g', make g m = Some g').
Definition r0same (e e' : env) : Prop := pv_row e' 0 = pv_row e 0.
Lemma r0same_R0 g e e' : r0same e e' -> R0 g e -> R0 g e'.
Proof. unfold r0same, R0. intros ->. auto. Qed.
Lemma r0same_refl e : r0same e e. Proof. reflexivity. Qed.
Lemma r0same_trans a b c : r0same a b -> r0same b c -> r0same a c.
Proof. unfold r0same. congruence. Qed.
Lemma same_pv_r0 e e' : same_pv e e' -> r0same e e'.
Proof. intros [_ H]. unfold r0same, pv_row. rewrite H. reflexivity. Qed.
Lemma fb_r0 p e e' : fb (S p) e e' -> r0same e e'.
Proof. intros H. destruct (H O ltac:(lia)) as [_ X]. exact X. Qed.

Ltac spv := unfold same_pv; cbn; split; reflexivity.
Lemma spv_emit e ev : same_pv e (emit e ev). Proof. spv. Qed.
Lemma spv_set_nodes e n : same_pv e (set_nodes e n). Proof. spv. Qed.
Lemma spv_set_hits e h : same_pv e (set_hits e h). Proof. spv. Qed.
Lemma spv_set_flags e a b : same_pv e (set_flags e a b). Proof. spv. Qed.
Lemma spv_set_killers e a b : same_pv e (set_killers e a b). Proof. spv. Qed.
Lemma spv_set_history e h : same_pv e (set_history e h). Proof. spv. Qed.
Lemma spv_set_ply e p : same_pv e (set_ply e p). Proof. spv. Qed.
Lemma spv_set_tbl e t : same_pv e (set_tbl e t). Proof. spv. Qed.
Lemma spv_rep_insert e k : same_pv e (rep_insert e k). Proof. spv. Qed.
Lemma spv_rep_back e : same_pv e (rep_back e). Proof. spv. Qed.
Lemma spv_poll e : same_pv e (poll e).
Proof. unfold Search.poll. cbn zeta. destruct (stop_at (npolls e) && negb (stopping e)); spv. Qed.
Lemma spv_maybe_poll e : same_pv e (maybe_poll e).
Proof. unfold Search.maybe_poll. destruct (pollp _); [apply spv_poll|apply same_pv_refl]. Qed.
Lemma spv_score_move g m e : same_pv e (snd (score_move g m e)).
Proof. unfold Search.score_move. repeat match goal with |- context [if ?c then _ else _] => destruct c end; cbn [snd]; try apply same_pv_refl. apply spv_set_flags. Qed.
Lemma spv_score_all g ms : forall e, same_pv e (snd (score_all g ms e)).
Proof.
  induction ms as [|m r IH]; intros e; cbn [Search.score_all snd]; [apply same_pv_refl|].
  destruct (score_move g m e) as [s e1] eqn:E1. destruct (score_all g r e1) as [l e2] eqn:E2. cbn [snd].
  pose proof (spv_score_move g m e) as B1. rewrite E1 in B1. pose proof (IH e1) as B2. rewrite E2 in B2. eapply same_pv_trans; eassumption.
Qed.
Lemma spv_sort_moves g ms e : same_pv e (snd (sort_moves g ms e)).
Proof. unfold Search.sort_moves. destruct (score_all g ms e) as [sc e1] eqn:E. cbn [snd]. pose proof (spv_score_all g ms e) as B. rewrite E in B. exact B. Qed.
Lemma spv_enable_pv ms e : same_pv e (enable_pv_scoring ms e).
Proof. unfold Search.enable_pv_scoring. destruct (existsb _ _); apply spv_set_flags. Qed.

(* ---- list facts about updl ---- *)
Lemma updl_nil {A} i (v : A) : updl [] i v = [].
Proof. unfold updl. rewrite firstn_nil, skipn_nil. reflexivity. Qed.
Lemma updl_0 {A} (x : A) l v : updl (x :: l) 0 v = v :: l.
Proof. reflexivity. Qed.
Lemma updl_S {A} (x : A) l i v : updl (x :: l) (S i) v = x :: updl l i v.
Proof. reflexivity. Qed.

Lemma nth_updl_same {A} (l : list A) : forall i v d, (i < length l)%nat -> nth i (updl l i v) d = v.
Proof.
  induction l as [|x l IH]; intros [|i] v d H; cbn [length] in H; try lia.
  - reflexivity.
  - rewrite updl_S. cbn [nth]. apply IH. lia.
Qed.
Lemma nth_updl_other {A} (l : list A) : forall i j v d, i <> j -> nth j (updl l i v) d = nth j l d.
Proof.
  induction l as [|x l IH]; intros i j v d NE.
  - rewrite updl_nil. reflexivity.
  - destruct i as [|i]; destruct j as [|j]; try congruence; try reflexivity.
    rewrite updl_S. cbn [nth]. apply IH. congruence.
Qed.
Lemma Forall_updl {A} (P : A -> Prop) (l : list A) : forall i v, Forall P l -> P v -> Forall P (updl l i v).
Proof.
  induction l as [|x l IH]; intros i v F Pv.
  - rewrite updl_nil. constructor.
  - inversion F; subst. destruct i as [|i]; [rewrite updl_0|rewrite updl_S]; constructor; auto.
Qed.

(* ---- the two PV operations ---- *)
Lemma nth_Forall_le (l : list nat) i b : Forall (fun x => (x <= b)%nat) l -> (nth i l O <= b)%nat.
Proof.
  intros F. destruct (Nat.lt_ge_cases i (length l)) as [L|G].
  - rewrite Forall_forall in F. apply F. apply nth_In. exact L.
  - rewrite nth_overflow by exact G. lia.
Qed.
Lemma nth_Forall_len {A} (l : list (list A)) i b : Forall (fun r => length r = b) l -> (i < length l)%nat -> length (nth i l []) = b.
Proof. intros F L. rewrite Forall_forall in F. apply F. apply nth_In. exact L. Qed.

(* pv_lengths[ply] = ply at node entry *)
Definition reset_pv (e : env) : env := set_pv e (updl (pvlen e) (ply e) (ply e)) (pvtab e).
Lemma reset_wf e : PVwf e -> (ply e <= MAXPLY)%nat -> PVwf (reset_pv e).
Proof.
  unfold PVwf, reset_pv. cbn [pvlen pvtab set_pv]. intros (H1 & H2 & H3 & H4) P.
  rewrite length_updl. repeat split; try assumption. apply Forall_updl; assumption.
Qed.
Lemma reset_fb e : fb (ply e) e (reset_pv e).
Proof. intros q Hq. unfold reset_pv. cbn [pvlen pvtab set_pv]. split; [apply nth_updl_other; lia|reflexivity]. Qed.
Lemma reset_pv_of e : PVwf e -> pv_of (reset_pv e) (ply e) = [].
Proof.
  intros (H1 & _). unfold pv_of, reset_pv. cbn [pvlen pvtab set_pv pv_row].
  destruct (Nat.lt_ge_cases (ply e) (length (pvlen e))) as [L|G].
  - rewrite nth_updl_same by exact L. rewrite Nat.sub_diag. reflexivity.
  - rewrite nth_overflow by (rewrite length_updl; exact G). reflexivity.
Qed.

Lemma reset_r0 e : r0same e (reset_pv e).
Proof. reflexivity. Qed.
Lemma insert_R0 g e m : PVwf e -> ply e = O -> In m (gen g true) -> (exists g', make g m = Some g') -> R0 g (insert_pv e m).
Proof.
  intros (H1 & H2 & H3 & H4) P Hin Hmk. unfold R0, insert_pv. cbn zeta. unfold pv_row. cbn [pvlen pvtab set_pv emit ply].
  rewrite P. rewrite nth_updl_same by (rewrite H2, MAXPLY_val; lia). cbn [firstn app nth]. right. split; assumption.
Qed.

Lemma insert_wf e m : PVwf e -> (ply e < MAXPLY - 1)%nat -> PVwf (insert_pv e m).
Proof.
  unfold PVwf, insert_pv. cbn zeta. cbn [pvlen pvtab set_pv emit ply pv_row]. intros (H1 & H2 & H3 & H4) P.
  rewrite !length_updl. split; [exact H1|]. split; [exact H2|]. split.
  - apply Forall_updl; [exact H3|].
    set (p := ply e) in *. set (len := nth (S p) (pvlen e) O).
    assert (Ll : (len <= MAXPLY)%nat) by (apply nth_Forall_le; exact H4).
    assert (Lo : length (nth p (pvtab e) []) = MAXPLY) by (apply nth_Forall_len; [exact H3|lia]).
    assert (Lr : length (nth (S p) (pvtab e) []) = MAXPLY) by (apply nth_Forall_len; [exact H3|lia]).
    unfold pv_row. cbn [pvtab emit]. rewrite !app_length, !firstn_length, !skipn_length, Lo, Lr. cbn [length]. lia.
  - apply Forall_updl; [exact H4|]. apply nth_Forall_le. exact H4.
Qed.
Lemma insert_fb e m : fb (ply e) e (insert_pv e m).
Proof.
  intros q Hq. unfold insert_pv. cbn zeta. cbn [pvlen pvtab set_pv emit ply].
  split; apply nth_updl_other; lia.
Qed.
Lemma insert_pv_of e m : PVwf e -> (ply e < MAXPLY - 1)%nat ->
  pv_of (insert_pv e m) (ply e) =
  if Nat.leb (S (ply e)) (nth (S (ply e)) (pvlen e) O) then m :: pv_of e (S (ply e)) else [].
Proof.
  intros (H1 & H2 & H3 & H4) P. unfold pv_of, insert_pv. cbn zeta. unfold pv_row. cbn [pvlen pvtab set_pv emit ply].
  set (p := ply e) in *. set (len := nth (S p) (pvlen e) O).
  assert (Ll : (len <= MAXPLY)%nat) by (apply nth_Forall_le; exact H4).
  assert (Lo : length (nth p (pvtab e) []) = MAXPLY) by (apply nth_Forall_len; [exact H3|lia]).
  assert (Lr : length (nth (S p) (pvtab e) []) = MAXPLY) by (apply nth_Forall_len; [exact H3|lia]).
  rewrite !nth_updl_same by lia.
  set (old := nth p (pvtab e) []) in *. set (row := nth (S p) (pvtab e) []) in *.
  assert (Lf : length (firstn p old) = p) by (rewrite firstn_length; lia).
  rewrite skipn_app, Lf, Nat.sub_diag. rewrite (skipn_all2 (firstn p old)) by lia. rewrite skipn_O. cbn [app].
  destruct (Nat.leb_spec (S p) len) as [L|G].
  - replace (len - p)%nat with (S (len - S p)) by lia. cbn [firstn]. f_equal.
    rewrite firstn_app. rewrite firstn_firstn, Nat.min_id.
    assert (Lx : length (firstn (len - S p) (skipn (S p) row)) = (len - S p)%nat) by (rewrite firstn_length, skipn_length; lia).
    rewrite Lx, Nat.sub_diag. cbn [firstn]. apply app_nil_r.
  - replace (len - p)%nat with O by lia. reflexivity.
Qed.

(* ---- quiescence never touches the PV ---- *)
Definition Qpv (f : pos -> Z -> Z -> env -> res) : Prop :=
  forall g a b e, match f g a b e with Val _ e' => same_pv e e' | OutOfFuel => True end.

Lemma qloop_pv rec_q (Hq : Qpv rec_q) g ms : forall ta b e,
  match qloop rec_q g ms ta b e with Val _ e' => same_pv e e' | OutOfFuel => True end.
Proof.
  induction ms as [|m rest IH]; intros ta b e; cbn [Search.qloop].
  - apply same_pv_refl.
  - unfold make_rep. destruct (make g m) as [g'|]; [|apply IH].
    set (e2 := set_ply (rep_insert e (key g')) (S (ply (rep_insert e (key g'))))).
    assert (S2 : same_pv e e2) by (eapply same_pv_trans; [apply spv_rep_insert|apply spv_set_ply]).
    pose proof (Hq g' (- b)%Z (- ta)%Z e2) as R.
    destruct (rec_q g' (- b)%Z (- ta)%Z e2) as [s e3|]; [|exact I].
    set (e4 := rep_back (set_ply e3 (pred (ply e3)))).
    assert (S4 : same_pv e e4).
    { eapply same_pv_trans; [exact S2|]. eapply same_pv_trans; [exact R|]. eapply same_pv_trans; [apply spv_set_ply|apply spv_rep_back]. }
    destruct (_ >=? b)%Z; [exact S4|].
    specialize (IH (if (- s >? ta)%Z then (- s)%Z else ta) b e4).
    destruct (qloop rec_q g rest _ b e4); [eapply same_pv_trans; eassumption|exact I].
Qed.

Lemma quiescence_body_pv rec_q (Hq : Qpv rec_q) : Qpv (quiescence_body rec_q).
Proof.
  intros g a b e. unfold Search.quiescence_body.
  set (e0 := emit e _). set (e1 := maybe_poll e0). set (e2 := set_nodes e1 (N.succ (nodes e1))).
  assert (S2 : same_pv e e2).
  { eapply same_pv_trans; [apply spv_emit|]. eapply same_pv_trans; [apply spv_maybe_poll|apply spv_set_nodes]. }
  destruct (_ || _); [exact S2|]. destruct (_ && _); [exact S2|].
  destruct (sort_moves g (gen g false) e2) as [ms e3] eqn:ES.
  pose proof (spv_sort_moves g (gen g false) e2) as S3. rewrite ES in S3. cbn [snd] in S3.
  pose proof (qloop_pv rec_q Hq g ms (if (evalf g >? a)%Z then evalf g else a) b e3) as L.
  destruct (qloop rec_q g ms _ b e3); [|exact I]. eapply same_pv_trans; [exact S2|]. eapply same_pv_trans; eassumption.
Qed.

Lemma quiescence_pv : forall fuel, Qpv (quiescence fuel).
Proof. induction fuel as [|f IH]; [intros g a b e; exact I|]. apply quiescence_body_pv. exact IH. Qed.

(* ---- the main invariant ---- *)
Definition PVclaim (g : pos) (a b s : Z) (e e' : env) : Prop :=
  PVwf e' /\ fb (ply e) e e' /\ ((a < s < b)%Z -> stopping e' = false -> line_ok g (pv_of e' (ply e))) /\
  (ply e = O -> R0 g e').

Definition Fpv (n : nat) (f : pos -> nat -> Z -> Z -> env -> res) : Prop :=
  forall g d a b e, (ply e <= MAXPLY)%nat -> (MAXPLY + 3 - ply e <= n)%nat -> PVwf e -> (ply e = O -> R0 g e) ->
  match f g d a b e with Val s e' => PVclaim g a b s e e' | OutOfFuel => True end.

Section BodyLemmas.
Variable n : nat.
Variable rec_n : pos -> nat -> Z -> Z -> env -> res.
Variable rec_q : pos -> Z -> Z -> env -> res.
Hypothesis Hbn : Pn pos move stop_at n rec_n.
Hypothesis Hbq : Pq pos move stop_at n rec_q.
Hypothesis Hpn : Fpv n rec_n.
Hypothesis Hpq : Qpv rec_q.

Notation after_move := (after_move key mv_cap mv_hidx).
Notation search_move := (search_move mv_cap mv_promo rec_n).
Notation move_phase := (move_phase gen make key mv_eqb mv_cap mv_promo mv_hidx cap_score null_mv rec_n).

(* what the move loop guarantees for a node at ply p with original window (a0, beta), started from e_in *)
Definition LS (g : pos) (p : nat) (a0 : Z) (ta : Z) (exact : bool) (e : env) : Prop :=
  ply e = p /\ PVwf e /\ line_ok g (pv_of e p) /\ (exact = false -> ta = a0) /\ (exact = true -> (a0 < ta)%Z) /\ (p = O -> R0 g e).
Definition Lclaim (g : pos) (p : nat) (a0 beta : Z) (e_in : env) (r : lres) : Prop :=
  match r with
  | LRet s e' => PVwf e' /\ fb p e_in e' /\ (s = beta \/ stopping e' = true) /\ (p = O -> R0 g e')
  | LDone ta e' _ exact => fb p e_in e' /\ LS g p a0 ta exact e'
  | LFuel => True
  end.

Lemma Lclaim_fb g p a0 beta e0 e1 r : fb p e0 e1 -> Lclaim g p a0 beta e1 r -> Lclaim g p a0 beta e0 r.
Proof.
  intros F H. destruct r; cbn [Lclaim] in *; try exact H.
  - destruct H as [H1 [H2 [H3 H4]]]. split; [exact H1|]. split; [eapply fb_trans; eassumption|]. split; assumption.
  - destruct H as [H1 H2]. split; [eapply fb_trans; eassumption|exact H2].
Qed.

(* the continuation after the searches of move m (made position g') *)
Lemma after_move_pv g g' p a0 depth m ta beta ex searched legal next e_loop e4 score :
  In m (gen g true) -> make g m = Some g' -> (p + 2 <= MAXPLY)%nat ->
  LS g p a0 ta ex e_loop ->
  (forall s l t x e', fb p e_loop e' -> LS g p a0 t x e' -> Lclaim g p a0 beta e_loop (next s l t x e')) ->
  PVwf e4 -> fb (S p) e_loop e4 -> ply e4 = S p ->
  ((ta < score < beta)%Z -> stopping e4 = false -> line_ok g' (pv_of e4 (S p))) ->
  Lclaim g p a0 beta e_loop (after_move g depth m ta beta ex searched legal next score e4).
Proof.
  intros Hin Hmk Hp [L1 [L2 [L3 [L4 [L5 L6]]]]] HN W4 F4 P4 C4. unfold Search.after_move. cbn zeta.
  set (e5 := set_ply e4 (pred (ply e4))).
  assert (S5 : same_pv e4 e5) by apply spv_set_ply.
  assert (P5 : ply e5 = p) by (subst e5; cbn [ply set_ply]; rewrite P4; reflexivity).
  assert (W5 : PVwf e5) by (eapply same_pv_wf; eassumption).
  assert (F5 : fb (S p) e_loop e5) by (eapply fb_trans; [exact F4|apply same_pv_fb; exact S5]).
  assert (ST5 : stopping e5 = stopping e4) by reflexivity.
  assert (TA : (a0 <= ta)%Z) by (destruct ex; [specialize (L5 eq_refl); lia|specialize (L4 eq_refl); lia]).
  assert (R5 : p = O -> R0 g e5) by (intros Z0; eapply r0same_R0; [eapply fb_r0; exact F5|exact (L6 Z0)]).
  destruct (stopping e5) eqn:ST.
  { cbn [Lclaim]. split; [exact W5|]. split; [eapply fb_weaken; [|exact F5]; lia|]. split; [right; exact ST|exact R5]. }
  destruct (score >? ta)%Z eqn:GT.
  2:{ apply HN; [eapply fb_weaken; [|exact F5]; lia|].
      unfold LS. split; [exact P5|]. split; [exact W5|]. split; [|split; [exact L4|split; [exact L5|exact R5]]].
      assert (E : pv_of e5 p = pv_of e_loop p).
      { unfold pv_of, pv_row. destruct (F5 p ltac:(lia)) as [A B]. rewrite A, B. reflexivity. }
      rewrite E. exact L3. }
  apply Z.gtb_lt in GT.
  set (e6 := insert_pv e5 m).
  assert (W6 : PVwf e6) by (apply insert_wf; [exact W5|rewrite P5; rewrite MAXPLY_val in *; lia]).
  assert (F6 : fb p e_loop e6).
  { eapply fb_trans; [eapply fb_weaken; [|exact F5]; lia|]. pose proof (insert_fb e5 m) as X. rewrite P5 in X. exact X. }
  assert (P6 : ply e6 = p) by (subst e6; unfold insert_pv; cbn; exact P5).
  assert (R6 : p = O -> R0 g e6) by (intros Z0; apply insert_R0; [exact W5|rewrite P5; exact Z0|exact Hin|exists g'; exact Hmk]).
  destruct (score >=? beta)%Z eqn:GE.
  - cbn [Lclaim].
    assert (X : forall ex7, same_pv e6 ex7 -> PVwf (set_tbl (emit ex7 (ETTRec (key g) beta depth FBeta (ply ex7)))
                 (record (tbl (emit ex7 (ETTRec (key g) beta depth FBeta (ply ex7)))) (key g) beta (N.of_nat depth) FBeta (Z.of_nat (ply (emit ex7 (ETTRec (key g) beta depth FBeta (ply ex7))))))) /\
               fb p e_loop (set_tbl (emit ex7 (ETTRec (key g) beta depth FBeta (ply ex7)))
                 (record (tbl (emit ex7 (ETTRec (key g) beta depth FBeta (ply ex7)))) (key g) beta (N.of_nat depth) FBeta (Z.of_nat (ply (emit ex7 (ETTRec (key g) beta depth FBeta (ply ex7))))))) /\
               (p = O -> R0 g (set_tbl (emit ex7 (ETTRec (key g) beta depth FBeta (ply ex7)))
                 (record (tbl (emit ex7 (ETTRec (key g) beta depth FBeta (ply ex7)))) (key g) beta (N.of_nat depth) FBeta (Z.of_nat (ply (emit ex7 (ETTRec (key g) beta depth FBeta (ply ex7))))))))).
    { intros ex7 S7.
      assert (S8 : same_pv e6 (set_tbl (emit ex7 (ETTRec (key g) beta depth FBeta (ply ex7))) (record (tbl (emit ex7 (ETTRec (key g) beta depth FBeta (ply ex7)))) (key g) beta (N.of_nat depth) FBeta (Z.of_nat (ply (emit ex7 (ETTRec (key g) beta depth FBeta (ply ex7)))))))).
      { eapply same_pv_trans; [exact S7|]. eapply same_pv_trans; [apply spv_emit|apply spv_set_tbl]. }
      split; [eapply same_pv_wf; eassumption|]. split; [eapply fb_trans; [exact F6|apply same_pv_fb; exact S8]|].
      intros Z0. eapply r0same_R0; [apply same_pv_r0; exact S8|exact (R6 Z0)]. }
    destruct (mv_cap m).
    + destruct (X e6 (same_pv_refl e6)) as [X1 [X2 X3]]. split; [exact X1|]. split; [exact X2|]. split; [left; reflexivity|exact X3].
    + match goal with |- context [set_killers e6 ?ka ?kb] => destruct (X _ (spv_set_killers e6 ka kb)) as [X1 [X2 X3]] end.
      split; [exact X1|]. split; [exact X2|]. split; [left; reflexivity|exact X3].
  - assert (LT : (score < beta)%Z) by (destruct (Z.geb_spec score beta); [discriminate|lia]).
    set (e7 := if mv_cap m then e6 else set_history e6 _).
    assert (S7 : same_pv e6 e7) by (subst e7; destruct (mv_cap m); [apply same_pv_refl|apply spv_set_history]).
    apply HN.
    + eapply fb_trans; [exact F6|apply same_pv_fb; exact S7].
    + unfold LS. split; [subst e7; destruct (mv_cap m); exact P6|]. split; [eapply same_pv_wf; eassumption|].
      split; [|split; [discriminate|split; [intros _; lia|intros Z0; eapply r0same_R0; [apply same_pv_r0; exact S7|exact (R6 Z0)]]]].
      rewrite (same_pv_of _ _ p S7).
      pose proof (insert_pv_of e5 m W5 ltac:(rewrite P5; rewrite MAXPLY_val in *; lia)) as IP. rewrite P5 in IP.
      fold e6 in IP. rewrite IP.
      destruct (Nat.leb _ _); [|exact I].
      cbn [line_ok]. split; [exact Hin|]. exists g'. split; [exact Hmk|].
      rewrite (same_pv_of _ _ (S p) S5). apply C4; [lia|symmetry; exact ST5].
Qed.

Lemma search_move_pv g' p beta (Claim : lres -> Prop) e_loop e3 depth nd inchk m searched ta after :
  (S p <= MAXPLY)%nat -> (MAXPLY + 3 - S p <= n)%nat ->
  PVwf e3 -> fb (S p) e_loop e3 -> ply e3 = S p -> Claim (LFuel) ->
  (forall score e4, PVwf e4 -> fb (S p) e_loop e4 -> ply e4 = S p ->
     ((ta < score < beta)%Z -> stopping e4 = false -> line_ok g' (pv_of e4 (S p))) -> Claim (after score e4)) ->
  Claim (search_move g' depth nd inchk m searched ta beta e3 after).
Proof.
  intros Hp Hf W3 F3 P3 CF HA. unfold Search.search_move.
  assert (HR : forall d' a' b' ex (k : Z -> env -> lres), PVwf ex -> fb (S p) e_loop ex -> ply ex = S p ->
            (forall s e4, PVwf e4 -> fb (S p) e_loop e4 -> ply e4 = S p ->
               ((a' < s < b')%Z -> stopping e4 = false -> line_ok g' (pv_of e4 (S p))) -> Claim (k (- s)%Z e4)) ->
            Claim (neg_res (rec_n g' d' a' b' ex) k)).
  { intros d' a' b' ex k Wx Fx Px K.
    pose proof (Hbn g' d' a' b' ex) as B. rewrite Px in B. specialize (B Hp Hf).
    pose proof (Hpn g' d' a' b' ex) as C. rewrite Px in C. specialize (C Hp Hf Wx ltac:(intros X; discriminate)).
    destruct (rec_n g' d' a' b' ex) as [s e4|]; cbn [neg_res]; [|exact CF].
    unfold PVclaim in C. rewrite Px in C. destruct C as [C1 [C2 [C3 _]]]. destruct B as (B1 & _).
    apply K; [exact C1|eapply fb_trans; eassumption|congruence|exact C3]. }
  destruct (Nat.eqb searched 0).
  - apply HR; [exact W3|exact F3|exact P3|]. intros s e4 W4 F4 P4 C4. apply HA; try assumption.
    intros R ST. apply C4; [lia|exact ST].
  - cbn zeta.
    assert (HP : forall s1 e', PVwf e' -> fb (S p) e_loop e' -> ply e' = S p ->
      Claim (if (s1 >? ta)%Z then
          neg_res (rec_n g' (nd - 1)%nat (- ta - 1)%Z (- ta)%Z e')
            (fun s2 e'' => if (s2 >? ta)%Z && (s2 <? beta)%Z
                           then neg_res (rec_n g' (nd - 1)%nat (- beta)%Z (- ta)%Z e'') after
                           else after s2 e'')
        else after s1 e')).
    { intros s1 e' W' F' P'. destruct (s1 >? ta)%Z eqn:G1.
      - apply HR; [exact W'|exact F'|exact P'|]. intros s e'' W'' F'' P'' _.
        destruct ((- s >? ta)%Z && (- s <? beta)%Z) eqn:IN.
        + apply HR; [exact W''|exact F''|exact P''|]. intros s3 e4 W4 F4 P4 C4. apply HA; try assumption.
          intros R ST. apply C4; [lia|exact ST].
        + apply HA; try assumption. intros R _. exfalso.
          apply andb_false_iff in IN. destruct IN as [IN|IN]; [apply Z.gtb_ltb in IN || idtac|]; lia.
      - apply HA; try assumption. intros R _. exfalso. destruct (Z.gtb_spec s1 ta); [discriminate|lia]. }
    destruct (_ && _ && _ && _ && _).
    + apply HR; [exact W3|exact F3|exact P3|]. intros s e' W' F' P' _. apply HP; assumption.
    + apply HP; assumption.
Qed.

Lemma LS_same_pv g p a0 ta ex e e' : same_pv e e' -> ply e' = p -> LS g p a0 ta ex e -> LS g p a0 ta ex e'.
Proof.
  intros S P [L1 [L2 [L3 [L4 [L5 L6]]]]]. unfold LS. split; [exact P|]. split; [eapply same_pv_wf; eassumption|].
  split; [rewrite (same_pv_of _ _ p S); exact L3|]. split; [exact L4|]. split; [exact L5|].
  intros Z0. eapply r0same_R0; [apply same_pv_r0; exact S|exact (L6 Z0)].
Qed.

Lemma nloop_pv g a0 beta depth nd inchk ms : forall searched legal ta ex e,
  incl ms (gen g true) -> (ply e + 2 <= MAXPLY)%nat -> (MAXPLY + 2 - ply e <= n)%nat ->
  LS g (ply e) a0 ta ex e ->
  Lclaim g (ply e) a0 beta e (nloop rec_n g depth nd inchk ms searched legal ta beta ex e).
Proof.
  induction ms as [|m rest IH]; intros searched legal ta ex e Hin Hp Hf HL; cbn [Search.nloop].
  - cbn [Lclaim]. split; [apply fb_refl|exact HL].
  - assert (Hm : In m (gen g true)) by (apply Hin; left; reflexivity).
    assert (Hrest : incl rest (gen g true)) by (intros x Hx; apply Hin; right; exact Hx).
    set (p := ply e) in *.
    unfold make_rep. destruct (make g m) as [g'|] eqn:MK.
    + set (e1 := set_ply e (S (ply e))).
      set (e3 := rep_back (rep_insert e1 (key g'))).
      assert (S3 : same_pv e e3).
      { eapply same_pv_trans; [apply spv_set_ply|]. eapply same_pv_trans; [apply spv_rep_insert|apply spv_rep_back]. }
      assert (P3 : ply e3 = S p) by reflexivity.
      pose proof HL as [L1 [L2 [L3 [L4 [L5 L6]]]]].
      apply (search_move_pv g' p beta (Lclaim g p a0 beta e) e e3).
      * lia.
      * lia.
      * eapply same_pv_wf; eassumption.
      * apply same_pv_fb. exact S3.
      * exact P3.
      * exact I.
      * intros score e4 W4 F4 P4 C4.
        apply (after_move_pv g g' p a0 depth m ta beta ex searched legal _ e e4 score Hm MK Hp).
        -- exact HL.
        -- intros s l t x e' F' LS'.
           assert (P' : ply e' = p) by (destruct LS' as [X _]; exact X).
           eapply Lclaim_fb; [exact F'|]. rewrite <- P'. apply IH; [exact Hrest|rewrite P'; exact Hp|rewrite P'; exact Hf|rewrite P'; exact LS'].
        -- exact W4.
        -- exact F4.
        -- exact P4.
        -- exact C4.
    + set (e' := set_ply (set_ply e (S (ply e))) (pred (ply (set_ply e (S (ply e)))))).
      assert (S' : same_pv e e') by (eapply same_pv_trans; apply spv_set_ply).
      assert (P' : ply e' = p) by reflexivity.
      eapply Lclaim_fb; [apply same_pv_fb; exact S'|].
      rewrite <- P'. apply IH; [exact Hrest|rewrite P'; exact Hp|rewrite P'; exact Hf|].
      rewrite P'. eapply LS_same_pv; [exact S'|exact P'|exact HL].
Qed.

Definition Pclaim (g : pos) (p : nat) (a b : Z) (e : env) (r : res) : Prop :=
  match r with
  | Val s e' => PVwf e' /\ fb p e e' /\ ((a < s < b)%Z -> stopping e' = false -> line_ok g (pv_of e' p)) /\ (p = O -> R0 g e')
  | OutOfFuel => True
  end.
Lemma Pclaim_pre g p a b e0 e1 r : fb p e0 e1 -> Pclaim g p a b e1 r -> Pclaim g p a b e0 r.
Proof. intros F H. destruct r; cbn [Pclaim] in *; [|exact I]. destruct H as [H1 [H2 H3]]. split; [exact H1|]. split; [eapply fb_trans; eassumption|exact H3]. Qed.

Lemma move_phase_pv g depth nd inchk a b e :
  (ply e + 2 <= MAXPLY)%nat -> (MAXPLY + 2 - ply e <= n)%nat -> PVwf e -> line_ok g (pv_of e (ply e)) -> (ply e = O -> R0 g e) ->
  Pclaim g (ply e) a b e (move_phase g depth nd inchk a b e).
Proof.
  intros Hp Hf W L0 R00. unfold Search.move_phase. cbn zeta.
  set (p := ply e) in *.
  set (ms0 := gen g true).
  set (ey := if follow_pv e then enable_pv_scoring ms0 e else e).
  assert (Sy : same_pv e ey) by (subst ey; destruct (follow_pv e); [apply spv_enable_pv|apply same_pv_refl]).
  assert (By : bal e ey) by (subst ey; destruct (follow_pv e); [apply bal_enable_pv|apply bal_refl]).
  destruct (sort_moves g ms0 ey) as [ms ez] eqn:ES.
  pose proof (spv_sort_moves g ms0 ey) as Sz. rewrite ES in Sz. cbn [snd] in Sz.
  pose proof (bal_sort_moves pos move mv_eqb mv_cap mv_hidx cap_score null_mv stop_at g ms0 ey) as Bz. rewrite ES in Bz. cbn [snd] in Bz.
  pose proof (sort_moves_perm pos move mv_eqb mv_cap mv_hidx cap_score null_mv g ms0 ey) as PM. rewrite ES in PM. cbn [fst] in PM.
  assert (Sez : same_pv e ez) by (eapply same_pv_trans; eassumption).
  assert (Pz : ply ez = p) by (destruct Bz as (B1&_); destruct By as (B2&_); rewrite B1, B2; reflexivity).
  assert (Hin : incl ms (gen g true)) by (intros x Hx; eapply Permutation_in; [exact PM|exact Hx]).
  pose proof (nloop_pv g a b depth nd inchk ms 0 0 a false ez Hin) as HL. rewrite Pz in HL.
  specialize (HL Hp Hf).
  assert (LSz : LS g p a a false ez).
  { unfold LS. split; [exact Pz|]. split; [eapply same_pv_wf; eassumption|]. split; [rewrite (same_pv_of _ _ p Sez); exact L0|].
    split; [reflexivity|]. split; [discriminate|]. intros Z0. eapply r0same_R0; [apply same_pv_r0; exact Sez|exact (R00 Z0)]. }
  specialize (HL LSz).
  destruct (nloop rec_n g depth nd inchk ms 0 0 a b false ez) as [s ew|ta ew legal exa|]; cbn [Lclaim] in HL.
  - cbn [Pclaim]. destruct HL as [H1 [H2 [H3 H4]]]. split; [exact H1|]. split; [eapply fb_trans; [apply same_pv_fb; exact Sez|exact H2]|].
    split; [|exact H4]. intros R ST. destruct H3 as [->|H3]; [lia|congruence].
  - destruct HL as [H2 [L1 [L2 [L3 [_ [_ L6]]]]]].
    assert (F : fb p e ew) by (eapply fb_trans; [apply same_pv_fb; exact Sez|exact H2]).
    destruct (Nat.eqb legal 0).
    + set (ev := emit ew _). assert (Sv : same_pv ew ev) by apply spv_emit.
      destruct inchk; cbn [Pclaim]; (split; [eapply same_pv_wf; eassumption|]);
        (split; [eapply fb_trans; [exact F|apply same_pv_fb; exact Sv]|]);
        (split; [intros _ _; rewrite (same_pv_of _ _ p Sv); exact L3|intros Z0; eapply r0same_R0; [apply same_pv_r0; exact Sv|exact (L6 Z0)]]).
    + cbn [Pclaim].
      match goal with |- PVwf ?x /\ _ => assert (Sv : same_pv ew x) by (eapply same_pv_trans; [apply spv_emit|apply spv_set_tbl]) end.
      split; [eapply same_pv_wf; eassumption|]. split; [eapply fb_trans; [exact F|apply same_pv_fb; exact Sv]|].
      split; [intros _ _; rewrite (same_pv_of _ _ p Sv); exact L3|intros Z0; eapply r0same_R0; [apply same_pv_r0; exact Sv|exact (L6 Z0)]].
  - exact I.
Qed.

Lemma negamax_body_pv : Fpv (S n) (negamax_body rec_n rec_q).
Proof.
  intros g d a b e Hp Hf W R00. unfold Search.negamax_body.
  set (p := ply e) in *.
  set (e0 := emit e _).
  assert (S0 : same_pv e e0) by apply spv_emit.
  assert (W0 : PVwf e0) by (eapply same_pv_wf; eassumption).
  assert (P0 : ply e0 = p) by reflexivity.
  assert (HR : PVwf (reset_pv e0) /\ fb p e (reset_pv e0) /\ pv_of (reset_pv e0) p = [] /\ r0same e (reset_pv e0)).
  { split; [apply reset_wf; [exact W0|rewrite P0; exact Hp]|]. split; [|split].
    - eapply fb_trans; [apply same_pv_fb; exact S0|]. pose proof (reset_fb e0) as X. rewrite P0 in X. exact X.
    - pose proof (reset_pv_of e0 W0) as X. rewrite P0 in X. exact X.
    - eapply r0same_trans; [apply same_pv_r0; exact S0|apply reset_r0]. }
  destruct HR as [W1 [F1 [E1 Q1]]].
  change (set_pv e0 (updl (pvlen e0) (ply e0) (ply e0)) (pvtab e0)) with (reset_pv e0).
  (* every early return leaves an environment whose PV row 0 is the one at entry *)
  assert (RR : forall ex, r0same e ex -> p = O -> R0 g ex) by (intros ex Q Z0; eapply r0same_R0; [exact Q|exact (R00 Z0)]).
  destruct (_ && rep_hit e0 (key g)).
  { unfold PVclaim. fold p.
    assert (Sv : same_pv (reset_pv e0) (emit (reset_pv e0) ERepHit)) by apply spv_emit.
    split; [eapply same_pv_wf; eassumption|]. split; [eapply fb_trans; [exact F1|apply same_pv_fb; exact Sv]|].
    split; [intros _ _; rewrite (same_pv_of _ _ p Sv), E1; exact I|].
    apply RR. eapply r0same_trans; [exact Q1|apply same_pv_r0; exact Sv]. }
  match goal with |- match (match ?X with Some _ => _ | None => _ end) with _ => _ end => destruct X as [s|] eqn:PR end.
  { unfold PVclaim. fold p.
    assert (Sv : same_pv e (emit (set_hits e0 (N.succ (tt_hits e0))) (ETTHit s))).
    { eapply same_pv_trans; [exact S0|]. eapply same_pv_trans; [apply spv_set_hits|apply spv_emit]. }
    split; [eapply same_pv_wf; eassumption|]. split; [apply same_pv_fb; exact Sv|].
    split; [|apply RR; apply same_pv_r0; exact Sv].
    intros R _. exfalso.
    destruct (negb (Nat.eqb (ply e0) 0) && negb (b - a >? 1)%Z && negb tt_bypass) eqn:C; [|discriminate].
    apply andb_prop in C. destruct C as [C _]. apply andb_prop in C. destruct C as [_ C]. apply negb_true_iff in C.
    destruct (Z.gtb_spec (b - a) 1); [discriminate|lia]. }
  set (e1 := reset_pv e0) in *.
  assert (P1 : ply e1 = p) by reflexivity.
  destruct (Nat.leb (MAXPLY - 1) (ply e1)) eqn:LE.
  { unfold PVclaim. fold p. split; [exact W1|]. split; [exact F1|]. split; [intros _ _; rewrite E1; exact I|apply RR; exact Q1]. }
  apply Nat.leb_gt in LE. rewrite P1 in LE.
  set (e2 := maybe_poll e1).
  assert (S2 : same_pv e1 e2) by apply spv_maybe_poll.
  assert (B2 : bal e1 e2) by apply bal_maybe_poll.
  assert (P2 : ply e2 = p) by (destruct B2 as (B&_); congruence).
  assert (W2 : PVwf e2) by (eapply same_pv_wf; eassumption).
  assert (F2 : fb p e e2) by (eapply fb_trans; [exact F1|apply same_pv_fb; exact S2]).
  assert (E2 : pv_of e2 p = []) by (rewrite (same_pv_of _ _ p S2); exact E1).
  assert (Q2 : r0same e e2) by (eapply r0same_trans; [exact Q1|apply same_pv_r0; exact S2]).
  rewrite MAXPLY_val in *.
  destruct (_ || _).
  { pose proof (Hpq g a b e2) as Q. destruct (rec_q g a b e2) as [s e'|]; [|exact I].
    unfold PVclaim. fold p. split; [eapply same_pv_wf; eassumption|]. split; [eapply fb_trans; [exact F2|apply same_pv_fb; exact Q]|].
    split; [intros _ _; rewrite (same_pv_of _ _ p Q), E2; exact I|].
    apply RR. eapply r0same_trans; [exact Q2|apply same_pv_r0; exact Q]. }
  set (e3 := set_nodes e2 _).
  assert (S3 : same_pv e2 e3) by apply spv_set_nodes.
  assert (P3 : ply e3 = p) by exact P2.
  assert (W3 : PVwf e3) by (eapply same_pv_wf; eassumption).
  assert (F3 : fb p e e3) by (eapply fb_trans; [exact F2|apply same_pv_fb; exact S3]).
  assert (E3 : pv_of e3 p = []) by (rewrite (same_pv_of _ _ p S3); exact E2).
  assert (Q3 : r0same e e3) by (eapply r0same_trans; [exact Q2|apply same_pv_r0; exact S3]).
  assert (MP : forall ex, ply ex = p -> PVwf ex -> fb p e ex -> pv_of ex p = [] -> r0same e ex ->
               match move_phase g d (if in_check g then S d else d) (in_check g) a b ex with
               | Val s e' => PVclaim g a b s e e' | OutOfFuel => True end).
  { intros ex Px Wx Fx Ex Qx.
    pose proof (move_phase_pv g d (if in_check g then S d else d) (in_check g) a b ex) as M. rewrite Px in M. rewrite MAXPLY_val in M.
    specialize (M ltac:(lia) ltac:(lia) Wx). rewrite Ex in M. specialize (M I (RR ex Qx)).
    destruct (move_phase g d _ (in_check g) a b ex) as [s e'|]; [|exact I]. cbn [Pclaim] in M. unfold PVclaim. fold p.
    destruct M as [M1 [M2 [M3 M4]]]. split; [exact M1|]. split; [eapply fb_trans; eassumption|]. split; assumption. }
  match goal with |- match (if ?c then _ else _) with _ => _ end => destruct c end.
  - set (e4 := set_ply e3 (S (ply e3))).
    assert (S4 : same_pv e3 e4) by apply spv_set_ply.
    assert (P4 : ply e4 = S p) by (subst e4; cbn [ply set_ply]; rewrite P3; reflexivity).
    pose proof (Hbn (null g) ((if in_check g then S d else d) - 3)%nat (- b)%Z (- b + 1)%Z e4) as B. rewrite P4 in B. rewrite MAXPLY_val in B.
    specialize (B ltac:(lia) ltac:(lia)).
    pose proof (Hpn (null g) ((if in_check g then S d else d) - 3)%nat (- b)%Z (- b + 1)%Z e4) as C. rewrite P4 in C. rewrite MAXPLY_val in C.
    specialize (C ltac:(lia) ltac:(lia) ltac:(eapply same_pv_wf; eassumption) ltac:(intros X; discriminate)).
    destruct (rec_n (null g) _ _ _ e4) as [s e5|]; [|exact I].
    unfold PVclaim in C. rewrite P4 in C. destruct C as [C1 [C2 _]]. destruct B as (B1 & _).
    set (e6 := set_ply e5 (pred (ply e5))).
    assert (S6 : same_pv e5 e6) by apply spv_set_ply.
    assert (P6 : ply e6 = p) by (subst e6; cbn [ply set_ply]; rewrite B1, P4; reflexivity).
    assert (W6 : PVwf e6) by (eapply same_pv_wf; eassumption).
    assert (F36 : fb (S p) e3 e6).
    { eapply fb_trans; [apply same_pv_fb; exact S4|]. eapply fb_trans; [exact C2|apply same_pv_fb; exact S6]. }
    assert (F6 : fb p e e6) by (eapply fb_trans; [exact F3|eapply fb_weaken; [|exact F36]; lia]).
    assert (E6 : pv_of e6 p = []).
    { unfold pv_of, pv_row. destruct (F36 p ltac:(lia)) as [X Y]. rewrite X, Y. exact E3. }
    assert (Q6 : r0same e e6) by (eapply r0same_trans; [exact Q3|eapply fb_r0; exact F36]).
    destruct (stopping e6) eqn:ST.
    { unfold PVclaim. fold p. split; [exact W6|]. split; [exact F6|]. split; [intros _ X; congruence|apply RR; exact Q6]. }
    destruct (_ >=? b)%Z.
    { unfold PVclaim. fold p. split; [exact W6|]. split; [exact F6|]. split; [intros R _; lia|apply RR; exact Q6]. }
    apply MP; assumption.
  - apply MP; assumption.
Qed.

End BodyLemmas.

Theorem search_pv : forall n, Fpv n (negamax n).
Proof.
  induction n as [|n IH].
  - intros g d a b e Hp Hf W _. rewrite MAXPLY_val in *. lia.
  - destruct (search_balanced pos move gen make null evalf in_check key half100 mv_eqb mv_cap mv_promo mv_hidx cap_score null_mv pollp stop_at tt_bypass n) as [Bn Bq].
    apply (negamax_body_pv n (negamax n) (quiescence n) Bn IH (quiescence_pv n)).
Qed.

(* ---- the whole search(): every printed PV is a legal line, and the best move is legal ---- *)
Hypothesis mv_eqb_refl : forall m, mv_eqb m m = true.

Notation id_loop := (id_loop gen make null evalf in_check key half100 mv_eqb mv_cap mv_promo mv_hidx cap_score null_mv legalb pollp stop_at tt_bypass).
Notation search := (search gen make null evalf in_check key half100 mv_eqb mv_cap mv_promo mv_hidx cap_score null_mv legalb pollp stop_at tt_bypass).
Notation best_move := (best_move gen mv_eqb null_mv legalb).

Definition move_ok (g : pos) (m : move) : Prop := In m (gen g true) /\ exists g', make g m = Some g'.
(* the reported best move: a generated move accepted by make, or the first move the legality filter accepts, or there is none *)
Definition best_ok (g : pos) (m : move) : Prop :=
  move_ok g m \/ In m (filter (legalb g) (gen g true)) \/ filter (legalb g) (gen g true) = [].
Definition out_ok (g : pos) (o : out move) : Prop :=
  match o with OInfo _ _ _ _ pv => line_ok g pv | OBest m => best_ok g m end.

Lemma best_move_ok g (e : env) : R0 g e -> best_ok g (best_move g e).
Proof.
  unfold R0, Search.best_move, best_ok. cbn zeta. intros R.
  destruct (mv_eqb (nth 0 (pv_row e 0) null_mv) null_mv) eqn:E.
  - destruct (filter (legalb g) (gen g true)) as [|x l]; [right; right; reflexivity|]. right. left. left. reflexivity.
  - destruct R as [R|R]; [rewrite R, mv_eqb_refl in E; discriminate|]. left. exact R.
Qed.

Lemma init_PVwf t rt ri : PVwf (@init_env pos move null_mv t rt ri).
Proof.
  unfold PVwf, init_env. cbn [pvlen pvtab]. rewrite !repeat_length. repeat split.
  - apply Forall_forall. intros r Hr. apply repeat_spec in Hr. subst r. apply repeat_length.
  - apply Forall_forall. intros l Hl. apply repeat_spec in Hl. subst l. lia.
Qed.
Lemma init_R0 g t rt ri : R0 g (@init_env pos move null_mv t rt ri).
Proof.
  unfold R0, init_env, pv_row. cbn [pvtab]. left.
  rewrite MAXPLY_val. reflexivity.
Qed.

Lemma id_loop_pv iters : forall g cur maxd a b sc (e : env) outs,
  ply e = O -> PVwf e -> R0 g e -> Forall (out_ok g) outs ->
  match id_loop iters g cur maxd a b sc e outs with SDone r _ _ => Forall (out_ok g) r | SFuel => True end.
Proof.
  induction iters as [|it IH]; intros g cur maxd a b sc e outs P W R F; cbn [Search.id_loop].
  - apply Forall_app. split; [exact F|]. constructor; [apply best_move_ok; exact R|constructor].
  - destruct (Nat.ltb maxd cur).
    { apply Forall_app. split; [exact F|]. constructor; [apply best_move_ok; exact R|constructor]. }
    set (e0 := set_flags e true (score_pv e)).
    assert (S0 : same_pv e e0) by apply spv_set_flags.
    assert (P0 : ply e0 = O) by exact P.
    pose proof (search_pv FUEL g cur a b e0) as C. rewrite P0 in C. unfold FUEL in C. rewrite MAXPLY_val in C.
    specialize (C ltac:(lia) ltac:(lia) ltac:(eapply same_pv_wf; eassumption) ltac:(intros _; eapply r0same_R0; [apply same_pv_r0; exact S0|exact R])).
    pose proof (negamax_root_ok pos move gen make null evalf in_check key half100 mv_eqb mv_cap mv_promo mv_hidx cap_score null_mv pollp stop_at tt_bypass g cur a b e0 P0) as B.
    unfold FUEL in B. rewrite MAXPLY_val in B.
    change (Search.FUEL) with (2 * MAXPLY + 4)%nat. rewrite MAXPLY_val.
    destruct (negamax (2 * 64 + 4) g cur a b e0) as [s e1|]; [|exact I].
    unfold PVclaim in C. rewrite P0 in C. destruct C as [C1 [_ [C3 C4]]]. specialize (C4 eq_refl).
    assert (P1 : ply e1 = O) by (destruct B as (B1&_); congruence).
    destruct (stopping e1) eqn:ST.
    { apply Forall_app. split; [exact F|]. constructor; [apply best_move_ok; exact C4|constructor]. }
    destruct ((s <=? a)%Z || (s >=? b)%Z) eqn:WIN.
    + apply IH; assumption.
    + apply IH; try assumption. apply Forall_app. split; [exact F|]. constructor; [|constructor].
      cbn [out_ok]. apply orb_false_iff in WIN. destruct WIN as [W1 W2].
      assert (INW : (a < s < b)%Z) by (destruct (Z.leb_spec s a); [discriminate|]; destruct (Z.geb_spec s b); [discriminate|]; lia).
      specialize (C3 INW eq_refl). unfold pv_of in C3. rewrite Nat.sub_0_r, skipn_O in C3. exact C3.
Qed.

Theorem search_outputs_legal g depth t rt ri :
  match search g depth t rt ri with SDone r _ _ => Forall (out_ok g) r | SFuel => True end.
Proof.
  unfold Search.search. apply id_loop_pv; [reflexivity|apply init_PVwf|apply init_R0|constructor].
Qed.

End PV.
