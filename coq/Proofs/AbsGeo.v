(* Finite geometric facts relating square numbers to (file, rank) coordinates, checked by evaluation over the 64 squares. *)
From Coq Require Import NArith ZArith List Bool Lia.
From JV Require Import Gen.Consts Spec.Rays Model.Bits Model.Chess Model.Abs Spec.ChessSpec Proofs.BitsProofs Proofs.AbsBase.
Import ListNotations.
Local Open Scope N_scope.

(* a pawn attack goes one file sideways and one rank forward; the square "behind" the target is on the attacker's rank *)
Definition pawn_geo_ok (w : bool) (f t : N) : bool :=
  implb (N.testbit (pawn_att f w) t)
        (negb (colZ f =? colZ t)%Z && (rowZ t =? rowZ f + (if w then 1 else -1))%Z &&
         sq_eqb (colZ t, rowZ f) (sq_of_idx (if w then t + 8 else t - 8)) && ((if w then t + 8 else t - 8) <? 64) &&
         (Z.abs (rowZ t - rowZ f) =? 1)%Z).
Lemma pawn_geo_w : forallb (fun f => forallb (pawn_geo_ok true f) (seqN 0 64)) (seqN 0 64) = true.
Proof. vm_compute. reflexivity. Qed.
Lemma pawn_geo_b : forallb (fun f => forallb (pawn_geo_ok false f) (seqN 0 64)) (seqN 0 64) = true.
Proof. vm_compute. reflexivity. Qed.

Definition king_geo_ok (f t : N) : bool := implb (N.testbit (king_att f) t) (negb (Z.abs (colZ f - colZ t) =? 2)%Z).
Lemma king_geo : forallb (fun f => forallb (king_geo_ok f) (seqN 0 64)) (seqN 0 64) = true.
Proof. vm_compute. reflexivity. Qed.

(* pushes: same file, one or two ranks *)
Definition push_geo_ok (t : N) : bool :=
  implb (t + 8 <? 64) ((colZ (t + 8) =? colZ t)%Z && (rowZ (t + 8) =? rowZ t - 1)%Z) &&
  implb (t + 16 <? 64) ((colZ (t + 16) =? colZ t)%Z && (rowZ (t + 16) =? rowZ t - 2)%Z).
Lemma push_geo : forallb push_geo_ok (seqN 0 64) = true.
Proof. vm_compute. reflexivity. Qed.

Lemma pawn_geo w f t : f < 64 -> t < 64 -> N.testbit (pawn_att f w) t = true ->
  colZ f <> colZ t /\ rowZ t = (rowZ f + (if w then 1 else -1))%Z /\
  (colZ t, rowZ f) = sq_of_idx (if w then t + 8 else t - 8) /\ (if w then t + 8 else t - 8) < 64 /\ Z.abs (rowZ t - rowZ f) = 1%Z.
Proof.
  intros F T A.
  assert (X : pawn_geo_ok w f t = true) by (destruct w; [apply (all64x64 _ pawn_geo_w f t F T)|apply (all64x64 _ pawn_geo_b f t F T)]).
  unfold pawn_geo_ok in X. rewrite A in X. cbn [implb] in X.
  apply andb_true_iff in X. destruct X as [X X5]. apply andb_true_iff in X. destruct X as [X X4]. apply andb_true_iff in X. destruct X as [X X3].
  apply andb_true_iff in X. destruct X as [X1 X2].
  apply negb_true_iff, Z.eqb_neq in X1. apply Z.eqb_eq in X2, X5. apply N.ltb_lt in X4.
  repeat split; try assumption.
  unfold sq_eqb in X3. cbn [fst snd] in X3. apply andb_true_iff in X3. destruct X3 as [Y1 Y2]. apply Z.eqb_eq in Y1, Y2.
  destruct (sq_of_idx (if w then t + 8 else t - 8)) as [a b]. cbn [fst snd] in *. congruence.
Qed.

Lemma king_geo_spec f t : f < 64 -> t < 64 -> N.testbit (king_att f) t = true -> Z.abs (colZ f - colZ t) <> 2%Z.
Proof.
  intros F T A. pose proof (all64x64 _ king_geo f t F T) as X. unfold king_geo_ok in X. rewrite A in X. cbn [implb] in X.
  apply negb_true_iff, Z.eqb_neq in X. exact X.
Qed.

Lemma push_geo_spec t : t < 64 ->
  (t + 8 < 64 -> colZ (t + 8) = colZ t /\ rowZ (t + 8) = (rowZ t - 1)%Z) /\
  (t + 16 < 64 -> colZ (t + 16) = colZ t /\ rowZ (t + 16) = (rowZ t - 2)%Z).
Proof.
  intros T. pose proof (all64 _ push_geo t T) as X. unfold push_geo_ok in X. apply andb_true_iff in X. destruct X as [X1 X2].
  split; intros L; apply N.ltb_lt in L.
  - rewrite L in X1. cbn [implb] in X1. apply andb_true_iff in X1. destruct X1 as [A B]. apply Z.eqb_eq in A, B. split; assumption.
  - rewrite L in X2. cbn [implb] in X2. apply andb_true_iff in X2. destruct X2 as [A B]. apply Z.eqb_eq in A, B. split; assumption.
Qed.

Lemma sq_eta s : sq_of_idx s = (colZ s, rowZ s).
Proof. unfold colZ, rowZ. destruct (sq_of_idx s); reflexivity. Qed.
