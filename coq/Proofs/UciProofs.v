(* C03 / C05 (parts): every move with squares below 64 and a promotion piece in {none, N, B, R, Q of either colour}
   prints as well-formed UCI coordinate notation, and the notation determines (from, to, promotion kind).
   Finite domain: 64 x 64 x 9, enumerated completely by the kernel (vm_compute) and lifted. *)
From Coq Require Import NArith ZArith List Bool String Ascii Lia.
From JV Require Import Gen.Consts Model.Bits Model.Chess Model.SearchChess.
Import ListNotations.
Local Open Scope N_scope.

Definition is_file (c : ascii) : bool := let n := N_of_ascii c in (97 <=? n) && (n <=? 104).
Definition is_rank (c : ascii) : bool := let n := N_of_ascii c in (49 <=? n) && (n <=? 56).
Definition is_promo_letter (c : ascii) : bool :=
  let n := N_of_ascii c in (n =? 110) || (n =? 98) || (n =? 114) || (n =? 113).     (* n b r q *)
Definition uci_wf (s : string) : bool :=
  match s with
  | String a (String b (String c (String d EmptyString))) => is_file a && is_rank b && is_file c && is_rank d
  | String a (String b (String c (String d (String p EmptyString)))) => is_file a && is_rank b && is_file c && is_rank d && is_promo_letter p
  | _ => false
  end.

(* the inverse: square indices and promotion kind (0 none, 1 n, 2 b, 3 r, 4 q) *)
Definition sq_of_chars (f r : ascii) : N := (56 - (N_of_ascii r - 49) * 8) + (N_of_ascii f - 97).
Definition kind_of_letter (c : ascii) : N :=
  let n := N_of_ascii c in if n =? 110 then 1 else if n =? 98 then 2 else if n =? 114 then 3 else 4.
Definition uci_parse (s : string) : option (N * N * N) :=
  match s with
  | String a (String b (String c (String d EmptyString))) => Some (sq_of_chars a b, sq_of_chars c d, 0)
  | String a (String b (String c (String d (String p EmptyString)))) => Some (sq_of_chars a b, sq_of_chars c d, kind_of_letter p)
  | _ => None
  end.
Definition promo_kind_n (p : N) : N := if p =? NOPIECE then 0 else (p mod 6).       (* N=1 B=2 R=3 Q=4 for both colours *)

Definition promo_pieces : list N := [12; 1; 2; 3; 4; 7; 8; 9; 10].
Definition mv (f t p : N) : move := mkMove f t 0 p false false false false.

Definition uci_table_ok : bool :=
  forallb (fun f => forallb (fun t => forallb (fun p =>
     uci_wf (to_uci (mv f t p)) &&
     match uci_parse (to_uci (mv f t p)) with Some (f', t', k) => (f' =? f) && (t' =? t) && (k =? promo_kind_n p) | None => false end)
     promo_pieces) (seqN 0 64)) (seqN 0 64).
Lemma uci_table_ok_true : uci_table_ok = true.
Proof. vm_compute. reflexivity. Qed.

Lemma in_seqN n : forall s x, s <= x < s + N.of_nat n -> In x (seqN s n).
Proof.
  induction n as [|n IH]; intros s x H; [cbn in H; lia|]. rewrite Nat2N.inj_succ in H. cbn [seqN]. destruct (N.eq_dec s x) as [->|NE]; [left; reflexivity|].
  right. apply IH. lia.
Qed.

Lemma to_uci_fields m : to_uci m = to_uci (mv (mfrom m) (mto m) (mpromo m)).
Proof. reflexivity. Qed.

Theorem uci_wellformed m : mfrom m < 64 -> mto m < 64 -> In (mpromo m) promo_pieces ->
  uci_wf (to_uci m) = true /\ uci_parse (to_uci m) = Some (mfrom m, mto m, promo_kind_n (mpromo m)).
Proof.
  intros Hf Ht Hp. rewrite to_uci_fields.
  pose proof uci_table_ok_true as T. unfold uci_table_ok in T.
  rewrite forallb_forall in T. assert (I1 : In (mfrom m) (seqN 0 64)) by (apply in_seqN; cbn; lia). specialize (T (mfrom m) I1).
  rewrite forallb_forall in T. assert (I2 : In (mto m) (seqN 0 64)) by (apply in_seqN; cbn; lia). specialize (T (mto m) I2).
  rewrite forallb_forall in T. specialize (T (mpromo m) Hp).
  apply andb_prop in T. destruct T as [T1 T2]. split; [exact T1|].
  destruct (uci_parse _) as [[[f' t'] k]|]; [|discriminate].
  repeat (apply andb_prop in T2; destruct T2 as [T2 ?]).
  repeat match goal with H : (_ =? _) = true |- _ => apply N.eqb_eq in H end. subst. reflexivity.
Qed.

(* hence: two such moves with the same UCI string agree on from, to and promotion kind *)
Corollary uci_injective m1 m2 :
  mfrom m1 < 64 -> mto m1 < 64 -> In (mpromo m1) promo_pieces -> mfrom m2 < 64 -> mto m2 < 64 -> In (mpromo m2) promo_pieces ->
  to_uci m1 = to_uci m2 -> mfrom m1 = mfrom m2 /\ mto m1 = mto m2 /\ promo_kind_n (mpromo m1) = promo_kind_n (mpromo m2).
Proof.
  intros A1 A2 A3 B1 B2 B3 E.
  destruct (uci_wellformed m1 A1 A2 A3) as [_ P1]. destruct (uci_wellformed m2 B1 B2 B3) as [_ P2].
  rewrite E in P1. rewrite P1 in P2. injection P2 as -> -> ->. auto.
Qed.
