From Coq Require Import ZArith List Bool Lia.
Require Import ZifyBool.
From JV Require Import Model.Go.
Import ListNotations.
Local Open Scope Z_scope.

(* the clock state the property quantifies over, as left in the argument record by the loop *)
Definition clock_given (a : goargs) : Prop := 1 <= g_time a /\ 0 <= g_inc a /\ 1 <= g_mtg a.

Lemma budget_fits t i m : 1 <= t -> 0 <= budget t i m (-1) < t.
Proof.
  intros Ht. unfold budget. change (-1 =? -1) with true. cbn [negb].
  destruct (Z.eqb_spec t (-1)) as [E|E]; [lia|]. cbn [negb]. cbn zeta. lia.
Qed.

Lemma budget_movetime t i m T : T <> -1 -> budget t i m T = T.
Proof. intros H. unfold budget. destruct (Z.eqb_spec T (-1)) as [E|E]; [contradiction|reflexivity]. Qed.

Lemma budget_finite_nonneg t i m : t <> -1 -> 0 <= budget t i m (-1).
Proof.
  intros Ht. unfold budget. change (-1 =? -1) with true. cbn [negb].
  destruct (Z.eqb_spec t (-1)) as [E|E]; [contradiction|]. cbn [negb]. cbn zeta. lia.
Qed.

Lemma budget_unbounded_iff t i m T : 0 <= T \/ T = -1 -> (budget t i m T = -1 <-> T = -1 /\ t = -1).
Proof.
  intros HT. unfold budget.
  destruct (Z.eqb_spec T (-1)) as [E|E]; cbn [negb].
  - destruct (Z.eqb_spec t (-1)) as [E2|E2]; cbn [negb]; cbn zeta; lia.
  - lia.
Qed.

(* the loop keeps the domain: every own-colour time >= 1, increment >= 0, movestogo >= 1, movetime >= 0 *)
Definition arg_ok (kv : kw * Z) : Prop :=
  match fst kv with
  | Kbinc | Kwinc => 0 <= snd kv
  | Kbtime | Kwtime => 1 <= snd kv
  | Kmovestogo => 1 <= snd kv
  | Kmovetime => 0 <= snd kv
  | Kdepth | Kinfinite => True
  end.
Definition dom (a : goargs) : Prop :=
  (g_time a = -1 \/ 1 <= g_time a) /\ 0 <= g_inc a /\ 1 <= g_mtg a /\ (g_movetime a = -1 \/ 0 <= g_movetime a).

Lemma dom_init : dom go_init.
Proof. unfold dom, go_init; cbn. lia. Qed.

Lemma go_step_dom w a k v a' : dom a -> arg_ok (k, v) -> go_step w a k v = Some a' -> dom a'.
Proof.
  unfold dom, arg_ok. cbn [fst snd]. intros D OK H.
  destruct k; cbn [go_step] in H; try (destruct w); injection H as <-; cbn; lia.
Qed.

Lemma go_loop_dom w args : forall a a', dom a -> Forall arg_ok args -> go_loop w a args = Some a' -> dom a'.
Proof.
  induction args as [|[k v] r IH]; cbn [go_loop]; intros a a' D F H.
  - injection H as <-. exact D.
  - inversion F as [|? ? OK F']; subst. destruct (go_step w a k v) as [a1|] eqn:S; [|discriminate].
    eapply IH; [eapply go_step_dom; eassumption|exact F'|exact H].
Qed.

(* the whole of C10 on the argument list: whatever the order and repetition of arguments *)
Lemma parse_go_budget w args d mt :
  Forall arg_ok args -> parse_go w args = Some (d, mt) ->
  exists a, go_loop w go_init args = Some a /\ mt = go_budget a /\
    (g_movetime a <> -1 -> mt = g_movetime a) /\
    (g_movetime a = -1 -> g_time a <> -1 -> 0 <= mt < g_time a) /\
    (mt = -1 <-> g_movetime a = -1 /\ g_time a = -1).
Proof.
  intros F H. unfold parse_go in H. destruct (go_loop w go_init args) as [a|] eqn:L; [|discriminate].
  injection H as <- <-. exists a. split; [reflexivity|]. split; [reflexivity|].
  pose proof (go_loop_dom w args go_init a dom_init F L) as (Dt & Di & Dm & Dmt).
  unfold go_budget. split; [|split; [|split]].
  - intros NE. apply budget_movetime. exact NE.
  - intros H NE. rewrite H. apply budget_fits. lia.
  - intros E. apply budget_unbounded_iff in E; [tauto|lia].
  - intros [E1 E2]. apply budget_unbounded_iff; [lia|tauto].
Qed.

(* the last own-colour clock argument is the one that counts *)
Lemma go_loop_app w a xs ys : go_loop w a (xs ++ ys) = match go_loop w a xs with Some a' => go_loop w a' ys | None => None end.
Proof. revert a. induction xs as [|[k v] r IH]; intros a; cbn [go_loop app]; [reflexivity|]. destruct (go_step w a k v); [apply IH|reflexivity]. Qed.

(* no i64 overflow inside the domain "1 ms to days" (here: below 2^61) *)
Definition i64 (x : Z) := - 2^63 <= x < 2^63.
Lemma budget_no_overflow t i m : 1 <= t < 2^61 -> 0 <= i < 2^61 -> 1 <= m < 2^61 ->
  i64 (Z.quot t m) /\ i64 (Z.quot t m + i) /\ i64 (Z.quot t m + i - 100) /\ i64 (i - 500) /\ i64 (t - 1).
Proof.
  intros Ht Hi Hm. unfold i64.
  assert (0 <= Z.quot t m <= t) by (split; [apply Z.quot_pos; lia | apply Z.quot_le_upper_bound; nia]).
  lia.
Qed.

(* ---- the finding that was repaired: the pre-fix arithmetic violates every clause ---- *)
Lemma pre_fix_negative : exists t i m, 1 <= t /\ 0 <= i /\ 1 <= m /\ budget_pre_fix t i m (-1) < 0.
Proof. exists 2500, 0, 30. vm_compute. repeat split; discriminate. Qed.
Lemma pre_fix_sentinel : exists t i m, 1 <= t /\ 0 <= i /\ 1 <= m /\ budget_pre_fix t i m (-1) = -1.
Proof. exists 2985, 0, 30. vm_compute. repeat split; discriminate. Qed.
Lemma pre_fix_exceeds : exists t i m, 1 <= t /\ 0 <= i /\ 1 <= m /\ budget_pre_fix t i m (-1) >= t.
Proof. exists 3000, 5000, 30. vm_compute. repeat split; discriminate. Qed.
Lemma pre_fix_whole_clock : exists t i m, 1 <= t /\ 0 <= i /\ 1 <= m /\ budget_pre_fix t i m (-1) = t.
Proof. exists 1000, 0, 1. vm_compute. repeat split; discriminate. Qed.

(* non-vacuity *)
Example ex_go : parse_go true [(Kwtime, 60000); (Kbtime, 1); (Kwinc, 1000); (Kbinc, 7); (Kmovestogo, 40)] = Some (-1, 2400).
Proof. vm_compute. reflexivity. Qed.
Example ex_go_black : parse_go false [(Kwtime, 60000); (Kbtime, 1500); (Kwinc, 1000); (Kbinc, 7)] = Some (-1, 0).
Proof. vm_compute. reflexivity. Qed.
