(* What else the generator guarantees of its moves, as the specification's `pseudo` looks at them: promotions exactly on the
   last rank, double pushes from the start rank, piece moves inside the attack set, the castling preconditions. *)
From Coq Require Import NArith ZArith List Bool Lia.
From JV Require Import Gen.Consts Spec.Rays Model.Bits Model.Chess Model.Abs Proofs.BitboardProofs Proofs.MoveGenProofs
  Proofs.ZobristProofs Proofs.KeyProofs Proofs.GenProofs Proofs.ConsProofs Proofs.GenOk Proofs.KingsProofs Proofs.RangeProofs.
Import ListNotations.
Local Open Scope N_scope.

Definition patt (g : game) (p f : N) : N :=
  if (p =? WN) || (p =? BN) then knight_att f
  else if (p =? WB) || (p =? BB) then bishop_att f (aocc g)
  else if (p =? WR) || (p =? BR) then rook_att f (aocc g)
  else if (p =? WQ) || (p =? BQ) then queen_att f (aocc g)
  else king_att f.

Record move_ps (g : game) (m : move) : Prop := mkPs {
  ps_rank : (mpiece m = WP \/ mpiece m = BP) -> (mpromo m <> NOPIECE <-> (if white g then mto m < 8 else 55 < mto m));
  ps_dp : mdp m = true -> (if white g then 48 <= mfrom m < 56 else 8 <= mfrom m < 16);
  ps_piece : mpiece m <> WP -> mpiece m <> BP -> mcastle m = false -> tb (patt g (mpiece m) (mfrom m)) (mto m) = true;
  ps_castle : mcastle m = true ->
    exists i mask cross, tb (castling g) i = true /\ N.land (aocc g) mask = 0 /\
      is_square_attacked (bbs g) (aocc g) (mfrom m) (negb (white g)) = false /\
      is_square_attacked (bbs g) (aocc g) cross (negb (white g)) = false /\
      ((white g = true /\ mto m = 62 /\ i = 0 /\ mask = CASTLE_EMPTY_WK /\ cross = 61) \/
       (white g = true /\ mto m = 58 /\ i = 1 /\ mask = CASTLE_EMPTY_WQ /\ cross = 59) \/
       (white g = false /\ mto m = 6 /\ i = 2 /\ mask = CASTLE_EMPTY_BK /\ cross = 5) \/
       (white g = false /\ mto m = 2 /\ i = 3 /\ mask = CASTLE_EMPTY_BQ /\ cross = 3)) }.

Section Ps.
Variable g : game.
Hypothesis R : range g.

Lemma ps_of_piece f t p cap : p <> WP -> p <> BP -> tb (patt g p f) t = true -> move_ps g (mk f t p NOPIECE cap false false false).
Proof.
  intros N1 N2 A. constructor; cbn [mfrom mto mpiece mpromo mcap mep mdp mcastle mk]; try discriminate.
  - intros [X|X]; congruence.
  - intros _ _ _. exact A.
Qed.

Lemma piece_moves_ps all opp p att m : p <> WP -> p <> BP -> (forall f, att f = patt g p f) ->
  In m (piece_moves g all opp p att) -> move_ps g m.
Proof.
  intros N1 N2 AE H. unfold piece_moves in H. apply in_flat_map in H. destruct H as (f & _ & H). apply in_app_or in H. destruct H as [H|H].
  - destruct all; [|destruct H]. apply in_map_iff in H. destruct H as (t & <- & Ht). apply ps_of_piece; try assumption.
    apply in_bits in Ht. rewrite land_bit in Ht. apply andb_true_iff in Ht. rewrite <- AE. tauto.
  - apply in_map_iff in H. destruct H as (t & <- & Ht). apply ps_of_piece; try assumption.
    apply in_bits in Ht. rewrite land_bit in Ht. apply andb_true_iff in Ht. rewrite <- AE. tauto.
Qed.

Lemma ps_pawn f t p pr cap dp e : (p = WP \/ p = BP) ->
  (pr <> NOPIECE <-> (if white g then t < 8 else 55 < t)) ->
  (dp = true -> if white g then 48 <= f < 56 else 8 <= f < 16) ->
  move_ps g (mk f t p pr cap dp e false).
Proof.
  intros PP RK DP. constructor; cbn [mfrom mto mpiece mpromo mcap mep mdp mcastle mk]; try discriminate.
  - intros _. exact RK.
  - exact DP.
  - intros X Y. destruct PP; contradiction.
Qed.

Lemma promos_ps m f t p q n r b cap : (p = WP \/ p = BP) -> q <> NOPIECE -> n <> NOPIECE -> r <> NOPIECE -> b <> NOPIECE ->
  (if white g then t < 8 else 55 < t) -> In m (promos f t p q n r b cap) -> move_ps g m.
Proof.
  intros PP Q N1 R1 B1 RK H. apply in_promos in H.
  destruct H as [-> | [-> | [-> | ->]]]; (apply ps_pawn; [exact PP|split; [intros _; exact RK|intros _; assumption]|discriminate]).
Qed.

Theorem generated_ps all m : In m (generate_moves g all) -> move_ps g m.
Proof.
  intros H. unfold generate_moves in H.
  assert (CM : forall i mask ksq cross byw t kg, kg <> WP -> kg <> BP ->
            ((white g = true /\ t = 62 /\ i = 0 /\ mask = CASTLE_EMPTY_WK /\ cross = 61) \/
             (white g = true /\ t = 58 /\ i = 1 /\ mask = CASTLE_EMPTY_WQ /\ cross = 59) \/
             (white g = false /\ t = 6 /\ i = 2 /\ mask = CASTLE_EMPTY_BK /\ cross = 5) \/
             (white g = false /\ t = 2 /\ i = 3 /\ mask = CASTLE_EMPTY_BQ /\ cross = 3)) -> byw = negb (white g) ->
            In m (castle_move g all (bit i) mask ksq cross byw t kg) -> move_ps g m).
  { intros i mask ksq cross byw t kg N1 N2 SH BW X. unfold castle_move in X.
    destruct (all && negb (N.land (castling g) (bit i) =? 0) && (N.land (aocc g) mask =? 0) &&
              negb (is_square_attacked (bbs g) (aocc g) ksq byw) && negb (is_square_attacked (bbs g) (aocc g) cross byw)) eqn:Q; [|destruct X].
    destruct X as [<-|[]].
    apply andb_true_iff in Q. destruct Q as [Q A2]. apply andb_true_iff in Q. destruct Q as [Q A1].
    apply andb_true_iff in Q. destruct Q as [Q EM]. apply andb_true_iff in Q. destruct Q as [_ RI].
    apply negb_true_iff, N.eqb_neq in RI. apply land_nonzero_bit in RI. apply N.eqb_eq in EM. apply negb_true_iff in A1, A2. subst byw.
    constructor; cbn [mfrom mto mpiece mpromo mcap mep mdp mcastle mk]; try discriminate.
    - intros [X|X]; congruence.
    - intros _. exists i, mask, cross. repeat split; assumption. }
  destruct (white g) eqn:W; repeat (apply in_app_or in H; destruct H as [H|H]).
  - (* white pawns *)
    apply in_flat_map in H. destruct H as (f & Hf & H). apply in_bits in Hf. pose proof (r_wp g R f Hf) as F8.
    pose proof (r_sq g R WP f ltac:(reflexivity) Hf) as F64.
    unfold white_pawn_moves in H. cbn zeta in H. apply in_app_or in H. destruct H as [H|H].
    + destruct (all && negb (get_bit (aocc g) (f - 8))); [|destruct H]. destruct (8 <=? f - 8) eqn:R8.
      * apply N.leb_le in R8. destruct H as [<-|H].
        -- apply ps_pawn; [left; reflexivity| |discriminate]. rewrite W; split; [intros X; exfalso; apply X; reflexivity|intros X; exfalso; lia].
        -- destruct (negb (get_bit (aocc g) (f - 8 - 8)) && (f / 8 =? 6)) eqn:D; [|destruct H]. destruct H as [<-|[]].
           apply andb_true_iff in D. destruct D as [_ D6]. apply N.eqb_eq in D6.
           assert (F48 : 48 <= f < 56). { pose proof (N.div_mod f 8 ltac:(lia)) as X. rewrite D6 in X. pose proof (N.mod_lt f 8 ltac:(lia)) as Y. revert X Y. generalize (f mod 8). clear. intros r X Y. lia. }
           apply ps_pawn; [left; reflexivity| |intros _; rewrite W; exact F48]. rewrite W; split; [intros X; exfalso; apply X; reflexivity|intros X; exfalso; lia].
      * apply N.leb_gt in R8. eapply promos_ps; [left; reflexivity| | | | | |exact H]; try discriminate. rewrite W. exact R8.
    + apply in_app_or in H. destruct H as [H|H].
      * destruct (negb (ep g =? NOSQ) && _) eqn:E; [|destruct H]. destruct H as [<-|[]].
        apply andb_true_iff in E. destruct E as [E _]. apply negb_true_iff, N.eqb_neq in E. pose proof (r_ep g R E).
        apply ps_pawn; [left; reflexivity| |discriminate]. rewrite W; split; [intros X; exfalso; apply X; reflexivity|intros X; exfalso; lia].
      * apply in_flat_map in H. destruct H as (t & Ht & H). destruct (8 <=? t) eqn:R8.
        -- apply N.leb_le in R8. destruct H as [<-|[]]. apply ps_pawn; [left; reflexivity| |discriminate]. rewrite W; split; [intros X; exfalso; apply X; reflexivity|intros X; exfalso; lia].
        -- apply N.leb_gt in R8. eapply promos_ps; [left; reflexivity| | | | | |exact H]; try discriminate. rewrite W. exact R8.
  - refine (CM 0 _ _ _ _ _ _ _ _ _ _ H); try discriminate; [left; repeat split; reflexivity|reflexivity].
  - refine (CM 1 _ _ _ _ _ _ _ _ _ _ H); try discriminate; [right; left; repeat split; reflexivity|reflexivity].
  - refine (piece_moves_ps all _ _ _ m _ _ _ H); [discriminate|discriminate|reflexivity].
  - refine (piece_moves_ps all _ _ _ m _ _ _ H); [discriminate|discriminate|reflexivity].
  - refine (piece_moves_ps all _ _ _ m _ _ _ H); [discriminate|discriminate|reflexivity].
  - refine (piece_moves_ps all _ _ _ m _ _ _ H); [discriminate|discriminate|reflexivity].
  - refine (piece_moves_ps all _ _ _ m _ _ _ H); [discriminate|discriminate|reflexivity].
  - (* black pawns *)
    apply in_flat_map in H. destruct H as (f & Hf & H). apply in_bits in Hf. pose proof (r_bp g R f Hf) as F56.
    unfold black_pawn_moves in H. cbn zeta in H. apply in_app_or in H. destruct H as [H|H].
    + destruct (all && negb (get_bit (aocc g) (f + 8))); [|destruct H]. destruct (f + 8 <=? 55) eqn:R8.
      * apply N.leb_le in R8. destruct H as [<-|H].
        -- apply ps_pawn; [right; reflexivity| |discriminate]. rewrite W; split; [intros X; exfalso; apply X; reflexivity|intros X; exfalso; lia].
        -- destruct (negb (get_bit (aocc g) (f + 8 + 8)) && (f / 8 =? 1)) eqn:D; [|destruct H]. destruct H as [<-|[]].
           apply andb_true_iff in D. destruct D as [_ D6]. apply N.eqb_eq in D6.
           assert (F16 : 8 <= f < 16). { pose proof (N.div_mod f 8 ltac:(lia)) as X. rewrite D6 in X. pose proof (N.mod_lt f 8 ltac:(lia)) as Y. revert X Y. generalize (f mod 8). clear. intros r X Y. lia. }
           apply ps_pawn; [right; reflexivity| |intros _; rewrite W; exact F16]. rewrite W; split; [intros X; exfalso; apply X; reflexivity|intros X; exfalso; lia].
      * apply N.leb_gt in R8. eapply promos_ps; [right; reflexivity| | | | | |exact H]; try discriminate. rewrite W. exact R8.
    + apply in_app_or in H. destruct H as [H|H].
      * destruct (negb (ep g =? NOSQ) && _) eqn:E; [|destruct H]. destruct H as [<-|[]].
        apply andb_true_iff in E. destruct E as [E _]. apply negb_true_iff, N.eqb_neq in E. pose proof (r_ep g R E).
        apply ps_pawn; [right; reflexivity| |discriminate]. rewrite W; split; [intros X; exfalso; apply X; reflexivity|intros X; exfalso; lia].
      * apply in_flat_map in H. destruct H as (t & Ht & H). destruct (t <=? 55) eqn:R8.
        -- apply N.leb_le in R8. destruct H as [<-|[]]. apply ps_pawn; [right; reflexivity| |discriminate]. rewrite W; split; [intros X; exfalso; apply X; reflexivity|intros X; exfalso; lia].
        -- apply N.leb_gt in R8. eapply promos_ps; [right; reflexivity| | | | | |exact H]; try discriminate. rewrite W. exact R8.
  - refine (CM 2 _ _ _ _ _ _ _ _ _ _ H); try discriminate; [right; right; left; repeat split; reflexivity|reflexivity].
  - refine (CM 3 _ _ _ _ _ _ _ _ _ _ H); try discriminate; [right; right; right; repeat split; reflexivity|reflexivity].
  - refine (piece_moves_ps all _ _ _ m _ _ _ H); [discriminate|discriminate|reflexivity].
  - refine (piece_moves_ps all _ _ _ m _ _ _ H); [discriminate|discriminate|reflexivity].
  - refine (piece_moves_ps all _ _ _ m _ _ _ H); [discriminate|discriminate|reflexivity].
  - refine (piece_moves_ps all _ _ _ m _ _ _ H); [discriminate|discriminate|reflexivity].
  - refine (piece_moves_ps all _ _ _ m _ _ _ H); [discriminate|discriminate|reflexivity].
Qed.
End Ps.
Print Assumptions generated_ps.
