(* The specification's executable enumerator of legal moves is the property's quantifier: a move is in ChessSpec.legal_moves p
   iff it is one of the 64 x 64 x 5 candidates and legal (legal_moves_naive), iff legalb p m = true. *)
From Coq Require Import ZArith List Bool Lia.
From JV Require Import Spec.ChessSpec.
Import ListNotations.
Local Open Scope Z_scope.

Lemma in_8 x : 0 <= x < 8 -> In x [0;1;2;3;4;5;6;7].
Proof. intros H. assert (E : x = 0 \/ x = 1 \/ x = 2 \/ x = 3 \/ x = 4 \/ x = 5 \/ x = 6 \/ x = 7) by lia. cbn [In]. intuition. Qed.

Lemma onb_all_sq s : onb s = true -> In s all_sq.
Proof.
  destruct s as [f r]. unfold onb. intros O. apply andb_true_iff in O. destruct O as [O O4]. apply andb_true_iff in O. destruct O as [O O3].
  apply andb_true_iff in O. destruct O as [O1 O2]. apply Z.leb_le in O1, O3. apply Z.ltb_lt in O2, O4.
  unfold all_sq. apply in_flat_map. exists r. split; [apply in_8; lia|]. apply in_map_iff. exists f. split; [reflexivity|apply in_8; lia].
Qed.

Lemma pseudo_parts p m : pseudo p m = true ->
  onb (sfrom m) = true /\ onb (sto m) = true /\
  (match color_at (board p) (sfrom m) with Some c => color_eqb c (stm p) | None => false end) = true /\ In (spromo m) promos.
Proof.
  unfold pseudo. cbn zeta. intros H. apply andb_true_iff in H. destruct H as [O H]. apply andb_true_iff in O. destruct O as [OA OB].
  split; [exact OA|]. split; [exact OB|]. unfold color_at.
  destruct (at_ (board p) (sfrom m)) as [[c' k]|]; [|discriminate H].
  apply andb_true_iff in H. destruct H as [H MV]. apply andb_true_iff in H. destruct H as [CE _].
  split; [destruct (stm p), c'; cbn in CE |- *; congruence|].
  unfold promos. destruct k.
  - apply andb_true_iff in MV. destruct MV as [PR _]. destruct (snd (sto m) =? last_rank (stm p)); destruct (spromo m) as [[]|]; try discriminate PR; cbn [In]; auto 10.
  - destruct (spromo m); [discriminate MV|left; reflexivity].
  - destruct (spromo m); [discriminate MV|left; reflexivity].
  - destruct (spromo m); [discriminate MV|left; reflexivity].
  - destruct (spromo m); [discriminate MV|left; reflexivity].
  - destruct (spromo m); [discriminate MV|left; reflexivity].
Qed.

Lemma smove_eta m : m = mkSMove (sfrom m) (sto m) (spromo m). Proof. destruct m; reflexivity. Qed.

Theorem legal_moves_spec p m : In m (legal_moves p) <-> legalb p m = true.
Proof.
  unfold legal_moves. rewrite filter_In. split; [intros [_ L]; exact L|]. intros L. split; [|exact L].
  unfold legalb in L. apply andb_true_iff in L. destruct L as [PS _]. destruct (pseudo_parts p m PS) as (OA & OB & OWN & PR).
  apply in_flat_map. exists (sfrom m). split.
  - unfold own_squares. apply filter_In. split; [apply onb_all_sq; exact OA|exact OWN].
  - apply in_flat_map. exists (sto m). split; [apply onb_all_sq; exact OB|]. apply in_map_iff. exists (spromo m). split; [symmetry; apply smove_eta|exact PR].
Qed.

Theorem legal_moves_naive_spec p m : In m (legal_moves_naive p) <-> legalb p m = true.
Proof.
  unfold legal_moves_naive. rewrite filter_In. split; [intros [_ L]; exact L|]. intros L. split; [|exact L].
  unfold legalb in L. apply andb_true_iff in L. destruct L as [PS _]. destruct (pseudo_parts p m PS) as (OA & OB & _ & PR).
  unfold candidates. apply in_flat_map. exists (sfrom m). split; [apply onb_all_sq; exact OA|].
  apply in_flat_map. exists (sto m). split; [apply onb_all_sq; exact OB|]. apply in_map_iff. exists (spromo m). split; [symmetry; apply smove_eta|exact PR].
Qed.

(* the enumerator and the literal quantifier of the property list the same moves *)
Theorem legal_moves_is_naive p m : In m (legal_moves p) <-> In m (legal_moves_naive p).
Proof. rewrite legal_moves_spec, legal_moves_naive_spec. reflexivity. Qed.
Print Assumptions legal_moves_is_naive.
