(* Facts about the specification's forced-mate predicates (Spec/ChessSpec.v: mates_in, mated_in): they depend on the core of a
   position only, mates_in (S k) is "some legal move leads to a position that is mated within k", and both are monotone. *)
From Coq Require Import ZArith List Bool Lia.
From JV Require Import Spec.ChessSpec Spec.SpecCore.
Import ListNotations.

Lemma mated_in_unfold n p : mated_in n p = match legal_moves p with [] => in_check (board p) (stm p) | ms => forallb (fun m => mates_in n (apply p m)) ms end.
Proof. reflexivity. Qed.
Lemma mates_in_S k p : mates_in (S k) p = existsb (fun m => mated_in k (apply p m)) (legal_moves p).
Proof. reflexivity. Qed.

Lemma forallb_ext_in2 {A} (f g : A -> bool) l : (forall x, In x l -> f x = g x) -> forallb f l = forallb g l.
Proof. intros H. induction l as [|x l IH]; [reflexivity|]. cbn [forallb]. rewrite (H x (or_introl eq_refl)), IH; [reflexivity|]. intros y Hy. apply H. right. exact Hy. Qed.
Lemma existsb_ext_in2 {A} (f g : A -> bool) l : (forall x, In x l -> f x = g x) -> existsb f l = existsb g l.
Proof. intros H. induction l as [|x l IH]; [reflexivity|]. cbn [existsb]. rewrite (H x (or_introl eq_refl)), IH; [reflexivity|]. intros y Hy. apply H. right. exact Hy. Qed.

Lemma core_fields p q : core p = core q -> board p = board q /\ stm p = stm q.
Proof. unfold core. intros E. injection E as E1 E2 _ _ _ _ _. split; assumption. Qed.

Theorem mates_in_core n : forall p q, core p = core q -> mates_in n p = mates_in n q.
Proof.
  induction n as [|k IH]; intros p q E; [reflexivity|]. cbn [mates_in].
  rewrite <- (legal_moves_core p), <- (legal_moves_core q), E. apply existsb_ext_in2. intros m _.
  assert (EA : core (apply p m) = core (apply q m)) by (rewrite <- (apply_core p m), <- (apply_core q m), E; reflexivity).
  rewrite <- (legal_moves_core (apply p m)), <- (legal_moves_core (apply q m)), EA.
  destruct (core_fields _ _ EA) as (B1 & B2). rewrite B1, B2.
  destruct (legal_moves (core (apply q m))); [reflexivity|]. apply forallb_ext_in2. intros r _. apply IH.
  rewrite <- (apply_core (apply p m) r), <- (apply_core (apply q m) r), EA. reflexivity.
Qed.
Theorem mated_in_core n p q : core p = core q -> mated_in n p = mated_in n q.
Proof.
  intros E. unfold mated_in. rewrite <- (legal_moves_core p), <- (legal_moves_core q), E. destruct (core_fields _ _ E) as (B1 & B2). rewrite B1, B2.
  destruct (legal_moves (core q)); [reflexivity|]. apply forallb_ext_in2. intros m _. apply mates_in_core.
  rewrite <- (apply_core p m), <- (apply_core q m), E. reflexivity.
Qed.

Theorem mates_in_mono n : forall p, mates_in n p = true -> mates_in (S n) p = true.
Proof.
  induction n as [|k IH]; intros p H; [discriminate H|]. rewrite mates_in_S in H |- *. apply existsb_exists in H. destruct H as (m & Hm & H).
  apply existsb_exists. exists m. split; [exact Hm|]. rewrite mated_in_unfold in H |- *.
  destruct (legal_moves (apply p m)) as [|r rs]; [exact H|]. rewrite forallb_forall in H |- *. intros x Hx. apply IH. apply H. exact Hx.
Qed.
Lemma mates_in_le n n' p : (n <= n')%nat -> mates_in n p = true -> mates_in n' p = true.
Proof. induction 1 as [|n' _ IH]; intros H; [exact H|]. apply mates_in_mono. apply IH. exact H. Qed.
