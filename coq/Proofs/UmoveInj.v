(* C01, no duplicates: two generated moves that denote the same move of the rules (same squares, same promotion) are the same
   move record -- so the absence of duplicate records (NoDupGen) is the absence of duplicate moves. *)
From Coq Require Import NArith ZArith List Bool Lia.
From JV Require Import Gen.Consts Spec.Rays Model.Bits Model.Chess Model.Abs Model.SearchChess Spec.ChessSpec Proofs.BitsProofs Proofs.BitboardProofs
  Proofs.MoveGenProofs Proofs.MakeProofs Proofs.ZobristProofs Proofs.KeyProofs Proofs.GenProofs Proofs.ConsProofs Proofs.GenOk Proofs.KingsProofs
  Proofs.RangeProofs Proofs.NkProofs Proofs.LegalInv Proofs.CellProofs Proofs.AbsBase Proofs.AbsGeo Proofs.GenGeo Proofs.AbsMake Proofs.AttackSym
  Proofs.AttackSpec Proofs.GenPseudo Proofs.Soundness Proofs.NoDupGen.
Import ListNotations.
Local Open Scope N_scope.

Lemma king_no_castle_step : tb (king_att 60) 62 = false /\ tb (king_att 60) 58 = false /\ tb (king_att 4) 6 = false /\ tb (king_att 4) 2 = false.
Proof. vm_compute. auto. Qed.

Section Inj.
Variables (g : game) (all : bool) (x y : move).
Hypothesis LI : legal_inv g.
Hypothesis HX : In x (generate_moves g all).
Hypothesis HY : In y (generate_moves g all).
Hypothesis FE : mfrom x = mfrom y.
Hypothesis TE : mto x = mto y.

Let C : cons g := proj1 LI.
Let KG : kings g := proj1 (proj2 LI).
Let R : range g := proj1 (proj2 (proj2 LI)).
Let NK : nk g := proj1 (proj2 (proj2 (proj2 LI))).

Lemma okx : move_ok g x. Proof. exact (generated_moves_ok g C all x HX (nk_nkc g all x C KG R NK HX)). Qed.
Lemma oky : move_ok g y. Proof. exact (generated_moves_ok g C all y HY (nk_nkc g all y C KG R NK HY)). Qed.
Lemma gx : move_geo g x. Proof. exact (generated_geo g R all x HX). Qed.
Lemma gy : move_geo g y. Proof. exact (generated_geo g R all y HY). Qed.
Lemma Fx : mfrom x < 64. Proof. exact (F64 g all x LI HX). Qed.
Lemma Tx : mto x < 64. Proof. exact (T64 g all x LI HX). Qed.

Lemma same_piece : mpiece x = mpiece y.
Proof.
  destruct (N.eq_dec (mpiece x) (mpiece y)) as [E|NE]; [exact E|]. exfalso.
  pose proof (k_from g x okx) as A. pose proof (k_from g y oky) as B. rewrite <- FE in B.
  rewrite (c_disj g C _ _ _ (k_p12 g x okx) (k_p12 g y oky) NE A) in B. discriminate.
Qed.
End Inj.

Section Inj2.
Variables (g : game) (all : bool).
Hypothesis LI : legal_inv g.
Let C : cons g := proj1 LI.

(* each flag of x forces the same flag of y *)
Lemma castle_le x y : In x (generate_moves g all) -> In y (generate_moves g all) -> mfrom x = mfrom y -> mto x = mto y ->
  mcastle x = true -> mcastle y = true.
Proof.
  intros HX HY FE TE CX. destruct (mcastle y) eqn:CY; [reflexivity|]. exfalso.
  pose proof (okx g all x LI HX) as KX. pose proof (gy g all y LI HY) as GY. pose proof (same_piece g all x y LI HX HY FE) as PE.
  pose proof (k_castle_from g x KX CX) as FR. destruct (k_castle g x KX CX) as (_ & _ & _ & CASES).
  destruct king_no_castle_step as (N1 & N2 & N3 & N4).
  destruct CASES as [(W & PK & [(T & _)|(T & _)])|(W & PK & [(T & _)|(T & _)])]; rewrite W in FR;
    pose proof (mg_king g y GY ltac:(rewrite <- PE, PK; auto) CY) as A; rewrite <- FE, <- TE, FR, T in A; congruence.
Qed.

Lemma victim_occupied m : move_ok g m -> mcap m = true -> mep m = false -> tb (aocc g) (mto m) = true.
Proof.
  intros K CAP EP. destruct (k_cap g m K CAP EP) as (v & VI & VT). destruct (victims_opp g v (mpiece m) VI (k_own g m K)) as (_ & V12 & _).
  destruct (tb (aocc g) (mto m)) eqn:A; [reflexivity|]. rewrite (occ_clear g C v _ V12 A) in VT. discriminate.
Qed.

Lemma is_pawn w : ownP w = WP \/ ownP w = BP. Proof. destruct w; [left|right]; reflexivity. Qed.

Lemma push_same_file m : move_ok g m -> move_geo g m -> mfrom m < 64 -> mto m < 64 -> (mpiece m = WP \/ mpiece m = BP) -> mcap m = false ->
  colZ (mfrom m) = colZ (mto m).
Proof.
  intros K G F T PW CAP. destruct (mg_push g m G PW CAP) as [(_ & REL)|(_ & REL)]; destruct (white g).
  - rewrite REL. destruct (push_geo_spec (mto m) T) as (P8 & _). apply P8. rewrite <- REL. exact F.
  - rewrite REL. destruct (push_geo_spec (mfrom m) F) as (P8 & _). symmetry. apply P8. rewrite <- REL. exact T.
  - rewrite REL. destruct (push_geo_spec (mto m) T) as (_ & P16). apply P16. rewrite <- REL. exact F.
  - rewrite REL. destruct (push_geo_spec (mfrom m) F) as (_ & P16). symmetry. apply P16. rewrite <- REL. exact T.
Qed.
Lemma pcap_other_file m : move_geo g m -> mfrom m < 64 -> mto m < 64 -> (mpiece m = WP \/ mpiece m = BP) -> mcap m = true ->
  colZ (mfrom m) <> colZ (mto m).
Proof. intros G F T PW CAP. destruct (pawn_geo (white g) _ _ F T (mg_pcap g m G PW CAP)) as (X & _). exact X. Qed.

Lemma ep_le x y : In x (generate_moves g all) -> In y (generate_moves g all) -> mfrom x = mfrom y -> mto x = mto y ->
  mep x = true -> mep y = true.
Proof.
  intros HX HY FE TE EX. destruct (mep y) eqn:EY; [reflexivity|]. exfalso.
  pose proof (okx g all x LI HX) as KX. pose proof (oky g all y LI HY) as KY. pose proof (gx g all x LI HX) as GX. pose proof (gy g all y LI HY) as GY.
  pose proof (same_piece g all x y LI HX HY FE) as PE.
  destruct (k_ep g x KX EX) as (CX & AT & _ & _ & _ & _ & PX).
  destruct (mcap y) eqn:CY.
  - pose proof (victim_occupied y KY CY EY) as A. rewrite <- TE in A. congruence.
  - assert (PWX : mpiece x = WP \/ mpiece x = BP) by (rewrite PX; apply is_pawn).
    assert (PWY : mpiece y = WP \/ mpiece y = BP) by (rewrite <- PE; exact PWX).
    pose proof (push_same_file y KY GY (F64 g all y LI HY) (T64 g all y LI HY) PWY CY) as S.
    pose proof (pcap_other_file x GX (F64 g all x LI HX) (T64 g all x LI HX) PWX CX) as D. rewrite FE, TE in D. contradiction.
Qed.

Lemma cap_le x y : In x (generate_moves g all) -> In y (generate_moves g all) -> mfrom x = mfrom y -> mto x = mto y ->
  mcap x = true -> mcap y = true.
Proof.
  intros HX HY FE TE CX. destruct (mcap y) eqn:CY; [reflexivity|]. exfalso.
  pose proof (okx g all x LI HX) as KX. pose proof (oky g all y LI HY) as KY.
  pose proof (k_quiet g y KY CY) as Q. destruct (mep x) eqn:EX.
  - pose proof (ep_le x y HX HY FE TE EX) as EY. destruct (k_ep g y KY EY) as (CY' & _). congruence.
  - pose proof (victim_occupied x KX CX EX) as A. rewrite TE in A. congruence.
Qed.

Lemma dp_le x y : In x (generate_moves g all) -> In y (generate_moves g all) -> mfrom x = mfrom y -> mto x = mto y ->
  mdp x = true -> mdp y = true.
Proof.
  intros HX HY FE TE DX. destruct (mdp y) eqn:DY; [reflexivity|]. exfalso.
  pose proof (okx g all x LI HX) as KX. pose proof (oky g all y LI HY) as KY. pose proof (gx g all x LI HX) as GX. pose proof (gy g all y LI HY) as GY.
  pose proof (same_piece g all x y LI HX HY FE) as PE.
  destruct (k_dp g x KX DX) as (CX & _ & PX & _ & REL).
  assert (PWX : mpiece x = WP \/ mpiece x = BP) by (rewrite PX; apply is_pawn).
  assert (PWY : mpiece y = WP \/ mpiece y = BP) by (rewrite <- PE; exact PWX).
  destruct (mcap y) eqn:CY.
  - pose proof (cap_le y x HY HX (eq_sym FE) (eq_sym TE) CY). congruence.
  - destruct (mg_push g y GY PWY CY) as [(_ & REL')|(D' & _)]; [|congruence]. rewrite <- FE, <- TE in REL'. destruct (white g); lia.
Qed.

Lemma promo_eq x y : In x (generate_moves g all) -> In y (generate_moves g all) ->
  promo_kind (mpromo x) = promo_kind (mpromo y) -> mpromo x = mpromo y.
Proof.
  intros HX HY PK. pose proof (okx g all x LI HX) as KX. pose proof (oky g all y LI HY) as KY. unfold promo_kind in PK.
  destruct (N.eqb_spec (mpromo x) NOPIECE) as [EX|NX]; destruct (N.eqb_spec (mpromo y) NOPIECE) as [EY|NY]; try discriminate PK; [congruence|].
  assert (PK' : snd (piece_of (mpromo x)) = snd (piece_of (mpromo y))) by (injection PK as PK; exact PK).
  destruct (k_promo g x KX NX) as (X12 & XC & _). destruct (k_promo g y KY NY) as (Y12 & YC & _).
  assert (EX : mpromo x = pidx (colr (white g)) (snd (piece_of (mpromo x)))) by (rewrite <- XC, <- (piece_of_color _ X12); symmetry; apply pidx_piece_of; exact X12).
  assert (EY : mpromo y = pidx (colr (white g)) (snd (piece_of (mpromo y)))) by (rewrite <- YC, <- (piece_of_color _ Y12); symmetry; apply pidx_piece_of; exact Y12).
  etransitivity; [exact EX|]. rewrite PK'. symmetry. exact EY.
Qed.

Theorem umove_inj_generated x y : In x (generate_moves g all) -> In y (generate_moves g all) -> umove x = umove y -> x = y.
Proof.
  intros HX HY U.
  assert (UF : sq_of_idx (mfrom x) = sq_of_idx (mfrom y)) by exact (f_equal sfrom U).
  assert (UT : sq_of_idx (mto x) = sq_of_idx (mto y)) by exact (f_equal sto U).
  assert (UP : promo_kind (mpromo x) = promo_kind (mpromo y)) by exact (f_equal spromo U).
  apply (sq_of_idx_inj _ _ (F64 g all x LI HX) (F64 g all y LI HY)) in UF. apply (sq_of_idx_inj _ _ (T64 g all x LI HX) (T64 g all y LI HY)) in UT.
  pose proof (same_piece g all x y LI HX HY UF) as PE. pose proof (promo_eq x y HX HY UP) as PR.
  assert (B : forall a b : bool, (a = true -> b = true) -> (b = true -> a = true) -> a = b) by (intros [] [] H1 H2; try reflexivity; [symmetry; apply H1; reflexivity|apply H2; reflexivity]).
  pose proof (B _ _ (cap_le x y HX HY UF UT) (cap_le y x HY HX (eq_sym UF) (eq_sym UT))) as E1.
  pose proof (B _ _ (dp_le x y HX HY UF UT) (dp_le y x HY HX (eq_sym UF) (eq_sym UT))) as E2.
  pose proof (B _ _ (ep_le x y HX HY UF UT) (ep_le y x HY HX (eq_sym UF) (eq_sym UT))) as E3.
  pose proof (B _ _ (castle_le x y HX HY UF UT) (castle_le y x HY HX (eq_sym UF) (eq_sym UT))) as E4.
  destruct x, y. cbn in *. subst. reflexivity.
Qed.

Lemma NoDup_map_on {A B} (f : A -> B) (l : list A) : NoDup l -> (forall a b, In a l -> In b l -> f a = f b -> a = b) -> NoDup (map f l).
Proof.
  induction l as [|a l IH]; intros N1 I; [constructor|]. inversion N1 as [|? ? NA N1']; subst. cbn [map]. constructor.
  - intros H. apply in_map_iff in H. destruct H as (b & E & Hb). apply (I b a (or_intror Hb) (or_introl eq_refl)) in E. subst b. exact (NA Hb).
  - apply IH; [exact N1'|]. intros b c Hb Hc. apply I; right; assumption.
Qed.

(* no generated move occurs twice, as a move of the rules *)
Theorem generated_umoves_NoDup : NoDup (map umove (generate_moves g all)).
Proof. apply NoDup_map_on; [apply generate_moves_NoDup|intros a b; apply umove_inj_generated]. Qed.
End Inj2.
Print Assumptions generated_umoves_NoDup.
