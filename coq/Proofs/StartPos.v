(* The start position (what `position startpos` / Game::new_from_fen(START) builds) satisfies the invariant, so every position
   reachable from it by the model's moves does (reach_legal): the theorems stated under legal_inv are not vacuous and cover
   all of legal play from the start position. *)
From Coq Require Import NArith List Bool String.
From JV Require Import Gen.Consts Model.Bits Model.Chess Model.Abs Model.SearchChess Model.Fen Proofs.LegalInv Proofs.LegalInvB.
Import ListNotations.

Definition start_game : game := match new_from_fen start_fen with FOk g => g | _ => mkGame [] 0 0 0 true 0 0 0 0 0 end.
Lemma start_game_is_startpos : new_from_fen start_fen = FOk start_game.
Proof. vm_compute. reflexivity. Qed.
Lemma start_game_inv_b : legal_inv_b start_game = true.
Proof. vm_compute. reflexivity. Qed.
Theorem start_game_inv : legal_inv start_game.
Proof. apply legal_inv_b_sound. exact start_game_inv_b. Qed.
Theorem reachable_from_start_inv g : chess_reach start_game g -> legal_inv g.
Proof. apply reach_legal. exact start_game_inv. Qed.
Print Assumptions reachable_from_start_inv.
