(* C07: the repetition decision of a negamax node, for every game interface / oracle / TT / history. *)
From Coq Require Import NArith ZArith List Bool Lia.
From JV Require Import Gen.Consts Model.TT Model.Search.
Import ListNotations.

Section Rep.
Variables (pos move : Type).
Variable gen : pos -> bool -> list move.
Variable make : pos -> move -> option pos.
Variable null : pos -> pos.
Variable evalf : pos -> Z.
Variable in_check : pos -> bool.
Variable key : pos -> N.
Variable half100 : pos -> bool.
Variable mv_eqb : move -> move -> bool.
Variable mv_cap : move -> bool.
Variable mv_promo : move -> bool.
Variable mv_hidx : move -> nat.
Variable cap_score : pos -> move -> Z.
Variable null_mv : move.
Variable pollp : N -> bool.
Variable stop_at : nat -> bool.
Variable tt_bypass : bool.
Notation env := (env pos move).
Notation negamax := (negamax gen make null evalf in_check key half100 mv_eqb mv_cap mv_promo mv_hidx cap_score null_mv pollp stop_at tt_bypass).

(* the recorded game history as the node sees it *)
Definition history_keys (e : env) : list N := firstn (ridx e) (rtab e).
Definition node_event (g : pos) (d : nat) (a b : Z) (e : env) : event pos move :=
  ENode false g (ply e) d a b (nodes e) (stopping e) (ridx e) (nth (ridx e) (rtab e) 0%N).

Lemma rep_hit_iff (e : env) k : rep_hit e k = true <-> In k (history_keys e).
Proof.
  unfold rep_hit, history_keys. rewrite existsb_exists. split.
  - intros (x & Hx & E). apply N.eqb_eq in E. subst x. exact Hx.
  - intros H. exists k. split; [exact H|apply N.eqb_refl].
Qed.

(* complete: a non-root node whose key is in the game history is a draw -- decided before the TT is consulted:
   the result is 0, the TT is untouched, no TT hit is counted, and the only events are the node entry and the repetition hit *)
Theorem rep_complete fuel g d a b (e : env) :
  ply e <> O -> In (key g) (history_keys e) ->
  exists e', negamax (S fuel) g d a b e = Val 0%Z e' /\
    trace e' = ERepHit :: node_event g d a b e :: trace e /\ tbl e' = tbl e /\ tt_hits e' = tt_hits e /\ nodes e' = nodes e.
Proof.
  intros P H. cbn [Search.negamax]. unfold negamax_body.
  set (e0 := emit e _).
  assert (R : rep_hit e0 (key g) = true) by (apply rep_hit_iff; exact H).
  assert (Z : Nat.eqb (ply e0) 0 = false) by (apply Nat.eqb_neq; exact P).
  rewrite Z, R. cbn [negb andb]. eexists. split; [reflexivity|]. cbn. repeat split; reflexivity.
Qed.

(* sound: the decision "this node is a repetition" is taken exactly when the node is not the root and its own key is in the
   game history -- never on another position's key *)
Definition rep_decision (e : env) (g : pos) : bool := negb (Nat.eqb (ply e) 0) && rep_hit e (key g).
Theorem rep_decision_iff (e : env) g : rep_decision e g = true <-> ply e <> O /\ In (key g) (history_keys e).
Proof.
  unfold rep_decision. rewrite andb_true_iff, negb_true_iff, Nat.eqb_neq, rep_hit_iff. tauto.
Qed.
End Rep.
