(* C07 at the level of whole searches: every node of the main search tests its own key against exactly the game history recorded at
   the root.  The search writes the key of a successor into the slot just above the history and takes the index back before it
   descends, so at every negamax node the repetition index is the root's and the history prefix below it is untouched; only
   quiescence lets the index grow (and never consults the table).  Invariant over the ghost trace: every main-search node event
   carries the root's index; the first `ri` slots of the table never change. *)
From Coq Require Import NArith ZArith List Bool Lia.
From JV Require Import Gen.Consts Model.TT Model.Search.
Import ListNotations.

Section Frame.
Variables (pos move : Type).
Variable gen : pos -> bool -> list move.
Variable make : pos -> move -> option pos.
Variable null : pos -> pos.
Variable evalf : pos -> Z.
Variable in_check : pos -> bool.
Variable key : pos -> N.
Variable half100 : pos -> bool.
Variable mv_eqb : move -> move -> bool.
Variable mv_cap : move -> bool.
Variable mv_promo : move -> bool.
Variable mv_hidx : move -> nat.
Variable cap_score : pos -> move -> Z.
Variable null_mv : move.
Variable legalb : pos -> move -> bool.
Variable pollp : N -> bool.
Variable stop_at : nat -> bool.
Variable tt_bypass : bool.

Notation env := (env pos move).
Notation res := (res pos move).
Notation lres := (lres pos move).
Notation negamax := (negamax gen make null evalf in_check key half100 mv_eqb mv_cap mv_promo mv_hidx cap_score null_mv pollp stop_at tt_bypass).
Notation quiescence := (quiescence gen make evalf key half100 mv_eqb mv_cap mv_hidx cap_score null_mv pollp stop_at).
Notation negamax_body := (negamax_body gen make null evalf in_check key half100 mv_eqb mv_cap mv_promo mv_hidx cap_score null_mv pollp stop_at tt_bypass).
Notation quiescence_body := (quiescence_body gen make evalf key half100 mv_eqb mv_cap mv_hidx cap_score null_mv pollp stop_at).
Notation nloop := (nloop make key mv_cap mv_promo mv_hidx).
Notation qloop := (qloop make key).
Notation sort_moves := (sort_moves mv_eqb mv_cap mv_hidx cap_score null_mv).
Notation score_all := (score_all mv_eqb mv_cap mv_hidx cap_score null_mv).
Notation score_move := (score_move mv_eqb mv_cap mv_hidx cap_score null_mv).
Notation maybe_poll := (maybe_poll pollp stop_at).
Notation poll := (poll stop_at).
Notation enable_pv_scoring := (enable_pv_scoring mv_eqb null_mv).

Section Hist.
Variable ri : nat.
Variable hk : list N.

Definition evok (ev : event pos move) : Prop := match ev with ENode false _ _ _ _ _ _ _ r _ => r = ri | _ => True end.
Definition Inv (e : env) : Prop := (ri <= ridx e)%nat /\ firstn ri (rtab e) = hk /\ Forall evok (trace e).

Lemma firstn_updl (l : list N) i v : (ri <= i)%nat -> firstn ri (updl l i v) = firstn ri l.
Proof.
  intros L. unfold updl. destruct (Nat.le_gt_cases i (length l)) as [A|A].
  - rewrite firstn_app, firstn_firstn, firstn_length. replace (Nat.min ri i) with ri by lia.
    replace (ri - Nat.min i (length l))%nat with O by lia. cbn [firstn]. apply app_nil_r.
  - rewrite (skipn_all2 l) by lia. rewrite app_nil_r. rewrite (firstn_all2 l) by lia. reflexivity.
Qed.

(* environments that agree on what the invariant reads *)
Definition sameh (e e' : env) : Prop := ridx e' = ridx e /\ rtab e' = rtab e /\ trace e' = trace e.
Lemma Inv_same e e' : sameh e e' -> Inv e -> Inv e'.
Proof. intros (A & B & C) (I1 & I2 & I3). unfold Inv. rewrite A, B, C. auto. Qed.
Ltac sh := unfold sameh; cbn; repeat split; reflexivity.
Lemma sh_set_nodes e n : sameh e (set_nodes e n). Proof. sh. Qed.
Lemma sh_set_hits e h : sameh e (set_hits e h). Proof. sh. Qed.
Lemma sh_set_flags e a b : sameh e (set_flags e a b). Proof. sh. Qed.
Lemma sh_set_killers e a b : sameh e (set_killers e a b). Proof. sh. Qed.
Lemma sh_set_history e h : sameh e (set_history e h). Proof. sh. Qed.
Lemma sh_set_pv e l t : sameh e (set_pv e l t). Proof. sh. Qed.
Lemma sh_set_tbl e t : sameh e (set_tbl e t). Proof. sh. Qed.
Lemma sh_set_ply e p : sameh e (set_ply e p). Proof. sh. Qed.
Lemma sh_refl e : sameh e e. Proof. sh. Qed.
Lemma sh_trans a b c : sameh a b -> sameh b c -> sameh a c.
Proof. unfold sameh. intros (A1&A2&A3) (B1&B2&B3). repeat split; congruence. Qed.

Lemma Inv_emit e ev : evok ev -> Inv e -> Inv (emit e ev).
Proof. intros OK (I1 & I2 & I3). unfold Inv. cbn [ridx rtab trace emit]. repeat split; [exact I1|exact I2|constructor; assumption]. Qed.
Lemma Inv_insert_pv e m : Inv e -> Inv (insert_pv e m).
Proof. intros H. unfold Search.insert_pv. cbn zeta. eapply Inv_same; [apply sh_set_pv|]. apply Inv_emit; [exact I|exact H]. Qed.
Lemma Inv_poll (e : env) : Inv e -> Inv (poll e) /\ ridx (poll e) = ridx e.
Proof.
  intros (I1 & I2 & I3). unfold Inv, Search.poll. cbn zeta. destruct (stop_at (npolls e) && negb (stopping e)); cbn; repeat split; try assumption; repeat (constructor; [exact I|]); exact I3.
Qed.
Lemma Inv_maybe_poll (e : env) : Inv e -> Inv (maybe_poll e) /\ ridx (maybe_poll e) = ridx e.
Proof. unfold Search.maybe_poll. destruct (pollp _); [apply Inv_poll|auto]. Qed.
Lemma Inv_rep_insert e k : Inv e -> Inv (rep_insert e k) /\ ridx (rep_insert e k) = S (ridx e).
Proof.
  intros (I1 & I2 & I3). unfold Inv, rep_insert. cbn [ridx rtab trace set_rep]. repeat split; [lia| |exact I3]. rewrite firstn_updl by exact I1. exact I2.
Qed.
Lemma Inv_rep_back e : (ri < ridx e)%nat -> Inv e -> Inv (rep_back e) /\ ridx (rep_back e) = pred (ridx e).
Proof. intros L (I1 & I2 & I3). unfold Inv, rep_back. cbn [ridx rtab trace set_rep]. repeat split; [lia|exact I2|exact I3]. Qed.

Lemma sh_score_move g m e : sameh e (snd (score_move g m e)).
Proof.
  unfold Search.score_move.
  repeat match goal with |- context [if ?c then _ else _] => destruct c end; cbn [snd]; try apply sh_refl. apply sh_set_flags.
Qed.
Lemma sh_score_all g ms : forall e, sameh e (snd (score_all g ms e)).
Proof.
  induction ms as [|m r IH]; intros e; cbn [Search.score_all snd]; [apply sh_refl|].
  destruct (score_move g m e) as [s e1] eqn:E1. destruct (score_all g r e1) as [l e2] eqn:E2. cbn [snd].
  pose proof (sh_score_move g m e) as B1. rewrite E1 in B1. pose proof (IH e1) as B2. rewrite E2 in B2. eapply sh_trans; eassumption.
Qed.
Lemma sh_sort_moves g ms e : sameh e (snd (sort_moves g ms e)).
Proof.
  unfold Search.sort_moves. destruct (score_all g ms e) as [sc e1] eqn:E. cbn [snd]. pose proof (sh_score_all g ms e) as B. rewrite E in B. exact B.
Qed.
Lemma sh_enable_pv ms e : sameh e (enable_pv_scoring ms e).
Proof. unfold Search.enable_pv_scoring. destruct (existsb _ _); apply sh_set_flags. Qed.

Definition okn (r : res) : Prop := match r with OutOfFuel => True | Val _ e' => ridx e' = ri /\ Inv e' end.
Definition okq (e : env) (r : res) : Prop := match r with OutOfFuel => True | Val _ e' => ridx e' = ridx e /\ Inv e' end.
Definition okl (r : lres) : Prop := match r with LFuel => True | LRet _ e' | LDone _ e' _ _ => ridx e' = ri /\ Inv e' end.
Definition Pn (rec : pos -> nat -> Z -> Z -> env -> res) : Prop := forall g d a b e, ridx e = ri -> Inv e -> okn (rec g d a b e).
Definition Pq (rec : pos -> Z -> Z -> env -> res) : Prop := forall g a b e, Inv e -> okq e (rec g a b e).

Section BodyLemmas.
Variable rec_n : pos -> nat -> Z -> Z -> env -> res.
Variable rec_q : pos -> Z -> Z -> env -> res.
Hypothesis Hn : Pn rec_n.
Hypothesis Hq : Pq rec_q.

Notation after_move := (after_move key mv_cap mv_hidx).
Notation search_move := (search_move mv_cap mv_promo rec_n).
Notation move_phase := (move_phase gen make key mv_eqb mv_cap mv_promo mv_hidx cap_score null_mv rec_n).

Lemma qloop_ok g ms : forall ta b e, Inv e -> okq e (qloop rec_q g ms ta b e).
Proof.
  induction ms as [|m rest IH]; intros ta b e H; cbn [Search.qloop].
  - cbn. auto.
  - unfold make_rep. destruct (make g m) as [g'|]; [|apply IH; exact H].
    destruct (Inv_rep_insert e (key g') H) as (H1 & R1).
    set (e2 := set_ply (rep_insert e (key g')) (S (ply (rep_insert e (key g'))))).
    assert (H2 : Inv e2) by (eapply Inv_same; [apply sh_set_ply|exact H1]).
    pose proof (Hq g' (- b)%Z (- ta)%Z e2 H2) as R.
    destruct (rec_q g' (- b)%Z (- ta)%Z e2) as [s e3|]; [|exact I]. cbn [okq] in R. destruct R as (Q1 & Q2).
    change (ridx e2) with (ridx (rep_insert e (key g'))) in Q1. rewrite R1 in Q1.
    assert (H3 : Inv (set_ply e3 (pred (ply e3)))) by (eapply Inv_same; [apply sh_set_ply|exact Q2]).
    destruct (Inv_rep_back (set_ply e3 (pred (ply e3))) ltac:(cbn [ridx set_ply]; destruct H as (X & _); lia) H3) as (H4 & R4).
    cbn [ridx set_ply] in R4. rewrite Q1 in R4. cbn [pred] in R4.
    destruct (_ >=? b)%Z; [cbn; split; assumption|].
    pose proof (IH (if (- s >? ta)%Z then (- s)%Z else ta) b _ H4) as Y.
    destruct (qloop rec_q g rest _ b _) as [s' e5|]; [|exact I]. cbn [okq] in Y |- *. destruct Y as (Y1 & Y2). split; [congruence|exact Y2].
Qed.

Lemma quiescence_body_ok : Pq (quiescence_body rec_q).
Proof.
  intros g a b e H. unfold Search.quiescence_body.
  set (e0 := emit e _).
  assert (H0 : Inv e0) by (apply Inv_emit; [exact I|exact H]).
  destruct (Inv_maybe_poll e0 H0) as (H1 & R1). set (e1 := maybe_poll e0) in *.
  set (e2 := set_nodes e1 (N.succ (nodes e1))).
  assert (H2 : Inv e2) by (eapply Inv_same; [apply sh_set_nodes|exact H1]).
  assert (R2 : ridx e2 = ridx e) by exact R1.
  destruct (_ || _); [cbn; split; assumption|].
  destruct (_ && _); [cbn; split; assumption|].
  destruct (sort_moves g (gen g false) e2) as [ms e3] eqn:ES.
  pose proof (sh_sort_moves g (gen g false) e2) as S3. rewrite ES in S3. cbn [snd] in S3.
  pose proof (qloop_ok g ms (if (evalf g >? a)%Z then evalf g else a) b e3 (Inv_same _ _ S3 H2)) as Y.
  destruct (qloop rec_q g ms _ b e3) as [s' e5|]; [|exact I]. cbn [okq] in Y |- *. destruct Y as (Y1 & Y2). destruct S3 as (S1 & _). split; [congruence|exact Y2].
Qed.

Definition okst (e : env) : Prop := ridx e = ri /\ Inv e.

Lemma after_move_ok g depth m ta b ex searched legal next score e4 :
  (forall s l t x e', okst e' -> okl (next s l t x e')) -> okst e4 -> okl (after_move g depth m ta b ex searched legal next score e4).
Proof.
  intros HN (R4 & H4). unfold Search.after_move. cbn zeta.
  set (e5 := set_ply e4 (pred (ply e4))).
  assert (O5 : okst e5) by (split; [exact R4|eapply Inv_same; [apply sh_set_ply|exact H4]]).
  destruct (stopping e5); [exact O5|].
  destruct (score >? ta)%Z; [|apply HN; exact O5].
  set (e6 := insert_pv e5 m).
  assert (O6 : okst e6) by (destruct O5 as (A & B); split; [exact A|apply Inv_insert_pv; exact B]).
  destruct (score >=? b)%Z.
  - cbn [okl]. destruct O6 as (A & B). destruct (mv_cap m).
    + split; [exact A|]. eapply Inv_same; [apply sh_set_tbl|]. apply Inv_emit; [exact I|exact B].
    + split; [exact A|]. eapply Inv_same; [apply sh_set_tbl|]. apply Inv_emit; [exact I|]. eapply Inv_same; [apply sh_set_killers|exact B].
  - apply HN. destruct (mv_cap m); [exact O6|]. destruct O6 as (A & B). split; [exact A|eapply Inv_same; [apply sh_set_history|exact B]].
Qed.

Lemma search_move_ok g' depth nd inchk m searched ta b e3 after :
  okst e3 -> (forall s e4, okst e4 -> okl (after s e4)) -> okl (search_move g' depth nd inchk m searched ta b e3 after).
Proof.
  intros O3 HA. unfold Search.search_move.
  assert (HRt : forall d' a' b' ex, okst ex -> forall k, (forall s e4, okst e4 -> okl (k s e4)) -> okl (neg_res (rec_n g' d' a' b' ex) k)).
  { intros d' a' b' ex (A & B) k K. pose proof (Hn g' d' a' b' ex A B) as R.
    destruct (rec_n g' d' a' b' ex) as [s e4|]; cbn [neg_res]; [|exact I]. apply K. exact R. }
  destruct (Nat.eqb searched 0).
  - apply HRt; [exact O3|exact HA].
  - cbn zeta.
    assert (HP : forall s1 e', okst e' ->
      okl (if (s1 >? ta)%Z then
          neg_res (rec_n g' (nd - 1)%nat (- ta - 1)%Z (- ta)%Z e')
            (fun s2 e'' => if (s2 >? ta)%Z && (s2 <? b)%Z
                           then neg_res (rec_n g' (nd - 1)%nat (- b)%Z (- ta)%Z e'') after
                           else after s2 e'')
        else after s1 e')).
    { intros s1 e' H'. destruct (s1 >? ta)%Z; [|apply HA; exact H'].
      apply HRt; [exact H'|]. intros s2 e'' H''. destruct (_ && _); [|apply HA; exact H''].
      apply HRt; [exact H''|exact HA]. }
    destruct (_ && _ && _ && _ && _).
    + apply HRt; [exact O3|exact HP].
    + apply HP. exact O3.
Qed.

Lemma nloop_ok g depth nd inchk ms : forall searched legal ta b ex e, okst e -> okl (nloop rec_n g depth nd inchk ms searched legal ta b ex e).
Proof.
  induction ms as [|m rest IH]; intros searched legal ta b ex e (R0 & H0); cbn [Search.nloop].
  - split; assumption.
  - unfold make_rep. destruct (make g m) as [g'|].
    + set (e1 := set_ply e (S (ply e))).
      assert (H1 : Inv e1) by (eapply Inv_same; [apply sh_set_ply|exact H0]).
      destruct (Inv_rep_insert e1 (key g') H1) as (H2 & R2). change (ridx e1) with (ridx e) in R2. rewrite R0 in R2.
      destruct (Inv_rep_back (rep_insert e1 (key g')) ltac:(lia) H2) as (H3 & R3). rewrite R2 in R3. cbn [pred] in R3.
      apply search_move_ok; [split; assumption|].
      intros s e4 O4. apply after_move_ok; [|exact O4]. intros s' l t x e' O'. apply IH. exact O'.
    + apply IH. split; [exact R0|]. eapply Inv_same; [|exact H0]. eapply sh_trans; apply sh_set_ply.
Qed.

Lemma move_phase_ok g depth nd inchk a b e : okst e -> okn (move_phase g depth nd inchk a b e).
Proof.
  intros (R0 & H0). unfold Search.move_phase. cbn zeta.
  set (ms0 := gen g true).
  set (ey := if follow_pv e then enable_pv_scoring ms0 e else e).
  assert (SY : sameh e ey) by (subst ey; destruct (follow_pv e); [apply sh_enable_pv|apply sh_refl]).
  destruct (sort_moves g ms0 ey) as [ms ez] eqn:ES.
  pose proof (sh_sort_moves g ms0 ey) as SZ0. rewrite ES in SZ0. cbn [snd] in SZ0. pose proof (sh_trans _ _ _ SY SZ0) as SZ.
  assert (OZ : okst ez) by (split; [destruct SZ as (A & _); congruence|apply (Inv_same _ _ SZ H0)]).
  pose proof (nloop_ok g depth nd inchk ms 0 0 a b false ez OZ) as L.
  destruct (nloop rec_n g depth nd inchk ms 0 0 a b false ez) as [s ew|ta ew legal exa|]; cbn [okl] in L; [exact L| |exact I].
  destruct L as (L1 & L2). destruct (Nat.eqb legal 0).
  - destruct inchk; cbn [okn]; (split; [exact L1|apply Inv_emit; [exact I|exact L2]]).
  - cbn [okn]. split; [exact L1|]. eapply Inv_same; [apply sh_set_tbl|]. apply Inv_emit; [exact I|exact L2].
Qed.

Lemma negamax_body_ok : Pn (negamax_body rec_n rec_q).
Proof.
  intros g d a b e R0 H0. unfold Search.negamax_body.
  set (e0 := emit e _).
  assert (H1 : Inv e0) by (apply Inv_emit; [cbn [evok]; exact R0|exact H0]).
  assert (R1 : ridx e0 = ri) by exact R0.
  destruct (_ && rep_hit e0 (key g)).
  { cbn [okn]. split; [exact R1|]. apply Inv_emit; [exact I|]. eapply Inv_same; [apply sh_set_pv|exact H1]. }
  match goal with |- context [match ?X with Some _ => _ | None => _ end] => destruct X end.
  { cbn [okn]. split; [exact R1|]. apply Inv_emit; [exact I|]. eapply Inv_same; [apply sh_set_hits|exact H1]. }
  set (e1 := set_pv e0 _ _).
  assert (H2 : Inv e1) by (eapply Inv_same; [apply sh_set_pv|exact H1]).
  destruct (Nat.leb _ _); [cbn [okn]; split; assumption|].
  destruct (Inv_maybe_poll e1 H2) as (H3 & R3). set (e2 := maybe_poll e1) in *. change (ridx e1) with (ridx e0) in R3. rewrite R1 in R3.
  destruct (_ || _).
  { pose proof (Hq g a b e2 H3) as R. destruct (rec_q g a b e2) as [s e'|]; [|exact I]. cbn [okq] in R. cbn [okn]. destruct R as (Q1 & Q2). split; [congruence|exact Q2]. }
  set (e3 := set_nodes e2 _).
  assert (O3 : okst e3) by (split; [exact R3|eapply Inv_same; [apply sh_set_nodes|exact H3]]).
  destruct (_ && _ && _).
  - set (e4 := set_ply e3 (S (ply e3))).
    assert (O4 : okst e4) by (destruct O3 as (A & B); split; [exact A|eapply Inv_same; [apply sh_set_ply|exact B]]).
    destruct O4 as (A4 & B4).
    pose proof (Hn (null g) ((if in_check g then S d else d) - 3)%nat (- b)%Z (- b + 1)%Z e4 A4 B4) as R.
    destruct (rec_n (null g) _ _ _ e4) as [s e5|]; [|exact I]. cbn [okn] in R. destruct R as (A5 & B5).
    set (e6 := set_ply e5 (pred (ply e5))).
    assert (O6 : okst e6) by (split; [exact A5|eapply Inv_same; [apply sh_set_ply|exact B5]]).
    destruct (stopping e6); [exact O6|]. destruct (_ >=? b)%Z; [exact O6|]. apply move_phase_ok. exact O6.
  - apply move_phase_ok. exact O3.
Qed.
End BodyLemmas.

Theorem search_history_inv : forall fuel, Pn (negamax fuel) /\ Pq (quiescence fuel).
Proof.
  induction fuel as [|fu [IHn IHq]].
  - split; [intros g d a b e H H'|intros g a b e H]; exact I.
  - split.
    + apply negamax_body_ok; assumption.
    + apply quiescence_body_ok; assumption.
Qed.

Notation id_loop := (id_loop gen make null evalf in_check key half100 mv_eqb mv_cap mv_promo mv_hidx cap_score null_mv legalb pollp stop_at tt_bypass).
Notation search := (search gen make null evalf in_check key half100 mv_eqb mv_cap mv_promo mv_hidx cap_score null_mv legalb pollp stop_at tt_bypass).

Definition sres_ok (r : sres pos move) : Prop := match r with SDone _ e' _ => okst e' | SFuel => True end.
Lemma id_loop_ok iters : forall g cur maxd a b sc e outs, okst e -> sres_ok (id_loop iters g cur maxd a b sc e outs).
Proof.
  induction iters as [|it IH]; intros g cur maxd a b sc e outs (R0 & H0); cbn [Search.id_loop].
  - split; assumption.
  - destruct (Nat.ltb maxd cur); [split; assumption|].
    set (e0 := set_flags e true (score_pv e)).
    pose proof (proj1 (search_history_inv FUEL) g cur a b e0 R0 (Inv_same _ _ (sh_set_flags e true (score_pv e)) H0)) as R.
    destruct (negamax FUEL g cur a b e0) as [s e1|]; [|exact I]. cbn [okn] in R.
    destruct (stopping e1); [exact R|]. destruct (_ || _); apply IH; exact R.
Qed.
End Hist.
Notation id_loop := (id_loop gen make null evalf in_check key half100 mv_eqb mv_cap mv_promo mv_hidx cap_score null_mv legalb pollp stop_at tt_bypass).
Notation search := (search gen make null evalf in_check key half100 mv_eqb mv_cap mv_promo mv_hidx cap_score null_mv legalb pollp stop_at tt_bypass).

(* the whole search: every node of the main search carries the root's repetition index, and the recorded game history (the first ri
   slots of the table) is the same at the end as at the start -- hence at every such node the repetition test compares the node's
   own key with exactly the game history *)
Theorem search_history g depth t rt ri :
  match search g depth t rt ri with
  | SDone _ e _ =>
    Forall (fun ev => match ev with ENode false _ _ _ _ _ _ _ r _ => r = ri | _ => True end) (trace e) /\ firstn ri (rtab e) = firstn ri rt /\ ridx e = ri
  | SFuel => True
  end.
Proof.
  unfold Search.search.
  pose proof (id_loop_ok ri (firstn ri rt) (S (max_depth_of depth)) g 1 (max_depth_of depth) (- INFINITY)%Z INFINITY 0%Z
                (@init_env pos move null_mv t rt ri) []) as H.
  assert (O0 : okst ri (firstn ri rt) (@init_env pos move null_mv t rt ri)) by (split; [reflexivity|]; split; [cbn; lia|]; split; [reflexivity|constructor]).
  specialize (H O0).
  destruct (id_loop _ g 1 _ _ _ _ _ []) as [outs e s|]; [|exact I]. cbn [sres_ok] in H. destruct H as (A & _ & B & C). repeat split; assumption.
Qed.

End Frame.
