(* C04, the incremental half: make_search_move keeps the incrementally maintained key equal to the from-scratch key,
   for every position and every move that fits the position (move_fits: the moved man stands on the from-square, the
   squares the move sets are clear, the men it removes are there -- decidable, and proved for every generated move of a
   consistent position in Proofs/GenProofs.v). *)
From Coq Require Import NArith ZArith List Bool Lia Permutation.
From JV Require Import Gen.Consts Model.Bits Model.Chess Model.Abs Proofs.BitboardProofs Proofs.MoveGenProofs Proofs.ZobristProofs.
Import ListNotations.
Local Open Scope N_scope.

(* ---- the board part of the from-scratch key ---- *)
Definition pfold (bs : list N) (idxs : list N) (h : N) : N :=
  fold_left (fun h p => xfold (piece_key p) (bits_of (nthN bs p)) h) idxs h.
Definition PIECES : list N := [0;1;2;3;4;5;6;7;8;9;10;11].
Definition BH (bs : list N) : N := pfold bs PIECES 0.
Definition F (p b : N) : N := xfold (piece_key p) (bits_of b) 0.

Lemma pfold_acc bs idxs : forall h, pfold bs idxs h = N.lxor h (pfold bs idxs 0).
Proof.
  induction idxs as [|p r IH]; intros h; cbn [pfold fold_left].
  - rewrite N.lxor_0_r. reflexivity.
  - fold (pfold bs r (xfold (piece_key p) (bits_of (nthN bs p)) h)). fold (pfold bs r (xfold (piece_key p) (bits_of (nthN bs p)) 0)).
    rewrite IH. rewrite (IH (xfold _ _ 0)). rewrite (xfold_acc _ _ h). rewrite N.lxor_assoc. reflexivity.
Qed.

Lemma nthN_upd_other l i j v : i <> j -> nthN (upd l i v) j = nthN l j.
Proof. intros NE. unfold nthN, upd. apply upd_nth_other. intros E. apply NE. apply N2Nat.inj. exact E. Qed.

Lemma pfold_upd_notin bs idxs q v : ~ In q idxs -> forall h, pfold (upd bs q v) idxs h = pfold bs idxs h.
Proof.
  induction idxs as [|p r IH]; intros NI h; cbn [pfold fold_left]; [reflexivity|].
  fold (pfold (upd bs q v) r (xfold (piece_key p) (bits_of (nthN (upd bs q v) p)) h)).
  fold (pfold bs r (xfold (piece_key p) (bits_of (nthN bs p)) h)).
  rewrite nthN_upd_other by (intros ->; apply NI; left; reflexivity).
  apply IH. intros H. apply NI. right. exact H.
Qed.

Lemma pfold_upd_in bs idxs q v : NoDup idxs -> In q idxs -> (N.to_nat q < length bs)%nat -> forall h,
  pfold (upd bs q v) idxs h = N.lxor (N.lxor (pfold bs idxs h) (F q (nthN bs q))) (F q v).
Proof.
  induction idxs as [|p r IH]; intros ND HI L h; [destruct HI|].
  cbn [pfold fold_left].
  fold (pfold (upd bs q v) r (xfold (piece_key p) (bits_of (nthN (upd bs q v) p)) h)).
  fold (pfold bs r (xfold (piece_key p) (bits_of (nthN bs p)) h)).
  inversion ND as [|? ? NI ND']; subst.
  destruct HI as [->|HI].
  - rewrite nthN_upd_same by exact L. rewrite pfold_upd_notin by exact NI.
    rewrite pfold_acc. rewrite (pfold_acc bs r (xfold _ _ h)).
    rewrite (xfold_acc _ (bits_of v) h). rewrite (xfold_acc _ (bits_of (nthN bs q)) h). unfold F.
    set (A := xfold (piece_key q) (bits_of v) 0). set (B := xfold (piece_key q) (bits_of (nthN bs q)) 0). set (C := pfold bs r 0).
    xor_solve.
  - assert (NE : q <> p) by (intros ->; contradiction).
    rewrite nthN_upd_other by exact NE. apply IH; assumption.
Qed.

Lemma PIECES_nodup : NoDup PIECES.
Proof. unfold PIECES. repeat constructor; cbn; intuition discriminate. Qed.
Lemma PIECES_in p : p < 12 -> In p PIECES.
Proof.
  intros H. unfold PIECES. cbn.
  destruct (N.eq_dec p 0); [auto|]. destruct (N.eq_dec p 1); [auto|]. destruct (N.eq_dec p 2); [auto 10|].
  destruct (N.eq_dec p 3); [auto 10|]. destruct (N.eq_dec p 4); [auto 10|]. destruct (N.eq_dec p 5); [auto 10|].
  destruct (N.eq_dec p 6); [auto 10|]. destruct (N.eq_dec p 7); [auto 10|]. destruct (N.eq_dec p 8); [auto 12|].
  destruct (N.eq_dec p 9); [auto 12|]. destruct (N.eq_dec p 10); [auto 13|]. destruct (N.eq_dec p 11); [auto 14|]. lia.
Qed.

(* one paired step: toggling a bit of board p and xoring its key keeps  h = BH bs xor R *)
Lemma J_unset bs p sq h R : length bs = 12%nat -> p < 12 -> N.testbit (nthN bs p) sq = true ->
  h = N.lxor (BH bs) R -> N.lxor h (piece_key p sq) = N.lxor (BH (upd bs p (unset_bit (nthN bs p) sq))) R.
Proof.
  intros L P T ->. unfold BH. rewrite pfold_upd_in; [|apply PIECES_nodup|apply PIECES_in; exact P|rewrite L; lia].
  unfold F. rewrite (xfold_unset _ _ _ 0 T).
  set (A := pfold bs PIECES 0). set (B := xfold (piece_key p) (bits_of (nthN bs p)) 0). set (K := piece_key p sq). xor_solve.
Qed.
Lemma J_set bs p sq h R : length bs = 12%nat -> p < 12 -> N.testbit (nthN bs p) sq = false ->
  h = N.lxor (BH bs) R -> N.lxor h (piece_key p sq) = N.lxor (BH (upd bs p (set_bit (nthN bs p) sq))) R.
Proof.
  intros L P T ->. unfold BH. rewrite pfold_upd_in; [|apply PIECES_nodup|apply PIECES_in; exact P|rewrite L; lia].
  unfold F. rewrite (xfold_set _ _ _ 0 T).
  set (A := pfold bs PIECES 0). set (B := xfold (piece_key p) (bits_of (nthN bs p)) 0). set (K := piece_key p sq). xor_solve.
Qed.

Lemma upd_length l i v : length (upd l i v) = length l.
Proof. apply upd_nth_length. Qed.

(* removing the first victim found on the target square is a paired step whatever the position *)
Lemma J_remove_first ps : forall bs sq h R, length bs = 12%nat -> Forall (fun p => p < 12) ps -> h = N.lxor (BH bs) R ->
  let '(bs', v) := remove_first bs ps sq in
  length bs' = 12%nat /\ (match v with Some x => N.lxor h (piece_key x sq) | None => h end) = N.lxor (BH bs') R /\
  (forall q, ~ In q ps -> nthN bs' q = nthN bs q).
Proof.
  induction ps as [|p r IH]; intros bs sq h R L FA J; cbn [remove_first].
  - repeat split; auto.
  - pose proof (Forall_inv FA) as P. pose proof (Forall_inv_tail FA) as FA'. cbn beta in P. unfold get_bit. destruct (N.testbit (nthN bs p) sq) eqn:T.
    + split; [rewrite upd_length; exact L|]. split; [apply J_unset; auto|].
      intros q NI. apply nthN_upd_other. intros ->. apply NI. left. reflexivity.
    + specialize (IH bs sq h R L FA' J). destruct (remove_first bs r sq) as [bs' v]. destruct IH as (I1 & I2 & I3).
      repeat split; auto. intros q NI. apply I3. intros H. apply NI. right. exact H.
Qed.

(* the from-scratch key in terms of BH *)
Lemma zobrist_BH g : make_zobrist_hash g =
  (let h := N.lxor (BH (bbs g)) (castle_key (castling g)) in
   let h := if white g then h else N.lxor h SIDE_KEY in
   if ep g =? NOSQ then h else N.lxor h (ep_key (ep g))).
Proof. reflexivity. Qed.

Lemma victims_lt w : Forall (fun p => p < 12) (victims w).
Proof. destruct w; cbn; repeat constructor. Qed.

(* ---- make_search_move cut into its stages (definitionally the same function) ---- *)
Definition tup := (list N * N * N * N * N)%type.
Definition stage_cap (g : game) (m : move) (bs : list N) (ao h : N) : tup :=
  let t := mto m in let w := white g in let wo := wocc g in let bo := bocc g in
  if mcap m then
    if mep m then
      if w then (upd bs BP (unset_bit (nthN bs BP) (t + 8)), wo, unset_bit bo (t + 8), unset_bit ao (t + 8), N.lxor h (piece_key BP (t + 8)))
      else (upd bs WP (unset_bit (nthN bs WP) (t - 8)), unset_bit wo (t - 8), bo, unset_bit ao (t - 8), N.lxor h (piece_key WP (t - 8)))
    else
      let '(bs', victim) := remove_first bs (victims w) t in
      let h := match victim with Some v => N.lxor h (piece_key v t) | None => h end in
      if w then (bs', wo, unset_bit bo t, ao, h) else (bs', unset_bit wo t, bo, ao, h)
  else (bs, wo, bo, ao, h).

Definition stage_special (m : move) (bs : list N) (wo bo ao h : N) : option tup :=
  let t := mto m in let p := mpiece m in
  if negb (mpromo m =? NOPIECE) then
    let bs := upd bs (mpromo m) (set_bit (nthN bs (mpromo m)) t) in
    let bs := upd bs p (unset_bit (nthN bs p) t) in
    Some (bs, wo, bo, ao, N.lxor (N.lxor h (piece_key p t)) (piece_key (mpromo m) t))
  else if mcastle m then
    let hop (rk a b : N) (white_side : bool) :=
      let bs := upd bs rk (set_bit (nthN bs rk) a) in
      let bs := upd bs rk (unset_bit (nthN bs rk) b) in
      let h := N.lxor (N.lxor h (piece_key rk a)) (piece_key rk b) in
      if white_side then Some (bs, unset_bit (set_bit wo a) b, bo, unset_bit (set_bit ao a) b, h)
      else Some (bs, wo, unset_bit (set_bit bo a) b, unset_bit (set_bit ao a) b, h) in
    if t =? 62 then hop WR 61 63 true
    else if t =? 58 then hop WR 59 56 true
    else if t =? 6 then hop BR 5 7 false
    else if t =? 2 then hop BR 3 0 false
    else None
  else Some (bs, wo, bo, ao, h).

Definition make_staged (g : game) (m : move) : mres :=
  let f := mfrom m in let t := mto m in let p := mpiece m in
  let w := white g in
  let h := hash g in
  let h := if ep g =? NOSQ then h else N.lxor h (ep_key (ep g)) in
  let h := N.lxor h (castle_key (castling g)) in
  let bs := upd (bbs g) p (unset_bit (bb g p) f) in
  let h := N.lxor h (piece_key p f) in
  let bs := upd bs p (set_bit (nthN bs p) t) in
  let h := N.lxor h (piece_key p t) in
  let ao := set_bit (unset_bit (aocc g) f) t in
  let '(bs, wo, bo, ao, h) := stage_cap g m bs ao h in
  if in_check_raw bs ao w then Illegal else
  let '(wo, bo) := if w then (set_bit (unset_bit wo f) t, bo) else (wo, set_bit (unset_bit bo f) t) in
  let hm := if (p =? WP) || (p =? BP) || mcap m then 0 else (half g + 1) mod 256 in
  match stage_special m bs wo bo ao h with
  | None => MPanic
  | Some (bs, wo, bo, ao, h) =>
    let '(e, h) := if mdp m then (if w then (t + 8, N.lxor h (ep_key (t + 8))) else (t - 8, N.lxor h (ep_key (t - 8))))
                   else (NOSQ, h) in
    let c := N.land (castling g) (N.land (nthN CASTLING_RIGHTS t) (nthN CASTLING_RIGHTS f)) in
    let h := N.lxor h (castle_key c) in
    let fm := if w then full g else (full g + 1) mod 65536 in
    Made (mkGame bs wo bo ao (negb w) e c hm fm (N.lxor h SIDE_KEY))
  end.

Lemma make_staged_eq g m : make_search_move g m = make_staged g m.
Proof. reflexivity. Qed.

Lemma stage_cap_J g m bs ao h R : length bs = 12%nat -> h = N.lxor (BH bs) R ->
  (mcap m && mep m = true -> N.testbit (nthN bs (if white g then BP else WP)) (if white g then mto m + 8 else mto m - 8) = true) ->
  let '(bs', _, _, _, h') := stage_cap g m bs ao h in
  length bs' = 12%nat /\ h' = N.lxor (BH bs') R /\
  (forall q, (mcap m = false \/ (mep m = true /\ q <> (if white g then BP else WP)) \/ (mep m = false /\ ~ In q (victims (white g)))) ->
             nthN bs' q = nthN bs q).
Proof.
  intros L J PRE. unfold stage_cap. cbn zeta.
  destruct (mcap m) eqn:CAP; cbn [andb] in PRE.
  - destruct (mep m) eqn:EP.
    + specialize (PRE eq_refl). destruct (white g).
      * split; [rewrite upd_length; exact L|]. split; [apply J_unset; auto; reflexivity|].
        intros q [X|[[_ X]|[X _]]]; try discriminate. apply nthN_upd_other. congruence.
      * split; [rewrite upd_length; exact L|]. split; [apply J_unset; auto; reflexivity|].
        intros q [X|[[_ X]|[X _]]]; try discriminate. apply nthN_upd_other. congruence.
    + pose proof (J_remove_first (victims (white g)) bs (mto m) h R L (victims_lt _) J) as RF.
      destruct (remove_first bs (victims (white g)) (mto m)) as [bs' victim]. destruct RF as (R1 & R2 & R3).
      destruct (white g); (split; [exact R1|]); (split; [exact R2|]);
        intros q [X|[[X _]|[_ X]]]; try discriminate; apply R3; exact X.
  - split; [exact L|]. split; [exact J|]. intros q _. reflexivity.
Qed.

Definition hop_fits (bs : list N) (p rk a b : N) : bool := negb (p =? rk) && nb (nthN bs rk) a && N.testbit (nthN bs rk) b.
Definition special_fits (m : move) (bs : list N) : bool :=
  let t := mto m in let p := mpiece m in
  if negb (mpromo m =? NOPIECE) then
    (mpromo m <? 12) && (p <? 12) && negb (mpromo m =? p) && nb (nthN bs (mpromo m)) t && N.testbit (nthN bs p) t
  else if mcastle m then
    if t =? 62 then hop_fits bs p WR 61 63 else if t =? 58 then hop_fits bs p WR 59 56
    else if t =? 6 then hop_fits bs p BR 5 7 else if t =? 2 then hop_fits bs p BR 3 0 else true
  else true.

Lemma hop_J bs p rk a b h R : length bs = 12%nat -> rk < 12 -> a <> b -> h = N.lxor (BH bs) R -> hop_fits bs p rk a b = true ->
  length (upd (upd bs rk (set_bit (nthN bs rk) a)) rk (unset_bit (nthN (upd bs rk (set_bit (nthN bs rk) a)) rk) b)) = 12%nat /\
  N.lxor (N.lxor h (piece_key rk a)) (piece_key rk b) =
  N.lxor (BH (upd (upd bs rk (set_bit (nthN bs rk) a)) rk (unset_bit (nthN (upd bs rk (set_bit (nthN bs rk) a)) rk) b))) R.
Proof.
  intros L RK AB J FIT. unfold hop_fits in FIT. apply andb_true_iff in FIT. destruct FIT as [FIT Tb].
  apply andb_true_iff in FIT. destruct FIT as [_ Ta]. apply negb_true_iff in Ta.
  split; [rewrite !upd_length; exact L|].
  apply J_unset; [rewrite upd_length; exact L|exact RK| |apply J_set; auto].
  rewrite nthN_upd_same by (rewrite L; lia). rewrite testbit_set_bit. rewrite Tb. reflexivity.
Qed.

Lemma stage_special_J m bs wo bo ao h R : length bs = 12%nat -> h = N.lxor (BH bs) R -> special_fits m bs = true ->
  match stage_special m bs wo bo ao h with
  | None => True
  | Some (bs', _, _, _, h') => length bs' = 12%nat /\ h' = N.lxor (BH bs') R
  end.
Proof.
  intros L J FIT. unfold stage_special, special_fits in *. cbn zeta in *.
  destruct (negb (mpromo m =? NOPIECE)).
  - apply andb_true_iff in FIT. destruct FIT as [FIT Tp]. apply andb_true_iff in FIT. destruct FIT as [FIT Tq].
    apply andb_true_iff in FIT. destruct FIT as [FIT NE]. apply andb_true_iff in FIT. destruct FIT as [Pq Pp].
    apply N.ltb_lt in Pq. apply N.ltb_lt in Pp. apply negb_true_iff in Tq. apply negb_true_iff, N.eqb_neq in NE.
    split; [rewrite !upd_length; exact L|].
    set (bs1 := upd bs (mpromo m) (set_bit (nthN bs (mpromo m)) (mto m))).
    assert (J1 : N.lxor h (piece_key (mpromo m) (mto m)) = N.lxor (BH bs1) R) by (apply J_set; auto).
    assert (T1 : N.testbit (nthN bs1 (mpiece m)) (mto m) = true) by (subst bs1; rewrite nthN_upd_other by congruence; exact Tp).
    pose proof (J_unset bs1 (mpiece m) (mto m) _ R ltac:(subst bs1; rewrite upd_length; exact L) Pp T1 J1) as J2.
    rewrite <- J2. set (A := piece_key (mpiece m) (mto m)). set (B := piece_key (mpromo m) (mto m)). xor_solve.
  - destruct (mcastle m); [|split; assumption].
    destruct (mto m =? 62); [destruct (hop_J bs (mpiece m) WR 61 63 h R L ltac:(reflexivity) ltac:(discriminate) J FIT); split; assumption|].
    destruct (mto m =? 58); [destruct (hop_J bs (mpiece m) WR 59 56 h R L ltac:(reflexivity) ltac:(discriminate) J FIT); split; assumption|].
    destruct (mto m =? 6); [destruct (hop_J bs (mpiece m) BR 5 7 h R L ltac:(reflexivity) ltac:(discriminate) J FIT); split; assumption|].
    destruct (mto m =? 2); [destruct (hop_J bs (mpiece m) BR 3 0 h R L ltac:(reflexivity) ltac:(discriminate) J FIT); split; assumption|].
    exact I.
Qed.

Theorem make_keyok g m g' : length (bbs g) = 12%nat -> keyok g -> move_fits g m = true ->
  make_search_move g m = Made g' -> keyok g' /\ length (bbs g') = 12%nat.
Proof.
  intros L K FIT H. rewrite make_staged_eq in H.
  unfold move_fits in FIT. cbn zeta in FIT.
  apply andb_true_iff in FIT. destruct FIT as [FIT Fdp].
  apply andb_true_iff in FIT. destruct FIT as [FIT Fsp].
  apply andb_true_iff in FIT. destruct FIT as [FIT Fep].
  apply andb_true_iff in FIT. destruct FIT as [FIT Ft].
  apply andb_true_iff in FIT. destruct FIT as [Fp Ff].
  apply N.ltb_lt in Fp.
  set (p := mpiece m) in *. set (f := mfrom m) in *. set (t := mto m) in *.
  set (R0 := if white g then 0 else SIDE_KEY).
  set (h0 := N.lxor (if ep g =? NOSQ then hash g else N.lxor (hash g) (ep_key (ep g))) (castle_key (castling g))).
  assert (J0 : h0 = N.lxor (BH (bbs g)) R0).
  { subst h0. unfold keyok in K. rewrite K, zobrist_BH. cbn zeta. subst R0.
    set (B := BH (bbs g)). set (C := castle_key (castling g)). set (E := ep_key (ep g)).
    destruct (ep g =? NOSQ); destruct (white g); rewrite ?N.lxor_0_r; xor_solve. }
  set (bs1 := upd (bbs g) p (unset_bit (bb g p) f)).
  assert (J1 : N.lxor h0 (piece_key p f) = N.lxor (BH bs1) R0) by (apply J_unset; auto).
  assert (L1 : length bs1 = 12%nat) by (subst bs1; rewrite upd_length; exact L).
  assert (T1 : N.testbit (nthN bs1 p) t = false).
  { subst bs1. rewrite nthN_upd_same by (rewrite L; lia). rewrite testbit_unset_bit. unfold nb, bb in *.
    apply orb_true_iff in Ft. destruct Ft as [Ft|Ft]; [apply negb_true_iff in Ft; rewrite Ft; reflexivity|].
    rewrite Ft. cbn. apply andb_false_r. }
  set (bs2 := upd bs1 p (set_bit (nthN bs1 p) t)).
  pose proof (J_set bs1 p t _ R0 L1 Fp T1 J1) as J2. fold bs2 in J2.
  assert (L2 : length bs2 = 12%nat) by (subst bs2; rewrite upd_length; exact L1).
  assert (O2 : forall q, q <> p -> nthN bs2 q = bb g q).
  { intros q NE. subst bs2 bs1. rewrite !nthN_upd_other by congruence. reflexivity. }
  assert (P2 : N.testbit (nthN bs2 p) t = true).
  { subst bs2. rewrite nthN_upd_same by (rewrite L1; lia). rewrite testbit_set_bit, N.eqb_refl. apply orb_true_r. }
  set (h2 := N.lxor (N.lxor h0 (piece_key p f)) (piece_key p t)) in *.
  unfold make_staged in H. cbn zeta in H. fold p f t in H. fold (bb g p) in H. fold h0 bs1 in H. fold bs2 h2 in H.
  (* capture stage *)
  pose proof (stage_cap_J g m bs2 (set_bit (unset_bit (aocc g) f) t) h2 R0 L2 J2) as SC.
  assert (PRE : mcap m && mep m = true ->
                N.testbit (nthN bs2 (if white g then BP else WP)) (if white g then mto m + 8 else mto m - 8) = true).
  { intros X. rewrite X in Fep. fold t.
    destruct (white g); apply andb_true_iff in Fep; destruct Fep as [NE Tv]; apply negb_true_iff, N.eqb_neq in NE;
      rewrite O2 by congruence; exact Tv. }
  specialize (SC PRE).
  destruct (stage_cap g m bs2 (set_bit (unset_bit (aocc g) f) t) h2) as [[[[bs3 wo3] bo3] ao3] h3].
  destruct SC as (L3 & J3 & O3).
  destruct (in_check_raw bs3 ao3 (white g)); [discriminate|].
  (* special stage *)
  assert (SF : special_fits m bs3 = true).
  { unfold special_fits. cbn zeta. fold p t.
    destruct (negb (mpromo m =? NOPIECE)) eqn:PR.
    - apply andb_true_iff in Fsp. destruct Fsp as [Fsp FV]. apply andb_true_iff in Fsp. destruct Fsp as [Fsp NEP].
      apply andb_true_iff in Fsp. destruct Fsp as [Fsp Tq]. apply andb_true_iff in Fsp. destruct Fsp as [Pq NE].
      rewrite Pq. assert (X : (p <? 12) = true) by (apply N.ltb_lt; exact Fp). rewrite X. rewrite NE. cbn [andb].
      rewrite forallb_forall in FV.
      assert (NVq : ~ In (mpromo m) (victims (white g))).
      { intros HI. specialize (FV _ HI). rewrite N.eqb_refl in FV. discriminate. }
      assert (NVp : ~ In p (victims (white g))).
      { intros HI. specialize (FV _ HI). rewrite N.eqb_refl in FV. rewrite andb_false_r in FV. discriminate. }
      apply negb_true_iff in NEP. apply negb_true_iff, N.eqb_neq in NE.
      assert (FR : forall q, ~ In q (victims (white g)) -> nthN bs3 q = nthN bs2 q).
      { intros q NI. apply O3. destruct (mcap m); [|left; reflexivity]. cbn [andb] in NEP. right. right. split; assumption. }
      rewrite (FR _ NVq), (FR _ NVp). rewrite O2 by exact NE. rewrite Tq, P2. reflexivity.
    - destruct (mcastle m); [|reflexivity].
      apply andb_true_iff in Fsp. destruct Fsp as [NC Fsp]. apply negb_true_iff in NC.
      assert (FR : forall q, nthN bs3 q = nthN bs2 q) by (intros q; apply O3; left; exact NC).
      unfold hop_fits. rewrite !FR.
      destruct (t =? 62); [apply andb_true_iff in Fsp; destruct Fsp as [Fsp T2]; apply andb_true_iff in Fsp; destruct Fsp as [NE T1'];
        rewrite NE; apply negb_true_iff, N.eqb_neq in NE; rewrite O2 by congruence; rewrite T1', T2; reflexivity|].
      destruct (t =? 58); [apply andb_true_iff in Fsp; destruct Fsp as [Fsp T2]; apply andb_true_iff in Fsp; destruct Fsp as [NE T1'];
        rewrite NE; apply negb_true_iff, N.eqb_neq in NE; rewrite O2 by congruence; rewrite T1', T2; reflexivity|].
      destruct (t =? 6); [apply andb_true_iff in Fsp; destruct Fsp as [Fsp T2]; apply andb_true_iff in Fsp; destruct Fsp as [NE T1'];
        rewrite NE; apply negb_true_iff, N.eqb_neq in NE; rewrite O2 by congruence; rewrite T1', T2; reflexivity|].
      destruct (t =? 2); [apply andb_true_iff in Fsp; destruct Fsp as [Fsp T2]; apply andb_true_iff in Fsp; destruct Fsp as [NE T1'];
        rewrite NE; apply negb_true_iff, N.eqb_neq in NE; rewrite O2 by congruence; rewrite T1', T2; reflexivity|].
      reflexivity. }
  assert (SS : forall wo bo, match stage_special m bs3 wo bo ao3 h3 with
                             | None => True
                             | Some (bs', _, _, _, h') => length bs' = 12%nat /\ h' = N.lxor (BH bs') R0 end)
    by (intros wo bo; apply stage_special_J; assumption).
  (* the tail: en-passant square, rights, side *)
  assert (FIN : forall bs4 wo bo ao4 h4, length bs4 = 12%nat -> h4 = N.lxor (BH bs4) R0 ->
                (let '(e, h) := if mdp m then (if white g then (t + 8, N.lxor h4 (ep_key (t + 8))) else (t - 8, N.lxor h4 (ep_key (t - 8)))) else (NOSQ, h4) in
                 Made (mkGame bs4 wo bo ao4 (negb (white g)) e (N.land (castling g) (N.land (nthN CASTLING_RIGHTS t) (nthN CASTLING_RIGHTS f)))
                        (if (p =? WP) || (p =? BP) || mcap m then 0 else (half g + 1) mod 256)
                        (if white g then full g else (full g + 1) mod 65536)
                        (N.lxor (N.lxor h (castle_key (N.land (castling g) (N.land (nthN CASTLING_RIGHTS t) (nthN CASTLING_RIGHTS f))))) SIDE_KEY))) = Made g' ->
                keyok g' /\ length (bbs g') = 12%nat).
  { intros bs4 wo bo ao4 h4 L4 J4 E.
    set (c := N.land (castling g) (N.land (nthN CASTLING_RIGHTS t) (nthN CASTLING_RIGHTS f))) in *.
    destruct (mdp m).
    - destruct (white g) eqn:W; cbn [negb] in *; apply negb_true_iff in Fdp; injection E as <-; (split; [|exact L4]);
        unfold keyok; cbn [hash]; rewrite zobrist_BH; cbn [bbs castling white ep]; cbn zeta; rewrite Fdp; rewrite J4; subst R0;
        rewrite ?N.lxor_0_r;
        [set (E := ep_key (t + 8))|set (E := ep_key (t - 8))]; set (B := BH bs4); set (C := castle_key c); xor_solve.
    - injection E as <-. split; [|exact L4]. unfold keyok. cbn [hash]. rewrite zobrist_BH. cbn [bbs castling white ep]. cbn zeta.
      change (NOSQ =? NOSQ) with true. cbn iota. rewrite J4. subst R0.
      set (B := BH bs4). set (C := castle_key c). destruct (white g); cbn [negb]; rewrite ?N.lxor_0_r; xor_solve. }
  clearbody R0 h0.
  destruct (white g) eqn:W; cbn iota in H.
  - match type of H with context [stage_special m bs3 ?wo ?bo ao3 h3] =>
      specialize (SS wo bo); destruct (stage_special m bs3 wo bo ao3 h3) as [[[[[bs4 wo4] bo4] ao4] h4]|] end; [|discriminate].
    destruct SS as (L4 & J4). eapply FIN; [exact L4|exact J4|]. rewrite ?W. exact H.
  - match type of H with context [stage_special m bs3 ?wo ?bo ao3 h3] =>
      specialize (SS wo bo); destruct (stage_special m bs3 wo bo ao3 h3) as [[[[[bs4 wo4] bo4] ao4] h4]|] end; [|discriminate].
    destruct SS as (L4 & J4). eapply FIN; [exact L4|exact J4|]. rewrite ?W. exact H.
Qed.
Print Assumptions make_keyok.
