(* C06 for whole searches: the node events of every iteration of search() -- the ghost trace of the final environment -- are all
   reachable from the root (lift of Proofs/SearchNodes.v through the iterative-deepening loop). *)
From Coq Require Import NArith ZArith List Bool Lia.
From JV Require Import Gen.Consts Model.TT Model.Search Proofs.SearchNodes.
Import ListNotations.

Section All.
Variables (pos move : Type).
Variable gen : pos -> bool -> list move.
Variable make : pos -> move -> option pos.
Variable null : pos -> pos.
Variable evalf : pos -> Z.
Variable in_check : pos -> bool.
Variable key : pos -> N.
Variable half100 : pos -> bool.
Variable mv_eqb : move -> move -> bool.
Variable mv_cap : move -> bool.
Variable mv_promo : move -> bool.
Variable mv_hidx : move -> nat.
Variable cap_score : pos -> move -> Z.
Variable null_mv : move.
Variable legalb : pos -> move -> bool.
Variable pollp : N -> bool.
Variable stop_at : nat -> bool.
Variable tt_bypass : bool.

Notation env := (env pos move).
Notation negamax := (negamax gen make null evalf in_check key half100 mv_eqb mv_cap mv_promo mv_hidx cap_score null_mv pollp stop_at tt_bypass).
Notation id_loop := (id_loop gen make null evalf in_check key half100 mv_eqb mv_cap mv_promo mv_hidx cap_score null_mv legalb pollp stop_at tt_bypass).
Notation search := (search gen make null evalf in_check key half100 mv_eqb mv_cap mv_promo mv_hidx cap_score null_mv legalb pollp stop_at tt_bypass).
Notation TraceOk := (TraceOk pos move gen make null in_check).

Lemma id_loop_nodes iters : forall g cur maxd a b sc (e : env) outs, TraceOk g e ->
  match id_loop iters g cur maxd a b sc e outs with SDone _ e' _ => TraceOk g e' | SFuel => True end.
Proof.
  induction iters as [|it IH]; intros g cur maxd a b sc e outs T; cbn [Search.id_loop].
  - exact T.
  - destruct (Nat.ltb maxd cur); [exact T|].
    assert (T0 : TraceOk g (set_flags e true (score_pv e))) by exact T.
    pose proof (proj1 (search_nodes pos move gen make null evalf in_check key half100 mv_eqb mv_cap mv_promo mv_hidx cap_score null_mv pollp stop_at tt_bypass g FUEL)
                  g cur a b _ (reach_root _ _ _ _ _ _ _) T0) as N.
    destruct (negamax FUEL g cur a b (set_flags e true (score_pv e))) as [s e1|]; [|exact I].
    destruct (stopping e1); [exact N|]. destruct (_ || _); apply IH; exact N.
Qed.

Theorem search_all_nodes g depth t rt ri :
  match search g depth t rt ri with SDone _ e _ => TraceOk g e | SFuel => True end.
Proof. unfold Search.search. apply id_loop_nodes. unfold SearchNodes.TraceOk, init_env. cbn. constructor. Qed.
End All.
