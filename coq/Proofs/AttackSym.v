(* Attack symmetry: if a man of kind K standing on f attacks t (for the given occupancy), a man of kind K standing on t would
   attack f -- sliders by a generic characterisation of `walk` plus a finite (kernel-evaluated) check of the ray geometry,
   leapers and pawns by finite checks over all 64 x 64 square pairs. *)
From Coq Require Import NArith ZArith List Bool Lia.
From JV Require Import Spec.Rays Model.Bits Model.Chess Proofs.BitboardProofs.
Import ListNotations.
Local Open Scope N_scope.

Definition tbb (b s : N) : bool := N.testbit b s.

(* t is reached along the list before the first occupied square (inclusive) *)
Fixpoint reachl (sqs : list N) (occ : N) (t : N) : bool :=
  match sqs with
  | [] => false
  | x :: r => (x =? t) || (negb (N.testbit occ x) && reachl r occ t)
  end.

Lemma testbit_shiftl1 x s : N.testbit (N.shiftl 1 x) s = (x =? s).
Proof. exact (testbit_bit x s). Qed.

Lemma walk_reach sqs occ t : N.testbit (walk sqs occ) t = reachl sqs occ t.
Proof.
  induction sqs as [|x r IH]; cbn [walk reachl]; [apply N.bits_0|].
  rewrite N.lor_spec, testbit_shiftl1. destruct (N.testbit occ x); cbn [negb andb].
  - rewrite N.bits_0. reflexivity.
  - rewrite IH. reflexivity.
Qed.

Definition rayl (sq : N) (d : Z * Z) : list N := ray 7 (row_of sq) (col_of sq) (fst d) (snd d).

Lemma slide_reach dirs sq occ t : N.testbit (slide dirs sq occ) t = existsb (fun d => reachl (rayl sq d) occ t) dirs.
Proof.
  unfold slide. induction dirs as [|d r IH]; cbn [fold_right existsb]; [apply N.bits_0|].
  rewrite N.lor_spec, walk_reach, IH. reflexivity.
Qed.

(* reachl over a list split at the first occurrence of t *)
Lemma reachl_split pre t post occ : ~ In t pre ->
  reachl (pre ++ t :: post) occ t = forallb (fun x => negb (N.testbit occ x)) pre.
Proof.
  induction pre as [|x r IH]; intros NI; cbn [app reachl forallb].
  - rewrite N.eqb_refl. reflexivity.
  - destruct (N.eqb_spec x t) as [->|NE]; [exfalso; apply NI; left; reflexivity|].
    cbn [orb]. rewrite IH by (intros X; apply NI; right; exact X). reflexivity.
Qed.

Lemma forallb_rev {A} (f : A -> bool) l : forallb f (rev l) = forallb f l.
Proof.
  induction l as [|x r IH]; [reflexivity|]. cbn [rev forallb]. rewrite forallb_app, IH. cbn [forallb]. rewrite andb_true_r. apply andb_comm.
Qed.

Lemma reachl_in sqs occ t : reachl sqs occ t = true -> In t sqs.
Proof.
  induction sqs as [|x r IH]; cbn [reachl]; [discriminate|]. intros H. apply orb_true_iff in H. destruct H as [H|H].
  - apply N.eqb_eq in H. left. exact H.
  - apply andb_true_iff in H. right. apply IH. tauto.
Qed.

(* ---- the finite geometric fact, checked by evaluation: for every square f, direction d of the set and position i on the
   ray from f, the ray from t = ray[i] in the opposite direction starts with the reversed prefix followed by f ---- *)
Definition negd (d : Z * Z) : Z * Z := ((- fst d)%Z, (- snd d)%Z).
Fixpoint eqlN (a b : list N) : bool :=
  match a, b with [], [] => true | x :: a', y :: b' => (x =? y) && eqlN a' b' | _, _ => false end.
Definition memN (x : N) (l : list N) : bool := existsb (N.eqb x) l.

Definition sym_at (f : N) (d : Z * Z) (i : nat) : bool :=
  let l := rayl f d in
  let t := nth i l 0 in
  let pre := firstn i l in
  let l' := rayl t (negd d) in
  eqlN (firstn i l') (rev pre) && (nth i l' 64 =? f) && negb (memN t pre) && negb (memN f pre) && (Nat.ltb i (length l')).
Definition sym_check (dirs : list (Z * Z)) : bool :=
  forallb (fun f => forallb (fun d => forallb (sym_at f d) (seq 0 (length (rayl f d)))) dirs) (seqN 0 64).

Lemma rook_sym_check : sym_check rook_dirs = true.
Proof. vm_compute. reflexivity. Qed.
Lemma bishop_sym_check : sym_check bishop_dirs = true.
Proof. vm_compute. reflexivity. Qed.

Lemma eqlN_eq a : forall b, eqlN a b = true -> a = b.
Proof.
  induction a as [|x a IH]; intros [|y b] H; cbn in H; try discriminate; [reflexivity|].
  apply andb_true_iff in H. destruct H as [H1 H2]. apply N.eqb_eq in H1. subst. f_equal. apply IH. exact H2.
Qed.
Lemma memN_false x l : memN x l = false -> ~ In x l.
Proof.
  unfold memN. intros H HI. assert (X : existsb (N.eqb x) l = true) by (apply existsb_exists; exists x; split; [exact HI|apply N.eqb_refl]). congruence.
Qed.

Lemma in_seqN n : forall s x, In x (seqN s n) <-> s <= x < s + N.of_nat n.
Proof.
  induction n as [|n IH]; intros s x; cbn [seqN In]; [lia|]. rewrite IH. lia.
Qed.

Lemma nth_split_at {A} (l : list A) i d : (i < length l)%nat -> l = firstn i l ++ nth i l d :: skipn (S i) l.
Proof.
  revert i. induction l as [|x r IH]; intros [|i] L; cbn in *; try lia; [reflexivity|]. f_equal. apply IH. lia.
Qed.

(* symmetry of one direction set closed under negation *)
Lemma slide_sym dirs : sym_check dirs = true -> (forall d, In d dirs -> In (negd d) dirs) ->
  forall f t occ, f < 64 -> N.testbit (slide dirs f occ) t = true -> N.testbit (slide dirs t occ) f = true.
Proof.
  intros CHK NEG f t occ F H. rewrite slide_reach in *. apply existsb_exists in H. destruct H as (d & Hd & R).
  apply existsb_exists. exists (negd d). split; [apply NEG; exact Hd|].
  pose proof (reachl_in _ _ _ R) as HI. destruct (In_nth _ _ 0 HI) as (i & Li & Ni).
  unfold sym_check in CHK. rewrite forallb_forall in CHK.
  assert (Fin : In f (seqN 0 64)) by (apply in_seqN; cbn; lia).
  specialize (CHK f Fin). rewrite forallb_forall in CHK. specialize (CHK d Hd). rewrite forallb_forall in CHK.
  specialize (CHK i ltac:(apply in_seq; lia)). unfold sym_at in CHK. cbn zeta in CHK. rewrite Ni in CHK.
  apply andb_true_iff in CHK. destruct CHK as [CHK LT]. apply andb_true_iff in CHK. destruct CHK as [CHK MF].
  apply andb_true_iff in CHK. destruct CHK as [CHK MT]. apply andb_true_iff in CHK. destruct CHK as [PRE NTH].
  apply eqlN_eq in PRE. apply N.eqb_eq in NTH. apply negb_true_iff in MT, MF. apply memN_false in MT, MF. apply Nat.ltb_lt in LT.
  (* forward: the prefix is empty of men *)
  rewrite (nth_split_at (rayl f d) i 0 Li) in R. rewrite Ni in R. rewrite reachl_split in R by exact MT.
  (* backward *)
  rewrite (nth_split_at (rayl t (negd d)) i 64 LT). rewrite PRE, NTH. rewrite reachl_split.
  - rewrite forallb_rev. exact R.
  - intros X. apply in_rev in X. exact (MF X).
Qed.

Theorem rook_att_sym f t occ : f < 64 -> N.testbit (rook_att f occ) t = true -> N.testbit (rook_att t occ) f = true.
Proof.
  apply slide_sym; [exact rook_sym_check|]. intros d [<-|[<-|[<-|[<-|[]]]]]; cbn; auto.
Qed.
Theorem bishop_att_sym f t occ : f < 64 -> N.testbit (bishop_att f occ) t = true -> N.testbit (bishop_att t occ) f = true.
Proof.
  apply slide_sym; [exact bishop_sym_check|]. intros d [<-|[<-|[<-|[<-|[]]]]]; cbn; auto.
Qed.
Theorem queen_att_sym f t occ : f < 64 -> N.testbit (queen_att f occ) t = true -> N.testbit (queen_att t occ) f = true.
Proof.
  intros F H. unfold queen_att in *. rewrite N.lor_spec in *. apply orb_true_iff in H. apply orb_true_iff.
  destruct H as [H|H]; [left; apply rook_att_sym|right; apply bishop_att_sym]; assumption.
Qed.

(* leapers and pawns: finite checks over all pairs *)
Definition pair_check (rel : N -> N -> bool) (rel' : N -> N -> bool) : bool :=
  forallb (fun f => forallb (fun t => implb (rel f t) (rel' t f)) (seqN 0 64)) (seqN 0 64).
Lemma pair_check_spec rel rel' : pair_check rel rel' = true -> forall f t, f < 64 -> t < 64 -> rel f t = true -> rel' t f = true.
Proof.
  intros CHK f t F T R. unfold pair_check in CHK. rewrite forallb_forall in CHK.
  specialize (CHK f ltac:(apply in_seqN; cbn; lia)). rewrite forallb_forall in CHK. specialize (CHK t ltac:(apply in_seqN; cbn; lia)).
  rewrite R in CHK. exact CHK.
Qed.

Lemma knight_check : pair_check (fun f t => N.testbit (knight_att f) t) (fun t f => N.testbit (knight_att t) f) = true.
Proof. vm_compute. reflexivity. Qed.
Lemma king_check : pair_check (fun f t => N.testbit (king_att f) t) (fun t f => N.testbit (king_att t) f) = true.
Proof. vm_compute. reflexivity. Qed.
(* a white pawn on f attacks t  =>  seen from t, f is where a black pawn's capture pattern points (and vice versa) *)
Lemma wpawn_check : pair_check (fun f t => N.testbit (pawn_att f true) t) (fun t f => N.testbit (pawn_att t false) f) = true.
Proof. vm_compute. reflexivity. Qed.
Lemma bpawn_check : pair_check (fun f t => N.testbit (pawn_att f false) t) (fun t f => N.testbit (pawn_att t true) f) = true.
Proof. vm_compute. reflexivity. Qed.

(* attack sets only contain board squares *)
Definition range_check (att : N -> N) : bool := forallb (fun f => att f <? 2 ^ 64) (seqN 0 64).
