(* C19: at nominal depth <= 2, with the transposition table bypassed, no stop request and an empty game history, the value
   negamax returns is related to the reference game-tree value V (Spec/GameTree.v) exactly as a fail-hard alpha-beta result
   should be:  inside the window it IS the value; at or below alpha the value is at most the result; at or above beta the
   value is at least the result.  Proved for every game interface, every move-ordering state (killers, history, PV
   following -- the order is only known to be a permutation), every poll oracle.  The PVS null-window / re-search logic, the
   check extension, the quiescence stand-pat and cut-offs, the mate / stalemate verdicts and the two horizon rules are all
   covered; null-move pruning and late-move reductions cannot fire at depth <= 2 (proved from the regenerated constants). *)
From Coq Require Import NArith ZArith List Bool Lia.
From Coq Require Import Permutation.
From JV Require Import Gen.Consts Model.TT Model.Search Spec.AlphaBeta Spec.GameTree Proofs.SearchBalance Proofs.SortProofs.
Import ListNotations.
Local Open Scope Z_scope.

Section Exact.
Variables (pos move : Type).
Variable gen : pos -> bool -> list move.
Variable make : pos -> move -> option pos.
Variable null : pos -> pos.
Variable evalf : pos -> Z.
Variable in_check : pos -> bool.
Variable key : pos -> N.
Variable half100 : pos -> bool.
Variable mv_eqb : move -> move -> bool.
Variable mv_cap : move -> bool.
Variable mv_promo : move -> bool.
Variable mv_hidx : move -> nat.
Variable cap_score : pos -> move -> Z.
Variable null_mv : move.
Variable legalb : pos -> move -> bool.
Variable pollp : N -> bool.
Variable stop_at : nat -> bool.
Variable tt_bypass : bool.

Notation env := (env pos move).
Notation res := (res pos move).
Notation lres := (lres pos move).
Notation negamax := (negamax gen make null evalf in_check key half100 mv_eqb mv_cap mv_promo mv_hidx cap_score null_mv pollp stop_at tt_bypass).
Notation quiescence := (quiescence gen make evalf key half100 mv_eqb mv_cap mv_hidx cap_score null_mv pollp stop_at).
Notation negamax_body := (negamax_body gen make null evalf in_check key half100 mv_eqb mv_cap mv_promo mv_hidx cap_score null_mv pollp stop_at tt_bypass).
Notation quiescence_body := (quiescence_body gen make evalf key half100 mv_eqb mv_cap mv_hidx cap_score null_mv pollp stop_at).
Notation nloop := (nloop make key mv_cap mv_promo mv_hidx).
Notation qloop := (qloop make key).
Notation sort_moves := (sort_moves mv_eqb mv_cap mv_hidx cap_score null_mv).
Notation score_all := (score_all mv_eqb mv_cap mv_hidx cap_score null_mv).
Notation score_move := (score_move mv_eqb mv_cap mv_hidx cap_score null_mv).
Notation maybe_poll := (maybe_poll pollp stop_at).
Notation poll := (poll stop_at).
Notation enable_pv_scoring := (enable_pv_scoring mv_eqb null_mv).
Notation bal := (bal pos move stop_at).


Hypothesis Hstop : forall k, stop_at k = false.
Hypothesis Hbyp : tt_bypass = true.

Notation gnode := (gnode pos).
Notation V := (V pos move gen make evalf in_check half100).
Notation child_fold := (child_fold pos move gen make evalf in_check half100).
Notation succs_of := (succs_of pos move make).
Notation Pn := (Pn pos move stop_at).
Notation Pq := (Pq pos move stop_at).

(* true value m, returned value r, window (a, b) *)
Definition relZ (m r a b : Z) : Prop := (r >= b -> m >= r) /\ (a < r < b -> m = r) /\ (r <= a -> m <= r).

Lemma relZ_neg v s a b : relZ v s (- b) (- a) -> relZ (- v) (- s) a b.
Proof. unfold relZ. lia. Qed.
Lemma relZ_refl m a b : relZ m m a b.
Proof. unfold relZ. lia. Qed.

(* what the argument needs of an environment: not stopped, empty game history *)
Definition Hev (e : env) : Prop := stopping e = false /\ ridx e = O.
Lemma bal_Hev {e e'} : bal e e' -> Hev e -> Hev e'.
Proof. intros (_&B2&_&_&_&_&_&B8) (H1&H2). split; [rewrite (B8 Hstop); exact H1|congruence]. Qed.
Lemma bal_ply {e e'} : bal e e' -> ply e' = ply e.
Proof. intros (B&_). exact B. Qed.

Definition Qq (n : nat) (f : pos -> Z -> Z -> env -> res) : Prop :=
  forall g a b e, (ply e <= MAXPLY)%nat -> (MAXPLY + 2 - ply e <= n)%nat -> a < b ->
  match f g a b e with Val s _ => relZ (V (mkN g true 0 (ply e))) s a b | OutOfFuel => True end.
Definition Qn (n : nat) (f : pos -> nat -> Z -> Z -> env -> res) : Prop :=
  forall g d a b e, (ply e <= MAXPLY)%nat -> (MAXPLY + 3 - ply e <= n)%nat -> Hev e -> (d <= 2)%nat -> a < b ->
  match f g d a b e with Val s _ => relZ (V (mkN g false d (ply e))) s a b | OutOfFuel => True end.

Section BodyLemmas.
Variable n : nat.
Variable rec_n : pos -> nat -> Z -> Z -> env -> res.
Variable rec_q : pos -> Z -> Z -> env -> res.
Hypothesis Hn : Pn n rec_n.
Hypothesis Hq : Pq n rec_q.
Hypothesis Vn : Qn n rec_n.
Hypothesis Vq : Qq n rec_q.

(* ---------------- quiescence ---------------- *)
Definition invq (a b M ta : Z) : Prop := ta < b /\ ((M <= a /\ ta = a) \/ (a < M /\ ta = M)).

Lemma qloop_val g p a b ms : forall ta e M,
  ply e = p -> (p < MAXPLY)%nat -> (MAXPLY + 1 - p <= n)%nat -> invq a b M ta ->
  match qloop rec_q g ms ta b e with
  | Val s _ => relZ (oval (child_fold (map (fun g' => mkN g' true 0 (S p)) (succs_of g ms)) (Some M))) s a b
  | OutOfFuel => True
  end.
Proof.
  induction ms as [|m rest IH]; intros ta e M Hp Hlt Hf Iv; cbn [Search.qloop].
  - cbn. unfold relZ, invq in *. lia.
  - rewrite succs_of_cons. unfold make_rep. destruct (make g m) as [g'|]; [|apply IH; assumption].
    cbn [map]. unfold GameTree.child_fold. cbn [fold_left omax]. fold child_fold.
    set (e2 := set_ply (rep_insert e (key g')) (S (ply (rep_insert e (key g'))))).
    assert (P2 : ply e2 = S p) by (subst e2; cbn [ply set_ply rep_insert set_rep]; congruence).
    assert (TB : ta < b) by (destruct Iv; assumption).
    pose proof (Hq g' (- b) (- ta) e2) as HB. rewrite P2 in HB. specialize (HB ltac:(lia) ltac:(lia)).
    pose proof (Vq g' (- b) (- ta) e2) as HV. rewrite P2 in HV. specialize (HV ltac:(lia) ltac:(lia) ltac:(lia)).
    destruct (rec_q g' (- b) (- ta) e2) as [s e3|]; [|exact I]. cbn [res_ok] in HB.
    set (v := V (mkN g' true 0 (S p))) in *.
    assert (B4 : bal e (rep_back (set_ply e3 (pred (ply e3))))) by (apply (bal_push_pop pos move stop_at e (key g')); exact HB).
    set (e4 := rep_back (set_ply e3 (pred (ply e3)))) in *.
    assert (P4 : ply e4 = p) by (rewrite (bal_ply B4); exact Hp).
    destruct (Z.geb_spec (- s) b) as [GE|LT].
    + destruct (fold_omax_ge _ (fun c => - V c) (map (fun g'0 => mkN g'0 true 0 (S p)) (succs_of g rest)) (Z.max M (- v))) as (m' & E & G).
      unfold GameTree.child_fold. rewrite E. cbn [oval]. unfold relZ, invq in *. lia.
    + apply IH; try assumption.
      unfold relZ, invq in *. destruct (Z.gtb_spec (- s) ta); lia.
Qed.

Notation sort_moves_perm := (sort_moves_perm pos move mv_eqb mv_cap mv_hidx cap_score null_mv).

Lemma quiescence_body_val : Qq (S n) (quiescence_body rec_q).
Proof.
  intros g a b e Hp Hf AB. unfold Search.quiescence_body.
  set (e0 := emit e _). set (e1 := maybe_poll e0). set (e2 := set_nodes e1 (N.succ (nodes e1))).
  assert (B2 : bal e e2).
  { eapply bal_trans; [apply bal_emit|]. eapply bal_trans; [apply bal_maybe_poll|]. apply bal_set_nodes. }
  assert (P2 : ply e2 = ply e) by (apply bal_ply; exact B2).
  pose proof (sort_moves_perm g (gen g false) e2) as PERM.
  rewrite (Vq_unfold_perm pos move gen make evalf in_check half100 g (ply e) (fst (sort_moves g (gen g false) e2)) Hp PERM).
  rewrite P2.
  destruct (Nat.ltb (MAXPLY - 1) (ply e)) eqn:LT; cbn [orb]; [apply relZ_refl|].
  apply Nat.ltb_ge in LT.
  destruct (half100 g); [apply relZ_refl|].
  destruct (sort_moves g (gen g false) e2) as [ms e3] eqn:ES. cbn [fst] in *.
  pose proof (bal_sort_moves pos move mv_eqb mv_cap mv_hidx cap_score null_mv stop_at g (gen g false) e2) as B3. rewrite ES in B3. cbn [snd] in B3.
  assert (P3 : ply e3 = ply e) by (rewrite (bal_ply B3); exact P2).
  set (ev := evalf g).
  destruct (Z.gtb_spec ev a) as [GA|LA]; cbn [andb].
  - destruct (Z.geb_spec ev b) as [GB|LB].
    + destruct (fold_omax_ge _ (fun c => - V c) (map (fun g' => mkN g' true 0 (S (ply e))) (succs_of g ms)) ev) as (m' & E & G).
      unfold GameTree.child_fold. rewrite E. cbn [oval]. unfold relZ. lia.
    + pose proof (qloop_val g (ply e) a b ms ev e3 ev P3) as Q. rewrite MAXPLY_val in *.
      apply Q; [lia|lia|]. unfold invq. lia.
  - pose proof (qloop_val g (ply e) a b ms a e3 ev P3) as Q. rewrite MAXPLY_val in *.
    apply Q; [lia|lia|]. unfold invq. lia.
Qed.

(* ---------------- the main move loop ---------------- *)
Notation after_move := (after_move key mv_cap mv_hidx).
Notation search_move := (search_move mv_cap mv_promo rec_n).

(* M = maximum over the legal moves handled so far (None: none yet), ta = the running alpha, legal = their number *)
Definition invn (a b : Z) (M : option Z) (ta : Z) (legal : nat) : Prop :=
  ta < b /\ a <= ta /\
  match M with
  | None => ta = a /\ legal = O
  | Some m => (0 < legal)%nat /\ ((m <= a /\ ta = a) \/ (a < m /\ ta = m))
  end.

(* what a result of the loop says, Mfin = maximum over all legal moves *)
Definition lpost (a b : Z) (Mfin : option Z) (r : lres) : Prop :=
  match r with
  | LFuel => True
  | LRet s _ => s = b /\ match Mfin with Some m => m >= b | None => False end
  | LDone ta _ legal _ => match Mfin with None => legal = O | Some m => (0 < legal)%nat /\ relZ m ta a b end
  end.

Definition next_val (a b : Z) (p : nat) (crest : list gnode) (next : nat -> nat -> Z -> bool -> env -> lres) : Prop :=
  forall s l t x e' M', ply e' = p -> Hev e' -> invn a b M' t l -> lpost a b (child_fold crest M') (next s l t x e').

Lemma after_move_val a b p crest g depth m ta ex searched legal next score e4 v M :
  next_val a b p crest next -> ply e4 = S p -> Hev e4 -> invn a b M ta legal -> relZ (- v) score ta b ->
  lpost a b (child_fold crest (omax M (Some (- v)))) (after_move g depth m ta b ex searched legal next score e4).
Proof.
  intros HN P4 H4 Iv R. unfold Search.after_move. cbn zeta.
  set (e5 := set_ply e4 (pred (ply e4))).
  assert (P5 : ply e5 = p) by (subst e5; cbn [ply set_ply]; rewrite P4; reflexivity).
  assert (H5 : Hev e5) by exact H4.
  assert (S5 : stopping e5 = false) by (destruct H5; assumption). rewrite S5.
  destruct Iv as (TB & AT & IM).
  destruct (Z.gtb_spec score ta) as [GT|LE].
  - set (e6 := insert_pv e5 m).
    assert (B6 : bal e5 e6) by apply bal_insert_pv.
    assert (P6 : ply e6 = p) by (rewrite (bal_ply B6); exact P5).
    assert (H6 : Hev e6) by (exact (bal_Hev B6 H5)).
    destruct (Z.geb_spec score b) as [GB|LB].
    + cbn [lpost]. split; [reflexivity|].
      assert (X : exists x, omax M (Some (- v)) = Some x /\ x >= b).
      { destruct M as [m0|]; cbn [omax]; eexists; (split; [reflexivity|]); unfold relZ in R; lia. }
      destruct X as (x & -> & Gx).
      destruct (fold_omax_ge _ (fun c => - V c) crest x) as (m' & E & G). unfold GameTree.child_fold. rewrite E. lia.
    + apply HN.
      * destruct (mv_cap m); [exact P6|]. cbn [ply set_history]. exact P6.
      * destruct (mv_cap m); [exact H6|]. exact H6.
      * unfold invn. unfold relZ in R. split; [lia|]. split; [lia|].
        destruct M as [m0|]; cbn [omax]; (split; [lia|]); destruct IM as [I1 I2]; try destruct I2 as [[? ?]|[? ?]]; right; lia.
  - apply HN; [exact P5|exact H5|].
    unfold invn. unfold relZ in R. split; [lia|]. split; [lia|].
    destruct M as [m0|]; cbn [omax].
    + destruct IM as [I1 [[? ?]|[? ?]]]; (split; [lia|]); [left|right]; lia.
    + destruct IM as [I1 I2]. split; [lia|]. left. lia.
Qed.

(* a recursive call: balanced, and its value is related to the reference value of the child *)
Lemma rec_n_both g' d' a' b' ex :
  (ply ex <= MAXPLY)%nat -> (MAXPLY + 3 - ply ex <= n)%nat -> Hev ex -> (d' <= 2)%nat -> a' < b' ->
  match rec_n g' d' a' b' ex with
  | Val s e4 => bal ex e4 /\ relZ (V (mkN g' false d' (ply ex))) s a' b'
  | OutOfFuel => True
  end.
Proof.
  intros Hp Hf He Hd AB. pose proof (Hn g' d' a' b' ex Hp Hf) as B. pose proof (Vn g' d' a' b' ex Hp Hf He Hd AB) as R.
  destruct (rec_n g' d' a' b' ex); [split; assumption|exact I].
Qed.

Lemma search_move_val a b p Mfin g' depth nd inchk m searched ta e3 after :
  ply e3 = S p -> (S p <= MAXPLY)%nat -> (MAXPLY + 3 - S p <= n)%nat -> Hev e3 -> (depth <= 2)%nat -> (nd - 1 <= 2)%nat -> ta < b ->
  (forall score e4, relZ (- V (mkN g' false (nd - 1) (S p))) score ta b -> ply e4 = S p -> Hev e4 -> lpost a b Mfin (after score e4)) ->
  lpost a b Mfin (search_move g' depth nd inchk m searched ta b e3 after).
Proof.
  intros P3 Hp Hf H3 Hd Hnd TB HA. unfold Search.search_move.
  set (v := V (mkN g' false (nd - 1) (S p))) in *.
  assert (HRt : forall a' b' ex k, a' < b' -> ply ex = S p -> Hev ex ->
                (forall s e4, relZ v s a' b' -> ply e4 = S p -> Hev e4 -> lpost a b Mfin (k (- s) e4)) ->
                lpost a b Mfin (neg_res (rec_n g' (nd - 1)%nat a' b' ex) k)).
  { intros a' b' ex k AB Px Hx K.
    pose proof (rec_n_both g' (nd - 1)%nat a' b' ex) as R. rewrite Px in R. specialize (R Hp Hf Hx Hnd AB).
    destruct (rec_n g' (nd - 1)%nat a' b' ex) as [s e4|]; cbn [neg_res]; [|exact I].
    destruct R as (B & R). apply K; [exact R|rewrite (bal_ply B); exact Px|exact (bal_Hev B Hx)]. }
  destruct (Nat.eqb searched 0).
  - apply HRt; [lia|exact P3|exact H3|]. intros s e4 R P4 H4. apply HA; [apply relZ_neg; exact R|exact P4|exact H4].
  - cbn zeta.
    assert (LMR : Nat.leb (N.to_nat REDUCTION_LIMIT) depth = false) by (apply Nat.leb_gt; change (N.to_nat REDUCTION_LIMIT) with 3%nat; lia).
    rewrite LMR. rewrite andb_false_r. cbn [andb].
    destruct (Z.gtb_spec (ta + 1) ta) as [_|X]; [|lia].
    apply HRt; [lia|exact P3|exact H3|]. intros s2' e'' R2 P'' H''.
    assert (R2' : relZ (- v) (- s2') ta (ta + 1)) by (apply relZ_neg; replace (- (ta + 1)) with (- ta - 1) by lia; exact R2).
    set (s2 := - s2') in *.
    destruct (Z.gtb_spec s2 ta) as [G2|L2]; cbn [andb].
    + destruct (Z.ltb_spec s2 b) as [LB|GB].
      * apply HRt; [lia|exact P''|exact H''|]. intros s e4 R P4 H4. apply HA; [apply relZ_neg; exact R|exact P4|exact H4].
      * apply HA; [|exact P''|exact H'']. unfold relZ in *. lia.
    + apply HA; [|exact P''|exact H'']. unfold relZ in *. lia.
Qed.

Lemma nloop_val a b p g depth nd inchk ms : forall searched legal ta ex e M,
  ply e = p -> (p + 2 <= MAXPLY)%nat -> (MAXPLY + 2 - p <= n)%nat -> Hev e -> (depth <= 2)%nat -> (nd - 1 <= 2)%nat ->
  invn a b M ta legal ->
  lpost a b (child_fold (map (fun g' => mkN g' false (nd - 1) (S p)) (succs_of g ms)) M)
        (nloop rec_n g depth nd inchk ms searched legal ta b ex e).
Proof.
  induction ms as [|m rest IH]; intros searched legal ta ex e M Hp Hlt Hf He Hd Hnd Iv; cbn [Search.nloop].
  - cbn. destruct Iv as (TB & AT & IM). destruct M as [m0|]; [|destruct IM; assumption].
    destruct IM as [I1 I2]. split; [exact I1|]. unfold relZ. lia.
  - rewrite succs_of_cons. unfold make_rep. destruct (make g m) as [g'|].
    + cbn [map]. unfold GameTree.child_fold. cbn [fold_left]. fold child_fold.
      set (e1 := set_ply e (S (ply e))).
      set (e3 := rep_back (rep_insert e1 (key g'))).
      assert (B3 : bal e1 e3) by apply bal_make_back.
      assert (P3 : ply e3 = S p) by (rewrite (bal_ply B3); subst e1; cbn [ply set_ply]; congruence).
      assert (H3 : Hev e3) by (apply (bal_Hev B3); exact He).
      assert (TB : ta < b) by (destruct Iv; assumption).
      apply (search_move_val a b p); try assumption; try lia.
      intros score e4 R P4 H4.
      apply (after_move_val a b p); try assumption.
      intros s l t x e' M' P' H' I'. apply IH; assumption.
    + apply IH; try assumption.
Qed.

Notation move_phase := (move_phase gen make key mv_eqb mv_cap mv_promo mv_hidx cap_score null_mv rec_n).

Lemma move_phase_val g depth a b e :
  (ply e + 2 <= MAXPLY)%nat -> (MAXPLY + 2 - ply e <= n)%nat -> Hev e -> (1 <= depth <= 2)%nat -> half100 g = false -> a < b ->
  match move_phase g depth (if in_check g then S depth else depth) (in_check g) a b e with
  | Val s _ => relZ (V (mkN g false depth (ply e))) s a b
  | OutOfFuel => True
  end.
Proof.
  intros Hp Hf He Hd H100 AB. unfold Search.move_phase. cbn zeta.
  set (ms0 := gen g true).
  set (ey := if follow_pv e then enable_pv_scoring ms0 e else e).
  assert (By : bal e ey) by (subst ey; destruct (follow_pv e); [apply bal_enable_pv|apply bal_refl]).
  pose proof (sort_moves_perm g ms0 ey) as PERM.
  pose proof (bal_sort_moves pos move mv_eqb mv_cap mv_hidx cap_score null_mv stop_at g ms0 ey) as Bz.
  destruct (sort_moves g ms0 ey) as [ms ez] eqn:ES. cbn [fst snd] in *.
  assert (Bz' : bal e ez) by (eapply bal_trans; eassumption).
  assert (Pz : ply ez = ply e) by (apply bal_ply; exact Bz').
  assert (Hz : Hev ez) by (exact (bal_Hev Bz' He)).
  assert (L : Nat.leb (MAXPLY - 1) (ply e) = false) by (apply Nat.leb_gt; rewrite MAXPLY_val in *; lia).
  assert (D0 : Nat.eqb depth 0 || half100 g = false) by (rewrite H100; destruct depth; [lia|reflexivity]).
  rewrite (Vn_unfold_perm pos move gen make evalf in_check half100 g depth (ply e) ms ltac:(lia) L D0 PERM).
  set (nd := if in_check g then S depth else depth).
  assert (Hnd : (nd - 1 <= 2)%nat) by (subst nd; destruct (in_check g); lia).
  pose proof (nloop_val a b (ply e) g depth nd (in_check g) ms 0 0 a false ez None Pz Hp Hf Hz ltac:(lia) Hnd) as HL.
  specialize (HL ltac:(unfold invn; repeat split; lia)).
  pose proof (nloop_ok pos move make key mv_cap mv_promo mv_hidx stop_at n rec_n Hn g depth nd (in_check g) ms 0 0 a b false ez) as BL.
  rewrite Pz in BL. specialize (BL Hp Hf).
  destruct (succs_of g ms) as [|c0 cs0].
  - cbn in HL.
    destruct (nloop rec_n g depth nd (in_check g) ms 0 0 a b false ez) as [s ew|ta ew legal exa|]; cbn [lpost] in HL.
    + destruct HL as (_ & []).
    + subst legal. cbn [Nat.eqb]. destruct (in_check g); [|apply relZ_refl].
      (* the verdict is taken at the ply the loop ended at, which is the node's ply *)
      cbn [lres_ok] in BL. cbn [ply emit]. rewrite (bal_ply BL), Pz. apply relZ_refl.
    + exact I.
  - cbn [map] in HL |- *. unfold GameTree.child_fold in HL |- *. cbn [fold_left omax] in HL |- *.
    match goal with |- context [fold_left ?f ?l (Some ?x)] => destruct (fold_omax_ge _ (fun c => - V c) l x) as (m' & E & G) end.
    rewrite E in HL |- *. cbn [oval].
    destruct (nloop rec_n g depth nd (in_check g) ms 0 0 a b false ez) as [s ew|ta ew legal exa|]; cbn [lpost] in HL.
    + destruct HL as (-> & G'). unfold relZ. lia.
    + destruct HL as (L0 & R). destruct legal; [lia|]. cbn [Nat.eqb]. exact R.
    + exact I.
Qed.

Lemma negamax_body_val : Qn (S n) (negamax_body rec_n rec_q).
Proof.
  intros g d a b e Hp Hf He Hd AB. unfold Search.negamax_body.
  set (e0 := emit e _).
  assert (B0 : bal e e0) by apply bal_emit.
  assert (R0 : rep_hit e0 (key g) = false).
  { unfold rep_hit. assert (X : ridx e0 = O) by (destruct He as (_ & X); exact X). rewrite X. reflexivity. }
  rewrite R0, andb_false_r. rewrite Hbyp. cbn [negb]. rewrite andb_false_r.
  set (e1 := set_pv e0 _ _).
  assert (B1 : bal e e1) by (eapply bal_trans; [exact B0|apply bal_set_pv]).
  assert (P1 : ply e1 = ply e) by reflexivity.
  destruct (Nat.leb (MAXPLY - 1) (ply e1)) eqn:LE.
  { rewrite P1 in LE. rewrite (Vn_leaf pos move gen make evalf in_check half100 g d (ply e) Hp LE). apply relZ_refl. }
  rewrite P1 in LE.
  set (e2 := maybe_poll e1).
  assert (B2 : bal e e2) by (eapply bal_trans; [exact B1|apply bal_maybe_poll]).
  assert (P2 : ply e2 = ply e) by (apply bal_ply; exact B2).
  assert (H2 : Hev e2) by exact (bal_Hev B2 He).
  pose proof LE as LE'. apply Nat.leb_gt in LE'. rewrite MAXPLY_val in *.
  destruct (Nat.eqb d 0 || half100 g) eqn:D0.
  { rewrite (Vn_horizon pos move gen make evalf in_check half100 g d (ply e) ltac:(rewrite MAXPLY_val; lia) LE D0).
    pose proof (Vq g a b e2) as Q. rewrite P2 in Q. apply Q; rewrite ?MAXPLY_val; lia. }
  set (e3 := set_nodes e2 _).
  assert (B3 : bal e e3) by (eapply bal_trans; [exact B2|apply bal_set_nodes]).
  assert (P3 : ply e3 = ply e) by (apply bal_ply; exact B3).
  assert (H3 : Hev e3) by exact (bal_Hev B3 He).
  apply orb_false_iff in D0. destruct D0 as (D0 & H100). apply Nat.eqb_neq in D0.
  assert (NM : Nat.leb 3 (if in_check g then S d else d) && negb (in_check g) = false).
  { destruct (in_check g); cbn [negb]; [apply andb_false_r|]. rewrite andb_true_r. apply Nat.leb_gt. lia. }
  rewrite NM. cbn [andb].
  pose proof (move_phase_val g d a b e3) as MP. rewrite P3 in MP.
  apply MP; rewrite ?MAXPLY_val; try lia; assumption.
Qed.
End BodyLemmas.

Theorem search_exact : forall n, Qn n (negamax n) /\ Qq n (quiescence n).
Proof.
  induction n as [|n [IHn IHq]].
  - split; [intros g d a b e Hp Hf|intros g a b e Hp Hf]; rewrite MAXPLY_val in *; lia.
  - pose proof (search_balanced pos move gen make null evalf in_check key half100 mv_eqb mv_cap mv_promo mv_hidx cap_score null_mv pollp stop_at tt_bypass n) as [Bn Bq].
    split.
    + apply negamax_body_val; assumption.
    + apply quiescence_body_val; assumption.
Qed.

(* the root call of an iteration, with the fuel the model uses, against the fuel-indexed definition of the reference value *)
Corollary negamax_exact g d a b e : ply e = O -> stopping e = false -> ridx e = O -> (d <= 2)%nat -> a < b ->
  match negamax FUEL g d a b e with
  | Val s _ => relZ (gminimax pos move gen make evalf in_check half100 FUEL g d) s a b
  | OutOfFuel => False
  end.
Proof.
  intros P S0 R0 Hd AB. rewrite gminimax_V.
  pose proof (proj1 (search_exact FUEL) g d a b e) as Q. rewrite P in Q.
  specialize (Q ltac:(rewrite MAXPLY_val; lia) ltac:(unfold FUEL; rewrite MAXPLY_val; lia) (conj S0 R0) Hd AB).
  pose proof (negamax_root_ok pos move gen make null evalf in_check key half100 mv_eqb mv_cap mv_promo mv_hidx cap_score null_mv pollp stop_at tt_bypass g d a b e P) as B.
  destruct (negamax FUEL g d a b e); [exact Q|exact B].
Qed.

(* ---- search(): every printed iteration of depth 1 or 2 carries the exact reference value ---- *)
Notation id_loop := (id_loop gen make null evalf in_check key half100 mv_eqb mv_cap mv_promo mv_hidx cap_score null_mv legalb pollp stop_at tt_bypass).
Notation search := (search gen make null evalf in_check key half100 mv_eqb mv_cap mv_promo mv_hidx cap_score null_mv legalb pollp stop_at tt_bypass).
Notation gminimax := (gminimax pos move gen make evalf in_check half100).

Definition infos_exact (g : pos) (outs : list (out move)) : Prop :=
  forall sc mt d nd pv, In (OInfo sc mt d nd pv) outs -> (d <= 2)%nat -> sc = gminimax FUEL g d.

Lemma infos_exact_best g outs m : infos_exact g outs -> infos_exact g (outs ++ [OBest m]).
Proof.
  intros H sc mt d nd pv Hin Hd. apply in_app_iff in Hin. destruct Hin as [Hin|[Hin|[]]]; [|discriminate].
  exact (H sc mt d nd pv Hin Hd).
Qed.

Lemma id_loop_exact g iters : forall cur maxd a b sc e outs outs' e' s',
  ply e = O -> stopping e = false -> ridx e = O -> a < b -> infos_exact g outs ->
  id_loop iters g cur maxd a b sc e outs = SDone outs' e' s' -> infos_exact g outs'.
Proof.
  induction iters as [|it IH]; intros cur maxd a b sc e outs outs' e' s' P S0 R0 AB HI H; cbn [Search.id_loop] in H.
  - injection H as <- _ _. apply infos_exact_best. exact HI.
  - destruct (Nat.ltb maxd cur); [injection H as <- _ _; apply infos_exact_best; exact HI|].
    set (e0 := set_flags e true (score_pv e)) in *.
    pose proof (negamax_root_ok pos move gen make null evalf in_check key half100 mv_eqb mv_cap mv_promo mv_hidx cap_score null_mv pollp stop_at tt_bypass g cur a b e0 P) as B.
    assert (X : (cur <= 2)%nat -> match negamax FUEL g cur a b e0 with Val s _ => relZ (gminimax FUEL g cur) s a b | OutOfFuel => False end).
    { intros Hc. apply negamax_exact; assumption. }
    destruct (negamax FUEL g cur a b e0) as [s e1|]; [|discriminate]. cbn [res_ok] in B.
    assert (P1 : ply e1 = O) by (rewrite (bal_ply B); exact P).
    assert (H1 : Hev e1) by (apply (bal_Hev B); split; assumption).
    destruct H1 as (S1 & R1). rewrite S1 in H.
    destruct (Z.leb_spec s a) as [LA|GA]; cbn [orb] in H.
    + refine (IH _ _ _ _ _ _ _ _ _ _ P1 S1 R1 _ HI H). unfold INFINITY; lia.
    + destruct (Z.geb_spec s b) as [GB|LB].
      * refine (IH _ _ _ _ _ _ _ _ _ _ P1 S1 R1 _ HI H). unfold INFINITY; lia.
      * refine (IH _ _ _ _ _ _ _ _ _ _ P1 S1 R1 _ _ H); [lia|].
        intros sc0 mt d nd pv Hin Hd. apply in_app_iff in Hin. destruct Hin as [Hin|[Hin|[]]]; [exact (HI sc0 mt d nd pv Hin Hd)|].
        injection Hin as <- _ <- _ _. specialize (X Hd). unfold relZ in X. lia.
Qed.

Theorem search_exact_outputs g depth t rt outs e s :
  search g depth t rt O = SDone outs e s -> infos_exact g outs.
Proof.
  unfold Search.search. intros H.
  refine (id_loop_exact g _ _ _ _ _ _ _ _ _ _ _ _ _ _ _ _ H); try reflexivity; try (unfold INFINITY; lia).
  intros sc mt d nd pv [].
Qed.
End Exact.
