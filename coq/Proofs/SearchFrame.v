(* C09 (frame): once the stop has been observed, nothing the search does changes the transposition table, the PV table
   or the length of the root PV.  `snap` is a ghost field set by poll_input at the moment the stop is first observed;
   the invariant SInv says the live TT / PV still equal that snapshot.  It is preserved by every call of negamax and
   quiescence for every game interface, oracle, TT content and history: each path from a child's return to a PV insert
   or a TT record passes an `if stopping { return 0 }` check. *)
From Coq Require Import NArith ZArith List Bool Lia.
From JV Require Import Gen.Consts Model.TT Model.Search.
Import ListNotations.

Section Frame.
Variables (pos move : Type).
Variable gen : pos -> bool -> list move.
Variable make : pos -> move -> option pos.
Variable null : pos -> pos.
Variable evalf : pos -> Z.
Variable in_check : pos -> bool.
Variable key : pos -> N.
Variable half100 : pos -> bool.
Variable mv_eqb : move -> move -> bool.
Variable mv_cap : move -> bool.
Variable mv_promo : move -> bool.
Variable mv_hidx : move -> nat.
Variable cap_score : pos -> move -> Z.
Variable null_mv : move.
Variable legalb : pos -> move -> bool.
Variable pollp : N -> bool.
Variable stop_at : nat -> bool.
Variable tt_bypass : bool.

Notation env := (env pos move).
Notation res := (res pos move).
Notation lres := (lres pos move).
Notation negamax := (negamax gen make null evalf in_check key half100 mv_eqb mv_cap mv_promo mv_hidx cap_score null_mv pollp stop_at tt_bypass).
Notation quiescence := (quiescence gen make evalf key half100 mv_eqb mv_cap mv_hidx cap_score null_mv pollp stop_at).
Notation negamax_body := (negamax_body gen make null evalf in_check key half100 mv_eqb mv_cap mv_promo mv_hidx cap_score null_mv pollp stop_at tt_bypass).
Notation quiescence_body := (quiescence_body gen make evalf key half100 mv_eqb mv_cap mv_hidx cap_score null_mv pollp stop_at).
Notation nloop := (nloop make key mv_cap mv_promo mv_hidx).
Notation qloop := (qloop make key).
Notation sort_moves := (sort_moves mv_eqb mv_cap mv_hidx cap_score null_mv).
Notation score_all := (score_all mv_eqb mv_cap mv_hidx cap_score null_mv).
Notation score_move := (score_move mv_eqb mv_cap mv_hidx cap_score null_mv).
Notation maybe_poll := (maybe_poll pollp stop_at).
Notation poll := (poll stop_at).
Notation enable_pv_scoring := (enable_pv_scoring mv_eqb null_mv).

Definition SInv (e : env) : Prop :=
  match snap e with
  | Some (t, pt, _) => stopping e = true /\ tbl e = t /\ pvtab e = pt
  | None => stopping e = false
  end.

(* two environments agree on everything the invariant reads *)
Definition same_frame (e e' : env) : Prop :=
  snap e' = snap e /\ stopping e' = stopping e /\ tbl e' = tbl e /\ pvtab e' = pvtab e.
Lemma SInv_same e e' : same_frame e e' -> SInv e -> SInv e'.
Proof. unfold same_frame, SInv. intros (H1&H2&H3&H4). rewrite H1, H2, H3, H4. auto. Qed.

Ltac sf := unfold same_frame; cbn; repeat split; reflexivity.
Lemma sf_emit e ev : same_frame e (emit e ev). Proof. sf. Qed.
Lemma sf_set_nodes e n : same_frame e (set_nodes e n). Proof. sf. Qed.
Lemma sf_set_hits e h : same_frame e (set_hits e h). Proof. sf. Qed.
Lemma sf_set_flags e a b : same_frame e (set_flags e a b). Proof. sf. Qed.
Lemma sf_set_killers e a b : same_frame e (set_killers e a b). Proof. sf. Qed.
Lemma sf_set_history e h : same_frame e (set_history e h). Proof. sf. Qed.
Lemma sf_set_ply e p : same_frame e (set_ply e p). Proof. sf. Qed.
Lemma sf_rep_insert e k : same_frame e (rep_insert e k). Proof. sf. Qed.
Lemma sf_rep_back e : same_frame e (rep_back e). Proof. sf. Qed.
Lemma sf_refl e : same_frame e e. Proof. sf. Qed.
Lemma sf_trans a b c : same_frame a b -> same_frame b c -> same_frame a c.
Proof. unfold same_frame. intros (A1&A2&A3&A4) (B1&B2&B3&B4). repeat split; congruence. Qed.
Lemma sf_set_pvlen e l : same_frame e (set_pv e l (pvtab e)). Proof. sf. Qed.

Lemma SInv_poll e : SInv e -> SInv (poll e).
Proof.
  unfold SInv, Search.poll. cbn zeta.
  destruct (stop_at (npolls e)) eqn:S; destruct (stopping e) eqn:ST; cbn [andb negb]; cbn;
    try rewrite ST; cbn; try rewrite orb_false_r; auto.
Qed.
Lemma SInv_maybe_poll e : SInv e -> SInv (maybe_poll e).
Proof. unfold Search.maybe_poll. destruct (pollp _); [apply SInv_poll|auto]. Qed.

(* writes that only happen when not stopped *)
Lemma SInv_live_write e e' : stopping e = false -> snap e' = snap e -> stopping e' = stopping e -> SInv e -> SInv e'.
Proof.
  unfold SInv. intros ST H1 H2. rewrite H1, H2. destruct (snap e) as [[[t pt] pl]|].
  - intros (H&_). congruence.
  - auto.
Qed.

Lemma SInv_score_move g m e : SInv e -> SInv (snd (score_move g m e)).
Proof.
  unfold Search.score_move. intros H.
  repeat match goal with |- context [if ?c then _ else _] => destruct c end; cbn [snd]; exact H.
Qed.
Lemma SInv_score_all g ms : forall e, SInv e -> SInv (snd (score_all g ms e)).
Proof.
  induction ms as [|m r IH]; intros e H; cbn [Search.score_all snd]; [exact H|].
  destruct (score_move g m e) as [s e1] eqn:E1. destruct (score_all g r e1) as [l e2] eqn:E2. cbn [snd].
  pose proof (SInv_score_move g m e H) as B1. rewrite E1 in B1. pose proof (IH e1 B1) as B2. rewrite E2 in B2. exact B2.
Qed.
Lemma SInv_sort_moves g ms e : SInv e -> SInv (snd (sort_moves g ms e)).
Proof.
  unfold Search.sort_moves. intros H. destruct (score_all g ms e) as [sc e1] eqn:E. cbn [snd].
  pose proof (SInv_score_all g ms e H) as B. rewrite E in B. exact B.
Qed.
Lemma SInv_enable_pv ms e : SInv e -> SInv (enable_pv_scoring ms e).
Proof. unfold Search.enable_pv_scoring. intros H. destruct (existsb _ _); (eapply SInv_same; [apply sf_set_flags|exact H]). Qed.

Definition res_inv (r : res) : Prop := match r with Val _ e' => SInv e' | OutOfFuel => True end.
(* for the move loop: additionally, a loop that ends after at least one legal move was searched is not stopped *)
Definition lres_inv (r : lres) : Prop :=
  match r with
  | LRet _ e' => SInv e'
  | LDone _ e' legal _ => SInv e' /\ ((0 < legal)%nat -> stopping e' = false)
  | LFuel => True
  end.

Definition Fn (f : pos -> nat -> Z -> Z -> env -> res) : Prop :=
  forall g d a b e, SInv e -> res_inv (f g d a b e).
Definition Fq (f : pos -> Z -> Z -> env -> res) : Prop :=
  forall g a b e, SInv e -> res_inv (f g a b e).

Section BodyLemmas.
Variable rec_n : pos -> nat -> Z -> Z -> env -> res.
Variable rec_q : pos -> Z -> Z -> env -> res.
Hypothesis Hn : Fn rec_n.
Hypothesis Hq : Fq rec_q.

Notation after_move := (after_move key mv_cap mv_hidx).
Notation search_move := (search_move mv_cap mv_promo rec_n).
Notation move_phase := (move_phase gen make key mv_eqb mv_cap mv_promo mv_hidx cap_score null_mv rec_n).

Lemma qloop_inv g ms : forall ta b e, SInv e -> res_inv (qloop rec_q g ms ta b e).
Proof.
  induction ms as [|m rest IH]; intros ta b e H; cbn [Search.qloop].
  - exact H.
  - unfold make_rep. destruct (make g m) as [g'|]; [|apply IH; exact H].
    set (e2 := set_ply (rep_insert e (key g')) (S (ply (rep_insert e (key g'))))).
    assert (H2 : SInv e2) by (eapply SInv_same; [|exact H]; eapply sf_trans; [apply sf_rep_insert|apply sf_set_ply]).
    pose proof (Hq g' (- b)%Z (- ta)%Z e2 H2) as R.
    destruct (rec_q g' (- b)%Z (- ta)%Z e2) as [s e3|]; [|exact I]. cbn [res_inv] in R.
    assert (H4 : SInv (rep_back (set_ply e3 (pred (ply e3))))).
    { eapply SInv_same; [|exact R]. eapply sf_trans; [apply sf_set_ply|apply sf_rep_back]. }
    destruct (_ >=? b)%Z; [exact H4|]. apply IH. exact H4.
Qed.

Lemma quiescence_body_inv : Fq (quiescence_body rec_q).
Proof.
  intros g a b e H. unfold Search.quiescence_body.
  set (e0 := emit e _). set (e1 := maybe_poll e0). set (e2 := set_nodes e1 (N.succ (nodes e1))).
  assert (H2 : SInv e2).
  { eapply SInv_same; [apply sf_set_nodes|]. apply SInv_maybe_poll. eapply SInv_same; [apply sf_emit|exact H]. }
  destruct (_ || _); [exact H2|].
  destruct (_ && _); [exact H2|].
  destruct (sort_moves g (gen g false) e2) as [ms e3] eqn:ES.
  pose proof (SInv_sort_moves g (gen g false) e2 H2) as H3. rewrite ES in H3. cbn [snd] in H3.
  apply qloop_inv. exact H3.
Qed.

Definition next_inv (next : nat -> nat -> Z -> bool -> env -> lres) : Prop :=
  forall s l t x e', SInv e' -> stopping e' = false -> lres_inv (next s (S l) t x e').

Lemma after_move_inv g depth m ta b ex searched legal next score e4 :
  next_inv next -> SInv e4 -> lres_inv (after_move g depth m ta b ex searched legal next score e4).
Proof.
  intros HN H4. unfold Search.after_move. cbn zeta.
  set (e5 := set_ply e4 (pred (ply e4))).
  assert (H5 : SInv e5) by (eapply SInv_same; [apply sf_set_ply|exact H4]).
  destruct (stopping e5) eqn:ST; [exact H5|].
  destruct (score >? ta)%Z; [|apply HN; assumption].
  set (e6 := insert_pv e5 m).
  assert (H6 : SInv e6) by (apply (SInv_live_write e5); [exact ST|reflexivity|reflexivity|exact H5]).
  assert (ST6 : stopping e6 = false) by exact ST.
  destruct (score >=? b)%Z.
  - cbn [lres_inv]. destruct (mv_cap m).
    + apply (SInv_live_write e6); [exact ST6|reflexivity|reflexivity|exact H6].
    + apply (SInv_live_write e6); [exact ST6|reflexivity|reflexivity|exact H6].
  - apply HN.
    + destruct (mv_cap m); [exact H6|eapply SInv_same; [apply sf_set_history|exact H6]].
    + destruct (mv_cap m); exact ST6.
Qed.

Lemma search_move_inv g' depth nd inchk m searched ta b e3 after :
  SInv e3 -> (forall s e4, SInv e4 -> lres_inv (after s e4)) ->
  lres_inv (search_move g' depth nd inchk m searched ta b e3 after).
Proof.
  intros H3 HA. unfold Search.search_move.
  assert (HRt : forall d' a' b' ex, SInv ex -> forall k,
            (forall s e4, SInv e4 -> lres_inv (k s e4)) -> lres_inv (neg_res (rec_n g' d' a' b' ex) k)).
  { intros d' a' b' ex Hx k K. pose proof (Hn g' d' a' b' ex Hx) as R.
    destruct (rec_n g' d' a' b' ex) as [s e4|]; cbn [neg_res]; [|exact I]. apply K. exact R. }
  destruct (Nat.eqb searched 0).
  - apply HRt; [exact H3|exact HA].
  - cbn zeta.
    assert (HP : forall s1 e', SInv e' ->
      lres_inv (if (s1 >? ta)%Z then
          neg_res (rec_n g' (nd - 1)%nat (- ta - 1)%Z (- ta)%Z e')
            (fun s2 e'' => if (s2 >? ta)%Z && (s2 <? b)%Z
                           then neg_res (rec_n g' (nd - 1)%nat (- b)%Z (- ta)%Z e'') after
                           else after s2 e'')
        else after s1 e')).
    { intros s1 e' H'. destruct (s1 >? ta)%Z; [|apply HA; exact H'].
      apply HRt; [exact H'|]. intros s2 e'' H''. destruct (_ && _); [|apply HA; exact H''].
      apply HRt; [exact H''|exact HA]. }
    destruct (_ && _ && _ && _ && _).
    + apply HRt; [exact H3|exact HP].
    + apply HP. exact H3.
Qed.

Lemma nloop_inv g depth nd inchk ms : forall searched legal ta b ex e,
  SInv e -> ((0 < legal)%nat -> stopping e = false) ->
  lres_inv (nloop rec_n g depth nd inchk ms searched legal ta b ex e).
Proof.
  induction ms as [|m rest IH]; intros searched legal ta b ex e H HL; cbn [Search.nloop].
  - split; assumption.
  - unfold make_rep. destruct (make g m) as [g'|].
    + set (e1 := set_ply e (S (ply e))).
      set (e3 := rep_back (rep_insert e1 (key g'))).
      assert (H3 : SInv e3).
      { eapply SInv_same; [|exact H]. eapply sf_trans; [apply sf_set_ply|]. eapply sf_trans; [apply sf_rep_insert|apply sf_rep_back]. }
      apply search_move_inv; [exact H3|].
      intros s e4 H4. apply after_move_inv; [|exact H4].
      intros s' l t x e' H' ST'. apply IH; [exact H'|intros _; exact ST'].
    + apply IH.
      * eapply SInv_same; [|exact H]. eapply sf_trans; apply sf_set_ply.
      * exact HL.
Qed.

Lemma move_phase_inv g depth nd inchk a b e : SInv e -> res_inv (move_phase g depth nd inchk a b e).
Proof.
  intros H. unfold Search.move_phase. cbn zeta.
  set (ms0 := gen g true).
  set (ey := if follow_pv e then enable_pv_scoring ms0 e else e).
  assert (Hy : SInv ey) by (subst ey; destruct (follow_pv e); [apply SInv_enable_pv; exact H|exact H]).
  destruct (sort_moves g ms0 ey) as [ms ez] eqn:ES.
  pose proof (SInv_sort_moves g ms0 ey Hy) as Hz. rewrite ES in Hz. cbn [snd] in Hz.
  pose proof (nloop_inv g depth nd inchk ms 0 0 a b false ez Hz ltac:(lia)) as HL.
  destruct (nloop rec_n g depth nd inchk ms 0 0 a b false ez) as [s ew|ta ew legal exa|]; cbn [lres_inv] in HL.
  - exact HL.
  - destruct HL as [Hw Lw]. destruct (Nat.eqb legal 0) eqn:LZ.
    + destruct inchk; cbn [res_inv]; (eapply SInv_same; [apply sf_emit|exact Hw]).
    + cbn [res_inv]. apply Nat.eqb_neq in LZ. specialize (Lw ltac:(lia)).
      apply (SInv_live_write ew); [exact Lw|reflexivity|reflexivity|exact Hw].
  - exact I.
Qed.

Lemma negamax_body_inv : Fn (negamax_body rec_n rec_q).
Proof.
  intros g d a b e H. unfold Search.negamax_body.
  set (e0 := emit e _).
  assert (H0 : SInv e0) by (eapply SInv_same; [apply sf_emit|exact H]).
  destruct (_ && rep_hit e0 (key g)).
  { cbn [res_inv]. eapply SInv_same; [|exact H0]. eapply sf_trans; [apply sf_set_pvlen|apply sf_emit]. }
  match goal with |- context [match ?X with Some _ => _ | None => _ end] => destruct X end.
  { cbn [res_inv]. eapply SInv_same; [|exact H0]. eapply sf_trans; [apply sf_set_hits|apply sf_emit]. }
  set (e1 := set_pv e0 _ _).
  assert (H1 : SInv e1) by (eapply SInv_same; [apply sf_set_pvlen|exact H0]).
  destruct (Nat.leb _ _); [exact H1|].
  set (e2 := maybe_poll e1).
  assert (H2 : SInv e2) by (apply SInv_maybe_poll; exact H1).
  destruct (_ || _); [apply Hq; exact H2|].
  set (e3 := set_nodes e2 _).
  assert (H3 : SInv e3) by (eapply SInv_same; [apply sf_set_nodes|exact H2]).
  destruct (_ && _ && _).
  - set (e4 := set_ply e3 (S (ply e3))).
    assert (H4 : SInv e4) by (eapply SInv_same; [apply sf_set_ply|exact H3]).
    pose proof (Hn (null g) ((if in_check g then S d else d) - 3)%nat (- b)%Z (- b + 1)%Z e4 H4) as R.
    destruct (rec_n (null g) _ _ _ e4) as [s e5|]; [|exact I]. cbn [res_inv] in R.
    set (e6 := set_ply e5 (pred (ply e5))).
    assert (H6 : SInv e6) by (eapply SInv_same; [apply sf_set_ply|exact R]).
    destruct (stopping e6); [exact H6|]. destruct (_ >=? b)%Z; [exact H6|].
    apply move_phase_inv. exact H6.
  - apply move_phase_inv. exact H3.
Qed.

End BodyLemmas.

Theorem search_frame_inv : forall fuel, Fn (negamax fuel) /\ Fq (quiescence fuel).
Proof.
  induction fuel as [|f [IHn IHq]].
  - split; [intros g d a b e H|intros g a b e H]; exact I.
  - split.
    + apply negamax_body_inv; assumption.
    + apply quiescence_body_inv; assumption.
Qed.

(* ---- the whole search(): the final TT and PV table are those at the moment the stop was first observed ---- *)
Notation id_loop := (id_loop gen make null evalf in_check key half100 mv_eqb mv_cap mv_promo mv_hidx cap_score null_mv legalb pollp stop_at tt_bypass).
Notation search := (search gen make null evalf in_check key half100 mv_eqb mv_cap mv_promo mv_hidx cap_score null_mv legalb pollp stop_at tt_bypass).

Definition sres_inv (r : sres pos move) : Prop := match r with SDone _ e' _ => SInv e' | SFuel => True end.

Lemma id_loop_inv iters : forall g cur maxd a b sc e outs, SInv e -> sres_inv (id_loop iters g cur maxd a b sc e outs).
Proof.
  induction iters as [|it IH]; intros g cur maxd a b sc e outs H; cbn [Search.id_loop].
  - exact H.
  - destruct (Nat.ltb maxd cur); [exact H|].
    set (e0 := set_flags e true (score_pv e)).
    assert (H0 : SInv e0) by (eapply SInv_same; [apply sf_set_flags|exact H]).
    pose proof (proj1 (search_frame_inv (FUEL)) g cur a b e0 H0) as R.
    destruct (negamax FUEL g cur a b e0) as [s e1|]; [|exact I]. cbn [res_inv] in R.
    destruct (stopping e1); [exact R|].
    destruct (_ || _); apply IH; exact R.
Qed.

Theorem search_snapshot g depth t rt ri :
  match search g depth t rt ri with
  | SDone _ e _ =>
    match snap e with
    | Some (t', pt, _) => stopping e = true /\ tbl e = t' /\ pvtab e = pt
    | None => stopping e = false
    end
  | SFuel => True
  end.
Proof.
  unfold Search.search.
  pose proof (id_loop_inv (S (max_depth_of depth)) g 1 (max_depth_of depth) (- INFINITY)%Z INFINITY 0%Z
                (@init_env pos move null_mv t rt ri) [] eq_refl) as H.
  destruct (id_loop _ g 1 _ _ _ _ _ []) as [outs e s|]; [exact H|exact I].
Qed.

End Frame.
