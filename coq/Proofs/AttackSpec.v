(* C01, first layer: the attack sets of the model are the attack relations of the specification.
   Sliders: tb (slide dirs f occ) t  <->  line (f, t) and every square strictly between is empty -- through the generic
   characterisation of `walk` (Proofs/AttackSym.v) and a kernel-evaluated check of the geometry over all 64 x 64 pairs;
   leapers and pawns by evaluation. *)
From Coq Require Import NArith ZArith List Bool Lia.
From JV Require Import Gen.Consts Spec.Rays Model.Bits Model.Chess Model.Abs Spec.ChessSpec Proofs.BitsProofs Proofs.BitboardProofs
  Proofs.AttackSym Proofs.AbsBase Proofs.MoveGenProofs Proofs.ZobristProofs Proofs.KeyProofs Proofs.GenProofs Proofs.ConsProofs Proofs.GenOk Proofs.CellProofs Proofs.KingsProofs Proofs.RangeProofs.
Import ListNotations.
Local Open Scope N_scope.

Fixpoint prefix_before (t : N) (l : list N) : list N :=
  match l with [] => [] | x :: r => if x =? t then [] else x :: prefix_before t r end.
Fixpoint eq_sq_list (a b : list sq) : bool :=
  match a, b with [] , [] => true | x :: a', y :: b' => sq_eqb x y && eq_sq_list a' b' | _, _ => false end.
Definition dir_eqb (a b : Z * Z) : bool := (fst a =? fst b)%Z && (snd a =? snd b)%Z.

Definition slider_ok (D : list (Z * Z)) (line : sq -> sq -> bool) (f t : N) : bool :=
  match find (fun d => memN t (rayl f d)) D with
  | Some d =>
    line (sq_of_idx f) (sq_of_idx t) &&
    eq_sq_list (map sq_of_idx (prefix_before t (rayl f d))) (between (sq_of_idx f) (sq_of_idx t)) &&
    forallb (fun d' => dir_eqb d' d || negb (memN t (rayl f d'))) D &&
    forallb (fun s => s <? 64) (rayl f d)
  | None => negb (line (sq_of_idx f) (sq_of_idx t))
  end.
Definition slider_check D line : bool := forallb (fun f => forallb (slider_ok D line f) (seqN 0 64)) (seqN 0 64).

Lemma rook_slider_check : slider_check rook_dirs rook_line = true.
Proof. vm_compute. reflexivity. Qed.
Lemma bishop_slider_check : slider_check bishop_dirs bishop_line = true.
Proof. vm_compute. reflexivity. Qed.

Lemma reachl_notin l occ t : ~ In t l -> reachl l occ t = false.
Proof.
  induction l as [|x r IH]; intros NI; cbn [reachl]; [reflexivity|].
  destruct (N.eqb_spec x t) as [->|NE]; [exfalso; apply NI; left; reflexivity|]. cbn [orb].
  rewrite IH by (intros X; apply NI; right; exact X). apply andb_false_r.
Qed.
Lemma reachl_prefix l occ t : In t l -> reachl l occ t = forallb (fun x => negb (N.testbit occ x)) (prefix_before t l).
Proof.
  induction l as [|x r IH]; intros HI; [destruct HI|]. cbn [reachl prefix_before].
  destruct (N.eqb_spec x t) as [->|NE]; [reflexivity|]. cbn [orb forallb]. destruct HI as [E|HI]; [congruence|]. rewrite IH by exact HI. reflexivity.
Qed.
Lemma memN_true x l : memN x l = true -> In x l.
Proof. unfold memN. intros H. apply existsb_exists in H. destruct H as (y & Y & E). apply N.eqb_eq in E. subst. exact Y. Qed.
Lemma memN_in x l : In x l -> memN x l = true.
Proof. intros H. unfold memN. apply existsb_exists. exists x. split; [exact H|apply N.eqb_refl]. Qed.

Lemma dir_eqb_eq a b : dir_eqb a b = true -> a = b.
Proof. unfold dir_eqb. intros H. apply andb_true_iff in H. destruct H as [A B]. apply Z.eqb_eq in A, B. destruct a, b. cbn in *. congruence. Qed.

(* emptiness of a square of the 64-cell board of a consistent position *)
Lemma empty_abs_cons g s : cons g -> (s < 64)%N -> empty (board (abs g)) (sq_of_idx s) = negb (tb (aocc g) s).
Proof.
  intros C L. unfold empty, at_. destruct (sq_idx s L) as (I & O). rewrite O, I.
  assert (BN : nth (N.to_nat s) (board (abs g)) None = cell g s).
  { unfold abs. cbn [board]. rewrite (nth_indep _ None (cell g 0)) by (rewrite map_length, seqN_length; lia).
    rewrite map_nth. f_equal. rewrite nth_seqN by lia. lia. }
  rewrite BN, who_cell. destruct (who (st_of g) s) as [q|] eqn:W.
  - destruct (who_inv _ _ _ W) as (Q & T). cbn. rewrite (board_in_aocc g C q s Q T). reflexivity.
  - cbn. destruct (tb (aocc g) s) eqn:A; [|reflexivity]. exfalso.
    rewrite (c_aocc g C) in A. apply orb_true_iff in A. destruct A as [A|A]; [apply (c_wocc g C) in A|apply (c_bocc g C) in A];
      destruct A as (q & Q & T); rewrite (who_some (st_of g) s q (cons_consB g C) ltac:(lia) T) in W; discriminate.
Qed.

Lemma forallb_eq_sq (P : sq -> bool) a b : (forall x y, sq_eqb x y = true -> P x = P y) -> eq_sq_list a b = true -> forallb P a = forallb P b.
Proof.
  intros PE. revert b. induction a as [|x a IH]; intros [|y b] H; cbn in H; try discriminate; [reflexivity|].
  apply andb_true_iff in H. destruct H as [H1 H2]. cbn [forallb]. rewrite (PE x y H1), (IH b H2). reflexivity.
Qed.
Lemma sq_eqb_eq x y : sq_eqb x y = true -> x = y.
Proof. unfold sq_eqb. intros H. apply andb_true_iff in H. destruct H as [A B]. apply Z.eqb_eq in A, B. destruct x, y. cbn in *. congruence. Qed.

Lemma forallb_map' {A B} (f : A -> B) (P : B -> bool) l : forallb P (map f l) = forallb (fun x => P (f x)) l.
Proof. induction l as [|x r IH]; cbn; [reflexivity|]. rewrite IH. reflexivity. Qed.
Lemma forallb_ext_in' {A} (P Q : A -> bool) l : (forall x, In x l -> P x = Q x) -> forallb P l = forallb Q l.
Proof. induction l as [|x r IH]; intros H; cbn; [reflexivity|]. rewrite (H x (or_introl eq_refl)), IH; [reflexivity|]. intros y Hy. apply H. right. exact Hy. Qed.

Lemma existsb_unique (D : list (Z * Z)) (P : Z * Z -> bool) d : In d D ->
  (forall d', In d' D -> dir_eqb d' d = true \/ P d' = false) -> existsb P D = P d.
Proof.
  induction D as [|d0 D IH]; intros DI U; [destruct DI|]. cbn [existsb].
  destruct (P d0) eqn:P0.
  - destruct (U d0 (or_introl eq_refl)) as [E|E]; [apply dir_eqb_eq in E; subst d0; rewrite P0; reflexivity|congruence].
  - cbn [orb]. destruct DI as [<-|DI].
    + rewrite P0. apply not_true_iff_false. intros X. apply existsb_exists in X. destruct X as (d' & Hd & Pd).
      destruct (U d' (or_intror Hd)) as [E|E]; [apply dir_eqb_eq in E; subst d'; congruence|congruence].
    + apply IH; [exact DI|]. intros d' Hd. apply U. right. exact Hd.
Qed.

Theorem slide_is_line D line g f t : slider_check D line = true -> cons g -> f < 64 -> t < 64 ->
  N.testbit (slide D f (aocc g)) t = line (sq_of_idx f) (sq_of_idx t) && clear_path (board (abs g)) (sq_of_idx f) (sq_of_idx t).
Proof.
  intros CHK C F T. pose proof (all64x64 _ CHK f t F T) as OK. unfold slider_ok in OK.
  rewrite slide_reach. destruct (find (fun d => memN t (rayl f d)) D) as [d|] eqn:FD.
  - apply andb_true_iff in OK. destruct OK as [OK RNG]. apply andb_true_iff in OK. destruct OK as [OK UNI]. apply andb_true_iff in OK. destruct OK as [LN BT].
    rewrite LN. cbn [andb]. apply find_some in FD. destruct FD as (DI & MT). apply memN_true in MT.
    (* only direction d reaches t *)
    assert (EX : existsb (fun d0 => reachl (rayl f d0) (aocc g) t) D = reachl (rayl f d) (aocc g) t).
    { apply (existsb_unique D (fun d0 => reachl (rayl f d0) (aocc g) t) d); [exact DI|]. rewrite forallb_forall in UNI. intros d' Hd. specialize (UNI d' Hd).
      apply orb_true_iff in UNI. destruct UNI as [U|U]; [left; exact U|right].
      apply negb_true_iff in U. apply reachl_notin. apply memN_false. exact U. }
    rewrite EX, (reachl_prefix _ _ _ MT). unfold clear_path.
    rewrite <- (forallb_eq_sq (empty (board (abs g))) _ _ ltac:(intros x y E; apply sq_eqb_eq in E; subst; reflexivity) BT).
    rewrite forallb_map'. rewrite forallb_forall in RNG.
    assert (PIN : forall x, In x (prefix_before t (rayl f d)) -> In x (rayl f d)).
    { generalize (rayl f d). induction l as [|y r IH]; intros x Hx; cbn [prefix_before] in Hx; [destruct Hx|].
      destruct (y =? t); [destruct Hx|]. destruct Hx as [<-|Hx]; [left; reflexivity|right; apply IH; exact Hx]. }
    apply forallb_ext_in'. intros x Hx. specialize (RNG x (PIN x Hx)). apply N.ltb_lt in RNG. rewrite (empty_abs_cons g x C RNG). reflexivity.
  - apply negb_true_iff in OK. rewrite OK. cbn [andb].
    assert (NONE : forall d, In d D -> ~ In t (rayl f d)).
    { intros d DI HI. pose proof (find_none _ _ FD d DI) as X. cbn beta in X. rewrite (memN_in _ _ HI) in X. discriminate. }
    clear -NONE. induction D as [|d D IH]; [reflexivity|]. cbn [existsb]. rewrite (reachl_notin _ _ _ (NONE d (or_introl eq_refl))). cbn [orb].
    apply IH. intros d' Hd. apply NONE. right. exact Hd.
Qed.

(* ---- leapers and pawns: evaluation over all pairs ---- *)
Definition pair_eq_check (rel : N -> N -> bool) (spec : sq -> sq -> bool) : bool :=
  forallb (fun f => forallb (fun t => Bool.eqb (rel f t) (spec (sq_of_idx f) (sq_of_idx t))) (seqN 0 64)) (seqN 0 64).
Lemma pair_eq_spec rel spec : pair_eq_check rel spec = true -> forall f t, f < 64 -> t < 64 -> rel f t = spec (sq_of_idx f) (sq_of_idx t).
Proof.
  intros CHK f t F T. pose proof (all64x64 (fun f t => Bool.eqb (rel f t) (spec (sq_of_idx f) (sq_of_idx t))) CHK f t F T) as X.
  cbn beta in X. apply eqb_prop in X. exact X.
Qed.

Lemma knight_is_jump : pair_eq_check (fun f t => N.testbit (knight_att f) t) knight_jump = true.
Proof. vm_compute. reflexivity. Qed.
Lemma king_is_step : pair_eq_check (fun f t => N.testbit (king_att f) t) king_step = true.
Proof. vm_compute. reflexivity. Qed.
Lemma wpawn_is_attack : pair_eq_check (fun f t => N.testbit (pawn_att f true) t) (pawn_attacks White) = true.
Proof. vm_compute. reflexivity. Qed.
Lemma bpawn_is_attack : pair_eq_check (fun f t => N.testbit (pawn_att f false) t) (pawn_attacks Black) = true.
Proof. vm_compute. reflexivity. Qed.

(* the attack set of a man of colour c and kind k standing on f *)
Definition att_of (g : game) (c : color) (k : kind) (f : N) : N :=
  match k with
  | Pawn => pawn_att f (match c with White => true | Black => false end)
  | Knight => knight_att f
  | King => king_att f
  | Rook => rook_att f (aocc g)
  | Bishop => bishop_att f (aocc g)
  | Queen => queen_att f (aocc g)
  end.

Theorem attacks_from_model g c k f t : cons g -> f < 64 -> t < 64 ->
  attacks_from (board (abs g)) c k (sq_of_idx f) (sq_of_idx t) = N.testbit (att_of g c k f) t.
Proof.
  intros C F T. destruct k; cbn [attacks_from att_of].
  - destruct c; symmetry; [apply (pair_eq_spec _ _ wpawn_is_attack f t F T)|apply (pair_eq_spec _ _ bpawn_is_attack f t F T)].
  - symmetry. apply (pair_eq_spec _ _ knight_is_jump f t F T).
  - symmetry. unfold bishop_att. apply (slide_is_line bishop_dirs bishop_line g f t bishop_slider_check C F T).
  - symmetry. unfold rook_att. apply (slide_is_line rook_dirs rook_line g f t rook_slider_check C F T).
  - unfold queen_att. rewrite N.lor_spec. unfold rook_att, bishop_att.
    rewrite (slide_is_line rook_dirs rook_line g f t rook_slider_check C F T), (slide_is_line bishop_dirs bishop_line g f t bishop_slider_check C F T).
    destruct (rook_line _ _), (bishop_line _ _), (clear_path _ _ _); reflexivity.
  - symmetry. apply (pair_eq_spec _ _ king_is_step f t F T).
Qed.

(* ---- `attacked` of the specification = is_square_attacked of the model ---- *)
Definition all_sq_ok1 : bool := forallb (fun a => sq_eqb a (sq_of_idx (N.of_nat (idx a))) && Nat.ltb (idx a) 64) all_sq.
Definition all_sq_ok2 : bool := forallb (fun s => existsb (sq_eqb (sq_of_idx s)) all_sq) (seqN 0 64).
Lemma all_sq_check1 : all_sq_ok1 = true. Proof. vm_compute. reflexivity. Qed.
Lemma all_sq_check2 : all_sq_ok2 = true. Proof. vm_compute. reflexivity. Qed.

Lemma all_sq_in a : In a all_sq -> exists s, s < 64 /\ a = sq_of_idx s.
Proof.
  intros H. pose proof all_sq_check1 as X. unfold all_sq_ok1 in X. rewrite forallb_forall in X. specialize (X a H).
  apply andb_true_iff in X. destruct X as [X1 X2]. apply sq_eqb_eq in X1. apply Nat.ltb_lt in X2.
  exists (N.of_nat (idx a)). split; [lia|exact X1].
Qed.
Lemma all_sq_has s : s < 64 -> In (sq_of_idx s) all_sq.
Proof.
  intros L. pose proof (all64 _ all_sq_check2 s L) as X. cbn beta in X. apply existsb_exists in X. destruct X as (a & A & E).
  apply sq_eqb_eq in E. rewrite E. exact A.
Qed.

Lemma land_ne0' a b s : N.testbit a s = true -> N.testbit b s = true -> negb (N.land a b =? 0) = true.
Proof.
  intros A B. apply negb_true_iff. apply N.eqb_neq. intros Z.
  assert (X : N.testbit (N.land a b) s = false) by (rewrite Z; apply N.bits_0). rewrite N.land_spec, A, B in X. discriminate.
Qed.
Lemma land_ne0_inv a b : negb (N.land a b =? 0) = true -> exists s, N.testbit a s = true /\ N.testbit b s = true.
Proof.
  intros H. apply negb_true_iff, N.eqb_neq in H. destruct (bits_of (N.land a b)) as [|s r] eqn:E.
  - exfalso. apply H. apply N.bits_inj. intros n. rewrite N.bits_0. destruct (N.testbit (N.land a b) n) eqn:T; [|reflexivity].
    apply bits_of_spec in T. rewrite E in T. destruct T.
  - exists s. assert (T : N.testbit (N.land a b) s = true) by (apply bits_of_spec; rewrite E; left; reflexivity).
    rewrite N.land_spec in T. apply andb_true_iff in T. exact T.
Qed.

Definition wb (c : color) : bool := match c with White => true | Black => false end.

(* the man index of a (colour, kind) *)
Definition pidx (c : color) (k : kind) : N :=
  (match c with White => 0 | Black => 6 end) + (match k with Pawn => 0 | Knight => 1 | Bishop => 2 | Rook => 3 | Queen => 4 | King => 5 end).
Lemma piece_of_pidx c k : piece_of (pidx c k) = (c, k).
Proof. destruct c, k; reflexivity. Qed.
Lemma pidx_piece_of q : q < 12 -> pidx (fst (piece_of q)) (snd (piece_of q)) = q.
Proof.
  intros Q. assert (X : In q PIECES) by (apply PIECES_in; exact Q). unfold PIECES in X. cbn in X.
  repeat (destruct X as [<-|X]; [reflexivity|]). destruct X.
Qed.

(* what is_square_attacked looks up for the men of kind k of the attacking side: the reversed pattern from the target *)
Definition rev_att (g : game) (c : color) (k : kind) (b : N) : N :=
  match k with
  | Pawn => pawn_att b (negb (wb c))
  | Knight => knight_att b
  | King => king_att b
  | Rook => rook_att b (aocc g)
  | Bishop => bishop_att b (aocc g)
  | Queen => queen_att b (aocc g)
  end.

Lemma isa_kind g c b : is_square_attacked (bbs g) (aocc g) b (wb c) =
  existsb (fun k => negb (N.land (rev_att g c k b) (bb g (pidx c k)) =? 0)) [Pawn; Knight; King; Rook; Bishop; Queen].
Proof.
  unfold is_square_attacked. cbn zeta. destruct c; cbn [wb existsb rev_att negb pidx]; unfold bb;
    change (0 + 0) with WP; change (0 + 1) with WN; change (0 + 5) with WK; change (0 + 3) with WR; change (0 + 2) with WB; change (0 + 4) with WQ;
    change (6 + 0) with BP; change (6 + 1) with BN; change (6 + 5) with BK; change (6 + 3) with BR; change (6 + 2) with BB; change (6 + 4) with BQ;
    rewrite orb_false_r, !orb_assoc; reflexivity.
Qed.

(* attack from s to b (forward pattern) <-> b sees s in the reversed pattern *)
Lemma rev_att_sym g c k s b : s < 64 -> b < 64 ->
  N.testbit (att_of g c k s) b = N.testbit (rev_att g c k b) s.
Proof.
  intros S B. destruct k; cbn [att_of rev_att].
  - destruct c; cbn [wb negb].
    + destruct (N.testbit (pawn_att s true) b) eqn:X.
      * symmetry. apply (pair_check_spec _ _ wpawn_check s b S B X).
      * destruct (N.testbit (pawn_att b false) s) eqn:Y; [|reflexivity]. rewrite (pair_check_spec _ _ bpawn_check b s B S Y) in X. discriminate.
    + destruct (N.testbit (pawn_att s false) b) eqn:X.
      * symmetry. apply (pair_check_spec _ _ bpawn_check s b S B X).
      * destruct (N.testbit (pawn_att b true) s) eqn:Y; [|reflexivity]. rewrite (pair_check_spec _ _ wpawn_check b s B S Y) in X. discriminate.
  - destruct (N.testbit (knight_att s) b) eqn:X; [symmetry; apply (pair_check_spec _ _ knight_check s b S B X)|].
    destruct (N.testbit (knight_att b) s) eqn:Y; [|reflexivity]. rewrite (pair_check_spec _ _ knight_check b s B S Y) in X. discriminate.
  - destruct (N.testbit (bishop_att s (aocc g)) b) eqn:X; [symmetry; apply bishop_att_sym; assumption|].
    destruct (N.testbit (bishop_att b (aocc g)) s) eqn:Y; [|reflexivity]. rewrite (bishop_att_sym b s _ B Y) in X. discriminate.
  - destruct (N.testbit (rook_att s (aocc g)) b) eqn:X; [symmetry; apply rook_att_sym; assumption|].
    destruct (N.testbit (rook_att b (aocc g)) s) eqn:Y; [|reflexivity]. rewrite (rook_att_sym b s _ B Y) in X. discriminate.
  - destruct (N.testbit (queen_att s (aocc g)) b) eqn:X; [symmetry; apply queen_att_sym; assumption|].
    destruct (N.testbit (queen_att b (aocc g)) s) eqn:Y; [|reflexivity]. rewrite (queen_att_sym b s _ B Y) in X. discriminate.
  - destruct (N.testbit (king_att s) b) eqn:X; [symmetry; apply (pair_check_spec _ _ king_check s b S B X)|].
    destruct (N.testbit (king_att b) s) eqn:Y; [|reflexivity]. rewrite (pair_check_spec _ _ king_check b s B S Y) in X. discriminate.
Qed.

Lemma at_abs_cons g s : (s < 64)%N -> at_ (board (abs g)) (sq_of_idx s) = cell g s.
Proof.
  intros L. destruct (sq_idx s L) as (I & O). unfold at_. rewrite O, I.
  unfold abs. cbn [board]. rewrite (nth_indep _ None (cell g 0)) by (rewrite map_length, seqN_length; lia).
  rewrite map_nth. f_equal. rewrite nth_seqN by lia. lia.
Qed.

Theorem attacked_model g c b : cons g -> range g -> b < 64 ->
  attacked (board (abs g)) c (sq_of_idx b) = is_square_attacked (bbs g) (aocc g) b (wb c).
Proof.
  intros C R B. rewrite isa_kind. apply eq_true_iff_eq. split.
  - (* specification -> model *)
    unfold attacked. intros H. apply existsb_exists in H. destruct H as (a & A & P).
    destruct (all_sq_in a A) as (s & S & ->). rewrite (at_abs_cons g s S), who_cell in P.
    destruct (who (st_of g) s) as [q|] eqn:W; [|discriminate]. destruct (who_inv _ _ _ W) as (Q & T).
    cbn [option_map] in P. destruct (piece_of q) as [c' k] eqn:PQ. apply andb_true_iff in P. destruct P as [CE AT].
    assert (c' = c) by (destruct c, c'; cbn in CE; congruence). subst c'.
    rewrite (attacks_from_model g c k s b C S B), (rev_att_sym g c k s b S B) in AT.
    apply existsb_exists. exists k. split; [destruct k; cbn; auto 10|].
    assert (QE : pidx c k = q) by (rewrite <- (pidx_piece_of q Q), PQ; reflexivity). rewrite QE.
    apply (land_ne0' _ _ s AT T).
  - (* model -> specification *)
    intros H. apply existsb_exists in H. destruct H as (k & _ & NZ). apply land_ne0_inv in NZ. destruct NZ as (s & AT & T).
    assert (Q : pidx c k < 12) by (destruct c, k; reflexivity).
    assert (S : s < 64) by (apply (r_sq g R (pidx c k) s Q T)).
    unfold attacked. apply existsb_exists. exists (sq_of_idx s). split; [apply all_sq_has; exact S|].
    rewrite (at_abs_cons g s S), who_cell. rewrite (who_some (st_of g) s (pidx c k) (cons_consB g C) Q T). cbn [option_map].
    rewrite piece_of_pidx. rewrite (attacks_from_model g c k s b C S B), (rev_att_sym g c k s b S B), AT.
    destruct c; reflexivity.
Qed.

Lemma find_unique {A} (P : A -> bool) l x : In x l -> P x = true -> (forall y, In y l -> P y = true -> y = x) -> find P l = Some x.
Proof.
  induction l as [|y r IH]; intros HI PX U; [destruct HI|]. cbn [find]. destruct (P y) eqn:PY.
  - f_equal. apply U; [left; reflexivity|exact PY].
  - destruct HI as [->|HI]; [congruence|]. apply IH; [exact HI|exact PX|]. intros z Hz. apply U. right. exact Hz.
Qed.

Lemma has_king g c s : cons g -> s < 64 -> has (board (abs g)) (sq_of_idx s) (c, King) = tb (bb g (pidx c King)) s.
Proof.
  intros C S. unfold has. rewrite (at_abs_cons g s S), who_cell.
  destruct (tb (bb g (pidx c King)) s) eqn:T.
  - rewrite (who_some (st_of g) s (pidx c King) (cons_consB g C) ltac:(destruct c; reflexivity) T). cbn [option_map]. rewrite piece_of_pidx.
    cbn [fst snd]. destruct c; reflexivity.
  - destruct (who (st_of g) s) as [q|] eqn:W; [|reflexivity]. destruct (who_inv _ _ _ W) as (Q & TQ). cbn [option_map].
    destruct (piece_of q) as [c' k'] eqn:PQ. cbn [fst snd].
    destruct (color_eqb c' c && kind_eqb k' King) eqn:E; [|reflexivity]. exfalso.
    apply andb_true_iff in E. destruct E as [E1 E2].
    assert (c' = c) by (destruct c, c'; cbn in E1; congruence). assert (k' = King) by (destruct k'; cbn in E2; congruence). subst.
    assert (QE : pidx c King = q) by (rewrite <- (pidx_piece_of q Q), PQ; reflexivity). rewrite QE in T. change (sb (st_of g) q s) with (tb (bb g q) s) in TQ. congruence.
Qed.

Lemma single_ls' b k : (forall s, tb b s = true <-> s = k) -> least_significant b = k.
Proof.
  intros S. unfold least_significant. pose proof (bits_of_nodup b) as ND.
  assert (M : forall s, In s (bits_of b) <-> s = k) by (intros s; rewrite bits_of_spec; apply S).
  destruct (bits_of b) as [|x [|y r]].
  - exfalso. apply (proj2 (M k) eq_refl).
  - apply M. left. reflexivity.
  - exfalso. assert (x = k) by (apply M; left; reflexivity). assert (y = k) by (apply M; right; left; reflexivity). subst.
    inversion ND as [|? ? NI _]. apply NI. left. reflexivity.
Qed.

Theorem in_check_model g c : cons g -> range g -> kings g ->
  ChessSpec.in_check (board (abs g)) c = in_check_raw (bbs g) (aocc g) (wb c).
Proof.
  intros C R (KW & KB).
  assert (SK : single (bb g (pidx c King))) by (destruct c; [exact KW|exact KB]).
  destruct SK as (k & SK).
  assert (K64 : k < 64) by (apply (r_sq g R (pidx c King) k); [destruct c; reflexivity|apply SK; reflexivity]).
  unfold ChessSpec.in_check, king_sq.
  rewrite (find_unique (fun s => has (board (abs g)) s (c, King)) all_sq (sq_of_idx k)).
  - rewrite (attacked_model g (opp c) k C R K64).
    unfold in_check_raw. destruct c; cbn [wb opp].
    + change (nthN (bbs g) WK) with (bb g (pidx White King)). rewrite (single_ls' _ k SK). reflexivity.
    + change (nthN (bbs g) BK) with (bb g (pidx Black King)). rewrite (single_ls' _ k SK). reflexivity.
  - apply all_sq_has. exact K64.
  - rewrite (has_king g c k C K64). apply SK. reflexivity.
  - intros y Hy PY. destruct (all_sq_in y Hy) as (s & S & ->). rewrite (has_king g c s C S) in PY. apply SK in PY. subst. reflexivity.
Qed.
Print Assumptions in_check_model.
