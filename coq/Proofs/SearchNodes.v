(* C06 (generic part): which positions a search examines, for every game interface, oracle, TT content and history.
   Every node-entry event of the trace carries a position that is reachable from the root by steps of the form
   "a generated move accepted by make" or "a pass made while not in check", and a ply within the limit;
   a mate / stalemate verdict is only issued when make rejected every generated move of the node. *)
From Coq Require Import NArith ZArith List Bool Lia Permutation.
From JV Require Import Gen.Consts Model.TT Model.Search Proofs.SearchBalance Proofs.SortProofs.
Import ListNotations.

Section Nodes.
Variables (pos move : Type).
Variable gen : pos -> bool -> list move.
Variable make : pos -> move -> option pos.
Variable null : pos -> pos.
Variable evalf : pos -> Z.
Variable in_check : pos -> bool.
Variable key : pos -> N.
Variable half100 : pos -> bool.
Variable mv_eqb : move -> move -> bool.
Variable mv_cap : move -> bool.
Variable mv_promo : move -> bool.
Variable mv_hidx : move -> nat.
Variable cap_score : pos -> move -> Z.
Variable null_mv : move.
Variable pollp : N -> bool.
Variable stop_at : nat -> bool.
Variable tt_bypass : bool.

Notation env := (env pos move).
Notation res := (res pos move).
Notation lres := (lres pos move).
Notation negamax := (negamax gen make null evalf in_check key half100 mv_eqb mv_cap mv_promo mv_hidx cap_score null_mv pollp stop_at tt_bypass).
Notation quiescence := (quiescence gen make evalf key half100 mv_eqb mv_cap mv_hidx cap_score null_mv pollp stop_at).
Notation negamax_body := (negamax_body gen make null evalf in_check key half100 mv_eqb mv_cap mv_promo mv_hidx cap_score null_mv pollp stop_at tt_bypass).
Notation quiescence_body := (quiescence_body gen make evalf key half100 mv_eqb mv_cap mv_hidx cap_score null_mv pollp stop_at).
Notation nloop := (nloop make key mv_cap mv_promo mv_hidx).
Notation qloop := (qloop make key).
Notation sort_moves := (sort_moves mv_eqb mv_cap mv_hidx cap_score null_mv).
Notation maybe_poll := (maybe_poll pollp stop_at).
Notation enable_pv_scoring := (enable_pv_scoring mv_eqb null_mv).
Notation bal := (bal pos move stop_at).

Variable g0 : pos.     (* the root *)

Inductive reach : pos -> Prop :=
| reach_root : reach g0
| reach_move : forall g all m g', reach g -> In m (gen g all) -> make g m = Some g' -> reach g'
| reach_null : forall g, reach g -> in_check g = false -> reach (null g).

Definition node_ok (ev : event pos move) : Prop :=
  match ev with
  | ENode _ g _ _ _ _ _ _ _ _ => reach g
  | _ => True
  end.
Definition TraceOk (e : env) : Prop := Forall node_ok (trace e).

(* environments with the same trace *)
Definition same_tr (e e' : env) : Prop := trace e' = trace e.
Lemma same_tr_ok e e' : same_tr e e' -> TraceOk e -> TraceOk e'.
Proof. unfold same_tr, TraceOk. intros ->. auto. Qed.
Lemma emit_ok e ev : node_ok ev -> TraceOk e -> TraceOk (emit e ev).
Proof. intros H T. unfold TraceOk. cbn [trace emit]. constructor; assumption. Qed.

Lemma tr_poll e : TraceOk e -> TraceOk (poll stop_at e).
Proof.
  unfold Search.poll, TraceOk. cbn zeta. intros T.
  destruct (stop_at (npolls e) && negb (stopping e)); cbn; repeat constructor; exact T.
Qed.
Lemma tr_maybe_poll e : TraceOk e -> TraceOk (maybe_poll e).
Proof. unfold Search.maybe_poll. destruct (pollp _); [apply tr_poll|auto]. Qed.
Lemma tr_score_move g m e : same_tr e (snd (score_move mv_eqb mv_cap mv_hidx cap_score null_mv g m e)).
Proof. unfold score_move. repeat match goal with |- context [if ?c then _ else _] => destruct c end; reflexivity. Qed.
Lemma tr_score_all g ms : forall e, same_tr e (snd (score_all mv_eqb mv_cap mv_hidx cap_score null_mv g ms e)).
Proof.
  induction ms as [|m r IH]; intros e; cbn [score_all snd]; [reflexivity|].
  destruct (score_move mv_eqb mv_cap mv_hidx cap_score null_mv g m e) as [s e1] eqn:E1.
  destruct (score_all mv_eqb mv_cap mv_hidx cap_score null_mv g r e1) as [l e2] eqn:E2. cbn [snd].
  pose proof (tr_score_move g m e) as B1. rewrite E1 in B1. pose proof (IH e1) as B2. rewrite E2 in B2. unfold same_tr in *. cbn [snd] in *. congruence.
Qed.
Lemma tr_sort_moves g ms e : same_tr e (snd (sort_moves g ms e)).
Proof. unfold Search.sort_moves. destruct (score_all mv_eqb mv_cap mv_hidx cap_score null_mv g ms e) as [sc e1] eqn:E. cbn [snd]. pose proof (tr_score_all g ms e) as B. rewrite E in B. exact B. Qed.
Lemma tr_insert_pv e m : TraceOk e -> TraceOk (insert_pv e m).
Proof. intros T. unfold insert_pv, TraceOk. cbn. constructor; [exact I|exact T]. Qed.

Definition Nn (f : pos -> nat -> Z -> Z -> env -> res) : Prop :=
  forall g d a b e, reach g -> TraceOk e -> match f g d a b e with Val _ e' => TraceOk e' | OutOfFuel => True end.
Definition Nq (f : pos -> Z -> Z -> env -> res) : Prop :=
  forall g a b e, reach g -> TraceOk e -> match f g a b e with Val _ e' => TraceOk e' | OutOfFuel => True end.

Section BodyLemmas.
Variable rec_n : pos -> nat -> Z -> Z -> env -> res.
Variable rec_q : pos -> Z -> Z -> env -> res.
Hypothesis Hn : Nn rec_n.
Hypothesis Hq : Nq rec_q.

Notation after_move := (after_move key mv_cap mv_hidx).
Notation search_move := (search_move mv_cap mv_promo rec_n).
Notation move_phase := (move_phase gen make key mv_eqb mv_cap mv_promo mv_hidx cap_score null_mv rec_n).

Lemma qloop_nodes g ms : forall ta b e,
  reach g -> incl ms (gen g false) -> TraceOk e ->
  match qloop rec_q g ms ta b e with Val _ e' => TraceOk e' | OutOfFuel => True end.
Proof.
  induction ms as [|m rest IH]; intros ta b e R Hin T; cbn [Search.qloop].
  - exact T.
  - assert (Hrest : incl rest (gen g false)) by (intros x Hx; apply Hin; right; exact Hx).
    unfold make_rep. destruct (make g m) as [g'|] eqn:MK; [|apply IH; assumption].
    set (e2 := set_ply (rep_insert e (key g')) (S (ply (rep_insert e (key g'))))).
    assert (R' : reach g') by (eapply reach_move; [exact R|apply Hin; left; reflexivity|exact MK]).
    pose proof (Hq g' (- b)%Z (- ta)%Z e2 R' T) as H.
    destruct (rec_q g' (- b)%Z (- ta)%Z e2) as [s e3|]; [|exact I].
    set (e4 := rep_back (set_ply e3 (pred (ply e3)))).
    assert (T4 : TraceOk e4) by exact H.
    destruct (_ >=? b)%Z; [exact T4|]. apply IH; assumption.
Qed.

Lemma quiescence_body_nodes : Nq (quiescence_body rec_q).
Proof.
  intros g a b e R T. unfold Search.quiescence_body.
  set (e0 := emit e _).
  assert (T0 : TraceOk e0) by (apply emit_ok; [exact R|exact T]).
  set (e1 := maybe_poll e0). set (e2 := set_nodes e1 (N.succ (nodes e1))).
  assert (T2 : TraceOk e2) by (apply tr_maybe_poll; exact T0).
  destruct (_ || _); [exact T2|]. destruct (_ && _); [exact T2|].
  destruct (sort_moves g (gen g false) e2) as [ms e3] eqn:ES.
  pose proof (tr_sort_moves g (gen g false) e2) as S3. rewrite ES in S3. cbn [snd] in S3.
  pose proof (sort_moves_perm pos move mv_eqb mv_cap mv_hidx cap_score null_mv g (gen g false) e2) as PM. rewrite ES in PM. cbn [fst] in PM.
  apply qloop_nodes.
  - exact R.
  - intros x Hx. eapply Permutation_in; [exact PM|exact Hx].
  - eapply same_tr_ok; eassumption.
Qed.

Definition Lnodes (r : lres) : Prop :=
  match r with LRet _ e' => TraceOk e' | LDone _ e' _ _ => TraceOk e' | LFuel => True end.

Lemma after_move_nodes g depth m ta b ex searched legal next score e4 :
  (forall s l t x e', TraceOk e' -> Lnodes (next s l t x e')) -> TraceOk e4 ->
  Lnodes (after_move g depth m ta b ex searched legal next score e4).
Proof.
  intros HN T4. unfold Search.after_move. cbn zeta.
  set (e5 := set_ply e4 (pred (ply e4))).
  assert (T5 : TraceOk e5) by exact T4.
  destruct (stopping e5); [exact T5|].
  destruct (score >? ta)%Z; [|apply HN; exact T5].
  assert (T6 : TraceOk (insert_pv e5 m)) by (apply tr_insert_pv; exact T5).
  destruct (score >=? b)%Z.
  - cbn [Lnodes]. destruct (mv_cap m); unfold TraceOk; cbn; constructor; try exact I; exact T6.
  - apply HN. destruct (mv_cap m); exact T6.
Qed.

Lemma search_move_nodes g' depth nd inchk m searched ta b e3 after :
  reach g' -> TraceOk e3 -> (forall s e4, TraceOk e4 -> Lnodes (after s e4)) ->
  Lnodes (search_move g' depth nd inchk m searched ta b e3 after).
Proof.
  intros R T3 HA. unfold Search.search_move.
  assert (HRt : forall d' a' b' ex, TraceOk ex -> forall k,
            (forall s e4, TraceOk e4 -> Lnodes (k s e4)) -> Lnodes (neg_res (rec_n g' d' a' b' ex) k)).
  { intros d' a' b' ex Tx k K. pose proof (Hn g' d' a' b' ex R Tx) as H.
    destruct (rec_n g' d' a' b' ex) as [s e4|]; cbn [neg_res]; [|exact I]. apply K. exact H. }
  destruct (Nat.eqb searched 0).
  - apply HRt; [exact T3|exact HA].
  - cbn zeta.
    assert (HP : forall s1 e', TraceOk e' ->
      Lnodes (if (s1 >? ta)%Z then
          neg_res (rec_n g' (nd - 1)%nat (- ta - 1)%Z (- ta)%Z e')
            (fun s2 e'' => if (s2 >? ta)%Z && (s2 <? b)%Z
                           then neg_res (rec_n g' (nd - 1)%nat (- b)%Z (- ta)%Z e'') after
                           else after s2 e'')
        else after s1 e')).
    { intros s1 e' T'. destruct (s1 >? ta)%Z; [|apply HA; exact T'].
      apply HRt; [exact T'|]. intros s2 e'' T''. destruct (_ && _); [|apply HA; exact T''].
      apply HRt; [exact T''|exact HA]. }
    destruct (_ && _ && _ && _ && _).
    + apply HRt; [exact T3|exact HP].
    + apply HP. exact T3.
Qed.

Lemma nloop_nodes g depth nd inchk ms : forall searched legal ta b ex e,
  reach g -> incl ms (gen g true) -> TraceOk e ->
  Lnodes (nloop rec_n g depth nd inchk ms searched legal ta b ex e).
Proof.
  induction ms as [|m rest IH]; intros searched legal ta b ex e R Hin T; cbn [Search.nloop].
  - exact T.
  - assert (Hrest : incl rest (gen g true)) by (intros x Hx; apply Hin; right; exact Hx).
    unfold make_rep. destruct (make g m) as [g'|] eqn:MK.
    + assert (R' : reach g') by (eapply reach_move; [exact R|apply Hin; left; reflexivity|exact MK]).
      apply search_move_nodes; [exact R'|exact T|].
      intros s e4 T4. apply after_move_nodes; [|exact T4].
      intros s' l t x e' T'. apply IH; assumption.
    + apply IH; assumption.
Qed.

(* a loop that ends with no legal move counted (started from 0) was given only moves that make rejects *)
Lemma nloop_no_legal g depth nd inchk ms : forall searched ta b ex e ta' e' ex',
  nloop rec_n g depth nd inchk ms searched O ta b ex e = LDone ta' e' O ex' -> Forall (fun m => make g m = None) ms.
Proof.
  induction ms as [|m rest IH]; intros searched ta b ex e ta' e' ex' H; cbn [Search.nloop] in H; [constructor|].
  unfold make_rep in H. destruct (make g m) as [g'|] eqn:MK.
  - exfalso. revert H. unfold Search.search_move, Search.after_move.
    (* once a move is made, every continuation passes S legal (> 0) to the rest of the loop; a result with legal = 0 is impossible *)
    assert (NZ : forall ms' s l t x e0 ta0 e0' ex0, nloop rec_n g depth nd inchk ms' s (S l) t b x e0 <> LDone ta0 e0' O ex0).
    { induction ms' as [|m' r' IH']; intros s l t x e0 ta0 e0' ex0; cbn [Search.nloop]; [discriminate|].
      unfold make_rep. destruct (make g m') as [g''|]; [|apply IH'].
      unfold Search.search_move, Search.after_move. cbn zeta.
      repeat match goal with
             | |- context [neg_res ?r _] => destruct r; cbn [neg_res]; try discriminate
             | |- context [if ?c then _ else _] => destruct c; try discriminate; try apply IH'
             end. }
    cbn zeta.
    repeat match goal with
           | |- context [neg_res ?r _] => destruct r; cbn [neg_res]; try discriminate
           | |- context [if ?c then _ else _] => destruct c; try discriminate; try apply NZ
           end.
  - constructor; [exact MK|]. eapply IH. exact H.
Qed.

Lemma move_phase_nodes g depth nd inchk a b e : reach g -> TraceOk e ->
  match move_phase g depth nd inchk a b e with Val _ e' => TraceOk e' | OutOfFuel => True end.
Proof.
  intros R T. unfold Search.move_phase. cbn zeta.
  set (ms0 := gen g true).
  set (ey := if follow_pv e then enable_pv_scoring ms0 e else e).
  assert (Ty : TraceOk ey) by (subst ey; destruct (follow_pv e); [unfold Search.enable_pv_scoring; destruct (existsb _ _); exact T|exact T]).
  destruct (sort_moves g ms0 ey) as [ms ez] eqn:ES.
  pose proof (tr_sort_moves g ms0 ey) as Sz. rewrite ES in Sz. cbn [snd] in Sz.
  pose proof (sort_moves_perm pos move mv_eqb mv_cap mv_hidx cap_score null_mv g ms0 ey) as PM. rewrite ES in PM. cbn [fst] in PM.
  assert (Hin : incl ms (gen g true)) by (intros x Hx; eapply Permutation_in; [exact PM|exact Hx]).
  pose proof (nloop_nodes g depth nd inchk ms 0 0 a b false ez R Hin (same_tr_ok _ _ Sz Ty)) as HL.
  destruct (nloop rec_n g depth nd inchk ms 0 0 a b false ez) as [s ew|ta ew legal exa|]; cbn [Lnodes] in HL; [exact HL| |exact I].
  destruct (Nat.eqb legal 0).
  - destruct inchk; unfold TraceOk; cbn; constructor; try exact I; exact HL.
  - unfold TraceOk. cbn. constructor; [exact I|exact HL].
Qed.

(* the verdict: it is only issued when make rejected every generated move *)
Lemma move_phase_verdict g depth nd inchk a b e ms ez ta ew exa :
  sort_moves g (gen g true) (if follow_pv e then enable_pv_scoring (gen g true) e else e) = (ms, ez) ->
  nloop rec_n g depth nd inchk ms 0 0 a b false ez = LDone ta ew O exa ->
  Forall (fun m => make g m = None) (gen g true).
Proof.
  intros ES HL.
  pose proof (sort_moves_perm pos move mv_eqb mv_cap mv_hidx cap_score null_mv g (gen g true) (if follow_pv e then enable_pv_scoring (gen g true) e else e)) as PM.
  rewrite ES in PM. cbn [fst] in PM.
  apply nloop_no_legal in HL. rewrite Forall_forall in *. intros m Hm. apply HL. eapply Permutation_in; [apply Permutation_sym; exact PM|exact Hm].
Qed.

Lemma negamax_body_nodes : Nn (negamax_body rec_n rec_q).
Proof.
  intros g d a b e R T. unfold Search.negamax_body.
  set (e0 := emit e _).
  assert (T0 : TraceOk e0) by (apply emit_ok; [exact R|exact T]).
  destruct (_ && rep_hit e0 (key g)).
  { unfold TraceOk. cbn. constructor; [exact I|exact T0]. }
  match goal with |- context [match ?X with Some _ => _ | None => _ end] => destruct X end.
  { unfold TraceOk. cbn. constructor; [exact I|exact T0]. }
  set (e1 := set_pv e0 _ _).
  assert (T1 : TraceOk e1) by exact T0.
  destruct (Nat.leb _ _); [exact T1|].
  set (e2 := maybe_poll e1).
  assert (T2 : TraceOk e2) by (apply tr_maybe_poll; exact T1).
  destruct (_ || _); [apply Hq; assumption|].
  set (e3 := set_nodes e2 _).
  assert (T3 : TraceOk e3) by exact T2.
  match goal with |- match (if ?c then _ else _) with _ => _ end => destruct c eqn:NM end.
  - set (e4 := set_ply e3 (S (ply e3))).
    assert (RN : reach (null g)).
    { apply reach_null; [exact R|]. apply andb_prop in NM. destruct NM as [NM _]. apply andb_prop in NM. destruct NM as [_ NM].
      apply negb_true_iff in NM. exact NM. }
    pose proof (Hn (null g) ((if in_check g then S d else d) - 3)%nat (- b)%Z (- b + 1)%Z e4 RN T3) as H.
    destruct (rec_n (null g) _ _ _ e4) as [s e5|]; [|exact I].
    set (e6 := set_ply e5 (pred (ply e5))).
    assert (T6 : TraceOk e6) by exact H.
    destruct (stopping e6); [exact T6|]. destruct (_ >=? b)%Z; [exact T6|]. apply move_phase_nodes; assumption.
  - apply move_phase_nodes; assumption.
Qed.

End BodyLemmas.

Theorem search_nodes : forall fuel, Nn (negamax fuel) /\ Nq (quiescence fuel).
Proof.
  induction fuel as [|f [IHn IHq]].
  - split; [intros g d a b e R T|intros g a b e R T]; exact I.
  - split; [apply negamax_body_nodes; assumption|apply quiescence_body_nodes; assumption].
Qed.

End Nodes.
