(* C13: facts about the UCI main-loop model (Model/Uci.v), for every engine state and every remaining input. *)
From Coq Require Import NArith ZArith List Bool String Ascii Lia.
From JV Require Import Gen.Consts Model.Chess Model.TT Model.Search Model.SearchChess Model.Fen Model.Go Model.Uci Proofs.PerftProofs.
Import ListNotations.
Local Open Scope string_scope.
Local Open Scope list_scope.

(* ---- single commands while idle ---- *)
Lemma step_uci extra dl u input :
  uci_step extra dl u "uci" input = (u, [OText "id name JENCE"; OText "id author Joachim Enggaard Nebel"; OText "uciok"], None, input, Continue).
Proof. reflexivity. Qed.
Lemma step_isready extra dl u input : uci_step extra dl u "isready" input = (u, [OText "readyok"], None, input, Continue).
Proof. reflexivity. Qed.
Lemma step_quit extra dl u input : uci_step extra dl u "quit" input = (u, [OText " Exited!"], None, input, Exit).
Proof. reflexivity. Qed.
Lemma step_ucinewgame extra dl u input :
  uci_step extra dl u "ucinewgame" input = (mkU (u_game u) (clear (u_tt u)) [], [], None, input, Continue).
Proof. reflexivity. Qed.

(* ---- lines that arrive during a search ---- *)
Lemma poll_isready : poll_dispatch "isready" = PReady.      Proof. reflexivity. Qed.
Lemma poll_stop : poll_dispatch "stop" = PStop.             Proof. reflexivity. Qed.
Lemma poll_quit : poll_dispatch "quit" = PUnread.           Proof. reflexivity. Qed.
(* every line other than isready / empty / stop is handed back to the main loop *)
Lemma poll_other l : l <> "isready" -> l <> "" -> l <> "stop" -> poll_dispatch l = PUnread.
Proof.
  intros A B C. unfold poll_dispatch.
  destruct (String.eqb_spec l "isready"); [contradiction|].
  destruct (String.eqb_spec l ""); [contradiction|].
  destruct (String.eqb_spec l "stop"); [contradiction|]. reflexivity.
Qed.

(* what the polls of one search take from the input: a prefix; isready lines are answered and never stop the search;
   a line that stops the search is the last one taken; nothing behind it is touched *)
Lemma poll_schedule_suffix fuel : forall input at_ np n s rest,
  poll_schedule input at_ np fuel = (n, s, rest) ->
  exists taken, input = taken ++ rest /\
    (s = None -> Forall (fun dl => poll_dispatch (trim (snd dl)) = PReady \/ poll_dispatch (trim (snd dl)) = PIgnore) taken) /\
    (forall k b, s = Some (k, b) -> exists pre last, taken = pre ++ [last] /\
        Forall (fun dl => poll_dispatch (trim (snd dl)) = PReady \/ poll_dispatch (trim (snd dl)) = PIgnore) pre /\
        poll_dispatch (trim (snd last)) = (if b then PUnread else PStop)).
Proof.
  induction fuel as [|f IH]; intros input at_ np n s rest H.
  - destruct input as [|[d l] r]; simpl in H; inversion H; subst; exists []; (split; [reflexivity|]); (split; [intros _; constructor|discriminate]).
  - destruct input as [|[d l] r]; simpl in H.
    + inversion H; subst. exists []. split; [reflexivity|]. split; [intros _; constructor|discriminate].
    + destruct (match np with Some n0 => Nat.ltb (at_ + d) n0 | None => true end).
      * destruct (poll_dispatch (trim l)) eqn:D.
        -- destruct (poll_schedule r (S (at_ + d)) np f) as [[n' s'] rest'] eqn:E. inversion H; subst.
           destruct (IH _ _ _ _ _ _ E) as (tk & E1 & E2 & E3). exists ((d, l) :: tk). split; [cbn; rewrite E1; reflexivity|]. split.
           ++ intros Hs. constructor; [left; exact D|apply E2; exact Hs].
           ++ intros k b Hs. destruct (E3 k b Hs) as (pre & lst & P1 & P2 & P3). exists ((d, l) :: pre), lst.
              split; [cbn; rewrite P1; reflexivity|]. split; [constructor; [left; exact D|exact P2]|exact P3].
        -- destruct (IH _ _ _ _ _ _ H) as (tk & E1 & E2 & E3). exists ((d, l) :: tk). split; [cbn; rewrite E1; reflexivity|]. split.
           ++ intros Hs. constructor; [right; exact D|apply E2; exact Hs].
           ++ intros k b Hs. destruct (E3 k b Hs) as (pre & lst & P1 & P2 & P3). exists ((d, l) :: pre), lst.
              split; [cbn; rewrite P1; reflexivity|]. split; [constructor; [right; exact D|exact P2]|exact P3].
        -- inversion H; subst. exists [(d, l)]. split; [reflexivity|]. split; [discriminate|].
           intros k b Hs. injection Hs as <- <-. exists [], (d, l). split; [reflexivity|]. split; [constructor|exact D].
        -- inversion H; subst. exists [(d, l)]. split; [reflexivity|]. split; [discriminate|].
           intros k b Hs. injection Hs as <- <-. exists [], (d, l). split; [reflexivity|]. split; [constructor|exact D].
      * inversion H; subst. exists []. split; [reflexivity|]. split; [intros _; constructor|discriminate].
Qed.

(* the number of readyok answers given during a search = the number of isready lines taken *)
Lemma poll_schedule_ready_count fuel : forall input at_ np n s rest,
  poll_schedule input at_ np fuel = (n, s, rest) ->
  n = List.length (filter (fun dl => match poll_dispatch (trim (snd dl)) with PReady => true | _ => false end)
                          (firstn (List.length input - List.length rest) input)).
Proof.
  induction fuel as [|f IH]; intros input at_ np n s rest H.
  - destruct input as [|[d l] r]; simpl in H; inversion H; subst; rewrite Nat.sub_diag; reflexivity.
  - destruct input as [|[d l] r]; simpl in H.
    + inversion H; subst. reflexivity.
    + destruct (match np with Some n0 => Nat.ltb (at_ + d) n0 | None => true end).
      * destruct (poll_dispatch (trim l)) eqn:D.
        -- destruct (poll_schedule r (S (at_ + d)) np f) as [[n' s'] rest'] eqn:E. injection H as <- <- <-.
           pose proof (poll_schedule_suffix _ _ _ _ _ _ _ E) as (tk & E1 & _).
           assert (L : List.length rest' <= List.length r) by (rewrite E1, app_length; lia).
           rewrite (IH _ _ _ _ _ _ E). cbn [List.length]. replace (S (List.length r) - List.length rest') with (S (List.length r - List.length rest')) by lia.
           cbn [firstn filter snd]. rewrite D. reflexivity.
        -- pose proof (poll_schedule_suffix _ _ _ _ _ _ _ H) as (tk & E1 & _).
           assert (L : List.length rest <= List.length r) by (rewrite E1, app_length; lia).
           rewrite (IH _ _ _ _ _ _ H). cbn [List.length]. replace (S (List.length r) - List.length rest) with (S (List.length r - List.length rest)) by lia.
           cbn [firstn filter snd]. rewrite D. reflexivity.
        -- injection H as <- <- <-. cbn [List.length]. replace (S (List.length r) - List.length r) with 1 by lia. cbn [firstn filter snd]. rewrite D. reflexivity.
        -- injection H as <- <- <-. cbn [List.length]. replace (S (List.length r) - List.length r) with 1 by lia. cbn [firstn filter snd]. rewrite D. reflexivity.
      * injection H as <- <- <-. rewrite Nat.sub_diag. reflexivity.
Qed.

(* ---- the main loop always comes to an end: quit / end of input is reached, whatever the commands were ---- *)
Lemma uci_step_input extra dl u l input u' outs rq input' st :
  uci_step extra dl u l input = (u', outs, rq, input', st) ->
  List.length input' <= List.length input /\ (rq <> None -> List.length input' < List.length input).
Proof.
  unfold uci_step. cbn zeta.
  repeat match goal with
         | |- (if ?c then _ else _) = _ -> _ => destruct c
         | |- match ?x with _ => _ end = _ -> _ => destruct x eqn:?
         | |- (let '(_, _) := ?x in _) = _ -> _ => destruct x eqn:?
         end;
    intros H; try (injection H as <- <- <- <- <-; split; [lia|congruence]).
  (* the search branch *)
  match goal with E : poll_schedule _ _ _ _ = (_, _, _) |- _ =>
    pose proof (poll_schedule_suffix _ _ _ _ _ _ _ E) as (tk & P & _ & Q) end.
  injection H as <- <- <- <- <-. rewrite P, app_length. split; [lia|].
  intros NE. destruct o as [[k [|]]|]; try congruence.
  destruct (Q k true eq_refl) as (pre & lst & T & _). rewrite T, app_length. cbn. lia.
Qed.

Definition measure (pending : option string) (input : list (nat * string)) : nat :=
  2 * List.length input + match pending with Some _ => 1 | None => 0 end.

(* with enough fuel the loop never stops for lack of fuel: it ends by Exit or by a panic *)
Lemma uci_run_ends extra fuel : forall dls u pending input,
  measure pending input < fuel -> snd (uci_run extra dls fuel u pending input) <> Continue.
Proof.
  induction fuel as [|f IH]; intros dls u pending input M; [lia|].
  cbn [uci_run].
  assert (HN : forall l input', measure None input' + 1 <= measure pending input ->
               (pending = Some l /\ input' = input) \/ (pending = None /\ exists d, input = (d, l) :: input') ->
               snd (let '(u', outs, requeue, input'', st) := uci_step extra (List.hd O dls) u l input' in
                    match st with
                    | Continue => let '(outs', st') := uci_run extra (List.tl dls) f u' requeue input'' in (outs ++ outs', st')
                    | _ => (outs, st)
                    end) <> Continue).
  { intros l input' ML _.
    destruct (uci_step extra (List.hd O dls) u l input') as [[[[u' outs] rq] input''] st] eqn:E.
    destruct (uci_step_input _ _ _ _ _ _ _ _ _ _ E) as [L1 L2].
    destruct st; cbn [snd]; try discriminate.
    specialize (IH (List.tl dls) u' rq input'').
    assert (M' : measure rq input'' < f).
    { unfold measure in *. destruct rq; [specialize (L2 ltac:(discriminate))|]; lia. }
    specialize (IH M'). destruct (uci_run extra (List.tl dls) f u' rq input'') as [o s]. cbn [snd] in *. exact IH. }
  destruct pending as [l|].
  - apply HN; [unfold measure; lia|left; auto].
  - destruct input as [|[d l] r]; [cbn; discriminate|].
    apply (HN l r); [unfold measure; cbn [List.length]; lia|right; split; [reflexivity|exists d; reflexivity]].
Qed.

Theorem uci_session_ends extra dls input : snd (uci_session extra dls input) <> Continue.
Proof.
  unfold uci_session. apply uci_run_ends. unfold measure, with_eof. rewrite app_length. cbn. lia.
Qed.

(* ---- C18: `ucinewgame` followed by a `position` command leaves exactly the state a fresh engine has after that command ---- *)
Lemma step_position extra dl u P input g rep :
  trim P <> "" -> lower_str (first_token (trim P)) = "position" -> rest_tokens (trim P) <> [] ->
  parse_position (skip 9 (trim P)) = FOk (g, rep) ->
  uci_step extra dl u P input = (mkU g (u_tt u) rep, [], None, input, Continue).
Proof.
  intros NE CMD ARG PP. unfold uci_step. cbn zeta.
  destruct (String.eqb (trim P) "") eqn:E; [apply String.eqb_eq in E; contradiction|].
  rewrite CMD.
  repeat match goal with |- context [String.eqb "position" ?s] =>
    let b := eval vm_compute in (String.eqb "position" s) in change (String.eqb "position" s) with b end.
  cbn [orb]. destruct (rest_tokens (trim P)) as [|x r]; [contradiction|]. cbn [negb]. rewrite PP. reflexivity.
Qed.

Theorem ucinewgame_then_position_is_fresh extra dl u P input input' g rep :
  trim P <> "" -> lower_str (first_token (trim P)) = "position" -> rest_tokens (trim P) <> [] ->
  parse_position (skip 9 (trim P)) = FOk (g, rep) ->
  let '(u1, _, _, _, _) := uci_step extra dl u "ucinewgame" input in
  uci_step extra dl u1 P input' = uci_step extra dl init_ustate P input'.
Proof.
  intros NE CMD ARG PP. rewrite step_ucinewgame.
  rewrite (step_position extra dl _ P input' g rep NE CMD ARG PP), (step_position extra dl init_ustate P input' g rep NE CMD ARG PP).
  reflexivity.
Qed.

(* ---- the perft command: the per-move lines add up to the total it reports ---- *)
Lemma perft_fold_lines (f : game -> N) g ms : forall a,
  fold_left (fun acc m => match make_search_move g m with Made g' => (acc + f g')%N | _ => acc end) ms a =
  (a + sumN (map snd (flat_map (fun m => match make_search_move g m with
        | Made g' => [((nth (N.to_nat (mfrom m)) SQUARE_STRINGS "" ++ nth (N.to_nat (mto m)) SQUARE_STRINGS "")%string, f g')]
        | _ => [] end) ms)))%N.
Proof.
  induction ms as [|m r IH]; intros a; cbn [fold_left flat_map map].
  - change (sumN []) with 0%N. rewrite N.add_0_r. reflexivity.
  - rewrite IH, map_app, sumN_app. destruct (make_search_move g m) as [|g'|]; cbn [map snd]; rewrite ?sumN_cons; change (sumN []) with 0%N; lia.
Qed.

Lemma perft_lines_sum d g : (2 <= d)%N -> sumN (map snd (perft_lines d g)) = perft_n d g.
Proof.
  intros D. unfold perft_lines. destruct (N.leb_spec d 1) as [L|_]; [lia|].
  unfold perft_n. destruct (N.to_nat d) as [|[|k]] eqn:E; [lia|lia|].
  replace (N.to_nat (d - 1)) with (S k) by lia.
  change (perft (S (S k)) g) with (fold_left (fun acc m => match make_search_move g m with Made g' => (acc + perft (S k) g')%N | _ => acc end) (generate_moves g true) 0%N).
  rewrite (perft_fold_lines (perft (S k)) g (generate_moves g true) 0%N). rewrite N.add_0_l. reflexivity.
Qed.

Lemma step_perft extra dl u line input t r d :
  trim line <> "" -> lower_str (first_token (trim line)) = "perft" -> rest_tokens (trim line) = t :: r ->
  t <> "simple" -> parse_uint 256 t = Some d -> (1 <= d)%N ->
  uci_step extra dl u line input = (u, [OPerft d (perft_lines d (u_game u)) (perft_n d (u_game u))], None, input, Continue).
Proof.
  intros NE CM RT NS PU D. unfold uci_step. cbn zeta.
  destruct (String.eqb_spec (trim line) "") as [E|_]; [contradiction|]. rewrite CM. cbn [String.eqb Ascii.eqb Bool.eqb orb].
  rewrite RT. destruct (String.eqb_spec t "simple") as [E|_]; [contradiction|]. rewrite PU.
  destruct (N.eqb_spec d 0) as [E|_]; [lia|]. reflexivity.
Qed.
