(* C04 (part): the key tables (recomputed in Coq from the generated seeds with the engine's 64-bit-intermediate xorshift)
   equal the compiled tables dumped by the driver; they contain no zero and no repeated entry, and no 1..4 distinct
   entries XOR to zero (kernel-evaluated reflection over the 849 keys and their 359,976 pairwise XORs);
   the from-scratch key is a function of placement / side / rights / ep only; the null move keeps the key consistent. *)
From Coq Require Import NArith List Bool Lia FSets.FSetPositive.
From JV Require Import Gen.Consts Model.Bits Model.Chess.
Import ListNotations.
Local Open Scope N_scope.

Definition all_keys : list N := PIECE_KEYS ++ ENPASSANT_KEYS ++ CASTLE_KEYS ++ [SIDE_KEY].

(* ---- tie: recomputed tables = compiled tables ---- *)
Lemma keys_match_dump :
  PIECE_KEYS = DUMP_PIECE_KEYS /\ ENPASSANT_KEYS = DUMP_ENPASSANT_KEYS /\ CASTLE_KEYS = DUMP_CASTLE_KEYS /\ SIDE_KEY = DUMP_SIDE_KEY.
Proof. vm_compute. repeat split; reflexivity. Qed.

(* ---- a linear-time duplicate / zero check and its soundness ---- *)
Fixpoint chk_aux (l : list N) (s : PositiveSet.t) : bool :=
  match l with
  | [] => true
  | N0 :: _ => false
  | Npos p :: r => negb (PositiveSet.mem p s) && chk_aux r (PositiveSet.add p s)
  end.

Lemma chk_aux_sound l : forall s, chk_aux l s = true ->
  NoDup l /\ ~ In 0 l /\ forall p, In (Npos p) l -> PositiveSet.mem p s = false.
Proof.
  induction l as [|[|p] r IH]; intros s H; cbn [chk_aux] in H.
  - repeat split; [constructor | intros [] | intros p []].
  - discriminate.
  - apply andb_prop in H. destruct H as [H1 H2]. apply negb_true_iff in H1.
    destruct (IH _ H2) as (ND & NZ & M).
    assert (NI : ~ In (Npos p) r).
    { intros Hin. specialize (M p Hin). rewrite PositiveSet.mem_1 in M; [discriminate|].
      apply PositiveSet.add_1. reflexivity. }
    repeat split.
    + constructor; assumption.
    + intros [E|E]; [discriminate|contradiction].
    + intros q [E|E].
      * injection E as <-. exact H1.
      * specialize (M q E). destruct (PositiveSet.mem q s) eqn:Q; [|reflexivity].
        rewrite PositiveSet.mem_1 in M; [discriminate|]. apply PositiveSet.add_2. apply PositiveSet.mem_2. exact Q.
Qed.

Fixpoint pairs (l : list N) : list N :=
  match l with [] => [] | x :: r => map (N.lxor x) r ++ pairs r end.

Lemma keys_check_true : chk_aux (all_keys ++ pairs all_keys) PositiveSet.empty = true.
Proof. vm_compute. reflexivity. Qed.

Lemma keys_nodup : NoDup (all_keys ++ pairs all_keys) /\ ~ In 0 (all_keys ++ pairs all_keys).
Proof. destruct (chk_aux_sound _ _ keys_check_true) as (A & B & _). split; assumption. Qed.

(* ---- lifting: from "keys and pair-XORs are pairwise distinct and non-zero" to XOR-independence up to 4 ---- *)
Lemma in_pairs l : forall a b, In a l -> In b l -> a <> b -> In (N.lxor a b) (pairs l).
Proof.
  induction l as [|x r IH]; intros a b Ha Hb NE; [destruct Ha|].
  cbn [pairs]. apply in_or_app. destruct Ha as [Ha|Ha], Hb as [Hb|Hb]; subst.
  - contradiction.
  - left. apply in_map. exact Hb.
  - left. rewrite N.lxor_comm. apply in_map. exact Ha.
  - right. apply IH; assumption.
Qed.

Lemma NoDup_app_disjoint {A} (l1 l2 : list A) x : NoDup (l1 ++ l2) -> In x l1 -> In x l2 -> False.
Proof.
  induction l1 as [|y l1 IH]; intros ND H1 H2; [destruct H1|].
  cbn in ND. inversion ND as [|? ? NI ND']; subst. destruct H1 as [->|H1].
  - apply NI. apply in_or_app. right. exact H2.
  - eapply IH; eassumption.
Qed.
Lemma NoDup_app_l {A} (l1 l2 : list A) : NoDup (l1 ++ l2) -> NoDup l1.
Proof. induction l1 as [|y l1 IH]; intros ND; [constructor|]. cbn in ND. inversion ND; subst. constructor; [|auto]. intros H. apply H1. apply in_or_app. left. exact H. Qed.
Lemma NoDup_app_r {A} (l1 l2 : list A) : NoDup (l1 ++ l2) -> NoDup l2.
Proof. induction l1 as [|y l1 IH]; intros ND; [exact ND|]. cbn in ND. inversion ND; subst. auto. Qed.

Lemma pairs_distinct l : NoDup (pairs l) -> forall a b c d, In a l -> In b l -> In c l -> In d l ->
  a <> b -> c <> d -> a <> c -> a <> d -> b <> c -> b <> d -> N.lxor a b <> N.lxor c d.
Proof.
  induction l as [|x r IH]; intros ND a b c d Ha Hb Hc Hd; [destruct Ha|].
  cbn [pairs] in ND. intros N1 N2 N3 N4 N5 N6 E.
  pose proof (NoDup_app_r _ _ ND) as NDr.
  assert (inmap : forall u v, u = x -> In v r -> In (N.lxor u v) (map (N.lxor x) r)) by (intros u v -> Hv; apply in_map; exact Hv).
  destruct Ha as [Ha|Ha], Hb as [Hb|Hb], Hc as [Hc|Hc], Hd as [Hd|Hd]; subst; try congruence;
    try (exact (IH NDr a b c d Ha Hb Hc Hd N1 N2 N3 N4 N5 N6 E)).
  - (* a = x; b, c, d in r *) eapply (NoDup_app_disjoint _ _ _ ND); [apply in_map; exact Hb|]. rewrite E. apply in_pairs; assumption.
  - (* b = x *) eapply (NoDup_app_disjoint _ _ _ ND); [apply in_map; exact Ha|]. rewrite N.lxor_comm, E. apply in_pairs; assumption.
  - (* c = x *) eapply (NoDup_app_disjoint _ _ _ ND); [apply in_map; exact Hd|]. rewrite <- E. apply in_pairs; assumption.
  - (* d = x *) eapply (NoDup_app_disjoint _ _ _ ND); [apply in_map; exact Hc|]. rewrite N.lxor_comm, <- E. apply in_pairs; assumption.
Qed.

Lemma xor_ne_zero a b : a <> b -> N.lxor a b <> 0.
Proof. intros NE E. apply NE. apply N.lxor_eq. exact E. Qed.

Theorem keys_independent :
  NoDup all_keys /\ ~ In 0 all_keys /\
  (forall a b, In a all_keys -> In b all_keys -> a <> b -> N.lxor a b <> 0) /\
  (forall a b c, In a all_keys -> In b all_keys -> In c all_keys -> a <> b -> a <> c -> b <> c ->
                 N.lxor (N.lxor a b) c <> 0) /\
  (forall a b c d, In a all_keys -> In b all_keys -> In c all_keys -> In d all_keys ->
                 a <> b -> c <> d -> a <> c -> a <> d -> b <> c -> b <> d -> N.lxor (N.lxor a b) (N.lxor c d) <> 0).
Proof.
  destruct keys_nodup as [ND NZ].
  split; [eapply NoDup_app_l; exact ND|].
  split; [intros H; apply NZ; apply in_or_app; left; exact H|].
  split; [intros a b _ _ NE; apply xor_ne_zero; exact NE|].
  split.
  - intros a b c Ha Hb Hc N1 N2 N3 E. apply N.lxor_eq in E.
    eapply (NoDup_app_disjoint _ _ c ND); [exact Hc|]. rewrite <- E. apply in_pairs; assumption.
  - intros a b c d Ha Hb Hc Hd N1 N2 N3 N4 N5 N6 E. apply N.lxor_eq in E.
    eapply (pairs_distinct all_keys (NoDup_app_r _ _ ND) a b c d); eassumption.
Qed.

(* ---- the from-scratch key is a function of placement, side, rights and ep only ---- *)
Lemma key_function g1 g2 :
  bbs g1 = bbs g2 -> white g1 = white g2 -> castling g1 = castling g2 -> ep g1 = ep g2 ->
  make_zobrist_hash g1 = make_zobrist_hash g2.
Proof. intros H1 H2 H3 H4. unfold make_zobrist_hash, bb. rewrite H1, H2, H3, H4. reflexivity. Qed.

(* ---- null move ---- *)
Definition keyok (g : game) : Prop := hash g = make_zobrist_hash g.

Ltac xor_solve :=
  apply N.bits_inj; let i := fresh "i" in intro i; rewrite ?N.lxor_spec;
  repeat match goal with |- context [N.testbit ?x i] => generalize (N.testbit x i); intro end;
  repeat match goal with b : bool |- _ => destruct b end; reflexivity.

Lemma null_move_keyok g : keyok g -> keyok (null_move g).
Proof.
  unfold keyok, null_move, make_zobrist_hash, bb. cbn [hash bbs white ep castling]. intros H. rewrite H. cbn zeta.
  rewrite N.eqb_refl.
  set (P := fold_left _ _ 0). set (C := castle_key (castling g)).
  destruct (white g); cbn [negb]; destruct (ep g =? NOSQ); xor_solve.
Qed.
