(* C09 (cadence): the search looks at its input at every node count for which the poll predicate holds -- for the engine: at every
   multiple of 16,384 nodes.  Invariant Cad: for every count n below the current node counter with pollp n, the ghost trace contains
   a poll event taken at count n.  The counter only moves by +1, immediately after a maybe_poll at the same count, in negamax and in
   quiescence alike; nothing removes events.  Holds for every game interface, oracle, TT content and history. *)
From Coq Require Import NArith ZArith List Bool Lia.
From JV Require Import Gen.Consts Model.TT Model.Search.
Import ListNotations.

Section Frame.
Variables (pos move : Type).
Variable gen : pos -> bool -> list move.
Variable make : pos -> move -> option pos.
Variable null : pos -> pos.
Variable evalf : pos -> Z.
Variable in_check : pos -> bool.
Variable key : pos -> N.
Variable half100 : pos -> bool.
Variable mv_eqb : move -> move -> bool.
Variable mv_cap : move -> bool.
Variable mv_promo : move -> bool.
Variable mv_hidx : move -> nat.
Variable cap_score : pos -> move -> Z.
Variable null_mv : move.
Variable legalb : pos -> move -> bool.
Variable pollp : N -> bool.
Variable stop_at : nat -> bool.
Variable tt_bypass : bool.

Notation env := (env pos move).
Notation res := (res pos move).
Notation lres := (lres pos move).
Notation negamax := (negamax gen make null evalf in_check key half100 mv_eqb mv_cap mv_promo mv_hidx cap_score null_mv pollp stop_at tt_bypass).
Notation quiescence := (quiescence gen make evalf key half100 mv_eqb mv_cap mv_hidx cap_score null_mv pollp stop_at).
Notation negamax_body := (negamax_body gen make null evalf in_check key half100 mv_eqb mv_cap mv_promo mv_hidx cap_score null_mv pollp stop_at tt_bypass).
Notation quiescence_body := (quiescence_body gen make evalf key half100 mv_eqb mv_cap mv_hidx cap_score null_mv pollp stop_at).
Notation nloop := (nloop make key mv_cap mv_promo mv_hidx).
Notation qloop := (qloop make key).
Notation sort_moves := (sort_moves mv_eqb mv_cap mv_hidx cap_score null_mv).
Notation score_all := (score_all mv_eqb mv_cap mv_hidx cap_score null_mv).
Notation score_move := (score_move mv_eqb mv_cap mv_hidx cap_score null_mv).
Notation maybe_poll := (maybe_poll pollp stop_at).
Notation poll := (poll stop_at).
Notation enable_pv_scoring := (enable_pv_scoring mv_eqb null_mv).

Definition Cad (e : env) : Prop :=
  forall n, (n < nodes e)%N -> pollp n = true -> exists k s, In (EPoll k n s) (trace e).

(* e' extends e: same counter, no event lost *)
Definition ext (e e' : env) : Prop := nodes e' = nodes e /\ forall ev, In ev (trace e) -> In ev (trace e').
Lemma Cad_ext e e' : ext e e' -> Cad e -> Cad e'.
Proof. intros (N1 & T) H n L P. rewrite N1 in L. destruct (H n L P) as (k & s & I). exists k, s. apply T. exact I. Qed.

Ltac xt := unfold ext; cbn; split; [reflexivity|let x := fresh "x" in let H := fresh "H" in intros x H; try (right; exact H); exact H].
Lemma xt_emit e ev : ext e (emit e ev). Proof. xt. Qed.
Lemma xt_set_hits e h : ext e (set_hits e h). Proof. xt. Qed.
Lemma xt_set_flags e a b : ext e (set_flags e a b). Proof. xt. Qed.
Lemma xt_set_killers e a b : ext e (set_killers e a b). Proof. xt. Qed.
Lemma xt_set_history e h : ext e (set_history e h). Proof. xt. Qed.
Lemma xt_set_ply e p : ext e (set_ply e p). Proof. xt. Qed.
Lemma xt_set_pv e l t : ext e (set_pv e l t). Proof. xt. Qed.
Lemma xt_set_tbl e t : ext e (set_tbl e t). Proof. xt. Qed.
Lemma xt_rep_insert e k : ext e (rep_insert e k). Proof. xt. Qed.
Lemma xt_rep_back e : ext e (rep_back e). Proof. xt. Qed.
Lemma xt_refl e : ext e e. Proof. xt. Qed.
Lemma xt_trans a b c : ext a b -> ext b c -> ext a c.
Proof. unfold ext. intros (A1&A2) (B1&B2). split; [congruence|auto]. Qed.
Lemma xt_insert_pv e m : ext e (insert_pv e m).
Proof. unfold Search.insert_pv. cbn zeta. eapply xt_trans; [apply xt_emit|apply xt_set_pv]. Qed.

Lemma xt_poll (e : env) : ext e (poll e).
Proof.
  unfold ext, Search.poll. cbn zeta. destruct (stop_at (npolls e) && negb (stopping e)); cbn; split; try reflexivity; intros x H; auto.
Qed.
Lemma poll_event (e : env) : exists s, In (EPoll (npolls e) (nodes e) s) (trace (poll e)).
Proof.
  exists (stop_at (npolls e)). unfold Search.poll. cbn zeta. destruct (stop_at (npolls e) && negb (stopping e)); cbn; auto.
Qed.
Lemma xt_maybe_poll e : ext e (maybe_poll e).
Proof. unfold Search.maybe_poll. destruct (pollp _); [apply xt_poll|apply xt_refl]. Qed.

(* the only way the counter moves *)
Lemma Cad_count e : Cad e -> Cad (set_nodes (maybe_poll e) (N.succ (nodes (maybe_poll e)))).
Proof.
  intros H n L P. destruct (xt_maybe_poll e) as (N1 & T). cbn [nodes set_nodes] in L. rewrite N1 in L.
  change (trace (set_nodes (maybe_poll e) (N.succ (nodes (maybe_poll e))))) with (trace (maybe_poll e)).
  destruct (N.eq_dec n (nodes e)) as [->|NE].
  - unfold Search.maybe_poll. rewrite P. destruct (poll_event e) as (s & I). exists (npolls e), s. exact I.
  - destruct (H n ltac:(lia) P) as (k & s & I). exists k, s. apply T. exact I.
Qed.

Lemma Cad_score_move g m e : Cad e -> Cad (snd (score_move g m e)).
Proof.
  unfold Search.score_move. intros H.
  repeat match goal with |- context [if ?c then _ else _] => destruct c end; cbn [snd]; exact H.
Qed.
Lemma Cad_score_all g ms : forall e, Cad e -> Cad (snd (score_all g ms e)).
Proof.
  induction ms as [|m r IH]; intros e H; cbn [Search.score_all snd]; [exact H|].
  destruct (score_move g m e) as [s e1] eqn:E1. destruct (score_all g r e1) as [l e2] eqn:E2. cbn [snd].
  pose proof (Cad_score_move g m e H) as B1. rewrite E1 in B1. pose proof (IH e1 B1) as B2. rewrite E2 in B2. exact B2.
Qed.
Lemma Cad_sort_moves g ms e : Cad e -> Cad (snd (sort_moves g ms e)).
Proof.
  unfold Search.sort_moves. intros H. destruct (score_all g ms e) as [sc e1] eqn:E. cbn [snd].
  pose proof (Cad_score_all g ms e H) as B. rewrite E in B. exact B.
Qed.
Lemma Cad_enable_pv ms e : Cad e -> Cad (enable_pv_scoring ms e).
Proof. unfold Search.enable_pv_scoring. intros H. destruct (existsb _ _); (eapply Cad_ext; [apply xt_set_flags|exact H]). Qed.

Definition res_inv (r : res) : Prop := match r with Val _ e' => Cad e' | OutOfFuel => True end.
Definition lres_inv (r : lres) : Prop :=
  match r with
  | LRet _ e' => Cad e'
  | LDone _ e' _ _ => Cad e'
  | LFuel => True
  end.

Definition Fn (f : pos -> nat -> Z -> Z -> env -> res) : Prop := forall g d a b e, Cad e -> res_inv (f g d a b e).
Definition Fq (f : pos -> Z -> Z -> env -> res) : Prop := forall g a b e, Cad e -> res_inv (f g a b e).

Section BodyLemmas.
Variable rec_n : pos -> nat -> Z -> Z -> env -> res.
Variable rec_q : pos -> Z -> Z -> env -> res.
Hypothesis Hn : Fn rec_n.
Hypothesis Hq : Fq rec_q.

Notation after_move := (after_move key mv_cap mv_hidx).
Notation search_move := (search_move mv_cap mv_promo rec_n).
Notation move_phase := (move_phase gen make key mv_eqb mv_cap mv_promo mv_hidx cap_score null_mv rec_n).

Lemma qloop_inv g ms : forall ta b e, Cad e -> res_inv (qloop rec_q g ms ta b e).
Proof.
  induction ms as [|m rest IH]; intros ta b e H; cbn [Search.qloop].
  - exact H.
  - unfold make_rep. destruct (make g m) as [g'|]; [|apply IH; exact H].
    set (e2 := set_ply (rep_insert e (key g')) (S (ply (rep_insert e (key g'))))).
    assert (H2 : Cad e2) by (eapply Cad_ext; [|exact H]; eapply xt_trans; [apply xt_rep_insert|apply xt_set_ply]).
    pose proof (Hq g' (- b)%Z (- ta)%Z e2 H2) as R.
    destruct (rec_q g' (- b)%Z (- ta)%Z e2) as [s e3|]; [|exact I]. cbn [res_inv] in R.
    assert (H4 : Cad (rep_back (set_ply e3 (pred (ply e3))))).
    { eapply Cad_ext; [|exact R]. eapply xt_trans; [apply xt_set_ply|apply xt_rep_back]. }
    destruct (_ >=? b)%Z; [exact H4|]. apply IH. exact H4.
Qed.

Lemma quiescence_body_inv : Fq (quiescence_body rec_q).
Proof.
  intros g a b e H. unfold Search.quiescence_body.
  set (e0 := emit e _). set (e1 := maybe_poll e0). set (e2 := set_nodes e1 (N.succ (nodes e1))).
  assert (H2 : Cad e2) by (apply Cad_count; eapply Cad_ext; [apply xt_emit|exact H]).
  destruct (_ || _); [exact H2|].
  destruct (_ && _); [exact H2|].
  destruct (sort_moves g (gen g false) e2) as [ms e3] eqn:ES.
  pose proof (Cad_sort_moves g (gen g false) e2 H2) as H3. rewrite ES in H3. cbn [snd] in H3.
  apply qloop_inv. exact H3.
Qed.

Definition next_inv (next : nat -> nat -> Z -> bool -> env -> lres) : Prop :=
  forall s l t x e', Cad e' -> lres_inv (next s l t x e').

Lemma after_move_inv g depth m ta b ex searched legal next score e4 :
  next_inv next -> Cad e4 -> lres_inv (after_move g depth m ta b ex searched legal next score e4).
Proof.
  intros HN H4. unfold Search.after_move. cbn zeta.
  set (e5 := set_ply e4 (pred (ply e4))).
  assert (H5 : Cad e5) by (eapply Cad_ext; [apply xt_set_ply|exact H4]).
  destruct (stopping e5) eqn:ST; [exact H5|].
  destruct (score >? ta)%Z; [|apply HN; assumption].
  set (e6 := insert_pv e5 m).
  assert (H6 : Cad e6) by (eapply Cad_ext; [apply xt_insert_pv|exact H5]).
  destruct (score >=? b)%Z.
  - cbn [lres_inv]. destruct (mv_cap m).
    + eapply Cad_ext; [|exact H6]. eapply xt_trans; [apply xt_emit|apply xt_set_tbl].
    + eapply Cad_ext; [|exact H6]. eapply xt_trans; [apply xt_set_killers|]. eapply xt_trans; [apply xt_emit|apply xt_set_tbl].
  - apply HN. destruct (mv_cap m); [exact H6|eapply Cad_ext; [apply xt_set_history|exact H6]].
Qed.

Lemma search_move_inv g' depth nd inchk m searched ta b e3 after :
  Cad e3 -> (forall s e4, Cad e4 -> lres_inv (after s e4)) ->
  lres_inv (search_move g' depth nd inchk m searched ta b e3 after).
Proof.
  intros H3 HA. unfold Search.search_move.
  assert (HRt : forall d' a' b' ex, Cad ex -> forall k,
            (forall s e4, Cad e4 -> lres_inv (k s e4)) -> lres_inv (neg_res (rec_n g' d' a' b' ex) k)).
  { intros d' a' b' ex Hx k K. pose proof (Hn g' d' a' b' ex Hx) as R.
    destruct (rec_n g' d' a' b' ex) as [s e4|]; cbn [neg_res]; [|exact I]. apply K. exact R. }
  destruct (Nat.eqb searched 0).
  - apply HRt; [exact H3|exact HA].
  - cbn zeta.
    assert (HP : forall s1 e', Cad e' ->
      lres_inv (if (s1 >? ta)%Z then
          neg_res (rec_n g' (nd - 1)%nat (- ta - 1)%Z (- ta)%Z e')
            (fun s2 e'' => if (s2 >? ta)%Z && (s2 <? b)%Z
                           then neg_res (rec_n g' (nd - 1)%nat (- b)%Z (- ta)%Z e'') after
                           else after s2 e'')
        else after s1 e')).
    { intros s1 e' H'. destruct (s1 >? ta)%Z; [|apply HA; exact H'].
      apply HRt; [exact H'|]. intros s2 e'' H''. destruct (_ && _); [|apply HA; exact H''].
      apply HRt; [exact H''|exact HA]. }
    destruct (_ && _ && _ && _ && _).
    + apply HRt; [exact H3|exact HP].
    + apply HP. exact H3.
Qed.

Lemma nloop_inv g depth nd inchk ms : forall searched legal ta b ex e,
  Cad e -> lres_inv (nloop rec_n g depth nd inchk ms searched legal ta b ex e).
Proof.
  induction ms as [|m rest IH]; intros searched legal ta b ex e H; cbn [Search.nloop].
  - exact H.
  - unfold make_rep. destruct (make g m) as [g'|].
    + set (e1 := set_ply e (S (ply e))).
      set (e3 := rep_back (rep_insert e1 (key g'))).
      assert (H3 : Cad e3).
      { eapply Cad_ext; [|exact H]. eapply xt_trans; [apply xt_set_ply|]. eapply xt_trans; [apply xt_rep_insert|apply xt_rep_back]. }
      apply search_move_inv; [exact H3|].
      intros s e4 H4. apply after_move_inv; [|exact H4].
      intros s' l t x e' H'. apply IH. exact H'.
    + apply IH. eapply Cad_ext; [|exact H]. eapply xt_trans; apply xt_set_ply.
Qed.

Lemma move_phase_inv g depth nd inchk a b e : Cad e -> res_inv (move_phase g depth nd inchk a b e).
Proof.
  intros H. unfold Search.move_phase. cbn zeta.
  set (ms0 := gen g true).
  set (ey := if follow_pv e then enable_pv_scoring ms0 e else e).
  assert (Hy : Cad ey) by (subst ey; destruct (follow_pv e); [apply Cad_enable_pv; exact H|exact H]).
  destruct (sort_moves g ms0 ey) as [ms ez] eqn:ES.
  pose proof (Cad_sort_moves g ms0 ey Hy) as Hz. rewrite ES in Hz. cbn [snd] in Hz.
  pose proof (nloop_inv g depth nd inchk ms 0 0 a b false ez Hz) as HL.
  destruct (nloop rec_n g depth nd inchk ms 0 0 a b false ez) as [s ew|ta ew legal exa|]; cbn [lres_inv] in HL.
  - exact HL.
  - destruct (Nat.eqb legal 0) eqn:LZ.
    + destruct inchk; cbn [res_inv]; (eapply Cad_ext; [apply xt_emit|exact HL]).
    + cbn [res_inv]. eapply Cad_ext; [|exact HL]. eapply xt_trans; [apply xt_emit|apply xt_set_tbl].
  - exact I.
Qed.

Lemma negamax_body_inv : Fn (negamax_body rec_n rec_q).
Proof.
  intros g d a b e H. unfold Search.negamax_body.
  set (e0 := emit e _).
  assert (H0 : Cad e0) by (eapply Cad_ext; [apply xt_emit|exact H]).
  destruct (_ && rep_hit e0 (key g)).
  { cbn [res_inv]. eapply Cad_ext; [|exact H0]. eapply xt_trans; [apply xt_set_pv|apply xt_emit]. }
  match goal with |- context [match ?X with Some _ => _ | None => _ end] => destruct X end.
  { cbn [res_inv]. eapply Cad_ext; [|exact H0]. eapply xt_trans; [apply xt_set_hits|apply xt_emit]. }
  set (e1 := set_pv e0 _ _).
  assert (H1 : Cad e1) by (eapply Cad_ext; [apply xt_set_pv|exact H0]).
  destruct (Nat.leb _ _); [exact H1|].
  set (e2 := maybe_poll e1).
  assert (H2 : Cad e2) by (eapply Cad_ext; [apply xt_maybe_poll|exact H1]).
  destruct (_ || _); [apply Hq; exact H2|].
  set (e3 := set_nodes e2 _).
  assert (H3 : Cad e3) by (apply Cad_count; exact H1).
  destruct (_ && _ && _).
  - set (e4 := set_ply e3 (S (ply e3))).
    assert (H4 : Cad e4) by (eapply Cad_ext; [apply xt_set_ply|exact H3]).
    pose proof (Hn (null g) ((if in_check g then S d else d) - 3)%nat (- b)%Z (- b + 1)%Z e4 H4) as R.
    destruct (rec_n (null g) _ _ _ e4) as [s e5|]; [|exact I]. cbn [res_inv] in R.
    set (e6 := set_ply e5 (pred (ply e5))).
    assert (H6 : Cad e6) by (eapply Cad_ext; [apply xt_set_ply|exact R]).
    destruct (stopping e6); [exact H6|]. destruct (_ >=? b)%Z; [exact H6|].
    apply move_phase_inv. exact H6.
  - apply move_phase_inv. exact H3.
Qed.

End BodyLemmas.

Theorem search_cadence_inv : forall fuel, Fn (negamax fuel) /\ Fq (quiescence fuel).
Proof.
  induction fuel as [|f [IHn IHq]].
  - split; [intros g d a b e H|intros g a b e H]; exact I.
  - split.
    + apply negamax_body_inv; assumption.
    + apply quiescence_body_inv; assumption.
Qed.

Notation id_loop := (id_loop gen make null evalf in_check key half100 mv_eqb mv_cap mv_promo mv_hidx cap_score null_mv legalb pollp stop_at tt_bypass).
Notation search := (search gen make null evalf in_check key half100 mv_eqb mv_cap mv_promo mv_hidx cap_score null_mv legalb pollp stop_at tt_bypass).

Definition sres_inv (r : sres pos move) : Prop := match r with SDone _ e' _ => Cad e' | SFuel => True end.

Lemma id_loop_inv iters : forall g cur maxd a b sc e outs, Cad e -> sres_inv (id_loop iters g cur maxd a b sc e outs).
Proof.
  induction iters as [|it IH]; intros g cur maxd a b sc e outs H; cbn [Search.id_loop].
  - exact H.
  - destruct (Nat.ltb maxd cur); [exact H|].
    set (e0 := set_flags e true (score_pv e)).
    assert (H0 : Cad e0) by (eapply Cad_ext; [apply xt_set_flags|exact H]).
    pose proof (proj1 (search_cadence_inv (FUEL)) g cur a b e0 H0) as R.
    destruct (negamax FUEL g cur a b e0) as [s e1|]; [|exact I]. cbn [res_inv] in R.
    destruct (stopping e1); [exact R|].
    destruct (_ || _); apply IH; exact R.
Qed.

(* at the end of search(): every node count below the final one at which a poll is due has a poll event taken at that count *)
Theorem search_cadence g depth t rt ri :
  match search g depth t rt ri with
  | SDone _ e _ => forall n, (n < nodes e)%N -> pollp n = true -> exists k s, In (EPoll k n s) (trace e)
  | SFuel => True
  end.
Proof.
  unfold Search.search.
  assert (C0 : Cad (@init_env pos move null_mv t rt ri)) by (intros n L; cbn in L; lia).
  pose proof (id_loop_inv (S (max_depth_of depth)) g 1 (max_depth_of depth) (- INFINITY)%Z INFINITY 0%Z _ [] C0) as H.
  destruct (id_loop _ g 1 _ _ _ _ _ []) as [outs e s|]; [exact H|exact I].
Qed.

End Frame.
