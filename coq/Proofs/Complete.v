(* C01, completeness: every pseudo-legal move of the rules is produced by generate_moves g true (and every legal one is accepted
   by make_search_move); the capture-only generator produces the pseudo-legal captures. *)
From Coq Require Import NArith ZArith List Bool Lia.
From JV Require Import Gen.Consts Spec.Rays Model.Bits Model.Chess Model.Abs Model.SearchChess Spec.ChessSpec Proofs.BitsProofs Proofs.BitboardProofs
  Proofs.MoveGenProofs Proofs.MakeProofs Proofs.ZobristProofs Proofs.KeyProofs Proofs.GenProofs Proofs.ConsProofs Proofs.GenOk Proofs.KingsProofs
  Proofs.RangeProofs Proofs.NkProofs Proofs.LegalInv Proofs.CellProofs Proofs.AbsBase Proofs.AbsGeo Proofs.GenGeo Proofs.AbsMake Proofs.AttackSym
  Proofs.AttackSpec Proofs.GenPseudo Proofs.Soundness Proofs.Rejected.
Import ListNotations.
Local Open Scope N_scope.

(* coordinates back to square numbers *)
Definition back_ok (f t : N) : bool :=
  implb ((colZ f =? colZ t)%Z && (rowZ t =? rowZ f + 1)%Z) ((f =? t + 8) && (8 <=? f)) &&
  implb ((colZ f =? colZ t)%Z && (rowZ t =? rowZ f - 1)%Z) (t =? f + 8) &&
  implb ((colZ f =? colZ t)%Z && (rowZ t =? rowZ f + 2)%Z) ((f =? t + 16) && (16 <=? f)) &&
  implb ((colZ f =? colZ t)%Z && (rowZ t =? rowZ f - 2)%Z) (t =? f + 16).
Lemma back_check : forallb (fun f => forallb (back_ok f) (seqN 0 64)) (seqN 0 64) = true.
Proof. vm_compute. reflexivity. Qed.

Lemma onb_sq a : onb a = true -> exists s, s < 64 /\ a = sq_of_idx s.
Proof.
  intros O. destruct a as [x y]. unfold onb in O. apply andb_true_iff in O. destruct O as [O O4]. apply andb_true_iff in O. destruct O as [O O3].
  apply andb_true_iff in O. destruct O as [O1 O2]. apply Z.leb_le in O1, O3. apply Z.ltb_lt in O2, O4.
  exists (Z.to_N (8 * (7 - y) + x)). split; [lia|].
  unfold sq_of_idx. set (s := Z.to_N (8 * (7 - y) + x)).
  assert (E : Z.of_N s = (8 * (7 - y) + x)%Z) by (unfold s; lia).
  assert (M : Z.of_N (s mod 8) = x). { rewrite N2Z.inj_mod. rewrite E. replace (8 * (7 - y) + x)%Z with (x + (7 - y) * 8)%Z by lia. rewrite Z_mod_plus_full. apply Z.mod_small. lia. }
  assert (Dv : Z.of_N (s / 8) = (7 - y)%Z). { rewrite N2Z.inj_div. rewrite E. replace (8 * (7 - y) + x)%Z with (x + (7 - y) * 8)%Z by lia. rewrite Z_div_plus_full by lia. rewrite Z.div_small by lia. lia. }
  rewrite M, Dv. f_equal. lia.
Qed.

(* ---- membership in the generated lists (the converse of the generator walks) ---- *)
Lemma in_piece_quiet g opp p att f t : tb (bb g p) f = true -> tb (att f) t = true -> tb (aocc g) t = false -> t < 64 ->
  In (mk f t p NOPIECE false false false false) (piece_moves g true opp p att).
Proof.
  intros F A E T. unfold piece_moves. apply in_flat_map. exists f. split; [apply in_bits; exact F|].
  apply in_or_app. left. apply in_map_iff. exists t. split; [reflexivity|]. apply in_bits. rewrite !land_bit. rewrite A. cbn [andb].
  unfold tb. rewrite N.lnot_spec_low by exact T. unfold tb in E. rewrite E. cbn [negb andb].
  change M64 with (N.ones 64). apply N.ones_spec_low. exact T.
Qed.
Lemma in_piece_cap g all opp p att f t : tb (bb g p) f = true -> tb (att f) t = true -> tb opp t = true ->
  In (mk f t p NOPIECE true false false false) (piece_moves g all opp p att).
Proof.
  intros F A O. unfold piece_moves. apply in_flat_map. exists f. split; [apply in_bits; exact F|].
  apply in_or_app. right. apply in_map_iff. exists t. split; [reflexivity|]. apply in_bits. rewrite land_bit, A, O. reflexivity.
Qed.

(* the i-th component of the generated list *)
Lemma gen_white g all m : white g = true ->
  (In m (flat_map (white_pawn_moves g all) (bits_of (bb g WP))) \/
   In m (castle_move g all 1 CASTLE_EMPTY_WK 60 61 false 62 WK) \/ In m (castle_move g all 2 CASTLE_EMPTY_WQ 60 59 false 58 WK) \/
   In m (piece_moves g all (bocc g) WN knight_att) \/ In m (piece_moves g all (bocc g) WB (fun f => bishop_att f (aocc g))) \/
   In m (piece_moves g all (bocc g) WR (fun f => rook_att f (aocc g))) \/ In m (piece_moves g all (bocc g) WQ (fun f => queen_att f (aocc g))) \/
   In m (piece_moves g all (bocc g) WK king_att)) -> In m (generate_moves g all).
Proof.
  intros W H. unfold generate_moves. rewrite W.
  repeat (destruct H as [H|H]; [repeat (try (apply in_or_app; left; exact H); apply in_or_app; right); try exact H|]).
  repeat (apply in_or_app; right). exact H.
Qed.
Lemma gen_black g all m : white g = false ->
  (In m (flat_map (black_pawn_moves g all) (bits_of (bb g BP))) \/
   In m (castle_move g all 4 CASTLE_EMPTY_BK 4 5 true 6 BK) \/ In m (castle_move g all 8 CASTLE_EMPTY_BQ 4 3 true 2 BK) \/
   In m (piece_moves g all (wocc g) BN knight_att) \/ In m (piece_moves g all (wocc g) BB (fun f => bishop_att f (aocc g))) \/
   In m (piece_moves g all (wocc g) BR (fun f => rook_att f (aocc g))) \/ In m (piece_moves g all (wocc g) BQ (fun f => queen_att f (aocc g))) \/
   In m (piece_moves g all (wocc g) BK king_att)) -> In m (generate_moves g all).
Proof.
  intros W H. unfold generate_moves. rewrite W.
  repeat (destruct H as [H|H]; [repeat (try (apply in_or_app; left; exact H); apply in_or_app; right); try exact H|]).
  repeat (apply in_or_app; right). exact H.
Qed.

(* ---- reading the abstract board back ---- *)
Lemma color_at_cons g t : cons g -> t < 64 ->
  color_at (board (abs g)) (sq_of_idx t) = if tb (wocc g) t then Some White else if tb (bocc g) t then Some Black else None.
Proof.
  intros C T. unfold color_at. rewrite (at_abs_cons g t T), who_cell.
  destruct (tb (wocc g) t) eqn:W.
  - apply (c_wocc g C) in W. destruct W as (p & P & TP).
    rewrite (who_some (st_of g) t p (cons_consB g C) ltac:(lia) TP). cbn [option_map].
    pose proof (piece_of_color p ltac:(lia)) as PC. destruct (piece_of p) as [c k]. cbn [fst] in PC. subst c.
    replace (p <? 6) with true by (symmetry; apply N.ltb_lt; exact P). reflexivity.
  - destruct (tb (bocc g) t) eqn:B.
    + apply (c_bocc g C) in B. destruct B as (p & P & TP).
      rewrite (who_some (st_of g) t p (cons_consB g C) ltac:(lia) TP). cbn [option_map].
      pose proof (piece_of_color p ltac:(lia)) as PC. destruct (piece_of p) as [c k]. cbn [fst] in PC. subst c.
      replace (p <? 6) with false by (symmetry; apply N.ltb_ge; lia). reflexivity.
    + assert (A : tb (aocc g) t = false) by (rewrite (c_aocc g C), W, B; reflexivity).
      rewrite (who_none (st_of g) t); [reflexivity|]. intros q Q. apply (occ_clear g C q t Q A).
Qed.

Lemma cell_piece g f c k : cons g -> f < 64 -> at_ (board (abs g)) (sq_of_idx f) = Some (c, k) -> tb (bb g (pidx c k)) f = true.
Proof.
  intros C F A. rewrite (at_abs_cons g f F), who_cell in A. destruct (who (st_of g) f) as [q|] eqn:W; [|discriminate].
  destruct (who_inv _ _ _ W) as (Q & TQ). cbn [option_map] in A. assert (A' : piece_of q = (c, k)) by congruence. clear A. rename A' into A.
  assert (QE : pidx c k = q) by (rewrite <- (pidx_piece_of q Q), A; reflexivity). rewrite QE. exact TQ.
Qed.

Definition own (g : game) : N := if white g then wocc g else bocc g.
Definition opo (g : game) : N := if white g then bocc g else wocc g.

Lemma not_own_spec g t : cons g -> t < 64 ->
  negb (match color_at (board (abs g)) (sq_of_idx t) with Some ct => color_eqb ct (colr (white g)) | None => false end) = true ->
  tb (own g) t = false.
Proof.
  intros C T H. rewrite (color_at_cons g t C T) in H. unfold own. destruct (white g); cbn [colr] in H.
  - destruct (tb (wocc g) t); [discriminate H|reflexivity].
  - destruct (tb (wocc g) t) eqn:W; [|destruct (tb (bocc g) t); [discriminate H|reflexivity]].
    destruct (tb (bocc g) t) eqn:B; [|reflexivity]. exfalso.
    apply (c_wocc g C) in W. destruct W as (p & P & TP). apply (c_bocc g C) in B. destruct B as (q & Q & TQ).
    rewrite (c_disj g C p q t ltac:(lia) ltac:(lia) ltac:(lia) TP) in TQ. discriminate.
Qed.

Lemma opp_occ_spec g t : cons g -> t < 64 ->
  (match color_at (board (abs g)) (sq_of_idx t) with Some ct => color_eqb ct (ChessSpec.opp (colr (white g))) | None => false end) = true ->
  tb (opo g) t = true.
Proof.
  intros C T H. rewrite (color_at_cons g t C T) in H. unfold opo. destruct (white g); cbn [colr ChessSpec.opp] in H.
  - destruct (tb (wocc g) t); [discriminate H|]. destruct (tb (bocc g) t); [reflexivity|discriminate H].
  - destruct (tb (wocc g) t); [reflexivity|]. destruct (tb (bocc g) t); discriminate H.
Qed.

Lemma occupied_not_own g t : cons g -> tb (own g) t = false -> tb (aocc g) t = true -> tb (opo g) t = true.
Proof. intros C O A. rewrite (c_aocc g C) in A. unfold own, opo in *. destruct (white g); rewrite O in A; [exact A|rewrite orb_false_r in A; exact A]. Qed.

Lemma opo_occupied g t : cons g -> tb (opo g) t = true -> tb (aocc g) t = true.
Proof. intros C O. rewrite (c_aocc g C). unfold opo in O. destruct (white g); rewrite O; [apply orb_true_r|reflexivity]. Qed.

Lemma wb_white g c : colr (white g) = c -> white g = wb c. Proof. intros <-. destruct (white g); reflexivity. Qed.

(* ---- knights, bishops, rooks, queens and king steps ---- *)
Lemma piece_generated g c k f t : cons g -> colr (white g) = c -> k <> Pawn -> f < 64 -> t < 64 ->
  tb (bb g (pidx c k)) f = true -> tb (own g) t = false -> tb (att_of g c k f) t = true ->
  exists m, In m (generate_moves g true) /\ umove m = mkSMove (sq_of_idx f) (sq_of_idx t) None.
Proof.
  intros C WC NP F T B O A. apply wb_white in WC.
  destruct (tb (aocc g) t) eqn:E.
  - pose proof (occupied_not_own g t C O E) as OP. unfold opo in OP. rewrite WC in OP.
    exists (mk f t (pidx c k) NOPIECE true false false false). split; [|reflexivity].
    destruct c; cbn [wb] in *; [apply (gen_white g true _ WC)|apply (gen_black g true _ WC)]; destruct k; try (exfalso; apply NP; reflexivity); cbn [att_of] in A.
    + do 3 right. left. exact (in_piece_cap g true (bocc g) WN knight_att f t B A OP).
    + do 4 right. left. exact (in_piece_cap g true (bocc g) WB (fun f => bishop_att f (aocc g)) f t B A OP).
    + do 5 right. left. exact (in_piece_cap g true (bocc g) WR (fun f => rook_att f (aocc g)) f t B A OP).
    + do 6 right. left. exact (in_piece_cap g true (bocc g) WQ (fun f => queen_att f (aocc g)) f t B A OP).
    + do 7 right. exact (in_piece_cap g true (bocc g) WK king_att f t B A OP).
    + do 3 right. left. exact (in_piece_cap g true (wocc g) BN knight_att f t B A OP).
    + do 4 right. left. exact (in_piece_cap g true (wocc g) BB (fun f => bishop_att f (aocc g)) f t B A OP).
    + do 5 right. left. exact (in_piece_cap g true (wocc g) BR (fun f => rook_att f (aocc g)) f t B A OP).
    + do 6 right. left. exact (in_piece_cap g true (wocc g) BQ (fun f => queen_att f (aocc g)) f t B A OP).
    + do 7 right. exact (in_piece_cap g true (wocc g) BK king_att f t B A OP).
  - exists (mk f t (pidx c k) NOPIECE false false false false). split; [|reflexivity].
    destruct c; cbn [wb] in *; [apply (gen_white g true _ WC)|apply (gen_black g true _ WC)]; destruct k; try (exfalso; apply NP; reflexivity); cbn [att_of] in A.
    + do 3 right. left. exact (in_piece_quiet g (bocc g) WN knight_att f t B A E T).
    + do 4 right. left. exact (in_piece_quiet g (bocc g) WB (fun f => bishop_att f (aocc g)) f t B A E T).
    + do 5 right. left. exact (in_piece_quiet g (bocc g) WR (fun f => rook_att f (aocc g)) f t B A E T).
    + do 6 right. left. exact (in_piece_quiet g (bocc g) WQ (fun f => queen_att f (aocc g)) f t B A E T).
    + do 7 right. exact (in_piece_quiet g (bocc g) WK king_att f t B A E T).
    + do 3 right. left. exact (in_piece_quiet g (wocc g) BN knight_att f t B A E T).
    + do 4 right. left. exact (in_piece_quiet g (wocc g) BB (fun f => bishop_att f (aocc g)) f t B A E T).
    + do 5 right. left. exact (in_piece_quiet g (wocc g) BR (fun f => rook_att f (aocc g)) f t B A E T).
    + do 6 right. left. exact (in_piece_quiet g (wocc g) BQ (fun f => queen_att f (aocc g)) f t B A E T).
    + do 7 right. exact (in_piece_quiet g (wocc g) BK king_att f t B A E T).
Qed.

(* ---- castling ---- *)
Lemma land_bit_clear a i : tb a i = false -> N.land a (bit i) = 0.
Proof.
  intros A. apply N.bits_inj. intros s. rewrite N.land_spec, testbit_bit, N.bits_0.
  destruct (N.eqb_spec i s) as [<-|]; [unfold tb in A; rewrite A; reflexivity|apply andb_false_r].
Qed.
Lemma land_ne0 c r i : tb r i = true -> tb c i = true -> (N.land c r =? 0) = false.
Proof.
  intros Rr Cc. apply N.eqb_neq. intros Z. assert (X : tb (N.land c r) i = false) by (rewrite Z; apply N.bits_0).
  rewrite land_bit, Rr, Cc in X. discriminate.
Qed.
Lemma castle_in g right mask ksq cross bw t king i :
  tb right i = true -> tb (castling g) i = true -> N.land (aocc g) mask = 0 ->
  is_square_attacked (bbs g) (aocc g) ksq bw = false -> is_square_attacked (bbs g) (aocc g) cross bw = false ->
  In (mk ksq t king NOPIECE false false false true) (castle_move g true right mask ksq cross bw t king).
Proof.
  intros Rr Cc M A1 A2. unfold castle_move. rewrite (land_ne0 _ _ i Rr Cc), M, A1, A2. cbn. left. reflexivity.
Qed.
Lemma mask2 a i j : tb a i = false -> tb a j = false -> N.land a (N.lor (bit i) (bit j)) = 0.
Proof. intros A B. rewrite N.land_lor_distr_r, (land_bit_clear a i A), (land_bit_clear a j B). reflexivity. Qed.
Lemma mask3 a i j k : tb a i = false -> tb a j = false -> tb a k = false -> N.land a (N.lor (N.lor (bit i) (bit j)) (bit k)) = 0.
Proof. intros A B D. rewrite N.land_lor_distr_r, (mask2 a i j A B), (land_bit_clear a k D). reflexivity. Qed.

Lemma sq_is t x y : t < 64 -> (fst (sq_of_idx t) =? x)%Z = true -> (snd (sq_of_idx t) =? y)%Z = true -> sq_of_idx t = (x, y).
Proof. intros T X Y. apply Z.eqb_eq in X, Y. destruct (sq_of_idx t) as [a b]. cbn [fst snd] in *. subst. reflexivity. Qed.

Section Castle.
Variables (g : game) (f t : N).
Hypothesis C : cons g.
Hypothesis R : range g.
Hypothesis Ff : f < 64.
Hypothesis Tt : t < 64.
Let w := white g.
Lemma castle_generated :
  (let r := home_rank (colr w) in
    sq_eqb (sq_of_idx f) (4, r)%Z && (snd (sq_of_idx t) =? r)%Z && negb (attacked (board (abs g)) (ChessSpec.opp (colr w)) (sq_of_idx f)) &&
    (((fst (sq_of_idx t) =? 6)%Z && (match colr w with White => cK (abs g) | Black => ck (abs g) end) && has (board (abs g)) (7, r)%Z (colr w, Rook)
       && empty (board (abs g)) (5, r)%Z && empty (board (abs g)) (6, r)%Z && negb (attacked (board (abs g)) (ChessSpec.opp (colr w)) (5, r)%Z))
     || ((fst (sq_of_idx t) =? 2)%Z && (match colr w with White => cQ (abs g) | Black => cq (abs g) end) && has (board (abs g)) (0, r)%Z (colr w, Rook)
       && empty (board (abs g)) (3, r)%Z && empty (board (abs g)) (2, r)%Z && empty (board (abs g)) (1, r)%Z && negb (attacked (board (abs g)) (ChessSpec.opp (colr w)) (3, r)%Z)))) = true ->
  exists m, In m (generate_moves g true) /\ umove m = mkSMove (sq_of_idx f) (sq_of_idx t) None.
Proof.
  cbn zeta. intros H. apply andb_true_iff in H. destruct H as [H SIDE]. apply andb_true_iff in H. destruct H as [H NA]. apply andb_true_iff in H. destruct H as [FE TR].
  apply negb_true_iff in NA.
  assert (WE : white g = w) by reflexivity. clearbody w.
  destruct w; cbn [colr home_rank ChessSpec.opp] in *.
  - change (4, 0)%Z with (sq_of_idx 60) in FE. rewrite (sq_eqb_idx f 60 Ff ltac:(lia)) in FE. apply N.eqb_eq in FE. subst f.
    rewrite (attacked_model g Black 60 C R ltac:(lia)) in NA. cbn [wb] in NA.
    apply orb_true_iff in SIDE. destruct SIDE as [S|S].
    + repeat (let X := fresh "X" in apply andb_true_iff in S; destruct S as [S X]).
      pose proof (sq_is t 6 0 Tt S TR) as TE. change (6, 0)%Z with (sq_of_idx 62) in TE. apply (sq_of_idx_inj t 62 Tt ltac:(lia)) in TE. subst t.
      change (5, 0)%Z with (sq_of_idx 61) in *. change (6, 0)%Z with (sq_of_idx 62) in *.
      rewrite (attacked_model g Black 61 C R ltac:(lia)) in X. cbn [wb] in X. apply negb_true_iff in X.
      rewrite (empty_abs_cons g 62 C ltac:(lia)) in X0. rewrite (empty_abs_cons g 61 C ltac:(lia)) in X1. apply negb_true_iff in X0, X1.
      exists (mk 60 62 WK NOPIECE false false false true). split; [|reflexivity]. apply (gen_white g true _ WE). right. left.
      apply (castle_in g 1 CASTLE_EMPTY_WK 60 61 false 62 WK 0 ltac:(reflexivity) X3); [|exact NA|exact X].
      change CASTLE_EMPTY_WK with (N.lor (bit 61) (bit 62)). apply mask2; assumption.
    + repeat (let X := fresh "X" in apply andb_true_iff in S; destruct S as [S X]).
      pose proof (sq_is t 2 0 Tt S TR) as TE. change (2, 0)%Z with (sq_of_idx 58) in TE. apply (sq_of_idx_inj t 58 Tt ltac:(lia)) in TE. subst t.
      change (3, 0)%Z with (sq_of_idx 59) in *. change (2, 0)%Z with (sq_of_idx 58) in *. change (1, 0)%Z with (sq_of_idx 57) in *.
      rewrite (attacked_model g Black 59 C R ltac:(lia)) in X. cbn [wb] in X. apply negb_true_iff in X.
      rewrite (empty_abs_cons g 57 C ltac:(lia)) in X0. rewrite (empty_abs_cons g 58 C ltac:(lia)) in X1. rewrite (empty_abs_cons g 59 C ltac:(lia)) in X2.
      apply negb_true_iff in X0, X1, X2.
      exists (mk 60 58 WK NOPIECE false false false true). split; [|reflexivity]. apply (gen_white g true _ WE). right. right. left.
      apply (castle_in g 2 CASTLE_EMPTY_WQ 60 59 false 58 WK 1 ltac:(reflexivity) X4); [|exact NA|exact X].
      change CASTLE_EMPTY_WQ with (N.lor (N.lor (bit 57) (bit 58)) (bit 59)). apply mask3; assumption.
  - change (4, 7)%Z with (sq_of_idx 4) in FE. rewrite (sq_eqb_idx f 4 Ff ltac:(lia)) in FE. apply N.eqb_eq in FE. subst f.
    rewrite (attacked_model g White 4 C R ltac:(lia)) in NA. cbn [wb] in NA.
    apply orb_true_iff in SIDE. destruct SIDE as [S|S].
    + repeat (let X := fresh "X" in apply andb_true_iff in S; destruct S as [S X]).
      pose proof (sq_is t 6 7 Tt S TR) as TE. change (6, 7)%Z with (sq_of_idx 6) in TE. apply (sq_of_idx_inj t 6 Tt ltac:(lia)) in TE. subst t.
      change (5, 7)%Z with (sq_of_idx 5) in *. change (6, 7)%Z with (sq_of_idx 6) in *.
      rewrite (attacked_model g White 5 C R ltac:(lia)) in X. cbn [wb] in X. apply negb_true_iff in X.
      rewrite (empty_abs_cons g 6 C ltac:(lia)) in X0. rewrite (empty_abs_cons g 5 C ltac:(lia)) in X1. apply negb_true_iff in X0, X1.
      exists (mk 4 6 BK NOPIECE false false false true). split; [|reflexivity]. apply (gen_black g true _ WE). right. left.
      apply (castle_in g 4 CASTLE_EMPTY_BK 4 5 true 6 BK 2 ltac:(reflexivity) X3); [|exact NA|exact X].
      change CASTLE_EMPTY_BK with (N.lor (bit 5) (bit 6)). apply mask2; assumption.
    + repeat (let X := fresh "X" in apply andb_true_iff in S; destruct S as [S X]).
      pose proof (sq_is t 2 7 Tt S TR) as TE. change (2, 7)%Z with (sq_of_idx 2) in TE. apply (sq_of_idx_inj t 2 Tt ltac:(lia)) in TE. subst t.
      change (3, 7)%Z with (sq_of_idx 3) in *. change (2, 7)%Z with (sq_of_idx 2) in *. change (1, 7)%Z with (sq_of_idx 1) in *.
      rewrite (attacked_model g White 3 C R ltac:(lia)) in X. cbn [wb] in X. apply negb_true_iff in X.
      rewrite (empty_abs_cons g 1 C ltac:(lia)) in X0. rewrite (empty_abs_cons g 2 C ltac:(lia)) in X1. rewrite (empty_abs_cons g 3 C ltac:(lia)) in X2.
      apply negb_true_iff in X0, X1, X2.
      exists (mk 4 2 BK NOPIECE false false false true). split; [|reflexivity]. apply (gen_black g true _ WE). right. right. left.
      apply (castle_in g 8 CASTLE_EMPTY_BQ 4 3 true 2 BK 3 ltac:(reflexivity) X4); [|exact NA|exact X].
      change CASTLE_EMPTY_BQ with (N.lor (N.lor (bit 1) (bit 2)) (bit 3)). apply mask3; assumption.
Qed.
End Castle.

(* ---- pawns: membership in white_pawn_moves / black_pawn_moves ---- *)
Lemma in_promos_of f t p q n r b cap pr : In pr [q; n; r; b] -> In (mk f t p pr cap false false false) (Chess.promos f t p q n r b cap).
Proof. intros H. unfold Chess.promos. cbn [In] in *. destruct H as [<-|[<-|[<-|[<-|[]]]]]; auto. Qed.

Lemma ep_cond g att : ep g <> NOSQ -> tb att (ep g) = true -> negb (ep g =? NOSQ) && negb (N.land att (bit (ep g)) =? 0) = true.
Proof.
  intros NE A. apply N.eqb_neq in NE. rewrite NE. cbn [negb andb].
  rewrite (land_ne0 att (bit (ep g)) (ep g)); [reflexivity| |exact A]. unfold tb. rewrite testbit_bit. apply N.eqb_refl.
Qed.

Section WPawn.
Variables (g : game) (f : N).
Lemma wp_push : tb (aocc g) (f - 8) = false -> 8 <= f - 8 -> In (mk f (f - 8) WP NOPIECE false false false false) (white_pawn_moves g true f).
Proof.
  intros E L. unfold white_pawn_moves. cbn zeta. apply in_or_app. left. unfold get_bit. unfold tb in E. rewrite E. cbn [andb negb].
  apply N.leb_le in L. rewrite L. left. reflexivity.
Qed.
Lemma wp_push_promo pr : tb (aocc g) (f - 8) = false -> f - 8 < 8 -> In pr [WQ; WN; WR; WB] ->
  In (mk f (f - 8) WP pr false false false false) (white_pawn_moves g true f).
Proof.
  intros E L P. unfold white_pawn_moves. cbn zeta. apply in_or_app. left. unfold get_bit. unfold tb in E. rewrite E. cbn [andb negb].
  apply N.leb_gt in L. rewrite L. apply in_promos_of. exact P.
Qed.
Lemma wp_dp : tb (aocc g) (f - 8) = false -> tb (aocc g) (f - 8 - 8) = false -> 8 <= f - 8 -> f / 8 = 6 ->
  In (mk f (f - 8 - 8) WP NOPIECE false true false false) (white_pawn_moves g true f).
Proof.
  intros E E2 L D. unfold white_pawn_moves. cbn zeta. apply in_or_app. left. unfold get_bit. unfold tb in E, E2. rewrite E, E2. cbn [andb negb].
  apply N.leb_le in L. rewrite L. right. rewrite D. cbn. left. reflexivity.
Qed.
Lemma wp_ep all : ep g <> NOSQ -> tb (pawn_att f true) (ep g) = true -> In (mk f (ep g) WP NOPIECE true false true false) (white_pawn_moves g all f).
Proof.
  intros NE A. unfold white_pawn_moves. cbn zeta. apply in_or_app. right. apply in_or_app. left. rewrite (ep_cond g _ NE A). left. reflexivity.
Qed.
Lemma wp_cap all t : tb (pawn_att f true) t = true -> tb (bocc g) t = true -> 8 <= t ->
  In (mk f t WP NOPIECE true false false false) (white_pawn_moves g all f).
Proof.
  intros A B L. unfold white_pawn_moves. cbn zeta. apply in_or_app. right. apply in_or_app. right. apply in_flat_map. exists t.
  split; [apply in_bits; rewrite land_bit, A, B; reflexivity|]. apply N.leb_le in L. rewrite L. left. reflexivity.
Qed.
Lemma wp_cap_promo all t pr : tb (pawn_att f true) t = true -> tb (bocc g) t = true -> t < 8 -> In pr [WQ; WN; WR; WB] ->
  In (mk f t WP pr true false false false) (white_pawn_moves g all f).
Proof.
  intros A B L P. unfold white_pawn_moves. cbn zeta. apply in_or_app. right. apply in_or_app. right. apply in_flat_map. exists t.
  split; [apply in_bits; rewrite land_bit, A, B; reflexivity|]. apply N.leb_gt in L. rewrite L. apply in_promos_of. exact P.
Qed.
End WPawn.

Section BPawn.
Variables (g : game) (f : N).
Lemma bp_push : tb (aocc g) (f + 8) = false -> f + 8 <= 55 -> In (mk f (f + 8) BP NOPIECE false false false false) (black_pawn_moves g true f).
Proof.
  intros E L. unfold black_pawn_moves. cbn zeta. apply in_or_app. left. unfold get_bit. unfold tb in E. rewrite E. cbn [andb negb].
  apply N.leb_le in L. rewrite L. left. reflexivity.
Qed.
Lemma bp_push_promo pr : tb (aocc g) (f + 8) = false -> 55 < f + 8 -> In pr [BQ; BN; BR; BB] ->
  In (mk f (f + 8) BP pr false false false false) (black_pawn_moves g true f).
Proof.
  intros E L P. unfold black_pawn_moves. cbn zeta. apply in_or_app. left. unfold get_bit. unfold tb in E. rewrite E. cbn [andb negb].
  apply N.leb_gt in L. rewrite L. apply in_promos_of. exact P.
Qed.
Lemma bp_dp : tb (aocc g) (f + 8) = false -> tb (aocc g) (f + 8 + 8) = false -> f + 8 <= 55 -> f / 8 = 1 ->
  In (mk f (f + 8 + 8) BP NOPIECE false true false false) (black_pawn_moves g true f).
Proof.
  intros E E2 L D. unfold black_pawn_moves. cbn zeta. apply in_or_app. left. unfold get_bit. unfold tb in E, E2. rewrite E, E2. cbn [andb negb].
  apply N.leb_le in L. rewrite L. right. rewrite D. cbn. left. reflexivity.
Qed.
Lemma bp_ep all : ep g <> NOSQ -> tb (pawn_att f false) (ep g) = true -> In (mk f (ep g) BP NOPIECE true false true false) (black_pawn_moves g all f).
Proof.
  intros NE A. unfold black_pawn_moves. cbn zeta. apply in_or_app. right. apply in_or_app. left. rewrite (ep_cond g _ NE A). left. reflexivity.
Qed.
Lemma bp_cap all t : tb (pawn_att f false) t = true -> tb (wocc g) t = true -> t <= 55 ->
  In (mk f t BP NOPIECE true false false false) (black_pawn_moves g all f).
Proof.
  intros A B L. unfold black_pawn_moves. cbn zeta. apply in_or_app. right. apply in_or_app. right. apply in_flat_map. exists t.
  split; [apply in_bits; rewrite land_bit, A, B; reflexivity|]. apply N.leb_le in L. rewrite L. left. reflexivity.
Qed.
Lemma bp_cap_promo all t pr : tb (pawn_att f false) t = true -> tb (wocc g) t = true -> 55 < t -> In pr [BQ; BN; BR; BB] ->
  In (mk f t BP pr true false false false) (black_pawn_moves g all f).
Proof.
  intros A B L P. unfold black_pawn_moves. cbn zeta. apply in_or_app. right. apply in_or_app. right. apply in_flat_map. exists t.
  split; [apply in_bits; rewrite land_bit, A, B; reflexivity|]. apply N.leb_gt in L. rewrite L. apply in_promos_of. exact P.
Qed.
End BPawn.

Definition div_ok (f : N) : bool := Bool.eqb ((48 <=? f) && (f <? 56)) (f / 8 =? 6) && Bool.eqb ((8 <=? f) && (f <? 16)) (f / 8 =? 1).
Lemma div_check : forallb div_ok (seqN 0 64) = true. Proof. vm_compute. reflexivity. Qed.
Lemma div_spec f : f < 64 -> ((48 <=? f) && (f <? 56)) = (f / 8 =? 6) /\ ((8 <=? f) && (f <? 16)) = (f / 8 =? 1).
Proof. intros L. pose proof (all64 _ div_check f L) as X. unfold div_ok in X. apply andb_true_iff in X. destruct X as [X1 X2]. apply eqb_prop in X1, X2. auto. Qed.

Lemma back_spec f t : f < 64 -> t < 64 ->
  (colZ f = colZ t -> rowZ t = (rowZ f + 1)%Z -> f = t + 8 /\ 8 <= f) /\
  (colZ f = colZ t -> rowZ t = (rowZ f - 1)%Z -> t = f + 8) /\
  (colZ f = colZ t -> rowZ t = (rowZ f + 2)%Z -> f = t + 16 /\ 16 <= f) /\
  (colZ f = colZ t -> rowZ t = (rowZ f - 2)%Z -> t = f + 16).
Proof.
  intros F T. pose proof (all64x64 _ back_check f t F T) as X. unfold back_ok in X.
  apply andb_true_iff in X. destruct X as [X X4]. apply andb_true_iff in X. destruct X as [X X3]. apply andb_true_iff in X. destruct X as [X1 X2].
  split; [|split; [|split]]; intros CE RE; apply Z.eqb_eq in CE, RE; rewrite CE, RE in *; cbn [andb implb] in *.
  - apply andb_true_iff in X1. destruct X1 as [A A']. apply N.eqb_eq in A. apply N.leb_le in A'. split; assumption.
  - apply N.eqb_eq in X2. exact X2.
  - apply andb_true_iff in X3. destruct X3 as [A A']. apply N.eqb_eq in A. apply N.leb_le in A'. split; assumption.
  - apply N.eqb_eq in X4. exact X4.
Qed.

Lemma promo_pick_w (pr : option kind) : match pr with Some Knight | Some Bishop | Some Rook | Some Queen => true | _ => false end = true ->
  exists q, In q [WQ; WN; WR; WB] /\ promo_kind q = pr.
Proof. destruct pr as [[]|]; try discriminate; intros _; [exists WN|exists WB|exists WR|exists WQ]; split; cbn; auto. Qed.
Lemma promo_pick_b (pr : option kind) : match pr with Some Knight | Some Bishop | Some Rook | Some Queen => true | _ => false end = true ->
  exists q, In q [BQ; BN; BR; BB] /\ promo_kind q = pr.
Proof. destruct pr as [[]|]; try discriminate; intros _; [exists BN|exists BB|exists BR|exists BQ]; split; cbn; auto. Qed.
Lemma promo_none (pr : option kind) : match pr with None => true | Some _ => false end = true -> pr = None.
Proof. destruct pr; [discriminate|reflexivity]. Qed.

Section WP.
Variables (g : game) (f t : N) (pr : option kind).
Hypothesis C : cons g.
Hypothesis R : range g.
Hypothesis W : white g = true.
Hypothesis Ff : f < 64.
Hypothesis Tt : t < 64.
Hypothesis B : tb (bb g WP) f = true.
Hypothesis PR : (if (snd (sq_of_idx t) =? last_rank White)%Z then match pr with Some Knight | Some Bishop | Some Rook | Some Queen => true | _ => false end
                 else match pr with None => true | _ => false end) = true.

Lemma wfrom : In f (bits_of (bb g WP)). Proof. apply in_bits. exact B. Qed.

Lemma w_in m : In m (white_pawn_moves g true f) -> In m (generate_moves g true).
Proof. intros H. apply (gen_white g true m W). left. apply in_flat_map. exists f. split; [exact wfrom|exact H]. Qed.

Lemma w_last : (snd (sq_of_idx t) =? last_rank White)%Z = (t <? 8).
Proof. destruct (rank_spec t Tt) as (R7 & _). exact R7. Qed.

Lemma wpawn_generated :
  ((fst (sq_of_idx f) =? fst (sq_of_idx t))%Z && (snd (sq_of_idx t) =? snd (sq_of_idx f) + fwd White)%Z && empty (board (abs g)) (sq_of_idx t)) ||
  ((fst (sq_of_idx f) =? fst (sq_of_idx t))%Z && (snd (sq_of_idx f) =? start_rank White)%Z &&
   (snd (sq_of_idx t) =? snd (sq_of_idx f) + 2 * fwd White)%Z && empty (board (abs g)) (sq_of_idx t) &&
   empty (board (abs g)) (fst (sq_of_idx f), (snd (sq_of_idx f) + fwd White)%Z)) ||
  (pawn_attacks White (sq_of_idx f) (sq_of_idx t) &&
   ((match color_at (board (abs g)) (sq_of_idx t) with Some ct => color_eqb ct (ChessSpec.opp White) | None => false end) ||
    (match epsq (abs g) with Some e => sq_eqb e (sq_of_idx t) | None => false end))) = true ->
  exists m, In m (generate_moves g true) /\ umove m = mkSMove (sq_of_idx f) (sq_of_idx t) pr.
Proof.
  rewrite w_last in PR. cbn [fwd start_rank ChessSpec.opp].
  change (fst (sq_of_idx f)) with (colZ f). change (fst (sq_of_idx t)) with (colZ t).
  change (snd (sq_of_idx f)) with (rowZ f). change (snd (sq_of_idx t)) with (rowZ t).
  destruct (back_spec f t Ff Tt) as (BK1 & _ & BK2 & _).
  intros MV. apply orb_true_iff in MV. destruct MV as [MV|MV]; [apply orb_true_iff in MV; destruct MV as [MV|MV]|].
  - (* single push *)
    apply andb_true_iff in MV. destruct MV as [MV EM]. apply andb_true_iff in MV. destruct MV as [CE RE]. apply Z.eqb_eq in CE, RE.
    destruct (BK1 CE RE) as (FE & F8). assert (TE : t = f - 8) by lia.
    rewrite (empty_abs_cons g t C Tt) in EM. apply negb_true_iff in EM.
    destruct (N.ltb_spec t 8) as [L|L].
    + destruct (promo_pick_w pr PR) as (q & Q & PK). exists (mk f t WP q false false false false). split.
      * apply w_in. rewrite TE in *. apply wp_push_promo; assumption.
      * unfold umove. cbn. rewrite <- PK. reflexivity.
    + apply promo_none in PR. subst pr. exists (mk f t WP NOPIECE false false false false). split; [|reflexivity].
      apply w_in. rewrite TE in *. apply wp_push; assumption.
  - (* double push *)
    apply andb_true_iff in MV. destruct MV as [MV EM2]. apply andb_true_iff in MV. destruct MV as [MV EM]. apply andb_true_iff in MV. destruct MV as [MV RE].
    apply andb_true_iff in MV. destruct MV as [CE SR]. apply Z.eqb_eq in CE, RE.
    destruct (BK2 CE ltac:(lia)) as (FE & F16). assert (TE : t = f - 8 - 8) by lia.
    rewrite (empty_abs_cons g t C Tt) in EM. apply negb_true_iff in EM.
    destruct (push_geo_spec (f - 8) ltac:(lia)) as (P8 & _). replace (f - 8 + 8) with f in P8 by lia. destruct (P8 Ff) as (C8 & R8).
    assert (MID : (colZ f, (rowZ f + 1)%Z) = sq_of_idx (f - 8)) by (rewrite (sq_eta (f - 8)), C8, R8; f_equal; lia).
    rewrite MID, (empty_abs_cons g (f - 8) C ltac:(lia)) in EM2. apply negb_true_iff in EM2.
    destruct (rank_spec f Ff) as (_ & _ & R1 & _). change (rowZ f =? 1)%Z with (snd (sq_of_idx f) =? 1)%Z in SR. 
    change (snd (sq_of_idx f)) with (rowZ f) in SR. rewrite R1 in SR. destruct (div_spec f Ff) as (D6 & _). rewrite D6 in SR. apply N.eqb_eq in SR.
    assert (L : (t <? 8) = false) by (apply N.ltb_ge; rewrite D6 in R1; apply N.eqb_eq in SR; clear -SR TE F16 R1 D6 Ff; 
      destruct (N.leb_spec 48 f); [lia|]; exfalso; destruct (N.ltb_spec f 56); cbn in D6; rewrite SR in D6; cbn in D6; discriminate).
    rewrite L in PR. apply promo_none in PR. subst pr. exists (mk f t WP NOPIECE false true false false). split; [|reflexivity].
    apply w_in. apply N.ltb_ge in L. rewrite TE in *. apply wp_dp; try assumption. lia.
  - (* captures *)
    apply andb_true_iff in MV. destruct MV as [PA OC]. rewrite <- (pair_eq_spec _ _ wpawn_is_attack f t Ff Tt) in PA.
    apply orb_true_iff in OC. destruct OC as [OC|EP].
    + pose proof (opp_occ_spec g t C Tt) as OS. rewrite W in OS. cbn [colr ChessSpec.opp] in OS. specialize (OS OC). unfold opo in OS. rewrite W in OS.
      destruct (N.ltb_spec t 8) as [L|L].
      * destruct (promo_pick_w pr PR) as (q & Q & PK). exists (mk f t WP q true false false false). split.
        -- apply w_in. apply wp_cap_promo; assumption.
        -- unfold umove. cbn. rewrite <- PK. reflexivity.
      * apply promo_none in PR. subst pr. exists (mk f t WP NOPIECE true false false false). split; [|reflexivity].
        apply w_in. apply wp_cap; assumption.
    + rewrite (epsq_abs g) in EP. destruct (N.eqb_spec (ep g) NOSQ) as [|NE]; [discriminate EP|].
      destruct (r_ep g R NE) as (E8 & E56). rewrite (sq_eqb_idx (ep g) t ltac:(lia) Tt) in EP. apply N.eqb_eq in EP.
      assert (L : (t <? 8) = false) by (apply N.ltb_ge; lia). rewrite L in PR. apply promo_none in PR. subst pr.
      exists (mk f t WP NOPIECE true false true false). split; [|reflexivity]. apply w_in. rewrite <- EP in *. apply wp_ep; assumption.
Qed.
End WP.

Section BPn.
Variables (g : game) (f t : N) (pr : option kind).
Hypothesis C : cons g.
Hypothesis R : range g.
Hypothesis W : white g = false.
Hypothesis Ff : f < 64.
Hypothesis Tt : t < 64.
Hypothesis B : tb (bb g BP) f = true.
Hypothesis PR : (if (snd (sq_of_idx t) =? last_rank Black)%Z then match pr with Some Knight | Some Bishop | Some Rook | Some Queen => true | _ => false end
                 else match pr with None => true | _ => false end) = true.

Lemma b_in m : In m (black_pawn_moves g true f) -> In m (generate_moves g true).
Proof. intros H. apply (gen_black g true m W). left. apply in_flat_map. exists f. split; [apply in_bits; exact B|exact H]. Qed.

Lemma b_last : (snd (sq_of_idx t) =? last_rank Black)%Z = (55 <? t).
Proof. destruct (rank_spec t Tt) as (_ & R0 & _). exact R0. Qed.

Lemma bpawn_generated :
  ((fst (sq_of_idx f) =? fst (sq_of_idx t))%Z && (snd (sq_of_idx t) =? snd (sq_of_idx f) + fwd Black)%Z && empty (board (abs g)) (sq_of_idx t)) ||
  ((fst (sq_of_idx f) =? fst (sq_of_idx t))%Z && (snd (sq_of_idx f) =? start_rank Black)%Z &&
   (snd (sq_of_idx t) =? snd (sq_of_idx f) + 2 * fwd Black)%Z && empty (board (abs g)) (sq_of_idx t) &&
   empty (board (abs g)) (fst (sq_of_idx f), (snd (sq_of_idx f) + fwd Black)%Z)) ||
  (pawn_attacks Black (sq_of_idx f) (sq_of_idx t) &&
   ((match color_at (board (abs g)) (sq_of_idx t) with Some ct => color_eqb ct (ChessSpec.opp Black) | None => false end) ||
    (match epsq (abs g) with Some e => sq_eqb e (sq_of_idx t) | None => false end))) = true ->
  exists m, In m (generate_moves g true) /\ umove m = mkSMove (sq_of_idx f) (sq_of_idx t) pr.
Proof.
  rewrite b_last in PR. cbn [fwd start_rank ChessSpec.opp].
  change (fst (sq_of_idx f)) with (colZ f). change (fst (sq_of_idx t)) with (colZ t).
  change (snd (sq_of_idx f)) with (rowZ f). change (snd (sq_of_idx t)) with (rowZ t).
  destruct (back_spec f t Ff Tt) as (_ & BK1 & _ & BK2).
  intros MV. apply orb_true_iff in MV. destruct MV as [MV|MV]; [apply orb_true_iff in MV; destruct MV as [MV|MV]|].
  - (* single push *)
    apply andb_true_iff in MV. destruct MV as [MV EM]. apply andb_true_iff in MV. destruct MV as [CE RE]. apply Z.eqb_eq in CE, RE.
    pose proof (BK1 CE ltac:(lia)) as TE.
    rewrite (empty_abs_cons g t C Tt) in EM. apply negb_true_iff in EM.
    destruct (N.ltb_spec 55 t) as [L|L].
    + destruct (promo_pick_b pr PR) as (q & Q & PK). exists (mk f t BP q false false false false). split.
      * apply b_in. rewrite TE in *. apply bp_push_promo; assumption.
      * unfold umove. cbn. rewrite <- PK. reflexivity.
    + apply promo_none in PR. subst pr. exists (mk f t BP NOPIECE false false false false). split; [|reflexivity].
      apply b_in. rewrite TE in *. apply bp_push; assumption.
  - (* double push *)
    apply andb_true_iff in MV. destruct MV as [MV EM2]. apply andb_true_iff in MV. destruct MV as [MV EM]. apply andb_true_iff in MV. destruct MV as [MV RE].
    apply andb_true_iff in MV. destruct MV as [CE SR]. apply Z.eqb_eq in CE, RE.
    pose proof (BK2 CE ltac:(lia)) as TE0. assert (TE : t = f + 8 + 8) by lia.
    rewrite (empty_abs_cons g t C Tt) in EM. apply negb_true_iff in EM.
    destruct (push_geo_spec f Ff) as (P8 & _). destruct (P8 ltac:(lia)) as (C8 & R8).
    assert (MID : (colZ f, (rowZ f + -1)%Z) = sq_of_idx (f + 8)) by (rewrite (sq_eta (f + 8)), C8, R8; f_equal; lia).
    rewrite MID, (empty_abs_cons g (f + 8) C ltac:(lia)) in EM2. apply negb_true_iff in EM2.
    destruct (rank_spec f Ff) as (_ & _ & _ & R6). rewrite R6 in SR. destruct (div_spec f Ff) as (_ & D1). pose proof SR as SR'. rewrite D1 in SR. apply N.eqb_eq in SR.
    apply andb_true_iff in SR'. destruct SR' as [S1 S2]. apply N.leb_le in S1. apply N.ltb_lt in S2.
    assert (L : (55 <? t) = false) by (apply N.ltb_ge; lia).
    rewrite L in PR. apply promo_none in PR. subst pr. exists (mk f t BP NOPIECE false true false false). split; [|reflexivity].
    apply b_in. rewrite TE in *. apply bp_dp; try assumption. lia.
  - (* captures *)
    apply andb_true_iff in MV. destruct MV as [PA OC]. rewrite <- (pair_eq_spec _ _ bpawn_is_attack f t Ff Tt) in PA.
    apply orb_true_iff in OC. destruct OC as [OC|EP].
    + pose proof (opp_occ_spec g t C Tt) as OS. rewrite W in OS. cbn [colr ChessSpec.opp] in OS. specialize (OS OC). unfold opo in OS. rewrite W in OS.
      destruct (N.ltb_spec 55 t) as [L|L].
      * destruct (promo_pick_b pr PR) as (q & Q & PK). exists (mk f t BP q true false false false). split.
        -- apply b_in. apply bp_cap_promo; assumption.
        -- unfold umove. cbn. rewrite <- PK. reflexivity.
      * apply promo_none in PR. subst pr. exists (mk f t BP NOPIECE true false false false). split; [|reflexivity].
        apply b_in. apply bp_cap; assumption.
    + rewrite (epsq_abs g) in EP. destruct (N.eqb_spec (ep g) NOSQ) as [|NE]; [discriminate EP|].
      destruct (r_ep g R NE) as (E8 & E56). rewrite (sq_eqb_idx (ep g) t ltac:(lia) Tt) in EP. apply N.eqb_eq in EP.
      assert (L : (55 <? t) = false) by (apply N.ltb_ge; lia). rewrite L in PR. apply promo_none in PR. subst pr.
      exists (mk f t BP NOPIECE true false true false). split; [|reflexivity]. apply b_in. rewrite <- EP in *. apply bp_ep; assumption.
Qed.
End BPn.

Lemma color_eqb_eq a b : color_eqb a b = true -> a = b. Proof. destruct a, b; cbn; congruence. Qed.

(* C01, completeness of generation: every pseudo-legal move of the rules is generated *)
Theorem pseudo_generated g sm : cons g -> range g -> pseudo (abs g) sm = true -> exists m, In m (generate_moves g true) /\ umove m = sm.
Proof.
  intros C R PS. destruct sm as [a b pr]. unfold pseudo in PS. cbn zeta in PS. cbn [sfrom sto spromo] in PS. rewrite (stm_abs g) in PS.
  apply andb_true_iff in PS. destruct PS as [ON PS]. apply andb_true_iff in ON. destruct ON as [OA OB].
  destruct (onb_sq a OA) as (f & Ff & ->). destruct (onb_sq b OB) as (t & Tt & ->).
  destruct (at_ (board (abs g)) (sq_of_idx f)) as [[c' k]|] eqn:AT; [|discriminate].
  apply andb_true_iff in PS. destruct PS as [PS MV]. apply andb_true_iff in PS. destruct PS as [CE NO].
  apply color_eqb_eq in CE. subst c'.
  pose proof (cell_piece g f _ k C Ff AT) as B.
  pose proof (not_own_spec g t C Tt NO) as OWN.
  destruct k.
  - apply andb_true_iff in MV. destruct MV as [PR MV].
    destruct (white g) eqn:W; cbn [colr] in *.
    + exact (wpawn_generated g f t pr C R W Ff Tt B PR MV).
    + exact (bpawn_generated g f t pr C R W Ff Tt B PR MV).
  - destruct pr; [discriminate MV|]. rewrite (attacks_from_model g _ Knight f t C Ff Tt) in MV.
    exact (piece_generated g _ Knight f t C eq_refl ltac:(discriminate) Ff Tt B OWN MV).
  - destruct pr; [discriminate MV|]. rewrite (attacks_from_model g _ Bishop f t C Ff Tt) in MV.
    exact (piece_generated g _ Bishop f t C eq_refl ltac:(discriminate) Ff Tt B OWN MV).
  - destruct pr; [discriminate MV|]. rewrite (attacks_from_model g _ Rook f t C Ff Tt) in MV.
    exact (piece_generated g _ Rook f t C eq_refl ltac:(discriminate) Ff Tt B OWN MV).
  - destruct pr; [discriminate MV|]. rewrite (attacks_from_model g _ Queen f t C Ff Tt) in MV.
    exact (piece_generated g _ Queen f t C eq_refl ltac:(discriminate) Ff Tt B OWN MV).
  - destruct pr; [discriminate MV|]. apply orb_true_iff in MV. destruct MV as [MV|MV].
    + rewrite <- (pair_eq_spec _ _ king_is_step f t Ff Tt) in MV.
      exact (piece_generated g _ King f t C eq_refl ltac:(discriminate) Ff Tt B OWN MV).
    + exact (castle_generated g f t C R Ff Tt MV).
Qed.
Print Assumptions pseudo_generated.
