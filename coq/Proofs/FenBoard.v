(* C05, the board field of a FEN: ANY well-formed board text -- a sequence of piece letters, digits 1..8 and slashes whose cells, read
   in order, are the 64 cells of a position -- is parsed by the engine's board loop (Model/Fen.v: board_fold) into exactly that
   position's twelve piece sets and three occupancy sets.  Quantified over the texts (token lists), not over one printer. *)
From Coq Require Import NArith ZArith List Bool String Ascii Lia.
From JV Require Import Gen.Consts Model.Bits Model.Chess Model.SearchChess Model.Fen Model.FenSyntax Proofs.BitsProofs Proofs.BitboardProofs Proofs.MoveGenProofs Proofs.KeyProofs Proofs.GenProofs
  Proofs.ConsProofs Proofs.RangeProofs Proofs.CellProofs Proofs.AbsBase.
Import ListNotations.
Local Open Scope N_scope.

(* the characters: evaluation over the 12 letters and the 8 digits *)
Definition piece_char_ok (p : N) : bool :=
  let c := tok_char (TPiece p) in
  negb (is_digit c) && negb (Ascii.eqb c "/"%char) && (match char_to_piece c with Some q => q =? p | None => false end) && Bool.eqb (is_upper c) (p <? 6).
Lemma piece_chars_check : forallb piece_char_ok (seqN 0 12) = true. Proof. vm_compute. reflexivity. Qed.
Definition digit_char_ok (n : N) : bool := let c := tok_char (TEmpty n) in is_digit c && (digit_val c =? n).
Lemma digit_chars_check : forallb digit_char_ok (seqN 1 8) = true. Proof. vm_compute. reflexivity. Qed.

Lemma in_seqN s n x : s <= x -> x < s + N.of_nat n -> In x (seqN s n).
Proof.
  revert s. induction n as [|n IH]; intros s A B; [lia|]. cbn [seqN]. destruct (N.eq_dec s x) as [->|NE]; [left; reflexivity|right].
  apply IH; lia.
Qed.

Lemma step_char st t : tok_ok t = true -> board_step st (tok_char t) = Some (step_tok st t).
Proof.
  intros OK. destruct st as [[[[bs w] b] a] i]. destruct t as [p|n|].
  - cbn [tok_ok] in OK. apply N.ltb_lt in OK.
    pose proof piece_chars_check as X. rewrite forallb_forall in X. specialize (X p (in_seqN 0 12 p ltac:(lia) ltac:(cbn; lia))).
    unfold piece_char_ok in X. cbn zeta in X. apply andb_true_iff in X. destruct X as [X X4]. apply andb_true_iff in X. destruct X as [X X3].
    apply andb_true_iff in X. destruct X as [X1 X2]. apply negb_true_iff in X1, X2. apply eqb_prop in X4.
    unfold board_step, step_tok. rewrite X1, X2. destruct (char_to_piece (tok_char (TPiece p))) as [q|]; [|discriminate X3].
    apply N.eqb_eq in X3. subst q. rewrite X4. reflexivity.
  - cbn [tok_ok] in OK. apply andb_true_iff in OK. destruct OK as [A B]. apply N.leb_le in A, B.
    pose proof digit_chars_check as X. rewrite forallb_forall in X. specialize (X n (in_seqN 1 8 n A ltac:(cbn; lia))).
    unfold digit_char_ok in X. cbn zeta in X. apply andb_true_iff in X. destruct X as [X1 X2]. apply N.eqb_eq in X2.
    unfold board_step, step_tok. rewrite X1, X2. reflexivity.
  - reflexivity.
Qed.

Lemma fold_render tl : forall st, forallb tok_ok tl = true -> board_fold (render tl) st = Some (fold_left step_tok tl st).
Proof.
  induction tl as [|t r IH]; intros st OK; [reflexivity|]. cbn [forallb] in OK. apply andb_true_iff in OK. destruct OK as [O1 O2].
  cbn [render board_fold fold_left]. rewrite (step_char st t O1). apply IH. exact O2.
Qed.

(* ---- what the loop has built after the first i cells ---- *)
Definition isp (p : N) (o : option N) : bool := match o with Some q => q =? p | None => false end.
Definition isw (o : option N) : bool := match o with Some q => q <? 6 | None => false end.
Definition isb (o : option N) : bool := match o with Some q => 6 <=? q | None => false end.
Definition iso (o : option N) : bool := match o with Some _ => true | None => false end.

Section Cells.
Variable c : N -> option N.          (* the cells of the position, by square number *)

Definition Inv (i : N) (st : bstate) : Prop :=
  let '(bs, w, b, a, j) := st in
  j = i /\ List.length bs = 12%nat /\
  (forall p s, p < 12 -> tb (nthN bs p) s = (s <? i) && isp p (c s)) /\
  (forall s, tb w s = (s <? i) && isw (c s)) /\ (forall s, tb b s = (s <? i) && isb (c s)) /\ (forall s, tb a s = (s <? i) && iso (c s)).

Lemma ltb_succ s i : (s <? i + 1) = (s <? i) || (i =? s).
Proof. destruct (N.ltb_spec s (i + 1)), (N.ltb_spec s i), (N.eqb_spec i s); try reflexivity; lia. Qed.

Lemma Inv_piece i st p : i < 64 -> p < 12 -> c i = Some p -> Inv i st -> Inv (i + 1) (step_tok st (TPiece p)).
Proof.
  intros I64 P CI. destruct st as [[[[bs w] b] a] j]. intros (J & L & HB & HW & HBk & HA). subst j. unfold step_tok.
  rewrite (N.mod_small i 64 I64). rewrite (N.mod_small (i + 1) 256) by lia.
  split; [reflexivity|]. split; [rewrite upd_length; exact L|]. split; [|split; [|split]].
  - intros q s Q. rewrite (tb_nth_upd bs p _ q s ltac:(rewrite L; lia)). rewrite ltb_succ. destruct (N.eqb_spec q p) as [->|NE].
    + rewrite tb_set, (HB p s P). destruct (N.eqb_spec i s) as [<-|NS]; [rewrite CI; cbn [isp]; rewrite N.eqb_refl, !orb_true_r; reflexivity|rewrite !orb_false_r; reflexivity].
    + rewrite (HB q s Q). destruct (N.eqb_spec i s) as [<-|NS]; [|rewrite orb_false_r; reflexivity].
      rewrite CI. cbn [isp]. replace (p =? q) with false by (symmetry; apply N.eqb_neq; congruence). rewrite N.ltb_irrefl. reflexivity.
  - intros s. rewrite ltb_succ. destruct (p <? 6) eqn:P6.
    + rewrite tb_set, (HW s). destruct (N.eqb_spec i s) as [<-|NS]; [rewrite CI; cbn [isw]; rewrite P6, !orb_true_r; reflexivity|rewrite !orb_false_r; reflexivity].
    + rewrite (HW s). destruct (N.eqb_spec i s) as [<-|NS]; [rewrite CI; cbn [isw]; rewrite P6, N.ltb_irrefl; reflexivity|rewrite orb_false_r; reflexivity].
  - intros s. rewrite ltb_succ. assert (E : (6 <=? p) = negb (p <? 6)) by (destruct (N.leb_spec 6 p), (N.ltb_spec p 6); try reflexivity; lia).
    destruct (p <? 6) eqn:P6.
    + rewrite (HBk s). destruct (N.eqb_spec i s) as [<-|NS]; [rewrite CI; cbn [isb]; rewrite E, N.ltb_irrefl; reflexivity|rewrite orb_false_r; reflexivity].
    + rewrite tb_set, (HBk s). destruct (N.eqb_spec i s) as [<-|NS]; [rewrite CI; cbn [isb]; rewrite E, !orb_true_r; reflexivity|rewrite !orb_false_r; reflexivity].
  - intros s. rewrite ltb_succ, tb_set, (HA s). destruct (N.eqb_spec i s) as [<-|NS]; [rewrite CI; cbn [iso]; rewrite !orb_true_r; reflexivity|rewrite !orb_false_r; reflexivity].
Qed.

Lemma Inv_empty i st n : i + n <= 64 -> (forall s, i <= s < i + n -> c s = None) -> Inv i st -> Inv (i + n) (step_tok st (TEmpty n)).
Proof.
  intros I64 CN. destruct st as [[[[bs w] b] a] j]. intros (J & L & HB & HW & HBk & HA). subst j. unfold step_tok.
  rewrite (N.mod_small (i + n) 256) by lia.
  assert (EXT : forall (f : option N -> bool) s, f None = false -> (s <? i + n) && f (c s) = (s <? i) && f (c s)).
  { intros f s FN. destruct (N.ltb_spec s i), (N.ltb_spec s (i + n)); try reflexivity; try lia. rewrite (CN s ltac:(lia)), FN. reflexivity. }
  split; [reflexivity|]. split; [exact L|]. split; [|split; [|split]].
  - intros p s P. rewrite (HB p s P). symmetry. apply (EXT (isp p)). reflexivity.
  - intros s. rewrite (HW s). symmetry. apply (EXT isw). reflexivity.
  - intros s. rewrite (HBk s). symmetry. apply (EXT isb). reflexivity.
  - intros s. rewrite (HA s). symmetry. apply (EXT iso). reflexivity.
Qed.

Lemma seqN_app s a b : seqN s (a + b) = seqN s a ++ seqN (s + N.of_nat a) b.
Proof.
  revert s. induction a as [|a IH]; intros s; cbn [seqN Nat.add app]; [rewrite N.add_0_r; reflexivity|].
  f_equal. rewrite IH. f_equal. f_equal. lia.
Qed.

Lemma app_eq_length {A} (l1 : list A) : forall l1' l2 l2', l1 ++ l2 = l1' ++ l2' -> List.length l1 = List.length l1' -> l1 = l1' /\ l2 = l2'.
Proof.
  induction l1 as [|x l1 IH]; intros [|y l1'] l2 l2' E L; try discriminate L; [split; [reflexivity|exact E]|].
  cbn [app] in E. injection E as -> E. cbn [List.length] in L. destruct (IH l1' l2 l2' E ltac:(lia)) as (-> & ->). split; reflexivity.
Qed.

Lemma Inv_fold tl : forall i k st, forallb tok_ok tl = true -> expand tl = map c (seqN i k) -> i + N.of_nat k <= 64 -> Inv i st ->
  Inv (i + N.of_nat k) (fold_left step_tok tl st).
Proof.
  induction tl as [|t r IH]; intros i k st OK EX BD H.
  - cbn in EX. destruct k; [|discriminate EX]. cbn [fold_left N.of_nat]. rewrite N.add_0_r. exact H.
  - cbn [forallb] in OK. apply andb_true_iff in OK. destruct OK as [O1 O2]. cbn [fold_left]. unfold expand in EX. cbn [flat_map] in EX. fold (expand r) in EX.
    destruct t as [p|n|].
    + cbn [expand_tok app] in EX. destruct k as [|k]; [discriminate EX|]. cbn [seqN map] in EX. injection EX as CI EX.
      cbn [tok_ok] in O1. apply N.ltb_lt in O1. rewrite <- (N.add_1_r i) in EX.
      replace (i + N.of_nat (S k)) with ((i + 1) + N.of_nat k) by lia.
      apply IH; [exact O2|exact EX|lia|]. apply Inv_piece; [lia|exact O1|symmetry; exact CI|exact H].
    + cbn [tok_ok] in O1. apply andb_true_iff in O1. destruct O1 as [A B]. apply N.leb_le in A, B.
      cbn [expand_tok] in EX.
      assert (LK : (N.to_nat n <= k)%nat).
      { apply (f_equal (@List.length (option N))) in EX. rewrite app_length, repeat_length, map_length, seqN_length in EX. lia. }
      replace k with (N.to_nat n + (k - N.to_nat n))%nat in EX by lia. rewrite seqN_app, map_app in EX.
      apply app_eq_length in EX; [|rewrite repeat_length, map_length, seqN_length; reflexivity]. destruct EX as [E1 E2]. rewrite N2Nat.id in E2.
      replace (i + N.of_nat k) with ((i + n) + N.of_nat (k - N.to_nat n)) by lia.
      apply IH; [exact O2|exact E2|lia|]. apply Inv_empty; [lia| |exact H].
      intros s (S1 & S2). assert (IN : In (c s) (map c (seqN i (N.to_nat n)))) by (apply in_map; apply in_seqN; [exact S1|rewrite N2Nat.id; exact S2]).
      rewrite <- E1 in IN. apply repeat_spec in IN. exact IN.
    + cbn [expand_tok app] in EX. apply IH; try assumption. destruct st as [[[[? ?] ?] ?] ?]. exact H.
Qed.
End Cells.

(* ---- the final state is the position ---- *)
Lemma nthN_repeat0 n p : nthN (repeat 0 n) p = 0.
Proof. unfold nthN. generalize (N.to_nat p). induction n as [|n IH]; intros [|k]; cbn; auto. Qed.

Lemma list12_ext (l l' : list N) : List.length l = 12%nat -> List.length l' = 12%nat -> (forall p, p < 12 -> nthN l p = nthN l' p) -> l = l'.
Proof.
  intros L L' H. apply (nth_ext l l' 0 0); [congruence|]. intros k K. rewrite L in K. specialize (H (N.of_nat k) ltac:(lia)). unfold nthN in H. rewrite Nat2N.id in H. exact H.
Qed.

Section Final.
Variable g : game.
Hypothesis C : cons g.
Hypothesis R : range g.
Let c := who (st_of g).

Lemma isp_who p s : p < 12 -> s < 64 -> isp p (c s) = tb (bb g p) s.
Proof.
  intros P S. unfold c. destruct (tb (bb g p) s) eqn:T.
  - rewrite (who_some (st_of g) s p (cons_consB g C) P T). cbn [isp]. apply N.eqb_refl.
  - destruct (who (st_of g) s) as [q|] eqn:W; [|reflexivity]. cbn [isp]. destruct (N.eqb_spec q p) as [->|NE]; [|reflexivity].
    destruct (who_inv _ _ _ W) as (_ & X). change (sb (st_of g) p s) with (tb (bb g p) s) in X. congruence.
Qed.
Lemma isw_who s : s < 64 -> isw (c s) = tb (wocc g) s.
Proof.
  intros S. unfold c. apply eq_true_iff_eq. split.
  - destruct (who (st_of g) s) as [q|] eqn:W; [|discriminate]. cbn [isw]. intros Q. apply N.ltb_lt in Q. destruct (who_inv _ _ _ W) as (_ & X).
    apply (c_wocc g C). exists q. split; [exact Q|exact X].
  - intros T. apply (c_wocc g C) in T. destruct T as (p & P & X). rewrite (who_some (st_of g) s p (cons_consB g C) ltac:(lia) X). cbn [isw]. apply N.ltb_lt. exact P.
Qed.
Lemma isb_who s : s < 64 -> isb (c s) = tb (bocc g) s.
Proof.
  intros S. unfold c. apply eq_true_iff_eq. split.
  - destruct (who (st_of g) s) as [q|] eqn:W; [|discriminate]. cbn [isb]. intros Q. apply N.leb_le in Q. destruct (who_inv _ _ _ W) as (Q12 & X).
    apply (c_bocc g C). exists q. split; [lia|exact X].
  - intros T. apply (c_bocc g C) in T. destruct T as (p & P & X). rewrite (who_some (st_of g) s p (cons_consB g C) ltac:(lia) X). cbn [isb]. apply N.leb_le. lia.
Qed.
Lemma iso_who s : s < 64 -> iso (c s) = tb (aocc g) s.
Proof.
  intros S. rewrite (c_aocc g C), <- (isw_who s S), <- (isb_who s S). unfold c. destruct (who (st_of g) s) as [q|] eqn:W; [|reflexivity].
  cbn [iso isw isb]. destruct (N.ltb_spec q 6), (N.leb_spec 6 q); try reflexivity; lia.
Qed.

Lemma occ_lt (w : bool) s : tb (if w then wocc g else bocc g) s = true -> s < 64.
Proof. apply (occ_lt64 g C R w s). Qed.

Lemma final_state st : Inv c 64 st -> st = (bbs g, wocc g, bocc g, aocc g, 64).
Proof.
  destruct st as [[[[bs w] b] a] j]. intros (J & L & HB & HW & HBk & HA). subst j.
  assert (BITS : forall x y : N, (forall s, tb x s = tb y s) -> x = y) by (intros x y H; apply N.bits_inj; exact H).
  assert (E1 : bs = bbs g).
  { apply list12_ext; [exact L|exact (c_len g C)|]. intros p P. apply BITS. intros s. rewrite (HB p s P).
    destruct (N.ltb_spec s 64) as [S|S]; cbn [andb]; [apply isp_who; assumption|].
    change (nthN (bbs g) p) with (bb g p). destruct (tb (bb g p) s) eqn:T; [|reflexivity]. pose proof (r_sq g R p s P T). lia. }
  assert (E2 : w = wocc g).
  { apply BITS. intros s. rewrite (HW s). destruct (N.ltb_spec s 64) as [S|S]; cbn [andb]; [apply isw_who; exact S|].
    destruct (tb (wocc g) s) eqn:T; [|reflexivity]. pose proof (occ_lt true s T). lia. }
  assert (E3 : b = bocc g).
  { apply BITS. intros s. rewrite (HBk s). destruct (N.ltb_spec s 64) as [S|S]; cbn [andb]; [apply isb_who; exact S|].
    destruct (tb (bocc g) s) eqn:T; [|reflexivity]. pose proof (occ_lt false s T). lia. }
  assert (E4 : a = aocc g).
  { apply BITS. intros s. rewrite (HA s). destruct (N.ltb_spec s 64) as [S|S]; cbn [andb]; [apply iso_who; exact S|].
    destruct (tb (aocc g) s) eqn:T; [|reflexivity]. rewrite (c_aocc g C) in T. apply orb_true_iff in T. destruct T as [T|T]; [pose proof (occ_lt true s T)|pose proof (occ_lt false s T)]; lia. }
  subst. reflexivity.
Qed.

(* every well-formed board text whose cells are the position's cells is parsed into the position's sets *)
Theorem board_text_parses tl : forallb tok_ok tl = true -> expand tl = map c (seqN 0 64) ->
  board_fold (render tl) (repeat 0 12, 0, 0, 0, 0) = Some (bbs g, wocc g, bocc g, aocc g, 64).
Proof.
  intros OK EX. rewrite (fold_render tl _ OK). f_equal. apply final_state.
  apply (Inv_fold c tl 0 64 _ OK EX ltac:(cbn; lia)).
  unfold Inv. split; [reflexivity|]. split; [apply repeat_length|]. unfold tb.
  assert (Z : forall s, (s <? 0) = false) by (intros s; apply N.ltb_ge; lia).
  split; [intros p s _; rewrite nthN_repeat0, N.bits_0, Z; reflexivity|]. repeat split; intros s; rewrite N.bits_0, Z; reflexivity.
Qed.
End Final.
Print Assumptions board_text_parses.
