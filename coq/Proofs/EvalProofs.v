(* C16 (part): purity and side antisymmetry of the static evaluation, for every position. *)
From Coq Require Import NArith ZArith List Bool Lia.
From JV Require Import Gen.Consts Model.Bits Model.Chess Model.Eval.
Import ListNotations.
Local Open Scope Z_scope.

(* evaluate reads only the piece sets, the three occupancy sets and the side to move *)
Lemma eval_piece_pure g1 g2 p sq :
  bbs g1 = bbs g2 -> aocc g1 = aocc g2 -> wocc g1 = wocc g2 -> bocc g1 = bocc g2 -> eval_piece g1 p sq = eval_piece g2 p sq.
Proof. intros H1 H2 H3 H4. unfold eval_piece, bb. rewrite H1, H2, H3, H4. reflexivity. Qed.

Lemma evaluate_white_pure g1 g2 :
  bbs g1 = bbs g2 -> aocc g1 = aocc g2 -> wocc g1 = wocc g2 -> bocc g1 = bocc g2 -> evaluate_white g1 = evaluate_white g2.
Proof.
  intros H1 H2 H3 H4. unfold evaluate_white, bb. rewrite H1.
  assert (E : forall p sq, eval_piece g1 p sq = eval_piece g2 p sq) by (intros; apply eval_piece_pure; assumption).
  generalize 0. generalize [0;1;2;3;4;5;6;7;8;9;10;11]%N.
  induction l as [|p l IH]; intros z; cbn [fold_left]; [reflexivity|].
  rewrite <- IH. f_equal.
  generalize z. generalize (bits_of (nthN (bbs g2) p)). induction l0 as [|s l0 IH0]; intros z0; cbn [fold_left]; [reflexivity|].
  rewrite E. apply IH0.
Qed.

Lemma evaluate_pure g1 g2 :
  bbs g1 = bbs g2 -> aocc g1 = aocc g2 -> wocc g1 = wocc g2 -> bocc g1 = bocc g2 -> white g1 = white g2 ->
  evaluate g1 = evaluate g2.
Proof. intros H1 H2 H3 H4 H5. unfold evaluate. rewrite H5, (evaluate_white_pure g1 g2) by assumption. reflexivity. Qed.

Definition flip_side (g : game) : game :=
  mkGame (bbs g) (wocc g) (bocc g) (aocc g) (negb (white g)) (ep g) (castling g) (half g) (full g) (hash g).

Lemma evaluate_flip g : evaluate (flip_side g) = - evaluate g.
Proof.
  unfold evaluate. cbn [white flip_side].
  rewrite (evaluate_white_pure (flip_side g) g) by reflexivity. destruct (white g); cbn [negb]; lia.
Qed.

(* the fields that must not matter: castling rights, en-passant square, clocks, key *)
Lemma evaluate_ignores g e c h f k :
  evaluate (mkGame (bbs g) (wocc g) (bocc g) (aocc g) (white g) e c h f k) = evaluate g.
Proof. apply evaluate_pure; reflexivity. Qed.
