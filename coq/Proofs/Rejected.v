(* C01, towards completeness: a generated move that make_search_move REJECTS leaves the mover's king attacked in the position
   the rules prescribe -- so the rules reject it too.  The test make performs (on the sets before the promotion swap / the rook
   hop) is the specification's in_check on apply_board. *)
From Coq Require Import NArith ZArith List Bool Lia.
From JV Require Import Gen.Consts Spec.Rays Model.Bits Model.Chess Model.Abs Model.SearchChess Spec.ChessSpec Proofs.BitsProofs Proofs.BitboardProofs
  Proofs.MoveGenProofs Proofs.MakeProofs Proofs.ZobristProofs Proofs.KeyProofs Proofs.GenProofs Proofs.ConsProofs Proofs.GenOk Proofs.KingsProofs
  Proofs.RangeProofs Proofs.NkProofs Proofs.LegalInv Proofs.CellProofs Proofs.AbsBase Proofs.AbsGeo Proofs.GenGeo Proofs.AbsMake Proofs.AttackSym
  Proofs.AttackSpec Proofs.GenPseudo Proofs.Soundness.
Import ListNotations.
Local Open Scope N_scope.

Section Peek.
Variables (g : game) (m : move) (vic : N).
Hypothesis C : cons g.
Hypothesis K : move_ok g m.
Hypothesis V : mcap m = true -> mep m = false -> In vic (victims (white g)) /\ tb (bb g vic) (mto m) = true.

(* the sets make tests for check = the state after the operations take-from / take-victim / put-to *)
Lemma peek_eq bs3 wo3 bo3 ao3 h h3 :
  stage_cap g m (upd (upd (bbs g) (mpiece m) (unset_bit (bb g (mpiece m)) (mfrom m))) (mpiece m)
                     (set_bit (nthN (upd (bbs g) (mpiece m) (unset_bit (bb g (mpiece m)) (mfrom m))) (mpiece m)) (mto m)))
            (set_bit (unset_bit (aocc g) (mfrom m)) (mto m)) h = (bs3, wo3, bo3, ao3, h3) ->
  length bs3 = 12%nat /\ (forall q s, tb (nthN bs3 q) s = sb (ops_C g m vic) q s) /\ (forall s, tb ao3 s = tb (s_ao (ops_C g m vic)) s).
Proof.
  intros SC. pose proof (c_len g C) as L. pose proof (k_own g m K) as OWN. pose proof (k_p12 g m K) as P12. pose proof (k_ft g m K) as FT.
  unfold stage_cap in SC. cbn zeta in SC. unfold ops_C, ops_B, ops_A.
  destruct (mcap m) eqn:CAP.
  - destruct (mep m) eqn:EP.
    + destruct (k_ep g m K EP) as (_ & _ & _ & _ & _ & _ & PP). pose proof (behind_ne g m C K EP) as BNE. unfold behind in BNE.
      unfold oppP, behind, put, take. cbn [st_of s_bs s_wo s_bo s_ao].
      destruct (white g) eqn:W; cbn iota in SC; injection SC as <- _ _ <- _; rewrite PP in *; unfold ownP in *;
        unfold WP, BP in *; (split; [rewrite !upd_length; exact L|split; [intros q s; unfold sb; cbn [s_bs]; bitsimp; eqbs; try reflexivity; boolsolve
                                                                  |intros s; bitsimp; eqbs; try reflexivity; boolsolve]]).
    + destruct (V eq_refl eq_refl) as (VI & VT).
      pose proof (victim_unique g m C K vic VI VT) as VU. rewrite VU in SC.
      destruct (victims_opp g vic (mpiece m) VI OWN) as (NEV & V12 & VCOL).
      unfold put, take. cbn [st_of s_bs s_wo s_bo s_ao].
      destruct (white g) eqn:W; cbn iota in SC; injection SC as <- _ _ <- _;
        (split; [rewrite !upd_length; exact L|split; [intros q s; unfold sb; cbn [s_bs]; bitsimp; eqbs; try reflexivity; boolsolve
                                                     |intros s; bitsimp; eqbs; try reflexivity; boolsolve]]).
  - injection SC as <- _ _ <- _. unfold put, take. cbn [st_of s_bs s_wo s_bo s_ao].
    split; [rewrite !upd_length; exact L|split; [intros q s; unfold sb; cbn [s_bs]; reflexivity|intros s; reflexivity]].
Qed.
End Peek.

Definition game_of (x : st) (w : bool) : game := mkGame (s_bs x) (s_wo x) (s_bo x) (s_ao x) w NOSQ 0 0 0 0.

Lemma st_of_game_of x w : st_of (game_of x w) = x.
Proof. destruct x. reflexivity. Qed.

Lemma cons_game_of x w : consB x -> cons (game_of x w).
Proof.
  intros CB. constructor; cbn [game_of bbs wocc bocc aocc castling ep white bb].
  - apply (b_len x CB).
  - apply (b_disj x CB).
  - apply (b_wocc x CB).
  - apply (b_bocc x CB).
  - apply (b_aocc x CB).
  - unfold tb. rewrite N.bits_0. discriminate.
  - unfold tb. rewrite N.bits_0. discriminate.
  - unfold tb. rewrite N.bits_0. discriminate.
  - unfold tb. rewrite N.bits_0. discriminate.
  - intros X. exfalso. apply X. reflexivity.
Qed.

Section DState.
Variables (g : game) (all : bool) (m : move).
Hypothesis LI : legal_inv g.
Hypothesis HI : In m (generate_moves g all).

Hypothesis C : cons g.
Hypothesis KG : kings g.
Hypothesis R : range g.
Hypothesis K : move_ok g m.
Hypothesis PS : promo_sane m.
Hypothesis RG : move_rng g m.
Let w := white g.

Variable vic : N.
Hypothesis V : mcap m = true -> mep m = false -> In vic (victims (white g)) /\ tb (bb g vic) (mto m) = true.

Let D := ops_D g m vic.
Let gD := game_of D w.

Lemma gD_cons : cons gD.
Proof. apply cons_game_of. apply (D_ok g m vic C K V). Qed.

Lemma gD_range : range gD.
Proof.
  assert (SUB : forall q s, q < 12 -> tb (bb gD q) s = true -> _) by (intros q s Q X; exact (D_sub g m vic C K V q s Q X)).
  constructor.
  - intros q s Q X. destruct (SUB q s Q X) as [Y|[(-> & _)|(CS & _ & ->)]].
    + apply (r_sq g R q s Q Y).
    + apply (g_t64 g m RG).
    + unfold hop_a. destruct (mto m =? 62); [reflexivity|]. destruct (mto m =? 58); [reflexivity|]. destruct (mto m =? 6); reflexivity.
  - intros s X. destruct (SUB BP s ltac:(reflexivity) X) as [Y|[(-> & [(PB & PR)|(PB & PR)])|(CS & RK & _)]].
    + apply (r_bp g R s Y).
    + apply (g_bp g m RG); [symmetry; exact PB|exact PR].
    + exfalso. apply (proj1 (g_pr g m RG)). symmetry. exact PB.
    + exfalso. unfold rook_of in RK. destruct (white g); discriminate.
  - intros s X. destruct (SUB WP s ltac:(reflexivity) X) as [Y|[(-> & [(PB & PR)|(PB & PR)])|(CS & RK & _)]].
    + apply (r_wp g R s Y).
    + apply (g_wp g m RG); [symmetry; exact PB|exact PR].
    + exfalso. apply (proj2 (g_pr g m RG)). symmetry. exact PB.
    + exfalso. unfold rook_of in RK. destruct (white g); discriminate.
  - intros X. exfalso. apply X. reflexivity.
Qed.

Lemma gD_single q : q = WK \/ q = BK -> single (bb g q) -> single (bb gD q).
Proof.
  intros QK (k & SK).
  assert (EQ : forall s, tb (bb gD q) s = sb (ops_D g m vic) q s) by reflexivity.
  destruct (N.eq_dec q (mpiece m)) as [->|NE].
  - exists (mto m). intros s. rewrite EQ, (D_moved_king g m C K PS vic V QK).
    assert (FK : mfrom m = k) by (apply SK; apply (k_from g m K)).
    destruct (N.eqb_spec (mto m) s) as [<-|NT].
    + rewrite orb_true_r. split; auto.
    + rewrite orb_false_r. split; [|congruence]. intros X. apply andb_true_iff in X. destruct X as [X1 X2].
      apply SK in X1. subst s. rewrite FK, N.eqb_refl in X2. discriminate.
  - exists k. intros s. rewrite EQ, (D_other_king g m C K PS vic q V QK NE). apply SK.
Qed.

Lemma gD_kings : kings gD.
Proof. destruct KG as (KW & KB). split; [apply gD_single; [left; reflexivity|exact KW]|apply gD_single; [right; reflexivity|exact KB]]. Qed.

(* the board the rules prescribe after the move is the board of the state D *)
Lemma apply_board_is_D : apply_board (abs g) (umove m) = board (abs gD).
Proof.
  apply (nth_ext _ _ None None).
  - rewrite (apply_board_length g all m LI HI), board_abs_length. reflexivity.
  - intros j L. rewrite (apply_board_length g all m LI HI) in L.
    rewrite (board_after g all m LI HI j L), (board_abs_nth gD j L), who_cell. f_equal.
    unfold gD. rewrite st_of_game_of. symmetry. apply (who_D g m vic C K V).
Qed.

Lemma spec_check_is_D : ChessSpec.in_check (apply_board (abs g) (umove m)) (colr w) = in_check_raw (s_bs D) (s_ao D) w.
Proof.
  rewrite apply_board_is_D. rewrite (in_check_model gD (colr w) gD_cons gD_range gD_kings). rewrite wb_colr. reflexivity.
Qed.
End DState.

(* ---- the check test depends only on the tested king's set, the other side's sets and the occupancy ---- *)
Lemma icr_ext (bs bs' : list N) (ao : N) (w : bool) :
  nthN bs' (if w then WK else BK) = nthN bs (if w then WK else BK) ->
  (forall q, (q <? 6) = negb w -> nthN bs' q = nthN bs q) ->
  in_check_raw bs' ao w = in_check_raw bs ao w.
Proof.
  intros KE SAME. unfold in_check_raw. destruct w; rewrite KE; apply attacked_own; exact SAME.
Qed.

Lemma N_ext (a b : N) : (forall s, N.testbit a s = N.testbit b s) -> a = b.
Proof. intros H. apply N.bits_inj. intros s. apply H. Qed.

(* ---- castling: nothing attacks the king's new square before the rook hop that does not attack it afterwards, because the
   king's old square is not attacked ---- *)
Definition geom2_ok (t a f : N) : bool :=
  forallb (fun d => match rayl t d with
                    | x :: r => if x =? a then (match r with y :: r' => (y =? f) && eqlN r' (rayl f d) && negb (memN t r') && negb (memN f r') | [] => true end)
                                else true
                    | [] => true end) rook_dirs.
Lemma geom2_62 : geom2_ok 62 61 60 = true. Proof. vm_compute. reflexivity. Qed.
Lemma geom2_58 : geom2_ok 58 59 60 = true. Proof. vm_compute. reflexivity. Qed.
Lemma geom2_6 : geom2_ok 6 5 4 = true. Proof. vm_compute. reflexivity. Qed.
Lemma geom2_2 : geom2_ok 2 3 4 = true. Proof. vm_compute. reflexivity. Qed.

(* a rook-line attacker of t under occ3 that disappears under occ4 would attack f under the original occupancy *)
Lemma rook_back t a b f occ0 occ3 occ4 s : geom_ok t a b = true -> geom2_ok t a f = true -> a <> b -> a <> f -> a <> t -> f <> t ->
  (forall x, N.testbit occ4 x = (N.testbit occ3 x || (a =? x)) && negb (b =? x)) ->
  (forall x, N.testbit occ3 x = (N.testbit occ0 x && negb (f =? x)) || (t =? x)) ->
  N.testbit occ3 a = false -> N.testbit occ3 s = true -> s <> t ->
  N.testbit (slide rook_dirs t occ3) s = true ->
  N.testbit (slide rook_dirs t occ4) s = true \/ N.testbit (slide rook_dirs f occ0) s = true.
Proof.
  intros G1 G2 AB AF AT FT E4 E3 EA OS ST H. rewrite slide_reach in H. apply existsb_exists in H. destruct H as (d & Hd & RR).
  destruct (geom_dirs t a b G1) as (GR & _). pose proof (GR d Hd) as OK. unfold ray_ok in OK. cbn zeta in OK.
  unfold geom2_ok in G2. rewrite forallb_forall in G2. pose proof (G2 d Hd) as OK2.
  apply orb_true_iff in OK. destruct OK as [OK|OK]; [apply orb_true_iff in OK; destruct OK as [OK|OK]|].
  - (* the ray avoids a and b: same under both occupancies *)
    left. rewrite slide_reach. apply existsb_exists. exists d. split; [exact Hd|].
    apply andb_true_iff in OK. destruct OK as [NA NB]. apply negb_true_iff in NA, NB. apply memN_false in NA, NB.
    rewrite <- RR. apply reachl_ext. intros x Hx. rewrite E4.
    destruct (N.eqb_spec a x) as [->|]; [contradiction|]. destruct (N.eqb_spec b x) as [->|]; [contradiction|].
    rewrite orb_false_r, andb_true_r. reflexivity.
  - (* the ray starts at a: beyond a it continues through f *)
    right. destruct (rayl t d) as [|x r] eqn:RY; [discriminate|]. apply N.eqb_eq in OK. subst x. rewrite N.eqb_refl in OK2.
    cbn [reachl] in RR. rewrite EA in RR. cbn [negb andb] in RR.
    destruct (N.eqb_spec a s) as [E|NE]; [subst s; congruence|]. cbn [orb] in RR.
    destruct r as [|y r']; [cbn in RR; discriminate|].
    apply andb_true_iff in OK2. destruct OK2 as [OK2 NF]. apply andb_true_iff in OK2. destruct OK2 as [OK2 NT]. apply andb_true_iff in OK2. destruct OK2 as [YF RE].
    apply N.eqb_eq in YF. subst y. apply eqlN_eq in RE. apply negb_true_iff in NT, NF. apply memN_false in NT, NF.
    cbn [reachl] in RR.
    assert (OF : N.testbit occ3 f = false) by (rewrite E3, N.eqb_refl; destruct (N.eqb_spec t f); [congruence|]; rewrite andb_false_r; reflexivity).
    destruct (N.eqb_spec f s) as [E|NE2]; [subst s; congruence|]. cbn [orb] in RR. rewrite OF in RR. cbn [negb andb] in RR.
    rewrite slide_reach. apply existsb_exists. exists d. split; [exact Hd|]. rewrite <- RE. rewrite <- RR.
    apply reachl_ext. intros x Hx. rewrite E3.
    destruct (N.eqb_spec f x) as [->|]; [contradiction|]. destruct (N.eqb_spec t x) as [->|]; [contradiction|].
    rewrite andb_true_r, orb_false_r. reflexivity.
  - (* the ray ends at b: same under both occupancies *)
    left. rewrite slide_reach. apply existsb_exists. exists d. split; [exact Hd|].
    destruct (rayl t d) as [|x [|y [|z r]]]; try discriminate.
    + apply N.eqb_eq in OK. subst x. cbn [reachl] in *. rewrite andb_false_r, orb_false_r in *. exact RR.
    + apply andb_true_iff in OK. destruct OK as [OK NXB]. apply andb_true_iff in OK. destruct OK as [YB NXA].
      apply N.eqb_eq in YB. subst y. apply negb_true_iff, N.eqb_neq in NXA, NXB.
      cbn [reachl] in *. rewrite !andb_false_r, !orb_false_r in *.
      assert (X : N.testbit occ4 x = N.testbit occ3 x).
      { rewrite E4. destruct (N.eqb_spec a x); [congruence|]. destruct (N.eqb_spec b x); [congruence|]. rewrite orb_false_r, andb_true_r. reflexivity. }
      rewrite X. exact RR.
Qed.

Definition geomB_ok (t a b : N) : bool := forallb (fun d => negb (memN a (rayl t d)) && negb (memN b (rayl t d))) bishop_dirs.
Lemma geomB_62 : geomB_ok 62 61 63 = true. Proof. vm_compute. reflexivity. Qed.
Lemma geomB_58 : geomB_ok 58 59 56 = true. Proof. vm_compute. reflexivity. Qed.
Lemma geomB_6 : geomB_ok 6 5 7 = true. Proof. vm_compute. reflexivity. Qed.
Lemma geomB_2 : geomB_ok 2 3 0 = true. Proof. vm_compute. reflexivity. Qed.

Lemma bishop_same t a b occ3 occ4 s : geomB_ok t a b = true ->
  (forall x, N.testbit occ4 x = (N.testbit occ3 x || (a =? x)) && negb (b =? x)) ->
  N.testbit (slide bishop_dirs t occ4) s = N.testbit (slide bishop_dirs t occ3) s.
Proof.
  intros G E. rewrite !slide_reach. unfold geomB_ok in G. rewrite forallb_forall in G.
  induction bishop_dirs as [|d D IH]; [reflexivity|]. cbn [existsb]. rewrite IH by (intros x Hx; apply G; right; exact Hx). f_equal.
  pose proof (G d (or_introl eq_refl)) as OK. apply andb_true_iff in OK. destruct OK as [NA NB]. apply negb_true_iff in NA, NB. apply memN_false in NA, NB.
  apply reachl_ext. intros x Hx. rewrite E. destruct (N.eqb_spec a x) as [->|]; [contradiction|]. destruct (N.eqb_spec b x) as [->|]; [contradiction|].
  rewrite orb_false_r, andb_true_r. reflexivity.
Qed.

(* is_square_attacked as "some attacker square s of some kind" *)
Lemma isa_witness g c b : is_square_attacked (bbs g) (aocc g) b (wb c) = true <->
  exists k s, N.testbit (rev_att g c k b) s = true /\ N.testbit (bb g (pidx c k)) s = true.
Proof.
  rewrite isa_kind. split.
  - intros H. apply existsb_exists in H. destruct H as (k & _ & NZ). apply land_ne0_inv in NZ. destruct NZ as (s & A & B). exists k, s. split; assumption.
  - intros (k & s & A & B). apply existsb_exists. exists k. split; [destruct k; cbn; auto 10|]. apply (land_ne0' _ _ s A B).
Qed.

Section CastleBack.
Variables (g0 gC gD : game) (c : color) (t a b f : N).
Hypothesis SameC : forall k, bb gC (pidx c k) = bb g0 (pidx c k).
Hypothesis SameD : forall k, bb gD (pidx c k) = bb g0 (pidx c k).
Hypothesis G1 : geom_ok t a b = true.
Hypothesis G2 : geom2_ok t a f = true.
Hypothesis GB : geomB_ok t a b = true.
Hypothesis AB : a <> b. Hypothesis AF : a <> f. Hypothesis AT : a <> t. Hypothesis FT : f <> t.
Hypothesis E4 : forall x, N.testbit (aocc gD) x = (N.testbit (aocc gC) x || (a =? x)) && negb (b =? x).
Hypothesis E3 : forall x, N.testbit (aocc gC) x = (N.testbit (aocc g0) x && negb (f =? x)) || (t =? x).
Hypothesis EA : N.testbit (aocc gC) a = false.
Hypothesis OCC : forall k s, N.testbit (bb g0 (pidx c k)) s = true -> N.testbit (aocc gC) s = true /\ s <> t.

Lemma castle_back : is_square_attacked (bbs gC) (aocc gC) t (wb c) = true ->
  is_square_attacked (bbs gD) (aocc gD) t (wb c) = true \/ is_square_attacked (bbs g0) (aocc g0) f (wb c) = true.
Proof.
  intros H. apply isa_witness in H. destruct H as (k & s & A & B). rewrite SameC in B. destruct (OCC k s B) as (OS & ST).
  destruct k; cbn [rev_att] in A.
  - left. apply isa_witness. exists Pawn, s. split; [exact A|rewrite SameD; exact B].
  - left. apply isa_witness. exists Knight, s. split; [exact A|rewrite SameD; exact B].
  - left. apply isa_witness. exists Bishop, s. split; [|rewrite SameD; exact B]. cbn [rev_att]. unfold bishop_att in *.
    rewrite (bishop_same t a b (aocc gC) (aocc gD) s GB E4). exact A.
  - unfold rook_att in A. destruct (rook_back t a b f (aocc g0) (aocc gC) (aocc gD) s G1 G2 AB AF AT FT E4 E3 EA OS ST A) as [X|X].
    + left. apply isa_witness. exists Rook, s. split; [exact X|rewrite SameD; exact B].
    + right. apply isa_witness. exists Rook, s. split; [exact X|exact B].
  - unfold queen_att in A. rewrite N.lor_spec in A. apply orb_true_iff in A. destruct A as [A|A].
    + unfold rook_att in A. destruct (rook_back t a b f (aocc g0) (aocc gC) (aocc gD) s G1 G2 AB AF AT FT E4 E3 EA OS ST A) as [X|X].
      * left. apply isa_witness. exists Queen, s. split; [|rewrite SameD; exact B]. cbn [rev_att]. unfold queen_att. rewrite N.lor_spec. unfold rook_att. rewrite X. reflexivity.
      * right. apply isa_witness. exists Queen, s. split; [|exact B]. cbn [rev_att]. unfold queen_att. rewrite N.lor_spec. unfold rook_att. rewrite X. reflexivity.
    + left. apply isa_witness. exists Queen, s. split; [|rewrite SameD; exact B]. cbn [rev_att]. unfold queen_att. rewrite N.lor_spec. unfold bishop_att in *.
      rewrite (bishop_same t a b (aocc gC) (aocc gD) s GB E4), A. apply orb_true_r.
  - left. apply isa_witness. exists King, s. split; [exact A|rewrite SameD; exact B].
Qed.
End CastleBack.

Lemma icr_pointwise (bs bs' : list N) (ao ao' : N) (w : bool) :
  (forall q, nthN bs' q = nthN bs q) -> ao' = ao -> in_check_raw bs' ao' w = in_check_raw bs ao w.
Proof.
  intros B ->. unfold in_check_raw, is_square_attacked. cbn zeta. rewrite !B. reflexivity.
Qed.

Section RejectedMain.
Variables (g : game) (all : bool) (m : move).
Hypothesis LI : legal_inv g.
Hypothesis HI : In m (generate_moves g all).
Hypothesis C : cons g.
Hypothesis KG : kings g.
Hypothesis R : range g.
Hypothesis K : move_ok g m.
Hypothesis PS : promo_sane m.
Hypothesis RG : move_rng g m.
Hypothesis PP : move_ps g m.
Variable vic : N.
Hypothesis V : mcap m = true -> mep m = false -> In vic (victims (white g)) /\ tb (bb g vic) (mto m) = true.
Let w := white g.

(* the test on the sets before the special stage = the test on the final sets *)
Lemma check_C_D : in_check_raw (s_bs (ops_C g m vic)) (s_ao (ops_C g m vic)) w = in_check_raw (s_bs (ops_D g m vic)) (s_ao (ops_D g m vic)) w.
Proof.
  pose proof (C_ok g m vic C K V) as COK. pose proof (k_p12 g m K) as P12. pose proof (k_own g m K) as OWN.
  pose proof (b_len _ COK) as LC.
  unfold ops_D. cbn zeta. destruct (negb (mpromo m =? NOPIECE)) eqn:PR.
  - (* promotion *)
    apply negb_true_iff, N.eqb_neq in PR. destruct (k_promo g m K PR) as (Q12 & QCOL & QNE & _ & _). destruct (PS PR) as (PAWN & NK1 & NK2).
    symmetry. unfold put, take. cbn [s_bs s_ao].
    assert (AO : set_bit (unset_bit (s_ao (ops_C g m vic)) (mto m)) (mto m) = s_ao (ops_C g m vic)).
    { apply N_ext. intros s. fold (tb (set_bit (unset_bit (s_ao (ops_C g m vic)) (mto m)) (mto m)) s). rewrite tb_set, tb_unset.
      destruct (N.eqb_spec (mto m) s) as [<-|]; [|rewrite andb_true_r, orb_false_r; reflexivity].
      unfold ops_C. cbn [put s_ao]. fold (tb (set_bit (s_ao (ops_B g m vic)) (mto m)) (mto m)). rewrite tb_set, N.eqb_refl. rewrite !orb_true_r. reflexivity. }
    rewrite AO. apply icr_ext.
    + rewrite !nthN_upd_other; [reflexivity| |]; intros E; destruct w; destruct PAWN; unfold WP, BP, WK, BK in *; congruence.
    + intros q QC. rewrite !nthN_upd_other; [reflexivity| |]; intros E; subst q; fold w in OWN, QCOL; rewrite ?OWN, ?QCOL in QC; destruct w; discriminate.
  - destruct (mcastle m) eqn:CS; [|reflexivity].
    (* castling *)
    destruct (k_castle g m K CS) as (CAP & _ & _ & CASES). pose proof (k_castle_from g m K CS) as KF.
    destruct (ps_castle g m PP CS) as (i & mask & cross & _ & _ & A1 & _ & _).
    assert (BA : ops_B g m vic = ops_A g m) by (unfold ops_B; rewrite CAP; reflexivity).
    set (gC := game_of (ops_C g m vic) w). set (rk := rook_of (white g)). set (a := hop_a (mto m)). set (b := hop_b (mto m)).
    set (D := put (take (ops_C g m vic) rk b) rk a). set (gD := game_of D w).
    assert (RKOWN : (rk <? 6) = w) by (unfold rk, rook_of, w; destruct (white g); reflexivity).
    assert (RK12 : rk < 12) by (unfold rk, rook_of; destruct (white g); reflexivity).
    assert (RKNP : rk <> mpiece m) by (unfold rk; destruct CASES as [(W & PK & _)|(W & PK & _)]; rewrite W, PK; discriminate).
    assert (KNE : (if w then WK else BK) <> rk) by (unfold rk, rook_of, w; destruct (white g); discriminate).
    assert (PKING : mpiece m = (if w then WK else BK)) by (unfold w; destruct CASES as [(W & PK & _)|(W & PK & _)]; rewrite W, PK; reflexivity).
    (* same tested king set, same sets of the other side *)
    assert (KSAME : nthN (s_bs D) (if w then WK else BK) = nthN (s_bs (ops_C g m vic)) (if w then WK else BK)).
    { unfold D, put, take. cbn [s_bs]. rewrite !nthN_upd_other by congruence. reflexivity. }
    assert (ESAME : forall q, (q <? 6) = negb w -> nthN (s_bs D) q = nthN (s_bs (ops_C g m vic)) q).
    { intros q QC. unfold D, put, take. cbn [s_bs]. rewrite !nthN_upd_other; [reflexivity| |]; intros E; subst q; rewrite RKOWN in QC; destruct w; discriminate. }
    assert (ESAME0 : forall q, (q <? 6) = negb w -> nthN (s_bs (ops_C g m vic)) q = nthN (bbs g) q).
    { intros q QC. unfold ops_C. rewrite BA. unfold ops_A, put, take. cbn [s_bs st_of]. rewrite !nthN_upd_other; [reflexivity| |]; intros E; subst q; fold w in OWN; rewrite OWN in QC; destruct w; discriminate. }
    (* the king's new square *)
    assert (KSQ : least_significant (nthN (s_bs (ops_C g m vic)) (if w then WK else BK)) = mto m).
    { apply single_ls'. intros s. rewrite <- PKING. change (tb (nthN (s_bs (ops_C g m vic)) (mpiece m)) s) with (sb (ops_C g m vic) (mpiece m) s).
      rewrite (sb_C g m vic C K V), N.eqb_refl, BA, (sb_A g m C K), N.eqb_refl.
      destruct KG as (KW & KB). assert (SK : single (bb g (mpiece m))) by (rewrite PKING; destruct w; assumption). destruct SK as (k & SK).
      assert (FK : mfrom m = k) by (apply SK; apply (k_from g m K)).
      destruct (N.eqb_spec (mto m) s) as [<-|NT]; [rewrite orb_true_r; tauto|]. rewrite orb_false_r. split; [|congruence].
      intros X. apply andb_true_iff in X. destruct X as [X1 X2]. apply SK in X1. subst s. rewrite FK, N.eqb_refl in X2. discriminate. }
    assert (OCC4 : forall x, N.testbit (s_ao D) x = (N.testbit (s_ao (ops_C g m vic)) x || (a =? x)) && negb (b =? x)).
    { intros x. unfold D, put, take. cbn [s_ao]. fold (tb (set_bit (unset_bit (s_ao (ops_C g m vic)) b) a) x). rewrite tb_set, tb_unset. unfold tb.
      assert (ABne : a <> b) by (unfold a, b, hop_a, hop_b; destruct CASES as [(_ & _ & [(T1 & _)|(T1 & _)])|(_ & _ & [(T1 & _)|(T1 & _)])]; rewrite T1; discriminate).
      destruct (N.eqb_spec a x) as [E1|]; destruct (N.eqb_spec b x) as [E2|]; try congruence; destruct (N.testbit (s_ao (ops_C g m vic)) x); reflexivity. }
    assert (OCC3 : forall x, N.testbit (s_ao (ops_C g m vic)) x = (N.testbit (aocc g) x && negb (mfrom m =? x)) || (mto m =? x)).
    { intros x. unfold ops_C. cbn [put s_ao]. fold (tb (set_bit (s_ao (ops_B g m vic)) (mto m)) x). rewrite tb_set, BA, (ao_A g m). reflexivity. }
    assert (GOAL : is_square_attacked (s_bs D) (s_ao D) (mto m) (negb w) = is_square_attacked (s_bs (ops_C g m vic)) (s_ao (ops_C g m vic)) (mto m) (negb w)).
    { set (c := colr (negb w)).
      assert (WC : wb c = negb w) by (unfold c; apply wb_colr).
      assert (PC : forall k, (pidx c k <? 6) = negb w) by (intros k; unfold c; destruct w, k; reflexivity).
      assert (P12k : forall k, pidx c k < 12) by (intros k; destruct c, k; reflexivity).
      assert (SameC : forall k, bb gC (pidx c k) = bb g (pidx c k)) by (intros k; apply (ESAME0 _ (PC k))).
      assert (SameD : forall k, bb gD (pidx c k) = bb g (pidx c k)) by (intros k; unfold gD, game_of, bb; cbn [bbs]; rewrite (ESAME _ (PC k)); apply (ESAME0 _ (PC k))).
      assert (AQ : tb (aocc g) (mto m) = false) by (apply (k_quiet g m K CAP)).
      assert (OCC : forall k s, N.testbit (bb g (pidx c k)) s = true -> N.testbit (aocc gC) s = true /\ s <> mto m).
      { intros k s T. assert (AS : tb (aocc g) s = true) by (apply (board_in_aocc g C (pidx c k) s (P12k k) T)).
        assert (SF : s <> mfrom m).
        { intros E. subst s. assert (NE : pidx c k <> mpiece m) by (intros X; pose proof (PC k) as Y; rewrite X in Y; fold w in OWN; rewrite OWN in Y; destruct w; discriminate).
          pose proof (c_disj g C (pidx c k) (mpiece m) (mfrom m) (P12k k) P12 NE T) as Z. rewrite (k_from g m K) in Z. discriminate. }
        split; [|intros E; subst s; unfold tb in *; congruence].
        unfold gC, game_of. cbn [aocc]. rewrite OCC3. unfold tb in AS. rewrite AS. destruct (N.eqb_spec (mfrom m) s); [congruence|]. reflexivity. }
      assert (A1' : is_square_attacked (bbs g) (aocc g) (mfrom m) (wb c) = false) by (rewrite WC; exact A1).
      assert (MONO : forall G1, geom_ok (mto m) a b = G1 -> G1 = true -> a <> b ->
                is_square_attacked (s_bs (ops_C g m vic)) (s_ao (ops_C g m vic)) (mto m) (negb w) = false ->
                is_square_attacked (s_bs D) (s_ao D) (mto m) (negb w) = false).
      { intros G1 <- GT ABne X. apply (attacked_mono (s_bs (ops_C g m vic)) (s_bs D) (s_ao (ops_C g m vic)) (s_ao D) (mto m) a b (negb w) GT ABne OCC4); [|exact X].
        intros q QC. apply ESAME. rewrite QC. reflexivity. }
      assert (BACK : geom_ok (mto m) a b = true -> geom2_ok (mto m) a (mfrom m) = true -> geomB_ok (mto m) a b = true ->
                a <> b -> a <> mfrom m -> a <> mto m -> mfrom m <> mto m -> N.testbit (aocc gC) a = false ->
                is_square_attacked (s_bs (ops_C g m vic)) (s_ao (ops_C g m vic)) (mto m) (negb w) = true ->
                is_square_attacked (s_bs D) (s_ao D) (mto m) (negb w) = true).
      { intros G1 G2 GB N1 N2 N3 N4 EA X. rewrite <- WC in X |- *.
        destruct (castle_back g gC gD c (mto m) a b (mfrom m) SameC SameD G1 G2 GB N1 N2 N3 N4 OCC4 OCC3 EA OCC X) as [Y|Y]; [exact Y|congruence]. }
      assert (EAgen : tb (aocc g) a = false -> a <> mto m -> N.testbit (aocc gC) a = false).
      { intros Z NT. unfold gC, game_of. cbn [aocc]. rewrite OCC3. unfold tb in Z. rewrite Z. destruct (N.eqb_spec (mto m) a); [congruence|]. reflexivity. }
      destruct (is_square_attacked (s_bs (ops_C g m vic)) (s_ao (ops_C g m vic)) (mto m) (negb w)) eqn:IC.
      - unfold a, b, hop_a, hop_b in *. fold w in KF.
        destruct CASES as [(W & PK & [(T1 & E1 & R1)|(T1 & E1 & R1)])|(W & PK & [(T1 & E1 & R1)|(T1 & E1 & R1)])]; fold w in W; rewrite W in KF; rewrite T1, KF in *; cbn [N.eqb Pos.eqb] in *.
        + apply BACK; try reflexivity; try discriminate. apply EAgen; [exact E1|discriminate].
        + apply BACK; try reflexivity; try discriminate. apply EAgen; [exact E1|discriminate].
        + apply BACK; try reflexivity; try discriminate. apply EAgen; [exact E1|discriminate].
        + apply BACK; try reflexivity; try discriminate. apply EAgen; [exact E1|discriminate].
      - unfold a, b, hop_a, hop_b in *.
        destruct CASES as [(W & PK & [(T1 & E1 & R1)|(T1 & E1 & R1)])|(W & PK & [(T1 & E1 & R1)|(T1 & E1 & R1)])]; rewrite T1 in *; cbn [N.eqb Pos.eqb] in *.
        + apply (MONO _ eq_refl geom_62); [discriminate|reflexivity].
        + apply (MONO _ eq_refl geom_58); [discriminate|reflexivity].
        + apply (MONO _ eq_refl geom_6); [discriminate|reflexivity].
        + apply (MONO _ eq_refl geom_2); [discriminate|reflexivity]. }
    unfold in_check_raw. unfold w in *. destruct (white g) eqn:W; cbn [negb] in *; rewrite KSAME, KSQ; symmetry; exact GOAL.
Qed.
End RejectedMain.

(* ---- the main statement: make's verdict on a generated move is the specification's check test ---- *)
Theorem make_verdict g all m : legal_inv g -> In m (generate_moves g all) ->
  (exists g', make_search_move g m = Made g') \/
  (make_search_move g m = Illegal /\ ChessSpec.in_check (apply_board (abs g) (umove m)) (colr (white g)) = true).
Proof.
  intros LI HI. pose proof LI as (C & KG & R & NK & _).
  pose proof (nk_nkc g all m C KG R NK HI) as NKC.
  pose proof (generated_moves_ok g C all m HI NKC) as K. pose proof (generated_promo_sane g all m HI) as PS.
  pose proof (generated_rng g C R all m HI) as RG. pose proof (generated_ps g R all m HI) as PP.
  assert (VIC : exists vic, mcap m = true -> mep m = false -> In vic (victims (white g)) /\ tb (bb g vic) (mto m) = true).
  { destruct (mcap m) eqn:CAP; [|exists 0; discriminate]. destruct (mep m) eqn:EP; [exists 0; discriminate|].
    destruct (k_cap g m K CAP EP) as (v & V1 & V2). exists v. intros _ _. split; assumption. }
  destruct VIC as (vic & V).
  rewrite make_staged_eq. unfold make_staged. cbn zeta.
  match goal with |- context [stage_cap g m ?b ?a ?h] => destruct (stage_cap g m b a h) as [[[[bs3 wo3] bo3] ao3] h3] eqn:SC end.
  destruct (peek_eq g m vic C K V bs3 wo3 bo3 ao3 _ h3 SC) as (L3 & BE & AE).
  assert (ICE : in_check_raw bs3 ao3 (white g) = in_check_raw (s_bs (ops_C g m vic)) (s_ao (ops_C g m vic)) (white g)).
  { apply icr_pointwise; [intros q; apply N_ext; intros s; apply BE|apply N_ext; exact AE]. }
  destruct (in_check_raw bs3 ao3 (white g)) eqn:IC.
  - right. split; [reflexivity|].
    rewrite (spec_check_is_D g all m LI HI C KG R K PS RG vic V).
    rewrite <- (check_C_D g m C KG K PS PP vic V). symmetry. exact ICE.
  - left.
    (* the special stage never fails for a generated move *)
    assert (SP : forall wo bo, stage_special m bs3 wo bo ao3 h3 <> None).
    { intros wo bo. unfold stage_special. cbn zeta. destruct (negb (mpromo m =? NOPIECE)); [discriminate|].
      destruct (mcastle m) eqn:CS; [|discriminate]. destruct (k_castle g m K CS) as (_ & _ & _ & CASES).
      destruct CASES as [(_ & _ & [(T1 & _)|(T1 & _)])|(_ & _ & [(T1 & _)|(T1 & _)])]; rewrite T1; cbn [N.eqb Pos.eqb]; destruct (white g); discriminate. }
    destruct (white g) eqn:W; cbn iota;
      match goal with |- context [stage_special m bs3 ?wo ?bo ao3 h3] => pose proof (SP wo bo) as X; destruct (stage_special m bs3 wo bo ao3 h3) as [[[[[bs4 wo4] bo4] ao4] h4]|]; [|contradiction] end;
      destruct (mdp m); cbn iota; eexists; reflexivity.
Qed.
Print Assumptions make_verdict.
