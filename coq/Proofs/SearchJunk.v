(* C18: the repetition table is "cleared" by resetting its index, not its contents, so a search starts with whatever earlier games left
   above the index.  Nothing a search returns or leaves behind depends on that: two runs whose tables agree below the index (and have the
   same capacity) yield the same value, the same outputs and the same final state -- transposition table, PV table, counters, killers,
   history heuristic -- except for the table contents above the index (and the ghost trace, whose node events quote the scratch slot).
   A relational invariant carried through quiescence, negamax, the iterative-deepening loop and search(). *)
From Coq Require Import NArith ZArith List Bool Lia.
From JV Require Import Gen.Consts Model.TT Model.Search.
Import ListNotations.

Lemma firstn_S_updl {A} (l : list A) i k : firstn (S i) (updl l i k) = firstn i l ++ (if Nat.ltb i (length l) then [k] else []).
Proof.
  unfold updl. destruct (Nat.ltb_spec i (length l)) as [L|L].
  - rewrite firstn_app, firstn_firstn, firstn_length. replace (Nat.min (S i) i) with i by lia. replace (Nat.min i (length l)) with i by lia.
    replace (S i - i)%nat with 1%nat by lia. f_equal.
    destruct (skipn i l) as [|x r] eqn:E; [|reflexivity].
    exfalso. pose proof (skipn_length i l) as SL. rewrite E in SL. cbn in SL. lia.
  - rewrite (skipn_all2 l) by lia. rewrite !app_nil_r. rewrite (firstn_all2 l) by lia. apply firstn_all2. lia.
Qed.
Lemma firstn_le_eq {A} (l1 l2 : list A) n i : (n <= i)%nat -> firstn i l1 = firstn i l2 -> firstn n l1 = firstn n l2.
Proof.
  intros L H. replace n with (Nat.min n i) by lia. rewrite <- !firstn_firstn. rewrite H. reflexivity.
Qed.
Lemma length_updl' {A} (l : list A) i v : length (updl l i v) = length l.
Proof.
  unfold updl. rewrite app_length, firstn_length. pose proof (skipn_length i l) as SL.
  destruct (skipn i l) as [|x r]; cbn [length] in *; lia.
Qed.

Section Frame.
Variables (pos move : Type).
Variable gen : pos -> bool -> list move.
Variable make : pos -> move -> option pos.
Variable null : pos -> pos.
Variable evalf : pos -> Z.
Variable in_check : pos -> bool.
Variable key : pos -> N.
Variable half100 : pos -> bool.
Variable mv_eqb : move -> move -> bool.
Variable mv_cap : move -> bool.
Variable mv_promo : move -> bool.
Variable mv_hidx : move -> nat.
Variable cap_score : pos -> move -> Z.
Variable null_mv : move.
Variable legalb : pos -> move -> bool.
Variable pollp : N -> bool.
Variable stop_at : nat -> bool.
Variable tt_bypass : bool.

Notation env := (env pos move).
Notation res := (res pos move).
Notation lres := (lres pos move).
Notation negamax := (negamax gen make null evalf in_check key half100 mv_eqb mv_cap mv_promo mv_hidx cap_score null_mv pollp stop_at tt_bypass).
Notation quiescence := (quiescence gen make evalf key half100 mv_eqb mv_cap mv_hidx cap_score null_mv pollp stop_at).
Notation negamax_body := (negamax_body gen make null evalf in_check key half100 mv_eqb mv_cap mv_promo mv_hidx cap_score null_mv pollp stop_at tt_bypass).
Notation quiescence_body := (quiescence_body gen make evalf key half100 mv_eqb mv_cap mv_hidx cap_score null_mv pollp stop_at).
Notation nloop := (nloop make key mv_cap mv_promo mv_hidx).
Notation qloop := (qloop make key).
Notation sort_moves := (sort_moves mv_eqb mv_cap mv_hidx cap_score null_mv).
Notation score_all := (score_all mv_eqb mv_cap mv_hidx cap_score null_mv).
Notation score_move := (score_move mv_eqb mv_cap mv_hidx cap_score null_mv).
Notation maybe_poll := (maybe_poll pollp stop_at).
Notation poll := (poll stop_at).
Notation enable_pv_scoring := (enable_pv_scoring mv_eqb null_mv).

(* everything of an environment except the table contents above the index and the ghost trace *)
Definition core (e : env) :=
  (nodes e, ply e, stopping e, npolls e, pvlen e, pvtab e, tbl e, tt_hits e, ridx e, firstn (ridx e) (rtab e), length (rtab e),
   killers0 e, killers1 e, history e, follow_pv e, score_pv e, snap e).
Definition R (e1 e2 : env) : Prop := core e1 = core e2.

Ltac projs := cbn [nodes ply stopping npolls pvlen pvtab tbl tt_hits ridx rtab killers0 killers1 history follow_pv score_pv snap trace
                       set_ply set_nodes set_pv set_tbl set_hits set_rep set_killers set_history set_flags emit].
Ltac projs_in H := cbn [nodes ply stopping npolls pvlen pvtab tbl tt_hits ridx rtab killers0 killers1 history follow_pv score_pv snap trace
                       set_ply set_nodes set_pv set_tbl set_hits set_rep set_killers set_history set_flags emit] in H.
Ltac rstart H :=
  match type of H with R ?a ?b => destruct a, b end;
  unfold R, core in H; projs_in H; injection H; clear H; intros; subst.
Ltac rgoal := unfold R, core; projs; try congruence; try reflexivity.

Lemma R_refl e : R e e. Proof. reflexivity. Qed.
Lemma R_ply e1 e2 : R e1 e2 -> ply e1 = ply e2.            Proof. intros H. rstart H. reflexivity. Qed.
Lemma R_stopping e1 e2 : R e1 e2 -> stopping e1 = stopping e2.  Proof. intros H. rstart H. reflexivity. Qed.
Lemma R_nodes e1 e2 : R e1 e2 -> nodes e1 = nodes e2.      Proof. intros H. rstart H. reflexivity. Qed.
Lemma R_tbl e1 e2 : R e1 e2 -> tbl e1 = tbl e2.            Proof. intros H. rstart H. reflexivity. Qed.
Lemma R_pvlen e1 e2 : R e1 e2 -> pvlen e1 = pvlen e2.      Proof. intros H. rstart H. reflexivity. Qed.
Lemma R_pvtab e1 e2 : R e1 e2 -> pvtab e1 = pvtab e2.      Proof. intros H. rstart H. reflexivity. Qed.
Lemma R_follow e1 e2 : R e1 e2 -> follow_pv e1 = follow_pv e2.  Proof. intros H. rstart H. reflexivity. Qed.
Lemma R_score_pv e1 e2 : R e1 e2 -> score_pv e1 = score_pv e2.  Proof. intros H. rstart H. reflexivity. Qed.
Lemma R_hits e1 e2 : R e1 e2 -> tt_hits e1 = tt_hits e2.   Proof. intros H. rstart H. reflexivity. Qed.

Lemma R_ply_up e1 e2 : R e1 e2 -> R (set_ply e1 (S (ply e1))) (set_ply e2 (S (ply e2))).     Proof. intros H. rstart H. rgoal. Qed.
Lemma R_ply_down e1 e2 : R e1 e2 -> R (set_ply e1 (pred (ply e1))) (set_ply e2 (pred (ply e2))). Proof. intros H. rstart H. rgoal. Qed.
Lemma R_node_count e1 e2 : R e1 e2 -> R (set_nodes e1 (N.succ (nodes e1))) (set_nodes e2 (N.succ (nodes e2))). Proof. intros H. rstart H. rgoal. Qed.
Lemma R_emit e1 e2 ev1 ev2 : R e1 e2 -> R (emit e1 ev1) (emit e2 ev2).                         Proof. intros H. rstart H. rgoal. Qed.
Lemma R_flags e1 e2 a b : R e1 e2 -> R (set_flags e1 a b) (set_flags e2 a b).                  Proof. intros H. rstart H. rgoal. Qed.
Lemma R_set_pv e1 e2 l t : R e1 e2 -> R (set_pv e1 l t) (set_pv e2 l t).                      Proof. intros H. rstart H. rgoal. Qed.
Lemma R_set_tbl e1 e2 t : R e1 e2 -> R (set_tbl e1 t) (set_tbl e2 t).                         Proof. intros H. rstart H. rgoal. Qed.
Lemma R_set_hits e1 e2 h : R e1 e2 -> R (set_hits e1 h) (set_hits e2 h).                      Proof. intros H. rstart H. rgoal. Qed.
Lemma R_set_killers e1 e2 a b : R e1 e2 -> R (set_killers e1 a b) (set_killers e2 a b).        Proof. intros H. rstart H. rgoal. Qed.
Lemma R_set_history e1 e2 h : R e1 e2 -> R (set_history e1 h) (set_history e2 h).              Proof. intros H. rstart H. rgoal. Qed.

Lemma R_rep_insert e1 e2 k : R e1 e2 -> R (rep_insert e1 k) (rep_insert e2 k).
Proof.
  intros H. rstart H. unfold R, core, rep_insert. projs. rewrite !firstn_S_updl, !length_updl'.
  repeat match goal with E : _ = _ |- _ => rewrite E end. reflexivity.
Qed.
Lemma R_rep_back e1 e2 : R e1 e2 -> R (rep_back e1) (rep_back e2).
Proof.
  intros H. rstart H. unfold R, core, rep_back. projs.
  match goal with E : firstn ?i ?a = firstn ?i ?b |- _ => rewrite (firstn_le_eq a b (pred i) i (Nat.le_pred_l i) E) end.
  repeat match goal with E : length _ = length _ |- _ => rewrite E end. reflexivity.
Qed.
Lemma rep_hit_R e1 e2 k : R e1 e2 -> rep_hit e1 k = rep_hit e2 k.
Proof. intros H. rstart H. unfold rep_hit. projs. congruence. Qed.

Lemma R_poll e1 e2 : R e1 e2 -> R (poll e1) (poll e2).
Proof. intros H. rstart H. unfold Search.poll. cbv zeta. projs. destruct (stop_at _ && negb _); rgoal. Qed.
Lemma R_maybe_poll e1 e2 : R e1 e2 -> R (maybe_poll e1) (maybe_poll e2).
Proof. intros H. unfold Search.maybe_poll. rewrite (R_nodes _ _ H). destruct (pollp _); [apply R_poll|]; exact H. Qed.
Lemma R_insert_pv e1 e2 m : R e1 e2 -> R (insert_pv e1 m) (insert_pv e2 m).
Proof. intros H. rstart H. unfold Search.insert_pv, pv_row. cbv zeta. projs. rgoal. Qed.
Lemma R_enable_pv e1 e2 ms : R e1 e2 -> R (enable_pv_scoring ms e1) (enable_pv_scoring ms e2).
Proof. intros H. rstart H. unfold Search.enable_pv_scoring, pv_move, pv_row. projs. destruct (existsb _ _); rgoal. Qed.

Lemma score_move_R g m e1 e2 : R e1 e2 -> fst (score_move g m e1) = fst (score_move g m e2) /\ R (snd (score_move g m e1)) (snd (score_move g m e2)).
Proof.
  intros H. rstart H. unfold Search.score_move, pv_move, pv_row. projs.
  repeat match goal with |- context [if ?c then _ else _] => destruct c end; cbn [fst snd]; split; try reflexivity; rgoal.
Qed.
Lemma score_all_R g ms : forall e1 e2, R e1 e2 -> fst (score_all g ms e1) = fst (score_all g ms e2) /\ R (snd (score_all g ms e1)) (snd (score_all g ms e2)).
Proof.
  induction ms as [|m r IH]; intros e1 e2 H; cbn [Search.score_all].
  - split; [reflexivity|exact H].
  - destruct (score_move_R g m e1 e2 H) as (A & B).
    destruct (score_move g m e1) as [s1 e1'], (score_move g m e2) as [s2 e2']. cbn [fst snd] in A, B. subst s2.
    destruct (IH e1' e2' B) as (C & D).
    destruct (score_all g r e1') as [l1 e1''], (score_all g r e2') as [l2 e2'']. cbn [fst snd] in *. subst l2. split; [reflexivity|exact D].
Qed.
Lemma sort_moves_R g ms e1 e2 : R e1 e2 -> fst (sort_moves g ms e1) = fst (sort_moves g ms e2) /\ R (snd (sort_moves g ms e1)) (snd (sort_moves g ms e2)).
Proof.
  intros H. unfold Search.sort_moves. destruct (score_all_R g ms e1 e2 H) as (A & B).
  destruct (score_all g ms e1) as [l1 e1'], (score_all g ms e2) as [l2 e2']. cbn [fst snd] in *. subst l2. split; [reflexivity|exact B].
Qed.

Definition RR (r1 r2 : res) : Prop :=
  match r1, r2 with Val s1 e1, Val s2 e2 => s1 = s2 /\ R e1 e2 | OutOfFuel, OutOfFuel => True | _, _ => False end.
Definition RL (r1 r2 : lres) : Prop :=
  match r1, r2 with
  | LRet s1 e1, LRet s2 e2 => s1 = s2 /\ R e1 e2
  | LDone t1 e1 l1 x1, LDone t2 e2 l2 x2 => t1 = t2 /\ l1 = l2 /\ x1 = x2 /\ R e1 e2
  | LFuel, LFuel => True
  | _, _ => False
  end.
Definition Pn (rec : pos -> nat -> Z -> Z -> env -> res) : Prop := forall g d a b e1 e2, R e1 e2 -> RR (rec g d a b e1) (rec g d a b e2).
Definition Pq (rec : pos -> Z -> Z -> env -> res) : Prop := forall g a b e1 e2, R e1 e2 -> RR (rec g a b e1) (rec g a b e2).

Section BodyLemmas.
Variable rec_n : pos -> nat -> Z -> Z -> env -> res.
Variable rec_q : pos -> Z -> Z -> env -> res.
Hypothesis Hn : Pn rec_n.
Hypothesis Hq : Pq rec_q.

Notation after_move := (after_move key mv_cap mv_hidx).
Notation search_move := (search_move mv_cap mv_promo rec_n).
Notation move_phase := (move_phase gen make key mv_eqb mv_cap mv_promo mv_hidx cap_score null_mv rec_n).

Lemma qloop_R g ms : forall ta b e1 e2, R e1 e2 -> RR (qloop rec_q g ms ta b e1) (qloop rec_q g ms ta b e2).
Proof.
  induction ms as [|m rest IH]; intros ta b e1 e2 H; cbn [Search.qloop].
  - split; [reflexivity|exact H].
  - unfold make_rep. destruct (make g m) as [g'|]; [|apply IH; exact H].
    pose proof (R_ply_up _ _ (R_rep_insert _ _ (key g') H)) as H2.
    pose proof (Hq g' (- b)%Z (- ta)%Z _ _ H2) as Q.
    destruct (rec_q g' (- b)%Z (- ta)%Z (set_ply (rep_insert e1 (key g')) _)) as [s1 e31|],
             (rec_q g' (- b)%Z (- ta)%Z (set_ply (rep_insert e2 (key g')) _)) as [s2 e32|]; cbn [RR] in Q; try contradiction; [|exact I].
    destruct Q as (<- & H3).
    pose proof (R_rep_back _ _ (R_ply_down _ _ H3)) as H4.
    destruct (- s1 >=? b)%Z; [split; [reflexivity|exact H4]|]. apply IH. exact H4.
Qed.

Lemma quiescence_body_R : Pq (quiescence_body rec_q).
Proof.
  intros g a b e1 e2 H. unfold Search.quiescence_body.
  cbv zeta.
  match goal with |- context [emit e1 ?ev] => set (ev1 := ev) end.
  match goal with |- context [emit e2 ?ev] => set (ev2 := ev) end.
  pose proof (R_node_count _ _ (R_maybe_poll _ _ (R_emit e1 e2 ev1 ev2 H))) as H2.
  match type of H2 with R ?x ?y => set (x1 := x) in *; set (x2 := y) in * end.
  rewrite (R_ply _ _ H2).
  destruct (_ || _); [split; [reflexivity|exact H2]|].
  destruct (_ && _); [split; [reflexivity|exact H2]|].
  destruct (sort_moves_R g (gen g false) x1 x2 H2) as (A & B).
  destruct (sort_moves g (gen g false) x1) as [ms1 y1], (sort_moves g (gen g false) x2) as [ms2 y2]. cbn [fst snd] in A, B. subst ms2.
  apply qloop_R. exact B.
Qed.

Lemma after_move_R g depth m ta b ex searched legal next score e1 e2 :
  (forall s l t x e1 e2, R e1 e2 -> RL (next s l t x e1) (next s l t x e2)) -> R e1 e2 ->
  RL (after_move g depth m ta b ex searched legal next score e1) (after_move g depth m ta b ex searched legal next score e2).
Proof.
  intros HN H. unfold Search.after_move. cbv zeta.
  pose proof (R_ply_down _ _ H) as H5.
  match type of H5 with R ?x ?y => set (x1 := x) in *; set (x2 := y) in * end.
  rewrite (R_stopping _ _ H5). destruct (stopping x2); [split; [reflexivity|exact H5]|].
  destruct (score >? ta)%Z; [|apply HN; exact H5].
  pose proof (R_insert_pv _ _ m H5) as H6.
  match type of H6 with R ?x ?y => set (y1 := x) in *; set (y2 := y) in * end.
  destruct (score >=? b)%Z.
  - destruct (mv_cap m).
    + cbn [RL]. split; [reflexivity|]. clearbody y1 y2. clear -H6. rstart H6. rgoal.
    + cbn [RL]. split; [reflexivity|]. clearbody y1 y2. clear -H6. rstart H6. rgoal.
  - apply HN. destruct (mv_cap m); [exact H6|]. clearbody y1 y2. clear -H6. rstart H6. rgoal.
Qed.

Lemma search_move_R g' depth nd inchk m searched ta b e1 e2 after :
  R e1 e2 -> (forall s e1 e2, R e1 e2 -> RL (after s e1) (after s e2)) ->
  RL (search_move g' depth nd inchk m searched ta b e1 after) (search_move g' depth nd inchk m searched ta b e2 after).
Proof.
  intros H HA. unfold Search.search_move.
  assert (HRt : forall d' a' b' x1 x2, R x1 x2 -> forall k, (forall s e1 e2, R e1 e2 -> RL (k s e1) (k s e2)) ->
                RL (neg_res (rec_n g' d' a' b' x1) k) (neg_res (rec_n g' d' a' b' x2) k)).
  { intros d' a' b' x1 x2 HX k K. pose proof (Hn g' d' a' b' x1 x2 HX) as Q.
    destruct (rec_n g' d' a' b' x1) as [s1 y1|], (rec_n g' d' a' b' x2) as [s2 y2|]; cbn [RR] in Q; try contradiction; cbn [neg_res]; [|exact I].
    destruct Q as (<- & Q). apply K. exact Q. }
  destruct (Nat.eqb searched 0).
  - apply HRt; [exact H|exact HA].
  - cbv zeta.
    assert (HP : forall s1 x1 x2, R x1 x2 ->
      RL (if (s1 >? ta)%Z then
            neg_res (rec_n g' (nd - 1)%nat (- ta - 1)%Z (- ta)%Z x1)
              (fun s2 e'' => if (s2 >? ta)%Z && (s2 <? b)%Z then neg_res (rec_n g' (nd - 1)%nat (- b)%Z (- ta)%Z e'') after else after s2 e'')
          else after s1 x1)
         (if (s1 >? ta)%Z then
            neg_res (rec_n g' (nd - 1)%nat (- ta - 1)%Z (- ta)%Z x2)
              (fun s2 e'' => if (s2 >? ta)%Z && (s2 <? b)%Z then neg_res (rec_n g' (nd - 1)%nat (- b)%Z (- ta)%Z e'') after else after s2 e'')
          else after s1 x2)).
    { intros s1 x1 x2 HX. destruct (s1 >? ta)%Z; [|apply HA; exact HX].
      apply HRt; [exact HX|]. intros s2 y1 y2 HY. destruct (_ && _); [|apply HA; exact HY].
      apply HRt; [exact HY|exact HA]. }
    destruct (_ && _ && _ && _ && _).
    + apply HRt; [exact H|exact HP].
    + apply HP. exact H.
Qed.

Lemma nloop_R g depth nd inchk ms : forall searched legal ta b ex e1 e2, R e1 e2 ->
  RL (nloop rec_n g depth nd inchk ms searched legal ta b ex e1) (nloop rec_n g depth nd inchk ms searched legal ta b ex e2).
Proof.
  induction ms as [|m rest IH]; intros searched legal ta b ex e1 e2 H; cbn [Search.nloop].
  - cbn [RL]. repeat split; try reflexivity. exact H.
  - unfold make_rep. cbv zeta. destruct (make g m) as [g'|].
    + apply search_move_R.
      * apply R_rep_back. apply R_rep_insert. apply R_ply_up. exact H.
      * intros s x1 x2 HX. apply after_move_R; [|exact HX]. intros s' l t x y1 y2 HY. apply IH. exact HY.
    + apply IH. apply (R_ply_down _ _ (R_ply_up _ _ H)).
Qed.

Lemma move_phase_R g depth nd inchk a b e1 e2 : R e1 e2 -> RR (move_phase g depth nd inchk a b e1) (move_phase g depth nd inchk a b e2).
Proof.
  intros H. unfold Search.move_phase. cbv zeta.
  rewrite (R_follow _ _ H).
  assert (HY : R (if follow_pv e2 then enable_pv_scoring (gen g true) e1 else e1) (if follow_pv e2 then enable_pv_scoring (gen g true) e2 else e2))
    by (destruct (follow_pv e2); [apply R_enable_pv|]; exact H).
  match type of HY with R ?x ?y => set (x1 := x) in *; set (x2 := y) in * end.
  destruct (sort_moves_R g (gen g true) x1 x2 HY) as (A & B).
  destruct (sort_moves g (gen g true) x1) as [ms1 y1], (sort_moves g (gen g true) x2) as [ms2 y2]. cbn [fst snd] in A, B. subst ms2.
  pose proof (nloop_R g depth nd inchk ms1 0 0 a b false y1 y2 B) as L.
  destruct (nloop rec_n g depth nd inchk ms1 0 0 a b false y1) as [s1 w1|t1 w1 l1 c1|],
           (nloop rec_n g depth nd inchk ms1 0 0 a b false y2) as [s2 w2|t2 w2 l2 c2|]; cbn [RL] in L; try contradiction; [| |exact I].
  - exact L.
  - destruct L as (<- & <- & <- & L). destruct (Nat.eqb l1 0).
    + cbv zeta. cbn [ply emit]. rewrite (R_ply _ _ L). destruct inchk; cbn [RR]; (split; [reflexivity|apply R_emit; exact L]).
    + cbn [RR]. split; [reflexivity|]. clear -L. rstart L. rgoal.
Qed.

Lemma negamax_body_R : Pn (negamax_body rec_n rec_q).
Proof.
  intros g d a b e1 e2 H. unfold Search.negamax_body.
  cbv zeta.
  match goal with |- context [emit e1 ?ev] => set (ev1 := ev) end.
  match goal with |- context [emit e2 ?ev] => set (ev2 := ev) end.
  pose proof (R_emit e1 e2 ev1 ev2 H) as H0.
  match type of H0 with R ?x ?y => set (x1 := x) in *; set (x2 := y) in * end.
  rewrite (R_ply _ _ H0), (rep_hit_R _ _ (key g) H0).
  destruct (_ && rep_hit x2 (key g)).
  { cbn [RR]. split; [reflexivity|]. apply R_emit. rewrite (R_pvlen _ _ H0), (R_pvtab _ _ H0). apply R_set_pv. exact H0. }
  rewrite (R_tbl _ _ H0).
  match goal with |- context [match ?X with Some _ => _ | None => _ end] => destruct X end.
  { cbn [RR]. split; [reflexivity|]. apply R_emit. rewrite (R_hits _ _ H0). apply R_set_hits. exact H0. }
  assert (H1 : R (set_pv x1 (updl (pvlen x1) (ply x2) (ply x2)) (pvtab x1)) (set_pv x2 (updl (pvlen x2) (ply x2) (ply x2)) (pvtab x2)))
    by (rewrite (R_pvlen _ _ H0), (R_pvtab _ _ H0); apply R_set_pv; exact H0).
  match type of H1 with R ?x ?y => set (y1 := x) in *; set (y2 := y) in * end.
  rewrite (R_ply _ _ H1).
  destruct (Nat.leb _ _); [split; [reflexivity|exact H1]|].
  pose proof (R_maybe_poll _ _ H1) as H2.
  match type of H2 with R ?x ?y => set (z1 := x) in *; set (z2 := y) in * end.
  destruct (_ || _); [apply Hq; exact H2|].
  pose proof (R_node_count _ _ H2) as H3.
  match type of H3 with R ?x ?y => set (w1 := x) in *; set (w2 := y) in * end.
  rewrite (R_ply _ _ H3).
  destruct (_ && _ && _).
  - pose proof (Hn (null g) ((if in_check g then S d else d) - 3)%nat (- b)%Z (- b + 1)%Z _ _ (R_ply_up _ _ H3)) as Q.
    rewrite (R_ply _ _ H3) in Q.
    destruct (rec_n (null g) _ _ _ (set_ply w1 _)) as [s1 v1|], (rec_n (null g) _ _ _ (set_ply w2 _)) as [s2 v2|]; cbn [RR] in Q; try contradiction; [|exact I].
    destruct Q as (<- & Q). pose proof (R_ply_down _ _ Q) as Q6.
    match type of Q6 with R ?x ?y => set (q1 := x) in *; set (q2 := y) in * end.
    rewrite (R_stopping _ _ Q6). destruct (stopping q2); [cbn [RR]; split; [reflexivity|exact Q6]|].
    destruct (- s1 >=? b)%Z; [cbn [RR]; split; [reflexivity|exact Q6]|]. apply move_phase_R. exact Q6.
  - apply move_phase_R. exact H3.
Qed.
End BodyLemmas.

Theorem search_junk_inv : forall fuel, Pn (negamax fuel) /\ Pq (quiescence fuel).
Proof.
  induction fuel as [|fu [IHn IHq]].
  - split; [intros g d a b e1 e2 H|intros g a b e1 e2 H]; exact I.
  - split.
    + apply negamax_body_R; assumption.
    + apply quiescence_body_R; assumption.
Qed.

Notation id_loop := (id_loop gen make null evalf in_check key half100 mv_eqb mv_cap mv_promo mv_hidx cap_score null_mv legalb pollp stop_at tt_bypass).
Notation search := (search gen make null evalf in_check key half100 mv_eqb mv_cap mv_promo mv_hidx cap_score null_mv legalb pollp stop_at tt_bypass).

Definition RS (r1 r2 : sres pos move) : Prop :=
  match r1, r2 with SDone o1 e1 s1, SDone o2 e2 s2 => o1 = o2 /\ s1 = s2 /\ R e1 e2 | SFuel, SFuel => True | _, _ => False end.

Lemma best_move_R g e1 e2 : R e1 e2 -> best_move gen mv_eqb null_mv legalb g e1 = best_move gen mv_eqb null_mv legalb g e2.
Proof. intros H. unfold best_move, pv_row. rewrite (R_pvtab _ _ H). reflexivity. Qed.

Lemma id_loop_R iters : forall g cur maxd a b sc e1 e2 outs, R e1 e2 -> RS (id_loop iters g cur maxd a b sc e1 outs) (id_loop iters g cur maxd a b sc e2 outs).
Proof.
  induction iters as [|it IH]; intros g cur maxd a b sc e1 e2 outs H; cbn [Search.id_loop].
  - cbn [RS]. rewrite (best_move_R g _ _ H). repeat split; try reflexivity. exact H.
  - destruct (Nat.ltb maxd cur); [cbn [RS]; rewrite (best_move_R g _ _ H); repeat split; try reflexivity; exact H|].
    rewrite (R_score_pv _ _ H).
    pose proof (proj1 (search_junk_inv FUEL) g cur a b _ _ (R_flags e1 e2 true (score_pv e2) H)) as Q.
    destruct (negamax FUEL g cur a b (set_flags e1 true (score_pv e2))) as [s1 x1|],
             (negamax FUEL g cur a b (set_flags e2 true (score_pv e2))) as [s2 x2|]; cbn [RR] in Q; try contradiction; [|exact I].
    destruct Q as (<- & Q). rewrite (R_stopping _ _ Q).
    destruct (stopping x2); [cbn [RS]; rewrite (best_move_R g _ _ Q); repeat split; try reflexivity; exact Q|].
    destruct (_ || _); [apply IH; exact Q|].
    unfold pv_row. rewrite (R_nodes _ _ Q), (R_pvlen _ _ Q), (R_pvtab _ _ Q). apply IH. exact Q.
Qed.

(* two searches whose repetition tables have the same capacity and agree below the index print the same lines, return the same score and
   leave the same state behind, whatever the tables hold above the index *)
Theorem search_junk_independent g depth t rt1 rt2 ri :
  firstn ri rt1 = firstn ri rt2 -> length rt1 = length rt2 ->
  match search g depth t rt1 ri, search g depth t rt2 ri with
  | SDone o1 e1 s1, SDone o2 e2 s2 =>
    o1 = o2 /\ s1 = s2 /\ tbl e1 = tbl e2 /\ pvtab e1 = pvtab e2 /\ pvlen e1 = pvlen e2 /\ nodes e1 = nodes e2 /\ npolls e1 = npolls e2 /\
    stopping e1 = stopping e2 /\ ridx e1 = ridx e2 /\ firstn (ridx e1) (rtab e1) = firstn (ridx e2) (rtab e2)
  | SFuel, SFuel => True
  | _, _ => False
  end.
Proof.
  intros F L. unfold Search.search.
  assert (H0 : R (@init_env pos move null_mv t rt1 ri) (@init_env pos move null_mv t rt2 ri)).
  { unfold R, core, init_env. projs. rewrite F, L. reflexivity. }
  pose proof (id_loop_R (S (max_depth_of depth)) g 1 (max_depth_of depth) (- INFINITY)%Z INFINITY 0%Z _ _ [] H0) as Q.
  destruct (id_loop _ g 1 _ _ _ _ (@init_env pos move null_mv t rt1 ri) []) as [o1 x1 s1|], (id_loop _ g 1 _ _ _ _ (@init_env pos move null_mv t rt2 ri) []) as [o2 x2 s2|];
    cbn [RS] in Q; try contradiction; [|exact I].
  destruct Q as (-> & -> & Q). split; [reflexivity|]. split; [reflexivity|]. clear -Q. rstart Q. repeat split; reflexivity || assumption.
Qed.

End Frame.
