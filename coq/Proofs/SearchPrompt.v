(* C09 (bounded work after a stop): once a poll has observed the stop, at most 2 * MAX_PLY^2 further nodes of the main search are
   entered.  A node entered while the flag is set searches at most one child (the null-move child, or the first move the legality
   test accepts) and returns; a frame in whose child the stop was seen finishes the at most two further searches of that same move
   (LMR / PVS re-searches are not separated by a flag test) and returns.  Quiescence never tests the flag: its nodes are not
   counted here (they are bounded only by the capture sequences).  NS counts the ghost events "negamax entered with stopping = true". *)
From Coq Require Import NArith ZArith List Bool Lia.
From JV Require Import Gen.Consts Model.TT Model.Search.
Import ListNotations.

Section Frame.
Variables (pos move : Type).
Variable gen : pos -> bool -> list move.
Variable make : pos -> move -> option pos.
Variable null : pos -> pos.
Variable evalf : pos -> Z.
Variable in_check : pos -> bool.
Variable key : pos -> N.
Variable half100 : pos -> bool.
Variable mv_eqb : move -> move -> bool.
Variable mv_cap : move -> bool.
Variable mv_promo : move -> bool.
Variable mv_hidx : move -> nat.
Variable cap_score : pos -> move -> Z.
Variable null_mv : move.
Variable legalb : pos -> move -> bool.
Variable pollp : N -> bool.
Variable stop_at : nat -> bool.
Variable tt_bypass : bool.

Notation env := (env pos move).
Notation res := (res pos move).
Notation lres := (lres pos move).
Notation negamax := (negamax gen make null evalf in_check key half100 mv_eqb mv_cap mv_promo mv_hidx cap_score null_mv pollp stop_at tt_bypass).
Notation quiescence := (quiescence gen make evalf key half100 mv_eqb mv_cap mv_hidx cap_score null_mv pollp stop_at).
Notation negamax_body := (negamax_body gen make null evalf in_check key half100 mv_eqb mv_cap mv_promo mv_hidx cap_score null_mv pollp stop_at tt_bypass).
Notation quiescence_body := (quiescence_body gen make evalf key half100 mv_eqb mv_cap mv_hidx cap_score null_mv pollp stop_at).
Notation nloop := (nloop make key mv_cap mv_promo mv_hidx).
Notation qloop := (qloop make key).
Notation sort_moves := (sort_moves mv_eqb mv_cap mv_hidx cap_score null_mv).
Notation score_all := (score_all mv_eqb mv_cap mv_hidx cap_score null_mv).
Notation score_move := (score_move mv_eqb mv_cap mv_hidx cap_score null_mv).
Notation maybe_poll := (maybe_poll pollp stop_at).
Notation poll := (poll stop_at).
Notation enable_pv_scoring := (enable_pv_scoring mv_eqb null_mv).

Definition M : nat := MAXPLY.
Lemma M_pos : (1 <= M)%nat. Proof. apply Nat.leb_le. vm_compute. reflexivity. Qed.
Definition f (p : nat) : nat := M - p.
Definition F (p : nat) : nat := 2 * (M - p) * (M - p).

Definition isN (ev : event pos move) : bool := match ev with ENode false _ _ _ _ _ _ true _ _ => true | _ => false end.
Definition ns (e : env) : nat := length (filter isN (trace e)).

Lemma ns_emit e ev : ns (emit e ev) = (ns e + (if isN ev then 1 else 0))%nat.
Proof. unfold ns. cbn [trace emit filter]. destruct (isN ev); cbn [length]; lia. Qed.

(* agreement on what the counting invariant reads *)
Definition same3 (e e' : env) : Prop := ply e' = ply e /\ stopping e' = stopping e /\ ns e' = ns e.
Lemma s3_refl e : same3 e e. Proof. repeat split. Qed.
Lemma s3_trans a b c : same3 a b -> same3 b c -> same3 a c.
Proof. unfold same3. intros (A1&A2&A3) (B1&B2&B3). repeat split; congruence. Qed.
Ltac s3 := unfold same3, ns; cbn; repeat split; reflexivity.
Lemma s3_set_nodes e n : same3 e (set_nodes e n). Proof. s3. Qed.
Lemma s3_set_hits e h : same3 e (set_hits e h). Proof. s3. Qed.
Lemma s3_set_flags e a b : same3 e (set_flags e a b). Proof. s3. Qed.
Lemma s3_set_killers e a b : same3 e (set_killers e a b). Proof. s3. Qed.
Lemma s3_set_history e h : same3 e (set_history e h). Proof. s3. Qed.
Lemma s3_set_pv e l t : same3 e (set_pv e l t). Proof. s3. Qed.
Lemma s3_set_tbl e t : same3 e (set_tbl e t). Proof. s3. Qed.
Lemma s3_rep_insert e k : same3 e (rep_insert e k). Proof. s3. Qed.
Lemma s3_rep_back e : same3 e (rep_back e). Proof. s3. Qed.
Lemma s3_emit e ev : isN ev = false -> same3 e (emit e ev).
Proof. intros H. unfold same3. rewrite ns_emit, H. cbn. repeat split; lia. Qed.
Lemma s3_insert_pv e m : same3 e (insert_pv e m).
Proof. unfold Search.insert_pv. cbn zeta. eapply s3_trans; [apply (s3_emit e (EPV (ply e) m)); reflexivity|apply s3_set_pv]. Qed.

Lemma poll_facts (e : env) : ply (poll e) = ply e /\ ns (poll e) = ns e /\ (stopping e = true -> stopping (poll e) = true).
Proof.
  unfold Search.poll, ns. cbn zeta. destruct (stop_at (npolls e) && negb (stopping e)); cbn; repeat split; try reflexivity; intros ->; reflexivity.
Qed.
Lemma maybe_poll_facts (e : env) : ply (maybe_poll e) = ply e /\ ns (maybe_poll e) = ns e /\ (stopping e = true -> stopping (maybe_poll e) = true).
Proof. unfold Search.maybe_poll. destruct (pollp _); [apply poll_facts|repeat split; auto]. Qed.

Lemma s3_score_move g m e : same3 e (snd (score_move g m e)).
Proof.
  unfold Search.score_move.
  repeat match goal with |- context [if ?c then _ else _] => destruct c end; cbn [snd]; try apply s3_refl. apply s3_set_flags.
Qed.
Lemma s3_score_all g ms : forall e, same3 e (snd (score_all g ms e)).
Proof.
  induction ms as [|m r IH]; intros e; cbn [Search.score_all snd]; [apply s3_refl|].
  destruct (score_move g m e) as [s e1] eqn:E1. destruct (score_all g r e1) as [l e2] eqn:E2. cbn [snd].
  pose proof (s3_score_move g m e) as B1. rewrite E1 in B1. pose proof (IH e1) as B2. rewrite E2 in B2. eapply s3_trans; eassumption.
Qed.
Lemma s3_sort_moves g ms e : same3 e (snd (sort_moves g ms e)).
Proof.
  unfold Search.sort_moves. destruct (score_all g ms e) as [sc e1] eqn:E. cbn [snd]. pose proof (s3_score_all g ms e) as B. rewrite E in B. exact B.
Qed.
Lemma s3_enable_pv ms e : same3 e (enable_pv_scoring ms e).
Proof. unfold Search.enable_pv_scoring. destruct (existsb _ _); apply s3_set_flags. Qed.

(* ---- the specifications of the two recursive functions ---- *)
Definition okn (e : env) (r : res) : Prop :=
  match r with
  | OutOfFuel => True
  | Val _ e' =>
    ply e' = ply e /\
    (stopping e = true -> stopping e' = true /\ (ns e' <= ns e + f (ply e))%nat) /\
    (stopping e = false -> (stopping e' = false -> ns e' = ns e) /\ (stopping e' = true -> (ns e' <= ns e + F (ply e))%nat))
  end.
Definition okq (e : env) (r : res) : Prop :=
  match r with OutOfFuel => True | Val _ e' => ply e' = ply e /\ ns e' = ns e /\ (stopping e = true -> stopping e' = true) end.
Definition Pn (rec : pos -> nat -> Z -> Z -> env -> res) : Prop := forall g d a b e, (ply e <= M - 1)%nat -> okn e (rec g d a b e).
Definition Pq (rec : pos -> Z -> Z -> env -> res) : Prop := forall g a b e, okq e (rec g a b e).

Section BodyLemmas.
Variable rec_n : pos -> nat -> Z -> Z -> env -> res.
Variable rec_q : pos -> Z -> Z -> env -> res.
Hypothesis Hn : Pn rec_n.
Hypothesis Hq : Pq rec_q.

Notation after_move := (after_move key mv_cap mv_hidx).
Notation search_move := (search_move mv_cap mv_promo rec_n).
Notation move_phase := (move_phase gen make key mv_eqb mv_cap mv_promo mv_hidx cap_score null_mv rec_n).

Lemma qloop_ok g ms : forall ta b e, okq e (qloop rec_q g ms ta b e).
Proof.
  induction ms as [|m rest IH]; intros ta b e; cbn [Search.qloop].
  - cbn. auto.
  - unfold make_rep. destruct (make g m) as [g'|]; [|apply IH].
    set (e2 := set_ply (rep_insert e (key g')) (S (ply (rep_insert e (key g'))))).
    pose proof (Hq g' (- b)%Z (- ta)%Z e2) as R.
    destruct (rec_q g' (- b)%Z (- ta)%Z e2) as [s e3|]; [|exact I]. cbn [okq] in R. destruct R as (R1 & R2 & R3).
    set (e4 := rep_back (set_ply e3 (pred (ply e3)))).
    assert (X : ply e4 = ply e /\ ns e4 = ns e /\ (stopping e = true -> stopping e4 = true)).
    { subst e4 e2. cbn in *. rewrite R1. cbn. repeat split; [exact R2|exact R3]. }
    destruct X as (X1 & X2 & X3).
    destruct (_ >=? b)%Z; [cbn; auto|].
    pose proof (IH (if (- s >? ta)%Z then (- s)%Z else ta) b e4) as Y.
    destruct (qloop rec_q g rest _ b e4) as [s' e5|]; [|exact I]. cbn [okq] in Y |- *. destruct Y as (Y1 & Y2 & Y3).
    repeat split; [congruence|congruence|intros H; apply Y3; apply X3; exact H].
Qed.

Lemma quiescence_body_ok : Pq (quiescence_body rec_q).
Proof.
  intros g a b e. unfold Search.quiescence_body.
  set (e0 := emit e _). set (e1 := maybe_poll e0). set (e2 := set_nodes e1 (N.succ (nodes e1))).
  assert (X : ply e2 = ply e /\ ns e2 = ns e /\ (stopping e = true -> stopping e2 = true)).
  { destruct (maybe_poll_facts e0) as (P1 & P2 & P3). subst e2 e1. cbn [ply set_nodes stopping]. change (ns (set_nodes (maybe_poll e0) _)) with (ns (maybe_poll e0)).
    rewrite P1, P2. subst e0. rewrite ns_emit. cbn. repeat split; [lia|exact P3]. }
  destruct X as (X1 & X2 & X3).
  destruct (_ || _); [cbn; auto|].
  destruct (_ && _); [cbn; auto|].
  destruct (sort_moves g (gen g false) e2) as [ms e3] eqn:ES.
  pose proof (s3_sort_moves g (gen g false) e2) as S3. rewrite ES in S3. cbn [snd] in S3. destruct S3 as (S1 & S2 & S3).
  pose proof (qloop_ok g ms (if (evalf g >? a)%Z then evalf g else a) b e3) as Y.
  destruct (qloop rec_q g ms _ b e3) as [s' e5|]; [|exact I]. cbn [okq] in Y |- *. destruct Y as (Y1 & Y2 & Y3).
  repeat split; [congruence|congruence|intros H; apply Y3; rewrite S2; apply X3; exact H].
Qed.

(* ---- arithmetic of the two budgets ---- *)
Lemma f_step p : (p < M)%nat -> f p = S (f (S p)).
Proof. unfold f. lia. Qed.
Lemma F_step p : (p < M)%nat -> F p = (F (S p) + 4 * f (S p) + 2)%nat.
Proof. intros L. unfold F, f. replace (M - p)%nat with (S (M - S p)) by lia. generalize (M - S p)%nat. intros x. nia. Qed.

(* ---- case A: the move loop of a node entered while the flag is set ---- *)
Definition LokA (n0 p : nat) (r : lres) : Prop :=
  match r with
  | LRet _ e' | LDone _ e' _ _ => ply e' = p /\ stopping e' = true /\ (ns e' <= n0 + f (S p))%nat
  | LFuel => True
  end.

Lemma after_moveA n0 p g depth m ta b ex searched legal next score e4 :
  ply e4 = S p -> stopping e4 = true -> (ns e4 <= n0 + f (S p))%nat -> LokA n0 p (after_move g depth m ta b ex searched legal next score e4).
Proof.
  intros P ST N. unfold Search.after_move. cbn zeta. change (stopping (set_ply e4 (pred (ply e4)))) with (stopping e4). rewrite ST.
  cbn [LokA]. cbn [ply set_ply stopping]. rewrite P. repeat split; [exact ST|exact N].
Qed.

Lemma nloopA n0 p g depth nd inchk ms : forall legal ta b ex e,
  ply e = p -> (S p <= M - 1)%nat -> stopping e = true -> ns e = n0 -> LokA n0 p (nloop rec_n g depth nd inchk ms 0 legal ta b ex e).
Proof.
  induction ms as [|m rest IH]; intros legal ta b ex e P PM ST N; cbn [Search.nloop].
  - cbn [LokA]. repeat split; [exact P|exact ST|lia].
  - unfold make_rep. destruct (make g m) as [g'|].
    + set (e3 := rep_back (rep_insert (set_ply e (S (ply e))) (key g'))).
      assert (P3 : ply e3 = S p) by (subst e3; cbn; rewrite P; reflexivity).
      assert (ST3 : stopping e3 = true) by exact ST. assert (N3 : ns e3 = n0) by exact N.
      unfold Search.search_move. cbn [Nat.eqb].
      pose proof (Hn g' (nd - 1)%nat (- b)%Z (- ta)%Z e3 ltac:(rewrite P3; exact PM)) as R.
      destruct (rec_n g' (nd - 1)%nat (- b)%Z (- ta)%Z e3) as [s e4|]; cbn [neg_res]; [|exact I].
      cbn [okn] in R. destruct R as (R1 & R2 & _). destruct (R2 ST3) as (R3 & R4).
      apply after_moveA; [congruence|exact R3|rewrite P3, N3 in R4; exact R4].
    + apply IH; [cbn; rewrite P; reflexivity|exact PM|exact ST|exact N].
Qed.

(* ---- case C: the move loop of a node entered before the stop ---- *)
Definition Bud (n0 p j : nat) (e : env) : Prop :=
  ply e = S p /\ (stopping e = false -> ns e = n0) /\ (stopping e = true -> (ns e <= n0 + F (S p) + j * f (S p))%nat).
Definition LokC (n0 p : nat) (r : lres) : Prop :=
  match r with
  | LRet _ e' | LDone _ e' _ _ => ply e' = p /\ (stopping e' = false -> ns e' = n0) /\ (stopping e' = true -> (ns e' <= n0 + F (S p) + 3 * f (S p))%nat)
  | LFuel => True
  end.
Definition NextC (n0 p : nat) (next : nat -> nat -> Z -> bool -> env -> lres) : Prop :=
  forall s l t x e', ply e' = p -> stopping e' = false -> ns e' = n0 -> LokC n0 p (next s l t x e').

Lemma Bud_weaken n0 p j j' e : (j <= j')%nat -> Bud n0 p j e -> Bud n0 p j' e.
Proof. intros L (A & B & C). repeat split; [exact A|exact B|]. intros H. specialize (C H). nia. Qed.

Lemma callC n0 p j g' d a b e : (S p <= M - 1)%nat -> Bud n0 p j e ->
  match rec_n g' d a b e with Val _ e' => Bud n0 p (S j) e' | OutOfFuel => True end.
Proof.
  intros PM (A & B & C). pose proof (Hn g' d a b e ltac:(rewrite A; exact PM)) as R.
  destruct (rec_n g' d a b e) as [s e'|]; [|exact I]. cbn [okn] in R. destruct R as (R1 & R2 & R3).
  unfold Bud. split; [congruence|]. destruct (stopping e) eqn:ST.
  - destruct (R2 eq_refl) as (S1 & S2). specialize (C eq_refl). rewrite A in S2. split; [intros X; congruence|intros _; lia].
  - destruct (R3 eq_refl) as (S1 & S2). specialize (B eq_refl). rewrite A in S2. split; [intros X; rewrite (S1 X); exact B|intros X; specialize (S2 X); lia].
Qed.

Lemma after_moveC n0 p g depth m ta b ex searched legal next score e4 :
  NextC n0 p next -> Bud n0 p 3 e4 -> LokC n0 p (after_move g depth m ta b ex searched legal next score e4).
Proof.
  intros HN (A & B & C). unfold Search.after_move. cbn zeta.
  set (e5 := set_ply e4 (pred (ply e4))).
  assert (P5 : ply e5 = p) by (subst e5; cbn; rewrite A; reflexivity).
  change (stopping e5) with (stopping e4). destruct (stopping e4) eqn:ST.
  - cbn [LokC]. split; [exact P5|]. split; [intros X; change (stopping e5) with (stopping e4) in X; congruence|intros _; apply C; reflexivity].
  - specialize (B eq_refl). assert (N5 : ns e5 = n0) by exact B. assert (ST5 : stopping e5 = false) by exact ST.
    destruct (score >? ta)%Z; [|apply HN; assumption].
    set (e6 := insert_pv e5 m). destruct (s3_insert_pv e5 m) as (I1 & I2 & I3). fold e6 in I1, I2, I3.
    destruct (score >=? b)%Z.
    + assert (FIN : forall e7, same3 e6 e7 -> forall t ev, isN ev = false -> LokC n0 p (LRet b (set_tbl (emit e7 ev) t))).
      { intros e7 (J1 & J2 & J3) t ev NE. destruct (s3_trans _ _ _ (s3_emit e7 ev NE) (s3_set_tbl (emit e7 ev) t)) as (K1 & K2 & K3).
        cbn [LokC]. split; [congruence|]. split; [intros _; congruence|intros X; congruence]. }
      destruct (mv_cap m); [apply (FIN e6 (s3_refl e6)); reflexivity|apply (FIN _ (s3_set_killers e6 _ _)); reflexivity].
    + assert (E7 : forall e7, same3 e6 e7 -> ply e7 = p /\ stopping e7 = false /\ ns e7 = n0) by (intros e7 (J1 & J2 & J3); repeat split; congruence).
      destruct (mv_cap m); [destruct (E7 e6 (s3_refl e6)) as (X1 & X2 & X3)|destruct (E7 _ (s3_set_history e6 (updl (history e6) (mv_hidx m) (nth (mv_hidx m) (history e6) 0%Z + Z.of_nat depth)%Z))) as (X1 & X2 & X3)]; apply HN; assumption.
Qed.

Lemma search_moveC n0 p g' depth nd inchk m searched ta b e3 after :
  (S p <= M - 1)%nat -> Bud n0 p 0 e3 -> (forall s e4, Bud n0 p 3 e4 -> LokC n0 p (after s e4)) ->
  LokC n0 p (search_move g' depth nd inchk m searched ta b e3 after).
Proof.
  intros PM B0 HA. unfold Search.search_move.
  assert (STEP : forall j d' a' b' ex k, Bud n0 p j ex -> (forall s e4, Bud n0 p (S j) e4 -> LokC n0 p (k s e4)) -> LokC n0 p (neg_res (rec_n g' d' a' b' ex) k)).
  { intros j d' a' b' ex k BX K. pose proof (callC n0 p j g' d' a' b' ex PM BX) as R.
    destruct (rec_n g' d' a' b' ex) as [s e4|]; cbn [neg_res]; [|exact I]. apply K. exact R. }
  assert (HA' : forall j s e4, (j <= 3)%nat -> Bud n0 p j e4 -> LokC n0 p (after s e4)) by (intros j s e4 L BX; apply HA; apply (Bud_weaken n0 p j 3 e4 L BX)).
  destruct (Nat.eqb searched 0).
  - apply (STEP 0%nat); [exact B0|]. intros s e4 BX. apply (HA' 1%nat); [lia|exact BX].
  - cbn zeta.
    assert (HP : forall j s1 e', (j <= 1)%nat -> Bud n0 p j e' ->
      LokC n0 p (if (s1 >? ta)%Z then
          neg_res (rec_n g' (nd - 1)%nat (- ta - 1)%Z (- ta)%Z e')
            (fun s2 e'' => if (s2 >? ta)%Z && (s2 <? b)%Z
                           then neg_res (rec_n g' (nd - 1)%nat (- b)%Z (- ta)%Z e'') after
                           else after s2 e'')
        else after s1 e')).
    { intros j s1 e' L BX. destruct (s1 >? ta)%Z; [|apply (HA' j); [lia|exact BX]].
      apply (STEP j); [exact BX|]. intros s2 e'' BX2. destruct (_ && _); [|apply (HA' (S j)); [lia|exact BX2]].
      apply (STEP (S j)); [exact BX2|]. intros s3 e''' BX3. apply (HA' (S (S j))); [lia|exact BX3]. }
    destruct (_ && _ && _ && _ && _).
    + apply (STEP 0%nat); [exact B0|]. intros s1 e' BX. apply (HP 1%nat); [lia|exact BX].
    + apply (HP 0%nat); [lia|exact B0].
Qed.

Lemma nloopC n0 p g depth nd inchk ms : forall searched legal ta b ex e,
  ply e = p -> (S p <= M - 1)%nat -> stopping e = false -> ns e = n0 -> LokC n0 p (nloop rec_n g depth nd inchk ms searched legal ta b ex e).
Proof.
  induction ms as [|m rest IH]; intros searched legal ta b ex e P PM ST N; cbn [Search.nloop].
  - cbn [LokC]. repeat split; [exact P|intros _; exact N|intros X; congruence].
  - unfold make_rep. destruct (make g m) as [g'|].
    + set (e3 := rep_back (rep_insert (set_ply e (S (ply e))) (key g'))).
      assert (B3 : Bud n0 p 0 e3).
      { unfold Bud. subst e3. cbn [ply rep_back rep_insert set_rep set_ply]. rewrite P. split; [reflexivity|]. split; [intros _; exact N|intros X; change (stopping e = true) in X; congruence]. }
      apply search_moveC; [exact PM|exact B3|].
      intros s e4 B4. apply after_moveC; [|exact B4].
      intros s' l t x e' P' ST' N'. apply IH; assumption.
    + apply IH; [cbn; rewrite P; reflexivity|exact PM|exact ST|exact N].
Qed.

(* ---- move_phase ---- *)
Definition okmp (e : env) (p : nat) (r : res) : Prop :=
  match r with
  | OutOfFuel => True
  | Val _ e' =>
    ply e' = p /\
    (stopping e = true -> stopping e' = true /\ (ns e' <= ns e + f (S p))%nat) /\
    (stopping e = false -> (stopping e' = false -> ns e' = ns e) /\ (stopping e' = true -> (ns e' <= ns e + F (S p) + 3 * f (S p))%nat))
  end.

Lemma move_phase_ok g depth nd inchk a b e p : ply e = p -> (S p <= M - 1)%nat -> okmp e p (move_phase g depth nd inchk a b e).
Proof.
  intros P PM. unfold Search.move_phase. cbn zeta.
  set (ms0 := gen g true).
  set (ey := if follow_pv e then enable_pv_scoring ms0 e else e).
  assert (SY : same3 e ey) by (subst ey; destruct (follow_pv e); [apply s3_enable_pv|apply s3_refl]).
  destruct (sort_moves g ms0 ey) as [ms ez] eqn:ES.
  pose proof (s3_sort_moves g ms0 ey) as SZ0. rewrite ES in SZ0. cbn [snd] in SZ0. pose proof (s3_trans _ _ _ SY SZ0) as (Z1 & Z2 & Z3).
  assert (FINV : forall e7 ev, isN ev = false -> same3 e7 (emit e7 ev)) by (intros; apply s3_emit; assumption).
  destruct (stopping e) eqn:ST.
  - pose proof (nloopA (ns e) p g depth nd inchk ms 0 a b false ez ltac:(congruence) PM ltac:(congruence) Z3) as L.
    destruct (nloop rec_n g depth nd inchk ms 0 0 a b false ez) as [s ew|ta ew legal exa|]; cbn [LokA] in L; [| |exact I].
    + destruct L as (L1 & L2 & L3). cbn [okmp]. split; [exact L1|]. split; [intros _; split; assumption|intros X; congruence].
    + destruct L as (L1 & L2 & L3). destruct (Nat.eqb legal 0).
      * destruct (FINV ew (EVerdict inchk (ply ew)) eq_refl) as (K1 & K2 & K3).
        destruct inchk; cbn [okmp]; (split; [congruence|]; split; [intros _; split; [congruence|lia]|intros X; congruence]).
      * match goal with |- okmp _ _ (Val _ (set_tbl (emit ew ?ev) ?t)) => destruct (s3_trans _ _ _ (FINV ew ev eq_refl) (s3_set_tbl (emit ew ev) t)) as (K1 & K2 & K3) end.
        cbn [okmp]. split; [congruence|]. split; [intros _; split; [congruence|lia]|intros X; congruence].
  - pose proof (nloopC (ns e) p g depth nd inchk ms 0 0 a b false ez ltac:(congruence) PM ltac:(congruence) Z3) as L.
    destruct (nloop rec_n g depth nd inchk ms 0 0 a b false ez) as [s ew|ta ew legal exa|]; cbn [LokC] in L; [| |exact I].
    + destruct L as (L1 & L2 & L3). cbn [okmp]. split; [exact L1|]. split; [intros X; congruence|intros _; split; assumption].
    + destruct L as (L1 & L2 & L3). destruct (Nat.eqb legal 0).
      * destruct (FINV ew (EVerdict inchk (ply ew)) eq_refl) as (K1 & K2 & K3).
        destruct inchk; cbn [okmp]; (split; [congruence|]; split; [intros X; congruence|intros _; split; intros X; rewrite K3; [apply L2|apply L3]; congruence]).
      * match goal with |- okmp _ _ (Val _ (set_tbl (emit ew ?ev) ?t)) => destruct (s3_trans _ _ _ (FINV ew ev eq_refl) (s3_set_tbl (emit ew ev) t)) as (K1 & K2 & K3) end.
        cbn [okmp]. split; [congruence|]. split; [intros X; congruence|intros _; split; intros X; rewrite K3; [apply L2|apply L3]; congruence].
Qed.

(* ---- one node ---- *)
Lemma negamax_body_ok : Pn (negamax_body rec_n rec_q).
Proof.
  intros g d a b e PB. unfold Search.negamax_body.
  set (p := ply e) in *.
  set (e0 := emit e _).
  assert (N0 : ns e0 = (ns e + (if stopping e then 1 else 0))%nat) by (subst e0; rewrite ns_emit; cbn [isN]; destruct (stopping e); reflexivity).
  assert (P0 : ply e0 = p) by reflexivity. assert (S0 : stopping e0 = stopping e) by reflexivity.
  assert (F1 : (1 <= f p)%nat) by (unfold f; pose proof M_pos; lia).
  (* a node that returns at once *)
  assert (QUICK : forall e', same3 e0 e' -> forall s, okn e (Val s e')).
  { intros e' (J1 & J2 & J3) s. cbn [okn]. fold p. split; [congruence|]. split.
    - intros ST. rewrite ST in N0. split; [congruence|lia].
    - intros ST. rewrite ST in N0. split; [intros _; lia|intros X; congruence]. }
  destruct (_ && rep_hit e0 (key g)).
  { apply QUICK. eapply s3_trans; [apply s3_set_pv|apply s3_emit; reflexivity]. }
  match goal with |- context [match ?X with Some _ => _ | None => _ end] => destruct X end.
  { apply QUICK. eapply s3_trans; [apply s3_set_hits|apply s3_emit; reflexivity]. }
  set (e1 := set_pv e0 _ _).
  destruct (Nat.leb (MAXPLY - 1) (ply e1)) eqn:LG; [apply QUICK; apply s3_set_pv|].
  apply Nat.leb_gt in LG. change (ply e1) with p in LG. assert (PM : (S p <= M - 1)%nat) by (unfold M; lia).
  set (e2 := maybe_poll e1). destruct (maybe_poll_facts e1) as (Q1 & Q2 & Q3). fold e2 in Q1, Q2, Q3.
  change (ply e1) with p in Q1. change (ns e1) with (ns e0) in Q2. change (stopping e1) with (stopping e) in Q3.
  pose proof (f_step p ltac:(unfold M in *; lia)) as FS. pose proof (F_step p ltac:(unfold M in *; lia)) as FFS.
  destruct (_ || _).
  { (* the horizon: quiescence *)
    pose proof (Hq g a b e2) as R. destruct (rec_q g a b e2) as [s e'|]; [|exact I]. cbn [okq] in R. destruct R as (R1 & R2 & R3).
    cbn [okn]. fold p. split; [congruence|]. split.
    - intros ST. rewrite ST in N0. split; [apply R3; apply Q3; exact ST|lia].
    - intros ST. rewrite ST in N0. split; intros _; lia. }
  set (e3 := set_nodes e2 _).
  assert (P3 : ply e3 = p) by exact Q1. assert (N3 : ns e3 = ns e0) by exact Q2. assert (S3 : stopping e3 = stopping e2) by reflexivity.
  set (inchk := in_check g). set (nd := if inchk then S d else d).
  (* what move_phase gives, started from e3 or from an environment that agrees with it *)
  assert (MP : forall ex, ply ex = p -> okmp ex p (move_phase g d nd inchk a b ex)) by (intros ex PX; apply move_phase_ok; assumption).
  destruct (_ && _ && _).
  - (* null move first *)
    set (e4 := set_ply e3 (S (ply e3))).
    assert (P4 : ply e4 = S p) by (subst e4; cbn [ply set_ply]; rewrite P3; reflexivity).
    pose proof (Hn (null g) (nd - 3)%nat (- b)%Z (- b + 1)%Z e4 ltac:(rewrite P4; exact PM)) as R.
    destruct (rec_n (null g) _ _ _ e4) as [s e5|]; [|exact I]. cbn [okn] in R. destruct R as (R1 & R2 & R3).
    rewrite P4 in R1, R2, R3. change (stopping e4) with (stopping e2) in R2, R3. change (ns e4) with (ns e3) in R2, R3. rewrite N3 in R2, R3.
    set (e6 := set_ply e5 (pred (ply e5))).
    assert (P6 : ply e6 = p) by (subst e6; cbn [ply set_ply]; rewrite R1; reflexivity).
    change (stopping e6) with (stopping e5). 
    destruct (stopping e) eqn:ST.
    + (* entered while stopping *)
      rewrite (Q3 eq_refl) in R2. destruct (R2 eq_refl) as (T1 & T2). rewrite T1. cbn [okn]. fold p. rewrite ST.
      split; [exact P6|]. split; [intros _; split; [exact T1|change (ns e6) with (ns e5); lia]|intros X; discriminate X].
    + destruct (stopping e2) eqn:ST2.
      * (* the stop was seen by this node's own poll *)
        destruct (R2 eq_refl) as (T1 & T2). rewrite T1. cbn [okn]. fold p. rewrite ST.
        split; [exact P6|]. split; [intros X; discriminate X|intros _; split; [intros X; change (stopping e6) with (stopping e5) in X; congruence|intros _; change (ns e6) with (ns e5); lia]].
      * destruct (R3 eq_refl) as (T1 & T2). destruct (stopping e5) eqn:ST5.
        -- cbn [okn]. fold p. rewrite ST. split; [exact P6|]. split; [intros X; discriminate X|].
           intros _; split; [intros X; change (stopping e6) with (stopping e5) in X; congruence|intros _; change (ns e6) with (ns e5); specialize (T2 eq_refl); lia].
        -- specialize (T1 eq_refl). destruct (_ >=? b)%Z.
           ++ cbn [okn]. fold p. rewrite ST. split; [exact P6|]. split; [intros X; discriminate X|].
              intros _; split; [intros _; change (ns e6) with (ns e5); lia|intros X; change (stopping e6) with (stopping e5) in X; congruence].
           ++ pose proof (MP e6 P6) as Y. destruct (move_phase g d nd inchk a b e6) as [s' e'|]; [|exact I]. cbn [okmp] in Y. destruct Y as (Y1 & Y2 & Y3).
              change (stopping e6) with (stopping e5) in Y2, Y3. rewrite ST5 in Y2, Y3. destruct (Y3 eq_refl) as (U1 & U2). change (ns e6) with (ns e5) in U1, U2.
              cbn [okn]. fold p. rewrite ST. split; [exact Y1|]. split; [intros X; discriminate X|].
              intros _; split; [intros X; rewrite (U1 X); lia|intros X; specialize (U2 X); lia].
  - pose proof (MP e3 P3) as Y. destruct (move_phase g d nd inchk a b e3) as [s' e'|]; [|exact I]. cbn [okmp] in Y. destruct Y as (Y1 & Y2 & Y3).
    rewrite S3 in Y2, Y3. rewrite N3 in Y2, Y3. cbn [okn]. fold p. split; [exact Y1|]. destruct (stopping e) eqn:ST.
    + rewrite (Q3 eq_refl) in Y2. destruct (Y2 eq_refl) as (T1 & T2). split; [intros _; split; [exact T1|lia]|intros X; discriminate X].
    + split; [intros X; discriminate X|]. intros _. destruct (stopping e2) eqn:ST2.
      * destruct (Y2 eq_refl) as (T1 & T2). split; [intros X; congruence|intros _; lia].
      * destruct (Y3 eq_refl) as (T1 & T2). split; [intros X; rewrite (T1 X); lia|intros X; specialize (T2 X); lia].
Qed.
End BodyLemmas.

Theorem search_prompt_inv : forall fuel, Pn (negamax fuel) /\ Pq (quiescence fuel).
Proof.
  induction fuel as [|fu [IHn IHq]].
  - split; [intros g d a b e H|intros g a b e]; exact I.
  - split.
    + apply negamax_body_ok; assumption.
    + apply quiescence_body_ok; assumption.
Qed.

Notation id_loop := (id_loop gen make null evalf in_check key half100 mv_eqb mv_cap mv_promo mv_hidx cap_score null_mv legalb pollp stop_at tt_bypass).
Notation search := (search gen make null evalf in_check key half100 mv_eqb mv_cap mv_promo mv_hidx cap_score null_mv legalb pollp stop_at tt_bypass).

(* between iterations: at the root, not stopped, nothing counted yet *)
Definition Root (e : env) : Prop := ply e = O /\ stopping e = false /\ ns e = O.
Definition sres_ok (r : sres pos move) : Prop := match r with SDone _ e' _ => (ns e' <= F 0)%nat | SFuel => True end.

Lemma id_loop_ok iters : forall g cur maxd a b sc e outs, Root e -> sres_ok (id_loop iters g cur maxd a b sc e outs).
Proof.
  induction iters as [|it IH]; intros g cur maxd a b sc e outs (R1 & R2 & R3); cbn [Search.id_loop].
  - cbn. lia.
  - destruct (Nat.ltb maxd cur); [cbn; lia|].
    set (e0 := set_flags e true (score_pv e)).
    pose proof (proj1 (search_prompt_inv FUEL) g cur a b e0 ltac:(change (ply e0) with (ply e); rewrite R1; lia)) as R.
    destruct (negamax FUEL g cur a b e0) as [s e1|]; [|exact I]. cbn [okn] in R. destruct R as (Q1 & _ & Q3).
    change (stopping e0) with (stopping e) in Q3. change (ns e0) with (ns e) in Q3. change (ply e0) with (ply e) in Q1, Q3. rewrite R1, R3 in Q3. destruct (Q3 R2) as (T1 & T2).
    destruct (stopping e1) eqn:ST.
    + cbn [sres_ok]. specialize (T2 eq_refl). lia.
    + assert (RR : Root e1) by (repeat split; [congruence|exact ST|apply T1; reflexivity]).
      destruct (_ || _); apply IH; exact RR.
Qed.

(* the whole search: at most 2 * MAX_PLY^2 nodes of the main search are entered after the stop has been observed *)
Theorem search_prompt g depth t rt ri :
  match search g depth t rt ri with
  | SDone _ e _ => (length (filter isN (trace e)) <= 2 * MAXPLY * MAXPLY)%nat
  | SFuel => True
  end.
Proof.
  unfold Search.search.
  pose proof (id_loop_ok (S (max_depth_of depth)) g 1 (max_depth_of depth) (- INFINITY)%Z INFINITY 0%Z
                (@init_env pos move null_mv t rt ri) [] ltac:(repeat split)) as H.
  destruct (id_loop _ g 1 _ _ _ _ _ []) as [outs e s|]; [|exact I]. cbn [sres_ok] in H. unfold F, M in H. rewrite Nat.sub_0_r in H. exact H.
Qed.

End Frame.
