(* the executable invariant implies the invariant of Proofs/LegalInv.v *)
From Coq Require Import NArith ZArith List Bool Lia.
From JV Require Import Gen.Consts Model.Bits Model.Chess Model.Abs Proofs.BitboardProofs Proofs.MoveGenProofs Proofs.ZobristProofs Proofs.KeyProofs
  Proofs.GenProofs Proofs.ConsProofs Proofs.GenOk Proofs.KingsProofs Proofs.RangeProofs Proofs.NkProofs Proofs.LegalInv.
Import ListNotations.
Local Open Scope N_scope.

Lemma lt_pow2_bits b n s : b < 2 ^ n -> n <= s -> N.testbit b s = false.
Proof. intros L LE. rewrite <- (N.mod_small b (2 ^ n) L). apply N.mod_pow2_bits_high. exact LE. Qed.

Lemma single_of_length b : length (bits_of b) = 1%nat -> single b.
Proof.
  intros L. destruct (bits_of b) as [|k [|y r]] eqn:E; try discriminate. exists k. intros s.
  unfold tb. rewrite <- bits_of_spec, E. cbn. split; [intros [X|[]]; congruence|intros ->; left; reflexivity].
Qed.

Lemma in_pieces12 p : p < 12 -> In p PIECES12.
Proof. apply PIECES_in. Qed.

Ltac split_andb H := repeat (let X := fresh "B" in apply andb_true_iff in H; destruct H as [H X]).

Theorem legal_inv_b_sound g : legal_inv_b g = true -> legal_inv g.
Proof.
  unfold legal_inv_b. cbn zeta. intros H.
  apply andb_true_iff in H. destruct H as [H KEY]. apply andb_true_iff in H. destruct H as [H NKb].
  apply andb_true_iff in H. destruct H as [H RWP]. apply andb_true_iff in H. destruct H as [H RBP]. apply andb_true_iff in H. destruct H as [H RG].
  apply andb_true_iff in H. destruct H as [H KB]. apply andb_true_iff in H. destruct H as [H KW].
  apply andb_true_iff in H. destruct H as [H EP]. apply andb_true_iff in H. destruct H as [H Cq].
  apply andb_true_iff in H. destruct H as [H Ck]. apply andb_true_iff in H. destruct H as [H CQ].
  apply andb_true_iff in H. destruct H as [H CK]. apply andb_true_iff in H. destruct H as [H AO].
  apply andb_true_iff in H. destruct H as [H BO]. apply andb_true_iff in H. destruct H as [H WO].
  apply andb_true_iff in H. destruct H as [H DISJ].
  apply Nat.eqb_eq in H. rewrite forallb_forall in DISJ.
  apply N.eqb_eq in WO, BO, AO, KEY.
  assert (CONS : cons g).
  { constructor.
    - exact H.
    - intros p q s P Q NE T. specialize (DISJ p (in_pieces12 p P)). rewrite forallb_forall in DISJ. specialize (DISJ q (in_pieces12 q Q)).
      apply orb_true_iff in DISJ. destruct DISJ as [X|X]; [apply N.eqb_eq in X; contradiction|]. apply N.eqb_eq in X.
      rewrite N.land_comm in X. exact (land_zero _ _ s X T).
    - intros s. rewrite WO. unfold tb. rewrite !N.lor_spec. split.
      + intros X. repeat (apply orb_true_iff in X; destruct X as [X|X]);
          [exists 0|exists 1|exists 2|exists 3|exists 4|exists 5]; (split; [reflexivity|exact X]).
      + intros (p & P & T). assert (p = 0 \/ p = 1 \/ p = 2 \/ p = 3 \/ p = 4 \/ p = 5) as Y by lia.
        destruct Y as [-> | [-> | [-> | [-> | [-> | ->]]]]]; unfold tb in T; rewrite T; rewrite ?orb_true_r; reflexivity.
    - intros s. rewrite BO. unfold tb. rewrite !N.lor_spec. split.
      + intros X. repeat (apply orb_true_iff in X; destruct X as [X|X]);
          [exists 6|exists 7|exists 8|exists 9|exists 10|exists 11]; (split; [lia|exact X]).
      + intros (p & P & T). assert (p = 6 \/ p = 7 \/ p = 8 \/ p = 9 \/ p = 10 \/ p = 11) as Y by lia.
        destruct Y as [-> | [-> | [-> | [-> | [-> | ->]]]]]; unfold tb in T; rewrite T; rewrite ?orb_true_r; reflexivity.
    - intros s. rewrite AO. unfold tb. apply N.lor_spec.
    - intros T. unfold tb in T. rewrite T in CK. cbn in CK. apply andb_true_iff in CK. exact CK.
    - intros T. unfold tb in T. rewrite T in CQ. cbn in CQ. apply andb_true_iff in CQ. exact CQ.
    - intros T. unfold tb in T. rewrite T in Ck. cbn in Ck. apply andb_true_iff in Ck. exact Ck.
    - intros T. unfold tb in T. rewrite T in Cq. cbn in Cq. apply andb_true_iff in Cq. exact Cq.
    - intros NE. apply orb_true_iff in EP. destruct EP as [X|X]; [apply N.eqb_eq in X; contradiction|].
      apply andb_true_iff in X. destruct X as [X _]. apply andb_true_iff in X. destruct X as [X _]. apply andb_true_iff in X. destruct X as [X1 X2]. apply negb_true_iff in X1.
      split; [exact X1|exact X2]. }
  split; [exact CONS|].
  split; [split; apply single_of_length; apply Nat.eqb_eq; assumption|].
  split.
  { constructor.
    - intros p s P T. rewrite forallb_forall in RG. specialize (RG p (in_pieces12 p P)). apply N.ltb_lt in RG.
      destruct (N.lt_ge_cases s 64) as [L|G]; [exact L|]. unfold tb in T. rewrite (lt_pow2_bits _ 64 s RG G) in T. discriminate.
    - intros s T. apply N.ltb_lt in RBP. destruct (N.lt_ge_cases s 56) as [L|G]; [exact L|]. unfold tb in T. rewrite (lt_pow2_bits _ 56 s RBP G) in T. discriminate.
    - intros s T. apply N.eqb_eq in RWP. destruct (N.le_gt_cases 8 s) as [L|G]; [exact L|]. exfalso.
      assert (X : tb 255 s = true) by (change 255 with (N.ones 8); unfold tb; apply N.ones_spec_low; exact G).
      rewrite N.land_comm in RWP. pose proof (land_zero _ _ s RWP T). congruence.
    - intros NE. apply orb_true_iff in EP. destruct EP as [X|X]; [apply N.eqb_eq in X; contradiction|].
      apply andb_true_iff in X. destruct X as [X X8]. apply andb_true_iff in X. destruct X as [_ X]. apply N.ltb_lt in X. apply N.leb_le in X8. split; assumption. }
  split; [unfold nk; apply negb_true_iff in NKb; exact NKb|exact KEY].
Qed.
Print Assumptions legal_inv_b_sound.
