(* C14 (part): perft is insensitive to (a) the order and bracketing in which the per-move counts are added up
   (rayon's map().sum() = some reduction tree over some order), and (b) which legality path is used at which depth. *)
From Coq Require Import NArith List Bool Lia Permutation.
From JV Require Import Model.Chess Proofs.MoveGenProofs.
Import ListNotations.
Local Open Scope N_scope.

(* a reduction schedule: any binary tree whose leaves are the per-move results *)
Inductive rtree := Leaf (x : N) | Node (l r : rtree) | Empty.
Fixpoint leaves (t : rtree) : list N := match t with Leaf x => [x] | Node l r => leaves l ++ leaves r | Empty => [] end.
Fixpoint reduce (t : rtree) : N := match t with Leaf x => x | Node l r => reduce l + reduce r | Empty => 0 end.
Definition sumN (l : list N) : N := fold_left N.add l 0.

Lemma fold_add_acc l : forall a, fold_left N.add l a = a + fold_left N.add l 0.
Proof. induction l as [|x l IH]; intros a; cbn [fold_left]; [lia|]. rewrite IH, (IH (0 + x)). lia. Qed.
Lemma sumN_app a b : sumN (a ++ b) = sumN a + sumN b.
Proof. unfold sumN. rewrite fold_left_app, fold_add_acc. reflexivity. Qed.
Lemma sumN_cons x l : sumN (x :: l) = x + sumN l.
Proof. unfold sumN. cbn [fold_left]. rewrite fold_add_acc. lia. Qed.
Lemma sumN_perm l l' : Permutation l l' -> sumN l = sumN l'.
Proof. induction 1; rewrite ?sumN_cons in *; lia. Qed.
Lemma reduce_leaves t : reduce t = sumN (leaves t).
Proof. induction t; cbn [reduce leaves]; rewrite ?sumN_app; try lia; unfold sumN; cbn; lia. Qed.

(* every schedule (tree shape and leaf order) over the same multiset of per-move counts gives the sequential sum *)
Theorem any_schedule_same_sum t counts : Permutation (leaves t) counts -> reduce t = sumN counts.
Proof. intros P. rewrite reduce_leaves. apply sumN_perm. exact P. Qed.

(* per-move counts of perft at depth >= 2, in generation order *)
Definition sub_count (k : nat) (g : game) (m : move) : N :=
  match make_search_move g m with Made g' => perft k g' | _ => 0 end.

Lemma perft_as_sum k g : perft (S (S k)) g = sumN (map (sub_count (S k) g) (generate_moves g true)).
Proof.
  change (perft (S (S k)) g) with
    (fold_left (fun acc m => match make_search_move g m with Made g' => acc + perft (S k) g' | _ => acc end) (generate_moves g true) 0).
  unfold sumN. generalize (generate_moves g true). intros l. generalize 0.
  induction l as [|m l IH]; intros a; cbn [fold_left map]; [reflexivity|].
  rewrite IH. f_equal. unfold sub_count. destruct (make_search_move g m); lia.
Qed.

Theorem perft_any_schedule k g t :
  Permutation (leaves t) (map (sub_count (S k) g) (generate_moves g true)) -> reduce t = perft (S (S k)) g.
Proof. intros P. rewrite perft_as_sum. apply any_schedule_same_sum. exact P. Qed.

(* depth 1 by the make path equals the bulk count by is_legal *)
Lemma length_filter_count {A} (f : A -> bool) l : N.of_nat (length (filter f l)) = sumN (map (fun x => if f x then 1 else 0) l).
Proof.
  induction l as [|x l IH]; [reflexivity|]. cbn [filter map]. rewrite sumN_cons. destruct (f x); cbn [length]; lia.
Qed.
Theorem perft1_by_make g :
  perft 1 g = N.of_nat (length (filter (made g) (generate_moves g true))).
Proof. cbn [perft]. unfold bulk_count. rewrite legality_paths_agree. reflexivity. Qed.
