(* C01, the full statement: for every position satisfying the invariant, the moves the model treats as legal -- the generated
   moves filtered by is_legal, or those make_search_move accepts -- are exactly the legal moves of the rules, without duplicates;
   the capture-only generator filtered the same way yields exactly the legal captures. *)
From Coq Require Import NArith ZArith List Bool Lia.
From JV Require Import Gen.Consts Spec.Rays Model.Bits Model.Chess Model.Abs Model.SearchChess Spec.ChessSpec Proofs.BitsProofs Proofs.BitboardProofs
  Proofs.MoveGenProofs Proofs.MakeProofs Proofs.ZobristProofs Proofs.KeyProofs Proofs.GenProofs Proofs.ConsProofs Proofs.GenOk Proofs.KingsProofs
  Proofs.RangeProofs Proofs.NkProofs Proofs.LegalInv Proofs.CellProofs Proofs.AbsBase Proofs.AbsGeo Proofs.GenGeo Proofs.AbsMake Proofs.AttackSym
  Proofs.AttackSpec Proofs.GenPseudo Proofs.Soundness Proofs.Rejected Proofs.Complete Proofs.NoDupGen Proofs.UmoveInj.
Import ListNotations.
Local Open Scope N_scope.

(* ---- the capture-only list is the all-moves list restricted to captures, in the same order ---- *)
Lemma filter_flat_map {A B} (P : B -> bool) (F : A -> list B) l : filter P (flat_map F l) = flat_map (fun x => filter P (F x)) l.
Proof. induction l as [|a l IH]; [reflexivity|]. cbn [flat_map]. rewrite filter_app, IH. reflexivity. Qed.
Lemma filter_map_true {A B} (P : B -> bool) (h : A -> B) l : (forall a, P (h a) = true) -> filter P (map h l) = map h l.
Proof. intros E. induction l as [|a l IH]; [reflexivity|]. cbn [map filter]. rewrite E, IH. reflexivity. Qed.
Lemma filter_map_false {A B} (P : B -> bool) (h : A -> B) l : (forall a, P (h a) = false) -> filter P (map h l) = [].
Proof. intros E. induction l as [|a l IH]; [reflexivity|]. cbn [map filter]. rewrite E, IH. reflexivity. Qed.
Lemma flat_map_ext' {A B} (F G : A -> list B) l : (forall a, F a = G a) -> flat_map F l = flat_map G l.
Proof. intros E. induction l as [|a l IH]; [reflexivity|]. cbn [flat_map]. rewrite E, IH. reflexivity. Qed.

Section Q.
Variable g : game.
Lemma piece_moves_q opp p att : filter mcap (piece_moves g true opp p att) = piece_moves g false opp p att.
Proof.
  unfold piece_moves. rewrite filter_flat_map. apply flat_map_ext'. intros f. rewrite filter_app.
  rewrite (filter_map_false mcap) by reflexivity. rewrite (filter_map_true mcap) by reflexivity. reflexivity.
Qed.
Lemma castle_q right mask ksq cross bw t king : filter mcap (castle_move g true right mask ksq cross bw t king) = castle_move g false right mask ksq cross bw t king.
Proof. unfold castle_move. cbn [andb]. destruct (_ && _); reflexivity. Qed.
Lemma wp_q f : filter mcap (white_pawn_moves g true f) = white_pawn_moves g false f.
Proof.
  unfold white_pawn_moves. cbn zeta. cbn [andb]. rewrite !filter_app. f_equal; [|f_equal].
  - destruct (negb (get_bit (aocc g) (f - 8))); [|reflexivity]. destruct (8 <=? f - 8); [|reflexivity]. destruct (_ && _); reflexivity.
  - destruct (_ && _); reflexivity.
  - rewrite filter_flat_map. apply flat_map_ext'. intros t. destruct (8 <=? t); reflexivity.
Qed.
Lemma bp_q f : filter mcap (black_pawn_moves g true f) = black_pawn_moves g false f.
Proof.
  unfold black_pawn_moves. cbn zeta. cbn [andb]. rewrite !filter_app. f_equal; [|f_equal].
  - destruct (negb (get_bit (aocc g) (f + 8))); [|reflexivity]. destruct (f + 8 <=? 55); [|reflexivity]. destruct (_ && _); reflexivity.
  - destruct (_ && _); reflexivity.
  - rewrite filter_flat_map. apply flat_map_ext'. intros t. destruct (t <=? 55); reflexivity.
Qed.
Theorem quiescence_list : generate_moves g false = filter mcap (generate_moves g true).
Proof.
  unfold generate_moves. destruct (white g); rewrite !filter_app, filter_flat_map, !piece_moves_q, !castle_q; f_equal; apply flat_map_ext'; intros f; symmetry; [apply wp_q|apply bp_q].
Qed.
End Q.

(* ---- a legal move of the rules is generated and accepted ---- *)
Theorem legal_is_accepted g sm : legal_inv g -> legalb (abs g) sm = true ->
  exists m g', In m (generate_moves g true) /\ umove m = sm /\ make_search_move g m = Made g'.
Proof.
  intros LI L. unfold legalb in L. apply andb_true_iff in L. destruct L as [PS NC]. apply negb_true_iff in NC.
  destruct LI as (C & KG & R & NK & KO).
  destruct (pseudo_generated g sm C R PS) as (m & HI & E).
  destruct (make_verdict g true m (conj C (conj KG (conj R (conj NK KO)))) HI) as [(g' & M)|(_ & IC)].
  - exists m, g'. auto.
  - exfalso. rewrite E in IC. rewrite (stm_abs g) in NC. congruence.
Qed.

Lemma is_legal_accepts g all m : In m (generate_moves g all) -> legal_inv g -> (is_legal g m = true <-> exists g', make_search_move g m = Made g').
Proof.
  intros HI LI. pose proof (generated_flag_ok g all) as FL. rewrite forallb_forall in FL. rewrite (is_legal_made g m (FL m HI)). unfold made.
  destruct (make_verdict g all m LI HI) as [(g' & M)|(M & _)]; rewrite M; split; intros X; try reflexivity; try discriminate; [exists g'; reflexivity|destruct X as (? & X); discriminate X].
Qed.

(* the moves treated as legal = the legal moves of the rules, as sets *)
Theorem legal_set_exact g sm : legal_inv g -> (In sm (map umove (legal_values g (generate_moves g true))) <-> In sm (ChessSpec.legal_moves (abs g))).
Proof.
  intros LI. split.
  - intros H. apply in_map_iff in H. destruct H as (m & <- & H). unfold legal_values in H. apply filter_In in H. destruct H as [HI IL].
    apply (is_legal_accepts g true m HI LI) in IL. destruct IL as (g' & M). exact (accepted_in_legal_moves g true m g' LI HI M).
  - intros H. unfold ChessSpec.legal_moves in H. apply filter_In in H. destruct H as [_ L].
    destruct (legal_is_accepted g sm LI L) as (m & g' & HI & E & M). apply in_map_iff. exists m. split; [exact E|].
    unfold legal_values. apply filter_In. split; [exact HI|]. apply (is_legal_accepts g true m HI LI). exists g'. exact M.
Qed.

Lemma NoDup_map_filter {A B} (f : A -> B) (P : A -> bool) l : NoDup (map f l) -> NoDup (map f (filter P l)).
Proof.
  induction l as [|a l IH]; intros N1; [constructor|]. cbn [map] in N1. inversion N1 as [|? ? NA N1']; subst. cbn [filter].
  destruct (P a); [|apply IH; exact N1']. cbn [map]. constructor; [|apply IH; exact N1'].
  intros H. apply NA. apply in_map_iff in H. destruct H as (b & E & Hb). apply filter_In in Hb. apply in_map_iff. exists b. tauto.
Qed.

Theorem legal_values_NoDup g all : legal_inv g -> NoDup (map umove (legal_values g (generate_moves g all))).
Proof. intros LI. apply NoDup_map_filter. apply (generated_umoves_NoDup g all LI). Qed.

(* ---- captures ---- *)
Lemma is_capture_eq g all m : legal_inv g -> In m (generate_moves g all) -> is_capture (abs g) (umove m) = mcap m.
Proof.
  intros LI HI. unfold is_capture. rewrite (is_ep_eq g all m LI HI). change (sto (umove m)) with (sq_of_idx (mto m)).
  pose proof (okx g all m LI HI) as K. destruct LI as (C & LI').
  rewrite (empty_abs_cons g (mto m) C (T64 g all m (conj C LI') HI)), negb_involutive.
  destruct (mcap m) eqn:CAP.
  - destruct (mep m) eqn:EP; [apply orb_true_r|]. rewrite (victim_occupied g (conj C LI') m K CAP EP). reflexivity.
  - rewrite (k_quiet g m K CAP). destruct (mep m) eqn:EP; [|reflexivity]. destruct (k_ep g m K EP) as (X & _). congruence.
Qed.

Theorem capture_set_exact g sm : legal_inv g ->
  (In sm (map umove (legal_values g (generate_moves g false))) <-> In sm (filter (is_capture (abs g)) (ChessSpec.legal_moves (abs g)))).
Proof.
  intros LI. split.
  - intros H. apply in_map_iff in H. destruct H as (m & <- & H). unfold legal_values in H. apply filter_In in H. destruct H as [HQ IL].
    pose proof HQ as HI. rewrite quiescence_list in HI. apply filter_In in HI. destruct HI as [HI CAP].
    apply filter_In. split.
    + apply (legal_set_exact g (umove m) LI). apply in_map_iff. exists m. split; [reflexivity|]. apply filter_In. split; assumption.
    + rewrite (is_capture_eq g true m LI HI). exact CAP.
  - intros H. apply filter_In in H. destruct H as [H CAP]. apply (legal_set_exact g sm LI) in H. apply in_map_iff in H. destruct H as (m & <- & H).
    apply filter_In in H. destruct H as [HI IL]. rewrite (is_capture_eq g true m LI HI) in CAP.
    apply in_map_iff. exists m. split; [reflexivity|]. apply filter_In. split; [|exact IL]. rewrite quiescence_list. apply filter_In. split; assumption.
Qed.

(* ---- the executable monitors accept the model on every such position ---- *)
Lemma okind_eqb_eq a b : okind_eqb a b = true <-> a = b.
Proof. destruct a as [[]|], b as [[]|]; cbn; split; intros X; try reflexivity; try discriminate X. Qed.
Lemma smove_eqb_eq a b : smove_eqb a b = true <-> a = b.
Proof.
  unfold smove_eqb. split.
  - intros H. apply andb_true_iff in H. destruct H as [H H3]. apply andb_true_iff in H. destruct H as [H1 H2].
    apply sq_eqb_eq in H1, H2. apply okind_eqb_eq in H3. destruct a, b. cbn in *. subst. reflexivity.
  - intros <-. destruct a as [[a1 a2] [b1 b2] pr]. unfold sq_eqb. cbn [sfrom sto spromo fst snd]. rewrite !Z.eqb_refl. cbn [andb]. apply okind_eqb_eq. reflexivity.
Qed.
Lemma mem_smove_in x l : mem_smove x l = true <-> In x l.
Proof.
  unfold mem_smove. rewrite existsb_exists. split.
  - intros (y & Hy & E). apply smove_eqb_eq in E. subst. exact Hy.
  - intros H. exists x. split; [exact H|apply smove_eqb_eq; reflexivity].
Qed.
Lemma nodup_smoves_ok l : NoDup l -> nodup_smoves l = true.
Proof.
  induction 1 as [|x l NI _ IH]; [reflexivity|]. cbn [nodup_smoves]. rewrite IH, andb_true_r. apply negb_true_iff.
  destruct (mem_smove x l) eqn:M; [|reflexivity]. apply mem_smove_in in M. contradiction.
Qed.
Lemma same_set_ok a b : (forall x, In x a <-> In x b) -> same_set a b = true.
Proof.
  intros E. unfold same_set. apply andb_true_iff. split; apply forallb_forall; intros x Hx; apply mem_smove_in; apply E; exact Hx.
Qed.

Theorem monitors_accept g : legal_inv g ->
  mon_legal_set g (legal_values g (generate_moves g true)) = true /\ mon_capture_set g (legal_values g (generate_moves g false)) = true.
Proof.
  intros LI. unfold mon_legal_set, mon_capture_set. cbn zeta. split; apply andb_true_iff; split.
  - apply nodup_smoves_ok. apply legal_values_NoDup. exact LI.
  - apply same_set_ok. intros x. apply legal_set_exact. exact LI.
  - apply nodup_smoves_ok. apply legal_values_NoDup. exact LI.
  - apply same_set_ok. intros x. apply capture_set_exact. exact LI.
Qed.
Print Assumptions monitors_accept.
