(* Properties of the bit-level operations of Model/Bits.v (PEXT/PDEP by their Intel definitions). *)
From Coq Require Import Arith NArith List Bool Lia.
From JV Require Import Model.Bits.
Import ListNotations.
Local Open Scope N_scope.

Lemma to_bits_length n x : length (to_bits n x) = n.
Proof. revert x; induction n; intros; cbn; auto. Qed.

Lemma of_bits_lt l : of_bits l < 2 ^ N.of_nat (length l).
Proof.
  induction l as [|b r IH]; cbn [of_bits length].
  - cbn. lia.
  - rewrite Nat2N.inj_succ, N.pow_succ_r'. destruct b; lia.
Qed.

Lemma div2_odd x : x = (if N.odd x then 1 else 0) + 2 * N.div2 x.
Proof. pose proof (N.div2_odd x) as H. destruct (N.odd x); cbn [N.b2n] in H; lia. Qed.

Lemma testbit_of_bits l i : N.testbit (of_bits l) (N.of_nat i) = nth i l false.
Proof.
  revert i; induction l as [|b r IH]; intros i; cbn [of_bits].
  - destruct i; reflexivity.
  - destruct i as [|i].
    + cbn [nth N.of_nat]. destruct b.
      * replace (1 + 2 * of_bits r) with (2 * of_bits r + 1) by lia. apply N.testbit_odd_0.
      * rewrite N.add_0_l. apply N.testbit_even_0.
    + rewrite Nat2N.inj_succ. cbn [nth]. destruct b.
      * replace (1 + 2 * of_bits r) with (2 * of_bits r + 1) by lia. rewrite N.testbit_odd_succ by lia. apply IH.
      * rewrite N.add_0_l. rewrite N.testbit_even_succ by lia. apply IH.
Qed.

Lemma nth_to_bits n x i : (i < n)%nat -> nth i (to_bits n x) false = N.testbit x (N.of_nat i).
Proof.
  revert x i; induction n as [|n IH]; intros x i Hi; [lia|].
  cbn [to_bits]. destruct i as [|i].
  - cbn [nth N.of_nat]. symmetry. apply N.bit0_odd.
  - cbn [nth]. rewrite IH by lia. rewrite Nat2N.inj_succ. rewrite N.div2_spec. rewrite N.shiftr_spec by lia.
    f_equal. lia.
Qed.

Lemma of_to_bits n x : of_bits (to_bits n x) = x mod 2 ^ N.of_nat n.
Proof.
  apply N.bits_inj; intros i. rewrite <- (N2Nat.id i). rewrite testbit_of_bits.
  destruct (Compare_dec.lt_dec (N.to_nat i) n) as [L|G].
  - rewrite nth_to_bits by exact L. rewrite N.mod_pow2_bits_low by lia. reflexivity.
  - rewrite nth_overflow by (rewrite to_bits_length; lia). rewrite N.mod_pow2_bits_high by lia. reflexivity.
Qed.

Lemma pext_bits_length x m : length x = length m -> length (pext_bits x m) = popc m.
Proof.
  revert m; induction x as [|xb xs IH]; intros [|mb ms] H; cbn in *; try lia.
  destruct mb; cbn; rewrite IH by lia; reflexivity.
Qed.

Lemma pdep_pext_bits x m : length x = length m -> pdep_bits (pext_bits x m) m = and_bits x m.
Proof.
  revert m; induction x as [|xb xs IH]; intros [|mb ms] H; cbn in *; try lia; try reflexivity.
  destruct mb; cbn.
  - rewrite IH by lia. now rewrite andb_true_r.
  - rewrite IH by lia. now rewrite andb_false_r.
Qed.

Lemma pdep_bits_pad m : forall i k, pdep_bits (i ++ repeat false k) m = pdep_bits i m.
Proof.
  induction m as [|mb ms IH]; intros i k; cbn [pdep_bits]; [reflexivity|].
  destruct mb.
  - destruct i as [|ib is']; cbn [app].
    + destruct k as [|k]; cbn [repeat]; [reflexivity|]. f_equal. apply (IH [] k).
    + f_equal. apply IH.
  - f_equal. apply IH.
Qed.

Lemma to_bits_0 n : to_bits n 0 = repeat false n.
Proof. induction n; cbn [to_bits repeat]; [reflexivity|]. cbn [N.odd N.div2]. now rewrite IHn. Qed.

Lemma to_bits_of_bits l n : (length l <= n)%nat -> to_bits n (of_bits l) = l ++ repeat false (n - length l).
Proof.
  revert l; induction n as [|n IH]; intros l H.
  - destruct l; cbn in *; [reflexivity|lia].
  - destruct l as [|b r].
    + cbn [of_bits length app]. rewrite Nat.sub_0_r. apply to_bits_0.
    + cbn [to_bits of_bits length] in *. cbn [Nat.sub app].
      assert (Ho : N.odd ((if b then 1 else 0) + 2 * of_bits r) = b).
      { rewrite N.odd_add_mul_2. destruct b; reflexivity. }
      assert (Hd : N.div2 ((if b then 1 else 0) + 2 * of_bits r) = of_bits r).
      { destruct b.
        - replace (1 + 2 * of_bits r) with (N.succ_double (of_bits r)) by (rewrite N.succ_double_spec; lia).
          apply N.div2_succ_double.
        - replace (0 + 2 * of_bits r) with (N.double (of_bits r)) by (rewrite N.double_spec; lia).
          apply N.div2_double. }
      rewrite Ho, Hd. f_equal. apply IH. lia.
Qed.

Lemma and_bits_land n x m : of_bits (and_bits (to_bits n x) (to_bits n m)) = (N.land x m) mod 2 ^ N.of_nat n.
Proof.
  rewrite <- of_to_bits. f_equal.
  revert x m; induction n as [|n IH]; intros x m; cbn [to_bits and_bits]; [reflexivity|].
  f_equal.
  - rewrite <- !N.bit0_odd. symmetry. apply N.land_spec.
  - rewrite IH. f_equal. rewrite !N.div2_spec. symmetry. apply N.shiftr_land.
Qed.

Theorem pdep_pext x m : m < 2 ^ 64 -> pdep (pext x m) m = N.land x m.
Proof.
  intros Hm. unfold pdep, pext.
  set (xb := to_bits 64 x). set (mb := to_bits 64 m).
  assert (Hl : length xb = length mb) by (subst xb mb; now rewrite !to_bits_length).
  assert (Hp : (length (pext_bits xb mb) <= 64)%nat).
  { rewrite pext_bits_length by exact Hl. subst mb.
    assert (forall l, (popc l <= length l)%nat) as P by (induction l as [|[] ?]; cbn; lia).
    specialize (P (to_bits 64 m)). rewrite to_bits_length in P. exact P. }
  rewrite to_bits_of_bits by exact Hp.
  rewrite pdep_bits_pad. rewrite pdep_pext_bits by exact Hl.
  subst xb mb. rewrite and_bits_land.
  apply N.mod_small.
  assert (N.land x m <= m).
  { apply N.bits_inj_iff in Hm || idtac.
    destruct (N.le_gt_cases (N.land x m) m) as [L|G]; [exact L|exfalso].
    (* land x m <= m : standard, via ldiff/lor decomposition *)
    assert (E : m = N.lor (N.land x m) (N.ldiff m x)).
    { apply N.bits_inj; intros i. rewrite N.lor_spec, N.land_spec, N.ldiff_spec.
      destruct (N.testbit x i), (N.testbit m i); reflexivity. }
    assert (D : N.land (N.land x m) (N.ldiff m x) = 0).
    { apply N.bits_inj; intros i. rewrite !N.land_spec, N.ldiff_spec, N.bits_0.
      destruct (N.testbit x i), (N.testbit m i); reflexivity. }
    rewrite <- N.lxor_lor in E by exact D. rewrite <- N.add_nocarry_lxor in E by exact D. lia. }
  change (2 ^ N.of_nat 64) with (2 ^ 64). lia.
Qed.

Theorem pext_lt x m : pext x m < 2 ^ N.of_nat (popc (to_bits 64 m)).
Proof.
  unfold pext. eapply N.lt_le_trans; [apply of_bits_lt|].
  rewrite pext_bits_length by now rewrite !to_bits_length. lia.
Qed.


Lemma popc_le l : (popc l <= length l)%nat.
Proof. induction l as [|[] ?]; cbn; lia. Qed.

Lemma pext_lt_nat x m : (N.to_nat (pext x m) < 2 ^ popcount m)%nat.
Proof.
  pose proof (pext_lt x m) as H. unfold popcount.
  assert (E : N.to_nat (2 ^ N.of_nat (popc (to_bits 64 m))) = (2 ^ popc (to_bits 64 m))%nat).
  { rewrite N2Nat.inj_pow. rewrite Nat2N.id. reflexivity. }
  rewrite <- E. lia.
Qed.

Lemma seqN_length s n : length (seqN s n) = n.
Proof. revert s; induction n; intros; cbn; auto. Qed.
Lemma nth_seqN n : forall s i d, (i < n)%nat -> nth i (seqN s n) d = s + N.of_nat i.
Proof.
  induction n as [|n IH]; intros s i d H; [lia|]. cbn [seqN]. destruct i as [|i]; cbn [nth].
  - cbn. lia.
  - rewrite IH by lia. lia.
Qed.
