(* "The side that just moved is not in check" is preserved by make_search_move: the test make performs before the promotion
   swap / the castling rook hop still holds afterwards (a promotion changes only the mover's own sets; a rook hop changes the
   occupancy only on squares that cannot open a line to the king's new square). *)
From Coq Require Import NArith ZArith List Bool Lia.
From JV Require Import Gen.Consts Spec.Rays Model.Bits Model.Chess Model.Abs Proofs.BitboardProofs Proofs.MoveGenProofs
  Proofs.ZobristProofs Proofs.KeyProofs Proofs.GenProofs Proofs.ConsProofs Proofs.GenOk Proofs.KingsProofs Proofs.AttackSym.
Import ListNotations.
Local Open Scope N_scope.

Lemma reachl_ext sqs occ1 occ2 s : (forall x, In x sqs -> N.testbit occ1 x = N.testbit occ2 x) -> reachl sqs occ1 s = reachl sqs occ2 s.
Proof.
  induction sqs as [|x r IH]; intros E; cbn [reachl]; [reflexivity|].
  rewrite (E x (or_introl eq_refl)). rewrite IH by (intros y Hy; apply E; right; exact Hy). reflexivity.
Qed.

(* the shape of each ray from the king's new square t w.r.t. the rook's squares a (new) and b (old) *)
Definition ray_ok (t a b : N) (d : Z * Z) : bool :=
  let l := rayl t d in
  (negb (memN a l) && negb (memN b l)) ||
  (match l with x :: _ => x =? a | [] => false end) ||
  (match l with [x] => x =? b | [x; y] => (y =? b) && negb (x =? a) && negb (x =? b) | _ => false end).
Definition geom_ok (t a b : N) : bool := forallb (ray_ok t a b) (rook_dirs ++ bishop_dirs).

Lemma geom_62 : geom_ok 62 61 63 = true. Proof. vm_compute. reflexivity. Qed.
Lemma geom_58 : geom_ok 58 59 56 = true. Proof. vm_compute. reflexivity. Qed.
Lemma geom_6 : geom_ok 6 5 7 = true. Proof. vm_compute. reflexivity. Qed.
Lemma geom_2 : geom_ok 2 3 0 = true. Proof. vm_compute. reflexivity. Qed.

Lemma memN_true_false x l : memN x l = false -> ~ In x l.
Proof. apply memN_false. Qed.

(* after the hop (a occupied, b emptied) nothing new is seen from t *)
Lemma ray_mono t a b d occ3 occ4 s : ray_ok t a b d = true -> a <> b ->
  (forall x, N.testbit occ4 x = (N.testbit occ3 x || (a =? x)) && negb (b =? x)) ->
  reachl (rayl t d) occ4 s = true -> reachl (rayl t d) occ3 s = true.
Proof.
  intros OK AB E R. unfold ray_ok in OK. cbn zeta in OK.
  apply orb_true_iff in OK. destruct OK as [OK|OK]; [apply orb_true_iff in OK; destruct OK as [OK|OK]|].
  - apply andb_true_iff in OK. destruct OK as [NA NB]. apply negb_true_iff in NA, NB. apply memN_false in NA, NB.
    rewrite <- R. symmetry. apply reachl_ext. intros x Hx. rewrite E.
    destruct (N.eqb_spec a x) as [->|]; [contradiction|]. destruct (N.eqb_spec b x) as [->|]; [contradiction|].
    rewrite orb_false_r, andb_true_r. reflexivity.
  - destruct (rayl t d) as [|x r]; [discriminate|]. apply N.eqb_eq in OK. subst x. cbn [reachl] in *.
    assert (X : N.testbit occ4 a = true).
    { rewrite E, N.eqb_refl, orb_true_r. destruct (N.eqb_spec b a); [congruence|reflexivity]. }
    rewrite X in R. cbn [negb andb] in R. rewrite orb_false_r in R. rewrite R. reflexivity.
  - destruct (rayl t d) as [|x [|y [|z r]]]; try discriminate.
    + apply N.eqb_eq in OK. subst x. cbn [reachl] in *. rewrite andb_false_r, orb_false_r in *. exact R.
    + apply andb_true_iff in OK. destruct OK as [OK NXB]. apply andb_true_iff in OK. destruct OK as [YB NXA].
      apply N.eqb_eq in YB. subst y. apply negb_true_iff, N.eqb_neq in NXA, NXB.
      cbn [reachl] in *. rewrite !andb_false_r, !orb_false_r in *.
      assert (X : N.testbit occ4 x = N.testbit occ3 x).
      { rewrite E. destruct (N.eqb_spec a x); [congruence|]. destruct (N.eqb_spec b x); [congruence|]. rewrite orb_false_r, andb_true_r. reflexivity. }
      rewrite X in R. exact R.
Qed.

Lemma slide_mono dirs t a b occ3 occ4 s : (forall d, In d dirs -> ray_ok t a b d = true) -> a <> b ->
  (forall x, N.testbit occ4 x = (N.testbit occ3 x || (a =? x)) && negb (b =? x)) ->
  N.testbit (slide dirs t occ4) s = true -> N.testbit (slide dirs t occ3) s = true.
Proof.
  intros OK AB E H. rewrite slide_reach in *. apply existsb_exists in H. destruct H as (d & Hd & R).
  apply existsb_exists. exists d. split; [exact Hd|]. eapply ray_mono; eauto.
Qed.

Lemma geom_dirs t a b : geom_ok t a b = true ->
  (forall d, In d rook_dirs -> ray_ok t a b d = true) /\ (forall d, In d bishop_dirs -> ray_ok t a b d = true).
Proof.
  unfold geom_ok. rewrite forallb_forall. intros H. split; intros d Hd; apply H; apply in_or_app; [left|right]; exact Hd.
Qed.

(* is_square_attacked only gets smaller when the occupancy changes like that and the attackers' sets stay the same *)
Lemma land0_mono x y bd : (forall s, N.testbit y s = true -> N.testbit x s = true) ->
  negb (N.land x bd =? 0) = false -> negb (N.land y bd =? 0) = false.
Proof.
  intros SUB H. apply negb_false_iff in H. apply N.eqb_eq in H. apply negb_false_iff. apply N.eqb_eq.
  apply N.bits_inj. intros s. rewrite N.bits_0, N.land_spec.
  destruct (N.testbit y s) eqn:Y; [|reflexivity]. cbn [andb].
  assert (X : N.testbit (N.land x bd) s = false) by (rewrite H; apply N.bits_0).
  rewrite N.land_spec, (SUB s Y) in X. exact X.
Qed.

Lemma attacked_mono bs3 bs4 occ3 occ4 t a b byw : geom_ok t a b = true -> a <> b ->
  (forall x, N.testbit occ4 x = (N.testbit occ3 x || (a =? x)) && negb (b =? x)) ->
  (forall q, (q <? 6) = byw -> nthN bs4 q = nthN bs3 q) ->
  is_square_attacked bs3 occ3 t byw = false -> is_square_attacked bs4 occ4 t byw = false.
Proof.
  intros G AB E SAME H. destruct (geom_dirs t a b G) as (GR & GB).
  assert (RM : forall s, N.testbit (rook_att t occ4) s = true -> N.testbit (rook_att t occ3) s = true)
    by (intros s; apply (slide_mono rook_dirs t a b); assumption).
  assert (BM : forall s, N.testbit (bishop_att t occ4) s = true -> N.testbit (bishop_att t occ3) s = true)
    by (intros s; apply (slide_mono bishop_dirs t a b); assumption).
  assert (QM : forall s, N.testbit (queen_att t occ4) s = true -> N.testbit (queen_att t occ3) s = true).
  { intros s. unfold queen_att. rewrite !N.lor_spec. intros X. apply orb_true_iff in X. apply orb_true_iff. destruct X; [left; apply RM|right; apply BM]; assumption. }
  unfold is_square_attacked in *. cbn zeta in *. destruct byw.
  - rewrite !(SAME WP eq_refl), !(SAME WN eq_refl), !(SAME WK eq_refl), !(SAME WR eq_refl), !(SAME WB eq_refl), !(SAME WQ eq_refl).
    repeat (apply orb_false_iff in H; destruct H as [H ?]).
    repeat (apply orb_false_iff; split); try assumption; eapply land0_mono; eauto.
  - rewrite !(SAME BP eq_refl), !(SAME BN eq_refl), !(SAME BK eq_refl), !(SAME BR eq_refl), !(SAME BB eq_refl), !(SAME BQ eq_refl).
    repeat (apply orb_false_iff in H; destruct H as [H ?]).
    repeat (apply orb_false_iff; split); try assumption; eapply land0_mono; eauto.
Qed.

(* a change to the sets of the side whose king is tested does not matter *)
Lemma attacked_own bs3 bs4 occ t byw : (forall q, (q <? 6) = byw -> nthN bs4 q = nthN bs3 q) ->
  is_square_attacked bs4 occ t byw = is_square_attacked bs3 occ t byw.
Proof.
  intros SAME. unfold is_square_attacked. cbn zeta. destruct byw.
  - rewrite !(SAME WP eq_refl), !(SAME WN eq_refl), !(SAME WK eq_refl), !(SAME WR eq_refl), !(SAME WB eq_refl), !(SAME WQ eq_refl). reflexivity.
  - rewrite !(SAME BP eq_refl), !(SAME BN eq_refl), !(SAME BK eq_refl), !(SAME BR eq_refl), !(SAME BB eq_refl), !(SAME BQ eq_refl). reflexivity.
Qed.

Definition nk (g : game) : Prop := in_check_raw (bbs g) (aocc g) (negb (white g)) = false.

Lemma single_ls b k : (forall s, tb b s = true <-> s = k) -> least_significant b = k.
Proof.
  intros S. unfold least_significant. pose proof (bits_of_nodup b) as ND.
  assert (M : forall s, In s (bits_of b) <-> s = k) by (intros s; rewrite bits_of_spec; apply S).
  destruct (bits_of b) as [|x [|y r]].
  - exfalso. apply (proj2 (M k) eq_refl).
  - apply M. left. reflexivity.
  - exfalso. assert (x = k) by (apply M; left; reflexivity). assert (y = k) by (apply M; right; left; reflexivity). subst.
    inversion ND as [|? ? NI _]. apply NI. left. reflexivity.
Qed.

Section Nk.
Variables (g : game) (m : move) (g' : game).
Hypothesis C : cons g.
Hypothesis KG : kings g.
Hypothesis K : move_ok g m.
Hypothesis PS : promo_sane m.
Hypothesis H : make_search_move g m = Made g'.

Lemma made_parts : exists bs3 wo3 bo3 ao3 h2 h3 wo' bo' bs4 wo4 bo4 ao4 h4,
  stage_cap g m (upd (upd (bbs g) (mpiece m) (unset_bit (bb g (mpiece m)) (mfrom m))) (mpiece m)
                     (set_bit (nthN (upd (bbs g) (mpiece m) (unset_bit (bb g (mpiece m)) (mfrom m))) (mpiece m)) (mto m)))
            (set_bit (unset_bit (aocc g) (mfrom m)) (mto m)) h2 = (bs3, wo3, bo3, ao3, h3) /\
  in_check_raw bs3 ao3 (white g) = false /\
  stage_special m bs3 wo' bo' ao3 h3 = Some (bs4, wo4, bo4, ao4, h4) /\
  bbs g' = bs4 /\ aocc g' = ao4 /\ white g' = negb (white g).
Proof.
  pose proof H as H'. rewrite make_staged_eq in H'. unfold make_staged in H'. cbn zeta in H'.
  match type of H' with context [stage_cap g m ?b ?a ?h] => destruct (stage_cap g m b a h) as [[[[bs3 wo3] bo3] ao3] h3] eqn:SC end.
  destruct (in_check_raw bs3 ao3 (white g)) eqn:IC; [discriminate|].
  destruct (white g) eqn:W; cbn iota in H';
    (match type of H' with context [stage_special m bs3 ?wo ?bo ao3 h3] => destruct (stage_special m bs3 wo bo ao3 h3) as [[[[[bs4 wo4] bo4] ao4] h4]|] eqn:SS end; [|discriminate]);
    eexists bs3, wo3, bo3, ao3, _, h3, _, _, bs4, wo4, bo4, ao4, h4;
    (split; [exact SC|]); (split; [exact IC|]); (split; [exact SS|]);
    destruct (mdp m); cbn iota in H'; injection H' as <-; repeat split; reflexivity.
Qed.

Theorem make_nk : nk g'.
Proof.
  destruct made_parts as (bs3 & wo3 & bo3 & ao3 & h2 & h3 & wo' & bo' & bs4 & wo4 & bo4 & ao4 & h4 & SC & IC & SS & EB & EA & EW).
  unfold nk. rewrite EB, EA, EW, negb_involutive.
  pose proof (c_len g C) as L. pose proof (k_p12 g m K) as P12. pose proof (k_own g m K) as OWN.
  (* length and frame of the capture stage *)
  set (bs2 := upd (upd (bbs g) (mpiece m) (unset_bit (bb g (mpiece m)) (mfrom m))) (mpiece m)
                  (set_bit (nthN (upd (bbs g) (mpiece m) (unset_bit (bb g (mpiece m)) (mfrom m))) (mpiece m)) (mto m))) in *.
  assert (L2 : length bs2 = 12%nat) by (subst bs2; rewrite !upd_length; exact L).
  assert (L3 : length bs3 = 12%nat).
  { unfold stage_cap in SC. cbn zeta in SC. destruct (mcap m); [|injection SC as <- _ _ _ _; exact L2].
    destruct (mep m).
    - destruct (white g); injection SC as <- _ _ _ _; rewrite upd_length; exact L2.
    - pose proof (J_remove_first (victims (white g)) bs2 (mto m) 0 (N.lxor 0 (BH bs2)) L2 (victims_lt _)) as RF.
      destruct (remove_first bs2 (victims (white g)) (mto m)) as [bs' v]. destruct RF as (R1 & _); [rewrite N.lxor_0_l, N.lxor_nilpotent; reflexivity|].
      destruct (white g); injection SC as <- _ _ _ _; exact R1. }
  unfold stage_special in SS. cbn zeta in SS.
  destruct (negb (mpromo m =? NOPIECE)) eqn:PR.
  - (* promotion: only the mover's own sets change after the test *)
    apply negb_true_iff, N.eqb_neq in PR. destruct (k_promo g m K PR) as (Q12 & QCOL & QNE & _ & _). destruct (PS PR) as (PAWN & NK1 & NK2).
    injection SS as <- _ _ <- _.
    assert (SAME : forall q, (q <? 6) = negb (white g) -> nthN (upd (upd bs3 (mpromo m) (set_bit (nthN bs3 (mpromo m)) (mto m))) (mpiece m)
                      (unset_bit (nthN (upd bs3 (mpromo m) (set_bit (nthN bs3 (mpromo m)) (mto m))) (mpiece m)) (mto m))) q = nthN bs3 q).
    { intros q QC. rewrite !nthN_upd_other; [reflexivity| |]; intros E; subst q; rewrite ?QCOL, ?OWN in QC; destruct (white g); discriminate. }
    assert (KSAME : forall kq, kq = WK \/ kq = BK -> nthN (upd (upd bs3 (mpromo m) (set_bit (nthN bs3 (mpromo m)) (mto m))) (mpiece m)
                      (unset_bit (nthN (upd bs3 (mpromo m) (set_bit (nthN bs3 (mpromo m)) (mto m))) (mpiece m)) (mto m))) kq = nthN bs3 kq).
    { intros kq KQ. rewrite !nthN_upd_other; [reflexivity| |]; intros E; destruct KQ, PAWN; unfold WP, BP, WK, BK in *; congruence. }
    unfold in_check_raw in *. destruct (white g).
    + rewrite (KSAME WK (or_introl eq_refl)). rewrite (attacked_own bs3 _ ao3 _ false SAME). exact IC.
    + rewrite (KSAME BK (or_intror eq_refl)). rewrite (attacked_own bs3 _ ao3 _ true SAME). exact IC.
  - destruct (mcastle m) eqn:CS.
    + (* castling: the rook hop *)
      destruct (k_castle g m K CS) as (CAP & _ & _ & CASES).
      assert (SC3 : bs3 = bs2 /\ ao3 = set_bit (unset_bit (aocc g) (mfrom m)) (mto m)).
      { unfold stage_cap in SC. cbn zeta in SC. rewrite CAP in SC. injection SC as <- _ _ <- _. split; reflexivity. }
      destruct SC3 as [E1 E2]. subst bs3 ao3.
      assert (HOP : forall (rk a b : N) (white_side : bool) (kq t : N), mpiece m = kq -> mto m = t -> (kq = WK \/ kq = BK) -> (kq <? 6) = white g -> (rk <? 6) = white g -> rk <> kq -> rk < 12 ->
                a <> b -> geom_ok t a b = true -> single (bb g kq) ->
                (let bs := upd bs2 rk (set_bit (nthN bs2 rk) a) in let bs := upd bs rk (unset_bit (nthN bs rk) b) in
                 if white_side then Some (bs, unset_bit (set_bit wo' a) b, bo', unset_bit (set_bit (set_bit (unset_bit (aocc g) (mfrom m)) t) a) b, N.lxor (N.lxor h3 (piece_key rk a)) (piece_key rk b))
                 else Some (bs, wo', unset_bit (set_bit bo' a) b, unset_bit (set_bit (set_bit (unset_bit (aocc g) (mfrom m)) t) a) b, N.lxor (N.lxor h3 (piece_key rk a)) (piece_key rk b)))
                = Some (bs4, wo4, bo4, ao4, h4) ->
                in_check_raw bs4 ao4 (white g) = false).
      { intros rk a b ws kq t PK T1 KQ KC RC RNE R12 AB G (k & SK) EE. subst t.
        assert (EQS : bs4 = upd (upd bs2 rk (set_bit (nthN bs2 rk) a)) rk (unset_bit (nthN (upd bs2 rk (set_bit (nthN bs2 rk) a)) rk) b) /\
                      ao4 = unset_bit (set_bit (set_bit (unset_bit (aocc g) (mfrom m)) (mto m)) a) b).
        { cbn zeta in EE. destruct ws; injection EE as <- _ _ <- _; split; reflexivity. }
        destruct EQS as (-> & ->).
        (* the king stands on t *)
        assert (KB2 : forall s, tb (nthN bs2 kq) s = true <-> s = mto m).
        { intros s. subst bs2. rewrite PK. rewrite nthN_upd_same by (rewrite upd_length, L; destruct KQ as [-> | ->]; cbn; lia).
          rewrite tb_set. rewrite nthN_upd_same by (rewrite L; destruct KQ as [-> | ->]; cbn; lia). rewrite tb_unset.
          assert (FK : mfrom m = k) by (apply SK; rewrite <- PK; apply (k_from g m K)).
          destruct (N.eqb_spec (mto m) s) as [<-|NT]; [rewrite orb_true_r; tauto|]. rewrite orb_false_r. split; [|congruence].
          intros X. apply andb_true_iff in X. destruct X as [X1 X2]. apply SK in X1. subst s. rewrite FK, N.eqb_refl in X2. discriminate. }
        assert (KSAME : nthN (upd (upd bs2 rk (set_bit (nthN bs2 rk) a)) rk (unset_bit (nthN (upd bs2 rk (set_bit (nthN bs2 rk) a)) rk) b)) kq = nthN bs2 kq)
          by (rewrite !nthN_upd_other by congruence; reflexivity).
        assert (SAME : forall q, (q <? 6) = negb (white g) -> nthN (upd (upd bs2 rk (set_bit (nthN bs2 rk) a)) rk (unset_bit (nthN (upd bs2 rk (set_bit (nthN bs2 rk) a)) rk) b)) q = nthN bs2 q).
        { intros q QC. rewrite !nthN_upd_other; [reflexivity| |]; intros E; subst q; rewrite RC in QC; destruct (white g); discriminate. }
        assert (OCC : forall x, N.testbit (unset_bit (set_bit (set_bit (unset_bit (aocc g) (mfrom m)) (mto m)) a) b) x =
                                (N.testbit (set_bit (unset_bit (aocc g) (mfrom m)) (mto m)) x || (a =? x)) && negb (b =? x)).
        { intros x. fold (tb (unset_bit (set_bit (set_bit (unset_bit (aocc g) (mfrom m)) (mto m)) a) b) x). rewrite tb_unset, tb_set. reflexivity. }
        unfold in_check_raw in *. destruct (white g) eqn:W.
        - assert (EK : kq = WK) by (destruct KQ as [X | X]; [exact X|rewrite X in KC; discriminate]). rewrite EK in *.
          rewrite KSAME. rewrite (single_ls _ (mto m) KB2) in *.
          apply (attacked_mono bs2 _ (set_bit (unset_bit (aocc g) (mfrom m)) (mto m)) _ (mto m) a b false G AB OCC SAME IC).
        - assert (EK : kq = BK) by (destruct KQ as [X | X]; [rewrite X in KC; discriminate|exact X]). rewrite EK in *.
          rewrite KSAME. rewrite (single_ls _ (mto m) KB2) in *.
          apply (attacked_mono bs2 _ (set_bit (unset_bit (aocc g) (mfrom m)) (mto m)) _ (mto m) a b true G AB OCC SAME IC). }
      destruct KG as (KW & KBk).
      destruct CASES as [(W & PK & [(T1 & E1 & R1)|(T1 & E1 & R1)])|(W & PK & [(T1 & E1 & R1)|(T1 & E1 & R1)])]; rewrite T1 in SS; cbn [N.eqb Pos.eqb] in SS.
      * refine (HOP WR 61 63 true WK 62 PK T1 (or_introl eq_refl) _ _ _ _ _ geom_62 KW SS); try (rewrite W; reflexivity); try discriminate; reflexivity.
      * refine (HOP WR 59 56 true WK 58 PK T1 (or_introl eq_refl) _ _ _ _ _ geom_58 KW SS); try (rewrite W; reflexivity); try discriminate; reflexivity.
      * refine (HOP BR 5 7 false BK 6 PK T1 (or_intror eq_refl) _ _ _ _ _ geom_6 KBk SS); try (rewrite W; reflexivity); try discriminate; reflexivity.
      * refine (HOP BR 3 0 false BK 2 PK T1 (or_intror eq_refl) _ _ _ _ _ geom_2 KBk SS); try (rewrite W; reflexivity); try discriminate; reflexivity.
    + injection SS as <- _ _ <- _. exact IC.
Qed.
End Nk.
Print Assumptions make_nk.
