(* C01 (part): the two legality paths of the engine agree on every generated move, for EVERY position
   (no well-formedness needed): filtering with is_legal and trying make_search_move accept the same moves. *)
From Coq Require Import NArith ZArith List Bool Lia.
From JV Require Import Gen.Consts Model.Bits Model.Chess.
Import ListNotations.
Local Open Scope N_scope.

(* ---- list update facts ---- *)
Lemma upd_nth_length l : forall i v, length (upd_nth l i v) = length l.
Proof. induction l as [|x l IH]; intros [|i] v; cbn; auto. Qed.
Lemma upd_nth_same l : forall i v d, (i < length l)%nat -> nth i (upd_nth l i v) d = v.
Proof. induction l as [|x l IH]; intros [|i] v d H; cbn in *; try lia; auto. apply IH. lia. Qed.
Lemma upd_nth_other l : forall i j v d, i <> j -> nth j (upd_nth l i v) d = nth j l d.
Proof. induction l as [|x l IH]; intros [|i] [|j] v d H; cbn; auto; try congruence. Qed.
Lemma upd_nth_twice l : forall i a b, upd_nth (upd_nth l i a) i b = upd_nth l i b.
Proof. induction l as [|x l IH]; intros [|i] a b; cbn; auto. f_equal. apply IH. Qed.
Lemma upd_nth_ge l : forall i v, (length l <= i)%nat -> upd_nth l i v = l.
Proof. induction l as [|x l IH]; intros [|i] v H; cbn in *; auto; try lia. f_equal. apply IH. lia. Qed.

Lemma upd_twice l i a b : upd (upd l i a) i b = upd l i b.
Proof. apply upd_nth_twice. Qed.
Lemma nthN_upd_same l i v : (N.to_nat i < length l)%nat -> nthN (upd l i v) i = v.
Proof. intros H. apply upd_nth_same. exact H. Qed.
Lemma upd_ge l i v : (length l <= N.to_nat i)%nat -> upd l i v = l.
Proof. apply upd_nth_ge. Qed.
Lemma nthN_ge l i : (length l <= N.to_nat i)%nat -> nthN l i = 0.
Proof. intros H. apply nth_overflow. exact H. Qed.

(* the boards after "move the piece": one update in is_legal, two in make_search_move *)
Lemma move_piece_boards l p f t :
  upd (upd l p (unset_bit (nthN l p) f)) p (set_bit (nthN (upd l p (unset_bit (nthN l p) f)) p) t) =
  upd l p (set_bit (unset_bit (nthN l p) f) t).
Proof.
  destruct (Nat.lt_ge_cases (N.to_nat p) (length l)) as [L|G].
  - rewrite nthN_upd_same by exact L. apply upd_twice.
  - rewrite !upd_ge by (try rewrite upd_ge; assumption). reflexivity.
Qed.

(* ---- the position both paths test ---- *)
Definition peek (g : game) (m : move) : list N * N :=
  let f := mfrom m in let t := mto m in let p := mpiece m in
  let occ := set_bit (unset_bit (aocc g) f) t in
  let bs := upd (bbs g) p (set_bit (unset_bit (bb g p) f) t) in
  if mep m then
    if white g then (upd bs BP (unset_bit (nthN bs BP) (t + 8)), unset_bit occ (t + 8))
    else (upd bs WP (unset_bit (nthN bs WP) (t - 8)), unset_bit occ (t - 8))
  else if mcap m then (fst (remove_first bs (victims (white g)) t), occ)
  else (bs, occ).

Lemma is_legal_peek g m : is_legal g m = negb (in_check_raw (fst (peek g m)) (snd (peek g m)) (white g)).
Proof.
  unfold is_legal, peek. cbn zeta.
  destruct (mep m); [destruct (white g); reflexivity|].
  destruct (mcap m); reflexivity.
Qed.

Definition flag_ok (m : move) : bool := implb (mep m) (mcap m).

Lemma make_peek g m : flag_ok m = true ->
  match make_search_move g m with Illegal => true | _ => false end = in_check_raw (fst (peek g m)) (snd (peek g m)) (white g).
Proof.
  unfold flag_ok, make_search_move, peek, bb. cbn zeta. intros FL.
  rewrite move_piece_boards.
  set (bs0 := upd (bbs g) (mpiece m) (set_bit (unset_bit (nthN (bbs g) (mpiece m)) (mfrom m)) (mto m))).
  set (occ0 := set_bit (unset_bit (aocc g) (mfrom m)) (mto m)).
  destruct (mep m) eqn:EP.
  - destruct (mcap m); [|discriminate]. destruct (white g); cbn [fst snd];
      match goal with |- context [if in_check_raw ?a ?b ?c then _ else _] => destruct (in_check_raw a b c) eqn:IC end;
      try reflexivity;
      repeat match goal with
             | |- context [let '(_, _) := ?X in _] => destruct X
             | |- context [match ?X with Some _ => _ | None => _ end] => destruct X
             | |- context [if ?X then _ else _] => destruct X
             end; reflexivity.
  - destruct (mcap m).
    + destruct (remove_first bs0 (victims (white g)) (mto m)) as [bs' v] eqn:RF. cbn [fst snd].
      destruct (white g); cbn [fst snd];
      match goal with |- context [if in_check_raw ?a ?b ?c then _ else _] => destruct (in_check_raw a b c) eqn:IC end;
      try reflexivity;
      repeat match goal with
             | |- context [let '(_, _) := ?X in _] => destruct X
             | |- context [match ?X with Some _ => _ | None => _ end] => destruct X
             | |- context [if ?X then _ else _] => destruct X
             end; reflexivity.
    + cbn [fst snd].
      match goal with |- context [if in_check_raw ?a ?b ?c then _ else _] => destruct (in_check_raw a b c) eqn:IC end;
      try reflexivity;
      repeat match goal with
             | |- context [let '(_, _) := ?X in _] => destruct X
             | |- context [match ?X with Some _ => _ | None => _ end] => destruct X
             | |- context [if ?X then _ else _] => destruct X
             end; reflexivity.
Qed.

Definition made (g : game) (m : move) : bool := match make_search_move g m with Illegal => false | _ => true end.

Lemma is_legal_made g m : flag_ok m = true -> is_legal g m = made g m.
Proof.
  intros FL. rewrite is_legal_peek. unfold made. rewrite <- (make_peek g m FL).
  destruct (make_search_move g m); reflexivity.
Qed.

(* ---- every generated move has en-passant => capture ---- *)
Lemma forallb_app' {A} (f : A -> bool) a b : forallb f a = true -> forallb f b = true -> forallb f (a ++ b) = true.
Proof. intros. rewrite forallb_app. now rewrite H, H0. Qed.
Lemma forallb_flat_map {A B} (f : B -> bool) (h : A -> list B) l :
  (forall x, forallb f (h x) = true) -> forallb f (flat_map h l) = true.
Proof. intros H. induction l as [|x l IH]; cbn; [reflexivity|]. apply forallb_app'; auto. Qed.
Lemma forallb_map' {A B} (f : B -> bool) (h : A -> B) l : (forall x, f (h x) = true) -> forallb f (map h l) = true.
Proof. intros H. induction l as [|x l IH]; cbn; [reflexivity|]. now rewrite H, IH. Qed.

Lemma promos_flag f t p q n r b cap : forallb flag_ok (promos f t p q n r b cap) = true.
Proof. reflexivity. Qed.

Lemma white_pawn_flag g all f : forallb flag_ok (white_pawn_moves g all f) = true.
Proof.
  unfold white_pawn_moves. cbn zeta. repeat apply forallb_app'.
  - repeat match goal with |- context [if ?X then _ else _] => destruct X end; reflexivity.
  - match goal with |- context [if ?X then _ else _] => destruct X end; reflexivity.
  - apply forallb_flat_map. intros x. destruct (8 <=? x); reflexivity.
Qed.
Lemma black_pawn_flag g all f : forallb flag_ok (black_pawn_moves g all f) = true.
Proof.
  unfold black_pawn_moves. cbn zeta. repeat apply forallb_app'.
  - repeat match goal with |- context [if ?X then _ else _] => destruct X end; reflexivity.
  - match goal with |- context [if ?X then _ else _] => destruct X end; reflexivity.
  - apply forallb_flat_map. intros x. destruct (x <=? 55); reflexivity.
Qed.
Lemma castle_flag g all r e k c w t kg : forallb flag_ok (castle_move g all r e k c w t kg) = true.
Proof. unfold castle_move. match goal with |- context [if ?X then _ else _] => destruct X end; reflexivity. Qed.
Lemma piece_flag g all opp p att : forallb flag_ok (piece_moves g all opp p att) = true.
Proof.
  unfold piece_moves. apply forallb_flat_map. intros x. apply forallb_app'.
  - destruct all; [|reflexivity]. apply forallb_map'. reflexivity.
  - apply forallb_map'. reflexivity.
Qed.

Lemma generated_flag_ok g all : forallb flag_ok (generate_moves g all) = true.
Proof.
  unfold generate_moves. destruct (white g);
    repeat apply forallb_app'; try apply castle_flag; try apply piece_flag;
    apply forallb_flat_map; intros x; [apply white_pawn_flag|apply black_pawn_flag].
Qed.

Lemma filter_ext_in' {A} (f h : A -> bool) l : (forall x, In x l -> f x = h x) -> filter f l = filter h l.
Proof.
  induction l as [|x l IH]; intros H; cbn; [reflexivity|].
  rewrite (H x) by (left; reflexivity). rewrite IH by (intros y Hy; apply H; right; exact Hy). reflexivity.
Qed.

Theorem legality_paths_agree g all :
  filter (is_legal g) (generate_moves g all) = filter (made g) (generate_moves g all).
Proof.
  apply filter_ext_in'. intros m Hm. apply is_legal_made.
  pose proof (generated_flag_ok g all) as F. rewrite forallb_forall in F. apply F. exact Hm.
Qed.
