(* "At most 16 men a side" along play, and the evaluation bound for everything reachable from the start position. *)
From Coq Require Import NArith ZArith List Bool Lia.
From JV Require Import Gen.Consts Model.Bits Model.Chess Model.Eval Model.SearchChess Model.Sym Proofs.GenProofs Proofs.ConsProofs Proofs.GenOk Proofs.LegalInv
  Proofs.CountProofs Proofs.EvalBound Proofs.StartPos.
Import ListNotations.

Theorem reach_men16 g0 g : legal_inv g0 -> men16 g0 -> chess_reach g0 g -> legal_inv g /\ men16 g.
Proof.
  intros L0 M0 R. induction R as [|g all m g' R IH HI M|g R IH IC].
  - split; assumption.
  - destruct IH as (LI & MM). split; [eapply legal_step; eassumption|].
    destruct LI as (C & KG & RG & NK & KO). unfold c_make in M. destruct (make_search_move g m) as [|g''|] eqn:E; try discriminate. injection M as ->.
    apply (make_men16 g m g' C (generated_moves_ok g C all m HI (nk_nkc g all m C KG RG NK HI)) E MM).
  - destruct IH as (LI & MM). split; [apply legal_pass; assumption|exact MM].
Qed.

Lemma men16_b_sound g : men16_b g = true -> men16 g.
Proof. unfold men16_b, men16. intros H. apply andb_true_iff in H. destruct H as [A B]. apply Nat.leb_le in A, B. split; assumption. Qed.

Lemma start_men16 : men16 start_game.
Proof. apply men16_b_sound. vm_compute. reflexivity. Qed.

Theorem evaluate_bound_inv g : legal_inv g -> men16 g -> (Z.abs (evaluate g) < MATE_BOUND)%Z.
Proof. intros (C & KG & R & _) M. apply evaluate_bound; assumption. Qed.

Theorem evaluate_bound_from_start g : chess_reach start_game g -> (Z.abs (evaluate g) < MATE_BOUND)%Z.
Proof. intros R. destruct (reach_men16 start_game g start_game_inv start_men16 R) as (LI & M). apply evaluate_bound_inv; assumption. Qed.
Print Assumptions evaluate_bound_from_start.
