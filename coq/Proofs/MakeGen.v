(* C02 / C04 / C06 assembled: consistency (`cons`) and the key invariant travel along every path of generated moves accepted
   by make_search_move and of passes, as long as no move captures a king (`nkc`: decidable; no generated move does when the
   side not to move is not in check -- checked per run by the judge on every generated move). *)
From Coq Require Import NArith ZArith List Bool Lia.
From JV Require Import Gen.Consts Model.Bits Model.Chess Model.Abs Model.SearchChess Proofs.BitboardProofs Proofs.MoveGenProofs Proofs.ZobristProofs
  Proofs.KeyProofs Proofs.GenProofs Proofs.ConsProofs Proofs.GenOk Proofs.KingsProofs.
Import ListNotations.
Local Open Scope N_scope.

Theorem make_cons_generated g all m g' : cons g -> In m (generate_moves g all) -> nkc g m ->
  make_search_move g m = Made g' -> cons g'.
Proof. intros C H NK M. apply (make_cons g m g' C (generated_moves_ok g C all m H NK) M). Qed.

Theorem null_move_cons g : cons g -> cons (null_move g).
Proof.
  intros C. unfold null_move. constructor; cbn [bbs wocc bocc aocc white ep castling bb].
  - apply (c_len g C).
  - apply (c_disj g C).
  - apply (c_wocc g C).
  - apply (c_bocc g C).
  - apply (c_aocc g C).
  - apply (c_cK g C).
  - apply (c_cQ g C).
  - apply (c_ck g C).
  - apply (c_cq g C).
  - intros X. exfalso. apply X. reflexivity.
Qed.

(* positions reachable by accepted generated moves that capture no king, and by passes *)
Inductive reach_nk (g0 : game) : game -> Prop :=
| rn_root : reach_nk g0 g0
| rn_move g all m g' : reach_nk g0 g -> In m (generate_moves g all) -> nkc g m -> c_make g m = Some g' -> reach_nk g0 g'
| rn_pass g : reach_nk g0 g -> reach_nk g0 (null_move g).

Theorem reach_good g0 g : cons g0 -> keyok g0 -> reach_nk g0 g -> cons g /\ keyok g.
Proof.
  intros C0 K0 R. induction R as [|g all m g' R IH HI NK M|g R IH].
  - split; assumption.
  - destruct IH as (C & K). unfold c_make in M. destruct (make_search_move g m) as [|g''|] eqn:E; try discriminate. injection M as ->.
    split; [eapply make_cons_generated; eassumption|eapply make_keyok_generated; eassumption].
  - destruct IH as (C & K). split; [apply null_move_cons; exact C|apply null_move_keyok; exact K].
Qed.
Theorem reach_kings g0 g : cons g0 -> kings g0 -> reach_nk g0 g -> kings g.
Proof.
  intros C0 K0 R. induction R as [|g all m g' R IH HI NK M|g R IH].
  - exact K0.
  - unfold c_make in M. destruct (make_search_move g m) as [|g''|] eqn:E; try discriminate. injection M as ->.
    assert (CG : cons g).
    { clear IH E HI NK. induction R as [|g1 all1 m1 g1' R1 IH1 HI1 NK1 M1|g1 R1 IH1]; [exact C0| |apply null_move_cons; exact IH1].
      unfold c_make in M1. destruct (make_search_move g1 m1) as [|g1''|] eqn:E1; try discriminate. injection M1 as ->.
      eapply make_cons_generated; eassumption. }
    eapply make_kings_generated; eassumption.
  - exact IH.
Qed.
Print Assumptions reach_good.
Print Assumptions reach_kings.
