(* C15: the table lookups of Model/Attacks.v (over the generated real tables) equal the ray semantics of Spec/Rays.v
   for every square and every 64-bit occupancy.  Steps: (1) PEXT/PDEP algebra (BitsProofs), (2) a ray walk reads the
   occupancy only inside the mask, (3) reflection over the complete table, (4) leapers by reflection over 64 squares. *)
From Coq Require Import Arith NArith ZArith List Bool Lia.
From JV Require Import Gen.Tables Model.Bits Model.Attacks Spec.Rays Proofs.BitsProofs.
Import ListNotations.
Local Open Scope N_scope.

(* ---- step 2: walks and masks ---- *)
Lemma walk_agree sqs : forall occ occ',
  (forall s, In s (removelast sqs) -> N.testbit occ s = N.testbit occ' s) -> walk sqs occ = walk sqs occ'.
Proof.
  induction sqs as [|s rest IH]; intros occ occ' H; cbn [walk]; [reflexivity|].
  destruct rest as [|s2 rest2].
  - cbn [walk]. destruct (N.testbit occ s), (N.testbit occ' s); reflexivity.
  - assert (Hs : N.testbit occ s = N.testbit occ' s) by (apply H; cbn; auto).
    rewrite Hs. destruct (N.testbit occ' s); [reflexivity|]. f_equal.
    apply IH. intros t Ht. apply H. cbn [removelast]. right. exact Ht.
Qed.

Lemma walk_mask sqs occ mask :
  (forall s, In s (removelast sqs) -> N.testbit mask s = true) -> walk sqs (N.land occ mask) = walk sqs occ.
Proof.
  intros H. apply walk_agree. intros s Hs. rewrite N.land_spec, (H s Hs). apply andb_true_r.
Qed.

Definition mask_covers (dirs : list (Z * Z)) (sq : N) (mask : N) : bool :=
  forallb (fun d => forallb (fun s => N.testbit mask s) (removelast (ray 7 (row_of sq) (col_of sq) (fst d) (snd d)))) dirs.

Lemma slide_mask dirs sq occ mask : mask_covers dirs sq mask = true -> slide dirs sq (N.land occ mask) = slide dirs sq occ.
Proof.
  unfold mask_covers, slide. induction dirs as [|d r IH]; cbn [forallb fold_right]; intros H; [reflexivity|].
  apply andb_prop in H. destruct H as [H1 H2]. rewrite IH by exact H2. f_equal.
  apply walk_mask. intros s Hs. rewrite forallb_forall in H1. apply H1. exact Hs.
Qed.

(* ---- step 3: reflection over the complete table ---- *)
Fixpoint eq_list (a b : list N) : bool :=
  match a, b with [], [] => true | x :: a', y :: b' => N.eqb x y && eq_list a' b' | _, _ => false end.
Lemma eq_list_true a : forall b, eq_list a b = true -> a = b.
Proof.
  induction a as [|x a IH]; intros [|y b] H; cbn in H; try discriminate; [reflexivity|].
  apply andb_prop in H. destruct H as [H1 H2]. apply N.eqb_eq in H1. subst y. f_equal. apply IH. exact H2.
Qed.

Definition check_sq (dirs : list (Z * Z)) (masks offs : list N) (sq : nat) : bool :=
  let m := nth sq masks 0 in
  let off := N.to_nat (nth sq offs 0) in
  let n := (2 ^ popcount m)%nat in
  mask_covers dirs (N.of_nat sq) m && (m <? 2 ^ 64) &&
  eq_list (firstn n (skipn off SLIDING)) (map (fun i => slide dirs (N.of_nat sq) (pdep i m)) (seqN 0 n)).

Definition check_all : bool :=
  forallb (check_sq rook_dirs ROOK_MASK ROOK_OFFSETS) (seq 0 64) &&
  forallb (check_sq bishop_dirs BISHOP_MASK BISHOP_OFFSETS) (seq 0 64).

Lemma check_all_true : check_all = true.
Proof. vm_compute. reflexivity. Qed.

(* from here on the table is abstract: no proof below may unfold the 107,648-element list during conversion *)
Global Opaque SLIDING.

Lemma nth_firstn_lt' (l : list N) : forall n i d, (i < n)%nat -> nth i (firstn n l) d = nth i l d.
Proof.
  induction l as [|x l IH]; intros n i d H.
  - rewrite firstn_nil. reflexivity.
  - destruct n as [|n]; [lia|]. cbn [firstn]. destruct i as [|i]; cbn [nth]; [reflexivity|]. apply IH. lia.
Qed.

Lemma nth_skipn (l : list N) : forall off i d, nth i (skipn off l) d = nth (off + i) l d.
Proof.
  induction l as [|x l IH]; intros off i d.
  - rewrite skipn_nil. destruct i, off; reflexivity.
  - destruct off as [|off]; cbn [skipn Nat.add]; [reflexivity|]. cbn [nth]. apply IH.
Qed.

Lemma nth_firstn_skipn (l : list N) off n i d : (i < n)%nat -> nth i (firstn n (skipn off l)) d = nth (off + i) l d.
Proof. intros H. rewrite nth_firstn_lt' by exact H. apply nth_skipn. Qed.

Lemma check_sq_entry dirs masks offs sq i :
  check_sq dirs masks offs sq = true -> (i < 2 ^ popcount (nth sq masks 0%N))%nat ->
  nth (N.to_nat (nth sq offs 0) + i) SLIDING 0 = slide dirs (N.of_nat sq) (pdep (N.of_nat i) (nth sq masks 0)).
Proof.
  unfold check_sq. cbn zeta. intros H Hi. apply andb_prop in H. destruct H as [_ H].
  apply eq_list_true in H.
  rewrite <- (nth_firstn_skipn SLIDING _ _ i 0 Hi). rewrite H.
  rewrite (nth_indep _ 0 (slide dirs (N.of_nat sq) (pdep 0 (nth sq masks 0)))) by (rewrite map_length, seqN_length; exact Hi).
  rewrite (map_nth (fun i0 => slide dirs (N.of_nat sq) (pdep i0 (nth sq masks 0)))).
  rewrite nth_seqN by exact Hi. rewrite N.add_0_l. reflexivity.
Qed.

Lemma lookup_is_slide dirs masks offs sq occ :
  forallb (check_sq dirs masks offs) (seq 0 64) = true -> sq < 64 -> 
  nthN SLIDING (nthN offs sq + pext occ (nthN masks sq)) = slide dirs sq occ.
Proof.
  intros C Hsq. rewrite forallb_forall in C.
  assert (Hin : In (N.to_nat sq) (seq 0 64)) by (apply in_seq; lia).
  specialize (C _ Hin).
  pose proof C as C'. unfold check_sq in C'. cbn zeta in C'.
  apply andb_prop in C'. destruct C' as [C1 _]. apply andb_prop in C1. destruct C1 as [Cm Clt].
  apply N.ltb_lt in Clt. rewrite N2Nat.id in Cm.
  unfold nthN. rewrite N2Nat.inj_add.
  rewrite (check_sq_entry dirs masks offs (N.to_nat sq) (N.to_nat (pext occ (nth (N.to_nat sq) masks 0))) C)
    by apply pext_lt_nat.
  rewrite !N2Nat.id. rewrite pdep_pext by exact Clt. apply slide_mask. exact Cm.
Qed.

Lemma rook_exact sq occ : sq < 64 -> get_rook_attack_table sq occ = slide rook_dirs sq occ.
Proof.
  intros H. unfold get_rook_attack_table. apply lookup_is_slide; [|exact H].
  pose proof check_all_true as C. unfold check_all in C. apply andb_prop in C. destruct C as [C1 C2]. exact C1.
Qed.
Lemma bishop_exact sq occ : sq < 64 -> get_bishop_attack_table sq occ = slide bishop_dirs sq occ.
Proof.
  intros H. unfold get_bishop_attack_table. apply lookup_is_slide; [|exact H].
  pose proof check_all_true as C. unfold check_all in C. apply andb_prop in C. destruct C as [C1 C2]. exact C2.
Qed.
Lemma queen_exact sq occ : sq < 64 ->
  get_queen_attack_table sq occ = N.lor (slide rook_dirs sq occ) (slide bishop_dirs sq occ).
Proof. intros H. unfold get_queen_attack_table. rewrite rook_exact, bishop_exact by exact H. reflexivity. Qed.

(* the table has exactly the advertised size and the offsets are the prefix sums (so no lookup leaves its segment) *)
Definition offsets_ok : bool :=
  (N.of_nat (length SLIDING) =? SLIDING_LEN) &&
  (fix go (sqs : list nat) (acc : N) (masks offs : list N) : bool :=
     match sqs with
     | [] => true
     | s :: r => (nth s offs 0 =? acc) && go r (acc + 2 ^ N.of_nat (popcount (nth s masks 0))) masks offs
     end) (seq 0 64) 0 ROOK_MASK ROOK_OFFSETS.
Lemma offsets_ok_true : offsets_ok = true.
Proof. vm_compute. reflexivity. Qed.

(* ---- step 4: leapers ---- *)
Definition leapers_ok : bool :=
  forallb (fun sq => let s := N.of_nat sq in
     (nth sq KNIGHT_ATTACKS 0 =? leaper knight_offs s) && (nth sq KING_ATTACKS 0 =? leaper king_offs s) &&
     (nth sq WHITE_PAWN_ATTACKS 0 =? leaper wpawn_offs s) && (nth sq BLACK_PAWN_ATTACKS 0 =? leaper bpawn_offs s)) (seq 0 64).
Lemma leapers_ok_true : leapers_ok = true.
Proof. vm_compute. reflexivity. Qed.

Lemma leapers_exact sq : sq < 64 ->
  get_knight_attack_table sq = leaper knight_offs sq /\ get_king_attack_table sq = leaper king_offs sq /\
  get_pawn_attack_table sq true = leaper wpawn_offs sq /\ get_pawn_attack_table sq false = leaper bpawn_offs sq.
Proof.
  intros H. pose proof leapers_ok_true as C. unfold leapers_ok in C. rewrite forallb_forall in C.
  assert (Hin : In (N.to_nat sq) (seq 0 64)) by (apply in_seq; lia).
  specialize (C _ Hin). cbn zeta in C. rewrite N2Nat.id in C.
  repeat (apply andb_prop in C; destruct C as [C ?]).
  unfold get_knight_attack_table, get_king_attack_table, get_pawn_attack_table, nthN.
  repeat split; apply N.eqb_eq; assumption.
Qed.

(* non-vacuity / sanity: a rook on d4 (square 35) with blockers on d6 (19) and f4 (37) *)
Example ex_rook : get_rook_attack_table 35 (N.lor (N.shiftl 1 19) (N.shiftl 1 37)) =
  fold_right (fun s a => N.lor (N.shiftl 1 s) a) 0 [19; 27; 43; 51; 59; 32; 33; 34; 36; 37].
Proof. vm_compute. reflexivity. Qed.
