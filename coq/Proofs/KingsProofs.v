(* C02: each side keeps exactly one king.  `kings g`: the white and the black king set are singletons.  Preserved by every
   generated move that captures no king (captures only ever look at the non-king sets; promotions never produce a king). *)
From Coq Require Import NArith ZArith List Bool Lia.
From JV Require Import Gen.Consts Model.Bits Model.Chess Model.Abs Proofs.BitboardProofs Proofs.MoveGenProofs Proofs.ZobristProofs Proofs.KeyProofs
  Proofs.GenProofs Proofs.ConsProofs Proofs.GenOk.
Import ListNotations.
Local Open Scope N_scope.

Definition single (b : N) : Prop := exists k, forall s, tb b s = true <-> s = k.
Definition kings (g : game) : Prop := single (bb g WK) /\ single (bb g BK).

(* promotions: a pawn turns into a queen, knight, rook or bishop of its colour *)
Definition promo_sane (m : move) : Prop :=
  mpromo m <> NOPIECE -> (mpiece m = WP \/ mpiece m = BP) /\ mpromo m <> WK /\ mpromo m <> BK.

Lemma promos_sane m f t p q n r b cap : (p = WP \/ p = BP) -> q <> WK -> q <> BK -> n <> WK -> n <> BK -> r <> WK -> r <> BK -> b <> WK -> b <> BK ->
  In m (promos f t p q n r b cap) -> promo_sane m.
Proof.
  intros P Q1 Q2 N1 N2 R1 R2 B1 B2 H. apply in_promos in H.
  destruct H as [-> | [-> | [-> | ->]]]; intros _; cbn [mpiece mpromo mk]; repeat split; assumption.
Qed.

Lemma nopromo_sane f t p cap dp e c : promo_sane (mk f t p NOPIECE cap dp e c).
Proof. intros X. exfalso. apply X. reflexivity. Qed.

Theorem generated_promo_sane g all m : In m (generate_moves g all) -> promo_sane m.
Proof.
  intros H. unfold generate_moves in H.
  assert (PM : forall opp p att, In m (piece_moves g all opp p att) -> promo_sane m).
  { intros opp p att X. unfold piece_moves in X. apply in_flat_map in X. destruct X as (f & _ & X). apply in_app_or in X. destruct X as [X|X].
    - destruct all; [|destruct X]. apply in_map_iff in X. destruct X as (t & <- & _). apply nopromo_sane.
    - apply in_map_iff in X. destruct X as (t & <- & _). apply nopromo_sane. }
  assert (CM : forall r e k c w t kg, In m (castle_move g all r e k c w t kg) -> promo_sane m).
  { intros r e k c w t kg X. unfold castle_move in X. destruct (_ && _ && _ && _ && _); [|destruct X]. destruct X as [<-|[]]. apply nopromo_sane. }
  assert (WPM : forall f, In m (white_pawn_moves g all f) -> promo_sane m).
  { intros f X. unfold white_pawn_moves in X. cbn zeta in X. apply in_app_or in X. destruct X as [X|X].
    - destruct (all && negb (get_bit (aocc g) (f - 8))); [|destruct X]. destruct (8 <=? f - 8).
      + destruct X as [<-|X]; [apply nopromo_sane|]. destruct (_ && _); [|destruct X]. destruct X as [<-|[]]. apply nopromo_sane.
      + eapply promos_sane; [left; reflexivity| | | | | | | | |exact X]; discriminate.
    - apply in_app_or in X. destruct X as [X|X].
      + destruct (_ && _); [|destruct X]. destruct X as [<-|[]]. apply nopromo_sane.
      + apply in_flat_map in X. destruct X as (t & _ & X). destruct (8 <=? t).
        * destruct X as [<-|[]]. apply nopromo_sane.
        * eapply promos_sane; [left; reflexivity| | | | | | | | |exact X]; discriminate. }
  assert (BPM : forall f, In m (black_pawn_moves g all f) -> promo_sane m).
  { intros f X. unfold black_pawn_moves in X. cbn zeta in X. apply in_app_or in X. destruct X as [X|X].
    - destruct (all && negb (get_bit (aocc g) (f + 8))); [|destruct X]. destruct (f + 8 <=? 55).
      + destruct X as [<-|X]; [apply nopromo_sane|]. destruct (_ && _); [|destruct X]. destruct X as [<-|[]]. apply nopromo_sane.
      + eapply promos_sane; [right; reflexivity| | | | | | | | |exact X]; discriminate.
    - apply in_app_or in X. destruct X as [X|X].
      + destruct (_ && _); [|destruct X]. destruct X as [<-|[]]. apply nopromo_sane.
      + apply in_flat_map in X. destruct X as (t & _ & X). destruct (t <=? 55).
        * destruct X as [<-|[]]. apply nopromo_sane.
        * eapply promos_sane; [right; reflexivity| | | | | | | | |exact X]; discriminate. }
  destruct (white g); repeat (apply in_app_or in H; destruct H as [H|H]); eauto;
    apply in_flat_map in H; destruct H as (f & _ & H); eauto.
Qed.

Lemma victims_not_kings w v : In v (victims w) -> v <> WK /\ v <> BK.
Proof. destruct w; cbn; intros H; repeat (destruct H as [<-|H]; [split; discriminate|]); destruct H. Qed.

Section Kings.
Variables (g : game) (m : move) (g' : game).
Hypothesis C : cons g.
Hypothesis K : move_ok g m.
Hypothesis PS : promo_sane m.
Hypothesis H : make_search_move g m = Made g'.

Lemma king_is q : q = WK \/ q = BK -> q < 12 /\ q <> WP /\ q <> BP /\ q <> WR /\ q <> BR.
Proof. intros [-> | ->]; repeat split; try reflexivity; discriminate. Qed.

Lemma D_other_king vic q :
  (mcap m = true -> mep m = false -> In vic (victims (white g)) /\ tb (bb g vic) (mto m) = true) ->
  q = WK \/ q = BK -> q <> mpiece m -> forall s, sb (ops_D g m vic) q s = tb (bb g q) s.
Proof.
  intros V QK NE s. destruct (king_is q QK) as (Q12 & QWP & QBP & QWR & QBR).
  pose proof (A_ok g m C K) as AOK. destruct (B_ok g m vic C K V) as (BOK & _ & _). pose proof (C_ok g m vic C K V) as COK.
  pose proof (k_p12 g m K) as P12.
  assert (EA : sb (ops_A g m) q s = tb (bb g q) s).
  { unfold ops_A. rewrite sb_take_other; [reflexivity|apply cons_consB; exact C|exact P12|left; exact NE]. }
  assert (EB : sb (ops_B g m vic) q s = tb (bb g q) s).
  { unfold ops_B. destruct (mcap m) eqn:CAP; [|exact EA]. destruct (mep m) eqn:EP.
    - destruct (oppP_ne g m K EP) as (_ & L12). rewrite sb_take_other; [exact EA|exact AOK|exact L12|].
      left. unfold oppP. destruct (white g); assumption.
    - destruct (V eq_refl eq_refl) as (VI & _). destruct (victims_opp g vic (mpiece m) VI (k_own g m K)) as (_ & L12 & _).
      destruct (victims_not_kings _ _ VI) as (V1 & V2).
      rewrite sb_take_other; [exact EA|exact AOK|exact L12|left; destruct QK; congruence]. }
  assert (EC : sb (ops_C g m vic) q s = tb (bb g q) s).
  { unfold ops_C. rewrite sb_put_other; [exact EB|exact BOK|exact P12|left; exact NE]. }
  unfold ops_D. cbn zeta. destruct (negb (mpromo m =? NOPIECE)) eqn:PR.
  - apply negb_true_iff, N.eqb_neq in PR. destruct (k_promo g m K PR) as (Q12' & _). destruct (PS PR) as (_ & S1 & S2).
    assert (T : sb (ops_C g m vic) (mpiece m) (mto m) = true).
    { rewrite (sb_C g m vic C K V). rewrite !N.eqb_refl. apply orb_true_r. }
    rewrite sb_put_other; [|apply take_ok; assumption|exact Q12'|left; destruct QK; congruence].
    rewrite sb_take_other; [exact EC|exact COK|exact P12|left; exact NE].
  - destruct (mcastle m) eqn:CS; [|exact EC].
    assert (R12 : rook_of (white g) < 12) by (unfold rook_of; destruct (white g); reflexivity).
    assert (QR : q <> rook_of (white g)) by (unfold rook_of; destruct (white g); assumption).
    destruct (k_castle g m K CS) as (CAP & _ & _ & CASES).
    assert (T : sb (ops_C g m vic) (rook_of (white g)) (hop_b (mto m)) = true).
    { assert (NEP : rook_of (white g) <> mpiece m).
      { destruct CASES as [(W & PK & _)|(W & PK & _)]; rewrite W, PK; discriminate. }
      rewrite (sb_C g m vic C K V). destruct (N.eqb_spec (rook_of (white g)) (mpiece m)); [contradiction|].
      unfold ops_B. rewrite CAP. rewrite (sb_A g m C K). destruct (N.eqb_spec (rook_of (white g)) (mpiece m)); [contradiction|].
      unfold rook_of, hop_b.
      destruct CASES as [(W & PK & [(T1 & E1 & R1)|(T1 & E1 & R1)])|(W & PK & [(T1 & E1 & R1)|(T1 & E1 & R1)])]; rewrite W, T1; exact R1. }
    rewrite sb_put_other; [|apply take_ok; assumption|exact R12|left; exact QR].
    rewrite sb_take_other; [exact EC|exact COK|exact R12|left; exact QR].
Qed.

Lemma D_moved_king vic :
  (mcap m = true -> mep m = false -> In vic (victims (white g)) /\ tb (bb g vic) (mto m) = true) ->
  mpiece m = WK \/ mpiece m = BK ->
  forall s, sb (ops_D g m vic) (mpiece m) s = (tb (bb g (mpiece m)) s && negb (mfrom m =? s)) || (mto m =? s).
Proof.
  intros V PK s. destruct (king_is _ PK) as (P12 & PWP & PBP & PWR & PBR).
  pose proof (A_ok g m C K) as AOK. destruct (B_ok g m vic C K V) as (BOK & _ & _). pose proof (C_ok g m vic C K V) as COK.
  assert (NOPR : mpromo m = NOPIECE).
  { destruct (N.eq_dec (mpromo m) NOPIECE) as [E|NE]; [exact E|]. destruct (PS NE) as ([X|X] & _); congruence. }
  assert (NOEP : mep m = false).
  { destruct (mep m) eqn:EP; [|reflexivity]. destruct (k_ep g m K EP) as (_ & _ & _ & _ & _ & _ & PP). unfold ownP in PP. destruct (white g); destruct PK; congruence. }
  assert (EB : sb (ops_B g m vic) (mpiece m) s = tb (bb g (mpiece m)) s && negb (mfrom m =? s)).
  { unfold ops_B. destruct (mcap m) eqn:CAP.
    - rewrite NOEP. destruct (V eq_refl NOEP) as (VI & _). destruct (victims_opp g vic (mpiece m) VI (k_own g m K)) as (VNE & L12 & _).
      rewrite sb_take_other; [|exact AOK|exact L12|left; congruence]. rewrite (sb_A g m C K), N.eqb_refl. reflexivity.
    - rewrite (sb_A g m C K), N.eqb_refl. reflexivity. }
  assert (EC : sb (ops_C g m vic) (mpiece m) s = (tb (bb g (mpiece m)) s && negb (mfrom m =? s)) || (mto m =? s)).
  { rewrite (sb_C g m vic C K V), N.eqb_refl, EB. reflexivity. }
  unfold ops_D. cbn zeta. rewrite NOPR. change (NOPIECE =? NOPIECE) with true. cbn [negb].
  destruct (mcastle m) eqn:CS; [|exact EC].
  assert (R12 : rook_of (white g) < 12) by (unfold rook_of; destruct (white g); reflexivity).
  assert (QR : mpiece m <> rook_of (white g)) by (unfold rook_of; destruct (white g); assumption).
  destruct (k_castle g m K CS) as (CAP & _ & _ & CASES).
  assert (T : sb (ops_C g m vic) (rook_of (white g)) (hop_b (mto m)) = true).
  { rewrite (sb_C g m vic C K V). destruct (N.eqb_spec (rook_of (white g)) (mpiece m)); [congruence|].
    unfold ops_B. rewrite CAP. rewrite (sb_A g m C K). destruct (N.eqb_spec (rook_of (white g)) (mpiece m)); [congruence|].
    unfold rook_of, hop_b.
    destruct CASES as [(W & PK' & [(T1 & E1 & R1)|(T1 & E1 & R1)])|(W & PK' & [(T1 & E1 & R1)|(T1 & E1 & R1)])]; rewrite W, T1; exact R1. }
  rewrite sb_put_other; [|apply take_ok; assumption|exact R12|left; exact QR].
  rewrite sb_take_other; [exact EC|exact COK|exact R12|left; exact QR].
Qed.

Lemma single_king q : q = WK \/ q = BK -> single (bb g q) -> single (bb g' q).
Proof.
  intros QK (k & SK). destruct (made_st_eq g m g' C K H) as (vic & V & E).
  assert (EQ : forall s, tb (bb g' q) s = sb (ops_D g m vic) q s) by (intros s; apply (e_bs _ _ E)).
  destruct (N.eq_dec q (mpiece m)) as [->|NE].
  - exists (mto m). intros s. rewrite EQ, (D_moved_king vic V QK).
    assert (FK : mfrom m = k) by (apply SK; apply (k_from g m K)).
    destruct (N.eqb_spec (mto m) s) as [<-|NT].
    + rewrite orb_true_r. split; auto.
    + rewrite orb_false_r. split; [|congruence]. intros X. apply andb_true_iff in X. destruct X as [X1 X2].
      apply SK in X1. subst s. rewrite FK, N.eqb_refl in X2. discriminate.
  - exists k. intros s. rewrite EQ, (D_other_king vic q V QK NE). apply SK.
Qed.

Theorem make_kings : kings g -> kings g'.
Proof. intros (KW & KB). split; [apply single_king; [left; reflexivity|exact KW]|apply single_king; [right; reflexivity|exact KB]]. Qed.
End Kings.

Theorem make_kings_generated g all m g' : cons g -> kings g -> In m (generate_moves g all) -> nkc g m ->
  make_search_move g m = Made g' -> kings g'.
Proof.
  intros C KG HI NK M. apply (make_kings g m g' C (generated_moves_ok g C all m HI NK) (generated_promo_sane g all m HI) M KG).
Qed.
Print Assumptions make_kings_generated.
