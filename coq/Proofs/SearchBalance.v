(* Backbone of the search proofs (C17, and reused by C06/C09/C12/C18):
   every call of negamax / quiescence, for every game interface, oracle, TT content and history,
     - terminates within the fuel (no OutOfFuel when fuel >= MAXPLY + 3 - ply),
     - restores `ply` and the repetition index, leaves the history prefix and the table length untouched,
     - only increases the node and poll counters, and never clears `stopping`. *)
From Coq Require Import NArith ZArith List Bool Lia.
From JV Require Import Gen.Consts Model.TT Model.Search.
Import ListNotations.

Lemma MAXPLY_val : MAXPLY = 64%nat.
Proof. reflexivity. Qed.

Section Balance.
Variables (pos move : Type).
Variable gen : pos -> bool -> list move.
Variable make : pos -> move -> option pos.
Variable null : pos -> pos.
Variable evalf : pos -> Z.
Variable in_check : pos -> bool.
Variable key : pos -> N.
Variable half100 : pos -> bool.
Variable mv_eqb : move -> move -> bool.
Variable mv_cap : move -> bool.
Variable mv_promo : move -> bool.
Variable mv_hidx : move -> nat.
Variable cap_score : pos -> move -> Z.
Variable null_mv : move.
Variable legalb : pos -> move -> bool.
Variable pollp : N -> bool.
Variable stop_at : nat -> bool.
Variable tt_bypass : bool.

Notation env := (env pos move).
Notation res := (res pos move).
Notation lres := (lres pos move).
Notation negamax := (negamax gen make null evalf in_check key half100 mv_eqb mv_cap mv_promo mv_hidx cap_score null_mv pollp stop_at tt_bypass).
Notation quiescence := (quiescence gen make evalf key half100 mv_eqb mv_cap mv_hidx cap_score null_mv pollp stop_at).
Notation negamax_body := (negamax_body gen make null evalf in_check key half100 mv_eqb mv_cap mv_promo mv_hidx cap_score null_mv pollp stop_at tt_bypass).
Notation quiescence_body := (quiescence_body gen make evalf key half100 mv_eqb mv_cap mv_hidx cap_score null_mv pollp stop_at).
Notation nloop := (nloop make key mv_cap mv_promo mv_hidx).
Notation qloop := (qloop make key).
Notation sort_moves := (sort_moves mv_eqb mv_cap mv_hidx cap_score null_mv).
Notation score_all := (score_all mv_eqb mv_cap mv_hidx cap_score null_mv).
Notation score_move := (score_move mv_eqb mv_cap mv_hidx cap_score null_mv).
Notation maybe_poll := (maybe_poll pollp stop_at).
Notation poll := (poll stop_at).
Notation enable_pv_scoring := (enable_pv_scoring mv_eqb null_mv).

Definition bal (e e' : env) : Prop :=
  ply e' = ply e /\ ridx e' = ridx e /\ firstn (ridx e) (rtab e') = firstn (ridx e) (rtab e) /\
  length (rtab e') = length (rtab e) /\ (nodes e <= nodes e')%N /\ (npolls e <= npolls e')%nat /\
  (stopping e = true -> stopping e' = true) /\
  ((forall k, stop_at k = false) -> stopping e' = stopping e).

Lemma bal_refl e : bal e e.
Proof. unfold bal. repeat split; try reflexivity; try lia; auto. Qed.
Lemma bal_trans a b c : bal a b -> bal b c -> bal a c.
Proof.
  unfold bal. intros (H1&H2&H3&H4&H5&H6&H7&H8) (K1&K2&K3&K4&K5&K6&K7&K8). rewrite H2 in K3.
  repeat split; try congruence; try lia; auto. intros N. rewrite (K8 N), (H8 N). reflexivity.
Qed.

Ltac easy_bal := unfold bal; cbn; repeat split; try reflexivity; try lia; auto.

Lemma bal_emit e ev : bal e (emit e ev). Proof. easy_bal. Qed.
Lemma bal_set_nodes e : bal e (set_nodes e (N.succ (nodes e))). Proof. easy_bal. Qed.
Lemma bal_set_pv e l t : bal e (set_pv e l t). Proof. easy_bal. Qed.
Lemma bal_set_tbl e t : bal e (set_tbl e t). Proof. easy_bal. Qed.
Lemma bal_set_hits e h : bal e (set_hits e h). Proof. easy_bal. Qed.
Lemma bal_set_killers e a b : bal e (set_killers e a b). Proof. easy_bal. Qed.
Lemma bal_set_history e h : bal e (set_history e h). Proof. easy_bal. Qed.
Lemma bal_set_flags e a b : bal e (set_flags e a b). Proof. easy_bal. Qed.
Lemma bal_insert_pv e m : bal e (insert_pv e m). Proof. easy_bal. Qed.

Lemma bal_poll e : bal e (poll e).
Proof.
  unfold poll. cbn zeta. destruct (stop_at (npolls e) && negb (stopping e)); unfold bal; cbn; repeat split; try lia;
    try (intros ->; reflexivity); intros N; rewrite N; apply orb_false_r.
Qed.
Lemma bal_maybe_poll e : bal e (maybe_poll e).
Proof. unfold Search.maybe_poll. destruct (pollp _); [apply bal_poll|apply bal_refl]. Qed.

Lemma bal_score_move g m e : bal e (snd (score_move g m e)).
Proof.
  unfold Search.score_move.
  repeat match goal with |- context [if ?c then _ else _] => destruct c end; cbn [snd]; try apply bal_refl. apply bal_set_flags.
Qed.
Lemma bal_score_all g ms : forall e, bal e (snd (score_all g ms e)).
Proof.
  induction ms as [|m r IH]; intros e; cbn [Search.score_all snd]; [apply bal_refl|].
  destruct (score_move g m e) as [s e1] eqn:E1. destruct (score_all g r e1) as [l e2] eqn:E2. cbn [snd].
  pose proof (bal_score_move g m e) as B1. rewrite E1 in B1. pose proof (IH e1) as B2. rewrite E2 in B2.
  eapply bal_trans; eassumption.
Qed.
Lemma bal_sort_moves g ms e : bal e (snd (sort_moves g ms e)).
Proof.
  unfold Search.sort_moves. destruct (score_all g ms e) as [sc e1] eqn:E. cbn [snd].
  pose proof (bal_score_all g ms e) as B. rewrite E in B. exact B.
Qed.
Lemma bal_enable_pv ms e : bal e (enable_pv_scoring ms e).
Proof. unfold Search.enable_pv_scoring. destruct (existsb _ _); apply bal_set_flags. Qed.

Lemma firstn_updl_ge {A} (l : list A) i n v : (n <= i)%nat -> firstn n (updl l i v) = firstn n l.
Proof.
  intros H. unfold updl.
  destruct (Nat.le_gt_cases (length l) i) as [Hl|Hl].
  - rewrite skipn_all2 by lia. rewrite app_nil_r. rewrite firstn_firstn. f_equal. lia.
  - rewrite firstn_app. rewrite firstn_firstn. replace (Nat.min n i) with n by lia.
    rewrite firstn_length. replace (n - Nat.min i (length l))%nat with O by lia. cbn. apply app_nil_r.
Qed.
Lemma length_updl {A} (l : list A) i v : length (updl l i v) = length l.
Proof.
  unfold updl. rewrite app_length, firstn_length.
  destruct (skipn i l) eqn:E.
  - assert (length (skipn i l) = 0)%nat by (rewrite E; reflexivity). rewrite skipn_length in H. cbn. lia.
  - assert (length (skipn i l) = S (length l0))%nat by (rewrite E; reflexivity). rewrite skipn_length in H. cbn. lia.
Qed.

(* push (make) then pop, with a balanced computation in between one ply deeper, is balanced *)
Lemma bal_push_pop e k e3 :
  bal (set_ply (rep_insert e k) (S (ply (rep_insert e k)))) e3 ->
  bal e (rep_back (set_ply e3 (pred (ply e3)))).
Proof.
  unfold bal. cbn [ply ridx rtab nodes npolls stopping set_ply rep_insert rep_back set_rep]. intros (H1&H2&H3&H4&H5&H6&H7&H8).
  rewrite H1, H2. cbn [Nat.pred]. repeat split; try lia; auto.
  - assert (H : firstn (ridx e) (firstn (S (ridx e)) (rtab e3)) =
                firstn (ridx e) (firstn (S (ridx e)) (updl (rtab e) (ridx e) k))) by (rewrite H3; reflexivity).
    rewrite !firstn_firstn in H. replace (Nat.min (ridx e) (S (ridx e))) with (ridx e) in H by lia.
    rewrite H. apply firstn_updl_ge. lia.
  - rewrite H4. apply length_updl.
Qed.

Lemma bal_make_back e k :
  bal (set_ply e (S (ply e))) (rep_back (rep_insert (set_ply e (S (ply e))) k)).
Proof.
  unfold bal. cbn [ply ridx rtab nodes npolls stopping set_ply rep_insert rep_back set_rep Nat.pred]. repeat split; try lia; auto.
  - apply firstn_updl_ge. lia.
  - apply length_updl.
Qed.

Lemma bal_set_ply_back e e4 : bal (set_ply e (S (ply e))) e4 -> bal e (set_ply e4 (pred (ply e4))).
Proof.
  unfold bal. cbn [ply ridx rtab nodes npolls stopping set_ply]. intros (H1&H2&H3&H4&H5&H6&H7&H8). rewrite H1. cbn [Nat.pred].
  repeat split; try assumption.
Qed.

Definition res_ok (e : env) (r : res) : Prop := match r with Val _ e' => bal e e' | OutOfFuel => False end.
Definition lres_ok (e : env) (r : lres) : Prop :=
  match r with LRet _ e' => bal e e' | LDone _ e' _ _ => bal e e' | LFuel => False end.

(* the fuel a call needs, given the ply it starts at *)
Definition Pn (n : nat) (f : pos -> nat -> Z -> Z -> env -> res) : Prop :=
  forall g d a b e, (ply e <= MAXPLY)%nat -> (MAXPLY + 3 - ply e <= n)%nat -> res_ok e (f g d a b e).
Definition Pq (n : nat) (f : pos -> Z -> Z -> env -> res) : Prop :=
  forall g a b e, (ply e <= MAXPLY)%nat -> (MAXPLY + 2 - ply e <= n)%nat -> res_ok e (f g a b e).

Section BodyLemmas.
Variable n : nat.
Variable rec_n : pos -> nat -> Z -> Z -> env -> res.
Variable rec_q : pos -> Z -> Z -> env -> res.
Hypothesis Hn : Pn n rec_n.
Hypothesis Hq : Pq n rec_q.

Lemma qloop_ok g ms : forall ta b e, (ply e < MAXPLY)%nat -> (MAXPLY + 1 - ply e <= n)%nat -> res_ok e (qloop rec_q g ms ta b e).
Proof.
  induction ms as [|m rest IH]; intros ta b e Hp Hf; cbn [Search.qloop].
  - apply bal_refl.
  - unfold make_rep. destruct (make g m) as [g'|]; [|apply IH; assumption].
    set (e2 := set_ply (rep_insert e (key g')) (S (ply (rep_insert e (key g'))))).
    assert (P2 : ply e2 = S (ply e)) by reflexivity.
    pose proof (Hq g' (- b)%Z (- ta)%Z e2) as H. rewrite P2 in H. specialize (H ltac:(lia) ltac:(lia)).
    destruct (rec_q g' (- b)%Z (- ta)%Z e2) as [s e3|]; [|exact H]. cbn [res_ok] in H.
    assert (B : bal e (rep_back (set_ply e3 (pred (ply e3))))) by (apply (bal_push_pop e (key g')); exact H).
    assert (P4 : ply (rep_back (set_ply e3 (pred (ply e3)))) = ply e) by (destruct B as (B1&_); exact B1).
    destruct (_ >=? b)%Z; [exact B|].
    specialize (IH (if (- s >? ta)%Z then (- s)%Z else ta) b (rep_back (set_ply e3 (pred (ply e3))))).
    rewrite P4 in IH. specialize (IH Hp Hf).
    destruct (qloop rec_q g rest _ b _) as [s' e5|]; [|exact IH]. cbn [res_ok] in *. eapply bal_trans; eassumption.
Qed.

Lemma quiescence_body_ok : Pq (S n) (quiescence_body rec_q).
Proof.
  intros g a b e Hp Hf. unfold Search.quiescence_body.
  set (e0 := emit e _). set (e1 := maybe_poll e0). set (e2 := set_nodes e1 (N.succ (nodes e1))).
  assert (B2 : bal e e2).
  { eapply bal_trans; [apply bal_emit|]. eapply bal_trans; [apply bal_maybe_poll|]. apply bal_set_nodes. }
  assert (P2 : ply e2 = ply e) by (destruct B2 as (B&_); exact B).
  destruct (Nat.ltb (MAXPLY - 1) (ply e2)) eqn:LT; cbn [orb]; [exact B2|].
  apply Nat.ltb_ge in LT.
  destruct (half100 g); [exact B2|].
  destruct (_ && _); [exact B2|].
  destruct (sort_moves g (gen g false) e2) as [ms e3] eqn:ES.
  pose proof (bal_sort_moves g (gen g false) e2) as B3. rewrite ES in B3. cbn [snd] in B3.
  assert (P3 : ply e3 = ply e) by (destruct B3 as (B&_); congruence).
  pose proof (qloop_ok g ms (if (evalf g >? a)%Z then evalf g else a) b e3) as HL. rewrite P3 in HL.
  rewrite P2 in LT. rewrite MAXPLY_val in *. specialize (HL ltac:(lia) ltac:(lia)).
  destruct (qloop rec_q g ms _ b e3) as [s e4|]; [|exact HL]. cbn [res_ok] in *.
  eapply bal_trans; [exact B2|]. eapply bal_trans; eassumption.
Qed.

Lemma neg_res_ok (e e3 : env) (r : res) (k : Z -> env -> lres) :
  res_ok e3 r -> (forall s e4, bal e3 e4 -> lres_ok e (k s e4)) -> lres_ok e (neg_res r k).
Proof. intros H K. destruct r as [s e4|]; cbn [neg_res]; [apply K; exact H|exact H]. Qed.

Notation after_move := (after_move key mv_cap mv_hidx).
Notation search_move := (search_move mv_cap mv_promo rec_n).

(* `next` is balanced w.r.t. e whenever it is started in an environment balanced w.r.t. e *)
Definition next_ok (e : env) (next : nat -> nat -> Z -> bool -> env -> lres) : Prop :=
  forall s l t x e', bal e e' -> lres_ok e (next s l t x e').

Lemma after_move_ok e e3 g depth m ta b ex searched legal next score e4 :
  next_ok e next -> bal (set_ply e (S (ply e))) e3 -> bal e3 e4 ->
  lres_ok e (after_move g depth m ta b ex searched legal next score e4).
Proof.
  intros HN B3 B4. unfold Search.after_move. cbn zeta.
  assert (B5 : bal e (set_ply e4 (pred (ply e4)))) by (apply bal_set_ply_back; eapply bal_trans; eassumption).
  set (e5 := set_ply e4 (pred (ply e4))) in *.
  destruct (stopping e5); [exact B5|].
  destruct (score >? ta)%Z; [|apply HN; exact B5].
  set (e6 := insert_pv e5 m).
  assert (B6 : bal e e6) by (eapply bal_trans; [exact B5|apply bal_insert_pv]).
  destruct (score >=? b)%Z.
  - cbn [lres_ok]. eapply bal_trans; [exact B6|].
    destruct (mv_cap m).
    + eapply bal_trans; [apply bal_emit|apply bal_set_tbl].
    + eapply bal_trans; [apply bal_set_killers|]. eapply bal_trans; [apply bal_emit|apply bal_set_tbl].
  - apply HN. destruct (mv_cap m); [exact B6|eapply bal_trans; [exact B6|apply bal_set_history]].
Qed.

Lemma search_move_ok e e3 g' depth nd inchk m searched ta b after :
  (ply e3 <= MAXPLY)%nat -> (MAXPLY + 3 - ply e3 <= n)%nat ->
  (forall s e4, bal e3 e4 -> lres_ok e (after s e4)) ->
  lres_ok e (search_move g' depth nd inchk m searched ta b e3 after).
Proof.
  intros Hp Hf HA. unfold Search.search_move.
  assert (HRt : forall d' a' b' ex3, bal e3 ex3 -> forall k, (forall s e4, bal e3 e4 -> lres_ok e (k s e4)) ->
                lres_ok e (neg_res (rec_n g' d' a' b' ex3) k)).
  { intros d' a' b' ex3 Bx k K.
    assert (Px : ply ex3 = ply e3) by (destruct Bx as (B&_); exact B).
    pose proof (Hn g' d' a' b' ex3) as R. rewrite Px in R. specialize (R Hp Hf).
    destruct (rec_n g' d' a' b' ex3) as [s e4|]; cbn [neg_res]; [|exact R]. apply K. eapply bal_trans; eassumption. }
  destruct (Nat.eqb searched 0).
  - apply HRt; [apply bal_refl|exact HA].
  - cbn zeta.
    assert (HP : forall s1 e', bal e3 e' ->
      lres_ok e (if (s1 >? ta)%Z then
          neg_res (rec_n g' (nd - 1)%nat (- ta - 1)%Z (- ta)%Z e')
            (fun s2 e'' => if (s2 >? ta)%Z && (s2 <? b)%Z
                           then neg_res (rec_n g' (nd - 1)%nat (- b)%Z (- ta)%Z e'') after
                           else after s2 e'')
        else after s1 e')).
    { intros s1 e' B'. destruct (s1 >? ta)%Z; [|apply HA; exact B'].
      apply HRt; [exact B'|]. intros s2 e'' B''. destruct (_ && _); [|apply HA; exact B''].
      apply HRt; [exact B''|exact HA]. }
    destruct (_ && _ && _ && _ && _).
    + apply HRt; [apply bal_refl|exact HP].
    + apply HP. apply bal_refl.
Qed.

Lemma lres_ok_trans e e' r : bal e e' -> lres_ok e' r -> lres_ok e r.
Proof. intros B H. destruct r; cbn [lres_ok] in *; try exact H; eapply bal_trans; eassumption. Qed.

Lemma nloop_ok g depth nd inchk ms : forall searched legal ta b ex e,
  (ply e + 2 <= MAXPLY)%nat -> (MAXPLY + 2 - ply e <= n)%nat ->
  lres_ok e (nloop rec_n g depth nd inchk ms searched legal ta b ex e).
Proof.
  induction ms as [|m rest IH]; intros searched legal ta b ex e Hp Hf; cbn [Search.nloop].
  - apply bal_refl.
  - unfold make_rep. destruct (make g m) as [g'|].
    + set (e1 := set_ply e (S (ply e))).
      set (e3 := rep_back (rep_insert e1 (key g'))).
      assert (B3 : bal e1 e3) by apply bal_make_back.
      assert (P3 : ply e3 = S (ply e)) by reflexivity.
      apply search_move_ok; [rewrite P3; lia|rewrite P3; lia|].
      intros s e4 B4. eapply after_move_ok; [|exact B3|exact B4].
      intros s' l t x e' B'. assert (P' : ply e' = ply e) by (destruct B' as (B&_); exact B).
      eapply lres_ok_trans; [exact B'|]. apply IH; rewrite P'; assumption.
    + set (e' := set_ply (set_ply e (S (ply e))) (pred (ply (set_ply e (S (ply e)))))).
      assert (B : bal e e') by (subst e'; easy_bal).
      eapply lres_ok_trans; [exact B|]. apply IH; assumption.
Qed.

Notation move_phase := (move_phase gen make key mv_eqb mv_cap mv_promo mv_hidx cap_score null_mv rec_n).

Lemma move_phase_ok g depth nd inchk a b e :
  (ply e + 2 <= MAXPLY)%nat -> (MAXPLY + 2 - ply e <= n)%nat -> res_ok e (move_phase g depth nd inchk a b e).
Proof.
  intros Hp Hf. unfold Search.move_phase. cbn zeta.
  set (ms0 := gen g true).
  set (ey := if follow_pv e then enable_pv_scoring ms0 e else e).
  assert (By : bal e ey) by (subst ey; destruct (follow_pv e); [apply bal_enable_pv|apply bal_refl]).
  destruct (sort_moves g ms0 ey) as [ms ez] eqn:ES.
  pose proof (bal_sort_moves g ms0 ey) as Bz. rewrite ES in Bz. cbn [snd] in Bz.
  assert (Bz' : bal e ez) by (eapply bal_trans; eassumption).
  assert (Pz : ply ez = ply e) by (destruct Bz' as (B&_); exact B).
  pose proof (nloop_ok g depth nd inchk ms 0 0 a b false ez) as HL.
  rewrite Pz in HL. specialize (HL Hp Hf).
  destruct (nloop rec_n g depth nd inchk ms 0 0 a b false ez) as [s ew|ta ew legal exa|]; cbn [lres_ok] in HL.
  - cbn [res_ok]. eapply bal_trans; eassumption.
  - assert (Bw : bal e ew) by (eapply bal_trans; eassumption).
    destruct (Nat.eqb legal 0).
    + destruct inchk; cbn [res_ok]; (eapply bal_trans; [exact Bw|apply bal_emit]).
    + cbn [res_ok]. eapply bal_trans; [exact Bw|]. eapply bal_trans; [apply bal_emit|apply bal_set_tbl].
  - exact HL.
Qed.

Lemma res_ok_trans e e' r : bal e e' -> res_ok e' r -> res_ok e r.
Proof. intros B H. destruct r; cbn [res_ok] in *; [eapply bal_trans; eassumption|exact H]. Qed.

Lemma negamax_body_ok : Pn (S n) (negamax_body rec_n rec_q).
Proof.
  intros g d a b e Hp Hf. unfold Search.negamax_body.
  set (e0 := emit e _).
  assert (B0 : bal e e0) by apply bal_emit.
  destruct (_ && rep_hit e0 (key g)).
  { cbn [res_ok]. eapply bal_trans; [exact B0|]. eapply bal_trans; [apply bal_set_pv|apply bal_emit]. }
  match goal with |- context [match ?X with Some _ => _ | None => _ end] => destruct X end.
  { cbn [res_ok]. eapply bal_trans; [exact B0|]. eapply bal_trans; [apply bal_set_hits|apply bal_emit]. }
  set (e1 := set_pv e0 _ _).
  assert (B1 : bal e e1) by (eapply bal_trans; [exact B0|apply bal_set_pv]).
  destruct (Nat.leb (MAXPLY - 1) (ply e1)) eqn:LE; [exact B1|].
  apply Nat.leb_gt in LE. assert (P1 : ply e1 = ply e) by reflexivity. rewrite P1 in LE.
  set (e2 := maybe_poll e1).
  assert (B2 : bal e e2) by (eapply bal_trans; [exact B1|apply bal_maybe_poll]).
  assert (P2 : ply e2 = ply e) by (destruct B2 as (B&_); exact B).
  rewrite MAXPLY_val in *.
  destruct (_ || _).
  { eapply res_ok_trans; [exact B2|]. apply Hq; rewrite P2, MAXPLY_val; lia. }
  set (e3 := set_nodes e2 _).
  assert (B3 : bal e e3) by (eapply bal_trans; [exact B2|apply bal_set_nodes]).
  assert (P3 : ply e3 = ply e) by (destruct B3 as (B&_); exact B).
  destruct (_ && _ && _).
  - set (e4 := set_ply e3 (S (ply e3))).
    pose proof (Hn (null g) ((if in_check g then S d else d) - 3)%nat (- b)%Z (- b + 1)%Z e4) as H.
    assert (P4 : ply e4 = S (ply e)) by (subst e4; cbn [ply set_ply]; rewrite P3; reflexivity).
    rewrite P4 in H. rewrite MAXPLY_val in H. specialize (H ltac:(lia) ltac:(lia)).
    destruct (rec_n (null g) _ _ _ e4) as [s e5|]; [|exact H]. cbn [res_ok] in H.
    assert (B5 : bal e (set_ply e5 (pred (ply e5)))).
    { eapply bal_trans; [exact B3|]. apply bal_set_ply_back. exact H. }
    set (e6 := set_ply e5 (pred (ply e5))) in *.
    destruct (stopping e6); [exact B5|]. destruct (_ >=? b)%Z; [exact B5|].
    eapply res_ok_trans; [exact B5|]. apply move_phase_ok.
    + destruct B5 as (B&_). rewrite B, MAXPLY_val. lia.
    + destruct B5 as (B&_). rewrite B, MAXPLY_val. lia.
  - eapply res_ok_trans; [exact B3|]. apply move_phase_ok; rewrite P3, MAXPLY_val; lia.
Qed.
End BodyLemmas.

Theorem search_balanced : forall n, Pn n (negamax n) /\ Pq n (quiescence n).
Proof.
  induction n as [|n [IHn IHq]].
  - split; [intros g d a b e Hp Hf|intros g a b e Hp Hf]; rewrite MAXPLY_val in *; lia.
  - split.
    + apply negamax_body_ok; assumption.
    + apply quiescence_body_ok; assumption.
Qed.

(* the root call with the fuel the model uses *)
Corollary negamax_root_ok g d a b e : ply e = O -> res_ok e (negamax FUEL g d a b e).
Proof.
  intros P. apply (proj1 (search_balanced FUEL)); rewrite P; unfold FUEL; rewrite MAXPLY_val; lia.
Qed.

(* ---- the whole search(): every iteration starts and ends at ply 0 with the history untouched ---- *)
Notation id_loop := (id_loop gen make null evalf in_check key half100 mv_eqb mv_cap mv_promo mv_hidx cap_score null_mv legalb pollp stop_at tt_bypass).
Notation search := (search gen make null evalf in_check key half100 mv_eqb mv_cap mv_promo mv_hidx cap_score null_mv legalb pollp stop_at tt_bypass).

Definition sres_ok (e : env) (r : sres pos move) : Prop :=
  match r with SDone _ e' _ => bal e e' | SFuel => False end.

Lemma id_loop_ok iters : forall g cur maxd a b sc e outs, ply e = O -> sres_ok e (id_loop iters g cur maxd a b sc e outs).
Proof.
  induction iters as [|it IH]; intros g cur maxd a b sc e outs P; cbn [Search.id_loop].
  - apply bal_refl.
  - destruct (Nat.ltb maxd cur); [apply bal_refl|].
    set (e0 := set_flags e true (score_pv e)).
    assert (B0 : bal e e0) by apply bal_set_flags.
    pose proof (negamax_root_ok g cur a b e0 P) as H.
    destruct (negamax FUEL g cur a b e0) as [s e1|]; [|exact H]. cbn [res_ok] in H.
    assert (B1 : bal e e1) by exact (bal_trans _ _ _ B0 H).
    assert (P1 : ply e1 = O) by (destruct B1 as (B&_); congruence).
    destruct (stopping e1); [exact B1|].
    destruct (_ || _).
    + specialize (IH g (S cur) maxd (- INFINITY)%Z INFINITY s e1 outs P1).
      destruct (id_loop it g (S cur) maxd _ _ s e1 outs); cbn [sres_ok] in *; [eapply bal_trans; eassumption|exact IH].
    + match goal with |- context [id_loop it g (S cur) maxd ?a' ?b' s e1 ?o] =>
        specialize (IH g (S cur) maxd a' b' s e1 o P1); destruct (id_loop it g (S cur) maxd a' b' s e1 o) end;
        cbn [sres_ok] in *; [eapply bal_trans; eassumption|exact IH].
Qed.

Theorem search_frame g depth t rt ri :
  exists outs e s, search g depth t rt ri = SDone outs e s /\ ply e = O /\ ridx e = ri /\
    firstn ri (rtab e) = firstn ri rt /\ length (rtab e) = length rt.
Proof.
  unfold Search.search.
  set (e0 := @init_env pos move null_mv t rt ri).
  pose proof (id_loop_ok (S (max_depth_of depth)) g 1 (max_depth_of depth) (- INFINITY)%Z INFINITY 0%Z e0 [] eq_refl) as H.
  destruct (id_loop _ g 1 _ _ _ _ e0 []) as [outs e s|]; [|destruct H].
  exists outs, e, s. split; [reflexivity|]. destruct H as (H1&H2&H3&H4&_). cbn in H1, H2, H3, H4. auto.
Qed.

(* a search that no poll ever tells to stop is not stopped when it ends *)
Theorem search_never_stopped g depth t rt ri :
  (forall k, stop_at k = false) ->
  match search g depth t rt ri with SDone _ e _ => stopping e = false | SFuel => False end.
Proof.
  intros N. unfold Search.search.
  set (e0 := @init_env pos move null_mv t rt ri).
  pose proof (id_loop_ok (S (max_depth_of depth)) g 1 (max_depth_of depth) (- INFINITY)%Z INFINITY 0%Z e0 [] eq_refl) as H.
  destruct (id_loop _ g 1 _ _ _ _ e0 []) as [outs e s|]; [|exact H].
  destruct H as (_&_&_&_&_&_&_&H8). rewrite (H8 N). reflexivity.
Qed.

End Balance.
