(* C03 / C12 (parts): shape of what search() prints, for every game interface / oracle / TT / history:
   zero or more info lines with strictly increasing depth and non-decreasing node counts, then exactly one bestmove;
   the fallback of the best move (no PV) picks a legal move whenever one exists. *)
From Coq Require Import NArith ZArith List Bool Lia.
From JV Require Import Gen.Consts Model.TT Model.Search Proofs.SearchBalance.
Import ListNotations.

Section Outputs.
Variables (pos move : Type).
Variable gen : pos -> bool -> list move.
Variable make : pos -> move -> option pos.
Variable null : pos -> pos.
Variable evalf : pos -> Z.
Variable in_check : pos -> bool.
Variable key : pos -> N.
Variable half100 : pos -> bool.
Variable mv_eqb : move -> move -> bool.
Variable mv_cap : move -> bool.
Variable mv_promo : move -> bool.
Variable mv_hidx : move -> nat.
Variable cap_score : pos -> move -> Z.
Variable null_mv : move.
Variable legalb : pos -> move -> bool.
Variable pollp : N -> bool.
Variable stop_at : nat -> bool.
Variable tt_bypass : bool.
Notation env := (env pos move).
Notation negamax := (negamax gen make null evalf in_check key half100 mv_eqb mv_cap mv_promo mv_hidx cap_score null_mv pollp stop_at tt_bypass).
Notation id_loop := (id_loop gen make null evalf in_check key half100 mv_eqb mv_cap mv_promo mv_hidx cap_score null_mv legalb pollp stop_at tt_bypass).
Notation search := (search gen make null evalf in_check key half100 mv_eqb mv_cap mv_promo mv_hidx cap_score null_mv legalb pollp stop_at tt_bypass).
Notation best_move := (best_move gen mv_eqb null_mv legalb).
Notation bal := (bal pos move).

(* info lines: depths strictly increasing and all below `bound`, node counts non-decreasing and at most `n` *)
Inductive infos_ok : list (out move) -> nat -> N -> Prop :=
| io_nil : forall d n, infos_ok [] d n
| io_snoc : forall l s m d nd pv d' n', infos_ok l d nd -> (d < d')%nat -> (nd <= n')%N ->
            infos_ok (l ++ [OInfo s m d nd pv]) d' n'.

Lemma infos_ok_weaken l d n : infos_ok l d n -> forall d' n', (d <= d')%nat -> (n <= n')%N -> infos_ok l d' n'.
Proof. induction 1; intros; [constructor|]. econstructor; [eassumption|lia|lia]. Qed.

Lemma id_loop_outputs iters : forall g cur maxd a b sc (e : env) outs r e' s,
  ply e = O -> infos_ok outs cur (nodes e) ->
  id_loop iters g cur maxd a b sc e outs = SDone r e' s ->
  exists m, r = (fun l => l) (firstn (length r - 1) r) ++ [OBest m] /\ infos_ok (firstn (length r - 1) r) (S (cur + iters)) (nodes e').
Proof.
  induction iters as [|it IH]; intros g cur maxd a b sc e outs r e' s P IO H; cbn [Search.id_loop] in H.
  - injection H as <- <- <-. exists (best_move g e). rewrite app_length. cbn [length]. replace (length outs + 1 - 1)%nat with (length outs) by lia.
    rewrite firstn_app, firstn_all, Nat.sub_diag. cbn [firstn]. rewrite app_nil_r. split; [reflexivity|].
    eapply infos_ok_weaken; [exact IO|lia|lia].
  - destruct (Nat.ltb maxd cur).
    { injection H as <- <- <-. exists (best_move g e). rewrite app_length. cbn [length]. replace (length outs + 1 - 1)%nat with (length outs) by lia.
      rewrite firstn_app, firstn_all, Nat.sub_diag. cbn [firstn]. rewrite app_nil_r. split; [reflexivity|].
      eapply infos_ok_weaken; [exact IO|lia|lia]. }
    set (e0 := set_flags e true (score_pv e)) in *.
    pose proof (negamax_root_ok _ _ gen make null evalf in_check key half100 mv_eqb mv_cap mv_promo mv_hidx cap_score null_mv pollp stop_at tt_bypass g cur a b e0 P) as R.
    destruct (negamax (FUEL) g cur a b e0) as [s1 e1|]; [|discriminate]. cbn [res_ok] in R.
    assert (P1 : ply e1 = O) by (destruct R as (B&_); rewrite B; exact P).
    assert (N1 : (nodes e <= nodes e1)%N) by (destruct R as (_&_&_&_&B&_); exact B).
    destruct (stopping e1).
    { injection H as <- <- <-. exists (best_move g e1). rewrite app_length. cbn [length]. replace (length outs + 1 - 1)%nat with (length outs) by lia.
      rewrite firstn_app, firstn_all, Nat.sub_diag. cbn [firstn]. rewrite app_nil_r. split; [reflexivity|].
      eapply infos_ok_weaken; [exact IO|lia|lia]. }
    destruct (_ || _).
    + destruct (IH g (S cur) maxd _ _ s1 e1 outs r e' s P1 (infos_ok_weaken _ _ _ IO (S cur) (nodes e1) ltac:(lia) N1) H) as (m & E & I).
      exists m. split; [exact E|]. replace (S (cur + S it)) with (S (S cur + it)) by lia. exact I.
    + match type of H with id_loop it g (S cur) maxd ?a' ?b' s1 e1 ?o = _ =>
        assert (IO' : infos_ok o (S cur) (nodes e1)) by (econstructor; [exact (infos_ok_weaken _ _ _ IO cur (nodes e1) ltac:(lia) N1)|lia|lia]);
        destruct (IH g (S cur) maxd a' b' s1 e1 o r e' s P1 IO' H) as (m & E & I) end.
      exists m. split; [exact E|]. replace (S (cur + S it)) with (S (S cur + it)) by lia. exact I.
Qed.

(* search(): the output is a list of info lines followed by exactly one bestmove *)
Theorem search_outputs g depth t rt ri r e s :
  search g depth t rt ri = SDone r e s ->
  exists infos m, r = infos ++ [OBest m] /\ infos_ok infos (S (S (S (max_depth_of depth)))) (nodes e).
Proof.
  unfold Search.search. intros H.
  assert (P0 : ply (@init_env pos move null_mv t rt ri) = O) by reflexivity.
  destruct (id_loop_outputs _ _ _ _ _ _ _ _ _ _ _ _ P0 (io_nil 1 _) H) as (m & E & I).
  exists (firstn (length r - 1) r), m. split; [exact E|]. exact I.
Qed.

(* the fallback used when pv_table[0][0] is still the null move *)
Theorem best_move_fallback_legal g (e : env) :
  mv_eqb (nth 0 (pv_row e 0) null_mv) null_mv = true ->
  filter (legalb g) (gen g true) <> [] ->
  In (best_move g e) (filter (legalb g) (gen g true)).
Proof.
  intros H NE. unfold Search.best_move. rewrite H.
  destruct (filter (legalb g) (gen g true)) as [|x l]; [contradiction|]. left. reflexivity.
Qed.
End Outputs.
