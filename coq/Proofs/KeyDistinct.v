(* C04: positions that differ only by the side to move, by a quiet move or by a simple capture never share a key
   (consequences of the XOR-independence of the key tables, for the from-scratch key make_zobrist_hash). *)
From Coq Require Import NArith List Bool Lia.
From JV Require Import Gen.Consts Model.Bits Model.Chess Proofs.BitboardProofs Proofs.MoveGenProofs Proofs.ZobristProofs Proofs.KeyProofs.
Import ListNotations.
Local Open Scope N_scope.

Definition with_bbs (g : game) (bs : list N) : game :=
  mkGame bs (wocc g) (bocc g) (aocc g) (white g) (ep g) (castling g) (half g) (full g) (hash g).
Definition with_side (g : game) (w : bool) : game :=
  mkGame (bbs g) (wocc g) (bocc g) (aocc g) w (ep g) (castling g) (half g) (full g) (hash g).

(* the part of the key that does not come from the placement *)
Definition restk (g : game) : N :=
  let h := castle_key (castling g) in
  let h := if white g then h else N.lxor h SIDE_KEY in
  if ep g =? NOSQ then h else N.lxor h (ep_key (ep g)).
Lemma zobrist_split g : make_zobrist_hash g = N.lxor (BH (bbs g)) (restk g).
Proof. rewrite zobrist_BH. unfold restk. cbn zeta. destruct (white g), (ep g =? NOSQ); xor_solve. Qed.

Lemma lxor_ne a b d : d <> 0 -> a = N.lxor b d -> a <> b.
Proof. intros D E H. apply D. rewrite H in E. apply (f_equal (N.lxor b)) in E. rewrite N.lxor_nilpotent, <- N.lxor_assoc, N.lxor_nilpotent, N.lxor_0_l in E. symmetry. exact E. Qed.

(* membership of the table entries *)
Lemma piece_keys_length : length PIECE_KEYS = 768%nat. Proof. vm_compute. reflexivity. Qed.
Lemma piece_key_in p s : p < 12 -> s < 64 -> In (piece_key p s) all_keys.
Proof.
  intros P S. unfold piece_key, nthN, all_keys. apply in_or_app. left. apply nth_In. rewrite piece_keys_length. lia.
Qed.
Lemma piece_key_inj p s q t : p < 12 -> s < 64 -> q < 12 -> t < 64 -> piece_key p s = piece_key q t -> p = q /\ s = t.
Proof.
  intros P S Q T E. destruct keys_independent as (ND & _). assert (NDP : NoDup PIECE_KEYS) by (unfold all_keys in ND; apply NoDup_app_l in ND; exact ND).
  unfold piece_key, nthN in E. rewrite NoDup_nth in NDP. apply NDP in E; [|rewrite piece_keys_length; lia|rewrite piece_keys_length; lia]. lia.
Qed.
Lemma side_key_in : In SIDE_KEY all_keys.
Proof. unfold all_keys. apply in_or_app. right. apply in_or_app. right. apply in_or_app. right. left. reflexivity. Qed.

(* ---- side to move ---- *)
Theorem side_changes_key g : make_zobrist_hash (with_side g (negb (white g))) <> make_zobrist_hash g.
Proof.
  destruct keys_independent as (_ & NZ & _).
  apply (lxor_ne _ _ SIDE_KEY); [intros Z; apply NZ; rewrite <- Z; apply side_key_in|].
  rewrite !zobrist_split. unfold restk. cbn [bbs white castling ep with_side]. destruct (white g), (ep g =? NOSQ); cbn [negb]; xor_solve.
Qed.

(* ---- a man moved to an empty square ---- *)
Definition moved (bs : list N) (p f t : N) : list N :=
  let b1 := upd bs p (unset_bit (nthN bs p) f) in upd b1 p (set_bit (nthN b1 p) t).
Lemma BH_moved bs p f t : length bs = 12%nat -> p < 12 -> f <> t -> N.testbit (nthN bs p) f = true -> N.testbit (nthN bs p) t = false ->
  BH (moved bs p f t) = N.lxor (BH bs) (N.lxor (piece_key p f) (piece_key p t)).
Proof.
  intros L P NE TF TT. unfold moved. cbn zeta.
  pose proof (J_unset bs p f (BH bs) 0 L P TF ltac:(rewrite N.lxor_0_r; reflexivity)) as J1. rewrite N.lxor_0_r in J1.
  set (b1 := upd bs p (unset_bit (nthN bs p) f)) in *.
  assert (L1 : length b1 = 12%nat) by (subst b1; rewrite upd_length; exact L).
  assert (T1 : N.testbit (nthN b1 p) t = false).
  { subst b1. rewrite nthN_upd_same by (rewrite L; lia). rewrite testbit_unset_bit, TT. reflexivity. }
  pose proof (J_set b1 p t (BH b1) 0 L1 P T1 ltac:(rewrite N.lxor_0_r; reflexivity)) as J2. rewrite N.lxor_0_r in J2.
  rewrite <- J2, <- J1. xor_solve.
Qed.

Theorem quiet_move_changes_key g p f t : length (bbs g) = 12%nat -> p < 12 -> f < 64 -> t < 64 -> f <> t ->
  N.testbit (bb g p) f = true -> N.testbit (bb g p) t = false ->
  make_zobrist_hash (with_bbs g (moved (bbs g) p f t)) <> make_zobrist_hash g.
Proof.
  intros L P F T NE TF TT. destruct keys_independent as (_ & _ & I2 & _).
  apply (lxor_ne _ _ (N.lxor (piece_key p f) (piece_key p t))).
  - apply I2; [apply piece_key_in; assumption|apply piece_key_in; assumption|]. intros E. apply piece_key_inj in E; try assumption. destruct E as (_ & E). contradiction.
  - rewrite !zobrist_split. change (restk (with_bbs g _)) with (restk g). cbn [bbs with_bbs]. rewrite (BH_moved (bbs g) p f t L P NE TF TT). xor_solve.
Qed.

(* ---- a simple capture: the victim leaves the target square, the mover goes there ---- *)
Definition captured (bs : list N) (p f t v : N) : list N := moved (upd bs v (unset_bit (nthN bs v) t)) p f t.
Theorem simple_capture_changes_key g p f t v : length (bbs g) = 12%nat -> p < 12 -> v < 12 -> p <> v -> f < 64 -> t < 64 -> f <> t ->
  N.testbit (bb g p) f = true -> N.testbit (bb g p) t = false -> N.testbit (bb g v) t = true ->
  make_zobrist_hash (with_bbs g (captured (bbs g) p f t v)) <> make_zobrist_hash g.
Proof.
  intros L P V PV F T NE TF TT TV. destruct keys_independent as (_ & _ & _ & I3 & _).
  apply (lxor_ne _ _ (N.lxor (N.lxor (piece_key p f) (piece_key p t)) (piece_key v t))).
  - apply I3; try (apply piece_key_in; assumption).
    + intros E. apply piece_key_inj in E; try assumption. destruct E as (_ & E). contradiction.
    + intros E. apply piece_key_inj in E; try assumption. destruct E as (E & _). contradiction.
    + intros E. apply piece_key_inj in E; try assumption. destruct E as (E & _). contradiction.
  - rewrite !zobrist_split. change (restk (with_bbs g _)) with (restk g). cbn [bbs with_bbs]. unfold captured.
    pose proof (J_unset (bbs g) v t (BH (bbs g)) 0 L V TV ltac:(rewrite N.lxor_0_r; reflexivity)) as J1. rewrite N.lxor_0_r in J1.
    set (b1 := upd (bbs g) v (unset_bit (nthN (bbs g) v) t)) in *.
    assert (L1 : length b1 = 12%nat) by (subst b1; rewrite upd_length; exact L).
    assert (E1 : nthN b1 p = nthN (bbs g) p) by (subst b1; apply nthN_upd_other; congruence).
    rewrite (BH_moved b1 p f t L1 P NE ltac:(rewrite E1; exact TF) ltac:(rewrite E1; exact TT)). rewrite <- J1. xor_solve.
Qed.
Print Assumptions simple_capture_changes_key.
