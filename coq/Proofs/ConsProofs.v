(* C02 (consistency half): make_search_move keeps the position consistent at the bit level -- twelve pairwise disjoint
   piece sets, occupancy sets = unions -- by viewing it as a sequence of paired operations (put a man on an empty square /
   take a man that is there), each of which preserves the board/occupancy consistency `consB`. *)
From Coq Require Import NArith ZArith List Bool Lia.
From JV Require Import Gen.Consts Model.Bits Model.Chess Model.Abs Proofs.BitboardProofs Proofs.MoveGenProofs Proofs.ZobristProofs Proofs.KeyProofs Proofs.GenProofs Proofs.MakeProofs.
Import ListNotations.
Local Open Scope N_scope.

Record st := mkSt { s_bs : list N; s_wo : N; s_bo : N; s_ao : N }.
Definition sb (x : st) (p s : N) : bool := tb (nthN (s_bs x) p) s.

Record consB (x : st) : Prop := mkConsB {
  b_len : length (s_bs x) = 12%nat;
  b_disj : forall p q s, p < 12 -> q < 12 -> p <> q -> sb x p s = true -> sb x q s = false;
  b_wocc : forall s, tb (s_wo x) s = true <-> exists p, p < 6 /\ sb x p s = true;
  b_bocc : forall s, tb (s_bo x) s = true <-> exists p, 6 <= p < 12 /\ sb x p s = true;
  b_aocc : forall s, tb (s_ao x) s = tb (s_wo x) s || tb (s_bo x) s
}.

Definition put (x : st) (p s : N) : st :=
  mkSt (upd (s_bs x) p (set_bit (nthN (s_bs x) p) s))
       (if p <? 6 then set_bit (s_wo x) s else s_wo x) (if p <? 6 then s_bo x else set_bit (s_bo x) s) (set_bit (s_ao x) s).
Definition take (x : st) (p s : N) : st :=
  mkSt (upd (s_bs x) p (unset_bit (nthN (s_bs x) p) s))
       (if p <? 6 then unset_bit (s_wo x) s else s_wo x) (if p <? 6 then s_bo x else unset_bit (s_bo x) s) (unset_bit (s_ao x) s).

Lemma tb_set b sq s : tb (set_bit b sq) s = tb b s || (sq =? s).
Proof. apply testbit_set_bit. Qed.
Lemma tb_unset b sq s : tb (unset_bit b sq) s = tb b s && negb (sq =? s).
Proof. apply testbit_unset_bit. Qed.

Lemma sb_upd x p v q s : (N.to_nat p < length (s_bs x))%nat ->
  tb (nthN (upd (s_bs x) p v) q) s = if q =? p then tb v s else sb x q s.
Proof.
  intros L. destruct (N.eqb_spec q p) as [->|NE].
  - rewrite nthN_upd_same by exact L. reflexivity.
  - rewrite nthN_upd_other by congruence. reflexivity.
Qed.

Lemma sb_put x p sq q s : consB x -> p < 12 -> sb (put x p sq) q s = if q =? p then sb x q s || (sq =? s) else sb x q s.
Proof.
  intros C P. unfold sb at 1. cbn [put s_bs]. rewrite sb_upd by (rewrite (b_len x C); lia).
  destruct (N.eqb_spec q p) as [->|]; [apply tb_set|reflexivity].
Qed.
Lemma sb_take x p sq q s : consB x -> p < 12 -> sb (take x p sq) q s = if q =? p then sb x q s && negb (sq =? s) else sb x q s.
Proof.
  intros C P. unfold sb at 1. cbn [take s_bs]. rewrite sb_upd by (rewrite (b_len x C); lia).
  destruct (N.eqb_spec q p) as [->|]; [apply tb_unset|reflexivity].
Qed.

Lemma occ_none x s : consB x -> tb (s_ao x) s = false -> forall q, q < 12 -> sb x q s = false.
Proof.
  intros C A q Q. destruct (sb x q s) eqn:T; [|reflexivity]. exfalso.
  rewrite (b_aocc x C) in A. apply orb_false_iff in A. destruct A as [A1 A2].
  destruct (N.lt_ge_cases q 6) as [L|G].
  - assert (X : tb (s_wo x) s = true) by (apply (b_wocc x C); exists q; split; assumption). congruence.
  - assert (X : tb (s_bo x) s = true) by (apply (b_bocc x C); exists q; split; [lia|assumption]). congruence.
Qed.

Lemma put_ok x p sq : consB x -> p < 12 -> tb (s_ao x) sq = false -> consB (put x p sq).
Proof.
  intros C P A. pose proof (occ_none x sq C A) as NONE.
  constructor.
  - cbn [put s_bs]. rewrite upd_length. apply (b_len x C).
  - intros a b s Pa Pb NE. rewrite !(sb_put x p sq) by assumption.
    destruct (N.eqb_spec a p) as [->|Na]; destruct (N.eqb_spec b p) as [->|Nb]; try congruence.
    + intros H. apply orb_true_iff in H. destruct H as [H|H]; [apply (b_disj x C p b s); assumption|].
      apply N.eqb_eq in H. subst s. apply NONE. exact Pb.
    + intros H. rewrite (b_disj x C a p s Pa P Na H). cbn.
      destruct (N.eqb_spec sq s) as [<-|]; [|reflexivity]. rewrite (NONE a Pa) in H. discriminate.
    + apply (b_disj x C a b s); assumption.
  - intros s. cbn [put s_wo]. destruct (N.ltb_spec p 6) as [L|G].
    + rewrite tb_set. split.
      * intros H. apply orb_true_iff in H. destruct H as [H|H].
        -- apply (b_wocc x C) in H. destruct H as (q & Q & T). exists q. split; [exact Q|]. rewrite (sb_put x p sq) by assumption.
           destruct (q =? p); [rewrite T; reflexivity|exact T].
        -- exists p. split; [exact L|]. rewrite (sb_put x p sq) by assumption. rewrite N.eqb_refl, H. apply orb_true_r.
      * intros (q & Q & T). rewrite (sb_put x p sq) in T by assumption. destruct (N.eqb_spec q p) as [->|NE].
        -- apply orb_true_iff in T. destruct T as [T|T]; [|rewrite T; apply orb_true_r].
           assert (X : tb (s_wo x) s = true) by (apply (b_wocc x C); exists p; split; assumption). rewrite X. reflexivity.
        -- assert (X : tb (s_wo x) s = true) by (apply (b_wocc x C); exists q; split; assumption). rewrite X. reflexivity.
    + split.
      * intros H. apply (b_wocc x C) in H. destruct H as (q & Q & T). exists q. split; [exact Q|]. rewrite (sb_put x p sq) by assumption.
        destruct (N.eqb_spec q p) as [->|]; [lia|exact T].
      * intros (q & Q & T). rewrite (sb_put x p sq) in T by assumption. destruct (N.eqb_spec q p) as [->|]; [lia|].
        apply (b_wocc x C). exists q. split; assumption.
  - intros s. cbn [put s_bo]. destruct (N.ltb_spec p 6) as [L|G].
    + split.
      * intros H. apply (b_bocc x C) in H. destruct H as (q & Q & T). exists q. split; [exact Q|]. rewrite (sb_put x p sq) by assumption.
        destruct (N.eqb_spec q p) as [->|]; [lia|exact T].
      * intros (q & Q & T). rewrite (sb_put x p sq) in T by assumption. destruct (N.eqb_spec q p) as [->|]; [lia|].
        apply (b_bocc x C). exists q. split; assumption.
    + rewrite tb_set. split.
      * intros H. apply orb_true_iff in H. destruct H as [H|H].
        -- apply (b_bocc x C) in H. destruct H as (q & Q & T). exists q. split; [exact Q|]. rewrite (sb_put x p sq) by assumption.
           destruct (q =? p); [rewrite T; reflexivity|exact T].
        -- exists p. split; [lia|]. rewrite (sb_put x p sq) by assumption. rewrite N.eqb_refl, H. apply orb_true_r.
      * intros (q & Q & T). rewrite (sb_put x p sq) in T by assumption. destruct (N.eqb_spec q p) as [->|NE].
        -- apply orb_true_iff in T. destruct T as [T|T]; [|rewrite T; apply orb_true_r].
           assert (X : tb (s_bo x) s = true) by (apply (b_bocc x C); exists p; split; [lia|assumption]). rewrite X. reflexivity.
        -- assert (X : tb (s_bo x) s = true) by (apply (b_bocc x C); exists q; split; assumption). rewrite X. reflexivity.
  - intros s. cbn [put s_ao s_wo s_bo]. rewrite tb_set, (b_aocc x C). destruct (p <? 6); rewrite tb_set;
      destruct (tb (s_wo x) s), (tb (s_bo x) s), (sq =? s); reflexivity.
Qed.

Lemma take_ok x p sq : consB x -> p < 12 -> sb x p sq = true -> consB (take x p sq).
Proof.
  intros C P T0.
  assert (ONLY : forall q, q < 12 -> q <> p -> sb x q sq = false) by (intros q Q NE; apply (b_disj x C p q sq); auto).
  constructor.
  - cbn [take s_bs]. rewrite upd_length. apply (b_len x C).
  - intros a b s Pa Pb NE. rewrite !(sb_take x p sq) by assumption.
    destruct (N.eqb_spec a p) as [->|Na]; destruct (N.eqb_spec b p) as [->|Nb]; try congruence.
    + intros H. apply andb_true_iff in H. destruct H as [H _]. apply (b_disj x C p b s); assumption.
    + intros H. rewrite (b_disj x C a p s Pa P Na H). reflexivity.
    + apply (b_disj x C a b s); assumption.
  - intros s. cbn [take s_wo]. destruct (N.ltb_spec p 6) as [L|G].
    + rewrite tb_unset. split.
      * intros H. apply andb_true_iff in H. destruct H as [H NEs]. apply (b_wocc x C) in H. destruct H as (q & Q & T).
        exists q. split; [exact Q|]. rewrite (sb_take x p sq) by assumption. destruct (q =? p); [rewrite T, NEs; reflexivity|exact T].
      * intros (q & Q & T). rewrite (sb_take x p sq) in T by assumption. destruct (N.eqb_spec q p) as [->|NE].
        -- apply andb_true_iff in T. destruct T as [T NEs]. rewrite NEs, andb_true_r. apply (b_wocc x C). exists p. split; assumption.
        -- assert (X : tb (s_wo x) s = true) by (apply (b_wocc x C); exists q; split; assumption). rewrite X. cbn.
           destruct (N.eqb_spec sq s) as [<-|]; [|reflexivity]. rewrite (ONLY q ltac:(lia) NE) in T. discriminate.
    + split.
      * intros H. apply (b_wocc x C) in H. destruct H as (q & Q & T). exists q. split; [exact Q|]. rewrite (sb_take x p sq) by assumption.
        destruct (N.eqb_spec q p) as [->|]; [lia|exact T].
      * intros (q & Q & T). rewrite (sb_take x p sq) in T by assumption. destruct (N.eqb_spec q p) as [->|]; [lia|].
        apply (b_wocc x C). exists q. split; assumption.
  - intros s. cbn [take s_bo]. destruct (N.ltb_spec p 6) as [L|G].
    + split.
      * intros H. apply (b_bocc x C) in H. destruct H as (q & Q & T). exists q. split; [exact Q|]. rewrite (sb_take x p sq) by assumption.
        destruct (N.eqb_spec q p) as [->|]; [lia|exact T].
      * intros (q & Q & T). rewrite (sb_take x p sq) in T by assumption. destruct (N.eqb_spec q p) as [->|]; [lia|].
        apply (b_bocc x C). exists q. split; assumption.
    + rewrite tb_unset. split.
      * intros H. apply andb_true_iff in H. destruct H as [H NEs]. apply (b_bocc x C) in H. destruct H as (q & Q & T).
        exists q. split; [exact Q|]. rewrite (sb_take x p sq) by assumption. destruct (q =? p); [rewrite T, NEs; reflexivity|exact T].
      * intros (q & Q & T). rewrite (sb_take x p sq) in T by assumption. destruct (N.eqb_spec q p) as [->|NE].
        -- apply andb_true_iff in T. destruct T as [T NEs]. rewrite NEs, andb_true_r. apply (b_bocc x C). exists p. split; [lia|assumption].
        -- assert (X : tb (s_bo x) s = true) by (apply (b_bocc x C); exists q; split; assumption). rewrite X. cbn.
           destruct (N.eqb_spec sq s) as [<-|]; [|reflexivity]. rewrite (ONLY q ltac:(lia) NE) in T. discriminate.
  - intros s. cbn [take s_ao s_wo s_bo]. rewrite tb_unset, (b_aocc x C).
    destruct (N.ltb_spec p 6) as [L|G]; rewrite tb_unset.
    + destruct (N.eqb_spec sq s) as [<-|]; [|cbn; rewrite !andb_true_r; reflexivity].
      assert (X : tb (s_bo x) sq = false).
      { destruct (tb (s_bo x) sq) eqn:E; [|reflexivity]. apply (b_bocc x C) in E. destruct E as (q & Q & T).
        rewrite (ONLY q ltac:(lia) ltac:(lia)) in T. discriminate. }
      rewrite X. cbn. rewrite !andb_false_r. reflexivity.
    + destruct (N.eqb_spec sq s) as [<-|]; [|cbn; rewrite !andb_true_r; reflexivity].
      assert (X : tb (s_wo x) sq = false).
      { destruct (tb (s_wo x) sq) eqn:E; [|reflexivity]. apply (b_wocc x C) in E. destruct E as (q & Q & T).
        rewrite (ONLY q ltac:(lia) ltac:(lia)) in T. discriminate. }
      rewrite X. cbn. rewrite !andb_false_r. reflexivity.
Qed.

(* ---- consB only reads bits: pointwise-equal states are interchangeable ---- *)
Record st_eq (x y : st) : Prop := mkStEq {
  e_len : length (s_bs x) = length (s_bs y);
  e_bs : forall q s, sb x q s = sb y q s;
  e_wo : forall s, tb (s_wo x) s = tb (s_wo y) s;
  e_bo : forall s, tb (s_bo x) s = tb (s_bo y) s;
  e_ao : forall s, tb (s_ao x) s = tb (s_ao y) s }.

Lemma consB_ext x y : st_eq x y -> consB y -> consB x.
Proof.
  intros E C. constructor.
  - rewrite (e_len x y E). apply (b_len y C).
  - intros p q s P Q NE. rewrite !(e_bs x y E). apply (b_disj y C); assumption.
  - intros s. rewrite (e_wo x y E). split.
    + intros H. apply (b_wocc y C) in H. destruct H as (q & Q & T). exists q. rewrite (e_bs x y E). tauto.
    + intros (q & Q & T). apply (b_wocc y C). exists q. rewrite <- (e_bs x y E). tauto.
  - intros s. rewrite (e_bo x y E). split.
    + intros H. apply (b_bocc y C) in H. destruct H as (q & Q & T). exists q. rewrite (e_bs x y E). tauto.
    + intros (q & Q & T). apply (b_bocc y C). exists q. rewrite <- (e_bs x y E). tauto.
  - intros s. rewrite (e_ao x y E), (e_wo x y E), (e_bo x y E). apply (b_aocc y C).
Qed.

Definition st_of (g : game) : st := mkSt (bbs g) (wocc g) (bocc g) (aocc g).
Lemma cons_consB g : cons g -> consB (st_of g).
Proof. intros C. constructor; [apply (c_len g C)|apply (c_disj g C)|apply (c_wocc g C)|apply (c_bocc g C)|apply (c_aocc g C)]. Qed.

(* raw list version of the board lookup after an update *)
Lemma tb_nth_upd bs p v q s : (N.to_nat p < length bs)%nat ->
  tb (nthN (upd bs p v) q) s = if q =? p then tb v s else tb (nthN bs q) s.
Proof.
  intros L. destruct (N.eqb_spec q p) as [->|NE].
  - rewrite nthN_upd_same by exact L. reflexivity.
  - rewrite nthN_upd_other by congruence. reflexivity.
Qed.

Lemma upd_nth_comm (l : list N) : forall i j a b, i <> j -> upd_nth (upd_nth l i a) j b = upd_nth (upd_nth l j b) i a.
Proof.
  induction l as [|x r IH]; intros i j a b NE; [destruct i, j; reflexivity|].
  destruct i as [|i], j as [|j]; cbn; try reflexivity; [congruence|]. f_equal. apply IH. congruence.
Qed.
Lemma upd_comm l p q a b : p <> q -> upd (upd l p a) q b = upd (upd l q b) p a.
Proof. intros NE. unfold upd. apply upd_nth_comm. intros E. apply NE. apply N2Nat.inj. exact E. Qed.

Lemma set_unset_comm x a b : a <> b -> set_bit (unset_bit x b) a = unset_bit (set_bit x a) b.
Proof.
  intros NE. apply N.bits_inj. intros s. fold (tb (set_bit (unset_bit x b) a) s) (tb (unset_bit (set_bit x a) b) s).
  rewrite !tb_set, !tb_unset, !tb_set. destruct (N.eqb_spec a s) as [E1|]; destruct (N.eqb_spec b s) as [E2|]; try congruence;
    destruct (tb x s); reflexivity.
Qed.

(* ---- what a move must satisfy for make_search_move to act as put / take operations ---- *)
Definition ownP (w : bool) : N := if w then WP else BP.
Definition oppP (w : bool) : N := if w then BP else WP.
Definition behind (w : bool) (t : N) : N := if w then t + 8 else t - 8.

Record move_ok (g : game) (m : move) : Prop := mkOk {
  k_p12 : mpiece m < 12;
  k_own : (mpiece m <? 6) = white g;
  k_from : tb (bb g (mpiece m)) (mfrom m) = true;
  k_ft : mfrom m <> mto m;
  k_quiet : mcap m = false -> tb (aocc g) (mto m) = false;
  k_cap : mcap m = true -> mep m = false -> exists v, In v (victims (white g)) /\ tb (bb g v) (mto m) = true;
  k_ep : mep m = true -> mcap m = true /\ tb (aocc g) (mto m) = false /\ tb (bb g (oppP (white g))) (behind (white g) (mto m)) = true /\
                         mpromo m = NOPIECE /\ mcastle m = false /\ mdp m = false /\ mpiece m = ownP (white g);
  k_promo : mpromo m <> NOPIECE -> mpromo m < 12 /\ (mpromo m <? 6) = white g /\ mpromo m <> mpiece m /\ mcastle m = false /\ mdp m = false;
  k_castle : mcastle m = true -> mcap m = false /\ mpromo m = NOPIECE /\ mdp m = false /\
     ((white g = true /\ mpiece m = WK /\ ((mto m = 62 /\ tb (aocc g) 61 = false /\ tb (bb g WR) 63 = true) \/
                                           (mto m = 58 /\ tb (aocc g) 59 = false /\ tb (bb g WR) 56 = true))) \/
      (white g = false /\ mpiece m = BK /\ ((mto m = 6 /\ tb (aocc g) 5 = false /\ tb (bb g BR) 7 = true) \/
                                            (mto m = 2 /\ tb (aocc g) 3 = false /\ tb (bb g BR) 0 = true))));
  k_castle_from : mcastle m = true -> mfrom m = (if white g then 60 else 4);
  k_dp : mdp m = true -> mcap m = false /\ mpromo m = NOPIECE /\ mpiece m = ownP (white g) /\
         tb (aocc g) (behind (white g) (mto m)) = false /\ (if white g then mfrom m = mto m + 16 else mto m = mfrom m + 16)
}.

Lemma sb_st_of g q s : sb (st_of g) q s = tb (bb g q) s.
Proof. reflexivity. Qed.

Lemma victims_opp g v p : In v (victims (white g)) -> (p <? 6) = white g -> v <> p /\ v < 12 /\ (v <? 6) = negb (white g).
Proof.
  intros V O. destruct (white g); unfold victims in V; cbn [In] in V.
  - apply N.ltb_lt in O. repeat (destruct V as [<-|V]; [repeat split; try lia; reflexivity|]). destruct V.
  - apply N.ltb_ge in O. repeat (destruct V as [<-|V]; [repeat split; try lia; reflexivity|]). destruct V.
Qed.

(* the operations a move stands for; vic = the board the captured man is on *)
Definition ops_A (g : game) (m : move) : st := take (st_of g) (mpiece m) (mfrom m).
Definition ops_B (g : game) (m : move) (vic : N) : st :=
  if mcap m then (if mep m then take (ops_A g m) (oppP (white g)) (behind (white g) (mto m)) else take (ops_A g m) vic (mto m))
  else ops_A g m.
Definition ops_C (g : game) (m : move) (vic : N) : st := put (ops_B g m vic) (mpiece m) (mto m).
Definition rook_of (w : bool) : N := if w then WR else BR.
Definition hop_a (t : N) : N := if t =? 62 then 61 else if t =? 58 then 59 else if t =? 6 then 5 else 3.
Definition hop_b (t : N) : N := if t =? 62 then 63 else if t =? 58 then 56 else if t =? 6 then 7 else 0.
Definition ops_D (g : game) (m : move) (vic : N) : st :=
  let c := ops_C g m vic in
  if negb (mpromo m =? NOPIECE) then put (take c (mpiece m) (mto m)) (mpromo m) (mto m)
  else if mcastle m then put (take c (rook_of (white g)) (hop_b (mto m))) (rook_of (white g)) (hop_a (mto m))
  else c.

Section Ops.
Variables (g : game) (m : move) (vic : N).
Hypothesis C : cons g.
Hypothesis K : move_ok g m.
Hypothesis V : mcap m = true -> mep m = false -> In vic (victims (white g)) /\ tb (bb g vic) (mto m) = true.
Let p := mpiece m. Let f := mfrom m. Let t := mto m. Let w := white g.

Lemma A_ok : consB (ops_A g m).
Proof. apply take_ok; [apply cons_consB; exact C|apply (k_p12 g m K)|apply (k_from g m K)]. Qed.

Lemma sb_A q s : sb (ops_A g m) q s = if q =? p then tb (bb g q) s && negb (f =? s) else tb (bb g q) s.
Proof. unfold ops_A. rewrite sb_take; [reflexivity|apply cons_consB; exact C|apply (k_p12 g m K)]. Qed.
Lemma ao_A s : tb (s_ao (ops_A g m)) s = tb (aocc g) s && negb (f =? s).
Proof. unfold ops_A. cbn [take s_ao st_of]. apply tb_unset. Qed.

Lemma oppP_ne : mep m = true -> oppP w <> p /\ oppP w < 12.
Proof.
  intros E. destruct (k_ep g m K E) as (_ & _ & _ & _ & _ & _ & PP). fold p w in PP. rewrite PP. unfold oppP, ownP. destruct w; split; try discriminate; reflexivity.
Qed.

Lemma B_ok : consB (ops_B g m vic) /\ tb (s_ao (ops_B g m vic)) t = false /\
             (forall q s, q < 12 -> sb (ops_B g m vic) q s = true -> sb (ops_A g m) q s = true).
Proof.
  unfold ops_B. destruct (mcap m) eqn:CAP.
  - destruct (mep m) eqn:EP.
    + destruct (k_ep g m K EP) as (_ & AT & PB & _). destruct (oppP_ne EP) as (NE & L12). fold w t in PB, AT |- *.
      assert (T : sb (ops_A g m) (oppP w) (behind w t) = true).
      { rewrite sb_A. destruct (N.eqb_spec (oppP w) p); [contradiction|exact PB]. }
      split; [apply take_ok; [apply A_ok|exact L12|exact T]|]. split.
      * cbn [take s_ao]. rewrite tb_unset, ao_A. rewrite AT. reflexivity.
      * intros q s Q H. rewrite sb_take in H; [|apply A_ok|exact L12]. destruct (q =? oppP w); [apply andb_true_iff in H; tauto|exact H].
    + destruct (V eq_refl eq_refl) as (VI & VT). destruct (victims_opp g vic p VI (k_own g m K)) as (NE & L12 & _). fold t in VT |- *.
      assert (T : sb (ops_A g m) vic t = true).
      { rewrite sb_A. destruct (N.eqb_spec vic p); [contradiction|exact VT]. }
      split; [apply take_ok; [apply A_ok|exact L12|exact T]|]. split.
      * cbn [take s_ao]. rewrite tb_unset, N.eqb_refl. apply andb_false_r.
      * intros q s Q H. rewrite sb_take in H; [|apply A_ok|exact L12]. destruct (q =? vic); [apply andb_true_iff in H; tauto|exact H].
  - split; [apply A_ok|]. split; [|intros q s _ H; exact H].
    rewrite ao_A. unfold t. rewrite (k_quiet g m K CAP). reflexivity.
Qed.

Lemma C_ok : consB (ops_C g m vic).
Proof. destruct B_ok as (B1 & B2 & _). apply put_ok; [exact B1|apply (k_p12 g m K)|exact B2]. Qed.

Lemma sb_C q s : sb (ops_C g m vic) q s = if q =? p then sb (ops_B g m vic) q s || (t =? s) else sb (ops_B g m vic) q s.
Proof. unfold ops_C. destruct B_ok as (B1 & _). rewrite sb_put; [reflexivity|exact B1|apply (k_p12 g m K)]. Qed.

Lemma D_ok : consB (ops_D g m vic).
Proof.
  unfold ops_D. cbn zeta. pose proof C_ok as CC.
  destruct (negb (mpromo m =? NOPIECE)) eqn:PR.
  - apply negb_true_iff, N.eqb_neq in PR. destruct (k_promo g m K PR) as (P12 & _ & _ & _ & _).
    assert (T : sb (ops_C g m vic) (mpiece m) (mto m) = true) by (rewrite sb_C; fold p t; rewrite !N.eqb_refl; apply orb_true_r).
    apply put_ok; [apply take_ok; [exact CC|apply (k_p12 g m K)|exact T]|exact P12|].
    cbn [take s_ao]. rewrite tb_unset, N.eqb_refl. apply andb_false_r.
  - destruct (mcastle m) eqn:CS; [|exact CC].
    destruct (k_castle g m K CS) as (CAP & _ & _ & CASES).
    assert (BA : ops_B g m vic = ops_A g m) by (unfold ops_B; rewrite CAP; reflexivity).
    assert (GEN : forall rk a b, rk < 12 -> rk <> p -> a <> b -> t <> a -> tb (aocc g) a = false -> tb (bb g rk) b = true ->
                  consB (put (take (ops_C g m vic) rk b) rk a)).
    { intros rk a b RK NE AB TA EA TB.
      assert (T : sb (ops_C g m vic) rk b = true).
      { rewrite sb_C. destruct (N.eqb_spec rk p); [contradiction|]. rewrite BA, sb_A. destruct (N.eqb_spec rk p); [contradiction|exact TB]. }
      apply put_ok; [apply take_ok; [exact CC|exact RK|exact T]|exact RK|].
      cbn [take s_ao]. rewrite tb_unset. unfold ops_C. cbn [put s_ao]. rewrite tb_set, BA, ao_A, EA.
      destruct (N.eqb_spec (mto m) a); [contradiction|]. reflexivity. }
    fold w. unfold rook_of, hop_a, hop_b.
    destruct CASES as [(W & PK & [(T1 & E1 & R1)|(T1 & E1 & R1)])|(W & PK & [(T1 & E1 & R1)|(T1 & E1 & R1)])]; fold w in W; rewrite W; rewrite T1; cbn [N.eqb Pos.eqb];
      apply GEN; try assumption; try reflexivity; try discriminate; try (unfold p; rewrite PK; discriminate); try (unfold t; rewrite T1; discriminate).
Qed.
End Ops.

Lemma remove_first_unique bs t v : forall ps, In v ps -> tb (nthN bs v) t = true ->
  (forall q, In q ps -> tb (nthN bs q) t = true -> q = v) ->
  remove_first bs ps t = (upd bs v (unset_bit (nthN bs v) t), Some v).
Proof.
  induction ps as [|q r IH]; intros HI T U; [destruct HI|].
  cbn [remove_first]. unfold get_bit. fold (tb (nthN bs q) t). destruct (tb (nthN bs q) t) eqn:TQ.
  - rewrite (U q (or_introl eq_refl) TQ). reflexivity.
  - destruct HI as [->|HI]; [congruence|]. apply IH; [exact HI|exact T|]. intros q' Hq. apply U. right. exact Hq.
Qed.

Ltac len12 := rewrite ?upd_length; match goal with L : length _ = 12%nat |- _ => rewrite L end; lia.
Ltac bitsimp := repeat (rewrite ?tb_set, ?tb_unset; rewrite ?tb_nth_upd by len12).
Ltac eqbs := repeat match goal with |- context [N.eqb ?a ?b] => destruct (N.eqb_spec a b); subst; try discriminate; try congruence; try lia end.

Ltac boolsolve :=
  repeat match goal with |- context [tb ?x ?s] => generalize (tb x s); intro end;
  repeat match goal with b : bool |- _ => destruct b end; reflexivity.
Ltac fin :=
  unfold WP, WN, WB, WR, WQ, WK, BP, BN, BB, BR, BQ, BK in *;
  constructor; cbn [st_of s_bs s_wo s_bo s_ao bbs wocc bocc aocc];
  [rewrite !upd_length; reflexivity
  |intros q s; unfold sb; cbn [s_bs]; try reflexivity; bitsimp; eqbs; try reflexivity; boolsolve
  |intros s; try reflexivity; bitsimp; eqbs; try reflexivity; boolsolve
  |intros s; try reflexivity; bitsimp; eqbs; try reflexivity; boolsolve
  |intros s; try reflexivity; bitsimp; eqbs; try reflexivity; boolsolve].

(* the position part of a made move does not depend on the double-push flag *)
Lemma st_of_tail (w dp : bool) bs wo bo ao t h4 c hm fm :
  st_of (let '(e, h) := if dp then (if w then (t + 8, N.lxor h4 (ep_key (t + 8))) else (t - 8, N.lxor h4 (ep_key (t - 8)))) else (NOSQ, h4) in
         mkGame bs wo bo ao (negb w) e c hm fm (N.lxor (N.lxor h (castle_key c)) SIDE_KEY)) = mkSt bs wo bo ao.
Proof. destruct dp, w; reflexivity. Qed.

Section MakeCons.
Variables (g : game) (m : move) (g' : game).
Hypothesis C : cons g.
Hypothesis K : move_ok g m.
Hypothesis H : make_search_move g m = Made g'.

Lemma made_state : exists bs wo bo ao, st_of g' = mkSt bs wo bo ao /\
  (let f := mfrom m in let t := mto m in let p := mpiece m in let w := white g in
   let bs2 := upd (upd (bbs g) p (unset_bit (bb g p) f)) p (set_bit (nthN (upd (bbs g) p (unset_bit (bb g p) f)) p) t) in
   exists bs3 wo3 bo3 ao3 h h3,
     stage_cap g m bs2 (set_bit (unset_bit (aocc g) f) t) h = (bs3, wo3, bo3, ao3, h3) /\
     exists h4, stage_special m bs3 (if w then set_bit (unset_bit wo3 f) t else wo3) (if w then bo3 else set_bit (unset_bit bo3 f) t) ao3 h3 = Some (bs, wo, bo, ao, h4)).
Proof.
  pose proof H as H'. rewrite make_staged_eq in H'. unfold make_staged in H'. cbn zeta in H'.
  match type of H' with context [stage_cap g m ?b ?a ?h] => destruct (stage_cap g m b a h) as [[[[bs3 wo3] bo3] ao3] h3] eqn:SC end.
  destruct (in_check_raw bs3 ao3 (white g)); [discriminate|].
  destruct (white g) eqn:W; cbn iota in H'.
  - match type of H' with context [stage_special m bs3 ?wo ?bo ao3 h3] => destruct (stage_special m bs3 wo bo ao3 h3) as [[[[[bs4 wo4] bo4] ao4] h4]|] eqn:SS end; [|discriminate].
    exists bs4, wo4, bo4, ao4. split; [destruct (mdp m); cbn iota in H'; injection H' as <-; reflexivity|].
    cbn zeta. eexists _, _, _, _, _, _. split; [exact SC|]. exists h4. exact SS.
  - match type of H' with context [stage_special m bs3 ?wo ?bo ao3 h3] => destruct (stage_special m bs3 wo bo ao3 h3) as [[[[[bs4 wo4] bo4] ao4] h4]|] eqn:SS end; [|discriminate].
    exists bs4, wo4, bo4, ao4. split; [destruct (mdp m); cbn iota in H'; injection H' as <-; reflexivity|].
    cbn zeta. eexists _, _, _, _, _, _. split; [exact SC|]. exists h4. exact SS.
Qed.

Lemma victim_unique vic : In vic (victims (white g)) -> tb (bb g vic) (mto m) = true ->
  remove_first (upd (upd (bbs g) (mpiece m) (unset_bit (bb g (mpiece m)) (mfrom m))) (mpiece m)
                    (set_bit (nthN (upd (bbs g) (mpiece m) (unset_bit (bb g (mpiece m)) (mfrom m))) (mpiece m)) (mto m)))
               (victims (white g)) (mto m)
  = (upd (upd (upd (bbs g) (mpiece m) (unset_bit (bb g (mpiece m)) (mfrom m))) (mpiece m)
                    (set_bit (nthN (upd (bbs g) (mpiece m) (unset_bit (bb g (mpiece m)) (mfrom m))) (mpiece m)) (mto m)))
          vic (unset_bit (nthN (upd (upd (bbs g) (mpiece m) (unset_bit (bb g (mpiece m)) (mfrom m))) (mpiece m)
                    (set_bit (nthN (upd (bbs g) (mpiece m) (unset_bit (bb g (mpiece m)) (mfrom m))) (mpiece m)) (mto m))) vic) (mto m)), Some vic).
Proof.
  intros VI VT. pose proof (c_len g C) as L.
  assert (OTHER : forall q, In q (victims (white g)) ->
            tb (nthN (upd (upd (bbs g) (mpiece m) (unset_bit (bb g (mpiece m)) (mfrom m))) (mpiece m)
                    (set_bit (nthN (upd (bbs g) (mpiece m) (unset_bit (bb g (mpiece m)) (mfrom m))) (mpiece m)) (mto m))) q) (mto m) = tb (bb g q) (mto m)).
  { intros q Q. destruct (victims_opp g q (mpiece m) Q (k_own g m K)) as (NE & _). rewrite !nthN_upd_other by congruence. reflexivity. }
  apply remove_first_unique; [exact VI|rewrite OTHER by exact VI; exact VT|].
  intros q Q T. rewrite OTHER in T by exact Q.
  destruct (N.eq_dec q vic) as [E|NE]; [exact E|exfalso].
  destruct (victims_opp g q (mpiece m) Q (k_own g m K)) as (_ & Q12 & _).
  destruct (victims_opp g vic (mpiece m) VI (k_own g m K)) as (_ & V12 & _).
  pose proof (c_disj g C q vic (mto m) Q12 V12 NE T). congruence.
Qed.

Lemma behind_ne : mep m = true -> behind (white g) (mto m) <> mto m.
Proof.
  intros EP E. destruct (k_ep g m K EP) as (_ & AT & PB & _ & _ & _ & PP). rewrite E in PB.
  assert (X : tb (bb g (oppP (white g))) (mto m) = false).
  { apply (occ_clear g C); [unfold oppP; destruct (white g); reflexivity|exact AT]. }
  congruence.
Qed.

Lemma made_st_eq : exists vic, (mcap m = true -> mep m = false -> In vic (victims (white g)) /\ tb (bb g vic) (mto m) = true) /\ st_eq (st_of g') (ops_D g m vic).
Proof.
  pose proof (k_ft g m K) as FT.
  destruct made_state as (bs & wo & bo & ao & ST & SC). cbn zeta in SC.
  destruct SC as (bs3 & wo3 & bo3 & ao3 & h & h3 & SC & h4 & SS).
  rewrite ST. clear ST. pose proof (c_len g C) as L. pose proof (k_own g m K) as OWN. pose proof (k_p12 g m K) as P12.
  (* the board of the captured man *)
  assert (VIC : exists vic, mcap m = true -> mep m = false -> In vic (victims (white g)) /\ tb (bb g vic) (mto m) = true).
  { destruct (mcap m) eqn:CAP; [|exists 0; discriminate]. destruct (mep m) eqn:EP; [exists 0; discriminate|].
    destruct (k_cap g m K CAP EP) as (v & V1 & V2). exists v. intros _ _. split; assumption. }
  destruct VIC as (vic & V). exists vic. split; [exact V|].
  unfold stage_cap in SC. cbn zeta in SC. unfold stage_special in SS. cbn zeta in SS.
  unfold ops_D, ops_C, ops_B, ops_A. cbn zeta.
  destruct (mcap m) eqn:CAP.
  - destruct (mep m) eqn:EP.
    + (* en passant *)
      destruct (k_ep g m K EP) as (_ & _ & _ & PR & CS & _ & PP). rewrite PR, CS in SS |- *.
      pose proof (behind_ne EP) as BNE. unfold behind in BNE.
      change (NOPIECE =? NOPIECE) with true in SS |- *. cbn [negb] in SS |- *.
      unfold oppP, behind, put, take. cbn [st_of s_bs s_wo s_bo s_ao].
      destruct (white g) eqn:W; cbn iota in SC, SS; injection SC as <- <- <- <- _; injection SS as <- <- <- <- _;
        rewrite ?OWN; cbn [N.ltb N.compare Pos.compare Pos.compare_cont WP BP]; rewrite PP in *; unfold ownP in *; fin.
    + (* capture *)
      destruct (V eq_refl eq_refl) as (VI & VT). rewrite (victim_unique vic VI VT) in SC.
      destruct (victims_opp g vic (mpiece m) VI OWN) as (NEV & V12 & VCOL).
      assert (CS : mcastle m = false) by (destruct (mcastle m) eqn:X; [destruct (k_castle g m K X) as (Y & _); congruence|reflexivity]).
      rewrite CS in SS |- *. unfold put, take. cbn [st_of s_bs s_wo s_bo s_ao].
      destruct (negb (mpromo m =? NOPIECE)) eqn:PR.
      * apply negb_true_iff, N.eqb_neq in PR. destruct (k_promo g m K PR) as (Q12 & QCOL & QNE & _ & _).
        destruct (white g) eqn:W; cbn iota in SC, SS; injection SC as <- <- <- <- _; injection SS as <- <- <- <- _;
          rewrite ?OWN, ?VCOL, ?QCOL; cbn [negb]; fin.
      * destruct (white g) eqn:W; cbn iota in SC, SS; injection SC as <- <- <- <- _; injection SS as <- <- <- <- _;
          rewrite ?OWN, ?VCOL; cbn [negb]; fin.
  - injection SC as <- <- <- <- _. unfold put, take. cbn [st_of s_bs s_wo s_bo s_ao].
    destruct (negb (mpromo m =? NOPIECE)) eqn:PR.
    + apply negb_true_iff, N.eqb_neq in PR. destruct (k_promo g m K PR) as (Q12 & QCOL & QNE & _ & _).
      destruct (white g) eqn:W; cbn iota in SS; injection SS as <- <- <- <- _; rewrite ?OWN, ?QCOL; fin.
    + destruct (mcastle m) eqn:CS.
      * destruct (k_castle g m K CS) as (_ & _ & _ & CASES). unfold rook_of, hop_a, hop_b.
        destruct CASES as [(W & PK & [(T1 & E1 & R1)|(T1 & E1 & R1)])|(W & PK & [(T1 & E1 & R1)|(T1 & E1 & R1)])];
          rewrite W in *; rewrite T1 in *; cbn [N.eqb Pos.eqb] in SS |- *; cbn iota in SS; injection SS as <- <- <- <- _;
          rewrite ?OWN; rewrite PK in *; cbn [N.ltb N.compare Pos.compare Pos.compare_cont WR BR WK BK]; fin.
      * destruct (white g) eqn:W; cbn iota in SS; injection SS as <- <- <- <- _; rewrite ?OWN; fin.
Qed.

Theorem make_consB : consB (st_of g').
Proof. destruct made_st_eq as (vic & V & E). apply (consB_ext _ _ E). apply D_ok; assumption. Qed.

(* what the operations leave alone *)
Lemma sb_take_other x p' s' q s : consB x -> p' < 12 -> (q <> p' \/ s <> s') -> sb (take x p' s') q s = sb x q s.
Proof.
  intros CX P O. rewrite sb_take by assumption. destruct (N.eqb_spec q p') as [->|]; [|reflexivity].
  destruct O as [O|O]; [contradiction|]. destruct (N.eqb_spec s' s); [congruence|]. apply andb_true_r.
Qed.
Lemma sb_put_other x p' s' q s : consB x -> p' < 12 -> (q <> p' \/ s <> s') -> sb (put x p' s') q s = sb x q s.
Proof.
  intros CX P O. rewrite sb_put by assumption. destruct (N.eqb_spec q p') as [->|]; [|reflexivity].
  destruct O as [O|O]; [contradiction|]. destruct (N.eqb_spec s' s); [congruence|]. apply orb_false_r.
Qed.

Lemma D_frame vic q s :
  (mcap m = true -> mep m = false -> In vic (victims (white g)) /\ tb (bb g vic) (mto m) = true) ->
  s <> mfrom m -> s <> mto m -> q <> WP -> q <> BP -> (mcastle m = true -> q <> rook_of (white g)) ->
  sb (ops_D g m vic) q s = tb (bb g q) s.
Proof.
  intros V SF STo QW QB QR.
  pose proof (A_ok g m C K) as AOK. destruct (B_ok g m vic C K V) as (BOK & _ & _). pose proof (C_ok g m vic C K V) as COK.
  pose proof (k_p12 g m K) as P12.
  assert (EA : sb (ops_A g m) q s = tb (bb g q) s).
  { unfold ops_A. rewrite sb_take_other; [reflexivity|apply cons_consB; exact C|exact P12|right; exact SF]. }
  assert (EB : sb (ops_B g m vic) q s = tb (bb g q) s).
  { unfold ops_B. destruct (mcap m) eqn:CAP; [|exact EA]. destruct (mep m) eqn:EP.
    - destruct (oppP_ne g m K EP) as (_ & L12). rewrite sb_take_other; [exact EA|exact AOK|exact L12|].
      left. unfold oppP. destruct (white g); assumption.
    - destruct (V eq_refl eq_refl) as (VI & _). destruct (victims_opp g vic (mpiece m) VI (k_own g m K)) as (_ & L12 & _).
      rewrite sb_take_other; [exact EA|exact AOK|exact L12|right; exact STo]. }
  assert (EC : sb (ops_C g m vic) q s = tb (bb g q) s).
  { unfold ops_C. rewrite sb_put_other; [exact EB|exact BOK|exact P12|right; exact STo]. }
  unfold ops_D. cbn zeta. destruct (negb (mpromo m =? NOPIECE)) eqn:PR.
  - apply negb_true_iff, N.eqb_neq in PR. destruct (k_promo g m K PR) as (Q12 & _).
    assert (T : sb (ops_C g m vic) (mpiece m) (mto m) = true).
    { rewrite (sb_C g m vic C K V). rewrite !N.eqb_refl. apply orb_true_r. }
    rewrite sb_put_other; [|apply take_ok; assumption|exact Q12|right; exact STo].
    rewrite sb_take_other; [exact EC|exact COK|exact P12|right; exact STo].
  - destruct (mcastle m) eqn:CS; [|exact EC]. specialize (QR eq_refl).
    assert (R12 : rook_of (white g) < 12) by (unfold rook_of; destruct (white g); reflexivity).
    destruct (k_castle g m K CS) as (CAP & _ & _ & CASES).
    assert (T : sb (ops_C g m vic) (rook_of (white g)) (hop_b (mto m)) = true).
    { assert (NEP : rook_of (white g) <> mpiece m).
      { destruct CASES as [(W & PK & _)|(W & PK & _)]; rewrite W, PK; discriminate. }
      rewrite (sb_C g m vic C K V). destruct (N.eqb_spec (rook_of (white g)) (mpiece m)); [contradiction|].
      unfold ops_B. rewrite CAP. rewrite (sb_A g m C K). destruct (N.eqb_spec (rook_of (white g)) (mpiece m)); [contradiction|].
      unfold rook_of, hop_b.
      destruct CASES as [(W & PK & [(T1 & E1 & R1)|(T1 & E1 & R1)])|(W & PK & [(T1 & E1 & R1)|(T1 & E1 & R1)])]; rewrite W, T1; exact R1. }
    rewrite sb_put_other; [|apply take_ok; assumption|exact R12|left; exact QR].
    rewrite sb_take_other; [exact EC|exact COK|exact R12|left; exact QR].
Qed.

Lemma CR_K sq : tb (nthN CASTLING_RIGHTS sq) 0 = true -> sq <> 60 /\ sq <> 63.
Proof. intros T. split; intros ->; vm_compute in T; discriminate. Qed.
Lemma CR_Q sq : tb (nthN CASTLING_RIGHTS sq) 1 = true -> sq <> 60 /\ sq <> 56.
Proof. intros T. split; intros ->; vm_compute in T; discriminate. Qed.
Lemma CR_k sq : tb (nthN CASTLING_RIGHTS sq) 2 = true -> sq <> 4 /\ sq <> 7.
Proof. intros T. split; intros ->; vm_compute in T; discriminate. Qed.
Lemma CR_q sq : tb (nthN CASTLING_RIGHTS sq) 3 = true -> sq <> 4 /\ sq <> 0.
Proof. intros T. split; intros ->; vm_compute in T; discriminate. Qed.

(* a castling right that survives the move still has its king and rook at home *)
Lemma right_survives i kq ks rq rs :
  (forall sq, tb (nthN CASTLING_RIGHTS sq) i = true -> sq <> ks /\ sq <> rs) ->
  (tb (castling g) i = true -> tb (bb g kq) ks = true /\ tb (bb g rq) rs = true) ->
  kq <> WP -> kq <> BP -> rq <> WP -> rq <> BP ->
  (mcastle m = true -> kq <> rook_of (white g)) ->
  (mcastle m = true -> mfrom m <> ks -> rq <> rook_of (white g)) ->
  tb (castling g') i = true -> tb (bb g' kq) ks = true /\ tb (bb g' rq) rs = true.
Proof.
  intros TAB HOME K1 K2 R1 R2 KR RR T.
  destruct (make_scalars g m g' H) as (_ & _ & _ & CG & _). rewrite CG in T.
  rewrite !land_bit in T. apply andb_true_iff in T. destruct T as [T0 T]. apply andb_true_iff in T. destruct T as [Tt Tf].
  destruct (TAB _ Tt) as (t1 & t2). destruct (TAB _ Tf) as (f1 & f2). destruct (HOME T0) as (HK & HR).
  destruct made_st_eq as (vic & V & E).
  change (tb (bb g' kq) ks) with (sb (st_of g') kq ks). change (tb (bb g' rq) rs) with (sb (st_of g') rq rs).
  rewrite !(e_bs _ _ E). rewrite !(D_frame vic) by (try assumption; try congruence; auto).
  split; assumption.
Qed.

Theorem make_cons : cons g'.
Proof.
  pose proof make_consB as CB.
  destruct (make_scalars g m g' H) as (SW & _ & _ & CG & EG).
  constructor.
  - apply (b_len _ CB).
  - apply (b_disj _ CB).
  - apply (b_wocc _ CB).
  - apply (b_bocc _ CB).
  - apply (b_aocc _ CB).
  - apply (right_survives 0 WK 60 WR 63 CR_K (c_cK g C)); try discriminate.
    + intros _. destruct (white g); discriminate.
    + intros CS NF. destruct (white g) eqn:W; [|discriminate]. exfalso. apply NF. rewrite (k_castle_from g m K CS), W. reflexivity.
  - apply (right_survives 1 WK 60 WR 56 CR_Q (c_cQ g C)); try discriminate.
    + intros _. destruct (white g); discriminate.
    + intros CS NF. destruct (white g) eqn:W; [|discriminate]. exfalso. apply NF. rewrite (k_castle_from g m K CS), W. reflexivity.
  - apply (right_survives 2 BK 4 BR 7 CR_k (c_ck g C)); try discriminate.
    + intros _. destruct (white g); discriminate.
    + intros CS NF. destruct (white g) eqn:W; [discriminate|]. exfalso. apply NF. rewrite (k_castle_from g m K CS), W. reflexivity.
  - apply (right_survives 3 BK 4 BR 0 CR_q (c_cq g C)); try discriminate.
    + intros _. destruct (white g); discriminate.
    + intros CS NF. destruct (white g) eqn:W; [discriminate|]. exfalso. apply NF. rewrite (k_castle_from g m K CS), W. reflexivity.
  - (* the new en-passant square *)
    rewrite EG, SW. destruct (mdp m) eqn:DP; [|intros X; exfalso; apply X; reflexivity]. intros _.
    destruct (k_dp g m K DP) as (CAP & PR & PP & EB & REL).
    destruct made_st_eq as (vic & V & E).
    assert (CS : mcastle m = false) by (destruct (mcastle m) eqn:X; [destruct (k_castle g m K X) as (_ & _ & Y & _); congruence|reflexivity]).
    assert (DC : ops_D g m vic = ops_C g m vic).
    { unfold ops_D. cbn zeta. rewrite PR, CS. reflexivity. }
    assert (TP : tb (bb g' (mpiece m)) (mto m) = true).
    { change (tb (bb g' (mpiece m)) (mto m)) with (sb (st_of g') (mpiece m) (mto m)). rewrite (e_bs _ _ E), DC, (sb_C g m vic C K V).
      rewrite !N.eqb_refl. apply orb_true_r. }
    assert (AO : tb (aocc g') (behind (white g) (mto m)) = false).
    { change (tb (aocc g') (behind (white g) (mto m))) with (tb (s_ao (st_of g')) (behind (white g) (mto m))).
      rewrite (e_ao _ _ E), DC. unfold ops_C, ops_B. rewrite CAP. cbn [put s_ao]. rewrite tb_set, (ao_A g m), EB.
      unfold behind. destruct (white g); cbn [andb orb]; apply N.eqb_neq; lia. }
    rewrite PP in TP. unfold behind, ownP in *.
    destruct (white g) eqn:W; cbn [negb]; (split; [exact AO|]).
    + replace (mto m + 8 - 8) with (mto m) by lia. exact TP.
    + replace (mto m - 8 + 8) with (mto m) by lia. exact TP.
Qed.
End MakeCons.
Print Assumptions make_cons.
